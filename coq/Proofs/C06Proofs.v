(** C06 - history is immutable: reads pinned to an instant [t] do not change when later writes
    (commit times > t) are applied.  Holds for every variant of the write path and of the scans:
    every scan skips keys newer than [At] before touching its loop state, writes only add keys and
    versions stamped with their own (later) time, and the only deletions are same-batch tombstones
    carrying the batch's own time. *)
From Coq Require Import List ZArith Bool Lia Sorting.Permutation Sorting.Sorted.
From DH Require Import Model.Store Model.Refs Model.Query Model.PointInTime
     Proofs.StoreProofs Proofs.RefsProofs Proofs.QueryProofs Proofs.RefsInv.
Import ListNotations.
Open Scope Z_scope.

(** ** Part A: versions *)
Definition ds_sorted (l : list (Z * dstate)) : Prop := StronglySorted Z.lt (map fst l).

Lemma set_assoc_fst_In {V} k (v : V) l x : In x (map fst (set_assoc k v l)) <-> x = k \/ In x (map fst l).
Proof.
  induction l as [|[k' v'] l IH]; cbn [set_assoc map fst In]; [intuition congruence|].
  destruct (Z.eqb_spec k k') as [->|Hne]; cbn [map fst In]; [intuition congruence|].
  destruct (k <? k'); cbn [map fst In]; [intuition congruence|]. rewrite IH. intuition congruence.
Qed.

Lemma set_assoc_sorted k v l : ds_sorted l -> ds_sorted (set_assoc k v l).
Proof.
  unfold ds_sorted. induction l as [|[k' v'] l IH]; cbn [set_assoc map fst]; intros Hs.
  - repeat constructor.
  - inversion Hs as [|? ? Hs' Hf]; subst.
    destruct (Z.eqb_spec k k') as [->|Hne]; cbn [map fst]; [constructor; assumption|].
    destruct (Z.ltb_spec k k') as [Hlt|Hge]; cbn [map fst].
    + constructor; [constructor; assumption|]. constructor; [assumption|].
      eapply Forall_impl; [|exact Hf]. cbv beta. intros; lia.
    + constructor; [now apply IH|]. apply Forall_forall. intros x Hx. apply set_assoc_fst_In in Hx.
      destruct Hx as [->|Hx]; [lia|]. rewrite Forall_forall in Hf. now apply Hf.
Qed.

Definition lstep (sc : scope) (id : uri) (at_ : Z) (acc : list (Z * content) * bool) (p : Z * dstate) :=
  if scope_ok sc (fst p) then
    match best_version id at_ (d_entries (snd p)) None with
    | None => acc
    | Some e => if c_del (en_c e) then (fst acc, true) else (fst acc ++ [(fst p, en_c e)], snd acc)
    end
  else acc.

Lemma assoc_sorted_none {V} k k' (v' : V) (l : list (Z * V)) :
  StronglySorted Z.lt (k' :: map fst l) -> k < k' -> assoc k l = None.
Proof.
  intros Hs Hlt. inversion Hs as [|? ? _ Hf]; subst. clear Hs.
  induction l as [|[k2 v2] l IH]; cbn [assoc]; [reflexivity|].
  cbn [map fst] in Hf. inversion Hf as [|? ? H2 Hf']; subst.
  destruct (Z.eqb_spec k k2); [lia | now apply IH].
Qed.

Lemma fold_set_assoc sc id at_ k d' l : forall acc,
  ds_sorted l ->
  best_version id at_ (d_entries d') None
  = best_version id at_ (d_entries (match assoc k l with Some d => d | None => dstate0 end)) None ->
  fold_left (lstep sc id at_) (set_assoc k d' l) acc = fold_left (lstep sc id at_) l acc.
Proof.
  induction l as [|[k' v'] l IH]; intros acc Hs Hb; cbn [set_assoc fold_left assoc] in *.
  - unfold lstep. cbn [fst snd]. rewrite Hb. cbn. destruct (scope_ok sc k); reflexivity.
  - unfold ds_sorted in Hs. cbn [map fst] in Hs.
    destruct (Z.eqb_spec k k') as [->|Hne]; cbn [fold_left].
    + f_equal. unfold lstep. cbn [fst snd]. now rewrite Hb.
    + destruct (Z.ltb_spec k k') as [Hlt|Hge]; cbn [fold_left].
      * rewrite (assoc_sorted_none k k' v' l Hs Hlt) in Hb.
        f_equal. unfold lstep at 2. cbn [fst snd]. rewrite Hb. cbn. destruct (scope_ok sc k); reflexivity.
      * apply IH; [now inversion Hs | exact Hb].
Qed.

Lemma best_version_later id at_ P : Forall (fun e => at_ < en_time e) P ->
  forall E best, best_version id at_ (E ++ P) best = best_version id at_ E best.
Proof.
  intros HP. induction E as [|e E IH]; intros best; cbn [app best_version].
  - induction HP as [|e P He _ IHP]; cbn [best_version]; [reflexivity|].
    replace (en_time e <=? at_) with false by (symmetry; apply Z.leb_gt; lia). rewrite andb_false_r. exact IHP.
  - destruct (Z.eqb (en_id e) id && (en_time e <=? at_)); [|apply IH].
    destruct best as [b|]; [|apply IH].
    destruct ((en_time b <? en_time e) || (Z.eqb (en_time b) (en_time e) && (en_bidx b <? en_bidx e))); apply IH.
Qed.

Lemma batch_fold_pend fl dm d t l : forall acc,
  exists P, a_pend (fold_left (batch_step fl dm d t) l acc) = a_pend acc ++ P /\ Forall (fun e => en_time e = t) P.
Proof.
  induction l as [|[i e] l IH]; intros acc; cbn [fold_left].
  - exists []. rewrite app_nil_r. split; [reflexivity | constructor].
  - destruct (IH (batch_step fl dm d t acc (i, e))) as (P & HP & Ht). rewrite HP.
    unfold batch_step. destruct (keep_decision fl dm (stored_latest d (e_id e)) (assoc (e_id e) (a_loc acc)) (e_c e)).
    + cbn [a_pend]. eexists. rewrite <- app_assoc. split; [reflexivity|]. constructor; [reflexivity | exact Ht].
    + exists P. split; [reflexivity | exact Ht].
Qed.

Lemma store_batch_ds_entries fl dm t ents d :
  exists P, d_entries (store_batch_ds fl dm t ents d) = d_entries d ++ P /\ Forall (fun e => en_time e = t) P.
Proof.
  unfold store_batch_ds. cbn [d_entries].
  destruct (batch_fold_pend fl dm d t (number_from 0 ents)
              {| a_loc := []; a_pend := []; a_latest := d_latest d; a_next := d_next d |}) as (P & HP & Ht).
  cbn [a_pend app] in HP. exists P. rewrite HP. split; [reflexivity | exact Ht].
Qed.

Lemma lookup_set_ds fl dm st k t ents id at_ sc :
  ds_sorted (s_ds st) -> at_ < t ->
  lookup_at (set_ds st k (store_batch_ds fl dm t ents (get_ds st k))) id at_ sc = lookup_at st id at_ sc.
Proof.
  intros Hs Hlt. unfold lookup_at, set_ds. cbn [s_ds]. fold (lstep sc id at_).
  apply fold_set_assoc; [assumption|].
  destruct (store_batch_ds_entries fl dm t ents (get_ds st k)) as (P & HP & Ht). rewrite HP.
  unfold get_ds. apply best_version_later. eapply Forall_impl; [|exact Ht]. cbv beta. intros; lia.
Qed.

Lemma apply_wop_lookup fl dm st o id at_ sc :
  ds_sorted (s_ds st) -> at_ <= s_clock st ->
  lookup_at (apply_wop fl dm st o) id at_ sc = lookup_at st id at_ sc /\ ds_sorted (s_ds (apply_wop fl dm st o)).
Proof.
  intros Hs Hle. unfold apply_wop.
  assert (Ht : at_ < s_clock (tick st)) by (cbn; lia).
  assert (H1 : lookup_at (tick st) id at_ sc = lookup_at st id at_ sc) by reflexivity.
  assert (Hs1 : ds_sorted (s_ds (tick st))) by exact Hs.
  revert H1 Hs1 Ht. generalize (tick st) as st1. intros st1 H1 Hs1 Ht.
  destruct o as [k ents|sets].
  - split; [rewrite lookup_set_ds by assumption; exact H1 | apply set_assoc_sorted, Hs1].
  - remember (s_clock st1) as t eqn:Et. clear Et. revert st1 H1 Hs1.
    induction sets as [|[k ents] sets IH]; intros st1 H1 Hs1; cbn [fold_left fst snd]; [split; assumption|].
    apply IH.
    + rewrite lookup_set_ds by assumption. exact H1.
    + apply set_assoc_sorted, Hs1.
Qed.

Lemma run_wops_clock fl dm ops : forall st, s_clock st <= s_clock (run_wops fl dm ops st).
Proof.
  induction ops as [|o ops IH]; intros st; cbn [run_wops fold_left]; [lia|].
  specialize (IH (apply_wop fl dm st o)). unfold run_wops in IH.
  assert (Hc : s_clock (apply_wop fl dm st o) = s_clock st + 1).
  { unfold apply_wop. destruct o as [ds ents|sets]; [reflexivity|].
    assert (H : forall t l s, s_clock (fold_left (fun s (p : Z * list ent) =>
                set_ds s (fst p) (store_batch_ds fl dm t (snd p) (get_ds s (fst p)))) l s) = s_clock s).
    { intros t l. induction l as [|p l IHl]; intros s; cbn [fold_left]; [reflexivity|]. now rewrite IHl. }
    rewrite H. reflexivity. }
  lia.
Qed.

(** entity lookups pinned to [at_] never change *)
Theorem lookup_stable fl dm ops : forall st id at_ sc,
  ds_sorted (s_ds st) -> at_ <= s_clock st ->
  lookup_at (run_wops fl dm ops st) id at_ sc = lookup_at st id at_ sc /\ ds_sorted (s_ds (run_wops fl dm ops st)).
Proof.
  induction ops as [|o ops IH]; intros st id at_ sc Hs Hle; cbn [run_wops fold_left]; [split; [reflexivity | assumption]|].
  destruct (apply_wop_lookup fl dm st o id at_ sc Hs Hle) as [H1 H2].
  destruct (IH (apply_wop fl dm st o) id at_ sc H2) as [H3 H4].
  - pose proof (run_wops_clock fl dm [o] st) as Hc. cbn [run_wops fold_left] in Hc. lia.
  - unfold run_wops in H3, H4. split; [now rewrite H3 | assumption].
Qed.

Lemma ds_sorted0 : ds_sorted (s_ds store0).
Proof. constructor. Qed.

(** ** Part B: reference keys recorded at or before [at_] are never touched *)
Definition tle (at_ : Z) (k : rk) : bool := r_time k <=? at_.
Definition rop_key (o : rop) : rk := match o with RSet k => k | RDel k => k end.

Lemma filter_filter_imp {A} (p q : A -> bool) l :
  (forall x, p x = true -> q x = true) -> filter p (filter q l) = filter p l.
Proof.
  intros H. induction l as [|x l IH]; cbn [filter]; [reflexivity|].
  destruct (q x) eqn:Eq; cbn [filter]; [now rewrite IH|].
  destruct (p x) eqn:Ep; [apply H in Ep; congruence | exact IH].
Qed.

Lemma apply_rop_tle at_ l o : tle at_ (rop_key o) = false -> filter (tle at_) (apply_rop l o) = filter (tle at_) l.
Proof.
  destruct o as [k|k]; cbn [rop_key apply_rop]; intros Hk.
  - unfold kset_add. destruct (kmem k l); [reflexivity|]. cbn [filter]. now rewrite Hk.
  - unfold kset_del. apply filter_filter_imp. intros x Hx.
    destruct (rk_eqb k x) eqn:E; [|reflexivity]. apply rk_eqb_eq in E. subst. congruence.
Qed.

Lemma fold_rop_tle at_ ops : forall l,
  Forall (fun o => tle at_ (rop_key o) = false) ops -> filter (tle at_) (fold_left apply_rop ops l) = filter (tle at_) l.
Proof.
  induction ops as [|o ops IH]; intros l Hf; cbn [fold_left]; [reflexivity|].
  inversion Hf; subst. rewrite IH by assumption. now apply apply_rop_tle.
Qed.

Lemma ref_ops_time ds t isnew prev dl id c : Forall (fun o => r_time (rop_key o) = t) (ref_ops ds t isnew prev dl id c).
Proof.
  unfold ref_ops. destruct isnew; [apply Forall_forall; intros o Ho; apply in_map_iff in Ho; destruct Ho as (f & <- & _); reflexivity|].
  destruct (c_del c); [apply Forall_forall; intros o Ho; apply in_map_iff in Ho; destruct Ho as (f & <- & _); reflexivity|].
  apply Forall_app. split.
  - apply Forall_forall. intros o Ho. apply in_flat_map in Ho. destruct Ho as (f & _ & [<-|Ho]); [reflexivity|].
    destruct dl; [destruct Ho as [<-|[]]; reflexivity | destruct Ho].
  - apply Forall_forall; intros o Ho; apply in_map_iff in Ho; destruct Ho as (f & <- & _); reflexivity.
Qed.

Lemma rbatch_step_tle fl dm ds d t acc ie at_ : at_ < t ->
  filter (tle at_) (ra_keys (rbatch_step fl dm ds d t acc ie)) = filter (tle at_) (ra_keys acc)
  /\ (NoDup (ra_keys acc) -> NoDup (ra_keys (rbatch_step fl dm ds d t acc ie))).
Proof.
  intros Hlt. unfold rbatch_step.
  destruct (keep_decision fl dm (stored_latest d (e_id (snd ie))) (assoc (e_id (snd ie)) (a_loc (ra_b acc))) (e_c (snd ie)));
    cbn [ra_keys]; [|split; [reflexivity | tauto]].
  split; [|apply fold_rop_NoDup].
  apply fold_rop_tle. eapply Forall_impl; [|apply ref_ops_time]. cbv beta. intros o Ho. unfold tle. rewrite Ho.
  apply Z.leb_gt. lia.
Qed.

Lemma rstore_batch_ds_tle fl dm t ds ents rs at_ : at_ < t ->
  filter (tle at_) (rs_keys (rstore_batch_ds fl dm t ds ents rs)) = filter (tle at_) (rs_keys rs)
  /\ (NoDup (rs_keys rs) -> NoDup (rs_keys (rstore_batch_ds fl dm t ds ents rs))).
Proof.
  intros Hlt. unfold rstore_batch_ds. cbn [rs_keys].
  set (acc0 := {| ra_b := _; ra_known := rs_known rs; ra_keys := rs_keys rs |}).
  change (rs_keys rs) with (ra_keys acc0). generalize acc0. generalize (number_from 0 ents).
  induction l as [|ie l IH]; intros acc; cbn [fold_left]; [split; [reflexivity | tauto]|].
  destruct (IH (rbatch_step fl dm ds (get_ds (rs_st rs) ds) t acc ie)) as [H1 H2].
  destruct (rbatch_step_tle fl dm ds (get_ds (rs_st rs) ds) t acc ie at_ Hlt) as [H3 H4].
  split; [now rewrite H1 | tauto].
Qed.

Lemma txn_fold_tle fl dm t at_ sets : at_ < t -> forall r,
  filter (tle at_) (rs_keys (fold_left (fun s (p : Z * list ent) => rstore_batch_ds fl dm t (fst p) (snd p) s) sets r))
  = filter (tle at_) (rs_keys r)
  /\ (NoDup (rs_keys r) -> NoDup (rs_keys (fold_left (fun s (p : Z * list ent) => rstore_batch_ds fl dm t (fst p) (snd p) s) sets r))).
Proof.
  intros Ht. induction sets as [|[k ents] sets IH]; intros r; cbn [fold_left fst snd]; [split; [reflexivity | tauto]|].
  destruct (IH (rstore_batch_ds fl dm t k ents r)) as [H1 H2].
  destruct (rstore_batch_ds_tle fl dm t k ents r at_ Ht) as [H3 H4].
  split; [now rewrite H1 | tauto].
Qed.

Lemma rapply_tle fl dm rs o at_ : at_ <= s_clock (rs_st rs) ->
  filter (tle at_) (rs_keys (rapply fl dm rs o)) = filter (tle at_) (rs_keys rs)
  /\ (NoDup (rs_keys rs) -> NoDup (rs_keys (rapply fl dm rs o))).
Proof.
  intros Hle. unfold rapply.
  assert (Ht : at_ < s_clock (rs_st (rtick rs))) by (cbn; lia).
  destruct o as [ds ents|sets].
  - apply (rstore_batch_ds_tle fl dm _ ds ents (rtick rs) at_ Ht).
  - apply (txn_fold_tle fl dm _ at_ sets Ht (rtick rs)).
Qed.

Lemma rapply_clock fl dm rs o : s_clock (rs_st (rapply fl dm rs o)) = s_clock (rs_st rs) + 1.
Proof. rewrite rapply_st. apply apply_wop_clock. Qed.

Theorem keys_stable fl dm ops : forall rs at_, at_ <= s_clock (rs_st rs) ->
  filter (tle at_) (rs_keys (rrun fl dm ops rs)) = filter (tle at_) (rs_keys rs)
  /\ (NoDup (rs_keys rs) -> NoDup (rs_keys (rrun fl dm ops rs)))
  /\ s_clock (rs_st rs) <= s_clock (rs_st (rrun fl dm ops rs)).
Proof.
  induction ops as [|o ops IH]; intros rs at_ Hle; cbn [rrun fold_left]; [split; [reflexivity | split; [tauto | lia]]|].
  destruct (rapply_tle fl dm rs o at_ Hle) as [H1 H2].
  pose proof (rapply_clock fl dm rs o) as Hc.
  destruct (IH (rapply fl dm rs o) at_ ltac:(lia)) as (H3 & H4 & H5). unfold rrun in *.
  split; [now rewrite H3|]. split; [tauto | lia].
Qed.

(** ** Part C: sorting and filtering commute (a sorted duplicate-free list is determined by its elements) *)
Section SortUnique.
  Variable ltb : rk -> rk -> bool.
  Hypothesis ltb_trans : forall a b c, ltb a b = true -> ltb b c = true -> ltb a c = true.
  Hypothesis ltb_irrefl : forall a, ltb a a = false.
  Hypothesis ltb_total : forall a b, a <> b -> ltb a b = false -> ltb b a = true.

  Lemma ordered_unique l1 : forall l2,
    ordered ltb l1 -> ordered ltb l2 -> NoDup l1 -> NoDup l2 -> (forall x, In x l1 <-> In x l2) -> l1 = l2.
  Proof.
    induction l1 as [|a l1 IH]; intros [|b l2] Ho1 Ho2 Hn1 Hn2 Hin.
    - reflexivity.
    - exfalso. apply (Hin b). now left.
    - exfalso. apply (Hin a). now left.
    - unfold ordered in *. inversion Ho1 as [|? ? Ho1' Hf1]; subst. inversion Ho2 as [|? ? Ho2' Hf2]; subst.
      inversion Hn1 as [|? ? Ha Hn1']; subst. inversion Hn2 as [|? ? Hb Hn2']; subst.
      rewrite Forall_forall in Hf1, Hf2.
      assert (Hab : a = b).
      { destruct (rk_eq_dec a b) as [E|E]; [assumption|]. exfalso.
        assert (Ha2 : In a l2) by (destruct (proj1 (Hin a) (or_introl eq_refl)); [congruence | assumption]).
        assert (Hb1 : In b l1) by (destruct (proj2 (Hin b) (or_introl eq_refl)); [congruence | assumption]).
        specialize (Hf1 b Hb1). specialize (Hf2 a Ha2). (* ltb b a = false, ltb a b = false *)
        apply ltb_total in Hf1; [congruence | congruence]. }
      subst b. f_equal. apply IH; try assumption.
      intros x. split; intros Hx.
      + destruct (proj1 (Hin x) (or_intror Hx)) as [<-|H]; [contradiction | assumption].
      + destruct (proj2 (Hin x) (or_intror Hx)) as [<-|H]; [contradiction | assumption].
  Qed.

  Lemma isort_filter_comm p l : NoDup l -> filter p (isort ltb l) = isort ltb (filter p l).
  Proof.
    intros Hnd. apply ordered_unique.
    - apply ordered_filter, isort_ordered; assumption.
    - apply isort_ordered; assumption.
    - apply NoDup_filter, isort_NoDup, Hnd.
    - apply isort_NoDup, NoDup_filter, Hnd.
    - intros x. rewrite filter_In, !isort_In, filter_In. tauto.
  Qed.
End SortUnique.

Lemma filter_comm {A} (p q : A -> bool) l : filter p (filter q l) = filter q (filter p l).
Proof.
  induction l as [|x l IH]; cbn [filter]; [reflexivity|].
  destruct (p x) eqn:Ep, (q x) eqn:Eq; cbn [filter]; rewrite ?Ep, ?Eq, IH; reflexivity.
Qed.

Lemma pass_tle fr k : pass fr k = true -> tle (f_at fr) k = true.
Proof. unfold pass, tle. rewrite !andb_true_iff. tauto. Qed.

Section Views.
  Variables (K K' : list rk) (fr : rfrom).
  Hypothesis HK : NoDup K.
  Hypothesis HK' : NoDup K'.
  Hypothesis Hsame : filter (tle (f_at fr)) K = filter (tle (f_at fr)) K'.

  Lemma sorted_view_stable ltb sel :
    (forall a b c, ltb a b = true -> ltb b c = true -> ltb a c = true) -> (forall a, ltb a a = false) ->
    (forall a b, a <> b -> ltb a b = false -> ltb b a = true) ->
    filter (pass fr) (isort ltb (filter sel K)) = filter (pass fr) (isort ltb (filter sel K')).
  Proof.
    intros Ht Hi Htot.
    rewrite <- (filter_filter_imp (pass fr) (tle (f_at fr)) (isort ltb (filter sel K))) by apply pass_tle.
    rewrite <- (filter_filter_imp (pass fr) (tle (f_at fr)) (isort ltb (filter sel K'))) by apply pass_tle.
    rewrite (isort_filter_comm ltb Ht Hi Htot (tle (f_at fr)) (filter sel K)) by (apply NoDup_filter; assumption).
    rewrite (isort_filter_comm ltb Ht Hi Htot (tle (f_at fr)) (filter sel K')) by (apply NoDup_filter; assumption).
    rewrite (filter_comm (tle (f_at fr)) sel K), (filter_comm (tle (f_at fr)) sel K'), Hsame. reflexivity.
  Qed.

  Lemma out_view_stable src : filter (pass fr) (out_view K src) = filter (pass fr) (out_view K' src).
  Proof.
    apply sorted_view_stable.
    - intros a b c H1 H2. eapply okey_ltb_trans; eassumption.
    - intros a. apply okey_ltb_irrefl.
    - intros a b Hne H. apply okey_ltb_total; [congruence | assumption].
  Qed.
  Lemma in_view_stable tgt : filter (pass fr) (in_view K tgt) = filter (pass fr) (in_view K' tgt).
  Proof.
    apply sorted_view_stable; [apply ikey_ltb_trans | apply ikey_ltb_irrefl | apply ikey_ltb_total].
  Qed.
  Lemma in_view_desc_stable tgt : filter (pass fr) (in_view_desc K tgt) = filter (pass fr) (in_view_desc K' tgt).
  Proof.
    apply sorted_view_stable.
    - intros a b c H1 H2. eapply ikey_ltb_trans; eassumption.
    - intros a. apply ikey_ltb_irrefl.
    - intros a b Hne H. apply ikey_ltb_total; [congruence | assumption].
  Qed.
  Lemma in_view_from_stable : filter (pass fr) (in_view_from K fr) = filter (pass fr) (in_view_from K' fr).
  Proof.
    unfold in_view_from. destruct (f_key fr) as [s|]; [|apply in_view_stable].
    rewrite !(filter_comm (pass fr)). f_equal. apply in_view_stable.
  Qed.
End Views.

(** ** Part D: the scans only look at passing keys *)
Lemma inv_finish_at_limit limit st v : 0 <= limit -> at_limit limit (i_res st) = true ->
  inv_finish v limit st = (i_res st, i_cont st).
Proof.
  intros Hl Hat. unfold at_limit in Hat. apply andb_true_iff in Hat. destruct Hat as [Hne Hle].
  apply negb_true_iff, Z.eqb_neq in Hne. apply Z.leb_le in Hle.
  unfold inv_finish. replace (Z.eqb limit 0) with false by (symmetry; now apply Z.eqb_neq).
  replace (len (i_res st) <? limit) with false by (symmetry; apply Z.ltb_ge; lia). cbn [orb].
  replace (Z.eqb (len (i_res st)) 0) with false by (symmetry; apply Z.eqb_neq; lia).
  cbn [orb]. rewrite andb_false_r. reflexivity.
Qed.

Lemma inv_loop_at_limit fr limit ks st : 0 <= limit -> at_limit limit (i_res st) = true ->
  inv_loop fr limit ks st = (i_res st, i_cont st).
Proof.
  intros Hl Hat. destruct ks as [|k ks]; cbn [inv_loop]; [|rewrite Hat]; now apply inv_finish_at_limit.
Qed.

Lemma inv_loop_skip fr limit ks : 0 <= limit -> forall st,
  inv_loop fr limit ks st = inv_loop fr limit (filter (pass fr) ks) st.
Proof.
  intros Hl. induction ks as [|k ks IH]; intros st; cbn [filter inv_loop]; [reflexivity|].
  destruct (at_limit limit (i_res st)) eqn:Hat.
  - rewrite inv_loop_at_limit by assumption. now apply inv_finish_at_limit.
  - destruct (pass fr k) eqn:Ep; cbn [negb inv_loop]; [rewrite Hat, Ep; cbn [negb]|]; apply IH.
Qed.

Theorem related_stable q K K' fr limit :
  NoDup K -> NoDup K' -> filter (tle (f_at fr)) K = filter (tle (f_at fr)) K' -> 0 <= limit ->
  related q K fr limit = related q K' fr limit.
Proof.
  intros HK HK' Hsame Hl. unfold related. destruct (f_inv fr).
  - unfold related_in. destruct (q_inv1 q).
    + rewrite (inv_loop_skip fr limit (in_view_from K fr) Hl), (inv_loop_skip fr limit (in_view_from K' fr) Hl).
      now rewrite (in_view_from_stable K K' fr HK HK' Hsame).
    + unfold related_in_fixed. rewrite (out_loop_skip ifact false fr limit (in_view_desc K (f_start fr))),
        (out_loop_skip ifact false fr limit (in_view_desc K' (f_start fr))).
      now rewrite (in_view_desc_stable K K' fr HK HK' Hsame).
  - unfold related_out. rewrite (out_loop_skip ofact (q_noadd q) fr limit (out_view K (f_start fr))),
      (out_loop_skip ofact (q_noadd q) fr limit (out_view K' (f_start fr))).
    now rewrite (out_view_stable K K' fr HK HK' Hsame).
Qed.

(** ** Part E: limit accounting and continuations (which carry At) *)
Lemma related_cont_at q K fr limit c : snd (related q K fr limit) = Some c -> f_at c = f_at fr.
Proof.
  unfold related. destruct (f_inv fr).
  - destruct (related_in (q_inv1 q) K fr limit) as [rs [k|]]; cbn; [intros [= <-]; reflexivity | discriminate].
  - destruct (related_out (q_noadd q) K fr limit) as [rs [k|]]; cbn; [intros [= <-]; reflexivity | discriminate].
Qed.

Lemma many_related_stable q K K' t froms : forall limit u,
  NoDup K -> NoDup K' -> filter (tle t) K = filter (tle t) K' -> 0 <= limit ->
  Forall (fun fr => f_at fr = t) froms ->
  many_related q K froms limit u = many_related q K' froms limit u
  /\ Forall (fun fr => f_at fr = t) (snd (many_related q K froms limit u)).
Proof.
  induction froms as [|fr froms IH]; intros limit u HK HK' Hsame Hl Hat; cbn [many_related]; [split; [reflexivity | constructor]|].
  inversion Hat as [|? ? Hfr Hat']; subst.
  destruct ((0 <? limit) || u).
  - rewrite <- (related_stable q K K' fr limit HK HK' Hsame Hl).
    pose proof (related_cont_at q K fr limit) as Hc.
    destruct (related q K fr limit) as [rs c]. cbn [snd] in Hc.
    destruct (IH (Z.max (limit - len rs) 0) u HK HK' Hsame ltac:(lia) Hat') as [H1 H2]. rewrite <- H1.
    destruct (many_related q K froms (Z.max (limit - len rs) 0) u) as [rs2 cs2]. cbn [snd] in *.
    split; [reflexivity|]. destruct c as [c'|]; [constructor; [now apply Hc | assumption] | assumption].
  - destruct (IH limit u HK HK' Hsame Hl Hat') as [H1 H2]. rewrite <- H1.
    destruct (many_related q K froms limit u) as [rs2 cs2]. cbn [snd] in *.
    split; [reflexivity | constructor; [reflexivity | assumption]].
Qed.

Lemma nth_limit_nonneg limits p : Forall (fun l => 0 <= l) limits -> 0 <= nth_limit limits p.
Proof.
  intros H. unfold nth_limit. destruct limits as [|l0 ls]; [lia|].
  assert (Hlast : 0 <= last (l0 :: ls) 0).
  { clear p. revert H. generalize (l0 :: ls). induction l as [|x l IH]; intros H; cbn [last]; [lia|].
    inversion H; subst. destruct l; [assumption | now apply IH]. }
  rewrite Forall_forall in H. destruct (nth_in_or_default p (l0 :: ls) (last (l0 :: ls) 0)) as [Hin | Heq]; [now apply H | rewrite Heq; assumption].
Qed.

(** a paged query continued through its continuation tokens returns the same pages *)
Theorem follow_stable q K K' t limits : NoDup K -> NoDup K' -> filter (tle t) K = filter (tle t) K' ->
  Forall (fun l => 0 <= l) limits ->
  forall fuel froms p, Forall (fun fr => f_at fr = t) froms ->
  follow q K froms limits p fuel = follow q K' froms limits p fuel.
Proof.
  intros HK HK' Hsame Hlim. induction fuel as [|fuel IH]; intros froms p Hat; cbn [follow]; [reflexivity|].
  destruct (many_related_stable q K K' t froms (nth_limit limits p) (Z.eqb (nth_limit limits p) 0) HK HK' Hsame
              (nth_limit_nonneg limits p Hlim) Hat) as [H1 H2].
  rewrite <- H1. destruct (many_related q K froms (nth_limit limits p) (Z.eqb (nth_limit limits p) 0)) as [rs cs].
  cbn [snd] in H2. destruct cs as [|c cs]; [reflexivity|].
  destruct (nth_limit limits p <=? 0); [reflexivity|]. f_equal. now apply IH.
Qed.

(** ** C06 assembled *)
Theorem related_pinned fl dm ops rs q t froms limits p fuel :
  NoDup (rs_keys rs) -> t <= s_clock (rs_st rs) ->
  Forall (fun l => 0 <= l) limits -> Forall (fun fr => f_at fr = t) froms ->
  follow q (rs_keys (rrun fl dm ops rs)) froms limits p fuel = follow q (rs_keys rs) froms limits p fuel.
Proof.
  intros Hnd Ht Hlim Hat. destruct (keys_stable fl dm ops rs t Ht) as (H1 & H2 & _).
  symmetry. apply (follow_stable q (rs_keys rs) (rs_keys (rrun fl dm ops rs)) t limits Hnd (H2 Hnd) (eq_sym H1) Hlim fuel froms p Hat).
Qed.

Theorem entity_pinned fl dm ops rs id t sc :
  ds_sorted (s_ds (rs_st rs)) -> t <= s_clock (rs_st rs) ->
  lookup_at (rs_st (rrun fl dm ops rs)) id t sc = lookup_at (rs_st rs) id t sc.
Proof.
  intros Hs Ht. rewrite rrun_st. apply lookup_stable; assumption.
Qed.

(** bodies of related entities, when read at the query's own instant, are pinned too *)
Theorem body_pinned fl dm ops rs fr k :
  ds_sorted (s_ds (rs_st rs)) -> f_at fr <= s_clock (rs_st rs) ->
  body_of false (rs_st (rrun fl dm ops rs)) fr k = body_of false (rs_st rs) fr k.
Proof. intros Hs Ht. unfold body_of, body_at. now apply entity_pinned. Qed.

(** ** now = then: a query evaluated "now" (any instant not before the clock) when the clock was [t]
    is the query pinned to [t] *)
Lemma best_version_ext id a b E : Forall (fun e => (en_time e <=? a) = (en_time e <=? b)) E ->
  forall best, best_version id a E best = best_version id b E best.
Proof.
  induction 1 as [|e E He _ IH]; intros best; cbn [best_version]; [reflexivity|].
  rewrite He. destruct (Z.eqb (en_id e) id && (en_time e <=? b)); [|apply IH].
  destruct best as [x|]; [|apply IH].
  destruct ((en_time x <? en_time e) || (Z.eqb (en_time x) (en_time e) && (en_bidx x <? en_bidx e))); apply IH.
Qed.

Definition etimes (st : store) : Prop :=
  Forall (fun p : Z * dstate => Forall (fun e => en_time e <= s_clock st) (d_entries (snd p))) (s_ds st).

Theorem lookup_now_then st id a sc : etimes st -> s_clock st <= a ->
  lookup_at st id a sc = lookup_at st id (s_clock st) sc.
Proof.
  intros He Ha. unfold lookup_at. unfold etimes in He. generalize (([] : list (Z * content)), false).
  induction He as [|p l Hp _ IH]; intros acc; cbn [fold_left]; [reflexivity|].
  rewrite (best_version_ext id a (s_clock st) (d_entries (snd p))).
  - apply IH.
  - eapply Forall_impl; [|exact Hp]. cbv beta. intros e Hle.
    replace (en_time e <=? a) with true by (symmetry; apply Z.leb_le; lia).
    symmetry. apply Z.leb_le. lia.
Qed.

Lemma set_assoc_In {V} k (v : V) l x : In x (set_assoc k v l) -> x = (k, v) \/ In x l.
Proof.
  induction l as [|[k' v'] l IH]; cbn [set_assoc In]; [intuition congruence|].
  destruct (Z.eqb k k'); cbn [In]; [intuition congruence|]. destruct (k <? k'); cbn [In]; [intuition congruence|]. intros [H|H]; [now (right; left)|].
  apply IH in H. tauto.
Qed.

Lemma get_ds_etimes st k : etimes st -> Forall (fun e => en_time e <= s_clock st) (d_entries (get_ds st k)).
Proof.
  unfold etimes, get_ds. intros He. induction He as [|[k' d'] l Hp _ IH]; cbn [assoc]; [constructor|].
  destruct (Z.eqb k k'); [exact Hp | exact IH].
Qed.

Lemma etimes_mono st c : s_clock st <= c -> etimes st -> etimes {| s_ds := s_ds st; s_clock := c |}.
Proof.
  unfold etimes. cbn [s_ds s_clock]. intros Hle He. eapply Forall_impl; [|exact He]. cbv beta.
  intros p Hp. eapply Forall_impl; [|exact Hp]. cbv beta. intros; lia.
Qed.

Lemma set_ds_etimes fl dm st k ents : etimes st ->
  etimes (set_ds st k (store_batch_ds fl dm (s_clock st) ents (get_ds st k))).
Proof.
  intros He. unfold etimes, set_ds. cbn [s_ds s_clock]. apply Forall_forall. intros p Hp.
  apply set_assoc_In in Hp. destruct Hp as [->|Hp]; cbn [snd].
  - destruct (store_batch_ds_entries fl dm (s_clock st) ents (get_ds st k)) as (P & HP & Ht). rewrite HP.
    apply Forall_app. split; [now apply get_ds_etimes|]. eapply Forall_impl; [|exact Ht]. cbv beta. intros; lia.
  - unfold etimes in He. rewrite Forall_forall in He. now apply He.
Qed.

Lemma apply_wop_etimes fl dm st o : etimes st -> etimes (apply_wop fl dm st o).
Proof.
  intros He. unfold apply_wop.
  assert (H1 : etimes (tick st)) by (apply (etimes_mono st (s_clock st + 1)); [lia | assumption]).
  revert H1. generalize (tick st) as s. intros s H1.
  destruct o as [k ents|sets]; [now apply set_ds_etimes|].
  assert (G : forall l s0, etimes s0 -> etimes (fold_left (fun s1 (p : Z * list ent) =>
              set_ds s1 (fst p) (store_batch_ds fl dm (s_clock s0) (snd p) (get_ds s1 (fst p)))) l s0)).
  { intros l s0. remember (s_clock s0) as t eqn:Et. revert s0 Et.
    induction l as [|p l IH]; intros s0 Et H0; cbn [fold_left]; [assumption|].
    apply IH; [subst t; reflexivity | subst t; now apply set_ds_etimes]. }
  now apply G.
Qed.

Lemma run_wops_etimes fl dm ops : forall st, etimes st -> etimes (run_wops fl dm ops st).
Proof.
  induction ops as [|o ops IH]; intros st He; cbn [run_wops fold_left]; [assumption|].
  apply IH, apply_wop_etimes, He.
Qed.

Lemma etimes0 : etimes store0.
Proof. constructor. Qed.

(** the scans consult [fr] only through [pass] on the keys at hand and through the continuation key *)
Lemma out_loop_ext fact noadd fr fr' limit ks : forall seen added reached res cont,
  (forall k, In k ks -> pass fr k = pass fr' k) -> f_key fr = f_key fr' ->
  out_loop fact noadd fr limit ks seen added reached res cont = out_loop fact noadd fr' limit ks seen added reached res cont.
Proof.
  induction ks as [|k ks IH]; intros seen added reached res cont Hp Hk; cbn [out_loop]; [reflexivity|].
  rewrite <- (Hp k (or_introl eq_refl)), <- Hk.
  assert (Hp' : forall k0, In k0 ks -> pass fr k0 = pass fr' k0) by (intros; apply Hp; now right).
  destruct (negb (pass fr k)); [now apply IH|]. cbv zeta.
  destruct (tmem (fact k, r_ds k) seen || pmem (fact k) added); [now apply IH|].
  destruct (negb (r_del k) && reached); [destruct (at_limit limit res); [reflexivity | now apply IH] | now apply IH].
Qed.

Lemma inv_loop_ext fr fr' limit ks : forall st,
  (forall k, In k ks -> pass fr k = pass fr' k) ->
  inv_loop fr limit ks st = inv_loop fr' limit ks st.
Proof.
  induction ks as [|k ks IH]; intros st Hp; cbn [inv_loop]; [reflexivity|].
  rewrite <- (Hp k (or_introl eq_refl)).
  assert (Hp' : forall k0, In k0 ks -> pass fr k0 = pass fr' k0) by (intros; apply Hp; now right).
  destruct (at_limit limit (i_res st)); [reflexivity|]. destruct (negb (pass fr k)); now apply IH.
Qed.

Definition with_at (fr : rfrom) (a : Z) : rfrom :=
  {| f_start := f_start fr; f_key := f_key fr; f_pred := f_pred fr; f_inv := f_inv fr; f_scope := f_scope fr; f_at := a |}.

Lemma pass_with_at fr a b k : r_time k <= a -> r_time k <= b -> pass (with_at fr a) k = pass (with_at fr b) k.
Proof.
  intros Ha Hb. unfold pass, with_at. cbn [f_scope f_at f_pred].
  replace (r_time k <=? a) with true by (symmetry; now apply Z.leb_le).
  replace (r_time k <=? b) with true by (symmetry; now apply Z.leb_le). reflexivity.
Qed.

Theorem related_now_then q K fr limit c a :
  (forall k, In k K -> r_time k <= c) -> c <= a ->
  fst (related q K (with_at fr a) limit) = fst (related q K (with_at fr c) limit).
Proof.
  intros Hk Ha.
  assert (Hp : forall k, In k K -> pass (with_at fr a) k = pass (with_at fr c) k).
  { intros k Hin. specialize (Hk k Hin). apply pass_with_at; lia. }
  unfold related. cbn [with_at f_inv]. destruct (f_inv fr).
  - unfold related_in. destruct (q_inv1 q).
    + unfold in_view_from. cbn [with_at f_key f_start].
      rewrite (inv_loop_ext (with_at fr a) (with_at fr c)).
      * destruct (inv_loop (with_at fr c) limit _ istate0). reflexivity.
      * intros k Hin. apply Hp. destruct (f_key fr); [apply filter_In in Hin; destruct Hin as [Hin _]|];
          apply in_view_In in Hin; tauto.
    + unfold related_in_fixed. cbn [with_at f_key f_start].
      rewrite (out_loop_ext ifact false (with_at fr a) (with_at fr c)).
      * destruct (out_loop ifact false (with_at fr c) limit _ [] [] _ [] None). reflexivity.
      * intros k Hin. apply Hp. apply in_view_desc_In in Hin. tauto.
      * reflexivity.
  - unfold related_out. cbn [with_at f_key f_start].
    rewrite (out_loop_ext ofact (q_noadd q) (with_at fr a) (with_at fr c)).
    + destruct (out_loop ofact (q_noadd q) (with_at fr c) limit _ [] [] _ [] None). reflexivity.
    + intros k Hin. apply Hp. apply out_view_In in Hin. tauto.
    + reflexivity.
Qed.

(** all keys of a reachable state are stamped at or before the clock *)
Lemma fold_rop_In ops : forall l x, In x (fold_left apply_rop ops l) -> In x l \/ exists o, In o ops /\ rop_key o = x.
Proof.
  induction ops as [|o ops IH]; intros l x Hx; cbn [fold_left] in Hx; [now left|].
  apply IH in Hx. destruct Hx as [Hx|(o' & Ho' & He)]; [|right; exists o'; split; [now right | assumption]].
  destruct o as [k|k]; cbn [apply_rop] in Hx.
  - apply kset_add_In in Hx. destruct Hx as [->|Hx]; [right; exists (RSet k); split; [now left | reflexivity] | now left].
  - apply kset_del_In in Hx. left. tauto.
Qed.

Definition ktimes (rs : rstore) : Prop := forall k, In k (rs_keys rs) -> r_time k <= s_clock (rs_st rs).

Lemma rstore_batch_ds_ktimes fl dm t ds ents rs :
  (forall k, In k (rs_keys rs) -> r_time k <= t) ->
  forall k, In k (rs_keys (rstore_batch_ds fl dm t ds ents rs)) -> r_time k <= t.
Proof.
  unfold rstore_batch_ds. cbn [rs_keys].
  set (acc0 := {| ra_b := _; ra_known := rs_known rs; ra_keys := rs_keys rs |}).
  change (rs_keys rs) with (ra_keys acc0). generalize acc0. generalize (number_from 0 ents).
  induction l as [|ie l IH]; intros acc Hk; cbn [fold_left]; [exact Hk|].
  apply IH. intros k Hin. unfold rbatch_step in Hin.
  destruct (keep_decision fl dm (stored_latest (get_ds (rs_st rs) ds) (e_id (snd ie)))
              (assoc (e_id (snd ie)) (a_loc (ra_b acc))) (e_c (snd ie))); cbn [ra_keys] in Hin; [|now apply Hk].
  apply fold_rop_In in Hin. destruct Hin as [Hin|(o & Ho & <-)]; [now apply Hk|].
  match type of Ho with In _ (ref_ops _ _ ?a ?b ?c ?d ?e) => pose proof (ref_ops_time ds t a b c d e) as Hf end.
  rewrite Forall_forall in Hf. rewrite (Hf o Ho). lia.
Qed.

Lemma rapply_ktimes fl dm rs o : ktimes rs -> ktimes (rapply fl dm rs o).
Proof.
  intros Hk. unfold ktimes. rewrite rapply_clock. unfold rapply.
  change (s_clock (rs_st (rtick rs))) with (s_clock (rs_st rs) + 1).
  assert (H1 : forall k, In k (rs_keys (rtick rs)) -> r_time k <= s_clock (rs_st rs) + 1).
  { intros k Hin. specialize (Hk k Hin). lia. }
  revert H1. generalize (rtick rs) as r. generalize (s_clock (rs_st rs) + 1) as t. intros t r H1.
  destruct o as [ds ents|sets]; [now apply rstore_batch_ds_ktimes|].
  revert r H1. induction sets as [|[k ents] sets IH]; intros r H1; cbn [fold_left fst snd]; [assumption|].
  apply IH. now apply rstore_batch_ds_ktimes.
Qed.

Lemma rrun_ktimes fl dm ops : forall rs, ktimes rs -> ktimes (rrun fl dm ops rs).
Proof.
  induction ops as [|o ops IH]; intros rs Hk; cbn [rrun fold_left]; [assumption|]. apply IH, rapply_ktimes, Hk.
Qed.

Lemma ktimes0 : ktimes rstore0.
Proof. intros k []. Qed.

(** ** for every state reached from the empty store (any flags), and every later suffix of writes (any flags) *)
Lemma reach_facts fl dm ops :
  let rs := rrun fl dm ops rstore0 in
  ds_sorted (s_ds (rs_st rs)) /\ NoDup (rs_keys rs) /\ etimes (rs_st rs) /\ ktimes rs.
Proof.
  cbv zeta. split; [|split; [|split]].
  - rewrite rrun_st. apply (lookup_stable fl dm ops store0 0 0 ScAll ds_sorted0). cbn. lia.
  - apply (keys_stable fl dm ops rstore0 0); [cbn; lia | constructor].
  - rewrite rrun_st. apply run_wops_etimes, etimes0.
  - apply rrun_ktimes, ktimes0.
Qed.

Theorem C06_entity_thm fl dm ops fl' dm' later id t sc :
  let rs := rrun fl dm ops rstore0 in
  t <= s_clock (rs_st rs) ->
  lookup_at (rs_st (rrun fl' dm' later rs)) id t sc = lookup_at (rs_st rs) id t sc.
Proof. cbv zeta. intros Ht. apply entity_pinned; [apply reach_facts | exact Ht]. Qed.

Theorem C06_related_thm fl dm ops fl' dm' later q t froms limits fuel :
  let rs := rrun fl dm ops rstore0 in
  t <= s_clock (rs_st rs) -> Forall (fun l => 0 <= l) limits -> Forall (fun fr => f_at fr = t) froms ->
  follow q (rs_keys (rrun fl' dm' later rs)) froms limits 0 fuel = follow q (rs_keys rs) froms limits 0 fuel.
Proof. cbv zeta. intros Ht Hl Hf. apply (related_pinned fl' dm' later _ q t); try assumption. apply reach_facts. Qed.

Theorem C06_body_thm fl dm ops fl' dm' later fr k :
  let rs := rrun fl dm ops rstore0 in
  f_at fr <= s_clock (rs_st rs) ->
  body_of false (rs_st (rrun fl' dm' later rs)) fr k = body_of false (rs_st rs) fr k.
Proof. cbv zeta. intros Ht. apply body_pinned; [apply reach_facts | exact Ht]. Qed.

Theorem C06_now_then_entity_thm fl dm ops id a sc :
  let rs := rrun fl dm ops rstore0 in
  s_clock (rs_st rs) <= a -> lookup_at (rs_st rs) id a sc = lookup_at (rs_st rs) id (s_clock (rs_st rs)) sc.
Proof. cbv zeta. intros Ha. apply lookup_now_then; [apply reach_facts | exact Ha]. Qed.

Theorem C06_now_then_related_thm fl dm ops q fr limit a :
  let rs := rrun fl dm ops rstore0 in
  s_clock (rs_st rs) <= a ->
  fst (related q (rs_keys rs) (with_at fr a) limit) = fst (related q (rs_keys rs) (with_at fr (s_clock (rs_st rs))) limit).
Proof. cbv zeta. intros Ha. apply related_now_then; [apply reach_facts | exact Ha]. Qed.

(** ** commit order = time order: what a write adds is stamped with the new clock value, which is greater than
    every time already in the store - so successive commits to a dataset carry strictly increasing times *)
Lemma rstore_batch_ds_newkeys fl dm t ds ents rs k :
  In k (rs_keys (rstore_batch_ds fl dm t ds ents rs)) -> In k (rs_keys rs) \/ r_time k = t.
Proof.
  unfold rstore_batch_ds. cbn [rs_keys].
  set (acc0 := {| ra_b := _; ra_known := rs_known rs; ra_keys := rs_keys rs |}).
  change (rs_keys rs) with (ra_keys acc0). generalize acc0. generalize (number_from 0 ents).
  induction l as [|ie l IH]; intros acc; cbn [fold_left]; [now left|].
  intros Hin. apply IH in Hin. destruct Hin as [Hin|Hin]; [|now right].
  unfold rbatch_step in Hin.
  destruct (keep_decision fl dm (stored_latest (get_ds (rs_st rs) ds) (e_id (snd ie)))
              (assoc (e_id (snd ie)) (a_loc (ra_b acc))) (e_c (snd ie))); cbn [ra_keys] in Hin; [|now left].
  apply fold_rop_In in Hin. destruct Hin as [Hin|(o & Ho & <-)]; [now left|]. right.
  match type of Ho with In _ (ref_ops _ _ ?a ?b ?c ?d ?e) => pose proof (ref_ops_time ds t a b c d e) as Hf end.
  rewrite Forall_forall in Hf. exact (Hf o Ho).
Qed.

Lemma rapply_newkeys fl dm rs o k :
  In k (rs_keys (rapply fl dm rs o)) -> In k (rs_keys rs) \/ r_time k = s_clock (rs_st rs) + 1.
Proof.
  unfold rapply. change (s_clock (rs_st (rtick rs))) with (s_clock (rs_st rs) + 1).
  change (rs_keys rs) with (rs_keys (rtick rs)). generalize (rtick rs) as r. generalize (s_clock (rs_st rs) + 1) as t.
  intros t r. destruct o as [ds ents|sets]; [apply rstore_batch_ds_newkeys|].
  revert r. induction sets as [|[d ents] sets IH]; intros r; cbn [fold_left fst snd]; [now left|].
  intros Hin. apply IH in Hin. destruct Hin as [Hin|Hin]; [|now right]. now apply rstore_batch_ds_newkeys in Hin.
Qed.

Lemma apply_wop_newentries fl dm st o ds :
  exists P, d_entries (get_ds (apply_wop fl dm st o) ds) = d_entries (get_ds st ds) ++ P
            /\ Forall (fun e => en_time e = s_clock st + 1) P.
Proof.
  unfold apply_wop. change (s_clock (tick st)) with (s_clock st + 1).
  change (get_ds st ds) with (get_ds (tick st) ds). generalize (tick st) as s. generalize (s_clock st + 1) as t. intros t s.
  destruct o as [k ents|sets].
  - destruct (Z.eq_dec ds k) as [->|Hne].
    + rewrite get_set_same. apply store_batch_ds_entries.
    + rewrite get_set_other by assumption. exists []. rewrite app_nil_r. split; [reflexivity | constructor].
  - revert s. induction sets as [|[k ents] sets IH]; intros s; cbn [fold_left fst snd].
    + exists []. rewrite app_nil_r. split; [reflexivity | constructor].
    + destruct (IH (set_ds s k (store_batch_ds fl dm t ents (get_ds s k)))) as (P & HP & Ht). rewrite HP.
      destruct (Z.eq_dec ds k) as [->|Hne].
      * rewrite get_set_same. destruct (store_batch_ds_entries fl dm t ents (get_ds s k)) as (P0 & HP0 & Ht0). rewrite HP0.
        exists (P0 ++ P). rewrite app_assoc. split; [reflexivity | apply Forall_app; split; assumption].
      * rewrite get_set_other by assumption. exists P. split; [reflexivity | assumption].
Qed.

Theorem commit_order_is_time_order fl dm ops fl' dm' o :
  let rs := rrun fl dm ops rstore0 in
  let rs' := rapply fl' dm' rs o in
  (* everything already there is stamped at or before the clock ... *)
  (forall k, In k (rs_keys rs) -> r_time k <= s_clock (rs_st rs))
  /\ (forall ds, Forall (fun e => en_time e <= s_clock (rs_st rs)) (d_entries (get_ds (rs_st rs) ds)))
  (* ... and everything the next commit adds is stamped with the next clock value *)
  /\ (forall k, In k (rs_keys rs') -> In k (rs_keys rs) \/ r_time k = s_clock (rs_st rs) + 1)
  /\ (forall ds, exists P, d_entries (get_ds (rs_st rs') ds) = d_entries (get_ds (rs_st rs) ds) ++ P
                          /\ Forall (fun e => en_time e = s_clock (rs_st rs) + 1) P).
Proof.
  cbv zeta. destruct (reach_facts fl dm ops) as (_ & _ & Het & Hkt).
  split; [exact Hkt|]. split; [intros ds; now apply get_ds_etimes|]. split; [intros k; apply rapply_newkeys|].
  intros ds. rewrite rapply_st. apply apply_wop_newentries.
Qed.
