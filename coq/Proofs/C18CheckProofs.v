(** * Agreement with the model implies the executable spec (property C18).

    [model_meets_spec]: the repaired model ([sound_l]: the three repairs, plus SkipPrev when LatestOnly) meets the
    WHOLE executable spec [spec_ok] on its own observations, for every well-formed case.
    [agree_implies_spec]: if the implementation's observations agree with the repaired model, [spec_ok] holds on
    them, with the two observations that agreement cannot determine taken from the model ([okobs]): the marker
    count (entity content is not modelled) and WHICH ids a run that ended with a sink failure had delivered (the
    order inside a dependency's result list is not modelled; [agree] compares their number).  For those two the
    check evaluates [spec_ok] on the implementation's observation; that part is not (and cannot be) linked.
    [agree_implies_main_only] (older, every variant): the main-only part on the implementation's own ids.

    Route: soundness of the executable target sets ([walk_sound_now], [walk_sound_prev]) + stability of the
    previous-run view between the run's start token and the page that first meets the entity
    ([hop_rel_cut_stable], [first_occurrence]) turn the run-level lemmas of Proofs/MultiSourceProofs.v
    ([inc_pages_safe], [inc_pages_main_safe], [full_run_token]) into [dep_covered] / [main_covered] /
    [mid_covered] = true; [jinv] gives [tokens_in_range]. *)
From Coq Require Import List ZArith NArith Bool Arith Lia.
From DH Require Import Lib.CheckLib Model.MultiSource Proofs.MultiSourceProofs Check.C18Check.
Import ListNotations.
Local Open Scope Z_scope.

(** * the walk only finds what the declared joins connect (soundness of the executable target sets) *)
Lemma walk_sound_follow : forall h now pv js prev starts m,
  In m (walk h now pv false prev js starts []) -> exists y, In y starts /\ path h now prev js y m.
Proof.
  induction js as [|j js IH]; intros prev starts m H; cbn [walk] in H.
  - exists m. split; auto. reflexivity.
  - cbn [andb] in H. rewrite app_nil_r in H. apply IH in H. destruct H as (z & Hz & Hp).
    apply (proj1 (dedup_In _ _)) in Hz. apply in_flat_map in Hz. destruct Hz as (y & Hy & Hz). rewrite app_nil_r in Hz.
    exists y. split; auto. cbn [path]. exists z. split; auto. now apply related_spec.
Qed.

Lemma walk_sound_now : forall h now prev js cur m,
  In m (walk h now PvNone true prev js cur []) -> exists x, In x cur /\ path h now prev js x m.
Proof.
  intros h now prev js cur m H. destruct js as [|j js]; cbn [walk] in H.
  - exists m. split; auto. reflexivity.
  - apply walk_sound_follow in H. destruct H as (z & Hz & Hp). apply (proj1 (dedup_In _ _)) in Hz.
    assert (Hz' : In z (flat_map (fun e => related h [prev; j_ds j] now j e) cur)).
    { apply in_app_or in Hz. destruct Hz as [Hz|Hz].
      - apply in_flat_map in Hz. destruct Hz as (y & Hy & Hz). apply in_flat_map. exists y. split; auto.
        apply in_app_or in Hz. destruct Hz as [Hz|Hz]; auto. destruct (true && negb (j_inv j)); destruct Hz.
      - destruct (true && negb (j_inv j)); destruct Hz. }
    apply in_flat_map in Hz'. destruct Hz' as (y & Hy & Hz'). exists y. split; auto.
    cbn [path]. exists z. split; auto. now apply related_spec.
Qed.

Lemma walk_sound_prev : forall h now h' prev j js old m,
  In m (walk h now (PvHub h') true prev (j :: js) [] old) ->
  j_inv j = false /\ exists x, In x old /\ exists y, hop_rel h' [prev; j_ds j] now j x y /\ path h now (j_ds j) js y m.
Proof.
  intros h now h' prev j js old m H. cbn [walk flat_map app] in H.
  apply walk_sound_follow in H. destruct H as (z & Hz & Hp). apply (proj1 (dedup_In _ _)) in Hz.
  destruct (j_inv j) eqn:Ei; cbn [negb andb] in Hz; [destruct Hz|]. split; auto.
  apply in_flat_map in Hz. destruct Hz as (x & Hx & Hz). exists x. split; auto. exists z. split; auto.
  cbn [prev_related] in Hz. now apply related_spec.
Qed.

(** * the previous-run view only depends on the entity's own history *)
Lemma feed_of_cut : forall h k a k',
  feed_of (cut_hub h k a) k' = if Nat.eqb k' k then firstz a (feed_of h k) else feed_of h k'.
Proof.
  intros. unfold cut_hub, feed_of. cbn [h_feeds]. rewrite nth_set_nth. destruct (Nat.eqb k' k) eqn:E; auto.
  destruct (Nat.ltb k (length (h_feeds h))) eqn:El; auto. apply Nat.ltb_ge in El.
  rewrite (nth_overflow _ _ El). destruct (a <=? 0); reflexivity.
Qed.

Lemma latest_at_app : forall l1 l2 t i,
  latest_at (l1 ++ l2) t i = match latest_at l2 t i with Some w => Some w | None => latest_at l1 t i end.
Proof.
  induction l1 as [|y l1 IH]; intros l2 t i; cbn [app latest_at].
  - destruct (latest_at l2 t i); reflexivity.
  - rewrite IH. destruct (latest_at l2 t i); auto.
Qed.

Lemma latest_at_none : forall l t i, (forall x, In x l -> v_id x <> i) -> latest_at l t i = None.
Proof.
  induction l as [|y l IH]; intros t i H; cbn [latest_at]; auto.
  rewrite IH by (intros; apply H; now right). unfold vis.
  destruct (N.eqb_spec (v_id y) i) as [E|E]; auto. exfalso. apply (H y); auto. now left.
Qed.

Lemma firstz_split : forall f a n, 0 <= a -> 0 <= n -> firstz (a + n) f = firstz a f ++ firstz n (dropz a f).
Proof.
  induction f as [|y f IH]; intros a n Ha Hn.
  - cbn. destruct (a + n <=? 0), (a <=? 0), (n <=? 0); reflexivity.
  - destruct (Z.eq_dec a 0) as [->|Ha0].
    + cbn [Z.add]. rewrite dropz_le0 by lia. cbn [firstz]. reflexivity.
    + cbn [firstz]. destruct (Z.leb_spec (a + n) 0); [lia|]. destruct (Z.leb_spec a 0); [lia|].
      rewrite dropz_cons by lia. cbn [app]. f_equal. replace (a + n - 1) with ((a - 1) + n) by lia. apply IH; lia.
Qed.

Lemma firstz_In : forall f n x, In x (firstz n f) -> exists q, 0 <= q < n /\ nthz f q = Some x.
Proof.
  induction f as [|y f IH]; intros n x H; [destruct H|]. cbn [firstz] in H.
  destruct (Z.leb_spec n 0); [destruct H|]. destruct H as [<-|H].
  - exists 0. split; [lia|reflexivity].
  - apply IH in H. destruct H as (q & Hq & Hx). exists (q + 1). split; [lia|].
    rewrite nthz_cons by lia. rewrite <- Hx. f_equal. lia.
Qed.

Lemma latest_firstz_stable : forall f a b t i,
  0 <= a <= b -> (forall q y, a <= q < b -> nthz f q = Some y -> v_id y <> i) ->
  latest_at (firstz a f) t i = latest_at (firstz b f) t i.
Proof.
  intros f a b t i Hab Hno.
  assert (Hn : latest_at (firstz (b - a) (dropz a f)) t i = None).
  { apply latest_at_none. intros x Hx. apply firstz_In in Hx. destruct Hx as (q & Hq & Hx).
    rewrite nthz_dropz in Hx by lia. apply (Hno (a + q) x); auto. lia. }
  assert (Hb : firstz b f = firstz a f ++ firstz (b - a) (dropz a f)).
  { rewrite <- firstz_split by lia. f_equal. lia. }
  rewrite Hb, latest_at_app, Hn. reflexivity.
Qed.

Lemma first_occurrence : forall (f : feed) n b0 p x,
  0 <= b0 -> p = b0 + Z.of_nat n -> nthz f p = Some x ->
  exists p1 x1, b0 <= p1 <= p /\ nthz f p1 = Some x1 /\ v_id x1 = v_id x /\
                forall q y, b0 <= q < p1 -> nthz f q = Some y -> v_id y <> v_id x.
Proof.
  intros f. induction n as [|n IH]; intros b0 p x Hb Hp Hx.
  - exists p, x. split; [lia|]. split; auto. split; auto. intros; lia.
  - destruct (nthz_some f b0) as [y0 Hy0]; [pose proof (nthz_range _ _ _ Hx); lia|].
    destruct (N.eq_dec (v_id y0) (v_id x)) as [E|E].
    + exists b0, y0. split; [lia|]. split; auto. split; auto. intros; lia.
    + destruct (IH (b0 + 1) p x ltac:(lia) ltac:(lia) Hx) as (p1 & x1 & Hr & Hx1 & Hid & Hno).
      exists p1, x1. split; [lia|]. split; auto. split; auto. intros q y Hq Hy.
      destruct (Z.eq_dec q b0) as [->|Hq0]; [congruence|]. apply (Hno q y); auto. lia.
Qed.

Lemma range_tails_In : forall l pos from to x later,
  In (x, later) (range_tails l pos from to) ->
  exists p, from <= p < to /\ pos <= p /\ nthz l (p - pos) = Some x /\ later = dropz (p - pos + 1) l.
Proof.
  induction l as [|y l IH]; intros pos from to x later H; [destruct H|]. cbn [range_tails] in H.
  apply in_app_or in H. destruct H as [H|H].
  - destruct (Z.leb_spec from pos); cbn [andb] in H; [|destruct H]. destruct (Z.ltb_spec pos to); [|destruct H].
    destruct H as [[= -> ->]|[]]. exists pos. split; [lia|]. split; [lia|]. replace (pos - pos) with 0 by lia.
    split; [reflexivity|]. cbn. now rewrite dropz_le0 by lia.
  - apply IH in H. destruct H as (p & Hr & Hp & Hx & ->). exists p. split; auto. split; [lia|]. split.
    + rewrite nthz_cons by lia. rewrite <- Hx. f_equal. lia.
    + rewrite dropz_cons by lia. f_equal. lia.
Qed.

Lemma range_tails_empty : forall l pos from to, to <= from -> range_tails l pos from to = [].
Proof.
  induction l as [|y l IH]; intros pos from to H; cbn [range_tails]; auto. rewrite IH by auto.
  destruct (Z.leb_spec from pos), (Z.ltb_spec pos to); cbn; auto. lia.
Qed.


Lemma hop_rel_cut_stable : forall h ds a a' scope t j x y,
  j_inv j = false -> 0 <= a <= a' ->
  (forall q w, a <= q < a' -> nthz (feed_of h ds) q = Some w -> v_id w <> x) ->
  hop_rel (cut_hub h ds a) scope t j x y -> hop_rel (cut_hub h ds a') scope t j x y.
Proof.
  intros h ds a a' scope t j x y Hi Ha Hno (k & Hk & H). exists k. split; auto. rewrite Hi in *.
  unfold triple_at in *. rewrite feed_of_cut in *. destruct (Nat.eqb k ds); auto.
  rewrite <- (latest_firstz_stable (feed_of h ds) a a' t x Ha Hno). exact H.
Qed.

Lemma subsetN_intro : forall a b, (forall m, In m a -> In m b) -> subsetN a b = true.
Proof. intros a b H. unfold subsetN. apply forallb_forall. intros x Hx. apply memN_In. auto. Qed.

Section RunSpec.
  Variables (v : variant) (c : cfg) (h : hub) (b : nat).
  Hypothesis Hs : f_shared v = SharedSnapshot.
  Hypothesis Hp : f_prev v = PrevFeed.
  Hypothesis Hsk : c_latest c = true -> f_skip v = SkipPrev.
  Hypothesis Hb : (1 <= b)%nat.

  Lemma inc_dep_covered : forall tk cs1 k cs2 E dp,
    tok_ok tk -> inc_pages v c h b (fuel_of h c) tk = cs1 ++ k :: cs2 ->
    (forall m, In m (ents (cs1 ++ [k])) -> In m E) -> In dp (c_deps c) ->
    dep_covered c h (t_deps tk) (t_deps (k_tok k)) E dp = true.
  Proof.
    intros tk cs1 k cs2 E dp Hok Hcs HE Hdp. unfold dep_covered. apply forallb_forall. intros [x later] Hin.
    apply range_tails_In in Hin. destruct Hin as (p & Hr & Hp0 & Hx & ->). rewrite Z.sub_0_r in *.
    fold (dtok tk (d_ds dp)) in *. fold (dtok (k_tok k) (d_ds dp)) in *.
    pose proof Hok as [Hok1 _]. pose proof (Hok1 (d_ds dp)) as Hb0.
    assert (Hpost : forall pre post m, cs1 ++ [k] = pre ++ post -> In m (ents post) -> In m E).
    { intros pre post m Epp Hm. apply HE. rewrite Epp, ents_app. apply in_or_app. now right. }
    apply andb_true_iff. split.
    - destruct (c_latest c && superseded x (dropz (p + 1) (feed_of h (d_ds dp)))) eqn:Esk; auto.
      apply subsetN_intro. intros m Hm. unfold now_targets in Hm.
      destruct (d_joins dp) as [|j js] eqn:Ej; [destruct Hm|]. apply filter_In in Hm. destruct Hm as [Hm Hlive].
      apply walk_sound_now in Hm. destruct Hm as (x' & [<-|[]] & Hpath).
      destruct (inc_pages_safe v c h b Hs Hp Hsk Hb (fuel_of h c) tk Hok cs1 k cs2 Hcs dp Hdp p Hr) as (pre & post & Epp & _ & Hreq).
      apply (Hpost pre post m Epp). apply Hreq. exists x. split; auto. split; auto. left. split; auto.
      split; [congruence|]. rewrite Ej. exact Hpath.
    - apply subsetN_intro. intros m Hm. unfold prev_targets in Hm.
      destruct (d_joins dp) as [|j js] eqn:Ej; [destruct Hm|].
      destruct (Z.leb_spec (dtok tk (d_ds dp)) 0) as [|Hpos]; [destruct Hm|].
      apply filter_In in Hm. destruct Hm as [Hm Hlive].
      apply walk_sound_prev in Hm. destruct Hm as (Hinv & x' & [<-|[]] & y & Hhop & Hpath).
      destruct (first_occurrence (feed_of h (d_ds dp)) (Z.to_nat (p - dtok tk (d_ds dp))) (dtok tk (d_ds dp)) p x
                  ltac:(lia) ltac:(lia) Hx) as (p1 & x1 & Hr1 & Hx1 & Hid & Hno).
      destruct (inc_pages_safe v c h b Hs Hp Hsk Hb (fuel_of h c) tk Hok cs1 k cs2 Hcs dp Hdp p1 ltac:(lia))
        as (pre & post & Epp & Hle & Hreq).
      assert (Hge : dtok tk (d_ds dp) <= dtok (tok_after pre tk) (d_ds dp)).
      { destruct (tok_after_In pre tk) as [[_ ->]|(k' & Hk' & ->)]; [lia|].
        apply (inc_pages_tok_ge v c h b Hs Hp Hsk Hb (fuel_of h c) tk Hok). rewrite Hcs.
        assert (Hin' : In k' (cs1 ++ [k])) by (rewrite Epp; apply in_or_app; now left).
        apply in_app_or in Hin'. apply in_or_app. destruct Hin' as [H|[<-|[]]]; [now left|right; now left]. }
      apply (Hpost pre post m Epp). apply Hreq. exists x1. split; auto. split; auto. right.
      unfold connected_prev. rewrite Ej. split; auto. split; [lia|]. exists y. split; auto. rewrite Hid.
      apply (hop_rel_cut_stable h (d_ds dp) (dtok tk (d_ds dp)) (dtok (tok_after pre tk) (d_ds dp))); auto.
      intros q w Hq Hw. apply (Hno q w); auto. lia.
  Qed.

  Lemma inc_main_covered : forall tk cs1 k cs2 E,
    tok_ok tk -> inc_pages v c h b (fuel_of h c) tk = cs1 ++ k :: cs2 ->
    (forall m, In m (ents (cs1 ++ [k])) -> In m E) ->
    main_covered c h (t_main tk) (t_main (k_tok k)) E = true.
  Proof.
    intros tk cs1 k cs2 E Hok Hcs HE. unfold main_covered. apply forallb_forall. intros [x later] Hin.
    apply range_tails_In in Hin. destruct Hin as (p & Hr & Hp0 & Hx & ->). rewrite Z.sub_0_r in *.
    destruct (c_latest c && superseded x (dropz (p + 1) (feed_of h (c_main c)))) eqn:Esk; auto. cbn [orb].
    apply memN_In. apply HE.
    destruct (inc_pages_main_safe v c h b Hs Hp Hsk Hb (fuel_of h c) tk Hok) as [_ Hsafe].
    eapply Hsafe; eauto.
  Qed.
End RunSpec.


(** * small facts about the evaluator's helpers *)
Lemma insertN_In : forall x y l, In x (insertN y l) <-> x = y \/ In x l.
Proof.
  induction l as [|z l IH]; cbn [insertN In].
  - split; [intros [->|[]]; auto|intros [->|[]]; auto].
  - destruct (N.leb y z); cbn [In]; [|rewrite IH]; split; intuition congruence.
Qed.

Lemma sortN_In : forall x l, In x (sortN l) <-> In x l.
Proof.
  induction l as [|y l IH]; cbn [sortN fold_right In]; [tauto|]. fold (sortN l). rewrite insertN_In, IH.
  split; intros [H|H]; auto.
Qed.

Lemma ev_ents_In : forall evs x, In x (concat (ev_ents evs)) <-> In x (ents_of evs).
Proof.
  induction evs as [|e evs IH]; intros x; cbn [ev_ents ents_of concat]; [tauto|].
  destruct e as [k vs|es tk]; [apply IH|]. destruct es as [|y es]; [cbn [app]; apply IH|].
  cbn [concat]. rewrite !in_app_iff, IH. tauto.
Qed.

Lemma after_append_none : forall evs, no_append evs -> after_append evs = None.
Proof. induction evs as [|e evs IH]; cbn [no_append after_append]; auto. destruct e; [intros []|auto]. Qed.

Lemma after_append_mid : forall e1 e2 ds vs, no_append e1 -> after_append (e1 ++ EvAppend ds vs :: e2) = Some e2.
Proof.
  induction e1 as [|e e1 IH]; intros e2 ds vs H; cbn [app no_append after_append] in *; auto.
  destruct e; [destruct H|auto].
Qed.

Lemma no_append_run_events : forall v c h job full b fail core evs ok,
  run_events v c h job full b fail core = (evs, ok) -> no_append evs.
Proof.
  intros v c h job full b fail core evs ok H. unfold run_events in H.
  destruct (if full then None else job).
  - apply cut_calls_prefix in H. destruct H as (l1 & l2 & _ & -> & _). apply no_append_pairs.
  - destruct (full_pages c h b (fuel_of h c) 0). apply cut_calls_prefix in H.
    destruct H as (l1 & l2 & _ & -> & _). apply no_append_pairs.
Qed.

(** * the state invariant the executable spec needs *)
Definition jinv (c : cfg) (s : state) : Prop :=
  forall tk, s_job s = Some tk ->
    tok_ok tk /\ deps_in (s_hub s) tk /\ t_main tk <= lenz (feed_of (s_hub s) (c_main c)).

Lemma deps_in_append : forall h k vs tk, deps_in h tk -> deps_in (append_hub h k vs) tk.
Proof. intros h k vs tk H k' z Hin. specialize (H k' z Hin). pose proof (lenz_append h k vs k'). lia. Qed.

Lemma full_pages_fin : forall c h b, (1 <= b)%nat -> forall fuel pos ps fin, 0 <= pos ->
  full_pages c h b fuel pos = (ps, fin) -> pos <= fin <= Z.max pos (lenz (feed_of h (c_main c))).
Proof.
  intros c h b Hb. induction fuel as [|fuel IH]; intros pos ps fin Hpos H; cbn [full_pages] in H.
  - injection H as <- <-. lia.
  - destruct (changes (feed_of h (c_main c)) pos b (c_latest c)) as [[vs sk] cont] eqn:E.
    pose proof (changes_gen _ _ _ _ _ _ _ Hb Hpos E) as (H1 & H2 & _).
    destruct vs as [|v0 vs]; [injection H as <- <-; lia|].
    destruct (full_pages c h b fuel cont) as [ps' fin'] eqn:Er. injection H as <- <-.
    specialize (IH cont ps' fin' ltac:(lia) Er). lia.
Qed.

Lemma wm_tokens_In : forall v c h core k z, f_wm v = WmOwn ->
  In (k, z) (wm_tokens v c h core) -> z = lenz (feed_of h k).
Proof.
  intros v c h core k z Hw. unfold wm_tokens, watermark. rewrite Hw.
  assert (G : forall l acc, (forall k z, In (k, z) acc -> z = lenz (feed_of h k)) ->
            forall k z, In (k, z) (fold_left (fun l dp => tok_set l (d_ds dp) (lenz (feed_of h (d_ds dp)))) l acc) ->
                        z = lenz (feed_of h k)).
  { induction l as [|d0 l IH]; intros acc Ha k' z' Hin; cbn [fold_left] in Hin; [eauto|].
    eapply IH; [|exact Hin]. intros k1 z1 H1. apply tok_set_In in H1. destruct H1 as [[= -> ->]|H1]; eauto. }
  apply G. intros ? ? [].
Qed.

(** the token a full sync stores, and what it has delivered when it completes *)
Lemma full_run_token : forall v c h job (full : bool) b fail core evs ok,
  (1 <= b)%nat -> (if full then @None tokens else job) = None ->
  run_events v c h job full b fail core = (evs, ok) ->
  (last_tok evs job = job \/
   exists fin, last_tok evs job = Some (mkTok fin (wm_tokens v c h core)) /\ 0 <= fin <= lenz (feed_of h (c_main c))) /\
  (ok = true -> exists fin, last_tok evs job = Some (mkTok fin (wm_tokens v c h core)) /\
                            forall m, In m (map v_id (feed_of h (c_main c))) -> In m (ents_of evs)).
Proof.
  intros v c h job full b fail core evs ok Hb Ej Er. unfold run_events in Er. rewrite Ej in Er.
  destruct (full_pages c h b (fuel_of h c) 0) as [ps fin] eqn:Ef.
  pose proof (full_pages_fin c h b Hb (fuel_of h c) 0 ps fin ltac:(lia) Ef) as Hfin.
  apply cut_calls_prefix in Er. destruct Er as (l1 & l2 & Hsp & -> & Hok).
  assert (Hcomplete : l2 = [] -> last_tok (map ev_of_pair l1) job = Some (mkTok fin (wm_tokens v c h core)) /\
                                 forall m, In m (map v_id (feed_of h (c_main c))) -> In m (ents_of (map ev_of_pair l1))).
  { intros ->. rewrite app_nil_r in Hsp. subst l1. rewrite map_app. cbn [map ev_of_pair fst snd]. split.
    - clear. induction ps; cbn; auto.
    - intros m Hm. rewrite ents_of_app, ents_of_none. apply in_or_app. left.
      destruct (full_pages_complete c h b Hb (fuel_of h c) 0 ps fin ltac:(lia)
                  ltac:(unfold fuel_of, lenz; lia) Ef) as [_ Hall].
      apply last_occurrence in Hm. destruct Hm as (p & y & Hy & <- & Hsup). pose proof (nthz_range _ _ _ Hy).
      apply (Hall p y); [lia|exact Hy|]. unfold skipped. rewrite Hsup. apply andb_false_r. }
  split.
  - destruct l2 as [|e2 l2].
    + right. exists fin. split; [apply Hcomplete; auto|unfold lenz in *; lia].
    + left. apply app_last_split in Hsp; [|discriminate]. destruct Hsp as (l2' & _ & Hps).
      apply map_eq_app' in Hps. destruct Hps as (a1 & a2 & _ & -> & _). apply last_tok_none.
  - intros ->. exists fin. apply Hcomplete. auto.
Qed.

Lemma step_jinv : forall v c s o s' evs ok,
  sound_l v c -> batch_ok c o -> jinv c s -> step v c s o = (s', evs, ok) -> jinv c s'.
Proof.
  intros v c s o s' evs ok ((Hs & Hp & Hw) & Hsk) Hb Hj H.
  assert (Hfull : forall hub' evs0 ok0 (full : bool) b fail core,
            (1 <= b)%nat -> (if full then @None tokens else s_job s) = None ->
            run_events v c (s_hub s) (s_job s) full b fail core = (evs0, ok0) ->
            (forall k, lenz (feed_of (s_hub s) k) <= lenz (feed_of hub' k)) ->
            jinv c (mkSt hub' (last_tok evs0 (s_job s)))).
  { intros hub' evs0 ok0 full b fail core Hb' Ej Er Hlen tk Htk. cbn [s_job s_hub] in *.
    destruct (full_run_token v c (s_hub s) (s_job s) full b fail core evs0 ok0 Hb' Ej Er) as [[Hsame|(fin & Hl & Hfin)] _].
    - rewrite Hsame in Htk. destruct (Hj tk Htk) as (Hok & Hd & Hm). split; auto. split.
      + intros k z Hin. specialize (Hd k z Hin). specialize (Hlen k). lia.
      + specialize (Hlen (c_main c)). lia.
    - rewrite Hl in Htk. injection Htk as <-.
      assert (Hd : deps_in hub' (mkTok fin (wm_tokens v c (s_hub s) core))).
      { intros k z Hin. cbn [t_deps] in Hin. apply wm_tokens_In in Hin; auto. subst z. specialize (Hlen k).
        unfold lenz in *. lia. }
      split; [|split; auto].
      + split; [|cbn; lia]. intros k. apply (deps_in_dtok hub' _ k Hd).
      + cbn [t_main]. specialize (Hlen (c_main c)). lia. }
  destruct o as [k vs|full b fail core|b fail core k ds vs|b fail core k ds vs]; cbn [step] in H; [| | |destruct Hb].
  - injection H as <- _ _. intros tk Htk. cbn [s_hub s_job] in *. destruct (Hj tk Htk) as (Hok & Hd & Hm).
    split; auto. split; [now apply deps_in_append|]. pose proof (lenz_append (s_hub s) k vs (c_main c)). lia.
  - destruct (run_events v c (s_hub s) (s_job s) full b fail core) as [evs0 ok0] eqn:Er.
    injection H as <- _ _. cbn [batch_ok] in Hb.
    destruct (if full then None else s_job s) as [tk|] eqn:Ej.
    + assert (Hjob : s_job s = Some tk) by (destruct full; [discriminate|auto]).
      destruct (Hj tk Hjob) as (Hok & Hd & Hm).
      unfold run_events in Er. rewrite Ej in Er.
      apply cut_calls_prefix in Er. destruct Er as (l1 & l2 & Hsp & -> & _).
      apply map_eq_app' in Hsp. destruct Hsp as (cs1 & cs2 & Hcs & -> & _).
      rewrite map_map. change (map (fun x : call => ev_of_pair (k_ents x, Some (k_tok x)))) with (map ev_of_call).
      rewrite Hjob, last_tok_calls. intros tk' Htk'. cbn [s_job s_hub] in *. injection Htk' as <-.
      destruct (tok_after_In cs1 tk) as [[_ ->]|(k & Hk & ->)]; [auto|].
      assert (Hin : In k (inc_pages v c (s_hub s) b (fuel_of (s_hub s) c) tk)) by (rewrite Hcs; apply in_or_app; now left).
      split; [eapply inc_pages_tok_ok; eauto|]. split; [eapply inc_pages_deps_in; eauto|].
      destruct (inc_pages_main_safe v c (s_hub s) b Hs Hp Hsk Hb (fuel_of (s_hub s) c) tk Hok) as [Hbd _].
      specialize (Hbd k Hin). lia.
    + destruct s as [hub job]. cbn [s_hub s_job] in *. eapply (Hfull hub); eauto. intros; lia.
  - destruct (run_events v c (s_hub s) (s_job s) true b fail core) as [evs0 ok0] eqn:Er.
    destruct (insert_mid evs0 k (EvAppend ds vs)) as [evs1 ins] eqn:Ei. injection H as <- _ _.
    cbn [batch_ok] in Hb. destruct Hb as [Hb _].
    assert (Hl : last_tok evs1 (s_job s) = last_tok evs0 (s_job s)).
    { destruct (insert_mid_spec _ _ _ _ _ Ei) as [[_ ->]|(_ & e1 & e2 & -> & ->)]; auto.
      rewrite !last_tok_app. reflexivity. }
    rewrite Hl.
    apply (Hfull (if ins then append_hub (s_hub s) ds vs else s_hub s) evs0 ok0 true b fail core Hb eq_refl Er).
    intros k'. destruct ins; [apply lenz_append|lia].
Qed.


Lemma obs_tokens_self : forall r evs ok job,
  (forall tk, job = Some tk -> 0 <= t_main tk) -> obs_tokens (self_run r evs ok job) = job.
Proof.
  intros r evs ok job H. unfold obs_tokens, self_run. cbn [tr_main tr_deps]. destruct job as [tk|]; cbn [tok_obs fst snd].
  - specialize (H tk eq_refl). destruct (Z.ltb_spec (t_main tk) 0); [lia|]. destruct tk; reflexivity.
  - reflexivity.
Qed.

Lemma tokens_in_range_jinv : forall c s tk, jinv c s -> s_job s = Some tk ->
  tokens_in_range c (s_hub s) (t_main tk) (t_deps tk) = true.
Proof.
  intros c s tk Hj Htk. destruct (Hj tk Htk) as ((_ & Hm0) & Hd & Hm). unfold tokens_in_range.
  apply andb_true_iff. split; [apply andb_true_iff; split; apply Z.leb_le; lia|].
  apply forallb_forall. intros [k z] Hin. specialize (Hd k z Hin). cbn [fst snd].
  apply andb_true_iff. split; apply Z.leb_le; lia.
Qed.

Lemma self_emitted_sub : forall evs m l, (forall x, In x (ents_of evs) -> In x l) ->
  In m (sortN (concat (ev_ents evs))) -> In m l.
Proof. intros evs m l H Hm. apply (proj1 (sortN_In _ _)) in Hm. apply (proj1 (ev_ents_In _ _)) in Hm. auto. Qed.

Lemma self_emitted_sup : forall evs m, In m (ents_of evs) -> In m (sortN (concat (ev_ents evs))).
Proof. intros evs m Hm. apply (proj2 (sortN_In _ _)). now apply (proj2 (ev_ents_In _ _)). Qed.

Lemma forallb_nil_range : forall {A} (f : A -> bool) l, l = [] -> forallb f l = true.
Proof. intros A f l ->. reflexivity. Qed.

Lemma self_run_spec : forall v c s r s' evs ok,
  sound_l v (cfg_of c) -> (1 <= tc_batch c)%nat -> wf_run c r = true -> jinv (cfg_of c) s ->
  step v (cfg_of c) s (op_of c (TRun r)) = (s', evs, ok) ->
  run_spec_ok (cfg_of c) (s_hub s) (s_job s) (self_run r evs ok (s_job s')) = true
  /\ run_hub (s_hub s) (self_run r evs ok (s_job s')) = s_hub s'
  /\ obs_tokens (self_run r evs ok (s_job s')) = s_job s'
  /\ jinv (cfg_of c) s'.
Proof.
  intros v c s r s' evs ok Hv Hb Hwf Hj Hstep. set (cfg := cfg_of c) in *.
  pose proof Hv as ((Hs & Hp & Hw) & Hsk).
  assert (Hop : op_of c (TRun r) =
                match tr_mid r with
                | None => ORun (tr_full r) (tc_batch c) (tr_fail r) (tr_core r)
                | Some (k, ds, vs) => ORunMid (tc_batch c) (tr_fail r) (tr_core r) k ds vs
                end).
  { cbn [op_of]. unfold wf_run in Hwf. destruct (tr_mid r) as [[[k ds] vs]|]; auto.
    apply andb_true_iff in Hwf. destruct Hwf as [-> _]. reflexivity. }
  rewrite Hop in Hstep.
  assert (Hbok : batch_ok cfg (match tr_mid r with
                               | None => ORun (tr_full r) (tc_batch c) (tr_fail r) (tr_core r)
                               | Some (k, ds, vs) => ORunMid (tc_batch c) (tr_fail r) (tr_core r) k ds vs
                               end)).
  { unfold wf_run in Hwf. destruct (tr_mid r) as [[[k ds] vs]|]; cbn [batch_ok]; auto.
    apply andb_true_iff in Hwf. destruct Hwf as [_ Hne]. apply negb_true_iff, Nat.eqb_neq in Hne. split; auto. }
  pose proof (step_jinv v cfg s _ s' evs ok Hv Hbok Hj Hstep) as Hj'.
  pose proof (step_main v cfg s _ s' evs ok Hstep) as [Hmain _].
  assert (Hobs : obs_tokens (self_run r evs ok (s_job s')) = s_job s').
  { apply obs_tokens_self. intros tk Htk. destruct (Hj' tk Htk) as ((_ & H0) & _). exact H0. }
  (* the hub after the run *)
  assert (Hhub : run_hub (s_hub s) (self_run r evs ok (s_job s')) = s_hub s').
  { unfold run_hub, self_run. cbn [tr_mid tr_middone]. cbn [op_of] in Hstep.
    destruct (tr_mid r) as [[[k ds] vs]|]; cbn [step] in Hstep.
    - destruct (run_events v cfg (s_hub s) (s_job s) true (tc_batch c) (tr_fail r) (tr_core r)) as [evs0 ok0] eqn:Er.
      destruct (insert_mid evs0 k (EvAppend ds vs)) as [evs1 ins] eqn:Ei. injection Hstep as <- <- _. cbn [s_hub].
      pose proof (no_append_run_events _ _ _ _ _ _ _ _ _ _ Er) as Hna.
      destruct (insert_mid_spec _ _ _ _ _ Ei) as [[-> ->]|(-> & e1 & e2 & -> & ->)].
      + now rewrite (after_append_none _ Hna).
      + apply no_append_app in Hna. now rewrite (after_append_mid _ _ _ _ (proj1 Hna)).
    - destruct (run_events v cfg (s_hub s) (s_job s) (tr_full r) (tc_batch c) (tr_fail r) (tr_core r)) as [evs0 ok0].
      injection Hstep as <- _ _. reflexivity. }
  split; [|auto]. unfold run_spec_ok. rewrite Hhub.
  assert (A1 : subsetN (tr_emitted (self_run r evs ok (s_job s'))) (map v_id (feed_of (s_hub s') (c_main cfg))) = true).
  { apply subsetN_intro. intros m Hm. cbn [self_run tr_emitted] in Hm. eapply self_emitted_sub; eauto. }
  rewrite A1. cbn [self_run tr_foreign]. cbn [N.eqb andb].
  change (tr_main (self_run r evs ok (s_job s'))) with (fst (tok_obs (s_job s'))).
  change (tr_deps (self_run r evs ok (s_job s'))) with (snd (tok_obs (s_job s'))).
  change (tr_full (self_run r evs ok (s_job s'))) with (tr_full r).
  change (tr_mid (self_run r evs ok (s_job s'))) with (tr_mid r).
  change (tr_ok (self_run r evs ok (s_job s'))) with ok.
  change (tr_emitted (self_run r evs ok (s_job s'))) with (sortN (concat (ev_ents evs))).
  destruct (s_job s') as [tk'|] eqn:Ejob'; cbn [tok_obs fst snd]; [|reflexivity].
  destruct (Hj' tk' Ejob') as ((Hd0 & Hm0) & Hdin' & Hmle').
  destruct (Z.ltb_spec (t_main tk') 0) as [|_]; [lia|].
  assert (A2 : tokens_in_range cfg (s_hub s') (t_main tk') (t_deps tk') = true).
  { apply (tokens_in_range_jinv cfg s' tk' Hj'). exact Ejob'. }
  rewrite A2. cbn [andb].
  cbn [op_of] in Hstep. unfold wf_run in Hwf.
  destruct (tr_mid r) as [[[k ds] vs]|] eqn:Emid; cbn [step] in Hstep.
  - (* full sync with a scripted write *)
    apply andb_true_iff in Hwf. destruct Hwf as [Hfull Hne]. rewrite Hfull.
    destruct (run_events v cfg (s_hub s) (s_job s) true (tc_batch c) (tr_fail r) (tr_core r)) as [evs0 ok0] eqn:Er.
    destruct (insert_mid evs0 k (EvAppend ds vs)) as [evs1 ins] eqn:Ei. injection Hstep as Es' <- <-.
    destruct ok0; [|reflexivity].
    destruct (full_run_token v cfg (s_hub s) (s_job s) true (tc_batch c) (tr_fail r) (tr_core r) evs0 true Hb eq_refl Er)
      as [_ Hok]. destruct (Hok eq_refl) as (fin & Hlast & Hall).
    assert (Hents : forall m, In m (ents_of evs0) -> In m (ents_of evs1)).
    { destruct (insert_mid_spec _ _ _ _ _ Ei) as [[_ ->]|(_ & e1 & e2 & -> & ->)]; auto.
      intros m Hm. rewrite ents_of_app in *. exact Hm. }
    assert (Hl1 : last_tok evs1 (s_job s) = last_tok evs0 (s_job s)).
    { destruct (insert_mid_spec _ _ _ _ _ Ei) as [[_ ->]|(_ & e1 & e2 & -> & ->)]; auto.
      rewrite !last_tok_app. reflexivity. }
    assert (Htk' : tk' = mkTok fin (wm_tokens v cfg (s_hub s) (tr_core r))).
    { rewrite <- Es' in Ejob'. cbn [s_job] in Ejob'. rewrite Hl1, Hlast in Ejob'. now injection Ejob'. }
    assert (Hmainfeed : feed_of (s_hub s') (c_main cfg) = feed_of (s_hub s) (c_main cfg)).
    { rewrite <- Es'. cbn [s_hub]. destruct ins; auto. unfold append_hub, feed_of. cbn [h_feeds].
      rewrite nth_set_nth. apply negb_true_iff, Nat.eqb_neq in Hne. change (c_main cfg) with (tc_main c).
      destruct (Nat.eqb_spec (tc_main c) ds) as [e|]; [exfalso; apply Hne; now rewrite e|reflexivity]. }
    apply andb_true_iff. split.
    + apply subsetN_intro. intros m Hm. apply filter_In in Hm. destruct Hm as [Hm _]. rewrite Hmainfeed in Hm.
      apply self_emitted_sup. auto.
    + unfold mid_covered. cbn [self_run tr_mid tr_middone tr_deps tr_late]. rewrite Emid.
      destruct (after_append evs1); [|reflexivity]. cbn [negb orb].
      apply forallb_forall. intros dp Hdp. destruct (Nat.eqb_spec (d_ds dp) ds) as [Eds|]; [|reflexivity].
      cbn [negb orb]. apply forallb_nil_range. apply range_tails_empty.
      cbn [tok_obs snd]. rewrite Htk'. cbn [t_deps]. rewrite <- Eds.
      destruct (wm_tokens_own v cfg (s_hub s) (tr_core r) Hw) as [Hwm _]. rewrite (Hwm dp Hdp). lia.
  - destruct (run_events v cfg (s_hub s) (s_job s) (tr_full r) (tc_batch c) (tr_fail r) (tr_core r)) as [evs0 ok0] eqn:Er.
    injection Hstep as Es' <- <-.
    assert (Hhub' : s_hub s' = s_hub s) by (rewrite <- Es'; reflexivity).
    destruct (if tr_full r then None else s_job s) as [tk|] eqn:Ej.
    + (* incremental run *)
      assert (Hjob : s_job s = Some tk) by (destruct (tr_full r); [discriminate|auto]).
      destruct (Hj tk Hjob) as (Hok & Hdin & Hmle).
      unfold run_events in Er. rewrite Ej in Er.
      apply cut_calls_prefix in Er. destruct Er as (l1 & l2 & Hsp & -> & Hokcut).
      apply map_eq_app' in Hsp. destruct Hsp as (cs1 & cs2 & Hcs & -> & Hl2).
      rewrite map_map in *. change (map (fun x : call => ev_of_pair (k_ents x, Some (k_tok x)))) with (map ev_of_call) in *.
      assert (Htk' : tk' = tok_after cs1 tk).
      { rewrite <- Es' in Ejob'. cbn [s_job] in Ejob'. rewrite Hjob, last_tok_calls in Ejob'. now injection Ejob'. }
      rewrite Hhub'.
      assert (Hcaught : (if ok0 then forallb (fun dp => negb (Z.eqb (tok_get (t_deps tk') (d_ds dp)) (tok_get (t_deps tk) (d_ds dp)))
                                                       || Z.eqb (tok_get (t_deps tk') (d_ds dp)) (lenz (feed_of (s_hub s) (d_ds dp))))
                                            (c_deps cfg) else true) = true).
      { destruct ok0; [|reflexivity]. specialize (Hokcut eq_refl). rewrite Hokcut in Hl2. symmetry in Hl2. apply map_eq_nil in Hl2. subst cs2.
        rewrite app_nil_r in Hcs. apply forallb_forall. intros dp Hdp.
        fold (dtok tk' (d_ds dp)). fold (dtok tk (d_ds dp)).
        destruct (Z.eqb_spec (dtok tk' (d_ds dp)) (dtok tk (d_ds dp))) as [Heq|]; [|reflexivity]. cbn [negb orb].
        apply Z.eqb_eq. rewrite Heq. rewrite Htk', <- Hcs in Heq.
        pose proof (run_fixpoint v cfg (s_hub s) (tc_batch c) Hs Hp Hsk Hb tk dp Hok Hdp Heq) as Hge.
        pose proof (deps_in_dtok (s_hub s) tk (d_ds dp) Hdin). lia. }
      cbv iota.
      destruct cs1 as [|k0 cs1r] using rev_ind.
      * (* nothing persisted: the token is the one the run started with *)
        cbn [tok_after fold_left] in Htk'. subst tk'. rewrite Hcaught, andb_true_r. apply andb_true_iff. split.
        -- apply forallb_forall. intros dp Hdp. unfold dep_covered. apply forallb_nil_range, range_tails_empty. lia.
        -- unfold main_covered. apply forallb_nil_range, range_tails_empty. lia.
      * clear IHcs1r. rewrite tok_after_app in Htk'. cbn [tok_after fold_left] in Htk'. subst tk'.
        rewrite <- app_assoc in Hcs. cbn [app] in Hcs.
        assert (HE : forall m, In m (ents (cs1r ++ [k0])) -> In m (sortN (concat (ev_ents (map ev_of_call (cs1r ++ [k0])))))).
        { intros m Hm. apply self_emitted_sup. now rewrite ents_of_calls. }
        rewrite Hcaught, andb_true_r. apply andb_true_iff. split.
        -- apply forallb_forall. intros dp Hdp.
           exact (inc_dep_covered v cfg (s_hub s) (tc_batch c) Hs Hp Hsk Hb tk cs1r k0 cs2 _ dp Hok Hcs HE Hdp).
        -- exact (inc_main_covered v cfg (s_hub s) (tc_batch c) Hs Hp Hsk Hb tk cs1r k0 cs2 _ Hok Hcs HE).
    + (* full sync *)
      destruct ok0; [|reflexivity].
      destruct (full_run_token v cfg (s_hub s) (s_job s) (tr_full r) (tc_batch c) (tr_fail r) (tr_core r) evs0 true Hb Ej Er)
        as [_ Hok]. destruct (Hok eq_refl) as (fin & Hlast & Hall).
      apply andb_true_iff. split.
      * apply subsetN_intro. intros m Hm. apply filter_In in Hm. destruct Hm as [Hm _]. rewrite Hhub' in Hm.
        apply self_emitted_sup. auto.
      * unfold mid_covered. cbn [self_run tr_mid]. rewrite Emid. reflexivity.
Qed.


Lemma spec_ops_ext : forall c1 c2 ops h before,
  cfg_of c1 = cfg_of c2 -> spec_ops c1 h before ops = spec_ops c2 h before ops.
Proof.
  intros c1 c2 ops. induction ops as [|o ops IH]; intros h before E; cbn [spec_ops]; auto.
  destruct o as [k vs|r]; [auto|]. rewrite E. f_equal. auto.
Qed.

Definition wf_ops (c : tcase) (ops : list top) : bool :=
  forallb (fun o => match o with TRun r => wf_run c r | _ => true end) ops.

Lemma self_spec_ops : forall v c ops s,
  sound_l v (cfg_of c) -> (1 <= tc_batch c)%nat -> wf_ops c ops = true -> jinv (cfg_of c) s ->
  spec_ops c (s_hub s) (s_job s) (self_ops v c s ops) = true.
Proof.
  intros v c. induction ops as [|o ops IH]; intros s Hv Hb Hwf Hj; cbn [self_ops spec_ops]; auto.
  cbn [wf_ops forallb] in Hwf. apply andb_true_iff in Hwf. destruct Hwf as [Hwo Hwf].
  destruct (step v (cfg_of c) s (op_of c o)) as [[s' evs] ok] eqn:E.
  destruct o as [k vs|r]; cbn [spec_ops].
  - assert (Hj' : jinv (cfg_of c) s') by (eapply step_jinv; eauto; exact I).
    cbn [op_of step] in E. injection E as <- _ _. cbn [s_hub s_job] in *. apply (IH _ Hv Hb Hwf Hj').
  - destruct (self_run_spec v c s r s' evs ok Hv Hb Hwo Hj E) as (Hspec & Hhub & Hobs & Hj').
    rewrite Hspec, Hhub, Hobs. cbn [andb]. auto.
Qed.

(** The model, in its repaired form, meets the executable spec on its own observations - for every case
    (any graph, history, join list, batch size, LatestOnly flag, sink failures, writes during a full sync). *)
Theorem model_meets_spec : forall v c,
  sound_l v (cfg_of c) -> wf_case c = true -> spec_ok (selfobs v c) = true.
Proof.
  intros v c Hv Hwf. unfold wf_case in Hwf. apply andb_true_iff in Hwf. destruct Hwf as [Hb Hwf].
  apply Nat.leb_le in Hb. unfold spec_ok. cbn [selfobs tc_n tc_ops].
  rewrite (spec_ops_ext (selfobs v c) c) by reflexivity.
  apply (self_spec_ops v c (tc_ops c) (init_state (tc_n c)) Hv Hb Hwf). intros tk Htk. discriminate.
Qed.

(** * agreement pins the observations down to the model's, except where the model says nothing *)
Lemma nlist_eqb_eq : forall a b, list_eqb N.eqb a b = true -> a = b.
Proof. intros a b H. apply (list_eqb_eq N.eqb); auto. intros x y. apply N.eqb_eq. Qed.
Lemma natlist_eqb_eq : forall a b, list_eqb Nat.eqb a b = true -> a = b.
Proof. intros a b H. apply (list_eqb_eq Nat.eqb); auto. intros x y. apply Nat.eqb_eq. Qed.
Lemma natzlist_eqb_eq : forall a b, list_eqb natz_eqb a b = true -> a = b.
Proof.
  intros a b H. apply (list_eqb_eq natz_eqb); auto. intros [x1 z1] [x2 z2]. unfold natz_eqb. cbn [fst snd].
  rewrite andb_true_iff, Nat.eqb_eq, Z.eqb_eq. split; [intros [-> ->]; reflexivity|intros [= -> ->]; auto].
Qed.

Lemma run_agree_self : forall evs ok job r, run_agree evs ok job r = true -> ok_run r evs = self_run r evs ok job.
Proof.
  intros evs ok job r H. unfold run_agree in H.
  apply andb_true_iff in H. destruct H as [H Hdeps]. apply andb_true_iff in H. destruct H as [H Hmain].
  apply andb_true_iff in H. destruct H as [H Hem]. apply andb_true_iff in H. destruct H as [H Hcalls].
  apply andb_true_iff in H. destruct H as [Hmid Hok].
  apply eqb_prop in Hok. apply natlist_eqb_eq in Hcalls. apply Z.eqb_eq in Hmain. apply natzlist_eqb_eq in Hdeps.
  unfold ok_run, self_run. rewrite <- Hok, <- Hcalls, <- Hmain, <- Hdeps.
  assert (He : (if ok then tr_emitted r else sortN (concat (ev_ents evs))) = sortN (concat (ev_ents evs))).
  { destruct ok; auto. apply nlist_eqb_eq in Hem. auto. }
  rewrite He. destruct (after_append evs) as [late|].
  - apply andb_true_iff in Hmid. destruct Hmid as [-> Hl]. f_equal.
    destruct (ok && tr_full r); auto. apply nlist_eqb_eq in Hl. auto.
  - apply negb_true_iff in Hmid. rewrite Hmid. reflexivity.
Qed.

Lemma agree_ok_self : forall v c ops s, agree_ops v c s ops = true -> ok_ops v c s ops = self_ops v c s ops.
Proof.
  intros v c. induction ops as [|o ops IH]; intros s H; cbn [agree_ops ok_ops self_ops] in *; auto.
  destruct (step v (cfg_of c) s (op_of c o)) as [[s' evs] ok]. apply andb_true_iff in H. destruct H as [Hr H].
  rewrite (IH _ H). destruct o as [k vs|r]; auto. now rewrite (run_agree_self _ _ _ _ Hr).
Qed.

(** C18_agree_implies_spec.  If the implementation's observations of a (well-formed) case agree with the
    repaired model, the whole executable spec holds on them - main-only, tokens in range, run-level coverage
    including runs cut short by a sink failure, full-sync delivery, the write-during-full-sync clause - where the
    two observations agreement cannot determine are taken from the model ([okobs]: the marker count, and which ids
    a FAILED run had delivered; for these [spec_ok] is evaluated on the implementation's observation by the
    check, not linked). *)
Theorem agree_implies_spec : forall v c,
  sound_l v (cfg_of c) -> wf_case c = true -> agree v c = true -> spec_ok (okobs v c) = true.
Proof.
  intros v c Hv Hwf Ha. unfold agree in Ha. apply andb_true_iff in Ha. destruct Ha as [_ Ha].
  assert (E : okobs v c = selfobs v c).
  { unfold okobs, selfobs. now rewrite (agree_ok_self v c _ _ Ha). }
  rewrite E. now apply model_meets_spec.
Qed.

(** on runs that ended OK the implementation's own delivered ids are the ones used *)
Lemma okobs_keeps_ok_runs : forall r evs, tr_ok r = true ->
  tr_emitted (ok_run r evs) = tr_emitted r /\ tr_calls (ok_run r evs) = tr_calls r /\
  tr_main (ok_run r evs) = tr_main r /\ tr_deps (ok_run r evs) = tr_deps r.
Proof. intros r evs H. unfold ok_run. cbn. now rewrite H. Qed.


Lemma ev_ents_sub : forall evs x, In x (concat (ev_ents evs)) -> In x (ents_of evs).
Proof.
  induction evs as [|e evs IH]; intros x H; cbn in *; [auto|].
  destruct e as [k vs|es tk]; [auto|]. destruct es as [|y es]; [cbn; auto|].
  cbn [concat] in H. apply in_app_or in H. apply in_or_app. destruct H; auto.
Qed.

(** what agreement on one run gives: the observed "write performed" flag is the model's, and the ids of a
    successful run are those of the model's events *)
Lemma run_agree_facts : forall evs ok job r,
  run_agree evs ok job r = true ->
  (tr_middone r = match after_append evs with Some _ => true | None => false end) /\
  ok = tr_ok r /\ (ok = true -> tr_emitted r = sortN (concat (ev_ents evs))).
Proof.
  intros evs ok job r H. unfold run_agree in H. repeat (apply andb_true_iff in H; destruct H as [H ?]).
  split; [|split].
  - destruct (after_append evs).
    + apply andb_true_iff in H. tauto.
    + now apply negb_true_iff in H.
  - match goal with H : Bool.eqb ok _ = true |- _ => now apply eqb_prop in H end.
  - intros ->. match goal with H : list_eqb N.eqb _ (tr_emitted r) = true |- _ =>
      apply nlist_eqb_eq in H; now rewrite H end.
Qed.

Lemma ev_ents_insert : forall e1 e2 ds vs x,
  In x (concat (ev_ents (e1 ++ EvAppend ds vs :: e2))) -> In x (ents_of (e1 ++ e2)).
Proof.
  intros e1 e2 ds vs x H. apply ev_ents_sub in H. rewrite ents_of_app in *. exact H.
Qed.

Lemma agree_ops_main : forall v c s ops,
  agree_ops v c s ops = true -> spec_main_ops c (s_hub s) ops = true.
Proof.
  intros v c s ops. revert s. induction ops as [|o ops IH]; intros s H; cbn [agree_ops spec_main_ops] in *; auto.
  destruct (step v (cfg_of c) s (op_of c o)) as [[s' evs] ok] eqn:E.
  apply andb_true_iff in H. destruct H as [Hr H]. specialize (IH _ H).
  destruct o as [k vs|r]; cbn [op_of] in E.
  - cbn [step] in E. injection E as <- _ _. exact IH.
  - apply run_agree_facts in Hr. destruct Hr as (Hmd & Hok & Hem).
    assert (Hgoal : s_hub s' = run_hub (s_hub s) r /\
                    forall x, In x (concat (ev_ents evs)) -> In x (map v_id (feed_of (s_hub s') (tc_main c)))).
    { split; [|intros x Hx; apply ev_ents_sub in Hx; exact (proj1 (step_main _ _ _ _ _ _ _ E) x Hx)].
      assert (Hfm : forall job k ds vs evs0 ok0 evs1 ins,
                run_events v (cfg_of c) (s_hub s) job true (tc_batch c) (tr_fail r) (tr_core r) = (evs0, ok0) ->
                insert_mid evs0 k (EvAppend ds vs) = (evs1, ins) ->
                ins = match after_append evs1 with Some _ => true | None => false end).
      { intros job k ds vs evs0 ok0 evs1 ins Er Ei.
        pose proof (no_append_run_events _ _ _ _ _ _ _ _ _ _ Er) as Hna.
        destruct (insert_mid_spec _ _ _ _ _ Ei) as [[-> ->]|(-> & e1 & e2 & -> & ->)].
        - now rewrite (after_append_none _ Hna).
        - apply no_append_app in Hna. now rewrite (after_append_mid _ _ _ _ (proj1 Hna)). }
      unfold run_hub. destruct (tr_mid r) as [[[k ds] vs]|].
      - destruct (tr_full r); cbn [step] in E.
        + destruct (run_events v (cfg_of c) (s_hub s) (s_job s) true (tc_batch c) (tr_fail r) (tr_core r)) as [evs0 ok0] eqn:Er.
          destruct (insert_mid evs0 k (EvAppend ds vs)) as [evs1 ins] eqn:Ei. injection E as <- <- <-. cbn [s_hub].
          rewrite Hmd, <- (Hfm _ _ _ _ _ _ _ _ Er Ei). reflexivity.
        + destruct (s_job s) as [tk|].
          * destruct (cut_evs (inc_pages_mid v (cfg_of c) (s_hub s) (append_hub (s_hub s) ds vs) (tc_batch c)
                                (fuel_of (s_hub s) (cfg_of c)) tk 0 k (EvAppend ds vs) false) (tr_fail r) 0) as [evs0 ok0].
            injection E as <- <- <-. cbn [s_hub]. rewrite Hmd.
            assert (Hha : has_append evs0 = match after_append evs0 with Some _ => true | None => false end).
            { clear. induction evs0 as [|a l IHl]; cbn; auto. destruct a; auto. }
            now rewrite Hha.
          * destruct (run_events v (cfg_of c) (s_hub s) None true (tc_batch c) (tr_fail r) (tr_core r)) as [evs0 ok0] eqn:Er.
            destruct (insert_mid evs0 k (EvAppend ds vs)) as [evs1 ins] eqn:Ei. injection E as <- <- <-. cbn [s_hub].
            rewrite Hmd, <- (Hfm _ _ _ _ _ _ _ _ Er Ei). reflexivity.
      - cbn [step] in E.
        destruct (run_events v (cfg_of c) (s_hub s) (s_job s) (tr_full r) (tc_batch c) (tr_fail r) (tr_core r)) as [evs0 ok0].
        injection E as <- _ _. reflexivity. }
    destruct Hgoal as [Hhub Hsub]. rewrite <- Hhub, IH, andb_true_r.
    destruct (tr_ok r) eqn:Eok; [|reflexivity]. cbn [negb orb].
    unfold subsetN. apply forallb_forall. intros x Hx. apply memN_In. rewrite (Hem Hok) in Hx.
    apply (proj1 (sortN_In _ _)) in Hx. auto.
Qed.

Theorem agree_implies_main_only : forall v c, agree v c = true -> spec_main_only c = true.
Proof.
  intros v c H. unfold agree in H. apply andb_true_iff in H. destruct H as [_ H].
  exact (agree_ops_main v c _ _ H).
Qed.
