(** Agreement with the model implies the spec on the implementation's own observations - PARTIAL.

    Proved ([agree_implies_main_only]): for EVERY variant (so in particular for the repaired one), if the
    implementation's observations agree with the model on a case, then the C18_main_only part of the executable
    spec holds on those observations: everything a successful run handed to the sink is an id of the main dataset.

    Not proved (gap): the [dep_covered] / [main_covered] / [tokens_in_range] parts of [run_spec_ok] for
    [v_fixed].  They are the run-level, executable form of [tokens_safe] (Proofs/MultiSourceProofs.v): the
    missing step is (i) the equivalence between the spec evaluators [now_targets] / [prev_targets] (walks) and
    the relational [required], of which only the direction "required -> delivered" is proved ([walk_now],
    [walk_prev]), and (ii) re-basing the previous-run view of later pages of one run on the run's start token
    (an entity's first change in the run is processed against the view the run started with).  The check
    evaluates the full [spec_ok] on every case and reports every case where it fails on the implementation. *)
From Coq Require Import List ZArith NArith Bool Arith Lia.
From DH Require Import Lib.CheckLib Model.MultiSource Proofs.MultiSourceProofs Check.C18Check.
Import ListNotations.

Lemma insertN_In : forall x y l, In x (insertN y l) <-> x = y \/ In x l.
Proof.
  induction l as [|z l IH]; cbn [insertN In].
  - split; [intros [->|[]]; auto|intros [->|[]]; auto].
  - destruct (N.leb y z); cbn [In]; [|rewrite IH]; split; intuition congruence.
Qed.

Lemma sortN_In : forall x l, In x (sortN l) <-> In x l.
Proof.
  induction l as [|y l IH]; cbn [sortN fold_right In]; [tauto|]. fold (sortN l). rewrite insertN_In, IH.
  split; intros [H|H]; auto.
Qed.

Lemma ev_ents_sub : forall evs x, In x (concat (ev_ents evs)) -> In x (ents_of evs).
Proof.
  induction evs as [|e evs IH]; intros x H; cbn in *; [auto|].
  destruct e as [k vs|es tk]; [auto|]. destruct es as [|y es]; [cbn; auto|].
  cbn [concat] in H. apply in_app_or in H. apply in_or_app. destruct H; auto.
Qed.

Lemma nlist_eqb_eq : forall a b, list_eqb N.eqb a b = true -> a = b.
Proof. intros a b H. apply (list_eqb_eq N.eqb); auto. intros x y. apply N.eqb_eq. Qed.

Lemma agree_ops_main : forall v c s ops,
  agree_ops v c s ops = true -> spec_main_ops c (s_hub s) ops = true.
Proof.
  intros v c s ops. revert s. induction ops as [|o ops IH]; intros s H; cbn [agree_ops spec_main_ops] in *; auto.
  destruct (step v (cfg_of c) s (op_of c o)) as [[s' evs] ok] eqn:E.
  apply andb_true_iff in H. destruct H as [Hr H]. specialize (IH _ H).
  destruct o as [k vs|r]; cbn [op_of step] in E.
  - injection E as <- _ _. exact IH.
  - destruct (run_events v (cfg_of c) (s_hub s) (s_job s) (tr_full r) (tc_batch c) (tr_fail r) (tr_core r)) as [evs' ok'] eqn:Er.
    injection E as <- <- <-. cbn [s_hub] in IH. rewrite IH, andb_true_r.
    unfold run_agree in Hr. repeat (apply andb_true_iff in Hr; destruct Hr as [Hr ?]).
    apply eqb_prop in Hr. subst ok'. destruct (tr_ok r) eqn:Eok; [|reflexivity]. cbn [negb orb].
    match goal with H : list_eqb N.eqb _ _ = true |- _ => apply nlist_eqb_eq in H; rename H into Hem end.
    unfold subsetN. apply forallb_forall. intros x Hx. apply memN_In. rewrite <- Hem in Hx.
    apply (proj1 (sortN_In _ _)) in Hx. apply ev_ents_sub in Hx.
    exact (run_events_main _ _ _ _ _ _ _ _ _ _ Er x Hx).
Qed.

Theorem agree_implies_main_only : forall v c, agree v c = true -> spec_main_only c = true.
Proof.
  intros v c H. unfold agree in H. apply andb_true_iff in H. destruct H as [_ H].
  exact (agree_ops_main v c _ _ H).
Qed.
