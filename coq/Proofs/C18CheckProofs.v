(** Agreement with the model implies the spec on the implementation's own observations - PARTIAL.

    Proved ([agree_implies_main_only]): for EVERY variant (so in particular for the repaired one), if the
    implementation's observations agree with the model on a case, then the C18_main_only part of the executable
    spec holds on those observations: everything a successful run handed to the sink is an id of the main dataset.

    Not proved (gap): the [dep_covered] / [main_covered] / [tokens_in_range] parts of [run_spec_ok] for
    [v_fixed].  They are the run-level, executable form of [tokens_safe] (Proofs/MultiSourceProofs.v): the
    missing step is (i) the equivalence between the spec evaluators [now_targets] / [prev_targets] (walks) and
    the relational [required], of which only the direction "required -> delivered" is proved ([walk_now],
    [walk_prev]), and (ii) re-basing the previous-run view of later pages of one run on the run's start token
    (an entity's first change in the run is processed against the view the run started with).  The check
    evaluates the full [spec_ok] on every case and reports every case where it fails on the implementation. *)
From Coq Require Import List ZArith NArith Bool Arith Lia.
From DH Require Import Lib.CheckLib Model.MultiSource Proofs.MultiSourceProofs Check.C18Check.
Import ListNotations.

Lemma insertN_In : forall x y l, In x (insertN y l) <-> x = y \/ In x l.
Proof.
  induction l as [|z l IH]; cbn [insertN In].
  - split; [intros [->|[]]; auto|intros [->|[]]; auto].
  - destruct (N.leb y z); cbn [In]; [|rewrite IH]; split; intuition congruence.
Qed.

Lemma sortN_In : forall x l, In x (sortN l) <-> In x l.
Proof.
  induction l as [|y l IH]; cbn [sortN fold_right In]; [tauto|]. fold (sortN l). rewrite insertN_In, IH.
  split; intros [H|H]; auto.
Qed.

Lemma ev_ents_sub : forall evs x, In x (concat (ev_ents evs)) -> In x (ents_of evs).
Proof.
  induction evs as [|e evs IH]; intros x H; cbn in *; [auto|].
  destruct e as [k vs|es tk]; [auto|]. destruct es as [|y es]; [cbn; auto|].
  cbn [concat] in H. apply in_app_or in H. apply in_or_app. destruct H; auto.
Qed.

Lemma nlist_eqb_eq : forall a b, list_eqb N.eqb a b = true -> a = b.
Proof. intros a b H. apply (list_eqb_eq N.eqb); auto. intros x y. apply N.eqb_eq. Qed.

Lemma no_append_run_events : forall v c h job full b fail core evs ok,
  run_events v c h job full b fail core = (evs, ok) -> no_append evs.
Proof.
  intros v c h job full b fail core evs ok H. unfold run_events in H.
  destruct (if full then None else job).
  - apply cut_calls_prefix in H. destruct H as (l1 & l2 & _ & -> & _). apply no_append_pairs.
  - destruct (full_pages c h b (fuel_of h c) 0). apply cut_calls_prefix in H.
    destruct H as (l1 & l2 & _ & -> & _). apply no_append_pairs.
Qed.

Lemma after_append_none : forall evs, no_append evs -> after_append evs = None.
Proof. induction evs as [|e evs IH]; cbn [no_append after_append]; auto. destruct e; [intros []|auto]. Qed.

Lemma after_append_mid : forall e1 e2 ds vs, no_append e1 -> after_append (e1 ++ EvAppend ds vs :: e2) = Some e2.
Proof.
  induction e1 as [|e e1 IH]; intros e2 ds vs H; cbn [app no_append after_append] in *; auto.
  destruct e; [destruct H|auto].
Qed.

(** what agreement on one run gives: the observed "write performed" flag is the model's, and the ids of a
    successful run are those of the model's events *)
Lemma run_agree_facts : forall evs ok job r,
  run_agree evs ok job r = true ->
  (tr_middone r = match after_append evs with Some _ => true | None => false end) /\
  ok = tr_ok r /\ (ok = true -> tr_emitted r = sortN (concat (ev_ents evs))).
Proof.
  intros evs ok job r H. unfold run_agree in H. repeat (apply andb_true_iff in H; destruct H as [H ?]).
  split; [|split].
  - destruct (after_append evs).
    + apply andb_true_iff in H. tauto.
    + now apply negb_true_iff in H.
  - match goal with H : Bool.eqb ok _ = true |- _ => now apply eqb_prop in H end.
  - intros ->. match goal with H : list_eqb N.eqb _ (tr_emitted r) = true |- _ =>
      apply nlist_eqb_eq in H; now rewrite H end.
Qed.

Lemma ev_ents_insert : forall e1 e2 ds vs x,
  In x (concat (ev_ents (e1 ++ EvAppend ds vs :: e2))) -> In x (ents_of (e1 ++ e2)).
Proof.
  intros e1 e2 ds vs x H. apply ev_ents_sub in H. rewrite ents_of_app in *. exact H.
Qed.

Lemma agree_ops_main : forall v c s ops,
  agree_ops v c s ops = true -> spec_main_ops c (s_hub s) ops = true.
Proof.
  intros v c s ops. revert s. induction ops as [|o ops IH]; intros s H; cbn [agree_ops spec_main_ops] in *; auto.
  destruct (step v (cfg_of c) s (op_of c o)) as [[s' evs] ok] eqn:E.
  apply andb_true_iff in H. destruct H as [Hr H]. specialize (IH _ H).
  destruct o as [k vs|r]; cbn [op_of] in E.
  - cbn [step] in E. injection E as <- _ _. exact IH.
  - apply run_agree_facts in Hr. destruct Hr as (Hmd & Hok & Hem).
    assert (Hgoal : s_hub s' = run_hub (s_hub s) r /\
                    forall x, In x (concat (ev_ents evs)) -> In x (map v_id (feed_of (s_hub s') (tc_main c)))).
    { unfold run_hub. destruct (tr_mid r) as [[[k ds] vs]|]; cbn [step] in E.
      - destruct (run_events v (cfg_of c) (s_hub s) (s_job s) true (tc_batch c) (tr_fail r) (tr_core r)) as [evs0 ok0] eqn:Er.
        destruct (insert_mid evs0 k (EvAppend ds vs)) as [evs1 ins] eqn:Ei. injection E as <- <- <-. cbn [s_hub].
        pose proof (no_append_run_events _ _ _ _ _ _ _ _ _ _ Er) as Hna.
        destruct (insert_mid_spec _ _ _ _ _ Ei) as [[-> ->]|(-> & e1 & e2 & -> & ->)].
        + rewrite (after_append_none _ Hna) in Hmd. rewrite Hmd. split; auto. intros x Hx.
          apply ev_ents_sub in Hx. exact (run_events_main _ _ _ _ _ _ _ _ _ _ Er x Hx).
        + apply no_append_app in Hna. rewrite (after_append_mid _ _ _ _ (proj1 Hna)) in Hmd. rewrite Hmd.
          split; auto. intros x Hx. apply ev_ents_insert in Hx.
          apply (main_ids_append (s_hub s) (cfg_of c) ds vs). exact (run_events_main _ _ _ _ _ _ _ _ _ _ Er x Hx).
      - destruct (run_events v (cfg_of c) (s_hub s) (s_job s) (tr_full r) (tc_batch c) (tr_fail r) (tr_core r)) as [evs0 ok0] eqn:Er.
        injection E as <- <- <-. cbn [s_hub]. split; auto. intros x Hx. apply ev_ents_sub in Hx.
        exact (run_events_main _ _ _ _ _ _ _ _ _ _ Er x Hx). }
    destruct Hgoal as [Hhub Hsub]. rewrite <- Hhub, IH, andb_true_r.
    destruct (tr_ok r) eqn:Eok; [|reflexivity]. cbn [negb orb].
    unfold subsetN. apply forallb_forall. intros x Hx. apply memN_In. rewrite (Hem Hok) in Hx.
    apply (proj1 (sortN_In _ _)) in Hx. auto.
Qed.

Theorem agree_implies_main_only : forall v c, agree v c = true -> spec_main_only c = true.
Proof.
  intros v c H. unfold agree in H. apply andb_true_iff in H. destruct H as [_ H].
  exact (agree_ops_main v c _ _ H).
Qed.
