(** Lemmas about the token check (Model/Jwt.v). *)
From Coq Require Import List String Ascii Bool Arith.
From DH Require Import Model.Acl Model.Jwt Proofs.AclProofs.
Import ListNotations.
Open Scope string_scope.

Lemma parses_with_facts k f :
  parses_with k f = true ->
  f_wellformed f = true /\ f_signer f = k /\ f_expired f = false /\ f_notyet f = false.
Proof.
  unfold parses_with. rewrite !andb_true_iff, !negb_true_iff. intros [[[[H1 _] H3] H4] H5].
  repeat split; try assumption. destruct k, (f_signer f); try discriminate; reflexivity.
Qed.

Lemma verify_aud_required aud cmp : verify_aud true aud cmp = true -> In cmp aud.
Proof.
  unfold verify_aud. destruct aud as [|a aud]; [discriminate|].
  destruct (String.concat "" (a :: aud) =? ""); [discriminate|].
  intros H. apply existsb_exists in H. destruct H as (x & Hin & E). apply String.eqb_eq in E. now subst.
Qed.

Lemma verify_iss_required iss cmp : verify_iss true iss cmp = true -> iss <> "" /\ iss = cmp.
Proof.
  unfold verify_iss. destruct (iss =? "") eqn:E; [discriminate|]. intros H. apply String.eqb_eq in H.
  split; [|assumption]. intros ->. discriminate.
Qed.

(** whoever signed: the node key, or (when configured) a key of the external JWKS named by the kid header *)
Lemma trusted_signature cfg f :
  parses_with KNode f || (cfg_oauth cfg && match f_kid f with KidGood => parses_with KOauth f | _ => false end) = true ->
  f_wellformed f = true
  /\ (f_signer f = KNode \/ (f_signer f = KOauth /\ cfg_oauth cfg = true /\ f_kid f = KidGood))
  /\ f_expired f = false /\ f_notyet f = false.
Proof.
  intros H. apply orb_true_iff in H. destruct H as [H | H].
  - apply parses_with_facts in H. intuition.
  - apply andb_true_iff in H. destruct H as [Ho H]. destruct (f_kid f) eqn:Ek; try discriminate.
    apply parses_with_facts in H. intuition.
Qed.

(** the repaired check accepts only tokens the hub may trust *)
Theorem validate_fixed_sound cfg f : validate ClaimsRequired cfg f = true -> token_ok cfg f.
Proof.
  unfold validate, token_ok. cbn [required_of].
  destruct (parses_with KNode f || (cfg_oauth cfg && match f_kid f with KidGood => parses_with KOauth f | _ => false end)) eqn:Es;
    cbn [negb]; [|discriminate].
  rewrite !andb_true_iff. intros [[Ha Hi] Halg].
  destruct (trusted_signature _ _ Es) as (Hw & Hs & He & Hn).
  apply existsb_exists in Ha. destruct Ha as (a & Hain & Ha). apply verify_aud_required in Ha.
  apply existsb_exists in Hi. destruct Hi as (i & Hiin & Hi). apply verify_iss_required in Hi. destruct Hi as [Hi1 Hi2].
  apply String.eqb_eq in Halg.
  repeat split; try assumption.
  - now exists a.
  - now subst i.
Qed.

Lemma verify_aud_mono aud cmp : verify_aud true aud cmp = true -> verify_aud false aud cmp = true.
Proof.
  unfold verify_aud. destruct aud; [discriminate|]. now destruct (String.concat "" (s :: aud) =? "").
Qed.
Lemma verify_iss_mono iss cmp : verify_iss true iss cmp = true -> verify_iss false iss cmp = true.
Proof. unfold verify_iss. now destruct (iss =? ""). Qed.

Lemma existsb_mono {A} (f g : A -> bool) l : (forall x, f x = true -> g x = true) -> existsb f l = true -> existsb g l = true.
Proof. intros H E. apply existsb_exists in E. destruct E as (x & Hin & E). apply existsb_exists. exists x. auto. Qed.

(** the repair only takes away *)
Theorem validate_required_implies_optional cfg f :
  validate ClaimsRequired cfg f = true -> validate ClaimsOptional cfg f = true.
Proof.
  unfold validate. cbn [required_of]. destruct (negb _); [discriminate|].
  rewrite !andb_true_iff. intros [[Ha Hi] Halg]. repeat split; try assumption.
  - eapply existsb_mono; [|exact Ha]. apply verify_aud_mono.
  - eapply existsb_mono; [|exact Hi]. apply verify_iss_mono.
Qed.

(** exactly when the pinned check accepts more: a claim is missing (and the hub has some accepted value configured) *)
Theorem validate_optional_beyond cfg f :
  validate ClaimsOptional cfg f = true -> validate ClaimsRequired cfg f = false ->
  String.concat "" (f_aud f) = "" \/ f_iss f = "".
Proof.
  unfold validate. cbn [required_of]. destruct (negb _); [discriminate|].
  rewrite !andb_true_iff. intros [[Ha Hi] Halg] Hf. rewrite Halg, andb_true_r in Hf.
  destruct (String.concat "" (f_aud f) =? "") eqn:Ec; [left; now apply String.eqb_eq|].
  destruct (f_iss f =? "") eqn:Ei; [right; now apply String.eqb_eq|]. exfalso.
  assert (Ha' : existsb (verify_aud true (f_aud f)) (cfg_aud cfg) = true).
  { eapply existsb_mono; [|exact Ha]. intros x. unfold verify_aud. destruct (f_aud f); [discriminate|]. now rewrite Ec. }
  assert (Hi' : existsb (verify_iss true (f_iss f)) (cfg_iss cfg) = true).
  { eapply existsb_mono; [|exact Hi]. intros x. unfold verify_iss. now rewrite Ei. }
  rewrite Ha', Hi' in Hf. discriminate.
Qed.

(** executable spec = spec *)
Lemma token_ok_b_spec cfg f : token_ok_b cfg f = true <-> token_ok cfg f.
Proof.
  unfold token_ok_b, token_ok. rewrite !andb_true_iff, !negb_true_iff, String.eqb_eq, mem_str_spec. split.
  - intros [[[[[[[Hw Hs] He] Hn] Ha] Haud] Hi] Hin]. repeat split; try assumption.
    + destruct (f_signer f); [now left | right | discriminate].
      apply andb_true_iff in Hs. destruct Hs as [Ho Hk]. destruct (f_kid f); try discriminate. auto.
    + apply existsb_exists in Haud. destruct Haud as (a & H1 & H2). apply mem_str_spec in H2. now exists a.
    + intros E. rewrite E in Hi. discriminate.
  - intros (Hw & Hs & He & Hn & Ha & (a & H1 & H2) & Hi & Hin). repeat split; try assumption.
    + destruct Hs as [-> | (-> & -> & ->)]; reflexivity.
    + apply existsb_exists. exists a. split; [assumption | now apply mem_str_spec].
    + destruct (f_iss f =? "") eqn:E; [|reflexivity]. apply String.eqb_eq in E. contradiction.
Qed.

(** F16d: a node-signed RS256 token with an open time window and neither aud nor iss is accepted *)
Definition bare_token : tokfacts :=
  {| f_wellformed := true; f_alg := "RS256"; f_signer := KNode; f_kid := KidNone; f_expired := false; f_notyet := false;
     f_aud := []; f_iss := ""; f_sub := "c1"; f_roles := ["client"] |}.
Definition node_cfg : jwtcfg :=
  {| cfg_oauth := false; cfg_aud := ["node:n1"]; cfg_iss := ["node:n1"] |}.

Lemma refuted_missing_claims :
  validate ClaimsOptional node_cfg bare_token = true /\ ~ token_ok node_cfg bare_token.
Proof.
  split; [vm_compute; reflexivity|]. intros H. apply token_ok_b_spec in H. vm_compute in H. discriminate.
Qed.
