(** Where the pinned parser panics.  [with_chk v] is v with the type assertions checked.
    Simulation: on every input the checked parser returns exactly what the unchecked one
    returns, except that a panic becomes an error - same entities handed to the callback, same
    namespaces, same everything else.  So the pinned tree panics on precisely the inputs on which
    it differs from its types-checked version, and a panic never hides a different behaviour. *)
From Coq Require Import List String Ascii NArith Bool Lia PeanoNat.
From DH Require Import Model.Parser Proofs.ParserProofs Proofs.ParserFuel.
Import ListNotations.
Open Scope string_scope.

Definition with_chk (v : variant) : variant :=
  {| chk_types := true; skip_unknown := skip_unknown v; strict := strict v |}.
Definition demote {A} (r : res A) : res A := match r with Panic => Err | _ => r end.
Definition demote_o (o : outcome) : outcome := match o with OPanic => OErr | _ => o end.

Section Sim.
  Variable v : variant.
  Variable ns : nsmap.
  Notation v' := (with_chk v).

  Lemma assert_fail_sim A : @assert_fail A v' = demote (@assert_fail A v).
  Proof. unfold assert_fail. cbn. destruct (chk_types v); reflexivity. Qed.

  Ltac sim_tac rew :=
    change (strict (with_chk v)) with (strict v);
    change (skip_unknown (with_chk v)) with (skip_unknown v);
    repeat first
      [ reflexivity | progress rew | progress cbn [demote]
      | match goal with |- context [demote ?x] =>
          lazymatch x with context [match _ with _ => _ end] => fail | _ => destruct x eqn:? end end
      | split_match ].

  Lemma ref_array_sim f : forall acc ts, parse_ref_array v' ns f acc ts = demote (parse_ref_array v ns f acc ts).
  Proof.
    induction f as [|f IH]; intros acc ts; [reflexivity|]. rewrite !ref_array_S.
    sim_tac ltac:(rewrite IH).
  Qed.
  Lemma ref_value_sim f : forall ts, parse_ref_value v' ns f ts = demote (parse_ref_value v ns f ts).
  Proof.
    induction f as [|f IH]; intros ts; [reflexivity|]. rewrite !ref_value_S.
    sim_tac ltac:(first [rewrite IH | rewrite ref_array_sim]).
  Qed.
  Lemma refs_sim f : forall acc ts, parse_refs v' ns f acc ts = demote (parse_refs v ns f acc ts).
  Proof.
    induction f as [|f IH]; intros acc ts; [reflexivity|]. rewrite !refs_S.
    sim_tac ltac:(first [rewrite IH | rewrite ref_value_sim]).
  Qed.

  Lemma mutual_sim f :
    (forall e isc ts, parse_entity v' ns f e isc ts = demote (parse_entity v ns f e isc ts)) /\
    (forall acc ts, parse_props v' ns f acc ts = demote (parse_props v ns f acc ts)) /\
    (forall ts, parse_value v' ns f ts = demote (parse_value v ns f ts)) /\
    (forall acc ts, parse_array v' ns f acc ts = demote (parse_array v ns f acc ts)).
  Proof.
    induction f as [|f (IHe & IHp & IHv & IHa)]; [repeat split; reflexivity|].
    repeat split; intros.
    - rewrite !entity_S. unfold entity_body. rewrite !assert_fail_sim.
      sim_tac ltac:(first [rewrite IHe | rewrite IHp | rewrite refs_sim]).
    - rewrite !props_S. unfold props_body.
      sim_tac ltac:(first [rewrite IHp | rewrite IHv]).
    - rewrite !value_S. unfold value_body.
      sim_tac ltac:(first [rewrite IHe | rewrite IHv | rewrite IHa]).
    - rewrite !array_S. unfold array_body.
      sim_tac ltac:(first [rewrite IHe | rewrite IHa]).
  Qed.
End Sim.

(** ** top level *)
Definition demote_s (r : list ent * outcome * nsmap) : list ent * outcome * nsmap :=
  let '(es, o, m) := r in (es, demote_o o, m).

Lemma namespaces_of_sim v ctx : namespaces_of (with_chk v) ctx = demote (namespaces_of v ctx).
Proof.
  unfold namespaces_of. rewrite !assert_fail_sim.
  repeat split_match; try reflexivity.
Qed.

Lemma stream_loop_sim v ns f : forall eof done ts,
  stream_loop (with_chk v) ns f eof done ts
  = (fst (stream_loop v ns f eof done ts), demote_o (snd (stream_loop v ns f eof done ts))).
Proof.
  induction f as [|f IH]; intros eof done ts; [reflexivity|].
  rewrite !stream_S. change (strict (with_chk v)) with (strict v).
  destruct ts as [|[[]| | | |] ts1]; cbn [fst snd demote_o]; try reflexivity;
    try (destruct eof, done; reflexivity);
    try (destruct (strict v && done); [reflexivity|]);
    try (destruct (strict v); [reflexivity|]); try apply IH.
  rewrite (proj1 (mutual_sim v ns f)).
  destruct (parse_entity v ns f ent0 false ts1) as [[e ts2]| | |]; cbn [demote fst snd demote_o]; try reflexivity.
  rewrite IH. destruct (stream_loop v ns f eof done ts2). reflexivity.
Qed.

Theorem parse_stream_sim v fuel eof ts :
  parse_stream (with_chk v) fuel eof ts = demote_s (parse_stream v fuel eof ts).
Proof.
  unfold parse_stream, demote_s.
  destruct ts as [|[[]| | | |] ts1]; try reflexivity.
  destruct (parse_jv (jv_fuel fuel) ts1) as [[[] ts2]|]; try reflexivity.
  destruct (is_context_id l); [|reflexivity].
  rewrite namespaces_of_sim.
  destruct (namespaces_of v l) as [ns| | |]; cbn [demote]; try reflexivity.
  rewrite stream_loop_sim. destruct (stream_loop v ns fuel eof false ts2). reflexivity.
Qed.

Lemma txn_array_sim v ns f : forall acc ts,
  txn_array (with_chk v) ns f acc ts = demote (txn_array v ns f acc ts).
Proof.
  induction f as [|f IH]; intros acc ts; [reflexivity|].
  rewrite !txn_array_S. change (strict (with_chk v)) with (strict v).
  destruct ts as [|[[]| | | |] ts1]; try reflexivity;
    try (destruct (strict v); [reflexivity|apply IH]).
  rewrite (proj1 (mutual_sim v ns f)).
  destruct (parse_entity v ns f ent0 false ts1) as [[e ts2]| | |]; cbn [demote]; try reflexivity. apply IH.
Qed.

Lemma txn_loop_sim v ns f : forall acc ts,
  txn_loop (with_chk v) ns f acc ts = demote (txn_loop v ns f acc ts).
Proof.
  induction f as [|f IH]; intros acc ts; [reflexivity|].
  rewrite !txn_loop_S, !assert_fail_sim. change (strict (with_chk v)) with (strict v).
  destruct ts as [|[[]|nm| | |] ts1]; try reflexivity.
  destruct ts1 as [|[d| | | |] ts2]; try reflexivity.
  destruct (strict v && negb (delim_eqb d DArrO)); [reflexivity|].
  rewrite txn_array_sim.
  destruct (txn_array v ns f [] ts2) as [[es ts3]| | |]; cbn [demote]; try reflexivity. apply IH.
Qed.

Theorem parse_txn_sim v fuel ts : parse_txn (with_chk v) fuel ts = demote (parse_txn v fuel ts).
Proof.
  unfold parse_txn. rewrite !assert_fail_sim.
  destruct ts as [|[[]| | | |] [|t ts1]]; try reflexivity.
  destruct (parse_jv (jv_fuel fuel) ts1) as [[[] ts2]|]; try reflexivity.
  rewrite namespaces_of_sim.
  destruct (namespaces_of v l) as [ns| | |]; cbn [demote]; try reflexivity. apply txn_loop_sim.
Qed.

(** ** exact characterisation of the panic set, relative to the types-checked parser *)
Theorem stream_panics_iff v fuel eof ts :
  snd (fst (parse_stream v fuel eof ts)) = OPanic <->
  parse_stream (with_chk v) fuel eof ts <> parse_stream v fuel eof ts.
Proof.
  rewrite parse_stream_sim. destruct (parse_stream v fuel eof ts) as [[es o] m]. cbn.
  destruct o; cbn; split; try congruence; intros H; exfalso; apply H; reflexivity.
Qed.

Theorem txn_panics_iff v fuel ts :
  parse_txn v fuel ts = Panic <-> parse_txn (with_chk v) fuel ts <> parse_txn v fuel ts.
Proof.
  rewrite parse_txn_sim. destruct (parse_txn v fuel ts); cbn; split; try congruence;
    intros H; exfalso; apply H; reflexivity.
Qed.

(** the context classes in closed form: missing / non-object "namespaces", or an expansion that
    is not a string (after duplicate keys were merged by the JSON object decoding) *)
Theorem namespaces_panic_iff ctx :
  namespaces_of current ctx = Panic <->
  match lookup "namespaces" ctx with Some (JObj l) => all_strings l = None | _ => True end.
Proof.
  unfold namespaces_of, assert_fail. cbn [chk_types current].
  destruct (lookup "namespaces" ctx) as [[]|]; try (split; [trivial|reflexivity]).
  destruct (all_strings l); split; congruence.
Qed.

(** the three assertion sites of parseEntity: reaching the key with a wrongly typed (but present)
    value panics at once, whatever follows *)
Definition is_str (t : token) := match t with TStr _ => true | _ => false end.
Definition is_num (t : token) := match t with TNum _ => true | _ => false end.
Definition is_bool (t : token) := match t with TBool _ => true | _ => false end.
Theorem entity_assertion_sites ns f e isc t rest :
  (is_str t = false -> parse_entity current ns (S f) e isc (TStr "id" :: t :: rest) = Panic) /\
  (is_num t = false -> parse_entity current ns (S f) e isc (TStr "recorded" :: t :: rest) = Panic) /\
  (is_bool t = false -> parse_entity current ns (S f) e isc (TStr "deleted" :: t :: rest) = Panic).
Proof. repeat split; intros H; destruct t; try discriminate H; reflexivity. Qed.
