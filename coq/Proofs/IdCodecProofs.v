(** The id codec and the spelled management API (Model/IdCodec.v, Model/SecApi.v). *)
From Coq Require Import List String Ascii Bool NArith.
From DH Require Import Model.Acl Model.SecStore Model.IdCodec Model.SecApi Proofs.SecStoreProofs.
Import ListNotations.
Open Scope string_scope.

Lemma lookup_remove_same {A} k (m : list (string * A)) : lookup k (remove_key k m) = None.
Proof.
  induction m as [|[k' x] m IH]; [reflexivity|]. cbn. destruct (k' =? k) eqn:E; [exact IH|]. cbn. now rewrite E.
Qed.

Lemma lookup_set_same {A} k (x : A) m : lookup k (set_key k x m) = Some x.
Proof. unfold set_key. cbn. now rewrite String.eqb_refl. Qed.

Lemma api_run_app d fm im ops1 ops2 :
  api_run d fm im (ops1 ++ ops2) = fold_left (api_step d fm im) ops2 (api_run d fm im ops1).
Proof. unfold api_run. apply fold_left_app. Qed.

(** every handler of the path reads the id the same way => revoking through the spelling that granted works: after
    POST <sp> then DELETE <sp>, whatever happened before, the id has no entry and GET <sp> shows none *)
Theorem revocation_effective d fm im ops sp l id :
  uniform d -> resolve (d_set d) sp = Some id ->
  let s := api_run d fm im (ops ++ [SpSetAcl sp l; SpDelAcl sp]) in
  lookup id (mem_acls s) = None /\ api_get d s sp = None.
Proof.
  intros [U1 U2] Hid s. subst s. rewrite api_run_app.
  assert (Hdel : resolve (d_del d) sp = Some id) by (rewrite <- U2, <- U1; exact Hid).
  assert (Hget : resolve (d_get d) sp = Some id) by (rewrite <- U1; exact Hid).
  set (s0 := api_run d fm im ops).
  assert (E : fold_left (api_step d fm im) [SpSetAcl sp l; SpDelAcl sp] s0
              = del_acl fm id (sec_step fm im s0 (OpSetAcl id l))).
  { cbn [fold_left]. unfold api_step. cbn [sp_resolve]. rewrite Hid. cbn [sp_resolve]. rewrite Hdel. reflexivity. }
  rewrite E. unfold api_get. rewrite Hget. unfold del_acl. cbn [mem_acls].
  split; apply lookup_remove_same.
Qed.

(** ... and granting through a spelling is seen through the same spelling *)
Theorem grant_visible d fm im ops sp l id :
  uniform d -> resolve (d_set d) sp = Some id ->
  api_get d (api_run d fm im (ops ++ [SpSetAcl sp l])) sp = Some l.
Proof.
  intros [U1 U2] Hid. rewrite api_run_app. cbn [fold_left]. unfold api_step. cbn [sp_resolve]. rewrite Hid.
  unfold api_get. rewrite <- U1, Hid. cbn [sec_step mem_acls]. apply lookup_set_same.
Qed.

(** a DELETE handler that takes the raw parameter revokes nothing for an eagerly escaped id *)
Lemma refuted_raw_delete :
  let d := {| d_set := IdUnescape; d_get := IdUnescape; d_del := IdRaw |} in
  let l := [{| ac_resource := "/datasets/*"; ac_action := "read"; ac_deny := false |}] in
  let s := api_run d AclFileAcls InitIndependent [SpSetAcl "bob%40clients" l; SpDelAcl "bob%40clients"] in
  ~ uniform d /\ lookup "bob@clients" (mem_acls s) = Some l /\ api_get d s "bob%40clients" = Some l
  /\ lookup "bob@clients" (mem_acls (restart InitIndependent s)) = Some l.
Proof. cbv zeta. split; [intros [_ H]; discriminate|]. vm_compute. repeat split; reflexivity. Qed.

(** the pinned handlers are uniform *)
Lemma pinned_uniform : uniform pinned_decoders.
Proof. split; reflexivity. Qed.

(** spellings made of letters, digits and - _ . ~ denote themselves *)
Definition unreserved (a : ascii) : bool :=
  let c := code a in
  ((48 <=? c)%N && (c <=? 57)%N) || ((65 <=? c)%N && (c <=? 90)%N) || ((97 <=? c)%N && (c <=? 122)%N)
  || existsb (Ascii.eqb a) ["-"; "_"; "."; "~"]%char.

Fixpoint all_chars (f : ascii -> bool) (s : string) : bool :=
  match s with EmptyString => true | String a s' => f a && all_chars f s' end.

Lemma unreserved_facts a : unreserved a = true ->
  a <> "%"%char /\ Ascii.eqb a "+"%char = false /\ path_plain a = true.
Proof.
  destruct a as [b0 b1 b2 b3 b4 b5 b6 b7].
  destruct b0, b1, b2, b3, b4, b5, b6, b7; vm_compute; intros H; try discriminate; repeat split; discriminate.
Qed.

Lemma pct_decode_cons a s : a <> "%"%char ->
  pct_decode (String a s) = match pct_decode s with Some r => Some (String a r) | None => None end.
Proof.
  intros H. destruct a as [b0 b1 b2 b3 b4 b5 b6 b7].
  destruct b0, b1, b2, b3, b4, b5, b6, b7; try reflexivity. exfalso. now apply H.
Qed.

Lemma unreserved_fix s : all_chars unreserved s = true ->
  pct_decode s = Some s /\ plus_to_space s = s /\ path_escape s = s.
Proof.
  induction s as [|a s IH]; [repeat split; reflexivity|]. cbn [all_chars]. intros H.
  apply andb_true_iff in H. destruct H as [Ha Hs]. destruct (IH Hs) as (I1 & I2 & I3).
  destruct (unreserved_facts a Ha) as (N1 & N2 & N3). repeat split.
  - rewrite (pct_decode_cons a s N1), I1. reflexivity.
  - cbn [plus_to_space]. now rewrite N2, I2.
  - cbn [path_escape]. now rewrite N3, I3.
Qed.

Theorem unreserved_resolves_to_itself m s : all_chars unreserved s = true -> resolve m s = Some s.
Proof.
  intros H. destruct (unreserved_fix s H) as (I1 & I2 & I3).
  unfold resolve, echo_param. rewrite I1, I3, String.eqb_refl. destruct m; [|reflexivity].
  unfold query_unescape. now rewrite I2.
Qed.

(** ** the repaired store = what the history denotes *)
Lemma step_matches_spec s o : synced s ->
  let s' := sec_step AclFileAcls InitIndependent s o in
  (mem_clients s', mem_acls s') = spec_step (mem_clients s, mem_acls s) o.
Proof.
  intros Hs. destruct o; cbv zeta; cbn [sec_step spec_step]; try reflexivity.
  now rewrite (restart_synced_id s Hs).
Qed.

Lemma run_matches_spec_from ops : forall s, synced s ->
  let s' := fold_left (sec_step AclFileAcls InitIndependent) ops s in
  (mem_clients s', mem_acls s') = fold_left spec_step ops (mem_clients s, mem_acls s).
Proof.
  induction ops as [|o ops IH]; intros s Hs; [reflexivity|]. cbn [fold_left].
  rewrite <- (step_matches_spec s o Hs). apply IH. now apply step_synced.
Qed.

Theorem run_matches_spec ops :
  let s := sec_run AclFileAcls InitIndependent ops in
  mem_clients s = fst (spec_store ops) /\ mem_acls s = snd (spec_store ops).
Proof.
  intros s. pose proof (run_matches_spec_from ops sec_init synced_init) as H. cbv zeta in H.
  fold (sec_run AclFileAcls InitIndependent ops) in H. fold s in H. unfold spec_store.
  cbn [mem_clients mem_acls sec_init] in H. rewrite <- H. split; reflexivity.
Qed.
