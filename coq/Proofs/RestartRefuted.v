(** The pinned tree (property C14): for each of the five deviations a history after which a stop/start is visible,
    with every other flag repaired - and what exactly is lost. *)
From Coq Require Import List ZArith Bool String Lia Znumtheory.
From DH Require Import Model.Store Model.Acl Model.SecStore Model.Restart Proofs.SecStoreProofs Proofs.RestartProofs.
Import ListNotations.
Open Scope list_scope.
Open Scope Z_scope.

Definition only_acl : rflags :=
  {| f_acl := AclFileClients; f_init := InitIndependent; f_prov := ProvLowerKey; f_fs := FsPersisted;
     f_delay := DelayStable; f_eq := eq_pinned; f_dup := DupStoredAndLocal |}.
Definition only_init : rflags :=
  {| f_acl := AclFileAcls; f_init := InitAborts; f_prov := ProvLowerKey; f_fs := FsPersisted;
     f_delay := DelayStable; f_eq := eq_pinned; f_dup := DupStoredAndLocal |}.
Definition only_prov : rflags :=
  {| f_acl := AclFileAcls; f_init := InitIndependent; f_prov := ProvRawKey; f_fs := FsPersisted;
     f_delay := DelayStable; f_eq := eq_pinned; f_dup := DupStoredAndLocal |}.
Definition only_fs : rflags :=
  {| f_acl := AclFileAcls; f_init := InitIndependent; f_prov := ProvLowerKey; f_fs := FsVolatile;
     f_delay := DelayStable; f_eq := eq_pinned; f_dup := DupStoredAndLocal |}.
Definition only_delay : rflags :=
  {| f_acl := AclFileAcls; f_init := InitIndependent; f_prov := ProvLowerKey; f_fs := FsPersisted;
     f_delay := DelayRescale; f_eq := eq_pinned; f_dup := DupStoredAndLocal |}.

Definition visible (fl : rflags) (ops : list hop) (cl : list string) : Prop :=
  let h := fst (run fl ops hub_init) in obs cl (reopen fl false h) <> obs cl h.

Definition acl1 : list ac := [ac_of_code 0].

(** F14a (= F16e): DeleteClientAccessControls writes the client registry into acls.json *)
Lemma refuted_acl_clobber :
  visible only_acl [HSec (OpRegister "a"); HSec (OpSetAcl "a" acl1); HSec (OpRegister "b");
                    HSec (OpSetAcl "b" acl1); HSec (OpDelAcl "b")] ["a"%string].
Proof. vm_compute. discriminate. Qed.

(** F14b (= F16f): without clients.json the ACL file is not read *)
Lemma refuted_init_order : visible only_init [HSec (OpSetAcl "a" acl1)] ["a"%string].
Proof. vm_compute. discriminate. Qed.

(** F14c: deleting "pa" removes the live provider built from the stored object "Pa", which stays *)
Lemma refuted_provider_delete : visible only_prov [HProv (PAdd 0 1); HProv (PDelete 10)] [].
Proof. vm_compute. discriminate. Qed.
(** F14c: two names that differ in case: the live map holds the last one added, a restart the last one in key order *)
Lemma refuted_provider_case : visible only_prov [HProv (PAdd 10 1); HProv (PAdd 0 2)] [].
Proof. vm_compute. discriminate. Qed.

Definition w1 : went := {| w_e := 1; w_v := 10; w_t := -1; w_del := false |}.
Definition w2 : went := {| w_e := 2; w_v := 11; w_t := -1; w_del := false |}.
Definition fs_hist : list hop :=
  [HDm (DCreate 1 plain_cfg); HDm (DPost 1 false 0 false [w1; w2]); HDm (DPost 1 true 1 false [w1])].

(** F14d: a full sync in progress is forgotten ... *)
Lemma refuted_fullsync_lost : visible only_fs fs_hist [].
Proof. vm_compute. discriminate. Qed.
(** ... so the request that ends it is refused and the entity the sync did not contain is never deleted,
    whereas the uninterrupted history completes the sync *)
Lemma refuted_fullsync_continue :
  let fin := HDm (DPost 1 false 1 true []) in
  let a := run only_fs [fin] (reopen only_fs false (fst (run only_fs fs_hist hub_init))) in
  let b := run only_fs (fs_hist ++ [fin]) hub_init in
  snd a = [RGone] /\ snd b = [ROk; ROk; ROk; ROk] /\ obs [] (fst a) <> obs [] (fst b).
Proof. vm_compute. repeat split; discriminate. Qed.

Definition cfg5 : jobcfg := {| j_paused := false; j_src := 1; j_sink := 2; j_delay := Some 5; j_trig := -1 |}.
(** F14e: the stored job definition changes with every start *)
Lemma refuted_delay_rescaled : visible only_delay [HJob (JAdd 0 cfg5)] [].
Proof. vm_compute. discriminate. Qed.

(** ** exactly what the pinned tree loses *)

(** F14d: after a restart no dataset is in full-sync mode *)
Lemma pinned_fullsync_forgotten fl crash s : f_fs fl = FsVolatile -> m_fs (dm_reopen fl crash s) = [].
Proof.
  intros Hf. unfold dm_reopen. rewrite Hf.
  set (s1 := {| m_reg := d_reg s; m_fs := [] |}).
  assert (H : forall n pub t, m_fs t = [] -> m_fs (dm_create n pub t) = []).
  { intros n pub t Ht. unfold dm_create. destruct (assoc n (m_reg t)); [exact Ht|].
    rewrite (fold_keep m_fs (fun u s => assert_uri u s)).
    - rewrite (fold_keep m_fs (fun e s => assert_ns e s)); [exact Ht|].
      intros e x. unfold assert_ns. now destruct (zmem e (m_ns x)).
    - intros u x. unfold assert_uri. destruct (assoc u (d_ids x)); [reflexivity|]. now destruct (seq_next (m_seq x)). }
  now apply H.
Qed.

(** F14e: [rescale] has no fixed point among the int64 values, so EVERY start changes the stored retryDelay of
    every reRun handler (999999999 is odd, hence invertible modulo 2^64) *)
Lemma rescale_moves d : - 2 ^ 63 <= d < 2 ^ 63 -> rescale d <> d.
Proof.
  intros Hd He. unfold rescale, wrap64 in He.
  destruct (Z.eqb d 0) eqn:E0.
  - apply Z.eqb_eq in E0. subst d. vm_compute in He. discriminate.
  - apply Z.eqb_neq in E0.
    assert (Hm : (1000000000 * d + 2 ^ 63) mod 2 ^ 64 = d + 2 ^ 63) by lia.
    assert (Hdiv : (2 ^ 64 | 999999999 * d)).
    { pose proof (Z.div_mod (1000000000 * d + 2 ^ 63) (2 ^ 64) ltac:(lia)) as Hdm. rewrite Hm in Hdm.
      exists ((1000000000 * d + 2 ^ 63) / 2 ^ 64). lia. }
    apply Gauss in Hdiv; [|apply Zgcd_1_rel_prime; vm_compute; reflexivity].
    destruct Hdiv as [k Hk]. assert (k = 0) by nia. subst k. lia.
Qed.

Theorem pinned_delay_always_moves j c d s :
  j_trig c < 0 -> j_delay c = Some d -> - 2 ^ 63 <= d < 2 ^ 63 -> assoc j (d_jcfg s) = Some c ->
  In (j, verify_cfg DelayRescale c) (d_jcfg (job_reopen DelayRescale s))
  /\ j_delay (verify_cfg DelayRescale c) <> j_delay c.
Proof.
  intros Ht Hd Hr Ha. split.
  - unfold job_reopen. cbn [d_jcfg]. apply in_map_iff. exists (j, c). split; [reflexivity | now apply assoc_in].
  - unfold verify_cfg. destruct (0 <=? j_trig c) eqn:E; [apply Z.leb_le in E; lia|].
    cbn. rewrite Hd. cbn. intros [= E']. now apply (rescale_moves d).
Qed.

(** F14c: after a restart the live map is a function of the stored objects alone *)
Lemma pinned_providers_rebuilt s :
  m_tp (prov_reopen s) = fold_left (fun m (p : Z * Z) => set_assoc (lower (fst p)) (snd p) m) (d_prov s) [].
Proof. reflexivity. Qed.
