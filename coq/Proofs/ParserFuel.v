(** Fuel: every parser function consumes at least one token per unit of fuel it spends, so
    [S (length ts)] fuel is enough: the result never is the artefact [Fuel] and does not
    depend on the fuel any more. *)
From Coq Require Import List String Ascii NArith Bool Lia PeanoNat.
From DH Require Import Model.Parser Proofs.ParserProofs.
Import ListNotations.
Open Scope string_scope.

(** destruct, inside hypothesis H, every innermost match scrutinee *)
Ltac split_hyp H :=
  repeat match type of H with
  | context [match ?x with _ => _ end] =>
    lazymatch x with
    | context [match _ with _ => _ end] => fail
    | _ => destruct x eqn:?
    end
  end.

Section Shorter.
  Variable v : variant.
  Variable ns : nsmap.
  Notation len := (@List.length token).

  Lemma ref_array_shorter fuel : forall acc ts l rest,
    parse_ref_array v ns fuel acc ts = Ok (l, rest) -> (len rest < len ts)%nat.
  Proof.
    induction fuel as [|f IH]; intros acc ts l rest H; [discriminate|].
    cbn [parse_ref_array] in H. split_hyp H; try discriminate;
      try (injection H as <- <-; cbn; lia); apply IH in H; cbn [List.length]; lia.
  Qed.

  Lemma ref_value_shorter fuel : forall ts r rest,
    parse_ref_value v ns fuel ts = Ok (r, rest) -> (len rest < len ts)%nat.
  Proof.
    induction fuel as [|f IH]; intros ts r rest H; [discriminate|].
    cbn [parse_ref_value] in H. split_hyp H; try discriminate;
      try (injection H as <- <-); try (apply IH in H);
      repeat match goal with E : parse_ref_array _ _ _ _ _ = Ok _ |- _ => apply ref_array_shorter in E end;
      cbn [List.length] in *; lia.
  Qed.

  Lemma refs_shorter fuel : forall acc ts rs rest,
    parse_refs v ns fuel acc ts = Ok (rs, rest) -> (len rest < len ts)%nat.
  Proof.
    induction fuel as [|f IH]; intros acc ts rs rest H; [discriminate|].
    cbn [parse_refs] in H. split_hyp H; try discriminate;
      try (injection H as <- <-); try (apply IH in H);
      repeat match goal with E : parse_ref_value _ _ _ _ = Ok _ |- _ => apply ref_value_shorter in E end;
      cbn [List.length] in *; lia.
  Qed.

  Lemma mutual_shorter fuel :
    (forall e isc ts e' rest, parse_entity v ns fuel e isc ts = Ok (e', rest) -> (len rest < len ts)%nat) /\
    (forall acc ts ps rest, parse_props v ns fuel acc ts = Ok (ps, rest) -> (len rest < len ts)%nat) /\
    (forall ts x rest, parse_value v ns fuel ts = Ok (x, rest) -> (len rest < len ts)%nat) /\
    (forall acc ts l rest, parse_array v ns fuel acc ts = Ok (l, rest) -> (len rest < len ts)%nat).
  Proof.
    induction fuel as [|f (IHe & IHp & IHv & IHa)]; [repeat split; intros; discriminate|].
    assert (T : forall A (x : res A), @assert_fail A v = x -> x = Err \/ x = Panic)
      by (intros A x <-; unfold assert_fail; destruct (chk_types v); auto).
    Ltac finish IHe IHp IHv IHa :=
      repeat match goal with
      | E : parse_entity _ _ _ _ _ _ = Ok _ |- _ => apply IHe in E
      | E : parse_props _ _ _ _ _ = Ok _ |- _ => apply IHp in E
      | E : parse_value _ _ _ _ = Ok _ |- _ => apply IHv in E
      | E : parse_array _ _ _ _ _ = Ok _ |- _ => apply IHa in E
      | E : parse_refs _ _ _ _ _ = Ok _ |- _ => apply refs_shorter in E
      | E : skip_value _ = Some _ |- _ => apply skip_n_shorter in E
      end; cbn [List.length] in *; lia.
    repeat split.
    - intros e isc ts e' rest H. rewrite entity_S in H. unfold entity_body, assert_fail in H.
      split_hyp H; try discriminate; try (injection H as <- <-); finish IHe IHp IHv IHa.
    - intros acc ts ps rest H. rewrite props_S in H. unfold props_body in H.
      split_hyp H; try discriminate; try (injection H as <- <-); finish IHe IHp IHv IHa.
    - intros ts x rest H. rewrite value_S in H. unfold value_body in H.
      split_hyp H; try discriminate; try (injection H as <- <-); finish IHe IHp IHv IHa.
    - intros acc ts l rest H. rewrite array_S in H. unfold array_body in H.
      split_hyp H; try discriminate; try (injection H as <- <-); finish IHe IHp IHv IHa.
  Qed.
End Shorter.

Section Fuel.
  Variable v : variant.
  Variable ns : nsmap.
  Notation len := (@List.length token).

  (** turn every successful sub-call in the context into a length fact, then arithmetic *)
  Ltac lens :=
    repeat match goal with
    | E : parse_entity _ _ _ _ _ _ = Ok _ |- _ => apply (proj1 (mutual_shorter _ _ _)) in E
    | E : parse_props _ _ _ _ _ = Ok _ |- _ => apply (proj1 (proj2 (mutual_shorter _ _ _))) in E
    | E : parse_value _ _ _ _ = Ok _ |- _ => apply (proj1 (proj2 (proj2 (mutual_shorter _ _ _)))) in E
    | E : parse_array _ _ _ _ _ = Ok _ |- _ => apply (proj2 (proj2 (proj2 (mutual_shorter _ _ _)))) in E
    | E : parse_refs _ _ _ _ _ = Ok _ |- _ => apply refs_shorter in E
    | E : parse_ref_value _ _ _ _ = Ok _ |- _ => apply ref_value_shorter in E
    | E : parse_ref_array _ _ _ _ _ = Ok _ |- _ => apply ref_array_shorter in E
    | E : skip_value _ = Some _ |- _ => apply skip_n_shorter in E
    end; cbn [List.length] in *; lia.

  (** one-step unfoldings of the reference functions *)
  Lemma ref_array_S f acc ts : parse_ref_array v ns (S f) acc ts =
    match ts with
    | [] => Err
    | TDelim DArrC :: ts1 => Ok (acc, ts1)
    | TDelim _ :: ts1 => if strict v then Err else parse_ref_array v ns f acc ts1
    | TStr s :: ts1 => match resolve ns s with None => Err | Some q => parse_ref_array v ns f (acc ++ [q]) ts1 end
    | _ :: _ => Err
    end.
  Proof. reflexivity. Qed.
  Lemma ref_value_S f ts : parse_ref_value v ns (S f) ts =
    match ts with
    | [] => Err
    | TDelim DArrO :: ts1 =>
      match parse_ref_array v ns f [] ts1 with
      | Ok (l, ts2) => Ok (RArr l, ts2) | Err => Err | Panic => Panic | Fuel => Fuel end
    | TDelim _ :: ts1 => if strict v then Err else parse_ref_value v ns f ts1
    | TStr s :: ts1 => match resolve ns s with None => Err | Some q => Ok (RStr q, ts1) end
    | _ :: _ => Err
    end.
  Proof. reflexivity. Qed.
  Lemma refs_S f acc ts : parse_refs v ns (S f) acc ts =
    match ts with
    | [] => Err
    | TDelim DObjC :: ts1 => Ok (acc, ts1)
    | TDelim _ :: ts1 => if strict v then Err else parse_refs v ns f acc ts1
    | TStr k :: ts1 =>
      match parse_ref_value v ns f ts1 with
      | Ok (r, ts2) =>
        match resolve ns k with
        | None => Err
        | Some q => parse_refs v ns f (upsert name_eqb q r acc) ts2
        end
      | Err => Err | Panic => Panic | Fuel => Fuel
      end
    | _ :: _ => Err
    end.
  Proof. reflexivity. Qed.

  (** *** references *)
  Lemma ref_array_stable f : forall acc ts, (len ts < f)%nat ->
    parse_ref_array v ns (S f) acc ts = parse_ref_array v ns f acc ts.
  Proof.
    induction f as [|f IH]; intros acc ts Hlen; [lia|].
    rewrite !ref_array_S.
    repeat first [ reflexivity
                 | match goal with |- context [parse_ref_array v ns (S f) ?a ?t] => rewrite (IH a t) by lens end
                 | split_match ].
  Qed.
  Lemma ref_array_enough f : forall acc ts, (len ts < f)%nat -> parse_ref_array v ns f acc ts <> Fuel.
  Proof.
    induction f as [|f IH]; intros acc ts Hlen; [lia|].
    rewrite ref_array_S. repeat split_match; try discriminate; apply IH; lens.
  Qed.

  Lemma ref_value_stable f : forall ts, (len ts < f)%nat ->
    parse_ref_value v ns (S f) ts = parse_ref_value v ns f ts.
  Proof.
    induction f as [|f IH]; intros ts Hlen; [lia|].
    rewrite !ref_value_S.
    repeat first [ reflexivity
                 | match goal with |- context [parse_ref_value v ns (S f) ?t] => rewrite (IH t) by lens end
                 | match goal with |- context [parse_ref_array v ns (S f) ?a ?t] => rewrite (ref_array_stable f a t) by lens end
                 | split_match ].
  Qed.
  Lemma ref_value_enough f : forall ts, (len ts < f)%nat -> parse_ref_value v ns f ts <> Fuel.
  Proof.
    induction f as [|f IH]; intros ts Hlen; [lia|].
    rewrite ref_value_S. repeat split_match; try discriminate; try (apply IH; lens).
    exfalso. eapply (ref_array_enough f); [|eassumption]. lens.
  Qed.

  Lemma refs_stable f : forall acc ts, (len ts < f)%nat ->
    parse_refs v ns (S f) acc ts = parse_refs v ns f acc ts.
  Proof.
    induction f as [|f IH]; intros acc ts Hlen; [lia|].
    rewrite !refs_S.
    repeat first [ reflexivity
                 | match goal with |- context [parse_refs v ns (S f) ?a ?t] => rewrite (IH a t) by lens end
                 | match goal with |- context [parse_ref_value v ns (S f) ?t] => rewrite (ref_value_stable f t) by lens end
                 | split_match ].
  Qed.
  Lemma refs_enough f : forall acc ts, (len ts < f)%nat -> parse_refs v ns f acc ts <> Fuel.
  Proof.
    induction f as [|f IH]; intros acc ts Hlen; [lia|].
    rewrite refs_S. repeat split_match; try discriminate; try (apply IH; lens).
    exfalso. eapply (ref_value_enough f); [|eassumption]. lens.
  Qed.

  (** *** entity / properties / value / array *)
  Lemma mutual_stable f :
    (forall e isc ts, (len ts < f)%nat -> parse_entity v ns (S f) e isc ts = parse_entity v ns f e isc ts) /\
    (forall acc ts, (len ts < f)%nat -> parse_props v ns (S f) acc ts = parse_props v ns f acc ts) /\
    (forall ts, (len ts < f)%nat -> parse_value v ns (S f) ts = parse_value v ns f ts) /\
    (forall acc ts, (len ts < f)%nat -> parse_array v ns (S f) acc ts = parse_array v ns f acc ts).
  Proof.
    induction f as [|f (IHe & IHp & IHv & IHa)]; [repeat split; intros; lia|].
    Ltac stab f IHe IHp IHv IHa :=
      repeat first
        [ reflexivity
        | match goal with |- context [parse_entity ?v ?ns (S f) ?e ?i ?t] => rewrite (IHe e i t) by lens end
        | match goal with |- context [parse_props ?v ?ns (S f) ?a ?t] => rewrite (IHp a t) by lens end
        | match goal with |- context [parse_value ?v ?ns (S f) ?t] => rewrite (IHv t) by lens end
        | match goal with |- context [parse_array ?v ?ns (S f) ?a ?t] => rewrite (IHa a t) by lens end
        | match goal with |- context [parse_refs ?v ?ns (S f) ?a ?t] => rewrite (refs_stable f a t) by lens end
        | split_match ].
    repeat split.
    - intros e isc ts Hlen. rewrite !entity_S. unfold entity_body. stab f IHe IHp IHv IHa.
    - intros acc ts Hlen. rewrite !props_S. unfold props_body. stab f IHe IHp IHv IHa.
    - intros ts Hlen. rewrite !value_S. unfold value_body. stab f IHe IHp IHv IHa.
    - intros acc ts Hlen. rewrite !array_S. unfold array_body. stab f IHe IHp IHv IHa.
  Qed.

  Lemma assert_fail_nofuel A : @assert_fail A v <> Fuel.
  Proof. unfold assert_fail. destruct (chk_types v); discriminate. Qed.

  Lemma mutual_enough f :
    (forall e isc ts, (len ts < f)%nat -> parse_entity v ns f e isc ts <> Fuel) /\
    (forall acc ts, (len ts < f)%nat -> parse_props v ns f acc ts <> Fuel) /\
    (forall ts, (len ts < f)%nat -> parse_value v ns f ts <> Fuel) /\
    (forall acc ts, (len ts < f)%nat -> parse_array v ns f acc ts <> Fuel).
  Proof.
    induction f as [|f (IHe & IHp & IHv & IHa)]; [repeat split; intros; lia|].
    Ltac enough_tac f IHe IHp IHv IHa :=
      repeat split_match; try discriminate; try apply assert_fail_nofuel;
      try (first [apply IHe | apply IHp | apply IHv | apply IHa]; lens);
      try (exfalso;
           first [ eapply IHe; [|eassumption]; lens | eapply IHp; [|eassumption]; lens
                 | eapply IHv; [|eassumption]; lens | eapply IHa; [|eassumption]; lens
                 | eapply (refs_enough f); [|eassumption]; lens ]).
    repeat split.
    - intros e isc ts Hlen. rewrite entity_S. unfold entity_body. enough_tac f IHe IHp IHv IHa.
    - intros acc ts Hlen. rewrite props_S. unfold props_body. enough_tac f IHe IHp IHv IHa.
    - intros ts Hlen. rewrite value_S. unfold value_body. enough_tac f IHe IHp IHv IHa.
    - intros acc ts Hlen. rewrite array_S. unfold array_body. enough_tac f IHe IHp IHv IHa.
  Qed.
End Fuel.

(** ** the generic JSON value (Decoder.Decode(&context)): two units of fuel per token *)
Section JvFuel.
  Notation len := (@List.length token).

  Lemma jv_S f ts : parse_jv (S f) ts =
    match ts with
    | [] => None
    | TNull :: ts1 => Some (JNull, ts1)
    | TBool b :: ts1 => Some (JBool b, ts1)
    | TNum n :: ts1 => Some (JNum n, ts1)
    | TStr s :: ts1 => Some (JStr s, ts1)
    | TDelim DArrO :: ts1 =>
      match parse_jarr f [] ts1 with Some (l, ts2) => Some (JArr l, ts2) | None => None end
    | TDelim DObjO :: ts1 =>
      match parse_jobj f [] ts1 with Some (l, ts2) => Some (JObj l, ts2) | None => None end
    | TDelim _ :: _ => None
    end.
  Proof. reflexivity. Qed.
  Lemma jarr_S f acc ts : parse_jarr (S f) acc ts =
    match ts with
    | TDelim DArrC :: ts1 => Some (acc, ts1)
    | _ => match parse_jv f ts with Some (x, ts1) => parse_jarr f (acc ++ [x]) ts1 | None => None end
    end.
  Proof. reflexivity. Qed.
  Lemma jobj_S f acc ts : parse_jobj (S f) acc ts =
    match ts with
    | TDelim DObjC :: ts1 => Some (acc, ts1)
    | TStr k :: ts1 =>
      match parse_jv f ts1 with Some (x, ts2) => parse_jobj f (upsert String.eqb k x acc) ts2 | None => None end
    | _ => None
    end.
  Proof. reflexivity. Qed.

  Lemma jv_shorter fuel :
    (forall ts x r, parse_jv fuel ts = Some (x, r) -> (len r < len ts)%nat) /\
    (forall acc ts x r, parse_jarr fuel acc ts = Some (x, r) -> (len r < len ts)%nat) /\
    (forall acc ts x r, parse_jobj fuel acc ts = Some (x, r) -> (len r < len ts)%nat).
  Proof.
    induction fuel as [|f (IH1 & IH2 & IH3)]; [repeat split; intros; discriminate|].
    repeat split.
    - intros ts x r H. rewrite jv_S in H. split_hyp H; try discriminate; injection H as <- <-;
        repeat match goal with
        | E : parse_jarr _ _ _ = Some _ |- _ => apply IH2 in E
        | E : parse_jobj _ _ _ = Some _ |- _ => apply IH3 in E end; cbn [List.length] in *; lia.
    - intros acc ts x r H. rewrite jarr_S in H.
      assert (D : (exists ts', ts = TDelim DArrC :: ts' /\ Some (acc, ts') = Some (x, r)) \/
                  (match parse_jv f ts with Some (x0, ts1) => parse_jarr f (acc ++ [x0]) ts1 | None => None end = Some (x, r))).
      { destruct ts as [|[[]| | | |] ts']; eauto. }
      destruct D as [(ts' & -> & [= <- <-])|D]; [cbn; lia|].
      destruct (parse_jv f ts) as [[x0 t1]|] eqn:E1; [|discriminate].
      apply IH1 in E1. apply IH2 in D. lia.
    - intros acc ts x r H. rewrite jobj_S in H. split_hyp H; try discriminate; try (injection H as <- <-);
        repeat match goal with
        | E : parse_jv _ _ = Some _ |- _ => apply IH1 in E
        | E : parse_jobj _ _ _ = Some _ |- _ => apply IH3 in E end; cbn [List.length] in *; lia.
  Qed.

  Lemma jv_stable f :
    (forall ts, (2 * len ts <= f)%nat -> parse_jv (S f) ts = parse_jv f ts) /\
    (forall acc ts, (2 * len ts + 1 <= f)%nat -> parse_jarr (S f) acc ts = parse_jarr f acc ts) /\
    (forall acc ts, (2 * len ts <= f)%nat -> parse_jobj (S f) acc ts = parse_jobj f acc ts).
  Proof.
    induction f as [|g (IH1 & IH2 & IH3)].
    - repeat split.
      + intros [|t ts] H; [reflexivity|cbn in H; lia].
      + intros acc ts H; lia.
      + intros acc [|t ts] H; [reflexivity|cbn in H; lia].
    - repeat split.
      + intros ts H. rewrite !jv_S.
        destruct ts as [|[[]| | | |] ts1]; try reflexivity; cbn [List.length] in H.
        * rewrite (IH2 [] ts1) by lia. reflexivity.
        * rewrite (IH3 [] ts1) by lia. reflexivity.
      + intros acc ts H. rewrite !jarr_S.
        assert (E : parse_jv (S g) ts = parse_jv g ts) by (apply IH1; lia). rewrite E.
        assert (K : forall x t1, parse_jv g ts = Some (x, t1) ->
                    parse_jarr (S g) (acc ++ [x]) t1 = parse_jarr g (acc ++ [x]) t1).
        { intros x t1 Hx. apply IH2. apply (proj1 (jv_shorter g)) in Hx. lia. }
        destruct ts as [|[[]| | | |] ts1]; try reflexivity;
          (destruct (parse_jv g _) as [[x t1]|] eqn:Ex; [rewrite (K x t1 eq_refl); reflexivity|reflexivity]).
      + intros acc ts H. rewrite !jobj_S.
        destruct ts as [|[[]|k| | |] ts1]; try reflexivity. cbn [List.length] in H.
        rewrite (IH1 ts1) by lia.
        destruct (parse_jv g ts1) as [[x t2]|] eqn:Ex; [|reflexivity].
        apply IH3. apply (proj1 (jv_shorter g)) in Ex. lia.
  Qed.

  Lemma jv_stable_from f k ts : (2 * len ts <= f)%nat -> parse_jv (f + k) ts = parse_jv f ts.
  Proof.
    intros H. induction k as [|k IH]; [now rewrite Nat.add_0_r|].
    rewrite Nat.add_succ_r. rewrite (proj1 (jv_stable (f + k))) by lia. exact IH.
  Qed.
End JvFuel.

Lemma txn_array_shorter v ns fuel : forall acc ts l rest,
  txn_array v ns fuel acc ts = Ok (l, rest) -> (List.length rest < List.length ts)%nat.
Proof.
  induction fuel as [|f IH]; intros acc ts l rest H; [discriminate|].
  cbn [txn_array] in H. split_hyp H; try discriminate; try (injection H as <- <-); try (apply IH in H);
    repeat match goal with E : parse_entity _ _ _ _ _ _ = Ok _ |- _ => apply (proj1 (mutual_shorter _ _ _)) in E end;
    cbn [List.length] in *; lia.
Qed.

(** ** ParseStream / ParseTransaction loops *)
Section TopFuel.
  Variable v : variant.
  Variable ns : nsmap.
  Notation len := (@List.length token).

  Ltac lens :=
    repeat match goal with
    | E : parse_entity _ _ _ _ _ _ = Ok _ |- _ => apply (proj1 (mutual_shorter _ _ _)) in E
    | E : txn_array _ _ _ _ _ = Ok _ |- _ => apply txn_array_shorter in E
    end; cbn [List.length] in *; lia.

  Lemma stream_S f eof done ts : stream_loop v ns (S f) eof done ts =
    match ts with
    | [] => if eof then ([], if done then OOk else OErr) else ([], OErr)
    | TDelim DObjO :: ts1 =>
      if strict v && done then ([], OErr) else
      match parse_entity v ns f ent0 false ts1 with
      | Ok (e, ts2) => let '(es, o) := stream_loop v ns f eof done ts2 in (e :: es, o)
      | Err => ([], OErr) | Panic => ([], OPanic) | Fuel => ([], OFuel)
      end
    | TDelim DArrC :: ts1 =>
      if strict v && done then ([], OErr) else stream_loop v ns f eof true ts1
    | TDelim _ :: ts1 => if strict v then ([], OErr) else stream_loop v ns f eof done ts1
    | _ :: _ => ([], OErr)
    end.
  Proof. reflexivity. Qed.

  Lemma stream_stable f : forall eof done ts, (len ts < f)%nat ->
    stream_loop v ns (S f) eof done ts = stream_loop v ns f eof done ts.
  Proof.
    induction f as [|f IH]; intros eof done ts Hlen; [lia|].
    rewrite !stream_S.
    repeat first
      [ reflexivity
      | match goal with |- context [stream_loop v ns (S f) ?a ?b ?t] => rewrite (IH a b t) by lens end
      | match goal with |- context [parse_entity v ns (S f) ?e ?i ?t] =>
          rewrite (proj1 (mutual_stable v ns f) e i t) by lens end
      | split_match ].
  Qed.

  Lemma stream_enough f : forall eof done ts, (len ts < f)%nat ->
    snd (stream_loop v ns f eof done ts) <> OFuel.
  Proof.
    induction f as [|f IH]; intros eof done ts Hlen; [lia|].
    rewrite stream_S.
    repeat split_match; cbn [snd]; try discriminate; try (apply IH; lens).
    - match goal with E : stream_loop v ns f ?a ?b ?t = _ |- _ =>
        pose proof (IH a b t ltac:(lens)) as X; rewrite E in X; exact X end.
    - exfalso. eapply (proj1 (mutual_enough v ns f)); [|eassumption]. lens.
  Qed.

  (** *** transactions *)
  Lemma txn_array_S f acc ts : txn_array v ns (S f) acc ts =
    match ts with
    | [] => Err
    | TDelim DObjO :: ts1 =>
      match parse_entity v ns f ent0 false ts1 with
      | Ok (e, ts2) => txn_array v ns f (acc ++ [e]) ts2
      | Err => Err | Panic => Panic | Fuel => Fuel
      end
    | TDelim DArrC :: ts1 => Ok (acc, ts1)
    | _ :: ts1 => if strict v then Err else txn_array v ns f acc ts1
    end.
  Proof. reflexivity. Qed.

  Lemma txn_array_stable f : forall acc ts, (len ts < f)%nat ->
    txn_array v ns (S f) acc ts = txn_array v ns f acc ts.
  Proof.
    induction f as [|f IH]; intros acc ts Hlen; [lia|].
    rewrite !txn_array_S.
    repeat first
      [ reflexivity
      | match goal with |- context [txn_array v ns (S f) ?a ?t] => rewrite (IH a t) by lens end
      | match goal with |- context [parse_entity v ns (S f) ?e ?i ?t] =>
          rewrite (proj1 (mutual_stable v ns f) e i t) by lens end
      | split_match ].
  Qed.
  Lemma txn_array_enough f : forall acc ts, (len ts < f)%nat -> txn_array v ns f acc ts <> Fuel.
  Proof.
    induction f as [|f IH]; intros acc ts Hlen; [lia|].
    rewrite txn_array_S. repeat split_match; try discriminate; try (apply IH; lens).
    exfalso. eapply (proj1 (mutual_enough v ns f)); [|eassumption]. lens.
  Qed.

  Lemma txn_loop_S f acc ts : txn_loop v ns (S f) acc ts =
    match ts with
    | [] => assert_fail v
    | TDelim DObjC :: _ => Ok acc
    | TDelim _ :: _ => Err
    | TStr name :: ts1 =>
      match ts1 with
      | [] => Err
      | TDelim d :: ts2 =>
        if strict v && negb (delim_eqb d DArrO) then Err else
        match txn_array v ns f [] ts2 with
        | Ok (es, ts3) => txn_loop v ns f (upsert String.eqb name es acc) ts3
        | Err => Err | Panic => Panic | Fuel => Fuel
        end
      | _ :: _ => Err
      end
    | _ :: _ => assert_fail v
    end.
  Proof. reflexivity. Qed.

  Lemma txn_loop_stable f : forall acc ts, (len ts < f)%nat ->
    txn_loop v ns (S f) acc ts = txn_loop v ns f acc ts.
  Proof.
    induction f as [|f IH]; intros acc ts Hlen; [lia|].
    rewrite !txn_loop_S.
    repeat first
      [ reflexivity
      | match goal with |- context [txn_loop v ns (S f) ?a ?t] => rewrite (IH a t) by lens end
      | match goal with |- context [txn_array v ns (S f) ?a ?t] => rewrite (txn_array_stable f a t) by lens end
      | split_match ].
  Qed.
  Lemma txn_loop_enough f : forall acc ts, (len ts < f)%nat -> txn_loop v ns f acc ts <> Fuel.
  Proof.
    induction f as [|f IH]; intros acc ts Hlen; [lia|].
    rewrite txn_loop_S. repeat split_match; try discriminate; try apply assert_fail_nofuel; try (apply IH; lens).
    exfalso. eapply (txn_array_enough f); [|eassumption]. lens.
  Qed.
End TopFuel.

(** ** top level: with more fuel than tokens the result is fuel-independent and never [Fuel] *)
Lemma namespaces_of_nofuel v ctx : namespaces_of v ctx <> Fuel.
Proof.
  unfold namespaces_of. repeat split_match; try discriminate; apply assert_fail_nofuel.
Qed.

Lemma jv_fuel_stable f ts : (List.length ts < f)%nat -> parse_jv (jv_fuel (S f)) ts = parse_jv (jv_fuel f) ts.
Proof.
  intros H. unfold jv_fuel. replace (S f + S f)%nat with ((f + f) + 2)%nat by lia.
  apply jv_stable_from. lia.
Qed.

Lemma parse_stream_stable1 v f eof ts : (List.length ts < f)%nat ->
  parse_stream v (S f) eof ts = parse_stream v f eof ts.
Proof.
  intros H. unfold parse_stream.
  destruct ts as [|[[]| | | |] ts1]; try reflexivity. cbn [List.length] in H.
  rewrite jv_fuel_stable by lia.
  destruct (parse_jv (jv_fuel f) ts1) as [[[] ts2]|] eqn:E; try reflexivity.
  destruct (is_context_id l); [|reflexivity].
  destruct (namespaces_of v l); try reflexivity.
  apply (proj1 (jv_shorter _)) in E. rewrite stream_stable by lia. reflexivity.
Qed.

Theorem parse_stream_stable v f k eof ts : (List.length ts < f)%nat ->
  parse_stream v (f + k) eof ts = parse_stream v f eof ts.
Proof.
  intros H. induction k as [|k IH]; [now rewrite Nat.add_0_r|].
  rewrite Nat.add_succ_r, parse_stream_stable1 by lia. exact IH.
Qed.

Theorem parse_stream_enough v f eof ts : (List.length ts < f)%nat ->
  snd (fst (parse_stream v f eof ts)) <> OFuel.
Proof.
  intros H. unfold parse_stream.
  destruct ts as [|[[]| | | |] ts1]; cbn [fst snd]; try discriminate. cbn [List.length] in H.
  destruct (parse_jv (jv_fuel f) ts1) as [[[] ts2]|] eqn:E; cbn [fst snd]; try discriminate.
  destruct (is_context_id l); cbn [fst snd]; [|discriminate].
  destruct (namespaces_of v l) as [ns| | |] eqn:En; cbn [fst snd]; try discriminate.
  - apply (proj1 (jv_shorter _)) in E.
    pose proof (stream_enough v ns f eof false ts2 ltac:(lia)) as X.
    destruct (stream_loop v ns f eof false ts2). exact X.
  - exfalso. eapply namespaces_of_nofuel; eassumption.
Qed.

Lemma parse_txn_stable1 v f ts : (List.length ts < f)%nat -> parse_txn v (S f) ts = parse_txn v f ts.
Proof.
  intros H. unfold parse_txn.
  destruct ts as [|[[]| | | |] [|t ts1]]; try reflexivity. cbn [List.length] in H.
  rewrite jv_fuel_stable by lia.
  destruct (parse_jv (jv_fuel f) ts1) as [[[] ts2]|] eqn:E; try reflexivity.
  destruct (namespaces_of v l); try reflexivity.
  apply (proj1 (jv_shorter _)) in E. apply txn_loop_stable. lia.
Qed.

Theorem parse_txn_stable v f k ts : (List.length ts < f)%nat -> parse_txn v (f + k) ts = parse_txn v f ts.
Proof.
  intros H. induction k as [|k IH]; [now rewrite Nat.add_0_r|].
  rewrite Nat.add_succ_r, parse_txn_stable1 by lia. exact IH.
Qed.

Theorem parse_txn_enough v f ts : (List.length ts < f)%nat -> parse_txn v f ts <> Fuel.
Proof.
  intros H. unfold parse_txn.
  destruct ts as [|[[]| | | |] [|t ts1]]; try discriminate. cbn [List.length] in H.
  destruct (parse_jv (jv_fuel f) ts1) as [[[] ts2]|] eqn:E; try discriminate; try apply assert_fail_nofuel.
  destruct (namespaces_of v l) as [ns| | |] eqn:En; try discriminate.
  - apply (proj1 (jv_shorter _)) in E. apply txn_loop_enough. lia.
  - exfalso. eapply namespaces_of_nofuel; eassumption.
Qed.

(** ** the round trip at the fuel the check uses *)
Theorem stream_roundtrip_fuel v ctx es tok fuel : wf_ctx ctx -> Forall (fun ei => wf_ent ctx (fst ei)) es ->
  (List.length (ser_stream ctx es tok) < fuel)%nat ->
  parse_stream v fuel true (ser_stream ctx es tok)
  = ((map (fun ei => clean_ent (fst ei)) es ++ [cont_ent tok])%list, OOk, ctx).
Proof.
  intros Hc He Hf. destruct (stream_roundtrip v ctx Hc es tok He) as [n Hn].
  rewrite <- (parse_stream_stable v fuel n true _ Hf). apply Hn. lia.
Qed.
