(** The link between the correspondence evaluator and the theorems (property C14): a well-formed case (its restart
    ops are clean stop/starts) on which the implementation agrees with the repaired model satisfies the executable
    spec: every restart invisible, the run with restarts equal to the run without them, no id reused. *)
From Coq Require Import List ZArith NArith Bool String Lia.
From DH Require Import Lib.CheckLib Model.Store Model.Acl Model.SecStore Model.Restart
     Proofs.SecStoreProofs Proofs.RestartProofs Check.C14Check.
Import ListNotations.
Open Scope list_scope.
Open Scope Z_scope.

Arguments obs clients h : simpl never.
Arguments stepd fl h o : simpl never.
Arguments drain fl fuel batch h : simpl never.

(** ** boolean equalities *)
Lemma czlist_eqb_eq a b : CheckLib.zlist_eqb a b = true <-> a = b.
Proof. unfold CheckLib.zlist_eqb. apply list_eqb_eq. intros x y. apply Z.eqb_eq. Qed.
(* Store.v has its own list equality on Z *)
Lemma zlist_eqb_eq a b : Store.zlist_eqb a b = true <-> a = b.
Proof.
  revert b. induction a as [|x a IH]; destruct b as [|y b]; cbn; try (split; congruence).
  rewrite andb_true_iff, Z.eqb_eq, IH. split; [intros [-> ->]; reflexivity | intros [= -> ->]; auto].
Qed.
Lemma zll_eqb_eq a b : zlistlist_eqb a b = true <-> a = b.
Proof. unfold zlistlist_eqb. apply list_eqb_eq, czlist_eqb_eq. Qed.
Lemma snap_eqb_eq a b : snap_eqb a b = true <-> a = b.
Proof. unfold snap_eqb. apply list_eqb_eq, zll_eqb_eq. Qed.
Lemma snap_eqb_refl a : snap_eqb a a = true.
Proof. now apply snap_eqb_eq. Qed.
Lemma res_eqb_eq a b : res_eqb a b = true <-> a = b.
Proof. destruct a, b; cbn; split; congruence. Qed.
Lemma pair_eqb_eq a b : pair_eqb a b = true <-> a = b.
Proof.
  destruct a as [a1 a2], b as [b1 b2]. unfold pair_eqb. cbn. rewrite andb_true_iff, !snap_eqb_eq.
  split; [intros [-> ->]; reflexivity | intros [= -> ->]; auto].
Qed.
Lemma bool_list_eqb_eq a b : list_eqb Bool.eqb a b = true <-> a = b.
Proof. apply list_eqb_eq. intros x y. apply Bool.eqb_true_iff. Qed.

Lemma zmem_in k l : zmem k l = true <-> In k l.
Proof.
  unfold zmem. rewrite existsb_exists. split.
  - intros [x [Hin E]]. apply Z.eqb_eq in E. now subst.
  - intros H. exists k. split; [exact H | apply Z.eqb_refl].
Qed.

Lemma nodup_z_true l : NoDup l -> nodup_z l = true.
Proof.
  induction 1 as [|x l Hx _ IH]; cbn; [reflexivity|]. rewrite IH, andb_true_r.
  destruct (zmem x l) eqn:E; [apply zmem_in in E; contradiction | reflexivity].
Qed.

Lemma row_in_true r l : In r l -> row_in r l = true.
Proof. intros H. unfold row_in. apply existsb_exists. exists r. split; [exact H | now apply zlist_eqb_eq]. Qed.

(** ** the sections of a snapshot *)
Definition id_rows (s : dmstate) : list (list Z) := map (fun p : Z * Z => [fst p; snd p]) (d_ids s).

Lemma ids_of_obs cl h : ids_of (obs cl h) = id_rows (h_dm h).
Proof. reflexivity. Qed.
Lemma del_of_obs cl h : del_of (obs cl h) = m_del (h_dm h).
Proof. reflexivity. Qed.
Lemma next_of_obs cl h : next_of (obs cl h) = m_next (h_dm h).
Proof. reflexivity. Qed.
Lemma dsids_of_obs cl h : dsids_of (obs cl h) = map (fun p : Z * dsrec => r_id (snd p)) (m_reg (h_dm h)).
Proof. unfold dsids_of, sect, obs. cbn [nth app]. rewrite map_map. reflexivity. Qed.

(** ** the run with snapshots is the run *)
Definition inv (fl : rflags) (h : hub) : Prop := hub_synced fl h /\ dm_safe fl (h_dm h).

Lemma inv_init fl : inv fl hub_init.
Proof. split; [apply hub_init_sync | apply dm_init_safe]. Qed.

Lemma inv_step fl o h : sound fl -> inv fl h -> inv fl (fst (stepd fl h o)) /\ dm_le (h_dm h) (h_dm (fst (stepd fl h o))).
Proof.
  intros Hsd [Hs Hf]. destruct (stepd_safe fl o h Hf) as [Hf' Hl]. split; [split; [now apply stepd_sync | exact Hf'] | exact Hl].
Qed.

(** a recorded pair: the snapshot of a synced hub before a clean restart and after it, taken at a state from which
    the final state is reached *)
Definition good_pair (fl : rflags) (cl : list string) (hf : hub) (p : snap * snap) : Prop :=
  exists hi, inv fl hi /\ fst p = obs cl hi /\ snd p = obs cl (reopen fl false hi) /\ dm_le (h_dm hi) (h_dm hf).

Lemma run_obs_spec fl cl ops : sound fl -> Forall clean ops -> forall h, inv fl h ->
  let '(hf, rs, ps) := run_obs fl cl ops h in
  (hf, rs) = run fl ops h /\ inv fl hf /\ dm_le (h_dm h) (h_dm hf) /\ Forall (good_pair fl cl hf) ps.
Proof.
  intros Hsd. induction 1 as [|o ops Ho _ IH]; intros h Hi; cbn [run_obs run].
  - split; [reflexivity|]. split; [exact Hi|]. split; [apply dm_le_refl | constructor].
  - destruct (inv_step fl o h Hsd Hi) as [Hi1 Hl1].
    destruct (stepd fl h o) as [h1 r] eqn:E. cbn [fst] in Hi1, Hl1.
    specialize (IH h1 Hi1). destruct (run_obs fl cl ops h1) as [[hf rs] ps].
    destruct IH as (Er & Hif & Hlf & Hps). rewrite <- Er.
    split; [reflexivity|]. split; [exact Hif|]. split; [eapply dm_le_trans; eauto|].
    destruct o as [o|o|o|o|crash]; cbn [is_restart]; try exact Hps.
    destruct crash; [destruct Ho|]. rewrite stepd_restart in E. injection E as <- <-.
    constructor; [|exact Hps]. exists h. split; [exact Hi|]. split; [reflexivity|]. split; [reflexivity|].
    eapply dm_le_trans; eauto.
Qed.

(** ** the history without its restarts *)
Lemma reopen_sim_left fl h h' : sound fl -> hub_synced fl h -> hsim h h' -> hsim (reopen fl false h) h'.
Proof.
  intros Hsd Hs ((q' & Hd & Hn & Hi & Hi') & Hj & Hse & Hp). rewrite (reopen_norm fl h Hsd Hs).
  repeat split; cbn; auto. exists q'. split.
  - rewrite Hd. now destruct (h_dm h).
  - cbn. split; [exact Hn | split; [apply seq_open_inv | exact Hi']].
Qed.

Lemma strip_sim fl ops : sound fl -> Forall clean ops -> forall h h', hub_synced fl h -> hsim h h' ->
  strip_res ops (snd (run fl ops h)) = snd (run fl (strip ops) h')
  /\ hsim (fst (run fl ops h)) (fst (run fl (strip ops) h')).
Proof.
  intros Hsd. induction 1 as [|o ops Ho _ IH]; intros h h' Hs Hh; [now split|].
  assert (Hs1 : hub_synced fl (fst (stepd fl h o))) by now apply stepd_sync.
  destruct (is_restart o) eqn:Er.
  - destruct o as [o|o|o|o|crash]; try discriminate. destruct crash; [destruct Ho|].
    cbn [run strip filter is_restart negb]. rewrite stepd_restart in *. cbn [fst] in Hs1.
    specialize (IH (reopen fl false h) h' Hs1 (reopen_sim_left fl h h' Hsd Hs Hh)).
    destruct (run fl ops (reopen fl false h)) as [h2 rs]. cbn [fst snd] in *.
    unfold strip_res. cbn [combine filter is_restart fst negb]. exact IH.
  - assert (Est : strip (o :: ops) = o :: strip ops) by (unfold strip; cbn; now rewrite Er).
    rewrite Est. cbn [run].
    destruct (stepd_sim fl o h h' Ho Hh) as [Hr Hh1].
    destruct (stepd fl h o) as [h1 r], (stepd fl h' o) as [h1' r']. cbn [fst snd] in *. subst r'.
    specialize (IH h1 h1' Hs1 Hh1).
    destruct (run fl ops h1) as [h2 rs], (run fl (strip ops) h1') as [h2' rs']. cbn [fst snd] in *.
    unfold strip_res in *. cbn [combine filter fst]. rewrite Er. cbn [negb map snd]. destruct IH as [-> IH2]. now split.
Qed.

Lemma hsim_refl fl h : hub_synced fl h -> hsim h h.
Proof. intros (((_ & _ & _ & _ & _ & Hq) & _) & _). repeat split; auto. now apply dsim_refl. Qed.

(** ** agreement with the repaired model implies the spec *)
Lemma forallb_true_intro {A} (f : A -> bool) l : (forall x, In x l -> f x = true) -> forallb f l = true.
Proof. intros H. apply forallb_forall. exact H. Qed.

Theorem agree_implies_spec fl c :
  sound fl -> Forall clean (c_ops c) -> agree fl c = true -> spec_ok c = true.
Proof.
  intros Hsd Hcl. unfold agree, spec_ok.
  pose proof (run_obs_spec fl (c_clients c) (c_ops c) Hsd Hcl hub_init (inv_init fl)) as Hro.
  destruct (run_obs fl (c_clients c) (c_ops c) hub_init) as [[h rs] ps].
  destruct Hro as (Er & Hih & _ & Hps).
  pose proof (strip_sim fl (c_ops c) Hsd Hcl hub_init hub_init (hub_init_sync fl)
                (hsim_refl fl hub_init (hub_init_sync fl))) as Hst.
  rewrite <- Er in Hst. cbn [fst snd] in Hst.
  destruct (run fl (strip (c_ops c)) hub_init) as [hr rrs]. cbn [fst snd] in Hst. destruct Hst as [Hres Hsim].
  pose proof (hsim_obs (c_clients c) _ _ Hsim) as Hobs.
  rewrite !andb_true_iff. intros ((((((E1 & E2) & E3) & E4) & E5) & E6) & E7).
  apply (list_eqb_eq res_eqb res_eqb_eq) in E1, E4. apply (list_eqb_eq pair_eqb pair_eqb_eq) in E2.
  apply snap_eqb_eq in E3, E5. apply bool_list_eqb_eq in E6.
  rewrite <- E1, <- E2, <- E3, <- E4, <- E5, <- E6. clear E1 E2 E3 E4 E5 E6.
  (* every recorded pair is the same snapshot twice *)
  assert (Hsame : forall p, In p ps -> same p = true).
  { intros p Hin. rewrite Forall_forall in Hps. destruct (Hps p Hin) as (hi & [Hsi _] & E1 & E2 & _).
    unfold same. rewrite E1, E2, (reopen_norm fl hi Hsd Hsi). apply snap_eqb_refl. }
  rewrite Hobs, snap_eqb_refl in E7. rewrite Hres in E7.
  assert (Err : list_eqb res_eqb rrs rrs = true) by now apply (list_eqb_eq res_eqb res_eqb_eq).
  rewrite Err in E7. cbn in E7. destruct (o_reffull c); [|discriminate E7].
  repeat split.
  - now apply forallb_true_intro.
  - apply forallb_true_intro. intros b Hb. apply in_map_iff in Hb. destruct Hb as [p [<- Hin]]. now apply Hsame.
  - rewrite Hobs. apply snap_eqb_refl.
  - rewrite Hres. exact Err.
  - (* no id reused *)
    destruct Hih as [_ (_ & (_ & _ & Hu & Hid) & (Hr & Hd & Hso & Hinj))].
    unfold ids_safe. rewrite ids_of_obs, del_of_obs, next_of_obs, dsids_of_obs. unfold id_rows.
    rewrite !map_map. cbn [nth]. rewrite !andb_true_iff. repeat split.
    + now apply nodup_z_true.
    + now apply nodup_z_true.
    + apply forallb_true_intro. intros b Hb. apply in_map_iff in Hb. destruct Hb as [p [<- Hin]].
      rewrite Forall_forall in Hps. destruct (Hps p Hin) as (hi & _ & -> & _ & ([l El] & Hinc & _)).
      rewrite ids_of_obs, del_of_obs. unfold id_rows. rewrite El, map_app. apply andb_true_iff. split.
      * apply forallb_true_intro. intros r Hr0. apply row_in_true. apply in_or_app. now left.
      * apply forallb_true_intro. intros d Hd0. apply zmem_in. now apply Hinc.
    + apply nodup_z_true.
      clear - Hso Hinj. induction (m_reg (h_dm h)) as [|[k v] l IH]; cbn; constructor.
      * intros Hin. apply in_map_iff in Hin. destruct Hin as [[k0 v0] [He Hin]]. cbn in He.
        assert (k0 = k) by (eapply Hinj; [right; exact Hin | left; reflexivity | exact He]). subst k0.
        pose proof (ssorted_above _ _ _ Hso k v0 Hin). lia.
      * apply IH; [eapply ssorted_tail; eauto|]. intros n1 r1 n2 r2 H1 H2. eapply Hinj; right; eauto.
    + apply forallb_true_intro. intros i Hi0. apply in_map_iff in Hi0. destruct Hi0 as [[n r] [<- Hin]]. cbn.
      destruct (Hr n r Hin) as [Hlt Hnd]. apply andb_true_iff. split.
      * destruct (zmem (r_id r) (m_del (h_dm h))) eqn:E; [apply zmem_in in E; contradiction | reflexivity].
      * now apply Z.ltb_lt.
    + apply forallb_true_intro. intros d Hd0. apply Z.ltb_lt. now apply Hd.
Qed.
