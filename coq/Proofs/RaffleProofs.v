(** Invariant of the ticket raffle for all sequences of borrow / return operations. *)
From Coq Require Import List ZArith Bool Lia.
From DH Require Import Model.Raffle.
Import ListNotations.
Open Scope Z_scope.

Definition cnt (f : bool) (l : list (Z * bool)) : nat := length (filter (fun p => Bool.eqb (snd p) f) l).
Lemma count_kind_cnt f l : count_kind f l = Z.of_nat (cnt f l).
Proof. reflexivity. Qed.

Lemma existsb_has_id_in id l : existsb (has_id id) l = true -> In id (map fst l).
Proof.
  induction l as [|p l IH]; cbn; [discriminate|]. unfold has_id at 1.
  destruct (Z.eqb_spec (fst p) id); cbn; auto.
Qed.
Lemma existsb_has_id_notin id l : existsb (has_id id) l = false -> ~ In id (map fst l).
Proof.
  induction l as [|p l IH]; cbn; [auto|]. unfold has_id at 1.
  destruct (Z.eqb_spec (fst p) id); cbn; [discriminate|]. intros H [E|E]; [auto | apply (IH H E)].
Qed.

Lemma filter_notin id l : ~ In id (map fst l) -> filter (fun p => negb (has_id id p)) l = l.
Proof.
  induction l as [|p l IH]; cbn; [auto|]. intros H. unfold has_id at 1.
  destruct (Z.eqb_spec (fst p) id); [exfalso; apply H; auto|]. cbn. rewrite IH; auto.
Qed.

Lemma filter_map_fst_incl id l x :
  In x (map fst (filter (fun p => negb (has_id id p)) l)) -> In x (map fst l).
Proof.
  induction l as [|p l IH]; cbn; [auto|]. destruct (negb (has_id id p)); cbn; intuition.
Qed.

Lemma nodup_filter id l : NoDup (map fst l) -> NoDup (map fst (filter (fun p => negb (has_id id p)) l)).
Proof.
  induction l as [|p l IH]; cbn; [auto|]. intros H. inversion H as [|? ? Hn Hd]; subst.
  destruct (negb (has_id id p)); cbn; [|auto]. constructor; [|auto].
  intros Hi. apply Hn. eapply filter_map_fst_incl. exact Hi.
Qed.

Lemma remove_count id l i f :
  NoDup (map fst l) -> find (has_id id) l = Some (i, f) ->
  cnt f l = S (cnt f (filter (fun p => negb (has_id id p)) l))
  /\ cnt (negb f) l = cnt (negb f) (filter (fun p => negb (has_id id p)) l).
Proof.
  induction l as [|p l IH]; cbn [find]; [discriminate|]. intros Hnd Hf.
  inversion Hnd as [|? ? Hn Hd]; subst.
  destruct (has_id id p) eqn:Hp.
  - inversion Hf; subst p. cbn [filter]. rewrite Hp. cbn [negb].
    assert (Hid : i = id) by (unfold has_id in Hp; cbn in Hp; apply Z.eqb_eq in Hp; exact Hp). subst i.
    rewrite (filter_notin id l Hn). unfold cnt. cbn [filter snd].
    rewrite Bool.eqb_reflx. cbn [length]. split; [reflexivity|].
    destruct f; reflexivity.
  - destruct (IH Hd Hf) as [H1 H2]. cbn [filter]. rewrite Hp. cbn [negb].
    unfold cnt in *. cbn [filter]. destruct (Bool.eqb (snd p) f), (Bool.eqb (snd p) (negb f)); cbn [length]; lia.
Qed.

Lemma borrow_inv capF capI id full st st' :
  rinv capF capI st -> borrow id full st = Some st' -> rinv capF capI st'.
Proof.
  intros (Hnd & HF & HI & H0F & H0I). unfold borrow.
  destruct (is_running id st) eqn:Hr; [discriminate|].
  apply existsb_has_id_notin in Hr.
  destruct full.
  - destruct (0 <? r_full st) eqn:Ht; [|discriminate]. apply Z.ltb_lt in Ht.
    intros [= <-]. unfold rinv. cbn [r_full r_incr r_running map fst].
    rewrite !count_kind_cnt in *. unfold cnt in *. cbn [filter snd Bool.eqb length].
    repeat split; try lia. constructor; assumption.
  - destruct (0 <? r_incr st) eqn:Ht; [|discriminate]. apply Z.ltb_lt in Ht.
    intros [= <-]. unfold rinv. cbn [r_full r_incr r_running map fst].
    rewrite !count_kind_cnt in *. unfold cnt in *. cbn [filter snd Bool.eqb length].
    repeat split; try lia. constructor; assumption.
Qed.

Lemma give_back_inv capF capI id st : rinv capF capI st -> rinv capF capI (give_back id st).
Proof.
  intros (Hnd & HF & HI & H0F & H0I). unfold give_back.
  destruct (find (has_id id) (r_running st)) as [[i f]|] eqn:Hf; [|repeat split; assumption].
  destruct (remove_count _ _ _ _ Hnd Hf) as [H1 H2].
  unfold rinv. cbn [r_full r_incr r_running]. rewrite !count_kind_cnt in *.
  split; [apply nodup_filter; exact Hnd|].
  destruct f; cbn [negb] in *; repeat split; lia.
Qed.

Theorem rexec_inv capF capI : 0 <= capF -> 0 <= capI ->
  forall ops, rinv capF capI (rexec ops (r_init capF capI)).
Proof.
  intros HF HI ops. unfold rexec.
  assert (H0 : rinv capF capI (r_init capF capI)).
  { unfold rinv, r_init. cbn. repeat split; try lia. constructor. }
  revert H0. generalize (r_init capF capI). induction ops as [|o ops IH]; intros st Hst; [exact Hst|].
  cbn [fold_left]. apply IH. destruct o as [id full|id]; cbn [rstep].
  - destruct (borrow id full st) eqn:Hb; [eapply borrow_inv; eauto | exact Hst].
  - apply give_back_inv. exact Hst.
Qed.

(** simultaneous requests for one id: whatever the serving order, at most one ticket *)
Lemma borrow_running id f st st' : borrow id f st = Some st' -> is_running id st' = true.
Proof.
  unfold borrow. destruct (is_running id st); [discriminate|].
  destruct f; [destruct (0 <? r_full st) | destruct (0 <? r_incr st)]; try discriminate;
    intros [= <-]; unfold is_running; cbn; unfold has_id at 1; cbn; rewrite Z.eqb_refl; reflexivity.
Qed.

Lemma grant_count_running id reqs st : is_running id st = true -> grant_count id reqs st = O.
Proof.
  intros Hr. induction reqs as [|f reqs IH]; [reflexivity|]. cbn [grant_count].
  unfold borrow. rewrite Hr. exact IH.
Qed.

Theorem grant_at_most_one id reqs : forall st, (grant_count id reqs st <= 1)%nat.
Proof.
  induction reqs as [|f reqs IH]; intros st; cbn [grant_count]; [lia|].
  destruct (borrow id f st) as [st'|] eqn:Hb; [|apply IH].
  rewrite (grant_count_running id reqs st' (borrow_running _ _ _ _ Hb)). lia.
Qed.

(** simultaneous requests of one kind for different ids: never more tickets than the pool holds *)
Definition tickets (f : bool) (st : rstate) : Z := if f then r_full st else r_incr st.

Lemma borrow_tickets id f st st' : borrow id f st = Some st' -> 0 < tickets f st /\ tickets f st' = tickets f st - 1.
Proof.
  unfold borrow, tickets. destruct (is_running id st); [discriminate|].
  destruct f; [destruct (0 <? r_full st) eqn:Ht | destruct (0 <? r_incr st) eqn:Ht]; try discriminate;
    apply Z.ltb_lt in Ht; intros [= <-]; cbn; lia.
Qed.

Theorem grant_pool_bound f ids : forall st, 0 <= tickets f st -> Z.of_nat (grant_pool f ids st) <= tickets f st.
Proof.
  induction ids as [|id ids IH]; intros st H0; cbn [grant_pool]; [cbn; lia|].
  destruct (borrow id f st) as [st'|] eqn:Hb; [|apply IH; exact H0].
  destruct (borrow_tickets _ _ _ _ Hb) as [Hpos Hdec].
  specialize (IH st' ltac:(lia)). lia.
Qed.

(** what the invariant means *)
Lemma rinv_bounds capF capI st : rinv capF capI st ->
  NoDup (map fst (r_running st))
  /\ count_kind true (r_running st) <= capF /\ count_kind false (r_running st) <= capI
  /\ 0 <= r_full st <= capF /\ 0 <= r_incr st <= capI.
Proof.
  intros (Hnd & HF & HI & H0F & H0I). rewrite !count_kind_cnt in *. repeat split; try lia; assumption.
Qed.

Lemma existsb_find id l : existsb (has_id id) l = true -> exists p, find (has_id id) l = Some p.
Proof.
  induction l as [|p l IH]; cbn; [discriminate|]. destruct (has_id id p); cbn; eauto.
Qed.

(** a log accepted by the model satisfies the executable spec *)
Lemma replay_spec capF capI : forall log st st',
  rinv capF capI st -> replay log st = Some st' -> r_running st' = [] ->
  spec_log_prop capF capI (r_running st) log.
Proof.
  induction log as [|o log IH]; intros st st' Hinv Hrep Hfin.
  - cbn in Hrep. inversion Hrep; subst. cbn. exact Hfin.
  - destruct o as [id full|id]; cbn [replay] in Hrep.
    + destruct (borrow id full st) as [st1|] eqn:Hb; [|discriminate].
      pose proof (borrow_inv _ _ _ _ _ _ Hinv Hb) as Hinv1.
      cbn [spec_log_prop]. unfold borrow in Hb.
      destruct (is_running id st) eqn:Hr; [discriminate|]. unfold is_running in Hr.
      destruct Hinv as (_ & HF & HI & _ & _).
      destruct full.
      * destruct (0 <? r_full st) eqn:Ht; [|discriminate]. apply Z.ltb_lt in Ht. inversion Hb; subst st1.
        split; [exact Hr|]. split; [lia|]. apply (IH _ st' Hinv1 Hrep Hfin).
      * destruct (0 <? r_incr st) eqn:Ht; [|discriminate]. apply Z.ltb_lt in Ht. inversion Hb; subst st1.
        split; [exact Hr|]. split; [lia|]. apply (IH _ st' Hinv1 Hrep Hfin).
    + destruct (is_running id st) eqn:Hr; [|discriminate]. unfold is_running in Hr.
      cbn [spec_log_prop]. split; [exact Hr|].
      pose proof (give_back_inv _ _ id _ Hinv) as Hinv1.
      specialize (IH _ st' Hinv1 Hrep Hfin).
      unfold give_back in IH. destruct (existsb_find _ _ Hr) as [[i f] Hf]. rewrite Hf in IH. exact IH.
Qed.
