(** Proofs for C19, part 2: the catalogue-level invariant over all histories. *)
From Coq Require Import List ZArith Bool Lia.
From DH Require Import Model.Store Model.Catalogue Proofs.StoreProofs Proofs.CatalogueProofs.
Import ListNotations.
Open Scope Z_scope.

(** ** one entity written to a dataset *)
Lemma keep_single fl dm s c :
  keep_decision fl dm s None c = match s with Some p => negb (content_eqb fl p c) | None => true end.
Proof. destruct dm, s; cbn; rewrite ?orb_false_r; reflexivity. Qed.

Definition single_kept (fl : eqflags) (d : dstate) (e : ent) : bool :=
  match stored_latest d (e_id e) with Some p => negb (content_eqb fl p (e_c e)) | None => true end.

Lemma sb_single fl dm t e d :
  store_batch_ds fl dm t [e] d =
  if single_kept fl d e
  then {| d_entries := d_entries d ++ [{| en_seq := d_next d; en_id := e_id e; en_time := t; en_bidx := 0; en_c := e_c e |}];
          d_latest := (e_id e, (t, 0)) :: d_latest d; d_next := d_next d + 1 |}
  else {| d_entries := d_entries d ++ []; d_latest := d_latest d; d_next := d_next d |}.
Proof.
  unfold store_batch_ds, single_kept. cbn [number_from fold_left]. unfold batch_step. cbn [a_loc assoc].
  rewrite keep_single.
  destruct (match stored_latest d (e_id e) with Some p => negb (content_eqb fl p (e_c e)) | None => true end);
    reflexivity.
Qed.

Lemma single_spec fl dm clk t id c d kn :
  winv clk d -> clk < t -> incl (dids d) kn ->
  let '(d', kn', ni) := cbatch fl dm t [{| e_id := id; e_c := c |}] d kn in
  winv t d' /\ incl kn kn' /\ incl (dids d') kn'
  /\ ndistinct (dids d') = ndistinct (dids d) + ni /\ 0 <= ni
  /\ (stored_latest d id <> None -> ni = 0)
  /\ (exists c', stored_latest d' id = Some c'
                 /\ (c' = c \/ (stored_latest d id = Some c' /\ content_eqb fl c' c = true)))
  /\ (forall id', id' <> id -> stored_latest d' id' = stored_latest d id').
Proof.
  intros Hw Ht Hk.
  pose proof (cbatch_spec fl dm clk t [{| e_id := id; e_c := c |}] d kn Hw ltac:(lia) Hk) as Hs.
  destruct (cbatch fl dm t [{| e_id := id; e_c := c |}] d kn) as [[d' kn'] ni].
  destruct Hs as (Hd' & Hw' & Hn & Hni & Hkk & Hdk & _ & _).
  rewrite sb_single in Hd'. unfold single_kept in Hd'. cbn [e_id e_c] in Hd'.
  split; [exact Hw'|]. split; [exact Hkk|]. split; [exact Hdk|]. split; [exact Hn|]. split; [exact Hni|].
  pose proof (stored_none_iff clk d id Hw) as Hsn.
  destruct (stored_latest d id) as [p|] eqn:Es.
  - (* an earlier version exists *)
    assert (Hin : In id (dids d)).
    { destruct (zmem id (dids d)) eqn:Ez; [now apply zmem_In|]. apply zmem_false in Ez. apply Hsn in Ez. discriminate. }
    destruct (content_eqb fl p c) eqn:Eeq; cbn [negb] in Hd'.
    + (* unchanged: skipped *)
      subst d'. unfold dids in Hn. cbn [d_entries] in Hn. rewrite app_nil_r in Hn. fold (dids d) in Hn.
      split; [intros _; lia|].
      assert (Hsame : forall i, stored_latest {| d_entries := d_entries d ++ []; d_latest := d_latest d; d_next := d_next d |} i
                                = stored_latest d i).
      { intros i. unfold stored_latest. cbn [d_latest d_entries]. now rewrite app_nil_r. }
      split.
      * exists p. rewrite Hsame. split; [exact Es|]. right. split; [reflexivity | exact Eeq].
      * intros id' _. apply Hsame.
    + subst d'. split.
      * intros _. unfold dids in Hn. cbn [d_entries] in Hn. rewrite map_app in Hn. cbn [map en_id] in Hn.
        fold (dids d) in Hn. rewrite ndistinct_snoc in Hn. apply zmem_In in Hin. rewrite Hin in Hn. lia.
      * split.
        -- exists c. split; [|now left]. unfold stored_latest. cbn [d_latest d_entries assoc]. rewrite Z.eqb_refl.
           rewrite find_entry_app, (find_entry_none_time clk _ _ _ _ (w_times _ _ Hw) Ht).
           cbn [find_entry en_id en_time en_bidx]. rewrite !Z.eqb_refl. reflexivity.
        -- intros id' Hne. unfold stored_latest. cbn [d_latest d_entries assoc].
           replace (Z.eqb id' id) with false by (symmetry; now apply Z.eqb_neq).
           destruct (assoc id' (d_latest d)) as [[t' b']|]; [|reflexivity].
           rewrite find_entry_app. destruct (find_entry id' t' b' (d_entries d)); [reflexivity|].
           rewrite find_entry_other; [reflexivity | cbn; congruence].
  - subst d'. split; [intros H; congruence|]. split.
    + exists c. split; [|now left]. unfold stored_latest. cbn [d_latest d_entries assoc]. rewrite Z.eqb_refl.
      rewrite find_entry_app, (find_entry_none_time clk _ _ _ _ (w_times _ _ Hw) Ht).
      cbn [find_entry en_id en_time en_bidx]. rewrite !Z.eqb_refl. reflexivity.
    + intros id' Hne. unfold stored_latest. cbn [d_latest d_entries assoc].
      replace (Z.eqb id' id) with false by (symmetry; now apply Z.eqb_neq).
      destruct (assoc id' (d_latest d)) as [[t' b']|]; [|reflexivity].
      rewrite find_entry_app. destruct (find_entry id' t' b' (d_entries d)); [reflexivity|].
      rewrite find_entry_other; [reflexivity | cbn; congruence].
Qed.

(** the latest pointer names the content of the LAST version of the id in the change log *)
Definition plast (d : dstate) : Prop := forall i, stored_latest d i = option_map en_c (last_entry (d_entries d) i).

Lemma single_plast fl dm clk t id c d kn :
  winv clk d -> clk < t -> incl (dids d) kn -> plast d ->
  plast (fst (fst (cbatch fl dm t [{| e_id := id; e_c := c |}] d kn))).
Proof.
  intros Hw Ht Hk Hp.
  pose proof (single_spec fl dm clk t id c d kn Hw Ht Hk) as Hs.
  pose proof (cbatch_spec fl dm clk t [{| e_id := id; e_c := c |}] d kn Hw ltac:(lia) Hk) as Hb.
  destruct (cbatch fl dm t [{| e_id := id; e_c := c |}] d kn) as [[d' kn'] ni]. cbn [fst].
  destruct Hb as (Hd' & _).
  destruct Hs as (_ & _ & _ & _ & _ & _ & (c' & Hc' & Hcc) & Hother).
  rewrite sb_single in Hd'. destruct (single_kept fl d {| e_id := id; e_c := c |}) eqn:K.
  - assert (c' = c).
    { destruct Hcc as [|[Hold Heq]]; [assumption|]. unfold single_kept in K. cbn [e_id e_c] in K.
      rewrite Hold, Heq in K. discriminate. }
    subst c'. intros i. destruct (Z.eq_dec i id) as [->|Hne].
    + rewrite Hc'. subst d'. cbn [d_entries e_id e_c]. rewrite last_entry_snoc. cbn [en_id]. rewrite Z.eqb_refl. reflexivity.
    + rewrite (Hother i Hne), (Hp i). subst d'. cbn [d_entries e_id e_c]. rewrite last_entry_snoc. cbn [en_id].
      replace (Z.eqb id i) with false by (symmetry; apply Z.eqb_neq; congruence). reflexivity.
  - subst d'. intros i. unfold stored_latest. cbn [d_latest d_entries]. rewrite app_nil_r. apply Hp.
Qed.

(** ** the part of the invariant that holds at every intermediate state *)
Definition core (k : cat) : dstate := get_ds (k_st k) CORE_DS.

Record binv (k : cat) : Prop := {
  b_w : forall c, winv (s_clock (k_st k)) (get_ds (k_st k) c);
  b_kn : forall c, incl (dids (get_ds (k_st k) c)) (k_known k);
  (* core.Dataset holds nothing but meta entities, each under the id of the name it carries *)
  b_core : forall id c, stored_latest (core k) id = Some c -> exists m, id = meta_uri (m_name m) /\ c = meta_content m;
  b_last : plast (core k)
}.

Lemma meta_uri_inj n n' : meta_uri n = meta_uri n' -> n = n'.
Proof. unfold meta_uri. lia. Qed.

Lemma get_tick st c : get_ds (tick st) c = get_ds st c.
Proof. reflexivity. Qed.

Lemma read_meta_Some k n m :
  read_meta k n = Some m <-> exists c, stored_latest (core k) (meta_uri n) = Some c /\ meta_parse c = m.
Proof.
  unfold read_meta, core. destruct (stored_latest (get_ds (k_st k) CORE_DS) (meta_uri n)) as [c|]; cbn.
  - split; [intros [= <-]; now exists c | intros [c' [[= <-] <-]]; reflexivity].
  - split; [discriminate | intros [c' [H _]]; discriminate].
Qed.

Lemma core_write_spec fl k x m :
  binv k -> m_name m = x ->
  let '(k', ni) := core_write fl k (meta_uri x) m in
  binv k' /\ k_reg k' = k_reg k /\ k_next k' = k_next k
  /\ (forall c, c <> CORE_DS -> get_ds (k_st k') c = get_ds (k_st k) c)
  /\ read_meta k' x = Some m
  /\ (forall n', n' <> x -> read_meta k' n' = read_meta k n')
  /\ ndistinct (dids (core k')) = ndistinct (dids (core k)) + ni /\ 0 <= ni
  /\ (read_meta k x <> None -> ni = 0).
Proof.
  intros Hb Hname. unfold core_write.
  pose proof (single_spec (cf_eq fl) (cf_dup fl) (s_clock (k_st k)) (s_clock (tick (k_st k))) (meta_uri x) (meta_content m)
                          (get_ds (tick (k_st k)) CORE_DS) (k_known k)) as Hs.
  rewrite get_tick in *.
  specialize (Hs (b_w _ Hb CORE_DS) ltac:(cbn; lia) (b_kn _ Hb CORE_DS)).
  pose proof (single_plast (cf_eq fl) (cf_dup fl) (s_clock (k_st k)) (s_clock (tick (k_st k))) (meta_uri x) (meta_content m)
                           (get_ds (k_st k) CORE_DS) (k_known k) (b_w _ Hb CORE_DS) ltac:(cbn; lia) (b_kn _ Hb CORE_DS)
                           (b_last _ Hb)) as Hpl.
  destruct (cbatch (cf_eq fl) (cf_dup fl) (s_clock (tick (k_st k))) [{| e_id := meta_uri x; e_c := meta_content m |}]
                   (get_ds (k_st k) CORE_DS) (k_known k)) as [[d' kn'] ni].
  destruct Hs as (Hw' & Hkk & Hdk & Hn & Hni & Hzero & (c' & Hc' & Hcc) & Hother).
  assert (Hparse : meta_parse c' = m /\ exists m0, c' = meta_content m0 /\ m_name m0 = x).
  { destruct Hcc as [->|[Hold Heq]].
    - split; [apply meta_parse_content | exists m; split; [reflexivity | exact Hname]].
    - destruct (b_core _ Hb _ _ Hold) as [m0 [Hid ->]]. apply meta_sound in Heq. subst m0.
      split; [apply meta_parse_content | exists m; split; [reflexivity | exact Hname]]. }
  destruct Hparse as [Hparse [m0 [Hm0 Hm0n]]].
  assert (Hcore : core {| k_st := set_ds (tick (k_st k)) CORE_DS d'; k_reg := k_reg k; k_next := k_next k; k_known := kn' |} = d').
  { unfold core. cbn [k_st]. apply get_set_same. }
  assert (Hoth : forall c, c <> CORE_DS ->
            get_ds (k_st {| k_st := set_ds (tick (k_st k)) CORE_DS d'; k_reg := k_reg k; k_next := k_next k; k_known := kn' |}) c
            = get_ds (k_st k) c).
  { intros c Hc. cbn [k_st]. rewrite get_set_other by exact Hc. apply get_tick. }
  split; [|split; [reflexivity|split; [reflexivity|split; [exact Hoth|split; [|split; [|split; [|split]]]]]]].
  - constructor.
    + intros c. cbn [k_st]. destruct (Z.eq_dec c CORE_DS) as [->|Hc].
      * rewrite get_set_same. exact Hw'.
      * rewrite get_set_other by exact Hc. rewrite get_tick.
        eapply winv_mono; [|exact (b_w _ Hb c)]. cbn. lia.
    + intros c. cbn [k_st k_known]. destruct (Z.eq_dec c CORE_DS) as [->|Hc].
      * rewrite get_set_same. exact Hdk.
      * rewrite get_set_other by exact Hc. rewrite get_tick. intros y Hy. apply Hkk. now apply (b_kn _ Hb c).
    + intros id c. rewrite Hcore. destruct (Z.eq_dec id (meta_uri x)) as [->|Hid].
      * rewrite Hc'. intros [= <-]. exists m0. split; [now rewrite Hm0n | exact Hm0].
      * rewrite (Hother id Hid). apply (b_core _ Hb).
    + rewrite Hcore. exact Hpl.
  - unfold read_meta. fold (core {| k_st := set_ds (tick (k_st k)) CORE_DS d'; k_reg := k_reg k; k_next := k_next k; k_known := kn' |}).
    rewrite Hcore, Hc'. cbn. now rewrite Hparse.
  - intros n' Hn'. unfold read_meta.
    fold (core {| k_st := set_ds (tick (k_st k)) CORE_DS d'; k_reg := k_reg k; k_next := k_next k; k_known := kn' |}).
    rewrite Hcore. rewrite Hother; [reflexivity|]. intros H. apply Hn'. now apply meta_uri_inj.
  - rewrite Hcore. exact Hn.
  - exact Hni.
  - intros Hr. apply Hzero. unfold read_meta in Hr.
    destruct (stored_latest (get_ds (k_st k) CORE_DS) (meta_uri x)); [discriminate | now cbn in Hr].
Qed.

(** ** the registry *)
Lemma assoc_reg_del_same n reg : assoc n (reg_del n reg) = None.
Proof.
  unfold reg_del. induction reg as [|[n' r] reg IH]; cbn [filter fst]; [reflexivity|].
  destruct (Z.eqb_spec n' n) as [->|Hne]; cbn [negb]; [exact IH|].
  cbn [assoc]. replace (Z.eqb n n') with false by (symmetry; apply Z.eqb_neq; congruence). exact IH.
Qed.

Lemma assoc_reg_del_other n n' reg : n' <> n -> assoc n' (reg_del n reg) = assoc n' reg.
Proof.
  intros Hne. unfold reg_del. induction reg as [|[n'' r] reg IH]; cbn [filter fst]; [reflexivity|].
  destruct (Z.eqb_spec n'' n) as [->|Hne']; cbn [negb assoc].
  - replace (Z.eqb n' n) with false by (symmetry; now apply Z.eqb_neq). exact IH.
  - destruct (Z.eqb n' n''); [reflexivity | exact IH].
Qed.

Lemma assoc_reg_set n r reg n' :
  assoc n' (reg_set n r reg) = if Z.eqb n' n then Some r else assoc n' reg.
Proof.
  unfold reg_set. cbn [assoc]. destruct (Z.eqb_spec n' n) as [->|Hne]; [reflexivity|].
  now apply assoc_reg_del_other.
Qed.

Definition rec_pub (r : dsrec) (p : option Z) : dsrec :=
  {| r_code := r_code r; r_set := {| s_kind := s_kind (r_set r); s_pub := p |} |}.

Lemma assoc_set_rec_pub n p reg n' :
  assoc n' (set_rec_pub n p reg) = if Z.eqb n' n then option_map (fun r => rec_pub r p) (assoc n reg) else assoc n' reg.
Proof.
  unfold set_rec_pub. destruct (assoc n reg) as [r|] eqn:Ea.
  - rewrite assoc_reg_set. destruct (Z.eqb n' n); reflexivity.
  - destruct (Z.eqb_spec n' n) as [->|Hne]; [now rewrite Ea | reflexivity].
Qed.

Lemma writeback_fixed fl via m reg :
  cf_txn_pub fl = true -> cf_rm_pub fl = true ->
  writeback fl via m reg = set_rec_pub (m_name m) (s_pub (m_set m)) reg.
Proof.
  intros Ht Hr. unfold writeback. rewrite Ht, Hr. cbn [negb]. rewrite andb_false_r.
  destruct (s_pub (m_set m)); reflexivity.
Qed.

Lemma binv_with_reg k reg : binv k -> binv (with_reg k reg).
Proof. intros [H1 H2 H3 H4]. constructor; assumption. Qed.

Lemma read_meta_with_reg k reg n : read_meta (with_reg k reg) n = read_meta k n.
Proof. reflexivity. Qed.

(** ** one complete write of a meta entity *)
Definition same_but_items (a b : meta) : Prop := m_name a = m_name b /\ m_set a = m_set b /\ m_del a = m_del b.
Definition citems (k : cat) : Prop :=
  forall mc, read_meta k CORE_NAME = Some mc -> m_items mc = ndistinct (dids (core k)).
Definition opt_same (a b : option meta) : Prop :=
  match a, b with Some x, Some y => same_but_items x y | None, None => True | _, _ => False end.

Lemma opt_same_refl a : opt_same a a.
Proof. destruct a; cbn; [repeat split | exact I]. Qed.

Lemma core_store_spec fl via k x m :
  cf_txn_pub fl = true -> cf_rm_pub fl = true -> binv k -> m_name m = x ->
  (cf_count_core fl = true ->
   (x = CORE_NAME -> m_items m = ndistinct (dids (core k)))
   /\ (x <> CORE_NAME -> citems k /\ read_meta k CORE_NAME <> None)) ->
  let k' := core_store fl via k (meta_uri x) m in
  binv k' /\ k_reg k' = set_rec_pub x (s_pub (m_set m)) (k_reg k) /\ k_next k' = k_next k
  /\ (forall c, c <> CORE_DS -> get_ds (k_st k') c = get_ds (k_st k) c)
  /\ (exists m', read_meta k' x = Some m' /\ same_but_items m' m /\ (x <> CORE_NAME -> m_items m' = m_items m))
  /\ (forall n', n' <> x -> n' <> CORE_NAME -> read_meta k' n' = read_meta k n')
  /\ (x <> CORE_NAME -> opt_same (read_meta k' CORE_NAME) (read_meta k CORE_NAME))
  /\ (cf_count_core fl = true -> citems k').
Proof.
  intros Htp Hrp Hb Hname Hpre. unfold core_store.
  pose proof (core_write_spec fl k x m Hb Hname) as H1.
  destruct (core_write fl k (meta_uri x) m) as [k1 ni].
  destruct H1 as (Hb1 & Hreg1 & Hnext1 & Hoth1 & Hx1 & Hn1 & Hd1 & Hni1 & _).
  rewrite writeback_fixed by assumption. rewrite Hname, Hreg1.
  set (k2 := with_reg k1 (set_rec_pub x (s_pub (m_set m)) (k_reg k))).
  assert (Hb2 : binv k2) by (now apply binv_with_reg).
  assert (Hrm2 : forall n, read_meta k2 n = read_meta k1 n) by reflexivity.
  assert (Hcore2 : core k2 = core k1) by reflexivity.
  assert (Hget2 : forall c, get_ds (k_st k2) c = get_ds (k_st k1) c) by reflexivity.
  assert (Hreg2 : k_reg k2 = set_rec_pub x (s_pub (m_set m)) (k_reg k)) by reflexivity.
  assert (Hnext2 : k_next k2 = k_next k1) by reflexivity.
  clearbody k2.
  destruct (cf_count_core fl && (0 <? ni)) eqn:Ebump.
  - (* the counter branch runs for core.Dataset as well *)
    apply andb_true_iff in Ebump. destruct Ebump as [Hcc Hpos]. apply Z.ltb_lt in Hpos.
    specialize (Hpre Hcc). destruct Hpre as [HpreC HpreN].
    destruct (Z.eq_dec x CORE_NAME) as [Hx|Hx].
    + (* the written entity is core.Dataset's own meta entity *)
      subst x. rewrite Hx in *. rewrite Hrm2, Hx1.
      pose proof (core_write_spec fl k2 CORE_NAME (with_items m (m_items m + ni)) Hb2 Hx) as H2.
      destruct (core_write fl k2 (meta_uri CORE_NAME) (with_items m (m_items m + ni))) as [k3 ni2]. cbn [fst].
      destruct H2 as (Hb3 & Hreg3 & Hnext3 & Hoth3 & Hx3 & Hn3 & Hd3 & Hni3 & Hz3).
      assert (ni2 = 0) by (apply Hz3; rewrite Hrm2, Hx1; discriminate). subst ni2.
      split; [exact Hb3|]. split; [rewrite Hreg3; exact Hreg2|]. split; [rewrite Hnext3, Hnext2; exact Hnext1|].
      split; [intros c Hc; rewrite (Hoth3 c Hc), Hget2; now apply Hoth1|].
      split; [exists (with_items m (m_items m + ni)); split; [exact Hx3 | split; [repeat split | congruence]]|].
      split; [intros n' Hn' _; rewrite (Hn3 n' Hn'), Hrm2; now apply Hn1|].
      split; [congruence|].
      intros _ mc Hmc. rewrite Hx3 in Hmc. injection Hmc as <-. cbn [with_items m_items].
      rewrite Hd3, Hcore2, Hd1, (HpreC eq_refl). lia.
    + destruct (HpreN Hx) as [Hci Hlive].
      rewrite Hrm2, (Hn1 CORE_NAME) by congruence.
      destruct (read_meta k CORE_NAME) as [mc|] eqn:Emc; [|congruence].
      assert (Hcn : m_name mc = CORE_NAME).
      { apply read_meta_Some in Emc. destruct Emc as [c [Hc <-]]. destruct (b_core _ Hb _ _ Hc) as [m0 [Hid ->]].
        rewrite meta_parse_content. apply meta_uri_inj in Hid. congruence. }
      pose proof (core_write_spec fl k2 CORE_NAME (with_items mc (m_items mc + ni)) Hb2 Hcn) as H2.
      destruct (core_write fl k2 (meta_uri CORE_NAME) (with_items mc (m_items mc + ni))) as [k3 ni2]. cbn [fst].
      destruct H2 as (Hb3 & Hreg3 & Hnext3 & Hoth3 & Hx3 & Hn3 & Hd3 & Hni3 & Hz3).
      assert (ni2 = 0).
      { apply Hz3. rewrite Hrm2, (Hn1 CORE_NAME) by congruence. rewrite Emc. discriminate. }
      subst ni2.
      split; [exact Hb3|]. split; [rewrite Hreg3; exact Hreg2|]. split; [rewrite Hnext3, Hnext2; exact Hnext1|].
      split; [intros c Hc; rewrite (Hoth3 c Hc), Hget2; now apply Hoth1|].
      split; [exists m; split; [rewrite (Hn3 x Hx), Hrm2; exact Hx1 | split; [repeat split | reflexivity]]|].
      split; [intros n' Hn' Hn'c; rewrite (Hn3 n' Hn'c), Hrm2; now apply Hn1|].
      split; [intros _; rewrite Hx3; cbn; repeat split|].
      intros _ mc' Hmc'. rewrite Hx3 in Hmc'. injection Hmc' as <-. cbn [with_items m_items].
      rewrite Hd3, Hcore2, Hd1, (Hci mc Emc). lia.
  - (* no counter update for core.Dataset *)
    split; [exact Hb2|]. split; [exact Hreg2|]. split; [rewrite Hnext2; exact Hnext1|].
    split; [intros c Hc; rewrite Hget2; now apply Hoth1|].
    split; [exists m; split; [rewrite Hrm2; exact Hx1 | split; [repeat split | reflexivity]]|].
    split; [intros n' Hn' _; rewrite Hrm2; now apply Hn1|].
    split; [intros Hx; rewrite Hrm2, (Hn1 CORE_NAME) by congruence; apply opt_same_refl|].
    intros Hcc. rewrite Hcc in Ebump. cbn [andb] in Ebump. apply Z.ltb_ge in Ebump.
    assert (ni = 0) by lia. subst ni.
    specialize (Hpre Hcc). destruct Hpre as [HpreC HpreN].
    intros mc Hmc. rewrite Hrm2 in Hmc. rewrite Hcore2, Hd1, Z.add_0_r.
    destruct (Z.eq_dec x CORE_NAME) as [Hx|Hx].
    + subst x. rewrite Hx in *. rewrite Hx1 in Hmc. injection Hmc as <-. now apply HpreC.
    + rewrite (Hn1 CORE_NAME) in Hmc by congruence. destruct (HpreN Hx) as [Hci _]. now apply Hci.
Qed.

(** ** the catalogue invariant *)
Record rinv (k : cat) : Prop := {
  r_codes : forall n r, assoc n (k_reg k) = Some r -> 1 <= r_code r < k_next k;
  r_inj : forall n n' r r', assoc n (k_reg k) = Some r -> assoc n' (k_reg k) = Some r' -> r_code r = r_code r' -> n = n';
  r_core : exists r, assoc CORE_NAME (k_reg k) = Some r /\ r_code r = CORE_DS;
  r_fresh : forall c, k_next k <= c -> dids (get_ds (k_st k) c) = []
}.

(** what C19 says about one name; [debt n] = new items of [n] already stored but not yet added to its counter
    (non-zero only between the commit of a transaction and its updateDataset calls) *)
Definition clause (debt : Z -> Z) (k : cat) (n : Z) : Prop :=
  match assoc n (k_reg k) with
  | Some r => exists m, read_meta k n = Some m /\ m_name m = n /\ m_set m = r_set r /\ m_del m = false
                        /\ (n <> CORE_NAME -> m_items m + debt n = ndistinct (dids (get_ds (k_st k) (r_code r))))
  | None => match read_meta k n with None => True | Some m => m_del m = true end
  end.

Lemma rinv_code_not_core k n r : rinv k -> assoc n (k_reg k) = Some r -> n <> CORE_NAME -> r_code r <> CORE_DS.
Proof.
  intros Hr Ha Hn Hc. destruct (r_core _ Hr) as [rc [Hrc Hcc]].
  apply Hn. apply (r_inj _ Hr n CORE_NAME r rc Ha Hrc). congruence.
Qed.

Lemma store_meta_inv (P : Z -> Prop) fl via debt k x m :
  cf_txn_pub fl = true -> cf_rm_pub fl = true -> binv k -> rinv k -> m_name m = x ->
  (P CORE_NAME \/ x = CORE_NAME) ->
  (forall n, n <> x -> P n -> clause debt k n) ->
  (cf_count_core fl = true -> citems k) ->
  match assoc x (k_reg k) with
  | Some r => s_kind (m_set m) = s_kind (r_set r) /\ m_del m = false
              /\ (x <> CORE_NAME -> m_items m + debt x = ndistinct (dids (get_ds (k_st k) (r_code r))))
              /\ (x = CORE_NAME -> cf_count_core fl = true -> m_items m = ndistinct (dids (core k)))
  | None => m_del m = true
  end ->
  let k' := core_store fl via k (meta_uri x) m in
  binv k' /\ rinv k' /\ (forall n, n = x \/ P n -> clause debt k' n) /\ (cf_count_core fl = true -> citems k')
  /\ k_next k' = k_next k /\ (forall c, c <> CORE_DS -> get_ds (k_st k') c = get_ds (k_st k) c)
  /\ k_reg k' = set_rec_pub x (s_pub (m_set m)) (k_reg k).
Proof.
  intros Htp Hrp Hb Hr Hname HPc Hcl Hci Hx.
  destruct (r_core _ Hr) as [rc [Hrc Hrcc]].
  assert (Hpre : cf_count_core fl = true ->
                 (x = CORE_NAME -> m_items m = ndistinct (dids (core k)))
                 /\ (x <> CORE_NAME -> citems k /\ read_meta k CORE_NAME <> None)).
  { intros Hcc. split.
    - intros ->. rewrite Hrc in Hx. now apply Hx.
    - intros Hne. split; [now apply Hci|]. destruct HPc as [HPc|]; [|congruence].
      specialize (Hcl CORE_NAME ltac:(congruence) HPc). unfold clause in Hcl. rewrite Hrc in Hcl.
      destruct Hcl as [mc [-> _]]. discriminate. }
  pose proof (core_store_spec fl via k x m Htp Hrp Hb Hname Hpre) as Hs. cbv zeta in Hs |- *.
  set (k' := core_store fl via k (meta_uri x) m) in *. clearbody k'.
  destruct Hs as (Hb' & Hreg' & Hnext' & Hoth' & (m' & Hm' & (Hs1 & Hs2 & Hs3) & Hs4) & Hn' & Hcore' & Hci').
  split; [exact Hb'|]. split; [|split; [|split; [exact Hci'|split; [exact Hnext'|split; [exact Hoth'|exact Hreg']]]]].
  - (* registry invariants: codes are untouched *)
    assert (Hcode : forall n, option_map r_code (assoc n (k_reg k')) = option_map r_code (assoc n (k_reg k))).
    { intros n. rewrite Hreg', assoc_set_rec_pub. destruct (Z.eqb_spec n x) as [->|]; [|reflexivity].
      destruct (assoc x (k_reg k)); reflexivity. }
    assert (Hlook : forall n r, assoc n (k_reg k') = Some r -> exists r0, assoc n (k_reg k) = Some r0 /\ r_code r0 = r_code r).
    { intros n r Ha. specialize (Hcode n). rewrite Ha in Hcode. destruct (assoc n (k_reg k)) as [r0|]; [|discriminate].
      exists r0. split; [reflexivity|]. cbn in Hcode. congruence. }
    constructor.
    + intros n r Ha. destruct (Hlook n r Ha) as [r0 [Ha0 <-]]. rewrite Hnext'. now apply (r_codes _ Hr n).
    + intros n n2 r r2 Ha Ha2 Hc. destruct (Hlook n r Ha) as [r0 [Ha0 Hc0]]. destruct (Hlook n2 r2 Ha2) as [r02 [Ha02 Hc02]].
      apply (r_inj _ Hr n n2 r0 r02 Ha0 Ha02). congruence.
    + specialize (Hcode CORE_NAME). rewrite Hrc in Hcode. destruct (assoc CORE_NAME (k_reg k')) as [r|]; [|discriminate].
      exists r. split; [reflexivity|]. cbn in Hcode. congruence.
    + intros c Hc. rewrite Hnext' in Hc. rewrite Hoth'; [now apply (r_fresh _ Hr)|].
      pose proof (r_codes _ Hr _ _ Hrc). lia.
  - intros n Hn. unfold clause. rewrite Hreg', assoc_set_rec_pub.
    destruct (Z.eqb_spec n x) as [->|Hne].
    + (* the name whose meta entity was written *)
      destruct (assoc x (k_reg k)) as [r|] eqn:Ea; cbn [option_map].
      * destruct Hx as (Hk & Hd & Hit & _). exists m'. split; [exact Hm'|]. split; [congruence|]. split.
        -- rewrite Hs2. cbn [rec_pub r_set]. destruct (m_set m) as [kd pb]. cbn in *. now rewrite Hk.
        -- split; [congruence|]. intros Hxc. cbn [rec_pub r_code]. rewrite (Hs4 Hxc), (Hit Hxc).
           rewrite Hoth'; [reflexivity|]. eapply rinv_code_not_core; eassumption.
      * rewrite Hm'. congruence.
    + destruct Hn as [|HP]; [congruence|]. specialize (Hcl n Hne HP). unfold clause in Hcl.
      destruct (Z.eq_dec n CORE_NAME) as [->|Hnc].
      * rewrite Hrc in *. destruct Hcl as (mc & Hmc & Hc1 & Hc2 & Hc3 & _).
        specialize (Hcore' ltac:(congruence)). rewrite Hmc in Hcore'. unfold opt_same in Hcore'.
        destruct (read_meta k' CORE_NAME) as [mc'|]; [|contradiction]. destruct Hcore' as (He1 & He2 & He3).
        exists mc'. split; [reflexivity|]. split; [congruence|]. split; [congruence|]. split; [congruence|]. congruence.
      * rewrite (Hn' n Hne Hnc). destruct (assoc n (k_reg k)) as [r|] eqn:Ea; [|exact Hcl].
        destruct Hcl as (m0 & H1 & H2 & H3 & H4 & H5). exists m0. repeat (split; [assumption|]).
        intros _. rewrite Hoth'; [now apply H5|]. eapply rinv_code_not_core; eassumption.
Qed.

Record cinv (fl : cflags) (debt : Z -> Z) (k : cat) : Prop := {
  ci_b : binv k;
  ci_r : rinv k;
  ci_m : forall n, clause debt k n;
  ci_c : cf_count_core fl = true -> citems k
}.
Definition zero : Z -> Z := fun _ => 0.

Lemma clause_ext debt debt' k n : (n <> CORE_NAME -> assoc n (k_reg k) <> None -> debt n = debt' n) -> clause debt k n -> clause debt' k n.
Proof.
  intros He Hm. unfold clause in *. destruct (assoc n (k_reg k)) as [r|]; [|exact Hm].
  destruct Hm as (m & H1 & H2 & H3 & H4 & H5). exists m. repeat (split; [assumption|]).
  intros Hn. rewrite <- He; [now apply H5 | exact Hn | discriminate].
Qed.

Lemma cinv_ext fl debt debt' k :
  (forall n, n <> CORE_NAME -> assoc n (k_reg k) <> None -> debt n = debt' n) -> cinv fl debt k -> cinv fl debt' k.
Proof.
  intros He [Hb Hr Hm Hc]. constructor; try assumption.
  intros n. apply (clause_ext debt); [apply He | apply Hm].
Qed.

(** ** create (also NewDsManager's creation of core.Dataset) *)
Lemma create_k1 fl k1 n s code :
  cf_txn_pub fl = true -> cf_rm_pub fl = true -> binv k1 -> rinv k1 ->
  assoc n (k_reg k1) = Some {| r_code := code; r_set := s |} ->
  dids (get_ds (k_st k1) code) = [] -> (n = CORE_NAME -> dids (core k1) = []) ->
  (forall n', n' <> n -> clause zero k1 n') -> (cf_count_core fl = true -> citems k1) ->
  cinv fl zero (core_store fl false k1 (meta_uri n) (fresh_meta n s)).
Proof.
  intros Htp Hrp Hb Hr Ha Hempty Hcore Hcl Hci.
  pose proof (store_meta_inv (fun _ => True) fl false zero k1 n (fresh_meta n s) Htp Hrp Hb Hr eq_refl (or_introl I)
                             (fun n' Hn' _ => Hcl n' Hn') Hci) as H.
  rewrite Ha in H. cbn [fresh_meta m_set m_del m_items r_set r_code] in H.
  destruct H as (H1 & H2 & H3 & H4 & _).
  - split; [reflexivity|]. split; [reflexivity|]. split.
    + intros _. rewrite Hempty. reflexivity.
    + intros Hn _. rewrite (Hcore Hn). reflexivity.
  - constructor; try assumption. intros n'. apply H3. now right.
Qed.

Lemma get_ds_store0 c : get_ds store0 c = dstate0.
Proof. reflexivity. Qed.

Lemma cinv_init fl : cf_txn_pub fl = true -> cf_rm_pub fl = true -> cinv fl zero (cat_init fl).
Proof.
  intros Htp Hrp. unfold cat_init, do_create. cbn [cat0 k_reg assoc k_next k_st k_known].
  set (k1 := {| k_st := store0; k_reg := reg_set CORE_NAME {| r_code := 1; r_set := plain |} []; k_next := 1 + 1; k_known := [] |}).
  assert (Hreg : forall n, assoc n (k_reg k1) = if Z.eqb n CORE_NAME then Some {| r_code := 1; r_set := plain |} else None).
  { intros n. unfold k1. cbn [k_reg]. rewrite assoc_reg_set. reflexivity. }
  apply (create_k1 fl k1 CORE_NAME plain 1 Htp Hrp).
  - constructor.
    + intros c. apply winv0.
    + intros c x Hx. destruct Hx.
    + intros id c H. discriminate.
    + intros i. reflexivity.
  - constructor.
    + intros n r. rewrite Hreg. destruct (Z.eqb n CORE_NAME); [|discriminate]. intros [= <-]. cbn. lia.
    + intros n n' r r'. rewrite !Hreg. destruct (Z.eqb_spec n CORE_NAME), (Z.eqb_spec n' CORE_NAME); try discriminate. congruence.
    + exists {| r_code := 1; r_set := plain |}. rewrite Hreg. split; reflexivity.
    + intros c _. reflexivity.
  - rewrite Hreg. reflexivity.
  - reflexivity.
  - reflexivity.
  - intros n' Hn'. unfold clause. rewrite Hreg. replace (Z.eqb n' CORE_NAME) with false by (symmetry; now apply Z.eqb_neq).
    reflexivity.
  - intros _ mc H. discriminate.
Qed.

Lemma do_create_inv fl k n s :
  cf_txn_pub fl = true -> cf_rm_pub fl = true -> cinv fl zero k -> cinv fl zero (do_create fl k n s).
Proof.
  intros Htp Hrp Hi. unfold do_create. destruct (assoc n (k_reg k)) as [r|] eqn:Ea; [exact Hi|].
  destruct Hi as [Hb Hr Hm Hc].
  destruct (r_core _ Hr) as [rc [Hrc Hrcc]].
  assert (Hnc : n <> CORE_NAME) by congruence.
  set (k1 := {| k_st := k_st k; k_reg := reg_set n {| r_code := k_next k; r_set := s |} (k_reg k);
                k_next := k_next k + 1; k_known := k_known k |}).
  assert (Hreg : forall n', assoc n' (k_reg k1) = if Z.eqb n' n then Some {| r_code := k_next k; r_set := s |} else assoc n' (k_reg k)).
  { intros n'. unfold k1. cbn [k_reg]. apply assoc_reg_set. }
  pose proof (r_codes _ Hr _ _ Hrc) as Hcr.
  apply (create_k1 fl k1 n s (k_next k) Htp Hrp).
  - destruct Hb as [H1 H2 H3 H4]. constructor; assumption.
  - constructor.
    + intros n' r. rewrite Hreg. destruct (Z.eqb n' n).
      * intros [= <-]. cbn. lia.
      * intros Ha'. pose proof (r_codes _ Hr _ _ Ha'). cbn. lia.
    + intros n1 n2 r1 r2. rewrite !Hreg.
      destruct (Z.eqb_spec n1 n), (Z.eqb_spec n2 n); try congruence.
      * intros [= <-] Ha2 Hcd. pose proof (r_codes _ Hr _ _ Ha2). cbn in Hcd. lia.
      * intros Ha1 [= <-] Hcd. pose proof (r_codes _ Hr _ _ Ha1). cbn in Hcd. lia.
      * apply (r_inj _ Hr).
    + exists rc. rewrite Hreg. replace (Z.eqb CORE_NAME n) with false by (symmetry; apply Z.eqb_neq; congruence). now split.
    + intros c Hcge. apply (r_fresh _ Hr). cbn in Hcge. lia.
  - rewrite Hreg, Z.eqb_refl. reflexivity.
  - apply (r_fresh _ Hr). lia.
  - congruence.
  - intros n' Hn'. specialize (Hm n'). unfold clause in *. rewrite Hreg.
    replace (Z.eqb n' n) with false by (symmetry; now apply Z.eqb_neq). exact Hm.
  - exact Hc.
Qed.

Lemma meta_eta m : {| m_name := m_name m; m_set := m_set m; m_items := m_items m; m_del := m_del m |} = m.
Proof. destruct m; reflexivity. Qed.

(** registry invariants survive dropping / moving names as long as codes are kept *)
Lemma rinv_sub k k1 :
  rinv k -> k_st k1 = k_st k -> k_next k1 = k_next k ->
  (forall n r, assoc n (k_reg k1) = Some r -> exists n0, assoc n0 (k_reg k) = Some r) ->
  (forall n n' r r', assoc n (k_reg k1) = Some r -> assoc n' (k_reg k1) = Some r' -> r_code r = r_code r' -> n = n') ->
  assoc CORE_NAME (k_reg k1) = assoc CORE_NAME (k_reg k) ->
  rinv k1.
Proof.
  intros Hr Hst Hnext Hsub Hinj Hcore. constructor.
  - intros n r Ha. destruct (Hsub n r Ha) as [n0 Ha0]. rewrite Hnext. now apply (r_codes _ Hr n0).
  - exact Hinj.
  - rewrite Hcore. apply (r_core _ Hr).
  - intros c Hc. rewrite Hst. apply (r_fresh _ Hr). now rewrite <- Hnext.
Qed.

Lemma do_delete_inv fl k n :
  cf_txn_pub fl = true -> cf_rm_pub fl = true -> cinv fl zero k -> cinv fl zero (do_delete fl k n).
Proof.
  intros Htp Hrp Hi. unfold do_delete.
  destruct (Z.eqb_spec n CORE_NAME) as [|Hnc]; [exact Hi|].
  destruct (assoc n (k_reg k)) as [r|] eqn:Ea; [|exact Hi].
  destruct Hi as [Hb Hr Hm Hc].
  set (k1 := with_reg k (reg_del n (k_reg k))).
  assert (Hreg : forall n', assoc n' (k_reg k1) = if Z.eqb n' n then None else assoc n' (k_reg k)).
  { intros n'. unfold k1. cbn [with_reg k_reg]. destruct (Z.eqb_spec n' n) as [->|Hne].
    - apply assoc_reg_del_same. - now apply assoc_reg_del_other. }
  assert (Hb1 : binv k1) by now apply binv_with_reg.
  assert (Hr1 : rinv k1).
  { apply (rinv_sub k); try reflexivity; try assumption.
    - intros n' r'. rewrite Hreg. destruct (Z.eqb n' n); [discriminate|]. intros H. now exists n'.
    - intros n1 n2 r1 r2. rewrite !Hreg. destruct (Z.eqb n1 n), (Z.eqb n2 n); try discriminate. apply (r_inj _ Hr).
    - rewrite Hreg. replace (Z.eqb CORE_NAME n) with false by (symmetry; apply Z.eqb_neq; congruence). reflexivity. }
  pose proof (Hm n) as Hmn. unfold clause in Hmn. rewrite Ea in Hmn. destruct Hmn as (m0 & Hm0 & Hn0 & Hs0 & Hd0 & Hi0).
  change (read_meta k1 n) with (read_meta k n). rewrite Hm0.
  pose proof (store_meta_inv (fun _ => True) fl false zero k1 n (with_del m0 true) Htp Hrp Hb1 Hr1 Hn0 (or_introl I)) as H.
  rewrite Hreg, Z.eqb_refl in H.
  destruct H as (H1 & H2 & H3 & H4 & _).
  - intros n' Hn' _. specialize (Hm n'). unfold clause in *. rewrite Hreg.
    replace (Z.eqb n' n) with false by (symmetry; now apply Z.eqb_neq). exact Hm.
  - exact Hc.
  - reflexivity.
  - constructor; try assumption. intros n'. apply H3. now right.
Qed.

Lemma do_setpub_inv fl k n p via :
  cf_txn_pub fl = true -> cf_rm_pub fl = true -> cinv fl zero k -> cinv fl zero (do_setpub fl k n p via).
Proof.
  intros Htp Hrp Hi. unfold do_setpub.
  destruct (assoc n (k_reg k)) as [r|] eqn:Ea; [|exact Hi].
  destruct Hi as [Hb Hr Hm Hc].
  pose proof (Hm n) as Hmn. unfold clause in Hmn. rewrite Ea in Hmn. destruct Hmn as (m0 & Hm0 & Hn0 & Hs0 & Hd0 & Hi0).
  rewrite Hm0.
  pose proof (store_meta_inv (fun _ => True) fl via zero k n (with_pub m0 p) Htp Hrp Hb Hr Hn0 (or_introl I)
                             (fun n' _ _ => Hm n') Hc) as H.
  rewrite Ea in H.
  destruct H as (H1 & H2 & H3 & H4 & _).
  - cbn [with_pub m_set s_kind m_del m_items]. split; [now rewrite Hs0|]. split; [exact Hd0|]. split; [exact Hi0|].
    intros Hn Hcc. subst n. rewrite Hn in *. now apply (Hc Hcc).
  - constructor; try assumption. intros n'. apply H3. now right.
Qed.

Lemma do_rename_inv fl k n n' :
  cf_txn_pub fl = true -> cf_rm_pub fl = true -> cinv fl zero k -> cinv fl zero (do_rename fl k n n').
Proof.
  intros Htp Hrp Hi. unfold do_rename.
  destruct (Z.eqb_spec n CORE_NAME) as [|Hnc]; [exact Hi|].
  destruct (assoc n (k_reg k)) as [r|] eqn:Ea; [|exact Hi].
  destruct (Z.eqb_spec n' n) as [|Hne]; [exact Hi|].
  destruct (assoc n' (k_reg k)) as [r'|] eqn:Ea'; [exact Hi|].
  destruct Hi as [Hb Hr Hm Hc].
  destruct (r_core _ Hr) as [rc [Hrc Hrcc]].
  assert (Hnc' : n' <> CORE_NAME) by congruence.
  set (k1 := with_reg k (reg_set n' r (reg_del n (k_reg k)))).
  assert (Hreg : forall x, assoc x (k_reg k1) = if Z.eqb x n' then Some r else if Z.eqb x n then None else assoc x (k_reg k)).
  { intros x. unfold k1. cbn [with_reg k_reg]. rewrite assoc_reg_set. destruct (Z.eqb x n'); [reflexivity|].
    destruct (Z.eqb_spec x n) as [->|Hx]; [apply assoc_reg_del_same | now apply assoc_reg_del_other]. }
  assert (Hb1 : binv k1) by now apply binv_with_reg.
  assert (Hr1 : rinv k1).
  { apply (rinv_sub k); try reflexivity; try assumption.
    - intros x rx. rewrite Hreg. destruct (Z.eqb x n'); [intros [= <-]; now exists n|].
      destruct (Z.eqb x n); [discriminate|]. intros H. now exists x.
    - intros x1 x2 r1 r2. rewrite !Hreg.
      destruct (Z.eqb_spec x1 n') as [E1|E1], (Z.eqb_spec x2 n') as [E2|E2]; try congruence.
      + intros [= <-]. destruct (Z.eqb_spec x2 n) as [|Hxn]; [discriminate|]. intros H2 Hcd.
        exfalso. apply Hxn. apply (r_inj _ Hr x2 n r2 r H2 Ea). congruence.
      + destruct (Z.eqb_spec x1 n) as [|Hxn]; [discriminate|]. intros H1 [= <-] Hcd.
        exfalso. apply Hxn. apply (r_inj _ Hr x1 n r1 r H1 Ea). congruence.
      + destruct (Z.eqb x1 n), (Z.eqb x2 n); try discriminate. apply (r_inj _ Hr).
    - rewrite Hreg. replace (Z.eqb CORE_NAME n') with false by (symmetry; apply Z.eqb_neq; congruence).
      replace (Z.eqb CORE_NAME n) with false by (symmetry; apply Z.eqb_neq; congruence). reflexivity. }
  pose proof (Hm n) as Hmn. unfold clause in Hmn. rewrite Ea in Hmn. destruct Hmn as (m0 & Hm0 & Hn0 & Hs0 & Hd0 & Hi0).
  change (read_meta k1 n) with (read_meta k n). rewrite Hm0.
  (* first write: the old name's meta entity, deleted *)
  pose proof (store_meta_inv (fun x => x <> n') fl false zero k1 n (with_del m0 true) Htp Hrp Hb1 Hr1 Hn0
                             (or_introl (fun E : CORE_NAME = n' => Hnc' (eq_sym E)))) as H.
  rewrite Hreg in H. replace (Z.eqb n n') with false in H by (symmetry; apply Z.eqb_neq; congruence).
  rewrite Z.eqb_refl in H.
  destruct H as (Hb2 & Hr2 & Hm2 & Hc2 & Hnext2 & Hoth2 & Hreg2).
  - intros x Hx Hx'. specialize (Hm x). unfold clause in *. rewrite Hreg.
    replace (Z.eqb x n') with false by (symmetry; now apply Z.eqb_neq).
    replace (Z.eqb x n) with false by (symmetry; now apply Z.eqb_neq). exact Hm.
  - exact Hc.
  - reflexivity.
  - set (k2 := core_store fl false k1 (meta_uri n) (with_del m0 true)) in *. clearbody k2.
    assert (Ha2 : assoc n' (k_reg k2) = Some r).
    { rewrite Hreg2, assoc_set_rec_pub. replace (Z.eqb n' n) with false by (symmetry; now apply Z.eqb_neq).
      rewrite Hreg, Z.eqb_refl. reflexivity. }
    (* second write: the same entity, live, under the new name *)
    pose proof (store_meta_inv (fun _ => True) fl false zero k2 n' (with_name (with_del m0 false) n') Htp Hrp Hb2 Hr2 eq_refl
                               (or_introl I)) as H.
    rewrite Ha2 in H.
    destruct H as (Hb3 & Hr3 & Hm3 & Hc3 & _).
    + intros x Hx _. apply Hm2. destruct (Z.eq_dec x n); [now left | now right].
    + exact Hc2.
    + cbn [with_name with_del m_set m_del m_items]. split; [now rewrite Hs0|]. split; [reflexivity|]. split; [|congruence].
      intros _. rewrite Hoth2 by (eapply rinv_code_not_core; [exact Hr | exact Ea | exact Hnc]).
      unfold zero in *. now apply Hi0.
    + constructor; try assumption. intros x. apply Hm3. now right.
Qed.

(** ** writes *)
Definition debt_add (debt : Z -> Z) (n ni : Z) : Z -> Z := fun x => if Z.eqb x n then debt x + ni else debt x.

Lemma read_meta_core_eq k k' n : core k' = core k -> read_meta k' n = read_meta k n.
Proof. intros H. unfold read_meta. fold (core k'). fold (core k). now rewrite H. Qed.

Lemma tick_inv fl debt k : cinv fl debt k -> cinv fl debt (with_st_kn k (tick (k_st k)) (k_known k)).
Proof.
  intros [Hb Hr Hm Hc]. constructor.
  - destruct Hb as [H1 H2 H3 H4]. constructor.
    + intros c. cbn [with_st_kn k_st]. rewrite get_tick. eapply winv_mono; [|apply H1]. cbn. lia.
    + intros c. apply H2.
    + exact H3.
    + exact H4.
  - destruct Hr as [H1 H2 H3 H4]. constructor; assumption.
  - exact Hm.
  - exact Hc.
Qed.

Lemma write_ds_inv fl debt k n r ents :
  cinv fl debt k -> assoc n (k_reg k) = Some r -> n <> CORE_NAME ->
  let '(k', ni) := write_ds fl (s_clock (k_st k)) k (r_code r) ents in
  cinv fl (debt_add debt n ni) k' /\ 0 <= ni /\ k_reg k' = k_reg k /\ s_clock (k_st k') = s_clock (k_st k).
Proof.
  intros [Hb Hr Hm Hc] Ha Hnc. unfold write_ds.
  pose proof (rinv_code_not_core k n r Hr Ha Hnc) as Hcode.
  pose proof (cbatch_spec (cf_eq fl) (cf_dup fl) (s_clock (k_st k)) (s_clock (k_st k)) ents (get_ds (k_st k) (r_code r)) (k_known k)
                          (b_w _ Hb _) ltac:(lia) (b_kn _ Hb _)) as Hs.
  destruct (cbatch (cf_eq fl) (cf_dup fl) (s_clock (k_st k)) ents (get_ds (k_st k) (r_code r)) (k_known k)) as [[d' kn'] ni].
  destruct Hs as (_ & Hw' & Hn' & Hni & Hkk & Hdk & _ & _).
  set (k' := with_st_kn k (set_ds (k_st k) (r_code r) d') kn').
  assert (Hsame : forall c, c <> r_code r -> get_ds (k_st k') c = get_ds (k_st k) c).
  { intros c Hcne. unfold k'. cbn [with_st_kn k_st]. now apply get_set_other. }
  assert (Hown : get_ds (k_st k') (r_code r) = d') by (unfold k'; cbn [with_st_kn k_st]; apply get_set_same).
  assert (Hcore : core k' = core k) by (unfold core; apply Hsame; congruence).
  split; [|split; [exact Hni | split; reflexivity]].
  constructor.
  - constructor.
    + intros c. destruct (Z.eq_dec c (r_code r)) as [->|Hcne]; [rewrite Hown; exact Hw' | rewrite Hsame by exact Hcne; apply (b_w _ Hb)].
    + intros c. unfold k' at 2. cbn [with_st_kn k_known]. destruct (Z.eq_dec c (r_code r)) as [->|Hcne].
      * rewrite Hown. exact Hdk.
      * rewrite Hsame by exact Hcne. intros y Hy. apply Hkk. now apply (b_kn _ Hb c).
    + rewrite Hcore. apply (b_core _ Hb).
    + rewrite Hcore. apply (b_last _ Hb).
  - constructor.
    + apply (r_codes _ Hr).
    + apply (r_inj _ Hr).
    + apply (r_core _ Hr).
    + intros c Hc0. pose proof (r_codes _ Hr _ _ Ha). rewrite Hsame; [now apply (r_fresh _ Hr)|]. cbn in Hc0. lia.
  - intros x. specialize (Hm x). unfold clause in *. cbn [k' with_st_kn k_reg]. rewrite (read_meta_core_eq k k' x Hcore).
    destruct (assoc x (k_reg k)) as [rx|] eqn:Eax; [|exact Hm].
    destruct Hm as (m0 & H1 & H2 & H3 & H4 & H5). exists m0. repeat (split; [assumption|]).
    intros Hxc. unfold debt_add. destruct (Z.eqb_spec x n) as [->|Hxn].
    + assert (rx = r) by congruence. subst rx. rewrite Hown, Hn', <- (H5 Hxc). lia.
    + rewrite Hsame; [now apply H5|]. intros Hcd. apply Hxn. apply (r_inj _ Hr x n rx r Eax Ha Hcd).
  - intros Hcc mc Hmc. rewrite (read_meta_core_eq k k' _ Hcore) in Hmc. rewrite Hcore. now apply (Hc Hcc).
Qed.

Lemma update_dataset_inv fl debt k n ni :
  cf_txn_pub fl = true -> cf_rm_pub fl = true -> cinv fl debt k -> 0 <= ni ->
  cinv fl (debt_add debt n (- ni)) (update_dataset fl k n ni).
Proof.
  intros Htp Hrp Hi Hni. unfold update_dataset.
  destruct (Z.eqb_spec n CORE_NAME) as [Hn|Hnc].
  { apply (cinv_ext fl debt); [|exact Hi]. intros x Hx _. unfold debt_add.
    replace (Z.eqb x n) with false by (symmetry; apply Z.eqb_neq; congruence). reflexivity. }
  destruct (0 <? ni) eqn:Epos.
  2:{ apply Z.ltb_ge in Epos. assert (ni = 0) by lia. subst ni.
      apply (cinv_ext fl debt); [|exact Hi]. intros x _ _. unfold debt_add. destruct (Z.eqb x n); lia. }
  destruct Hi as [Hb Hr Hm Hc].
  pose proof (Hm n) as Hmn. unfold clause in Hmn.
  destruct (read_meta k n) as [m0|] eqn:Em0.
  2:{ destruct (assoc n (k_reg k)) as [r|] eqn:Ea.
      - destruct Hmn as (m & Hx & _). discriminate.
      - apply (cinv_ext fl debt); [|constructor; assumption]. intros x _ Hx. unfold debt_add.
        destruct (Z.eqb_spec x n) as [->|]; [congruence | reflexivity]. }
  assert (Hn0 : m_name m0 = n).
  { apply read_meta_Some in Em0. destruct Em0 as [c [Hcs <-]]. destruct (b_core _ Hb _ _ Hcs) as [mm [Hid ->]].
    rewrite meta_parse_content. apply meta_uri_inj in Hid. congruence. }
  pose proof (store_meta_inv (fun _ => True) fl false (debt_add debt n (- ni)) k n (with_items m0 (m_items m0 + ni))
                             Htp Hrp Hb Hr Hn0 (or_introl I)) as H.
  destruct H as (H1 & H2 & H3 & H4 & _).
  - intros x Hx _. apply (clause_ext debt); [|apply Hm]. intros _ _. unfold debt_add.
    replace (Z.eqb x n) with false by (symmetry; now apply Z.eqb_neq). reflexivity.
  - exact Hc.
  - destruct (assoc n (k_reg k)) as [r|] eqn:Ea.
    + destruct Hmn as (m & Hx & Hnm & Hs & Hd & Hit). injection Hx as <-.
      cbn [with_items m_set m_del m_items]. split; [now rewrite Hs|]. split; [exact Hd|]. split; [|congruence].
      intros Hxc. unfold debt_add. rewrite Z.eqb_refl. specialize (Hit Hxc). lia.
    + exact Hmn.
  - constructor; try assumption. intros x. apply H3. now right.
Qed.

Lemma do_batch_inv fl k n ents :
  cf_txn_pub fl = true -> cf_rm_pub fl = true -> cinv fl zero k -> cinv fl zero (do_batch fl k n ents).
Proof.
  intros Htp Hrp Hi. unfold do_batch.
  destruct (Z.eqb_spec n CORE_NAME) as [|Hnc]; [exact Hi|].
  destruct ents as [|e0 ents0]; [exact Hi|].
  destruct (assoc n (k_reg k)) as [r|] eqn:Ea; [|exact Hi].
  pose proof (tick_inv fl zero k Hi) as Hi1.
  set (k1 := with_st_kn k (tick (k_st k)) (k_known k)) in *.
  pose proof (write_ds_inv fl zero k1 n r (e0 :: ents0) Hi1 Ea Hnc) as Hw.
  destruct (write_ds fl (s_clock (k_st k1)) k1 (r_code r) (e0 :: ents0)) as [k2 ni].
  destruct Hw as (Hi2 & Hni & _ & _).
  apply (cinv_ext fl (debt_add (debt_add zero n ni) n (- ni))).
  - intros x _ _. unfold debt_add, zero. destruct (Z.eqb x n); lia.
  - now apply update_dataset_inv.
Qed.

(** ** transactions: all shares are written at one time, then the counters are updated one by one *)
Definition dsum (counts : list (Z * Z)) (x : Z) : Z :=
  fold_right (fun c acc => (if Z.eqb x (fst c) then snd c else 0) + acc) 0 counts.

Lemma dsum_app l n ni x : dsum (l ++ [(n, ni)]) x = dsum l x + (if Z.eqb x n then ni else 0).
Proof. unfold dsum. induction l as [|c l IH]; cbn [app fold_right fst snd]; [lia | rewrite IH; lia]. Qed.

Definition txn_step (fl : cflags) (t : Z) (a : cat * list (Z * Z)) (p : Z * list ent) : cat * list (Z * Z) :=
  match assoc (fst p) (k_reg (fst a)) with
  | Some r => let '(k', ni) := write_ds fl t (fst a) (r_code r) (snd p) in (k', snd a ++ [(fst p, ni)])
  | None => a
  end.

Lemma txn_phase1 fl t : forall sets k counts,
  cinv fl (dsum counts) k -> s_clock (k_st k) = t ->
  Forall (fun p : Z * list ent => fst p <> CORE_NAME) sets ->
  (forall c, In c counts -> 0 <= snd c) ->
  let '(k2, counts2) := fold_left (txn_step fl t) sets (k, counts) in
  cinv fl (dsum counts2) k2 /\ (forall c, In c counts2 -> 0 <= snd c).
Proof.
  induction sets as [|[n ents] sets IH]; intros k counts Hi Ht Hnc Hpos; cbn [fold_left].
  - split; assumption.
  - pose proof (Forall_inv Hnc) as Hn. pose proof (Forall_inv_tail Hnc) as Hnc'. cbn [fst] in Hn.
    unfold txn_step at 2. cbn [fst snd].
    destruct (assoc n (k_reg k)) as [r|] eqn:Ea; [|now apply IH].
    pose proof (write_ds_inv fl (dsum counts) k n r ents Hi Ea Hn) as Hw. rewrite Ht in Hw.
    destruct (write_ds fl t k (r_code r) ents) as [k' ni].
    destruct Hw as (Hi' & Hni & _ & Hclk).
    apply IH; try assumption.
    + apply (cinv_ext fl (debt_add (dsum counts) n ni)); [|exact Hi'].
      intros x _ _. rewrite dsum_app. unfold debt_add. destruct (Z.eqb x n); lia.
    + intros c Hc. apply in_app_or in Hc. destruct Hc as [Hc|[<-|[]]]; [now apply Hpos | exact Hni].
Qed.

Lemma txn_phase2 fl : cf_txn_pub fl = true -> cf_rm_pub fl = true ->
  forall counts debt k,
  cinv fl (fun x => debt x + dsum counts x) k -> (forall c, In c counts -> 0 <= snd c) ->
  cinv fl debt (fold_left (fun k' (c : Z * Z) => update_dataset fl k' (fst c) (snd c)) counts k).
Proof.
  intros Htp Hrp. induction counts as [|[n ni] counts IH]; intros debt k Hi Hpos; cbn [fold_left fst snd].
  - apply (cinv_ext fl (fun x => debt x + dsum [] x)); [|exact Hi]. intros x _ _. cbn. lia.
  - apply IH; [|intros c Hc; apply Hpos; now right].
    apply (cinv_ext fl (debt_add (fun x => debt x + dsum ((n, ni) :: counts) x) n (- ni))).
    + intros x _ _. unfold debt_add, dsum. cbn [fold_right fst snd]. destruct (Z.eqb x n); lia.
    + apply update_dataset_inv; try assumption. apply (Hpos (n, ni)). now left.
Qed.

Lemma do_txn_inv fl k sets :
  cf_txn_pub fl = true -> cf_rm_pub fl = true -> cinv fl zero k -> cinv fl zero (do_txn fl k sets).
Proof.
  intros Htp Hrp Hi. unfold do_txn.
  destruct (existsb (fun p : Z * list ent => Z.eqb (fst p) CORE_NAME) sets) eqn:Ecore; [exact Hi|].
  destruct (forallb _ sets); [|exact Hi].
  assert (Hnc : Forall (fun p : Z * list ent => fst p <> CORE_NAME) sets).
  { apply Forall_forall. intros p Hp Heq.
    assert (existsb (fun p : Z * list ent => Z.eqb (fst p) CORE_NAME) sets = true)
      by (apply existsb_exists; exists p; split; [exact Hp | now apply Z.eqb_eq]).
    congruence. }
  pose proof (tick_inv fl zero k Hi) as Hi1.
  set (k1 := with_st_kn k (tick (k_st k)) (k_known k)) in *.
  pose proof (txn_phase1 fl (s_clock (k_st k1)) sets k1 [] Hi1 eq_refl Hnc ltac:(intros c [])) as H1.
  change (fold_left _ sets (k1, [])) with (fold_left (txn_step fl (s_clock (k_st k1))) sets (k1, [])).
  destruct (fold_left (txn_step fl (s_clock (k_st k1))) sets (k1, [])) as [k2 counts].
  destruct H1 as [Hi2 Hpos].
  apply (txn_phase2 fl Htp Hrp); [|exact Hpos].
  apply (cinv_ext fl (dsum counts)); [|exact Hi2]. intros x _ _. unfold zero. lia.
Qed.

(** ** several meta entities posted back to core.Dataset *)
Lemma setpub_any_inv fl k n p :
  cf_txn_pub fl = true -> cf_rm_pub fl = true -> cinv fl zero k -> cinv fl zero (setpub_any fl k n p).
Proof.
  intros Htp Hrp Hi. unfold setpub_any.
  destruct (read_meta k n) as [m0|] eqn:Em0; [|exact Hi].
  destruct Hi as [Hb Hr Hm Hc].
  assert (Hn0 : m_name m0 = n).
  { apply read_meta_Some in Em0. destruct Em0 as [c [Hcs <-]]. destruct (b_core _ Hb _ _ Hcs) as [mm [Hid ->]].
    rewrite meta_parse_content. apply meta_uri_inj in Hid. congruence. }
  pose proof (Hm n) as Hmn. unfold clause in Hmn. rewrite Em0 in Hmn.
  pose proof (store_meta_inv (fun _ => True) fl false zero k n (with_pub m0 p) Htp Hrp Hb Hr Hn0 (or_introl I)
                             (fun n' _ _ => Hm n') Hc) as H.
  destruct H as (H1 & H2 & H3 & H4 & _).
  - destruct (assoc n (k_reg k)) as [r|] eqn:Ea.
    + destruct Hmn as (m & Hx & Hnm & Hs & Hd & Hit). injection Hx as <-.
      cbn [with_pub m_set s_kind m_del m_items]. split; [now rewrite Hs|]. split; [exact Hd|]. split; [exact Hit|].
      intros Hn Hcc. rewrite Hn in Em0. exact (Hc Hcc m0 Em0).
    + exact Hmn.
  - constructor; try assumption. intros n'. apply H3. now right.
Qed.

Lemma do_setpubm_inv fl l : cf_txn_pub fl = true -> cf_rm_pub fl = true ->
  forall k, cinv fl zero k -> cinv fl zero (do_setpubm fl k l).
Proof.
  intros Htp Hrp. unfold do_setpubm. induction l as [|[n p] l IH]; intros k Hi; cbn [fold_left fst snd]; [exact Hi|].
  apply IH. now apply setpub_any_inv.
Qed.

(** ** every operation, every history *)
Lemma apply_cop_inv fl k o :
  cf_txn_pub fl = true -> cf_rm_pub fl = true -> cinv fl zero k -> cinv fl zero (apply_cop fl k o).
Proof.
  intros Htp Hrp Hi. destruct o; cbn [apply_cop].
  - now apply do_create_inv.
  - now apply do_delete_inv.
  - now apply do_rename_inv.
  - now apply do_setpub_inv.
  - now apply do_batch_inv.
  - now apply do_txn_inv.
Qed.

Theorem run_cops_inv fl ops :
  cf_txn_pub fl = true -> cf_rm_pub fl = true -> cinv fl zero (run_cops fl ops).
Proof.
  intros Htp Hrp. unfold run_cops.
  assert (H : forall ops k, cinv fl zero k -> cinv fl zero (fold_left (apply_cop fl) ops k)).
  { induction ops0 as [|o ops0 IH]; intros k Hk; cbn [fold_left]; [exact Hk|]. apply IH. now apply apply_cop_inv. }
  apply H. now apply cinv_init.
Qed.

(** ** C19_meta + C19_items over all histories, in the terms of the property *)
Definition name_ok (fl : cflags) (k : cat) (n : Z) : Prop :=
  match assoc n (k_reg k) with
  | Some r =>     (* an existing dataset: its meta entity is live, carries its name and settings, and counts its distinct ids *)
    exists m, read_meta k n = Some m /\ m_name m = n /\ m_set m = r_set r /\ m_del m = false
              /\ (n <> CORE_NAME \/ cf_count_core fl = true -> m_items m = distinct_of k n)
  | None =>       (* deleted / renamed-away / never used: no meta entity, or a deleted one *)
    match read_meta k n with None => True | Some m => m_del m = true end
  end.

Theorem meta_items fl ops :
  cf_txn_pub fl = true -> cf_rm_pub fl = true ->
  let k := run_cops fl ops in
  (forall n, name_ok fl k n)
  /\ (forall id c, stored_latest (core k) id = Some c -> exists m, c = meta_content m /\ id = meta_uri (m_name m)).
Proof.
  intros Htp Hrp k. destruct (run_cops_inv fl ops Htp Hrp) as [Hb Hr Hm Hc]. fold k in Hb, Hr, Hm, Hc.
  split.
  - intros n. specialize (Hm n). unfold name_ok, clause, distinct_of in *.
    destruct (assoc n (k_reg k)) as [r|] eqn:Ea; [|exact Hm].
    destruct Hm as (m & H1 & H2 & H3 & H4 & H5). exists m. repeat (split; [assumption|]).
    intros Hor. destruct (Z.eq_dec n CORE_NAME) as [Hn|Hn].
    + destruct Hor as [|Hcc]; [congruence|]. rewrite Hn in H1, Ea.
      destruct (r_core _ Hr) as [rc [Hrc Hrcc]]. assert (r = rc) by congruence. subst rc.
      rewrite Hrcc. exact (Hc Hcc m H1).
    + specialize (H5 Hn). unfold zero in H5. lia.
  - intros id c Hs. destruct (b_core _ Hb _ _ Hs) as [m [H1 H2]]. now exists m.
Qed.
