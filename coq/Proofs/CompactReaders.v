(** Reader-level corollaries of [inv_rel] (C12): what the latest-only feed, the listing and scoped lookups (current
    and point in time) return in a state and in the state a (possibly interrupted) repaired compaction leaves,
    in states whose sequence numbers may have gaps. *)
From Coq Require Import List ZArith NArith Bool Lia.
From DH Require Import Lib.CheckLib Model.Store Model.FeedSpec Model.Compact Proofs.StoreProofs Proofs.C01Proofs
     Proofs.CompactProofs Check.C12Check.
Import ListNotations.
Open Scope Z_scope.

(** ** sorting observed entities by id is canonical for lists with unique ids *)
Lemma oinsert_In a x l : In x (oinsert a l) <-> x = a \/ In x l.
Proof.
  induction l as [|y l IH]; cbn [oinsert In]; [intuition|].
  destruct (fst a <=? fst y); cbn [In]; [intuition | rewrite IH; intuition].
Qed.
Lemma osort_In x l : In x (osort l) <-> In x l.
Proof.
  induction l as [|a l IH]; cbn [osort fold_right In]; [tauto|].
  fold (osort l). rewrite oinsert_In, IH. intuition.
Qed.

Fixpoint ssorted (l : list oent) : Prop :=
  match l with [] => True | x :: l' => Forall (fun y => fst x < fst y) l' /\ ssorted l' end.

Lemma oinsert_ssorted a l : ssorted l -> ~ In (fst a) (map fst l) -> ssorted (oinsert a l).
Proof.
  induction l as [|y l IH]; cbn [oinsert ssorted map In]; intros Hs Hn.
  - split; [constructor | exact I].
  - destruct Hs as [Hy Hs]. destruct (Z.leb_spec (fst a) (fst y)) as [Hle|Hgt]; cbn [ssorted].
    + assert (Hne : fst y <> fst a) by tauto. assert (fst a < fst y) by (apply Z.le_neq; split; [exact Hle | intros E; apply Hne; symmetry; exact E]).
      split; [|split; assumption]. constructor; [assumption|].
      eapply Forall_impl; [|exact Hy]. cbv beta. intros z Hz. eapply Z.lt_trans; eassumption.
    + split; [|apply IH; [exact Hs | tauto]].
      apply Forall_forall. intros x Hx. apply oinsert_In in Hx. destruct Hx as [->|Hx]; [exact Hgt|].
      rewrite Forall_forall in Hy. now apply Hy.
Qed.

Lemma osort_keys k l : In k (map fst (osort l)) <-> In k (map fst l).
Proof.
  rewrite !in_map_iff. split; intros (x & Hx & Hin); exists x; (split; [exact Hx|]); now apply osort_In.
Qed.

Lemma osort_ssorted l : NoDup (map fst l) -> ssorted (osort l).
Proof.
  induction l as [|a l IH]; cbn [osort fold_right map]; intros Hnd; [exact I|].
  fold (osort l). inversion Hnd as [|? ? Hn Hnd']; subst.
  apply oinsert_ssorted; [now apply IH | now rewrite osort_keys].
Qed.

Definition covers (l l' : list oent) : Prop := forall x, In x l -> exists y, In y l' /\ oent_eqb x y = true.

Lemma oent_eqb_fst x y : oent_eqb x y = true -> fst x = fst y.
Proof. unfold oent_eqb. intros H. apply andb_true_iff in H. now apply Z.eqb_eq. Qed.

Lemma ssorted_canonical l : forall l', ssorted l -> ssorted l' -> covers l l' -> covers l' l ->
  oents_eqb l l' = true.
Proof.
  induction l as [|x l IH]; destruct l' as [|y l']; intros Hs Hs' Hc Hc'.
  - reflexivity.
  - destruct (Hc' y (or_introl eq_refl)) as (z & [] & _).
  - destruct (Hc x (or_introl eq_refl)) as (z & [] & _).
  - cbn [ssorted] in Hs, Hs'. destruct Hs as [Hx Hs], Hs' as [Hy Hs']. rewrite Forall_forall in Hx, Hy.
    destruct (Hc x (or_introl eq_refl)) as (z & Hz & Hxz).
    destruct (Hc' y (or_introl eq_refl)) as (w & Hw & Hyw).
    pose proof (oent_eqb_fst _ _ Hxz) as Fxz. pose proof (oent_eqb_fst _ _ Hyw) as Fyw.
    assert (Hge1 : fst y <= fst z) by (destruct Hz as [<-|Hz]; [(unfold uri in *; lia) | specialize (Hy z Hz); (unfold uri in *; lia)]).
    assert (Hge2 : fst x <= fst w) by (destruct Hw as [<-|Hw]; [(unfold uri in *; lia) | specialize (Hx w Hw); (unfold uri in *; lia)]).
    assert (Hxy : fst x = fst y) by (unfold uri in *; lia).
    assert (z = y) by (destruct Hz as [<-|Hz]; [reflexivity | specialize (Hy z Hz); (unfold uri in *; lia)]). subst z.
    unfold oents_eqb. cbn [list_eqb]. rewrite Hxz. cbn [andb]. apply IH; try assumption.
    + intros a Ha. destruct (Hc a (or_intror Ha)) as (b & Hb & Hab). exists b. split; [|exact Hab].
      destruct Hb as [<-|Hb]; [|exact Hb]. specialize (Hx a Ha). apply oent_eqb_fst in Hab. (unfold uri in *; lia).
    + intros b Hb. destruct (Hc' b (or_intror Hb)) as (a & Ha & Hba). exists a. split; [|exact Hba].
      destruct Ha as [<-|Ha]; [|exact Ha]. specialize (Hy b Hb). apply oent_eqb_fst in Hba. (unfold uri in *; lia).
Qed.

Lemma osort_canonical l l' : NoDup (map fst l) -> NoDup (map fst l') -> covers l l' -> covers l' l ->
  oents_eqb (osort l) (osort l') = true.
Proof.
  intros Hn Hn' Hc Hc'. apply ssorted_canonical; try (now apply osort_ssorted).
  - intros x Hx. apply (proj1 (osort_In x l)) in Hx. destruct (Hc x Hx) as (y & Hy & Hxy). exists y. split; [now apply osort_In | exact Hxy].
  - intros x Hx. apply (proj1 (osort_In x l')) in Hx. destruct (Hc' x Hx) as (y & Hy & Hxy). exists y. split; [now apply osort_In | exact Hxy].
Qed.

(** sorting respects pointwise equivalence *)
Lemma oinsert_respects a b : oent_eqb a b = true -> forall l m, oents_eqb l m = true ->
  oents_eqb (oinsert a l) (oinsert b m) = true.
Proof.
  intros Hab. pose proof (oent_eqb_fst _ _ Hab) as Fab.
  induction l as [|x l IH]; destruct m as [|y m]; intros H; cbn in H; try discriminate.
  - cbn. now rewrite Hab.
  - unfold oents_eqb in H. apply andb_true_iff in H. destruct H as [Hxy Hlm].
    pose proof (oent_eqb_fst _ _ Hxy) as Fxy. cbn [oinsert]. rewrite <- Fab, <- Fxy.
    destruct (fst a <=? fst x); unfold oents_eqb; cbn [list_eqb].
    + now rewrite Hab, Hxy, Hlm.
    + rewrite Hxy. cbn [andb]. now apply IH.
Qed.
Lemma osort_respects l : forall m, oents_eqb l m = true -> oents_eqb (osort l) (osort m) = true.
Proof.
  induction l as [|x l IH]; destruct m as [|y m]; intros H; cbn in H; try discriminate; [reflexivity|].
  unfold oents_eqb in H. apply andb_true_iff in H. destruct H as [Hxy Hlm].
  cbn [osort fold_right]. fold (osort l) (osort m). apply oinsert_respects; [exact Hxy | now apply IH].
Qed.

(** ** the readers without limit *)
Definition emit_of (latest : list (uri * (Z * Z))) (lo : bool) (e : entry) : bool :=
  if lo then match assoc (en_id e) latest with
             | Some (t, b) => Z.eqb t (en_time e) && Z.eqb b (en_bidx e)
             | None => false
             end
  else true.

Lemma changes_loop_nolimit latest lo l : forall processed ls fnd,
  fst (fst (changes_loop latest lo 0 l processed ls fnd)) = filter (emit_of latest lo) l.
Proof.
  induction l as [|e l IH]; intros processed ls fnd; cbn [changes_loop filter]; [reflexivity|].
  cbn [Z.ltb andb]. fold (emit_of latest lo e).
  set (p' := if emit_of latest lo e then processed + 1 else processed).
  specialize (IH p' (en_seq e) true).
  destruct (changes_loop latest lo 0 l p' (en_seq e) true) as [[out ls'] f']. cbn [fst] in *.
  destruct (emit_of latest lo e); now rewrite IH.
Qed.

Definition seqs_nonneg (d : dstate) : Prop := Forall (fun e => 0 <= en_seq e) (d_entries d).

Lemma changes_all d lo : seqs_nonneg d ->
  fst (changes d 0 0 lo) = filter (emit_of (d_latest d) lo) (d_entries d).
Proof.
  intros Hs. unfold changes.
  assert (Hf : filter (fun e => 0 <=? en_seq e) (d_entries d) = d_entries d).
  { apply filter_all_in. intros x Hx. unfold seqs_nonneg in Hs. rewrite Forall_forall in Hs. apply Z.leb_le. now apply Hs. }
  rewrite Hf.
  pose proof (changes_loop_nolimit (d_latest d) lo (d_entries d) 0 0 false) as H.
  destruct (changes_loop (d_latest d) lo 0 (d_entries d) 0 0 false) as [[out ls] f]. cbn [fst] in *. exact H.
Qed.

Lemma ksorted_key_inj E : ksorted E -> forall a b, In a E -> In b E -> ekey a = ekey b -> a = b.
Proof.
  induction E as [|x E IH]; [intros _ a b []|]. cbn [ksorted In]. intros [Hx Hs] a b Ha Hb Hk.
  rewrite Forall_forall in Hx. unfold ekey in Hk. injection Hk as Ht Hbi.
  destruct Ha as [<-|Ha], Hb as [<-|Hb]; try reflexivity.
  - specialize (Hx b Hb). unfold klt in Hx. lia.
  - specialize (Hx a Ha). unfold klt in Hx. lia.
  - apply IH; try assumption. unfold ekey. congruence.
Qed.

Lemma ksorted_NoDup E : ksorted E -> NoDup E.
Proof.
  induction E as [|x E IH]; [constructor|]. cbn [ksorted]. intros [Hx Hs]. constructor; [|now apply IH].
  intros Hin. rewrite Forall_forall in Hx. specialize (Hx x Hin). unfold klt in Hx. lia.
Qed.

Lemma last_entry_of_member E e : In e E -> exists l, last_entry E (en_id e) = Some l.
Proof.
  induction E as [|x E IH]; cbn [In last_entry]; intros H; [contradiction|].
  destruct (last_entry E (en_id e)) as [l|] eqn:El; [now exists l|].
  destruct H as [->|H]; [rewrite Z.eqb_refl; now exists e|]. destruct (IH H) as (l & Hl). congruence.
Qed.

(** the latest-only reader emits exactly the last version of every entity *)
Lemma emit_iff_last d e : cinv d -> In e (d_entries d) ->
  (emit_of (d_latest d) true e = true <-> last_entry (d_entries d) (en_id e) = Some e).
Proof.
  intros Hd He. unfold emit_of. rewrite (ci_ptr _ Hd).
  destruct (last_entry_of_member _ _ He) as (l & Hl). rewrite Hl. cbn [option_map ekey].
  destruct (last_entry_In _ _ _ Hl) as [Hlin _].
  split.
  - intros H. apply andb_true_iff in H. destruct H as [H1 H2]. apply Z.eqb_eq in H1, H2.
    f_equal. apply (ksorted_key_inj _ (ci_sorted _ Hd)); try assumption. unfold ekey. congruence.
  - intros [= ->]. now rewrite !Z.eqb_refl.
Qed.

Lemma NoDup_map_inj {A B} (f : A -> B) l : NoDup l -> (forall a b, In a l -> In b l -> f a = f b -> a = b) -> NoDup (map f l).
Proof.
  induction l as [|x l IH]; intros Hnd Hinj; cbn [map]; [constructor|].
  inversion Hnd as [|? ? Hn Hnd']; subst. constructor.
  - intros Hin. apply in_map_iff in Hin. destruct Hin as (y & Hy & Hyl).
    assert (y = x) by (apply Hinj; [now right | now left | exact Hy]). subst y. contradiction.
  - apply IH; [exact Hnd'|]. intros a b Ha Hb. apply Hinj; now right.
Qed.

Lemma NoDup_filter {A} (f : A -> bool) l : NoDup l -> NoDup (filter f l).
Proof.
  induction l as [|x l IH]; cbn [filter]; intros H; [constructor|]. inversion H as [|? ? Hn H']; subst.
  destruct (f x); [constructor; [rewrite filter_In; tauto | now apply IH] | now apply IH].
Qed.

(** both the latest-only feed and the listing are "the last version's content, per entity that has one" *)
Definition is_view (d : dstate) (l : list oent) : Prop :=
  NoDup (map fst l) /\ forall id c, In (id, c) l <-> vlastc d id = Some c.

Lemma vlastc_last d id : vlastc d id = option_map en_c (last_entry (d_entries d) id).
Proof. unfold vlastc. now rewrite last_entry_versions. Qed.

Lemma m_latest_view d : cinv d -> seqs_nonneg d -> is_view d (m_latest d).
Proof.
  intros Hd Hs. unfold m_latest. rewrite (changes_all d true Hs).
  set (F := filter (emit_of (d_latest d) true) (d_entries d)).
  assert (HF : forall e, In e F <-> In e (d_entries d) /\ last_entry (d_entries d) (en_id e) = Some e).
  { intros e. unfold F. rewrite filter_In. split; intros [H1 H2]; (split; [exact H1|]); now apply (emit_iff_last d e Hd H1). }
  split.
  - rewrite map_map. cbn [entry_oent fst].
    apply NoDup_map_inj; [apply NoDup_filter, ksorted_NoDup, (ci_sorted _ Hd)|].
    intros a b Ha Hb Hab. apply HF in Ha, Hb. destruct Ha as [_ Ha], Hb as [_ Hb]. rewrite Hab in Ha. congruence.
  - intros id c. rewrite vlastc_last, in_map_iff. split.
    + intros (e & [= <- <-] & He). apply HF in He. destruct He as [_ He]. now rewrite He.
    + intros H. destruct (last_entry (d_entries d) id) as [e|] eqn:El; [|discriminate]. injection H as <-.
      destruct (last_entry_In _ _ _ El) as [Hin Hid]. exists e. split; [unfold entry_oent; now rewrite Hid|].
      apply HF. split; [exact Hin | now rewrite Hid].
Qed.

Lemma m_listing_view d : cinv d -> is_view d (m_listing d).
Proof.
  intros Hd. unfold m_listing, listing_page. rewrite take_page_all by lia.
  assert (Hsl : forall k, stored_latest d k = vlastc d k) by (intros; now rewrite (cinv_latest _ Hd), vlastc_current).
  assert (Hkeys : NoDup (latest_keys d)) by apply strictly_sorted_NoDup, latest_keys_sorted.
  split.
  - revert Hkeys. generalize (latest_keys d). intros ks. induction ks as [|k ks IH]; intros Hnd; cbn [map flat_map]; [constructor|].
    inversion Hnd as [|? ? Hn Hnd']; subst. cbn [snd fst]. destruct (stored_latest d k) as [c|]; cbn [app map fst]; [|now apply IH].
    constructor; [|now apply IH]. intros Hin. apply in_map_iff in Hin. destruct Hin as ([k' c'] & Hk & Hin). cbn [fst] in Hk. subst k'.
    apply in_flat_map in Hin. destruct Hin as ([k2 oc] & Hin2 & Hx). cbn [fst snd] in Hx.
    apply in_map_iff in Hin2. destruct Hin2 as (k3 & [= <- <-] & Hk3).
    destruct (stored_latest d k3); [destruct Hx as [[= <- _]|[]]; contradiction | destruct Hx].
  - intros id c. rewrite in_flat_map. split.
    + intros ([k oc] & Hin & Hx). apply in_map_iff in Hin. destruct Hin as (k' & [= <- <-] & _). cbn [fst snd] in Hx.
      destruct (stored_latest d k') as [c'|] eqn:Es; [|destruct Hx]. destruct Hx as [[= <- <-]|[]]. now rewrite <- Hsl.
    + intros H. exists (id, Some c). split.
      * apply in_map_iff. exists id. split; [now rewrite Hsl, H|].
        apply latest_keys_In, assoc_In_fst. rewrite (ci_ptr _ Hd). rewrite vlastc_last in H.
        destruct (last_entry (d_entries d) id); [discriminate | discriminate].
      * cbn [fst snd]. now left.
Qed.

Lemma views_same d d' l l' : is_view d l -> is_view d' l' ->
  (forall id, oc_same (vlastc d' id) (vlastc d id) = true) ->
  oents_eqb (osort l') (osort l) = true.
Proof.
  intros [Hn Hm] [Hn' Hm'] Hr. apply osort_canonical; try assumption.
  - intros [id c] Hin. apply Hm' in Hin. pose proof (Hr id) as H. rewrite Hin in H.
    destruct (vlastc d id) as [c0|] eqn:E0; cbn [oc_same] in H; [|discriminate].
    exists (id, c0). split; [now apply Hm|]. unfold oent_eqb. cbn [fst snd]. now rewrite Z.eqb_refl.
  - intros [id c] Hin. apply Hm in Hin. pose proof (Hr id) as H. rewrite Hin in H.
    destruct (vlastc d' id) as [c0|] eqn:E0; cbn [oc_same] in H; [|discriminate].
    exists (id, c0). split; [now apply Hm'|]. unfold oent_eqb. cbn [fst snd]. rewrite Z.eqb_refl. cbn [andb].
    now rewrite identical_sym.
Qed.

(** ** scoped lookups, current and point in time *)
Lemma best_version_filter id at_ E : forall best,
  best_version id at_ E best = best_version id at_ (filter (upto at_) E) best.
Proof.
  induction E as [|e E IH]; intros best; [reflexivity|].
  cbn [filter]. unfold upto at 1. destruct (en_time e <=? at_) eqn:T.
  - cbn [best_version]. rewrite T. destruct (Z.eqb (en_id e) id); cbn [andb]; [|apply IH].
    destruct best as [b|]; [|apply IH].
    destruct ((en_time b <? en_time e) || (Z.eqb (en_time b) (en_time e) && (en_bidx b <? en_bidx e))); apply IH.
  - cbn [best_version]. rewrite T, andb_false_r. apply IH.
Qed.

Lemma best_version_vbest d id at_ : cinv d ->
  option_map en_c (best_version id at_ (d_entries d) None) = vbestc d id at_.
Proof.
  intros Hd. rewrite best_version_filter, best_version_last.
  - unfold vbestc. rewrite last_entry_versions, versions_of_eq, !filter_filter.
    rewrite (filter_ext' (fun x => upto at_ x && has_id id x) (fun x => has_id id x && upto at_ x))
      by (intros; apply andb_comm).
    destruct (last_opt _); reflexivity.
  - apply ksorted_filter, (ci_sorted _ Hd).
  - apply Forall_forall. intros x Hx. apply filter_In in Hx. destruct Hx as [_ Hx]. unfold upto in Hx. now apply Z.leb_le.
  - intros b [=].
Qed.

Definition one_ds (ds : Z) (ob : option entry) : list (Z * content) * bool :=
  match ob with
  | None => ([], false)
  | Some e => if c_del (en_c e) then ([], true) else ([(ds, en_c e)], false)
  end.

Lemma assoc_notin {V} k (l : list (Z * V)) : ~ In k (map fst l) -> assoc k l = None.
Proof. intros H. destruct (assoc k l) eqn:E; [|reflexivity]. exfalso. apply H, assoc_In_fst. congruence. Qed.

Lemma entity_fold_single id at_ ds l : forall acc, NoDup (map fst l) ->
  fold_left (fun (acc : list (Z * content) * bool) (p : Z * dstate) =>
               if in_scope [ds] (fst p) then
                 match best_version id at_ (d_entries (snd p)) None with
                 | None => acc
                 | Some e => if c_del (en_c e) then (fst acc, true) else (fst acc ++ [(fst p, en_c e)], snd acc)
                 end
               else acc) l acc
  = match assoc ds l with
    | None => acc
    | Some d => match best_version id at_ (d_entries d) None with
                | None => acc
                | Some e => if c_del (en_c e) then (fst acc, true) else (fst acc ++ [(ds, en_c e)], snd acc)
                end
    end.
Proof.
  induction l as [|[k d0] l IH]; intros acc Hnd; [reflexivity|].
  cbn [map fst] in Hnd. inversion Hnd as [|? ? Hn Hnd']; subst.
  cbn [fold_left assoc fst snd]. change (in_scope [ds] k) with (Z.eqb k ds || false). rewrite orb_false_r.
  destruct (Z.eqb_spec k ds) as [->|Hne].
  - rewrite Z.eqb_refl, IH by exact Hnd'. now rewrite (assoc_notin ds l Hn).
  - replace (Z.eqb ds k) with false by (symmetry; apply Z.eqb_neq; congruence). now apply IH.
Qed.

Lemma entity_at_single st id at_ ds : NoDup (map fst (s_ds st)) ->
  entity_at st id at_ [ds] = one_ds ds (best_version id at_ (d_entries (get_ds st ds)) None).
Proof.
  intros Hnd. unfold entity_at. rewrite entity_fold_single by exact Hnd. unfold get_ds, one_ds.
  destruct (assoc ds (s_ds st)) as [d|]; [|reflexivity].
  destruct (best_version id at_ (d_entries d) None) as [e|]; [|reflexivity].
  destruct (c_del (en_c e)); reflexivity.
Qed.

Definition keys_sorted (st : store) : Prop := strictly_sorted (map fst (s_ds st)).

Lemma set_assoc_fst_In {V} k (v : V) l x : In x (map fst (set_assoc k v l)) <-> x = k \/ In x (map fst l).
Proof.
  induction l as [|[k' v'] l IH]; cbn [set_assoc map fst In]; [intuition|].
  destruct (Z.eqb_spec k k') as [->|Hne]; cbn [map fst In]; [intuition|].
  destruct (k <? k'); cbn [map fst In]; [intuition | rewrite IH; intuition].
Qed.

Lemma set_assoc_sorted {V} k (v : V) l :
  strictly_sorted (map fst l) -> strictly_sorted (map fst (set_assoc k v l)).
Proof.
  induction l as [|[k' v'] l IH]; cbn [set_assoc map fst strictly_sorted]; intros H.
  - split; [constructor | exact I].
  - destruct H as [Hk Hs]. destruct (Z.eqb_spec k k') as [->|Hne]; cbn [map fst strictly_sorted].
    + split; assumption.
    + destruct (Z.ltb_spec k k') as [Hlt|Hge]; cbn [map fst strictly_sorted].
      * split; [|split; assumption]. constructor; [exact Hlt|].
        eapply Forall_impl; [|exact Hk]. cbv beta. intros; lia.
      * split; [|apply IH; exact Hs].
        apply Forall_forall. intros x Hx. apply set_assoc_fst_In in Hx. destruct Hx as [->|Hx]; [lia|].
        rewrite Forall_forall in Hk. now apply Hk.
Qed.

Lemma keys_sorted_set_ds st k d : keys_sorted st -> keys_sorted (set_ds st k d).
Proof. unfold keys_sorted, set_ds. cbn [s_ds]. apply set_assoc_sorted. Qed.

Lemma identical_del a b : identical a b = true -> c_del a = c_del b.
Proof. intros H. apply identical_iff in H. apply H. Qed.

(** a scoped lookup at any instant: same partials (identical content), same deleted flag *)
Theorem lookup_same st ds d' id at_ :
  keys_sorted st -> cinv (get_ds st ds) -> inv_rel (get_ds st ds) d' ->
  let r' := entity_at (set_ds st ds d') id at_ [ds] in
  let r := entity_at st id at_ [ds] in
  list_eqb partial_eqb (fst r') (fst r) = true /\ snd r' = snd r.
Proof.
  intros Hk Hd Hr r' r. unfold r', r.
  rewrite !entity_at_single by (apply strictly_sorted_NoDup; first [exact Hk | apply keys_sorted_set_ds; exact Hk]).
  rewrite get_set_same.
  pose proof (ir_best _ _ Hr id at_) as Hb.
  rewrite <- (best_version_vbest d' id at_ (ir_inv _ _ Hr)), <- (best_version_vbest _ id at_ Hd) in Hb.
  destruct (best_version id at_ (d_entries d') None) as [e'|], (best_version id at_ (d_entries (get_ds st ds)) None) as [e|];
    cbn [option_map oc_same one_ds] in *; try discriminate; [|split; reflexivity].
  rewrite (identical_del _ _ Hb). destruct (c_del (en_c e)); cbn [fst snd list_eqb]; [split; reflexivity|].
  split; [|reflexivity]. unfold partial_eqb. cbn [fst snd]. now rewrite Z.eqb_refl, Hb.
Qed.
