(** Lemmas about the ACL decision (Model/Acl.v): what the string functions compute, the repaired decision
    refines the spec, exact characterisations of the pinned decision, refutation witnesses. *)
From Coq Require Import List String Ascii Bool.
From DH Require Import Model.Acl.
Import ListNotations.
Open Scope string_scope.

(** ** strings *)

Lemma is_prefix_spec p s : is_prefix p s = true <-> exists rest, s = p ++ rest.
Proof.
  revert s; induction p as [|a p IH]; intros s; cbn.
  - split; [intros _; now exists s | reflexivity].
  - destruct s as [|b s]; cbn.
    + split; [discriminate | intros [rest H]; discriminate].
    + rewrite andb_true_iff, Ascii.eqb_eq, IH. split.
      * intros [-> [rest ->]]. now exists rest.
      * intros [rest H]. injection H as -> ->. split; [reflexivity | now exists rest].
Qed.

Lemma strip_star_cons a b r :
  strip_star (String a (String b r))
  = match strip_star (String b r) with Some q => Some (String a q) | None => None end.
Proof. reflexivity. Qed.

Lemma strip_star_sound r : forall p, strip_star r = Some p -> r = p ++ "*".
Proof.
  induction r as [|a r IH]; intros p H; [discriminate|].
  destruct r as [|b r'].
  - cbn in H. destruct (Ascii.eqb a "*"%char) eqn:E; [|discriminate].
    apply Ascii.eqb_eq in E. subst a. injection H as <-. reflexivity.
  - rewrite strip_star_cons in H. destruct (strip_star (String b r')) as [q|]; [|discriminate].
    injection H as <-. cbn. f_equal. now apply IH.
Qed.

Lemma strip_star_complete p : strip_star (p ++ "*") = Some p.
Proof.
  induction p as [|c p IH]; [reflexivity|].
  cbn [append]. destruct (p ++ "*") as [|b r] eqn:E.
  - destruct p; discriminate.
  - rewrite strip_star_cons, IH. reflexivity.
Qed.

Lemma strip_star_spec r p : strip_star r = Some p <-> r = p ++ "*".
Proof. split; [apply strip_star_sound | intros ->; apply strip_star_complete]. Qed.

Lemma res_matches_b_spec r path : res_matches_b r path = true <-> res_matches r path.
Proof.
  unfold res_matches_b, res_matches. rewrite orb_true_iff, String.eqb_eq. split.
  - intros [H | H]; [now left | right].
    destruct (strip_star r) as [p|] eqn:E; [|discriminate].
    apply strip_star_spec in E. apply is_prefix_spec in H. destruct H as [rest H]. now exists p, rest.
  - intros [H | (p & rest & H1 & H2)]; [now left | right].
    apply strip_star_spec in H1. rewrite H1. apply is_prefix_spec. now exists rest.
Qed.

(** ** actions *)

Lemma action_covers_spec need aca : action_covers need aca = true <-> covers aca need.
Proof.
  unfold action_covers, covers.
  destruct (need =? "read") eqn:E1; cbn [andb].
  - apply String.eqb_eq in E1; subst need.
    destruct (aca =? "read") eqn:E2; cbn [orb].
    + apply String.eqb_eq in E2; subst. split; [intros _; now left | reflexivity].
    + destruct (aca =? "write") eqn:E3.
      * apply String.eqb_eq in E3; subst. split; [intros _; now right | reflexivity].
      * rewrite String.eqb_eq. split.
        -- intros <-. now left.
        -- intros [-> | [-> _]]; [reflexivity | rewrite String.eqb_refl in E3; discriminate].
  - rewrite String.eqb_eq. split.
    + intros ->. now left.
    + intros [-> | [_ ->]]; [reflexivity | rewrite String.eqb_refl in E1; discriminate].
Qed.

Lemma covers_b_spec g n : covers_b g n = true <-> covers g n.
Proof.
  unfold covers_b, covers. rewrite orb_true_iff, andb_true_iff, !String.eqb_eq. tauto.
Qed.

Lemma entry_applies_eq a r act :
  entry_applies a r act = res_matches_b (ac_resource a) r && action_covers act (ac_action a).
Proof. reflexivity. Qed.

Lemma entry_applies_spec a path need :
  entry_applies a path need = true <-> res_matches (ac_resource a) path /\ covers (ac_action a) need.
Proof. rewrite entry_applies_eq, andb_true_iff, res_matches_b_spec, action_covers_spec. tauto. Qed.

(** CheckGranted = "the entry applies and is not a deny" *)
Lemma check_granted_eq a r act : check_granted a r act = entry_applies a r act && negb (ac_deny a).
Proof.
  unfold check_granted, entry_applies.
  destruct (ac_resource a =? r); destruct (action_covers act (ac_action a)); cbn;
    destruct (strip_star (ac_resource a)) as [p|]; cbn; try reflexivity;
    try (destruct (is_prefix p r); cbn; try reflexivity);
    try (destruct (ac_deny a); reflexivity).
Qed.

Lemma is_admin_spec roles : is_admin roles = true <-> In "admin" roles.
Proof.
  unfold is_admin. rewrite existsb_exists. split.
  - intros (x & Hin & E). apply String.eqb_eq in E. now subst.
  - intros H. exists "admin". split; [assumption | apply String.eqb_refl].
Qed.

Lemma mem_str_spec s l : mem_str s l = true <-> In s l.
Proof.
  unfold mem_str. rewrite existsb_exists. split.
  - intros (x & Hin & E). apply String.eqb_eq in E. now subst.
  - intros H. exists s. split; [assumption | apply String.eqb_refl].
Qed.

Lemma grant_loop_spec l path need :
  grant_loop l path need = true <->
  exists a, In a l /\ ac_deny a = false /\ res_matches (ac_resource a) path /\ covers (ac_action a) need.
Proof.
  unfold grant_loop. rewrite existsb_exists. split.
  - intros (a & Hin & H). rewrite check_granted_eq, andb_true_iff, negb_true_iff, entry_applies_spec in H.
    exists a. tauto.
  - intros (a & Hin & Hd & Hm & Hc). exists a. split; [assumption|].
    rewrite check_granted_eq, andb_true_iff, negb_true_iff, entry_applies_spec. tauto.
Qed.

Lemma deny_hits_false l path need :
  deny_hits l path need = false <->
  forall d, In d l -> ac_deny d = true -> res_matches (ac_resource d) path -> covers (ac_action d) need -> False.
Proof.
  unfold deny_hits. split.
  - intros H d Hin Hd Hm Hc.
    assert (E : existsb (fun a => ac_deny a && entry_applies a path need) l = true).
    { apply existsb_exists. exists d. split; [assumption|]. rewrite Hd. cbn. apply entry_applies_spec. tauto. }
    congruence.
  - intros H. destruct (existsb _ l) eqn:E; [|reflexivity]. exfalso.
    apply existsb_exists in E. destruct E as (d & Hin & E). apply andb_true_iff in E. destruct E as [Hd Ha].
    apply entry_applies_spec in Ha. destruct Ha. eauto.
Qed.

(** ** the repaired decision *)

Lemma needed_safe_only m : needed MapSafeOnly m = spec_needed m.
Proof. reflexivity. Qed.

(** exact characterisation of the repaired decision *)
Theorem acl_check_fixed_iff method path roles acl :
  acl_check MapSafeOnly DenyWins method path roles acl = true <->
  In "admin" roles \/
  exists l, acl = Some l
    /\ (exists a, In a l /\ ac_deny a = false /\ res_matches (ac_resource a) path
                  /\ covers (ac_action a) (spec_needed method))
    /\ (forall d, In d l -> ac_deny d = true -> res_matches (ac_resource d) path
                  -> covers (ac_action d) (spec_needed method) -> False).
Proof.
  unfold acl_check. destruct (is_admin roles) eqn:Ea.
  - apply is_admin_spec in Ea. split; [intros _; now left | reflexivity].
  - assert (Hna : ~ In "admin" roles) by (intros H; apply is_admin_spec in H; congruence).
    destruct acl as [l|].
    + rewrite needed_safe_only, andb_true_iff, negb_true_iff, deny_hits_false, grant_loop_spec. split.
      * intros [Hd Hg]. right. exists l. tauto.
      * intros [H | (l' & [= <-] & Hg & Hd)]; [contradiction | tauto].
    + split; [discriminate | intros [H | (l' & H & _)]; [contradiction | discriminate]].
Qed.

(** the repaired decision refines the spec: whatever passes is authorized *)
Theorem acl_check_fixed_sound method path roles acl :
  acl_check MapSafeOnly DenyWins method path roles acl = true -> authorized method path roles acl.
Proof.
  intros H. apply acl_check_fixed_iff in H. destruct H as [H | (l & -> & Hg & Hd)]; [now left | right].
  exists l. split; [reflexivity|]. split; [assumption|].
  intros d Hin Hdeny Hm Ha. apply (Hd d Hin Hdeny Hm). now left.
Qed.

(** ** the pinned decision *)

(** exact characterisation: deny flags only matter on the granting entry itself, the needed action is the pinned map's *)
Theorem acl_check_skip_iff mm method path roles acl :
  acl_check mm DenySkip method path roles acl = true <->
  In "admin" roles \/
  exists l, acl = Some l
    /\ exists a, In a l /\ ac_deny a = false /\ res_matches (ac_resource a) path
                 /\ covers (ac_action a) (needed mm method).
Proof.
  unfold acl_check. destruct (is_admin roles) eqn:Ea.
  - apply is_admin_spec in Ea. split; [intros _; now left | reflexivity].
  - assert (Hna : ~ In "admin" roles) by (intros H; apply is_admin_spec in H; congruence).
    destruct acl as [l|].
    + rewrite grant_loop_spec. split.
      * intros H. right. now exists l.
      * intros [H | (l' & [= <-] & Hg)]; [contradiction | assumption].
    + split; [discriminate | intros [H | (l' & H & _)]; [contradiction | discriminate]].
Qed.

(** deny entries are dead code in the pinned loop: removing them all never changes a decision *)
Theorem deny_entries_dead mm method path roles l :
  acl_check mm DenySkip method path roles (Some l)
  = acl_check mm DenySkip method path roles (Some (filter (fun a => negb (ac_deny a)) l)).
Proof.
  unfold acl_check. destruct (is_admin roles); [reflexivity|].
  unfold grant_loop. induction l as [|a l IH]; [reflexivity|].
  cbn [filter existsb]. rewrite check_granted_eq. destruct (ac_deny a) eqn:Ed; cbn [negb].
  - rewrite andb_false_r. cbn [orb]. exact IH.
  - cbn [existsb]. rewrite check_granted_eq, Ed. cbn [negb]. now rewrite IH.
Qed.

Lemma needed_cases m :
  needed MapPostDelete m = spec_needed m \/ (spec_needed m = "write" /\ needed MapPostDelete m = "read").
Proof.
  unfold needed, spec_needed.
  destruct (m =? "GET") eqn:E1; [apply String.eqb_eq in E1; subst; now left|].
  destruct (m =? "HEAD") eqn:E2; [apply String.eqb_eq in E2; subst; now left|].
  cbn [orb]. destruct (m =? "DELETE"); [now left|]. destruct (m =? "POST"); [now left|]. now right.
Qed.

Lemma covers_write_read a : covers a "write" -> covers a "read".
Proof. intros [-> | [_ H]]; [right; split; reflexivity | discriminate]. Qed.

(** the repair only takes away: whatever the repaired decision passes, the pinned one passes too *)
Theorem fixed_implies_pinned method path roles acl :
  acl_check MapSafeOnly DenyWins method path roles acl = true ->
  acl_check MapPostDelete DenySkip method path roles acl = true.
Proof.
  intros H. apply acl_check_fixed_iff in H. apply acl_check_skip_iff.
  destruct H as [H | (l & -> & (a & Hin & Hd & Hm & Hc) & _)]; [now left | right].
  exists l. split; [reflexivity|]. exists a. repeat split; try assumption.
  destruct (needed_cases method) as [-> | [Hw ->]]; [assumption|]. rewrite Hw in Hc. now apply covers_write_read.
Qed.

(** exactly when the pinned decision serves more than the repaired one: a matching deny is overridden, or a
    method outside GET/HEAD/POST/DELETE got through on a grant that does not cover write *)
Theorem pinned_beyond_fixed method path roles acl :
  acl_check MapPostDelete DenySkip method path roles acl = true ->
  acl_check MapSafeOnly DenyWins method path roles acl = false ->
  exists l, acl = Some l /\ ~ In "admin" roles /\
    ((exists d, In d l /\ ac_deny d = true /\ res_matches (ac_resource d) path
                /\ covers (ac_action d) (spec_needed method))
     \/ (spec_needed method = "write" /\ needed MapPostDelete method = "read"
         /\ forall a, In a l -> ac_deny a = false -> res_matches (ac_resource a) path
                      -> covers (ac_action a) "write" -> False)).
Proof.
  intros Hp Hf. apply acl_check_skip_iff in Hp.
  destruct Hp as [Ha | (l & -> & (a & Hin & Hd & Hm & Hc))].
  - exfalso. assert (E : acl_check MapSafeOnly DenyWins method path roles acl = true)
      by (apply acl_check_fixed_iff; now left). congruence.
  - exists l. split; [reflexivity|].
    assert (Hna : ~ In "admin" roles).
    { intros Ha. assert (E : acl_check MapSafeOnly DenyWins method path roles (Some l) = true)
        by (apply acl_check_fixed_iff; now left). congruence. }
    split; [assumption|].
    unfold acl_check in Hf. destruct (is_admin roles) eqn:Ea; [discriminate|].
    rewrite needed_safe_only in Hf. apply andb_false_iff in Hf. destruct Hf as [Hf | Hf].
    + left. apply negb_false_iff in Hf. unfold deny_hits in Hf. apply existsb_exists in Hf.
      destruct Hf as (d & Hind & E). apply andb_true_iff in E. destruct E as [E1 E2].
      apply entry_applies_spec in E2. exists d. tauto.
    + right. destruct (needed_cases method) as [E | [Hw Hr]].
      * exfalso. rewrite E in Hc.
        assert (G : grant_loop l path (spec_needed method) = true) by (apply grant_loop_spec; eauto). congruence.
      * split; [assumption|]. split; [assumption|]. intros b Hb Hbd Hbm Hbc.
        rewrite Hw in Hf. assert (G : grant_loop l path "write" = true) by (apply grant_loop_spec; eauto). congruence.
Qed.

(** ** executable spec = spec *)

Lemma acl_grants_b_spec l path need : acl_grants_b l path need = true <-> acl_grants l path need.
Proof.
  unfold acl_grants_b, acl_grants. rewrite andb_true_iff, negb_true_iff. split.
  - intros [Ha Hd]. split.
    + apply existsb_exists in Ha. destruct Ha as (a & Hin & E).
      rewrite !andb_true_iff, negb_true_iff, res_matches_b_spec, covers_b_spec in E. exists a. tauto.
    + intros d Hin Hdeny Hm He.
      assert (E : existsb (fun d => ac_deny d && res_matches_b (ac_resource d) path && (ac_action d =? need)) l = true).
      { apply existsb_exists. exists d. split; [assumption|].
        rewrite Hdeny, (proj2 (res_matches_b_spec _ _) Hm), He, String.eqb_refl. reflexivity. }
      congruence.
  - intros [(a & Hin & Hd & Hm & Hc) Hdeny]. split.
    + apply existsb_exists. exists a. split; [assumption|].
      rewrite !andb_true_iff, negb_true_iff, res_matches_b_spec, covers_b_spec. tauto.
    + destruct (existsb _ l) eqn:E; [|reflexivity]. exfalso.
      apply existsb_exists in E. destruct E as (d & Hin' & E).
      rewrite !andb_true_iff, res_matches_b_spec, String.eqb_eq in E. destruct E as [[E1 E2] E3]. eauto.
Qed.

Lemma authorized_b_spec method path roles acl :
  authorized_b method path roles acl = true <-> authorized method path roles acl.
Proof.
  unfold authorized_b, authorized. rewrite orb_true_iff, mem_str_spec. split.
  - intros [H | H]; [now left | right]. destruct acl as [l|]; [|discriminate].
    apply acl_grants_b_spec in H. now exists l.
  - intros [H | (l & -> & H)]; [now left | right]. now apply acl_grants_b_spec.
Qed.

(** ** refutation witnesses for the pinned tree *)

Definition client_roles : list string := ["client"].

(** F16a: a read-only entry lets PATCH through *)
Lemma refuted_put_read :
  let acl := Some [{| ac_resource := "/datasets/a"; ac_action := "read"; ac_deny := false |}] in
  acl_check MapPostDelete DenySkip "PATCH" "/datasets/a" client_roles acl = true
  /\ ~ authorized "PATCH" "/datasets/a" client_roles acl.
Proof.
  split; [vm_compute; reflexivity|]. intros H. apply authorized_b_spec in H. vm_compute in H. discriminate.
Qed.

(** F16b: allow on /datasets/* next to deny on /datasets/secret, either order *)
Lemma refuted_deny_overridden :
  let allow := {| ac_resource := "/datasets/*"; ac_action := "write"; ac_deny := false |} in
  let deny := {| ac_resource := "/datasets/secret"; ac_action := "write"; ac_deny := true |} in
  (acl_check MapPostDelete DenySkip "POST" "/datasets/secret" client_roles (Some [allow; deny]) = true
   /\ ~ authorized "POST" "/datasets/secret" client_roles (Some [allow; deny]))
  /\ (acl_check MapPostDelete DenySkip "POST" "/datasets/secret" client_roles (Some [deny; allow]) = true
      /\ ~ authorized "POST" "/datasets/secret" client_roles (Some [deny; allow])).
Proof.
  repeat split; try (vm_compute; reflexivity);
    intros H; apply authorized_b_spec in H; vm_compute in H; discriminate.
Qed.

(** ** dataset list filter *)

Lemma filter_datasets_fixed_sound acl names d :
  In d (filter_datasets DenyWins acl names) -> In d names /\ acl_grants acl ("/datasets/" ++ d) "read".
Proof.
  unfold filter_datasets. rewrite in_flat_map. intros (x & Hin & H).
  destruct (deny_hits acl ("/datasets/" ++ x) "read") eqn:E1; [destruct H|].
  apply in_flat_map in H. destruct H as (a & Ha & H).
  destruct (check_granted a ("/datasets/" ++ x) "read") eqn:E2; [|destruct H].
  destruct H as [<- | []]. split; [assumption|]. split.
  - apply grant_loop_spec. unfold grant_loop. apply existsb_exists. now exists a.
  - intros dd Hd1 Hd2 Hd3 Hd4. apply (proj1 (deny_hits_false _ _ _) E1 dd Hd1 Hd2 Hd3). now left.
Qed.

(** the pinned filter lists a dataset as soon as any non-deny entry covers it (deny entries are dead here too) *)
Lemma filter_datasets_pinned_iff acl names d :
  In d (filter_datasets DenySkip acl names) <->
  In d names /\ exists a, In a acl /\ ac_deny a = false /\ res_matches (ac_resource a) ("/datasets/" ++ d)
                          /\ covers (ac_action a) "read".
Proof.
  unfold filter_datasets. rewrite in_flat_map. split.
  - intros (x & Hin & H). apply in_flat_map in H. destruct H as (a & Ha & H).
    destruct (check_granted a ("/datasets/" ++ x) "read") eqn:E; [|destruct H]. destruct H as [<- | []].
    split; [assumption|]. apply grant_loop_spec. unfold grant_loop. apply existsb_exists. now exists a.
  - intros [Hin Hg]. exists d. split; [assumption|]. apply grant_loop_spec in Hg. unfold grant_loop in Hg.
    apply existsb_exists in Hg. destruct Hg as (a & Ha & E). apply in_flat_map. exists a. split; [assumption|].
    rewrite E. now left.
Qed.
