(** C03: agreement of the implementation's observations with the repaired model implies the executable
    spec on those observations - through the C03 theorems (the model's pages ARE the graph).
    For well-formed cases: queries over any list of DISTINCT start points with any list of page limits
    (each >= 0; 0 = no limit), predicates given as non-negative codes, transactions over distinct
    datasets, results within the follow fuel. *)
From Coq Require Import List ZArith NArith Bool Lia Sorting.Permutation.
From DH Require Import Lib.CheckLib Model.Store Model.Refs Model.Query Model.GraphSpec
     Proofs.StoreProofs Proofs.RefsProofs Proofs.QueryProofs Proofs.RefsInv Proofs.C03Paging Proofs.C03Proofs
     Proofs.C06Proofs Proofs.C03Many Check.C03Check.
Import ListNotations.
Open Scope Z_scope.

(** ** multiset matching of a predicted page (definite results only) with an observed page *)
Lemma trip3_eqb_eq a b : trip3_eqb a b = true <-> a = b.
Proof.
  destruct a as [[a1 a2] a3], b as [[b1 b2] b3]. unfold trip3_eqb. cbn [fst snd].
  rewrite !andb_true_iff, !Z.eqb_eq. split; [intros [[-> ->] ->] | intros [= -> -> ->]]; auto.
Qed.

Lemma remove_first_perm {A} (p : A -> bool) l l' :
  remove_first p l = Some l' -> exists x, p x = true /\ Permutation l (x :: l').
Proof.
  revert l'. induction l as [|y l IH]; intros l'; cbn [remove_first]; [discriminate|].
  destruct (p y) eqn:Ep.
  - intros [= <-]. exists y. split; [assumption | apply Permutation_refl].
  - destruct (remove_first p l) as [l0|] eqn:Er; cbn [option_map]; [|discriminate]. intros [= <-].
    destruct (IH l0 eq_refl) as (x & Hx & Hp). exists x. split; [assumption|].
    eapply perm_trans; [apply perm_skip, Hp | apply perm_swap].
Qed.

Definition all_def (mp : list res) : Prop := forall r, In r mp -> exists k, r = RDef k.
Definition def_keys (mp : list res) : list rk := flat_map (fun r => match r with RDef k => [k] | RChoice _ => [] end) mp.

Lemma match_defs_perm inv mp : forall op rest,
  all_def mp -> match_defs inv mp op = Some rest -> Permutation op (map (obs_of inv) (def_keys mp) ++ rest).
Proof.
  induction mp as [|r mp IH]; intros op rest Hd; cbn [match_defs def_keys flat_map map app].
  - intros [= <-]. apply Permutation_refl.
  - destruct (Hd r (or_introl eq_refl)) as [k ->].
    destruct (remove_first (trip3_eqb (obs_of inv k)) op) as [op'|] eqn:Er; [|discriminate].
    intros Hm. destruct (remove_first_perm _ _ _ Er) as (x & Hx & Hp). apply trip3_eqb_eq in Hx. subst x.
    cbn [app map]. eapply perm_trans; [exact Hp|]. apply perm_skip.
    apply IH; [intros r Hr; apply Hd; now right | exact Hm].
Qed.

Lemma match_choices_id inv mp : forall op, all_def mp -> match_choices inv mp op = Some op.
Proof.
  induction mp as [|r mp IH]; intros op Hd; cbn [match_choices]; [reflexivity|].
  destruct (Hd r (or_introl eq_refl)) as [k ->]. apply IH. intros r Hr. apply Hd. now right.
Qed.

Lemma page_matches_perm inv mp op : all_def mp -> page_matches inv mp op = true ->
  Permutation op (map (obs_of inv) (def_keys mp)).
Proof.
  intros Hd. unfold page_matches. destruct (match_defs inv mp op) as [op1|] eqn:Em; [|discriminate].
  rewrite (match_choices_id inv mp op1 Hd). destruct op1; [|discriminate]. intros _.
  rewrite <- (app_nil_r (map _ _)). now apply (match_defs_perm inv mp op []).
Qed.

Lemma pages_match_perm inv mps : forall ops, (forall mp, In mp mps -> all_def mp) -> pages_match inv mps ops = true ->
  Permutation (concat ops) (map (obs_of inv) (def_keys (concat mps))).
Proof.
  induction mps as [|mp mps IH]; intros [|op ops] Hd; cbn [pages_match concat]; try discriminate.
  - intros _. constructor.
  - rewrite andb_true_iff. intros [H1 H2].
    unfold def_keys. rewrite flat_map_app. fold (def_keys mp) (def_keys (concat mps)). rewrite map_app.
    apply Permutation_app; [apply page_matches_perm; [apply Hd; now left | exact H1]|].
    apply IH; [intros m Hm; apply Hd; now right | exact H2].
Qed.

Lemma def_keys_map l : def_keys (map RDef l) = l.
Proof. unfold def_keys. induction l as [|k l IH]; cbn [map flat_map app]; [reflexivity | now rewrite IH]. Qed.
Lemma all_def_map l : all_def (map RDef l).
Proof. intros r Hr. apply in_map_iff in Hr. destruct Hr as (k & <- & _). eauto. Qed.

(** ** the executable graph against the relational one *)
Lemma dedup_pairs_In l x : In x (dedup_pairs l) <-> In x l.
Proof.
  induction l as [|y l IH]; cbn [dedup_pairs]; [tauto|].
  destruct (pmem y l) eqn:E.
  - rewrite IH. apply pmem_In in E. cbn [In]. split; [tauto | intros [<-|H]; assumption].
  - cbn [In]. rewrite IH. tauto.
Qed.
Lemma dedup_pairs_NoDup l : NoDup (dedup_pairs l).
Proof.
  induction l as [|y l IH]; cbn [dedup_pairs]; [constructor|].
  destruct (pmem y l) eqn:E; [assumption|]. constructor; [|assumption].
  rewrite dedup_pairs_In, <- pmem_In. congruence.
Qed.
Lemma dedup_z_In l x : In x (dedup_z l) <-> In x l.
Proof.
  induction l as [|y l IH]; cbn [dedup_z]; [tauto|].
  destruct (zmem y l) eqn:E.
  - rewrite IH. apply zmem_In in E. cbn [In]. split; [tauto | intros [<-|H]; assumption].
  - cbn [In]. rewrite IH. tauto.
Qed.

Lemma ds_sorted_get st ds d : ds_sorted (s_ds st) -> In (ds, d) (s_ds st) -> get_ds st ds = d.
Proof.
  unfold get_ds, ds_sorted. generalize (s_ds st). intros l Hs Hin.
  induction l as [|[k v] l IH]; [destruct Hin|]. cbn [assoc]. cbn [map fst] in Hs. inversion Hs as [|? ? Hs' Hf]; subst.
  destruct Hin as [[= -> ->]|Hin]; [now rewrite Z.eqb_refl|].
  destruct (Z.eqb_spec ds k) as [->|_]; [|now apply IH].
  exfalso. rewrite Forall_forall in Hf. assert (k < k) by (apply Hf; apply in_map_iff; exists (k, d); auto). lia.
Qed.

Lemma get_ds_cases st ds : (exists d, In (ds, d) (s_ds st) /\ get_ds st ds = d) \/ get_ds st ds = dstate0.
Proof.
  unfold get_ds. induction (s_ds st) as [|[k v] l IH]; cbn [assoc]; [now right|].
  destruct (Z.eqb_spec ds k) as [->|Hne].
  - left. exists v. split; [now left | reflexivity].
  - destruct IH as [(d & Hin & He)|He]; [left; exists d; split; [now right | assumption] | now right].
Qed.

Lemma pred_pass_okb fr p : 0 <= f_pred fr -> pred_pass fr p = pred_okb (f_pred fr) p.
Proof.
  intros Hp. unfold pred_pass, pred_okb.
  destruct (Z.eqb_spec (f_pred fr) p) as [->|Hne]; cbn [negb andb]; [now rewrite orb_true_r|].
  rewrite orb_false_r. destruct (Z.eqb_spec (f_pred fr) 0) as [->|Hnz]; [reflexivity|].
  replace (0 <? f_pred fr) with true by (symmetry; apply Z.ltb_lt; lia). reflexivity.
Qed.

Lemma graph_out_char st t sc src pred p tgt : ds_sorted (s_ds st) ->
  In (p, tgt) (graph_out st t sc src pred) <-> pred_okb pred p = true /\ in_graph st t sc src p tgt.
Proof.
  intros Hs. unfold graph_out, in_graph. rewrite dedup_pairs_In, filter_In, in_flat_map. cbn [fst]. split.
  - intros [([ds d] & Hin & Hx) Hp]. cbn [fst snd] in Hx. split; [assumption|].
    destruct (scope_ok sc ds) eqn:Esc; [|destruct Hx]. exists ds. split; [assumption|].
    now rewrite (ds_sorted_get st ds d Hs Hin).
  - intros [Hp (ds & Hsc & Hx)]. split; [|assumption].
    destruct (get_ds_cases st ds) as [(d & Hin & He)|He]; [|rewrite He in Hx; destruct Hx].
    exists (ds, d). split; [assumption|]. cbn [fst snd]. rewrite Hsc, <- He. exact Hx.
Qed.

Lemma best_version_In id at_ l : forall best e, best_version id at_ l best = Some e -> best = Some e \/ (In e l /\ en_id e = id).
Proof.
  induction l as [|x l IH]; intros best e; cbn [best_version]; [now left|].
  destruct (Z.eqb_spec (en_id x) id) as [Hid|Hid]; cbn [andb].
  - destruct (en_time x <=? at_).
    + destruct best as [b|].
      * destruct ((en_time b <? en_time x) || (Z.eqb (en_time b) (en_time x) && (en_bidx b <? en_bidx x))).
        -- intros H. apply IH in H. destruct H as [[= <-]|[H1 H2]]; [right; split; [now left | assumption] | right; split; [now right | assumption]].
        -- intros H. apply IH in H. destruct H as [H|[H1 H2]]; [now left | right; split; [now right | assumption]].
      * intros H. apply IH in H. destruct H as [[= <-]|[H1 H2]]; [right; split; [now left | assumption] | right; split; [now right | assumption]].
    + intros H. apply IH in H. destruct H as [H|[H1 H2]]; [now left | right; split; [now right | assumption]].
  - intros H. apply IH in H. destruct H as [H|[H1 H2]]; [now left | right; split; [now right | assumption]].
Qed.

Lemma live_refs_at_id d src t f : In f (live_refs_at d src t) -> In src (map en_id (d_entries d)).
Proof.
  unfold live_refs_at, version_at. destruct (best_version src t (d_entries d) None) as [e|] eqn:Eb; [|intros []].
  intros _. apply best_version_In in Eb. destruct Eb as [[=]|[Hin Hid]]. apply in_map_iff. eauto.
Qed.

Lemma graph_in_char st t sc tgt pred p src : ds_sorted (s_ds st) ->
  In (p, src) (graph_in st t sc tgt pred) <-> pred_okb pred p = true /\ in_graph st t sc src p tgt.
Proof.
  intros Hs. unfold graph_in, in_graph. rewrite dedup_pairs_In, in_flat_map. split.
  - intros ([ds d] & Hin & Hx). cbn [fst snd] in Hx.
    destruct (scope_ok sc ds) eqn:Esc; [|destruct Hx].
    apply in_flat_map in Hx. destruct Hx as (s & Hs' & Hx). apply in_map_iff in Hx. destruct Hx as ([p' t'] & He & Hf).
    cbn [fst] in He. injection He as -> ->. apply filter_In in Hf. destruct Hf as [Hf Hc]. cbn [fst snd] in Hc.
    apply andb_true_iff in Hc. destruct Hc as [Ht Hp]. apply Z.eqb_eq in Ht. subst t'.
    split; [assumption|]. exists ds. split; [assumption|]. now rewrite (ds_sorted_get st ds d Hs Hin).
  - intros [Hp (ds & Hsc & Hx)].
    destruct (get_ds_cases st ds) as [(d & Hin & He)|He]; [|rewrite He in Hx; destruct Hx].
    exists (ds, d). split; [assumption|]. cbn [fst snd]. rewrite Hsc. apply in_flat_map. exists src. split.
    + apply dedup_z_In. rewrite <- He. eapply live_refs_at_id. exact Hx.
    + apply in_map_iff. exists (p, tgt). split; [reflexivity|]. apply filter_In. split; [now rewrite <- He|].
      cbn [fst snd]. now rewrite Z.eqb_refl, Hp.
Qed.

(** ** booleans of the spec *)
Lemma tmem3_In x l : tmem3 x l = true <-> In x l.
Proof.
  unfold tmem3. rewrite existsb_exists. split.
  - intros (y & Hy & He). apply trip3_eqb_eq in He. now subst.
  - intros H. exists x. split; [assumption | now apply trip3_eqb_eq].
Qed.
Lemma sub3_incl a b : sub3 a b = true <-> incl a b.
Proof. unfold sub3, incl. rewrite forallb_forall. split; intros H x Hx; [apply tmem3_In | apply tmem3_In]; now apply H. Qed.
Lemma nodup3_NoDup l : NoDup l -> nodup3 l = true.
Proof.
  induction 1 as [|x l Hx _ IH]; cbn [nodup3]; [reflexivity|]. rewrite IH, andb_true_r. apply negb_true_iff.
  destruct (tmem3 x l) eqn:E; [apply tmem3_In in E; contradiction | reflexivity].
Qed.

(** ** well-formed cases *)
Definition wf_qop (o : qop) : Prop :=
  match o with
  | QWrite w => wf_wop w
  | QKeys _ => True
  | QHide _ => False       (* dataset deletion is C07's subject: the link theorem is about histories of writes *)
  | QSplit _ _ _ _ _ _ _ _ => False
  | QRelated starts pred _ _ _ limits _ => NoDup starts /\ Forall (fun l => 0 <= l) limits /\ 0 <= pred
  end.
(** the results of every query fit into the fuel of [follow] (checked on the repaired model's keys) *)
Fixpoint small_run (rs : rstore) (ops : list qop) : Prop :=
  match ops with
  | [] => True
  | QWrite w :: ops' => small_run (rapply (v_eq v_fixed) (v_dup v_fixed) rs w) ops'
  | _ :: ops' => (length (rs_keys rs) < fuel0)%nat /\ small_run rs ops'
  end.
Definition wf_case (c : tcase) : Prop := Forall wf_qop (tc_ops c) /\ small_run rstore0 (tc_ops c).

Lemma NoDup_map_inj {A B} (f : A -> B) l : (forall x y, In x l -> In y l -> f x = f y -> x = y) -> NoDup l -> NoDup (map f l).
Proof.
  intros Hinj. induction 1 as [|x l Hx Hn IH]; cbn [map]; [constructor|]. constructor.
  - intros Hin. apply in_map_iff in Hin. destruct Hin as (y & He & Hy).
    assert (y = x) by (apply Hinj; [now right | now left | assumption]). subst. contradiction.
  - apply IH. intros a b Ha Hb. apply Hinj; now right.
Qed.

Lemma NoDup_map_fact {A} (f : rk -> A) (U : list rk) : NoDup (map f U) -> forall a b, In a U -> In b U -> f a = f b -> a = b.
Proof.
  induction U as [|u U IH]; intros Hn a b Ha Hb Hf; [destruct Ha|]. cbn [map] in Hn. inversion Hn as [|? ? Hnu Hn']; subst.
  destruct Ha as [->|Ha], Hb as [->|Hb]; try reflexivity.
  - exfalso. apply Hnu. rewrite Hf. now apply in_map.
  - exfalso. apply Hnu. rewrite <- Hf. now apply in_map.
  - now apply IH.
Qed.

Lemma NoDup_app_intro {A} (a b : list A) : NoDup a -> NoDup b -> (forall x, In x a -> ~ In x b) -> NoDup (a ++ b).
Proof.
  induction 1 as [|x a Hx Hn IH]; intros Hb Hd; cbn [app]; [assumption|]. constructor.
  - intros Hin. apply in_app_or in Hin. destruct Hin as [Hin|Hin]; [contradiction | apply (Hd x); [now left | assumption]].
  - apply IH; [assumption | intros y Hy; apply Hd; now right].
Qed.

Lemma NoDup_flat_map {A B} (f : A -> list B) l :
  NoDup l -> (forall a, In a l -> NoDup (f a)) ->
  (forall a b x, In a l -> In b l -> In x (f a) -> In x (f b) -> a = b) -> NoDup (flat_map f l).
Proof.
  induction 1 as [|a l Ha Hn IH]; intros H1 H2; cbn [flat_map]; [constructor|].
  apply NoDup_app_intro.
  - apply H1. now left.
  - apply IH; [intros; apply H1; now right | intros a0 b x Ha0 Hb; apply H2; now right].
  - intros x Hx Hx'. apply in_flat_map in Hx'. destruct Hx' as (b & Hb & Hxb).
    assert (a = b) by (apply (H2 a b x); [now left | now right | assumption | assumption]). subst. contradiction.
Qed.

Definition gedges (st : store) (fr : rfrom) : list (Z * Z * Z) :=
  map (fun f => (f_start fr, fst f, snd f))
      (if f_inv fr then graph_in st (f_at fr) (f_scope fr) (f_start fr) (f_pred fr)
       else graph_out st (f_at fr) (f_scope fr) (f_start fr) (f_pred fr)).

(** the unlimited result of one start point, as the client sees it: exactly the edges of the graph, each once *)
Lemma Eof_obs fl dm ops rs fr :
  reachable fl dm ops rs -> ds_sorted (s_ds (rs_st rs)) -> f_key fr = None -> 0 <= f_pred fr ->
  NoDup (map (obs_of (f_inv fr)) (Eof (rs_keys rs) fr))
  /\ (forall x, In x (map (obs_of (f_inv fr)) (Eof (rs_keys rs) fr)) <-> In x (gedges (rs_st rs) fr))
  /\ (forall k, In k (Eof (rs_keys rs) fr) -> In k (rs_keys rs) /\ fst (fst (obs_of (f_inv fr) k)) = f_start fr).
Proof.
  intros Hr Hs Hkey Hpred. destruct (reachable_inv _ _ _ _ Hr) as [Hnd _].
  unfold Eof, gedges. destruct (f_inv fr) eqn:Einv.
  - assert (HU : fst (related_in_fixed (rs_keys rs) fr 0) = E_in (rs_keys rs) fr).
    { rewrite (related_in_fixed_page _ _ 0 Hnd) by (left; exact Hkey). rewrite Hkey. cbn [rest]. now rewrite page_take_unlimited. }
    pose proof (incoming_is_graph fl dm ops rs fr Hr Hkey) as Hg.
    pose proof (in_scan_char (rs_keys rs) fr Hnd Hkey) as Hsc.
    destruct (related_in_fixed (rs_keys rs) fr 0) as [U cont]. cbn [fst] in HU. subst U.
    destruct Hg as (_ & HndU & Hchar). destruct Hsc as (_ & _ & Hsub & _).
    assert (Hobs : forall k, In k (E_in (rs_keys rs) fr) -> obs_of true k = (f_start fr, r_pred k, r_src k)).
    { intros k Hk. unfold obs_of. destruct (Hsub k Hk) as (_ & Ht & _). now rewrite Ht. }
    split; [|split].
    + apply NoDup_map_inj; [|eapply NoDup_map_inv; exact HndU].
      intros a b Ha Hb. rewrite (Hobs a Ha), (Hobs b Hb). intros [= H1 H2].
      apply (NoDup_map_fact ifact _ HndU a b Ha Hb). unfold ifact. congruence.
    + intros x. rewrite !in_map_iff. split.
      * intros (k & <- & Hk). rewrite (Hobs k Hk). exists (r_pred k, r_src k). split; [reflexivity|].
        apply (graph_in_char _ _ _ _ _ _ _ Hs). rewrite <- (pred_pass_okb fr) by exact Hpred. apply Hchar.
        apply in_map_iff. exists k. split; [reflexivity | assumption].
      * intros ([p src] & <- & Hf). apply (graph_in_char _ _ _ _ _ _ _ Hs) in Hf.
        rewrite <- (pred_pass_okb fr) in Hf by exact Hpred. apply Hchar in Hf. apply in_map_iff in Hf.
        destruct Hf as (k & Hfk & Hk). exists k. split; [|assumption]. rewrite (Hobs k Hk). unfold ifact in Hfk. now injection Hfk as -> ->.
    + intros k Hk. split; [apply (Hsub k Hk)|]. now rewrite (Hobs k Hk).
  - assert (HU : fst (related_out false (rs_keys rs) fr 0) = E_out (rs_keys rs) fr).
    { rewrite (related_out_page _ _ 0 Hnd) by (left; exact Hkey). rewrite Hkey. cbn [rest]. now rewrite page_take_unlimited. }
    pose proof (outgoing_is_graph fl dm ops rs false fr Hr Hkey) as Hg.
    pose proof (out_scan_char false (rs_keys rs) fr Hnd Hkey) as Hsc.
    destruct (related_out false (rs_keys rs) fr 0) as [U cont]. cbn [fst] in HU. subst U.
    destruct Hg as (_ & HndU & Hchar). destruct Hsc as (_ & _ & Hsub & _).
    assert (Hobs : forall k, In k (E_out (rs_keys rs) fr) -> obs_of false k = (f_start fr, r_pred k, r_tgt k)).
    { intros k Hk. unfold obs_of. destruct (Hsub k Hk) as (_ & Ht & _). now rewrite Ht. }
    split; [|split].
    + apply NoDup_map_inj; [|eapply NoDup_map_inv; exact HndU].
      intros a b Ha Hb. rewrite (Hobs a Ha), (Hobs b Hb). intros [= H1 H2].
      apply (NoDup_map_fact ofact _ HndU a b Ha Hb). unfold ofact. congruence.
    + intros x. rewrite !in_map_iff. split.
      * intros (k & <- & Hk). rewrite (Hobs k Hk). exists (r_pred k, r_tgt k). split; [reflexivity|].
        apply (graph_out_char _ _ _ _ _ _ _ Hs). rewrite <- (pred_pass_okb fr) by exact Hpred. apply Hchar.
        apply in_map_iff. exists k. split; [reflexivity | assumption].
      * intros ([p tgt] & <- & Hf). apply (graph_out_char _ _ _ _ _ _ _ Hs) in Hf.
        rewrite <- (pred_pass_okb fr) in Hf by exact Hpred. apply Hchar in Hf. apply in_map_iff in Hf.
        destruct Hf as (k & Hfk & Hk). exists k. split; [|assumption]. rewrite (Hobs k Hk). unfold ofact in Hfk. now injection Hfk as -> ->.
    + intros k Hk. split; [apply (Hsub k Hk)|]. now rewrite (Hobs k Hk).
Qed.

(** the repaired model returns definite results only *)
Lemma related_all_def q K fr l : q_inv1 q = false -> all_def (fst (related q K fr l)).
Proof.
  intros Hq. unfold related, related_in. rewrite Hq. destruct (f_inv fr).
  - destruct (related_in_fixed K fr l) as [rs c]. cbn [fst]. apply all_def_map.
  - destruct (related_out (q_noadd q) K fr l) as [rs c]. cbn [fst]. apply all_def_map.
Qed.
Lemma many_related_all_def q K froms : q_inv1 q = false -> forall l u, all_def (fst (many_related q K froms l u)).
Proof.
  intros Hq. induction froms as [|fr froms IH]; intros l u; cbn [many_related]; [intros r []|].
  destruct ((0 <? l) || u).
  - pose proof (related_all_def q K fr l Hq) as H1. destruct (related q K fr l) as [rs c]. cbn [fst] in H1.
    specialize (IH (Z.max (l - len rs) 0) u). destruct (many_related q K froms (Z.max (l - len rs) 0) u) as [rs2 cs2]. cbn [fst] in *.
    intros r Hr. apply in_app_or in Hr. destruct Hr; [now apply H1 | now apply IH].
  - specialize (IH l u). destruct (many_related q K froms l u) as [rs2 cs2]. exact IH.
Qed.
Lemma follow_all_def q K limits : q_inv1 q = false -> forall fuel froms p mp, In mp (follow q K froms limits p fuel) -> all_def mp.
Proof.
  intros Hq. induction fuel as [|fuel IH]; intros froms p mp; cbn [follow]; [intros []|].
  pose proof (many_related_all_def q K froms Hq (nth_limit limits p) (Z.eqb (nth_limit limits p) 0)) as H1.
  destruct (many_related q K froms (nth_limit limits p) (Z.eqb (nth_limit limits p) 0)) as [rs cs]. cbn [fst] in H1.
  destruct cs as [|c cs]; [intros [<-|[]]; exact H1|].
  destruct (nth_limit limits p <=? 0); [intros [<-|[]]; exact H1|].
  intros [<-|H]; [exact H1 | now apply (IH _ _ _ H)].
Qed.

(** ** one query *)
Lemma agree_op_spec fl dm ops rs dss o :
  reachable fl dm ops rs -> ds_sorted (s_ds (rs_st rs)) -> wf_qop o ->
  (match o with QWrite _ => True | _ => (length (rs_keys rs) < fuel0)%nat end) ->
  agree_op v_fixed dss rs o = true -> spec_op_ok dss rs o = true.
Proof.
  intros Hr Hs Hwf Hsmall. destruct o as [w|ks|d|? ? ? ? ? ? ? ?|starts pred inverse req at_ limits o_pages]; try reflexivity; [destruct Hwf|].
  destruct Hwf as (Hnds & Hlims & Hpred).
  unfold agree_op, spec_op_ok, query_pages. cbn [v_fixed mk_variant v_q].
  destruct (negb (Z.eqb pred 0) && negb (zmem pred (rs_known rs))) eqn:Eref.
  { destruct o_pages; [discriminate | reflexivity]. }
  unfold to_related_from, spec_edges.
  destruct (forallb (fun s => zmem s (rs_known rs)) starts) eqn:Eknown.
  2:{ destruct o_pages as [ops'|]; [|discriminate]. cbn [pages_match].
      destruct ops' as [|op [|? ?]]; try discriminate.
      - rewrite andb_true_r. unfold page_matches. cbn [match_defs match_choices]. destruct op; [reflexivity | discriminate].
      - rewrite andb_false_r. discriminate. }
  destruct o_pages as [ops'|]; [|discriminate].
  change {| q_inv1 := false; q_scope_all := false; q_noadd := false |} with q_fixed.
  set (mk := fun s => {| f_start := s; f_key := None; f_pred := pred; f_inv := inverse;
                         f_scope := resolve_scope q_fixed dss req; f_at := at_ |}).
  intros Hmatch. destruct (reachable_inv _ _ _ _ Hr) as [Hnd _].
  set (K := rs_keys rs) in *. set (froms := map mk starts) in *.
  (* every start point's unlimited result, as observed triples *)
  assert (Hfr : forall s, f_key (mk s) = None /\ 0 <= f_pred (mk s) /\ f_inv (mk s) = inverse /\ f_start (mk s) = s) by (intros; cbn; auto).
  assert (Hobs := fun s => Eof_obs fl dm ops rs (mk s) Hr Hs eq_refl Hpred). cbn [mk f_inv] in Hobs. fold K in Hobs.
  (* the results of distinct start points are disjoint sets of keys *)
  assert (Hdisj : forall a b x, In a starts -> In b starts -> In x (Eof K (mk a)) -> In x (Eof K (mk b)) -> a = b).
  { intros a b x _ _ Ha Hb. destruct (Hobs a) as (_ & _ & Hka). destruct (Hobs b) as (_ & _ & Hkb).
    destruct (Hka x Ha) as [_ H1]. destruct (Hkb x Hb) as [_ H2]. cbn [mk f_start] in H1, H2. congruence. }
  assert (HndAll : NoDup (flat_map (Eof K) froms)).
  { unfold froms. rewrite flat_map_concat_map, map_map, <- flat_map_concat_map.
    apply NoDup_flat_map; [exact Hnds | intros; apply Eof_NoDup | exact Hdisj]. }
  assert (Hlen : (length (flat_map (Eof K) froms) < fuel0)%nat).
  { eapply Nat.le_lt_trans; [|exact Hsmall]. apply NoDup_incl_length; [exact HndAll|].
    intros k Hk. unfold froms in Hk. apply in_flat_map in Hk. destruct Hk as (fr & Hfr' & Hk). apply in_map_iff in Hfr'.
    destruct Hfr' as (s & <- & _). destruct (Hobs s) as (_ & _ & Hks). apply (Hks k Hk). }
  destruct (follow_many_first q_fixed K limits froms fuel0 Hnd eq_refl eq_refl Hlims) as [Hc _].
  { unfold froms. apply Forall_forall. intros fr Hfr'. apply in_map_iff in Hfr'. destruct Hfr' as (s & <- & _). reflexivity. }
  { exact Hlen. }
  assert (Hc' : concat (follow q_fixed K froms limits 0 fuel0) = map RDef (flat_map (Eof K) froms)).
  { rewrite Hc. unfold froms. clear - Hnd. induction starts as [|s starts IH]; cbn [map flat_map]; [reflexivity|].
    rewrite map_app, IH. now rewrite (unlimited_is_Eof q_fixed K (mk s) Hnd eq_refl eq_refl eq_refl). }
  pose proof (pages_match_perm inverse _ _ (follow_all_def q_fixed K limits eq_refl fuel0 froms 0%nat) Hmatch) as Hperm.
  rewrite Hc', def_keys_map in Hperm.
  (* observed triples = edges of the graph *)
  assert (Hmem : forall x, In x (concat ops') <->
                  In x (flat_map (fun s => map (fun f => (s, fst f, snd f))
                          (if inverse then graph_in (rs_st rs) at_ (spec_scope dss req) s pred
                           else graph_out (rs_st rs) at_ (spec_scope dss req) s pred)) starts)).
  { intros x. rewrite (Permutation_in' eq_refl Hperm). fold (In x).
    rewrite in_map_iff, in_flat_map. split.
    - intros (k & <- & Hk). unfold froms in Hk. apply in_flat_map in Hk. destruct Hk as (fr & Hfr' & Hk).
      apply in_map_iff in Hfr'. destruct Hfr' as (s & <- & Hs'). exists s. split; [assumption|].
      destruct (Hobs s) as (_ & Hm & _). specialize (Hm (obs_of inverse k)). unfold gedges in Hm. cbn [mk f_inv f_start f_at f_scope f_pred] in Hm.
      apply Hm. now apply in_map.
    - intros (s & Hs' & Hx). destruct (Hobs s) as (_ & Hm & _). specialize (Hm x). unfold gedges in Hm. cbn [mk f_inv f_start f_at f_scope f_pred] in Hm.
      apply Hm in Hx. apply in_map_iff in Hx. destruct Hx as (k & <- & Hk). exists k. split; [reflexivity|].
      unfold froms. apply in_flat_map. exists (mk s). split; [now apply in_map | assumption]. }
  rewrite !andb_true_iff. split; [split|].
  - apply sub3_incl. intros x Hx. now apply Hmem.
  - apply sub3_incl. intros x Hx. now apply Hmem.
  - apply nodup3_NoDup. eapply Permutation_NoDup; [apply Permutation_sym, Hperm|].
    apply NoDup_map_inj; [|exact HndAll].
    intros a b Ha Hb He. unfold froms in Ha, Hb. apply in_flat_map in Ha, Hb.
    destruct Ha as (fa & Hfa & Ha). destruct Hb as (fb & Hfb & Hb). apply in_map_iff in Hfa, Hfb.
    destruct Hfa as (sa & <- & Hsa). destruct Hfb as (sb & <- & Hsb).
    destruct (Hobs sa) as (Hna & _ & Hka). destruct (Hobs sb) as (_ & _ & Hkb).
    assert (sa = sb).
    { destruct (Hka a Ha) as [_ H1]. destruct (Hkb b Hb) as [_ H2]. cbn [mk f_start] in H1, H2. rewrite He in H1. congruence. }
    subst sb. apply (NoDup_map_fact (obs_of inverse) _ Hna a b Ha Hb He).
Qed.

(** ** histories *)
Lemma agree_run_spec dss : forall ops0 ops rs,
  reachable (v_eq v_fixed) (v_dup v_fixed) ops0 rs ->
  Forall wf_qop ops -> small_run rs ops ->
  agree_run v_fixed dss rs ops = true -> spec_run dss rs ops = true.
Proof.
  intros ops0 ops. revert ops0. induction ops as [|o ops IH]; intros ops0 rs Hr Hwf Hsmall; [reflexivity|].
  inversion Hwf as [|? ? Ho Hops]; subst.
  destruct o as [w|ks|d|? ? ? ? ? ? ? ?|starts pred inverse req at_ limits o_pages]; [| |destruct Ho|destruct Ho|].
  - cbn [agree_run spec_run small_run] in *. apply (IH (ops0 ++ [w])); try assumption.
    destruct Hr as (Hfl & Hw & ->). split; [assumption|]. split; [apply Forall_app; split; [assumption | constructor; [exact Ho | constructor]]|].
    unfold rrun. rewrite fold_left_app. reflexivity.
  - cbn [agree_run spec_run small_run] in *. rewrite andb_true_iff. intros [_ H]. cbn [spec_op_ok andb].
    destruct Hsmall as [_ Hsm]. now apply (IH ops0).
  - cbn [agree_run spec_run small_run] in *. rewrite andb_true_iff. intros [H1 H2]. destruct Hsmall as [Hsz Hsm].
    apply andb_true_iff. split; [|now apply (IH ops0)].
    destruct Hr as (Hfl & Hw & Hrs).
    apply (agree_op_spec (v_eq v_fixed) (v_dup v_fixed) ops0 rs dss); try assumption.
    + split; [assumption | split; assumption].
    + rewrite Hrs. apply reach_facts.
Qed.

Theorem agree_implies_spec c : wf_case c -> agree v_fixed c = true -> spec_ok c = true.
Proof.
  intros [Hwf Hsmall]. unfold agree, spec_ok. apply (agree_run_spec (tc_ds c) []); try assumption.
  split; [reflexivity | split; [constructor | reflexivity]].
Qed.
