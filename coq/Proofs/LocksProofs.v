(** Proofs about the lock-protocol model (Model/Locks.v) for property C05. *)
From Coq Require Import List NArith Bool Arith Lia Permutation.
From DH Require Import Model.Locks.
Import ListNotations.

(** ** Locks: equality, order *)
Lemma lock_eqb_eq a b : lock_eqb a b = true <-> a = b.
Proof.
  destruct a, b; cbn; try (split; congruence).
  rewrite N.eqb_eq. split; [intros ->; reflexivity | intros [= ->]; reflexivity].
Qed.
Lemma lock_eqb_refl a : lock_eqb a a = true.
Proof. now apply lock_eqb_eq. Qed.
Lemma lock_eqb_neq a b : lock_eqb a b = false <-> a <> b.
Proof.
  split; intros H.
  - intros E. apply lock_eqb_eq in E. congruence.
  - destruct (lock_eqb a b) eqn:E; [|reflexivity]. apply lock_eqb_eq in E. contradiction.
Qed.
Lemma lock_eq_dec (a b : lock) : {a = b} + {a <> b}.
Proof.
  destruct (lock_eqb a b) eqn:E; [left; now apply lock_eqb_eq | right; now apply lock_eqb_neq].
Qed.

Lemma lock_lt_trans a b c : lock_lt a b -> lock_lt b c -> lock_lt a c.
Proof.
  unfold lock_lt. destruct a, b, c; cbn; try congruence.
  rewrite !N.ltb_lt. lia.
Qed.
Lemma lock_lt_irrefl a : ~ lock_lt a a.
Proof. unfold lock_lt. destruct a; cbn; try congruence. rewrite N.ltb_irrefl. congruence. Qed.

Lemma memb_In l ls : memb l ls = true <-> In l ls.
Proof.
  unfold memb. rewrite existsb_exists. split.
  - intros (x & Hx & E). apply lock_eqb_eq in E. now subst.
  - intros H. exists l. split; [assumption | apply lock_eqb_refl].
Qed.
Lemma memb_false l ls : memb l ls = false <-> ~ In l ls.
Proof.
  rewrite <- memb_In. destruct (memb l ls); split; congruence.
Qed.

Lemma In_removeb x l ls : In x (removeb l ls) <-> In x ls /\ x <> l.
Proof.
  induction ls as [|y r IH]; cbn; [tauto|].
  destruct (lock_eqb l y) eqn:E.
  - apply lock_eqb_eq in E. subst y. rewrite IH. split; [tauto|]. intros [[->|H] N]; [contradiction|tauto].
  - apply lock_eqb_neq in E. cbn. rewrite IH. split.
    + intros [->|[H N]]; [split; [now left | congruence] | tauto].
    + intros [[->|H] N]; [now left | right; tauto].
Qed.
Lemma removeb_notin l ls : ~ In l ls -> removeb l ls = ls.
Proof.
  induction ls as [|y r IH]; cbn; [reflexivity|]. intros H.
  destruct (lock_eqb l y) eqn:E.
  - apply lock_eqb_eq in E. subst. tauto.
  - f_equal. apply IH. tauto.
Qed.
Lemma removeb_head l ls : ~ In l ls -> removeb l (l :: ls) = ls.
Proof. intros H. cbn. rewrite lock_eqb_refl. now apply removeb_notin. Qed.
Lemma NoDup_removeb l ls : NoDup ls -> NoDup (removeb l ls).
Proof.
  induction 1 as [|y r Hy Hr IH]; cbn; [constructor|].
  destruct (lock_eqb l y); [assumption|]. constructor; [|assumption].
  rewrite In_removeb. tauto.
Qed.

(** ** Lists *)
Lemma NoDup_app_iff {A} (a b : list A) :
  NoDup (a ++ b) <-> NoDup a /\ NoDup b /\ (forall x, In x a -> ~ In x b).
Proof.
  induction a as [|x a IH]; cbn.
  - split; [intros H; repeat split; [constructor | assumption | tauto] | tauto].
  - rewrite !NoDup_cons_iff, IH, in_app_iff. split.
    + intros (N & Ha & Hb & D). repeat split; try tauto.
      intros y [->|Hy]; [tauto | now apply D].
    + intros ((N & Ha) & Hb & D). repeat split; try tauto.
      * intros [H|H]; [tauto | exact (D x (or_introl eq_refl) H)].
      * intros y Hy. apply D. now right.
Qed.

Lemma set_nth_app {A} (pre : list A) t x post :
  set_nth (length pre) x (pre ++ t :: post) = pre ++ x :: post.
Proof. induction pre as [|y pre IH]; cbn; [reflexivity | now rewrite IH]. Qed.
Lemma nth_error_mid {A} (pre : list A) t post : nth_error (pre ++ t :: post) (length pre) = Some t.
Proof. induction pre; cbn; auto. Qed.
Lemma set_nth_length {A} i (x : A) l : length (set_nth i x l) = length l.
Proof. revert i; induction l as [|y l IH]; intros [|i]; cbn; auto. Qed.

Lemma all_held_app a b : all_held (a ++ b) = all_held a ++ all_held b.
Proof. apply flat_map_app. Qed.
Lemma all_held_mid pre t post : all_held (pre ++ t :: post) = all_held pre ++ held t ++ all_held post.
Proof. rewrite all_held_app. reflexivity. Qed.

(** ** Inversion of the executable semantics *)
Lemma exec_at_inv i c c' :
  exec_at i c = Some c' ->
  exists pre t post t' fs' w,
    threads c = pre ++ t :: post /\ length pre = i /\
    tstep (all_held (threads c)) (feeds c) t = Some (t', fs', w) /\
    c' = {| threads := pre ++ t' :: post; feeds := fs';
            clog := match w with Some ws => clog c ++ [(i, ws)] | None => clog c end |}.
Proof.
  unfold exec_at. destruct (nth_error (threads c) i) as [t|] eqn:Hn; [|discriminate].
  destruct (tstep _ _ t) as [[[t' fs'] w]|] eqn:Ht; [|discriminate].
  intros [= <-]. destruct (nth_error_split _ _ Hn) as (pre & post & Hs & Hl).
  exists pre, t, post, t', fs', w. repeat split; try assumption.
  rewrite Hs, <- Hl, set_nth_app. reflexivity.
Qed.

Lemma exec_at_intro pre t post c t' fs' w :
  threads c = pre ++ t :: post ->
  tstep (all_held (threads c)) (feeds c) t = Some (t', fs', w) ->
  exists c', exec_at (length pre) c = Some c'.
Proof.
  intros Hs Ht. assert (Hn : nth_error (threads c) (length pre) = Some t) by (rewrite Hs; apply nth_error_mid).
  unfold exec_at. rewrite Hn, Ht. eauto.
Qed.

Lemma exec_at_oob i c : length (threads c) <= i -> exec_at i c = None.
Proof. intros H. unfold exec_at. apply nth_error_None in H. now rewrite H. Qed.

Lemma steps_trans a b c : steps a b -> steps b c -> steps a c.
Proof.
  intros H1 H2. induction H2 as [|c c' S IH St]; [assumption|].
  eapply steps_step; eassumption.
Qed.

Lemma run_sched_steps s : forall c c', run_sched s c = Some c' -> steps c c'.
Proof.
  induction s as [|i s IH]; cbn; intros c c' H.
  - injection H as <-. constructor.
  - destruct (exec_at i c) as [c1|] eqn:E; [|discriminate].
    eapply steps_trans; [|apply IH; eassumption].
    eapply steps_step; [apply steps_refl | now exists i].
Qed.

(** [stuck] (boolean) is exactly: work left and no successor in the step relation *)
Lemma stuck_sound c : stuck c = true -> terminal c = false /\ forall c', ~ step c c'.
Proof.
  unfold stuck. rewrite andb_true_iff, negb_true_iff, forallb_forall. intros [T D]. split; [assumption|].
  intros c' [i E]. destruct (Nat.lt_ge_cases i (length (threads c))) as [L|L].
  - specialize (D i). rewrite in_seq in D. unfold disabled in D. rewrite E in D.
    assert (false = true) by (apply D; lia). discriminate.
  - rewrite exec_at_oob in E by assumption. discriminate.
Qed.

(** ** Deadlock freedom by lock order *)
Definition inv_dl (c : config) : Prop :=
  NoDup (all_held (threads c)) /\ Forall (fun t => ordered (held t) (prog t)) (threads c).

Lemma tstep_ordered busy fs t t' fs' w :
  tstep busy fs t = Some (t', fs', w) -> ordered (held t) (prog t) -> ordered (held t') (prog t').
Proof.
  unfold tstep. destruct (prog t) as [|[l|l|d|ws] p] eqn:E; [discriminate| | | |].
  - destruct (memb l busy); [discriminate|]. intros [= <- <- <-]. cbn. tauto.
  - destruct (memb l (held t)); [|discriminate]. intros [= <- <- <-]. cbn. tauto.
  - intros [= <- <- <-]. cbn. tauto.
  - intros [= <- <- <-]. cbn. tauto.
Qed.

Lemma tstep_held busy fs t t' fs' w :
  tstep busy fs t = Some (t', fs', w) ->
  (exists l, ~ In l busy /\ held t' = l :: held t) \/ (exists l, held t' = removeb l (held t)) \/ held t' = held t.
Proof.
  unfold tstep. destruct (prog t) as [|[l|l|d|ws] p] eqn:E; [discriminate| | | |].
  - destruct (memb l busy) eqn:M; [discriminate|]. intros [= <- <- <-]. left. exists l. split; [now apply memb_false | reflexivity].
  - destruct (memb l (held t)); [|discriminate]. intros [= <- <- <-]. right; left. now exists l.
  - intros [= <- <- <-]. right; right. reflexivity.
  - intros [= <- <- <-]. right; right. reflexivity.
Qed.

Lemma NoDup_mid_sub (P H H' Q : list lock) :
  NoDup (P ++ H ++ Q) -> NoDup H' -> (forall x, In x H' -> In x H) -> NoDup (P ++ H' ++ Q).
Proof.
  rewrite !NoDup_app_iff. intros (HP & (HH & HQ & D2) & D1) N S. repeat split; try assumption.
  - intros x Hx. apply D2. now apply S.
  - intros x Hx. specialize (D1 x Hx). rewrite in_app_iff in *. intros [I|I]; apply D1; [left; now apply S | now right].
Qed.

Lemma NoDup_mid_cons (P H Q : list lock) l :
  NoDup (P ++ H ++ Q) -> ~ In l (P ++ H ++ Q) -> NoDup (P ++ (l :: H) ++ Q).
Proof.
  intros N I. apply Permutation_NoDup with (l := l :: P ++ H ++ Q).
  - cbn. apply Permutation_middle.
  - now constructor.
Qed.

Lemma tstep_nodup pre t post busy fs t' fs' w :
  busy = all_held (pre ++ t :: post) ->
  tstep busy fs t = Some (t', fs', w) ->
  NoDup (all_held (pre ++ t :: post)) -> NoDup (all_held (pre ++ t' :: post)).
Proof.
  intros -> Ht. rewrite !all_held_mid. intros N.
  destruct (tstep_held _ _ _ _ _ _ Ht) as [(l & I & ->)|[(l & ->)| ->]].
  - apply NoDup_mid_cons; [assumption|]. now rewrite <- all_held_mid.
  - eapply NoDup_mid_sub; [eassumption | | intros x Hx; now apply In_removeb in Hx].
    apply NoDup_removeb. rewrite !NoDup_app_iff in N. tauto.
  - assumption.
Qed.

Lemma step_inv_dl c c' : inv_dl c -> step c c' -> inv_dl c'.
Proof.
  intros [N F] [i E]. destruct (exec_at_inv _ _ _ E) as (pre & t & post & t' & fs' & w & Hs & Hl & Ht & ->).
  split; cbn.
  - rewrite Hs in N. eapply tstep_nodup; [| eassumption | assumption]. now rewrite Hs.
  - rewrite Hs in F. apply Forall_app in F. destruct F as [F1 F2]. inversion F2 as [|? ? Ft F3]; subst.
    apply Forall_app. split; [assumption|]. constructor; [|assumption].
    eapply tstep_ordered; eassumption.
Qed.

Lemma steps_inv_dl c c' : inv_dl c -> steps c c' -> inv_dl c'.
Proof. intros I S. induction S; [assumption | eapply step_inv_dl; eauto]. Qed.

Lemma all_held_init ps : all_held (map init_thread ps) = [].
Proof. induction ps; cbn; auto. Qed.

Lemma init_inv_dl ps : Forall (ordered []) ps -> inv_dl (init_config ps).
Proof.
  intros F. split; cbn.
  - rewrite all_held_init. constructor.
  - apply Forall_map. eapply Forall_impl; [|exact F]. auto.
Qed.

Lemma max_held (ls : list lock) : ls <> [] -> exists m, In m ls /\ forall h, In h ls -> ~ lock_lt m h.
Proof.
  induction ls as [|x r IH]; [congruence|]. intros _. destruct r as [|y r].
  - exists x. split; [now left|]. intros h [<-|[]]. apply lock_lt_irrefl.
  - destruct IH as (m & Hm & Hmax); [congruence|].
    destruct (lock_ltb m x) eqn:E.
    + exists x. split; [now left|]. intros h [<-|Hh]; [apply lock_lt_irrefl|].
      intros L. apply (Hmax h Hh). eapply lock_lt_trans; eassumption.
    + exists m. split; [now right|]. intros h [<-|Hh]; [unfold lock_lt; congruence | now apply Hmax].
Qed.

Lemma in_all_held l ts : In l (all_held ts) -> exists pre t post, ts = pre ++ t :: post /\ In l (held t).
Proof.
  unfold all_held. rewrite in_flat_map. intros (t & Ht & Hl).
  destruct (in_split _ _ Ht) as (pre & post & ->). eauto.
Qed.

Lemma not_terminal c : terminal c = false -> exists pre t post, threads c = pre ++ t :: post /\ prog t <> [].
Proof.
  unfold terminal. intros H.
  assert (E : exists t, In t (threads c) /\ finished t = false).
  { induction (threads c) as [|t r IH]; cbn in H; [discriminate|].
    destruct (finished t) eqn:F; cbn in H.
    - destruct (IH H) as (u & Hu & Fu). exists u. split; [now right | assumption].
    - exists t. split; [now left | assumption]. }
  destruct E as (t & Ht & F). destruct (in_split _ _ Ht) as (pre & post & ->).
  exists pre, t, post. split; [reflexivity|]. unfold finished in F. destruct (prog t); congruence.
Qed.

(** progress: a configuration in which every thread respects the lock order and
    mutual exclusion holds is terminal or can move *)
Lemma progress c : inv_dl c -> terminal c = false -> exists c', step c c'.
Proof.
  intros [N F] T.
  assert (G : exists pre t post, threads c = pre ++ t :: post /\ prog t <> [] /\
              forall l, In l (all_held (threads c)) -> (forall h, In h (held t) -> lock_lt h l) -> False).
  { destruct (all_held (threads c)) as [|a A] eqn:EA.
    - destruct (not_terminal _ T) as (pre & t & post & Hs & Hp). exists pre, t, post. repeat split; auto.
    - destruct (max_held (a :: A)) as (m & Hm & Hmax); [congruence|].
      rewrite <- EA in Hm. destruct (in_all_held _ _ Hm) as (pre & t & post & Hs & Hl).
      exists pre, t, post. split; [assumption|]. split.
      + rewrite Hs in F. apply Forall_app in F. destruct F as [_ F]. inversion F as [|? ? Ft _]; subst.
        intros E. rewrite E in Ft. cbn in Ft. rewrite Ft in Hl. contradiction.
      + intros l Il Hlt. apply (Hmax l Il). now apply Hlt. }
  destruct G as (pre & t & post & Hs & Hp & Hfree).
  assert (Ft : ordered (held t) (prog t)).
  { rewrite Hs in F. apply Forall_app in F. destruct F as [_ F]. now inversion F. }
  assert (Hsub : forall l, In l (held t) -> In l (all_held (threads c))).
  { intros l Hl. rewrite Hs, all_held_mid, !in_app_iff. tauto. }
  assert (E : exists r, tstep (all_held (threads c)) (feeds c) t = Some r).
  { unfold tstep. destruct (prog t) as [|[l|l|d|ws] p] eqn:EP; [congruence| | | |]; cbn in Ft.
    - destruct (memb l (all_held (threads c))) eqn:M; [|eauto].
      apply memb_In in M. exfalso. apply (Hfree l M). tauto.
    - destruct Ft as [I _]. apply memb_In in I. rewrite I. eauto.
    - eauto.
    - eauto. }
  destruct E as ([[t' fs'] w] & E).
  destruct (exec_at_intro _ _ _ _ _ _ _ Hs E) as (c' & Hc'). exists c'. now exists (length pre).
Qed.

Theorem deadlock_free ps c :
  Forall (ordered []) ps -> steps (init_config ps) c -> terminal c = true \/ exists c', step c c'.
Proof.
  intros F S. destruct (terminal c) eqn:T; [now left | right].
  apply progress; [|assumption]. eapply steps_inv_dl; [apply init_inv_dl|]; eassumption.
Qed.

Corollary never_stuck ps c : Forall (ordered []) ps -> steps (init_config ps) c -> stuck c = false.
Proof.
  intros F S. destruct (stuck c) eqn:E; [|reflexivity]. apply stuck_sound in E. destruct E as [T NS].
  destruct (deadlock_free _ _ F S) as [T'|[c' St]]; [congruence | exfalso; eapply NS; eassumption].
Qed.

(** ** Refutation witnesses for the pinned tree (closed by vm_compute over the small-step semantics) *)
Lemma sched_reaches_stuck s c :
  (match run_sched s c with Some c' => stuck c' | None => false end) = true ->
  exists c', steps c c' /\ terminal c' = false /\ forall c'', ~ step c' c''.
Proof.
  destruct (run_sched s c) as [c'|] eqn:E; [|discriminate]. intros St.
  exists c'. split; [eapply run_sched_steps; eassumption | now apply stuck_sound].
Qed.

Definition wit_part (d : lock) (k : marker) : part := {| p_ds := d; p_ms := [k]; p_new := true |}.
(** two transactions over {d1, d2}; Go's map iteration hands the datasets to the lock loop in opposite orders *)
Definition wit_txn_12 : op := OTxn [wit_part (LDs 1) 1%N; wit_part (LDs 2) 1%N] [LDs 1; LDs 2] [LDs 1; LDs 2].
Definition wit_txn_21 : op := OTxn [wit_part (LDs 1) 1001%N; wit_part (LDs 2) 1001%N] [LDs 2; LDs 1] [LDs 1; LDs 2].
(** one transaction that names core.Dataset and a dataset that gets new items *)
Definition wit_txn_core : op := OTxn [wit_part (LDs 1) 1%N; wit_part LCore 1%N] [LCore; LDs 1] [LCore; LDs 1].

Lemma refuted_txn_order :
  op_wf current wit_txn_12 = true /\ op_wf current wit_txn_21 = true /\
  op_no_core_txn wit_txn_12 = true /\ op_no_core_txn wit_txn_21 = true /\
  exists c, steps (init_config [prog_of_ops current [wit_txn_12]; prog_of_ops current [wit_txn_21]]) c
            /\ terminal c = false /\ forall c', ~ step c c'.
Proof.
  repeat (split; [vm_compute; reflexivity|]).
  apply sched_reaches_stuck with (s := [0; 1]). vm_compute. reflexivity.
Qed.

Lemma refuted_core_in_txn :
  op_wf v_order_sorted_core_locks wit_txn_core = true /\
  exists c, steps (init_config [prog_of_ops v_order_sorted_core_locks [wit_txn_core]]) c
            /\ terminal c = false /\ forall c', ~ step c c'.
Proof.
  split; [vm_compute; reflexivity|].
  apply sched_reaches_stuck with (s := [0; 0; 0; 0; 0]). vm_compute. reflexivity.
Qed.

(** ** The programs generated from operations respect the lock order (repaired variant) *)
Lemma ordered_app H p q : ordered H p -> ordered [] q -> ordered H (p ++ q).
Proof.
  revert H. induction p as [|[l|l|d|ws] p IH]; cbn; intros H Hp Hq.
  - now subst.
  - split; [tauto | apply IH; tauto].
  - split; [tauto | apply IH; tauto].
  - now apply IH.
  - now apply IH.
Qed.

Lemma ordered_reads H l r : ordered H r -> ordered H (map Read l ++ r).
Proof. induction l; cbn; auto. Qed.

Definition all_ds (H : list lock) : Prop := forall h, In h H -> is_ds h = true.

Lemma is_ds_lt_core h : is_ds h = true -> lock_lt h LCore.
Proof. destruct h; cbn; congruence || reflexivity. Qed.
Lemma is_ds_not_core h : is_ds h = true -> h <> LCore.
Proof. destruct h; cbn; congruence. Qed.

(** the nested core.Dataset update is in order below any set of #dsm / dataset locks *)
Lemma ordered_core_update H m r :
  (forall h, In h H -> lock_lt h LCore) -> ordered H r -> ordered H (core_update m ++ r).
Proof.
  intros Hlt Hr. cbn. split; [assumption|]. split; [now left|].
  rewrite removeb_notin; [assumption|]. intros I. apply (lock_lt_irrefl LCore). now apply Hlt.
Qed.

Lemma ordered_acqs ao : forall H r,
  sortedb ao = true -> (forall h x, In h H -> In x ao -> lock_lt h x) ->
  ordered (rev ao ++ H) r -> ordered H (map Acq ao ++ r).
Proof.
  induction ao as [|x ao IH]; cbn; intros H r S Hlt Hr; [assumption|].
  apply andb_true_iff in S. destruct S as [Sx S]. rewrite forallb_forall in Sx.
  split; [intros h Hh; apply Hlt; auto|].
  apply IH; [assumption | | now rewrite <- app_assoc in Hr].
  intros h y [<-|Hh] Hy; [now apply Sx | apply Hlt; auto].
Qed.

Lemma ordered_rels L : NoDup L -> ordered L (map Rel L).
Proof.
  induction 1 as [|x L Hx HL IH]; cbn; [reflexivity|].
  split; [now left|]. rewrite lock_eqb_refl, removeb_notin; assumption.
Qed.

Lemma nodupb_NoDup ls : nodupb ls = true -> NoDup ls.
Proof.
  induction ls as [|x r IH]; cbn; [constructor|]. rewrite andb_true_iff, negb_true_iff, memb_false.
  intros [N R]. constructor; auto.
Qed.
Lemma subsetb_incl a b : subsetb a b = true -> forall x, In x a -> In x b.
Proof. unfold subsetb. rewrite forallb_forall. intros H x Hx. apply memb_In. now apply H. Qed.

Lemma permb_spec a b : permb a b = true ->
  NoDup a /\ NoDup b /\ (forall x, In x a <-> In x b).
Proof.
  unfold permb. rewrite !andb_true_iff. intros [[[Na Nb] Sab] Sba].
  repeat split; auto using nodupb_NoDup; [now apply subsetb_incl | now apply subsetb_incl].
Qed.

Lemma ordered_updates (ks : list part) uo H r :
  (forall h, In h H -> lock_lt h LCore) -> ordered H r ->
  ordered H (flat_map (fun d => match find_part d ks with Some p => part_update p | None => [] end) uo ++ r).
Proof.
  intros Hlt Hr. induction uo as [|d uo IH]; cbn; [assumption|].
  rewrite <- app_assoc. destruct (find_part d ks) as [p|]; [|exact IH].
  unfold part_update. destruct (p_new p && negb (is_core (p_ds p))); [|exact IH].
  now apply ordered_core_update.
Qed.

Lemma name_sorted_sorted ls : (forall x, In x ls -> is_ds x = true) -> name_sortedb ls = true -> sortedb ls = true.
Proof.
  induction ls as [|x r IH]; cbn; [reflexivity|]. intros D. rewrite !andb_true_iff. intros [F S].
  split; [|apply IH; auto]. rewrite forallb_forall in *. intros y Hy. specialize (F y Hy).
  pose proof (D x (or_introl eq_refl)) as Dx. pose proof (D y (or_intror Hy)) as Dy.
  destruct x, y; cbn in *; congruence.
Qed.

Lemma ordered_txn ks ao uo :
  permb ao (part_keys ks) = true -> name_sortedb ao = true ->
  negb (memb LDsm (part_keys ks)) = true -> negb (memb LCore (part_keys ks)) = true ->
  ordered [] (txn_prog ks ao uo).
Proof.
  intros P S0 ND NC. destruct (permb_spec _ _ P) as (Na & _ & Iff).
  rewrite negb_true_iff, memb_false in ND, NC.
  assert (S : sortedb ao = true).
  { apply name_sorted_sorted; [|assumption]. intros h Hh. apply Iff in Hh. destruct h; cbn; [tauto | reflexivity | tauto]. }
  assert (Hds : forall h, In h ao -> lock_lt h LCore).
  { intros h Hh. apply is_ds_lt_core. apply Iff in Hh. destruct h; cbn; [tauto | reflexivity | tauto]. }
  unfold txn_prog. apply ordered_acqs; [assumption | intros h x []|].
  rewrite app_nil_r. apply ordered_reads. cbn [app ordered].
  apply ordered_updates.
  - intros h Hh. apply Hds. now apply in_rev.
  - apply ordered_rels. now apply NoDup_rev.
Qed.

(** an operation the repaired code can execute: oracles well-formed, core.Dataset not inside a
    transaction unless such transactions are refused *)
Definition op_safe (v : variant) (o : op) : bool :=
  op_wf v o && match v_core v with CoreRejected => true | CoreLocks => op_no_core_txn o end.

Lemma ordered_batch p : lock_eqb (p_ds p) LDsm = false -> ordered [] (batch_prog p).
Proof.
  intros Hd. apply lock_eqb_neq in Hd. unfold batch_prog. cbn [app ordered].
  split; [intros h []|].
  unfold part_update. destruct (p_new p && negb (is_core (p_ds p))) eqn:E.
  - apply andb_true_iff in E. destruct E as [_ E]. apply negb_true_iff in E.
    apply ordered_core_update.
    + intros h [<-|[]]. destruct (p_ds p); cbn in *; congruence || reflexivity.
    + cbn. split; [now left|]. now rewrite lock_eqb_refl.
  - cbn. split; [now left|]. now rewrite lock_eqb_refl.
Qed.

Lemma ordered_op v o : v_order v = Sorted -> op_safe v o = true -> ordered [] (prog_of_op v o).
Proof.
  intros Hv Hs. unfold op_safe in Hs. apply andb_true_iff in Hs. destruct Hs as [Hwf Hc].
  destruct o as [p|ks ao uo|ks|d isnew|d m|d present]; cbn [prog_of_op].
  - cbn in Hwf. apply ordered_batch. now apply negb_true_iff.
  - cbn in Hwf. rewrite Hv in Hwf. rewrite !andb_true_iff in Hwf. destruct Hwf as [[[P _] ND] S].
    destruct (v_core v).
    + cbn in Hc. now apply ordered_txn.
    + destruct (memb LCore (part_keys ks)) eqn:M; [reflexivity|]. apply ordered_txn; auto. now rewrite M.
  - cbn in Hwf. rewrite Hv in Hwf. rewrite !andb_true_iff in Hwf. destruct Hwf as [[Nd NDsm] S].
    assert (G : negb (memb LCore ks) = true -> ordered [] (map Acq ks ++ map Rel (rev ks))).
    { intros NC. rewrite negb_true_iff, memb_false in NDsm, NC.
      apply ordered_acqs; [| intros h x [] |].
      - apply name_sorted_sorted; [|assumption]. intros h Hh. destruct h; cbn; [tauto | reflexivity | tauto].
      - rewrite app_nil_r. apply ordered_rels. apply NoDup_rev. now apply nodupb_NoDup. }
    destruct (v_core v).
    + cbn in Hc. now apply G.
    + destruct (memb LCore ks) eqn:M; [reflexivity|]. apply G. rewrite ?M. reflexivity.
  - cbn. split; [intros h []|]. destruct isnew.
    + apply ordered_core_update; [intros h [<-|[]]; reflexivity|]. cbn. auto.
    + cbn. auto.
  - destruct m as [| | |d']; cbn; rewrite ?N.eqb_refl; cbn; intuition (try discriminate; subst; try reflexivity; auto).
  - cbn. split; [intros h []|]. destruct present.
    + apply ordered_core_update; [intros h [<-|[]]; reflexivity|]. cbn. auto.
    + cbn. auto.
Qed.

Lemma ordered_ops v os :
  v_order v = Sorted -> forallb (op_safe v) os = true -> ordered [] (prog_of_ops v os).
Proof.
  intros Hv. induction os as [|o os IH]; cbn; [reflexivity|]. rewrite andb_true_iff. intros [Ho Hos].
  apply ordered_app; [now apply ordered_op | now apply IH].
Qed.

(** no deadlock for any finite set of clients, each running any sequence of operations *)
Theorem deadlock_free_ops v (clients : list (list op)) c :
  v_order v = Sorted -> forallb (forallb (op_safe v)) clients = true ->
  steps (init_config (map (prog_of_ops v) clients)) c ->
  terminal c = true \/ exists c', step c c'.
Proof.
  intros Hv Hs. apply deadlock_free. apply Forall_map. apply Forall_forall. intros os Hos.
  rewrite forallb_forall in Hs. apply ordered_ops; auto.
Qed.

(** ** Every run ends: each step consumes one instruction, and a non-terminal configuration can move *)
Definition work (c : config) : nat := length (flat_map prog (threads c)).

Lemma tstep_prog busy fs t t' fs' w : tstep busy fs t = Some (t', fs', w) -> exists x, prog t = x :: prog t'.
Proof.
  unfold tstep. destruct (prog t) as [|[l|l|d|ws] p] eqn:E; [discriminate| | | |].
  - destruct (memb l busy); [discriminate|]. intros [= <- <- <-]. eauto.
  - destruct (memb l (held t)); [|discriminate]. intros [= <- <- <-]. eauto.
  - intros [= <- <- <-]. eauto.
  - intros [= <- <- <-]. eauto.
Qed.

Lemma step_work c c' : step c c' -> work c = S (work c').
Proof.
  intros [i E]. destruct (exec_at_inv _ _ _ E) as (pre & t & post & t' & fs' & w & Hs & Hl & Ht & ->).
  unfold work. cbn. rewrite Hs, !flat_map_app. cbn. destruct (tstep_prog _ _ _ _ _ _ Ht) as (x & ->).
  repeat (rewrite app_length; cbn [length app]). lia.
Qed.

Lemma completes_from n : forall c, work c = n -> inv_dl c -> exists c', steps c c' /\ terminal c' = true.
Proof.
  induction n as [|n IH]; intros c W I; (destruct (terminal c) eqn:T; [exists c; split; [constructor | assumption]|]);
    destruct (progress _ I T) as (c1 & S1); pose proof (step_work _ _ S1) as W1.
  - lia.
  - destruct (IH c1) as (c' & S' & T'); [lia | eapply step_inv_dl; eassumption|].
    exists c'. split; [|assumption]. eapply steps_trans; [|eassumption].
    eapply steps_step; [constructor | assumption].
Qed.

Theorem always_completes ps c :
  Forall (ordered []) ps -> steps (init_config ps) c -> exists c', steps c c' /\ terminal c' = true.
Proof.
  intros F S. eapply completes_from; [reflexivity|]. eapply steps_inv_dl; [apply init_inv_dl|]; eassumption.
Qed.
