(** Lemmas about Model/Namespace.v: decimal printing, URL splitting, the
    prefix <-> expansion bijection and its permanence, context snapshots. *)
From Coq Require Import List NArith Bool Arith Lia.
From DH Require Import Lib.CheckLib Model.Namespace.
Import ListNotations.
Open Scope N_scope.

(** ** strings *)
Lemma str_eqb_eq a b : str_eqb a b = true <-> a = b.
Proof. apply list_eqb_eq. intros; apply N.eqb_eq. Qed.
Lemma str_eqb_refl a : str_eqb a a = true.
Proof. now apply str_eqb_eq. Qed.
Lemma str_eqb_neq a b : a <> b -> str_eqb a b = false.
Proof. intros H. destruct (str_eqb a b) eqn:E; [apply str_eqb_eq in E; contradiction | reflexivity]. Qed.
Lemma str_eqb_false a b : str_eqb a b = false -> a <> b.
Proof. intros H ->. rewrite str_eqb_refl in H. discriminate. Qed.

(** ** association lists *)
Section AssocLemmas.
  Context {K V : Type} (eqb : K -> K -> bool).
  Hypothesis eqb_spec : forall x y, eqb x y = true <-> x = y.

  Lemma eqb_refl' x : eqb x x = true.
  Proof. now apply eqb_spec. Qed.
  Lemma eqb_neq' x y : x <> y -> eqb x y = false.
  Proof. intros H. destruct (eqb x y) eqn:E; [apply eqb_spec in E; contradiction | reflexivity]. Qed.

  Lemma lookup_set_same k v (m : list (K * V)) : lookup eqb k (set eqb k v m) = Some v.
  Proof.
    induction m as [|[k' v'] m IH]; cbn.
    - now rewrite eqb_refl'.
    - destruct (eqb k k') eqn:E; cbn; rewrite ?eqb_refl', ?E; auto.
  Qed.

  Lemma lookup_set_other k k' v (m : list (K * V)) : k' <> k -> lookup eqb k' (set eqb k v m) = lookup eqb k' m.
  Proof.
    intros Hn. induction m as [|[k2 v2] m IH]; cbn.
    - now rewrite (eqb_neq' _ _ Hn).
    - destruct (eqb k k2) eqn:E; cbn.
      + apply eqb_spec in E. subst k2. now rewrite (eqb_neq' _ _ Hn).
      + destruct (eqb k' k2); auto.
  Qed.

  Lemma lookup_In k v (m : list (K * V)) : lookup eqb k m = Some v -> In (k, v) m.
  Proof.
    induction m as [|[k' v'] m IH]; cbn; [discriminate|].
    destruct (eqb k k') eqn:E.
    - apply eqb_spec in E. intros [= ->]. subst. now left.
    - intros H. right. auto.
  Qed.

  Lemma lookup_None k (m : list (K * V)) : lookup eqb k m = None <-> ~ In k (map fst m).
  Proof.
    induction m as [|[k' v'] m IH]; cbn; [tauto|].
    destruct (eqb k k') eqn:E.
    - apply eqb_spec in E. subst. split; [discriminate | intros H; exfalso; apply H; now left].
    - rewrite IH. split; [intros H [H1|H1]; [subst; rewrite eqb_refl' in E; discriminate | auto] | tauto].
  Qed.

  Lemma set_fresh k v (m : list (K * V)) : lookup eqb k m = None -> set eqb k v m = m ++ [(k, v)].
  Proof.
    induction m as [|[k' v'] m IH]; cbn; [reflexivity|].
    destruct (eqb k k'); [discriminate|]. intros H. now rewrite IH.
  Qed.

  Lemma In_lookup k v (m : list (K * V)) : NoDup (map fst m) -> In (k, v) m -> lookup eqb k m = Some v.
  Proof.
    induction m as [|[k' v'] m IH]; cbn; [tauto|].
    intros Hnd [H|H].
    - injection H as -> ->. now rewrite eqb_refl'.
    - inversion Hnd as [|? ? Hni Hnd']; subst.
      destruct (eqb k k') eqn:E.
      + apply eqb_spec in E. subst. exfalso. apply Hni. now apply (in_map fst) in H.
      + auto.
  Qed.

  Lemma lookup_app k (a b : list (K * V)) :
    lookup eqb k (a ++ b) = match lookup eqb k a with Some v => Some v | None => lookup eqb k b end.
  Proof.
    induction a as [|[k' v'] a IH]; cbn; [reflexivity|]. destruct (eqb k k'); auto.
  Qed.
End AssocLemmas.

Definition slookup_set_same {V} := @lookup_set_same str V str_eqb str_eqb_eq.
Definition slookup_set_other {V} := @lookup_set_other str V str_eqb str_eqb_eq.
Definition slookup_In {V} := @lookup_In str V str_eqb str_eqb_eq.
Definition slookup_None {V} := @lookup_None str V str_eqb str_eqb_eq.
Definition sset_fresh {V} := @set_fresh str V str_eqb.
Definition sIn_lookup {V} := @In_lookup str V str_eqb str_eqb_eq.
Definition slookup_app {V} := @lookup_app str V str_eqb.

(** ** decimal printing is injective *)
Lemma undec_dec_rev f n : n < 2 ^ N.of_nat f -> undec_rev (dec_rev f n) = n.
Proof.
  revert n. induction f as [|f IH]; intros n Hn.
  - change (N.of_nat 0) with 0 in Hn. rewrite N.pow_0_r in Hn. assert (n = 0) by lia. subst. reflexivity.
  - cbn [dec_rev undec_rev].
    assert (Hd : 48 + n mod 10 - 48 = n mod 10) by (generalize (n mod 10); intros; lia). rewrite Hd.
    destruct (n <? 10) eqn:E.
    + apply N.ltb_lt in E. cbn [undec_rev]. rewrite N.mod_small by assumption. lia.
    + apply N.ltb_ge in E. rewrite IH.
      * pose proof (N.div_mod n 10 ltac:(lia)). lia.
      * rewrite Nnat.Nat2N.inj_succ, N.pow_succ_r' in Hn.
        apply N.div_lt_upper_bound; [lia|].
        assert (2 * 2 ^ N.of_nat f <= 10 * 2 ^ N.of_nat f) by (apply N.mul_le_mono_r; lia). lia.
Qed.

Lemma dec_fuel_ok n : n < 2 ^ N.of_nat (dec_fuel n).
Proof.
  unfold dec_fuel. rewrite Nnat.Nat2N.inj_succ, Nnat.N2Nat.id.
  destruct n as [|p]; [cbn; lia|]. apply N.log2_spec. lia.
Qed.

Lemma dec_inj a b : dec a = dec b -> a = b.
Proof.
  unfold dec. intros H.
  assert (H' : dec_rev (dec_fuel a) a = dec_rev (dec_fuel b) b).
  { rewrite <- (rev_involutive (dec_rev (dec_fuel a) a)), H. apply rev_involutive. }
  rewrite <- (undec_dec_rev _ _ (dec_fuel_ok a)), H'. apply undec_dec_rev, dec_fuel_ok.
Qed.

Lemma dec_rev_digits f n : Forall (fun d => 48 <= d <= 57) (dec_rev f n).
Proof.
  revert n. induction f as [|f IH]; intros n; cbn [dec_rev]; constructor.
  - pose proof (N.mod_upper_bound n 10 ltac:(lia)) as Hm. revert Hm. generalize (n mod 10). intros; lia.
  - destruct (n <? 10); [constructor | apply IH].
Qed.

Lemma dec_digits n : Forall (fun d => 48 <= d <= 57) (dec n).
Proof. unfold dec. apply Forall_rev, dec_rev_digits. Qed.

Lemma ns_name_inj a b : ns_name a = ns_name b -> a = b.
Proof.
  unfold ns_name. intros H. apply app_inv_head in H. apply dec_inj in H. lia.
Qed.

Lemma ns_name_no_colon n : ~ In c_colon (ns_name n).
Proof.
  unfold ns_name, s_ns, c_colon. cbn [app]. intros [H|[H|H]]; try discriminate.
  pose proof (dec_digits (N.of_nat n)) as F. rewrite Forall_forall in F. apply F in H. lia.
Qed.

Lemma ns_name_nonempty n : nonempty (ns_name n) = true.
Proof. reflexivity. Qed.

(** ** splitting *)
Lemma last_index_None c s : last_index c s = None <-> ~ In c s.
Proof.
  induction s as [|x s IH]; cbn; [tauto|].
  destruct (last_index c s) eqn:E.
  - split; [discriminate|]. intros H. exfalso.
    assert (Hn : ~ In c s) by tauto. apply IH in Hn. discriminate.
  - destruct (N.eqb x c) eqn:Ex.
    + apply N.eqb_eq in Ex. split; [discriminate | intros H; exfalso; apply H; now left].
    + apply N.eqb_neq in Ex. split; [|reflexivity]. intros _ [H|H]; [contradiction|]. now apply IH.
Qed.

Lemma url_parts_app u a b : url_parts u = Some (a, b) -> a ++ b = u.
Proof.
  unfold url_parts, split_after.
  destruct (last_index c_hash u) as [n|]; [intros [= <- <-]; exact (firstn_skipn (S n) u)|].
  destruct (last_index c_slash u) as [n|]; [intros [= <- <-]; exact (firstn_skipn (S n) u)|discriminate].
Qed.

Lemma has_prefix_app p s : has_prefix p s = true -> exists r, s = p ++ r.
Proof.
  revert s. induction p as [|a p IH]; intros s; cbn.
  - exists s. reflexivity.
  - destruct s as [|b s]; [discriminate|]. rewrite andb_true_iff, N.eqb_eq. intros [-> H].
    destruct (IH _ H) as [r ->]. now exists r.
Qed.

Lemma is_http_slash u : is_http u = true -> In c_slash u.
Proof.
  unfold is_http. rewrite orb_true_iff. intros [H|H]; apply has_prefix_app in H; destruct H as [r ->]; cbn; unfold c_slash; tauto.
Qed.

Lemma url_parts_http u : is_http u = true -> exists a b, url_parts u = Some (a, b).
Proof.
  intros H. unfold url_parts, split_after. destruct (last_index c_hash u); [eauto|].
  destruct (last_index c_slash u) eqn:E; [eauto|].
  apply last_index_None in E. exfalso. apply E. now apply is_http_slash.
Qed.

Lemma split_first_app c p l : ~ In c p -> split_first c (p ++ c :: l) = Some (p, l).
Proof.
  induction p as [|x p IH]; cbn; intros H.
  - now rewrite N.eqb_refl.
  - destruct (N.eqb x c) eqn:E; [apply N.eqb_eq in E; exfalso; apply H; now left|].
    rewrite IH; [reflexivity | tauto].
Qed.

(** ** the bijection invariant *)
Definition nsinv (m : nsmaps) : Prop :=
  map fst (p2e m) = map ns_name (seq 0 (length (p2e m)))
  /\ (forall p e, slookup p (p2e m) = Some e <-> slookup e (e2p m) = Some p).
Definition st_inv (st : nsstate) : Prop := nsinv (mem st) /\ dsk st = mem st.

(** [m'] still contains every mapping of [m] *)
Definition p2e_ext (m m' : list (str * str)) : Prop := forall p e, slookup p m = Some e -> slookup p m' = Some e.

Lemma nsinv_empty : nsinv ns_empty.
Proof. split; [reflexivity|]. intros p e; cbn; split; discriminate. Qed.

Lemma st_inv_init : st_inv ns_init.
Proof. split; [apply nsinv_empty | reflexivity]. Qed.

Lemma nsinv_key_fresh m : nsinv m -> slookup (ns_name (length (p2e m))) (p2e m) = None.
Proof.
  intros [Hk _]. apply slookup_None. rewrite Hk, in_map_iff. intros (i & Hi & Hin).
  apply ns_name_inj in Hi. apply in_seq in Hin. lia.
Qed.

Lemma nsinv_no_empty_prefix m e : nsinv m -> slookup e (e2p m) <> Some [].
Proof.
  intros [Hk Hb] H. apply Hb in H. apply slookup_In in H. apply (in_map fst) in H. cbn in H.
  rewrite Hk, in_map_iff in H. destruct H as (i & Hi & _). unfold ns_name, s_ns in Hi. discriminate.
Qed.

Lemma assert_prefix_spec e st :
  st_inv st ->
  let '(st', p) := assert_prefix e st in
  st_inv st' /\ slookup p (p2e (mem st')) = Some e /\ slookup e (e2p (mem st')) = Some p
  /\ p2e_ext (p2e (mem st)) (p2e (mem st'))
  /\ (forall x y, slookup x (e2p (mem st)) = Some y -> slookup x (e2p (mem st')) = Some y)
  /\ (exists n, p = ns_name n).
Proof.
  intros [Hinv Hd]. unfold assert_prefix.
  assert (Hfresh :
    slookup e (e2p (mem st)) = None ->
    let p := ns_name (length (p2e (mem st))) in
    let m' := {| p2e := sset p e (p2e (mem st)); e2p := sset e p (e2p (mem st)) |} in
    st_inv {| mem := m'; dsk := m' |} /\ slookup p (p2e m') = Some e /\ slookup e (e2p m') = Some p
    /\ p2e_ext (p2e (mem st)) (p2e m')
    /\ (forall x y, slookup x (e2p (mem st)) = Some y -> slookup x (e2p m') = Some y)
    /\ (exists n, p = ns_name n)).
  { intros Hnone p m'. pose proof (nsinv_key_fresh _ Hinv) as Hpf. fold p in Hpf.
    destruct Hinv as [Hk Hb].
    assert (Hp2e : p2e m' = p2e (mem st) ++ [(p, e)]) by (apply sset_fresh; exact Hpf).
    subst m'. cbn [mem p2e e2p dsk] in *.
    repeat split; cbn [mem p2e e2p dsk].
    - rewrite Hp2e, map_app, app_length, Hk. cbn [length map]. rewrite Nat.add_1_r, seq_S, map_app.
      cbn [map fst]. reflexivity.
    - intros H.
      destruct (str_eqb p0 p) eqn:Ep.
      + apply str_eqb_eq in Ep. subst p0. rewrite (slookup_set_same p e) in H. injection H as <-.
        apply slookup_set_same.
      + apply str_eqb_false in Ep. rewrite (slookup_set_other p p0 e _ Ep) in H.
        destruct (str_eqb e0 e) eqn:Ee.
        * apply str_eqb_eq in Ee. subst e0. apply Hb in H. congruence.
        * apply str_eqb_false in Ee. rewrite (slookup_set_other e e0 p _ Ee). now apply Hb.
    - intros H.
      destruct (str_eqb e0 e) eqn:Ee.
      + apply str_eqb_eq in Ee. subst e0. rewrite (slookup_set_same e p) in H. injection H as <-.
        apply slookup_set_same.
      + apply str_eqb_false in Ee. rewrite (slookup_set_other e e0 p _ Ee) in H.
        destruct (str_eqb p0 p) eqn:Ep.
        * apply str_eqb_eq in Ep. subst p0. apply Hb in H. congruence.
        * apply str_eqb_false in Ep. rewrite (slookup_set_other p p0 e _ Ep). now apply Hb.
    - cbn. apply slookup_set_same.
    - cbn. apply slookup_set_same.
    - intros x y Hxy. rewrite slookup_set_other; [assumption|].
      intros ->. congruence.
    - intros x y Hxy. rewrite slookup_set_other; [assumption|].
      intros ->. congruence.
    - now exists (length (p2e (mem st))). }
  destruct (slookup e (e2p (mem st))) as [p|] eqn:El.
  - destruct (nonempty p) eqn:Ene.
    + split; [split; assumption|]. split; [now apply Hinv|]. split; [assumption|].
      split; [intros x y H; exact H|]. split; [intros x y H; exact H|].
      destruct Hinv as [Hk Hb]. apply Hb in El. apply slookup_In in El. apply (in_map fst) in El. cbn in El.
      rewrite Hk, in_map_iff in El. destruct El as (i & Hi & _). now exists i.
    + destruct p; [|discriminate]. exfalso. now apply (nsinv_no_empty_prefix _ e Hinv).
  - now apply Hfresh.
Qed.

Lemma ns_restart_id st : st_inv st -> ns_restart st = st.
Proof. intros [_ Hd]. destruct st as [m d]. cbn in *. subst. reflexivity. Qed.

(** ** expand (compact u) = u *)
Lemma expand_in_ext m m' c u : p2e_ext m m' -> expand_in m c = Some u -> expand_in m' c = Some u.
Proof.
  unfold expand_in. intros He. destruct (split_first c_colon c) as [[p post]|]; [|discriminate].
  destruct (slookup p m) as [e|] eqn:E; [|discriminate]. now rewrite (He _ _ E).
Qed.

Lemma compact_spec u st :
  st_inv st -> is_http u = true ->
  exists st' c, compact u st = (st', Some c) /\ st_inv st' /\ expand_curie c st' = Some u
                /\ p2e_ext (p2e (mem st)) (p2e (mem st')).
Proof.
  intros Hinv Hh. unfold compact. rewrite Hh.
  destruct (url_parts_http _ Hh) as (e & l & Hup). rewrite Hup.
  pose proof (assert_prefix_spec e st Hinv) as Ha. destruct (assert_prefix e st) as [st' p].
  destruct Ha as (Hi' & Hpe & _ & Hext & _ & (n & ->)).
  exists st', (ns_name n ++ c_colon :: l). split; [reflexivity|]. split; [assumption|]. split; [|assumption].
  unfold expand_curie, expand_in. rewrite (split_first_app _ _ _ (ns_name_no_colon n)), Hpe.
  f_equal. now apply url_parts_app.
Qed.

Lemma p2e_ext_refl m : p2e_ext m m.
Proof. intros p e H; exact H. Qed.
Lemma p2e_ext_trans a b c : p2e_ext a b -> p2e_ext b c -> p2e_ext a c.
Proof. intros H1 H2 p e H. auto. Qed.

Lemma compact_inv u st :
  st_inv st -> let '(st', r) := compact u st in st_inv st' /\ p2e_ext (p2e (mem st)) (p2e (mem st')).
Proof.
  intros Hinv. unfold compact. destruct (is_http u); [|split; [assumption | apply p2e_ext_refl]].
  destruct (url_parts u) as [[e l]|]; [|split; [assumption | apply p2e_ext_refl]].
  pose proof (assert_prefix_spec e st Hinv) as Ha. destruct (assert_prefix e st) as [st' p].
  destruct Ha as (Hi' & _ & _ & Hext & _). split; assumption.
Qed.

Lemma ns_identifier_inv v locals st :
  st_inv st -> let '(st', r) := ns_identifier v locals st in st_inv st' /\ p2e_ext (p2e (mem st)) (p2e (mem st')).
Proof.
  intros Hinv. unfold ns_identifier. destruct v as [|x v]; [split; [assumption | apply p2e_ext_refl]|].
  destruct (is_http (x :: v)); [apply compact_inv; assumption|].
  assert (Hvia : forall e l,
    let '(st', r) := match e with
                     | [] => (st, None)
                     | _ => let '(st', p) := assert_prefix e st in (st', Some (p ++ c_colon :: l))
                     end in st_inv st' /\ p2e_ext (p2e (mem st)) (p2e (mem st'))).
  { intros e l. destruct e as [|y e]; [split; [assumption | apply p2e_ext_refl]|].
    pose proof (assert_prefix_spec (y :: e) st Hinv) as Ha. destruct (assert_prefix (y :: e) st) as [st' p].
    destruct Ha as (Hi' & _ & _ & Hext & _). split; assumption. }
  destruct (split_first c_colon (x :: v)) as [[lp l]|]; apply Hvia.
Qed.

Definition nsw_inv (w : nsworld) : Prop := st_inv (nst w).

Lemma ns_step_inv a op w :
  nsw_inv w ->
  nsw_inv (fst (ns_step a op w)) /\ p2e_ext (p2e (mem (nst w))) (p2e (mem (nst (fst (ns_step a op w))))).
Proof.
  unfold nsw_inv. intros Hinv. destruct op; cbn [ns_step].
  - pose proof (assert_prefix_spec e (nst w) Hinv) as Ha. destruct (assert_prefix e (nst w)) as [st' p].
    destruct Ha as (Hi' & _ & _ & Hext & _). cbn. split; assumption.
  - pose proof (compact_inv u (nst w) Hinv) as Ha. destruct (compact u (nst w)) as [st' r]. cbn. exact Ha.
  - pose proof (ns_identifier_inv v locals (nst w) Hinv) as Ha. destruct (ns_identifier v locals (nst w)) as [st' r]. cbn. exact Ha.
  - cbn. split; [assumption | apply p2e_ext_refl].
  - cbn. split; [assumption | apply p2e_ext_refl].
  - cbn. split; [assumption | apply p2e_ext_refl].
  - cbn. split; [assumption | apply p2e_ext_refl].
  - cbn [fst nst]. rewrite (ns_restart_id _ Hinv). split; [assumption | apply p2e_ext_refl].
  - cbn. split; [assumption | apply p2e_ext_refl].
  - cbn. split; [assumption | apply p2e_ext_refl].
  - cbn. split; [assumption | apply p2e_ext_refl].
Qed.

Lemma ns_run_inv a ops : forall w,
  nsw_inv w ->
  nsw_inv (fst (ns_run a ops w)) /\ p2e_ext (p2e (mem (nst w))) (p2e (mem (nst (fst (ns_run a ops w))))).
Proof.
  induction ops as [|op ops IH]; intros w Hinv; cbn [ns_run].
  - split; [assumption | apply p2e_ext_refl].
  - destruct (ns_step_inv a op w Hinv) as [H1 H2]. destruct (ns_step a op w) as [w1 o]. cbn [fst] in *.
    destruct (IH w1 H1) as [H3 H4]. destruct (ns_run a ops w1) as [w2 os]. cbn [fst] in *.
    split; [assumption | eapply p2e_ext_trans; eassumption].
Qed.

Lemma nsw_inv_init : nsw_inv nsw_init.
Proof. apply st_inv_init. Qed.

(** the two maps of every reachable state are mutually inverse, the persisted object equals the
    in-memory maps, prefixes are exactly ns0 .. ns(n-1) *)
Theorem ns_bijection a ops :
  let w := fst (ns_run a ops nsw_init) in
  nsinv (mem (nst w)) /\ dsk (nst w) = mem (nst w).
Proof. exact (proj1 (ns_run_inv a ops nsw_init nsw_inv_init)). Qed.

Lemma nsinv_p2e_inj m p1 p2 e : nsinv m -> slookup p1 (p2e m) = Some e -> slookup p2 (p2e m) = Some e -> p1 = p2.
Proof. intros [_ Hb] H1 H2. apply Hb in H1. apply Hb in H2. congruence. Qed.

Lemma nsinv_e2p_inj m e1 e2 p : nsinv m -> slookup e1 (e2p m) = Some p -> slookup e2 (e2p m) = Some p -> e1 = e2.
Proof. intros [_ Hb] H1 H2. apply Hb in H1. apply Hb in H2. congruence. Qed.

(** a mapping that exists after [ops1] exists unchanged after any continuation (restarts included) *)
Theorem ns_permanent a ops1 ops2 p e :
  let w1 := fst (ns_run a ops1 nsw_init) in
  let w2 := fst (ns_run a ops2 w1) in
  (slookup p (p2e (mem (nst w1))) = Some e -> slookup p (p2e (mem (nst w2))) = Some e)
  /\ (slookup e (e2p (mem (nst w1))) = Some p -> slookup e (e2p (mem (nst w2))) = Some p).
Proof.
  intros w1 w2.
  pose proof (ns_run_inv a ops1 nsw_init nsw_inv_init) as [H1 _]. fold w1 in H1.
  pose proof (ns_run_inv a ops2 w1 H1) as [H2 Hext]. fold w2 in H2, Hext.
  split; [apply Hext|].
  intros H. destruct H1 as [[_ Hb1] _]. destruct H2 as [[_ Hb2] _]. apply Hb2, Hext, Hb1, H.
Qed.

(** compaction of any http(s) URI succeeds, and the CURIE expands to the URI at once and for ever *)
Theorem ns_roundtrip a w u :
  nsw_inv w -> is_http u = true ->
  exists c, snd (ns_step a (NCompact u) w) = OStr c
    /\ forall ops, expand_curie c (nst (fst (ns_run a ops (fst (ns_step a (NCompact u) w))))) = Some u.
Proof.
  intros Hinv Hh. cbn [ns_step].
  destruct (compact_spec u (nst w) Hinv Hh) as (st' & c & Hc & Hi' & Hex & _). rewrite Hc. cbn [snd fst opt_out].
  exists c. split; [reflexivity|]. intros ops.
  assert (Hw : nsw_inv (with_st w st')) by exact Hi'.
  destruct (ns_run_inv a ops _ Hw) as [_ Hext]. eapply expand_in_ext; [exact Hext | exact Hex].
Qed.

(** two URIs that were ever given the same CURIE are the same URI *)
Theorem ns_compact_injective a ops1 ops2 u1 u2 c :
  let w1 := fst (ns_run a ops1 nsw_init) in
  let w2 := fst (ns_run a ops2 (fst (ns_step a (NCompact u1) w1))) in
  is_http u1 = true -> is_http u2 = true ->
  snd (ns_step a (NCompact u1) w1) = OStr c -> snd (ns_step a (NCompact u2) w2) = OStr c -> u1 = u2.
Proof.
  intros w1 w2 Hh1 Hh2 Hc1 Hc2.
  pose proof (ns_run_inv a ops1 nsw_init nsw_inv_init) as [H1 _]. fold w1 in H1.
  destruct (ns_roundtrip a w1 u1 H1 Hh1) as (c1 & Hc1' & Hperm1). rewrite Hc1 in Hc1'. injection Hc1' as <-.
  destruct (ns_step_inv a (NCompact u1) w1 H1) as [H1' _].
  pose proof (ns_run_inv a ops2 _ H1') as [H2 _]. fold w2 in H2.
  destruct (ns_roundtrip a w2 u2 H2 Hh2) as (c2 & Hc2' & Hperm2). rewrite Hc2 in Hc2'. injection Hc2' as <-.
  specialize (Hperm1 (ops2 ++ [NCompact u2])). specialize (Hperm2 []). cbn [ns_run fst] in Hperm2.
  assert (Happ : forall o1 o2 w, fst (ns_run a (o1 ++ o2) w) = fst (ns_run a o2 (fst (ns_run a o1 w)))).
  { induction o1 as [|o o1 IH]; intros o2 w; cbn [app ns_run]; [reflexivity|].
    destruct (ns_step a o w) as [wa oa]. specialize (IH o2 wa).
    destruct (ns_run a (o1 ++ o2) wa), (ns_run a o1 wa). cbn [fst] in *. exact IH. }
  rewrite Happ in Hperm1. fold w2 in Hperm1. cbn [ns_run] in Hperm1.
  destruct (ns_step a (NCompact u2) w2) as [w3 o3]. cbn [fst] in *. congruence.
Qed.

(** ** snapshots *)
Lemma list_eqb_refl {A} (eqb : A -> A -> bool) : (forall x, eqb x x = true) -> forall l, list_eqb eqb l l = true.
Proof. intros H; induction l as [|x l IH]; cbn; [reflexivity|]. now rewrite H, IH. Qed.

Definition hs_of (fetched : list nsout) : list handle :=
  map (fun o => match o with OCtx m => HSnap m | _ => HSnap [] end) fetched.
Definition all_ctx (fetched : list nsout) : Prop := Forall (fun o => exists m, o = OCtx m) fetched.

Lemma snapshot_run ops : forall w fetched,
  handles w = hs_of fetched -> all_ctx fetched ->
  snapshot_ok fetched (combine ops (snd (ns_run AliasCopy ops w))) = true.
Proof.
  induction ops as [|op ops IH]; intros w fetched Hh Hall; cbn [ns_run]; [reflexivity|].
  destruct (ns_step AliasCopy op w) as [w1 o] eqn:Es.
  destruct (ns_run AliasCopy ops w1) as [w2 os] eqn:Er. cbn [snd combine].
  assert (Hos : os = snd (ns_run AliasCopy ops w1)) by now rewrite Er.
  destruct op; cbn [ns_step] in Es.
  - destruct (assert_prefix e (nst w)) as [st' p]. injection Es as <- <-. cbn [snapshot_ok]. rewrite Hos. now apply IH.
  - destruct (compact u (nst w)) as [st' r]. injection Es as <- <-. cbn [snapshot_ok]. rewrite Hos. now apply IH.
  - destruct (ns_identifier v locals (nst w)) as [st' r]. injection Es as <- <-. cbn [snapshot_ok]. rewrite Hos. now apply IH.
  - injection Es as <- <-. cbn [snapshot_ok]. rewrite Hos. now apply IH.
  - injection Es as <- <-. cbn [snapshot_ok]. rewrite Hos. now apply IH.
  - injection Es as <- <-. cbn [snapshot_ok]. rewrite Hos. apply IH.
    + cbn [handles]. rewrite Hh. unfold hs_of. now rewrite map_app.
    + apply Forall_app. split; [assumption|]. constructor; [eauto | constructor].
  - injection Es as <- <-. cbn [snapshot_ok]. rewrite Hos, (IH w fetched Hh Hall), andb_true_r.
    rewrite Hh. unfold hs_of. rewrite nth_error_map.
    destruct (nth_error fetched h) as [f|] eqn:En; cbn [option_map]; [|reflexivity].
    unfold all_ctx in Hall. rewrite Forall_forall in Hall. destruct (Hall f (nth_error_In _ _ En)) as [m ->].
    cbn [read_handle]. apply list_eqb_refl. intros [x y]. cbn. now rewrite !str_eqb_refl.
  - injection Es as <- <-. cbn [snapshot_ok]. rewrite Hos. now apply IH.
  - injection Es as <- <-. cbn [snapshot_ok]. rewrite Hos. now apply IH.
  - injection Es as <- <-. cbn [snapshot_ok]. rewrite Hos. now apply IH.
  - injection Es as <- <-. cbn [snapshot_ok]. rewrite Hos. now apply IH.
Qed.

(** repaired accessor: whatever happens after a context was handed out, reading it shows what it showed *)
Theorem ns_snapshot ops : snapshot_ok [] (combine ops (snd (ns_run AliasCopy ops nsw_init))) = true.
Proof. apply snapshot_run; [reflexivity | constructor]. Qed.
