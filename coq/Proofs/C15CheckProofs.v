(** The link between the correspondence evaluator and the theorems: on every case the
    repaired model's prediction IS the executable spec's, so a case on which the
    implementation agrees with the repaired model satisfies the spec (and conversely). *)
From Coq Require Import List String NArith Bool Lia.
From DH Require Import Lib.CheckLib Model.Parser Proofs.ParserProofs Proofs.ParserFuel Proofs.ParserProxy Check.C15Check.
Import ListNotations.

Lemma run_stream_fixed_spec ts eof : run_stream fixed ts eof = run_spec ts eof.
Proof.
  unfold run_stream, run_spec, fuel_for.
  rewrite parse_stream_fixed_spec by lia. reflexivity.
Qed.

Theorem agree_fixed_is_spec c : agree fixed true c = spec_ok c.
Proof.
  unfold agree, spec_ok. destruct (c_mode c).
  - now rewrite run_stream_fixed_spec.
  - reflexivity.
  - now rewrite !run_stream_fixed_spec.
  - reflexivity.
  - reflexivity.
Qed.

Theorem agree_fixed_spec c : agree fixed true c = true -> spec_ok c = true.
Proof. now rewrite agree_fixed_is_spec. Qed.

(** an observation that satisfies the spec is not a panic *)
Lemma obs_matches_outcome c b p : obs_matches c b p = true -> o_outcome c = fst (fst p).
Proof.
  destruct p as [[oc gs] ns]. unfold obs_matches. intros H.
  repeat (apply andb_true_iff in H; destruct H as [H ?]).
  apply N.eqb_eq in H. now rewrite <- H.
Qed.

Lemma pages_match_no_panic : forall ps pred,
  Forall (fun r => snd r <> OPanic) pred -> pages_match pred ps = true ->
  forallb (fun p => negb (N.eqb (po_outcome p) 2)) ps = true.
Proof.
  induction ps as [|p ps IH]; intros [|[es o] pred] HF H; cbn in *; try discriminate; [reflexivity|].
  inversion HF as [|? ? Ho HF']; subst. cbn in Ho.
  repeat (apply andb_true_iff in H; destruct H as [H ?]).
  apply N.eqb_eq in H. rewrite <- H. rewrite (IH pred HF') by assumption.
  destruct o; cbn; congruence.
Qed.

Theorem spec_ok_no_panic c : spec_ok c = true ->
  match c_mode c with
  | MSource => forallb (fun p => negb (N.eqb (po_outcome p) 2)) (c_pages c) = true
  | _ => o_outcome c <> 2%N
  end.
Proof.
  unfold spec_ok. intros H.
  assert (S : forall ts eof, fst (fst (run_spec ts eof)) <> 2%N).
  { intros ts eof. rewrite <- run_stream_fixed_spec. unfold run_stream.
    pose proof (parse_stream_nopanic fixed fixed_chk (fuel_for ts) eof ts) as P.
    destruct (parse_stream fixed (fuel_for ts) eof ts) as [[es o] ns]. cbn in *.
    destruct o; cbn; congruence. }
  destruct (c_mode c).
  - apply obs_matches_outcome in H. rewrite H. apply S.
  - apply obs_matches_outcome in H. rewrite H. unfold run_txn.
    pose proof (parse_txn_nopanic fixed fixed_chk (fuel_for (c_toks c)) (c_toks c)) as P.
    destruct (parse_txn fixed (fuel_for (c_toks c)) (c_toks c)); cbn; congruence.
  - apply andb_true_iff in H. destruct H as [H _].
    apply obs_matches_outcome in H. rewrite H. apply S.
  - unfold proxy_matches in H.
    pose proof (proxy_total fixed (fuel_for (c_toks c)) (c_eof c) (c_toks c) fixed_chk) as P.
    destruct (proxy_page fixed true (fuel_for (c_toks c)) (c_eof c) (c_toks c)) as [r passed]. cbn in P.
    repeat (apply andb_true_iff in H; destruct H as [H ?]).
    apply N.eqb_eq in H. rewrite <- H. destruct r; cbn; congruence.
  - eapply pages_match_no_panic; [|exact H]. rewrite read_pages_fresh.
    apply Forall_forall. intros r Hr. apply in_map_iff in Hr. destruct Hr as (p & <- & _).
    apply (parse_stream_nopanic fixed fixed_chk).
Qed.

(** the fuel the evaluator gives the model, [S (length tokens)], is enough: no prediction of any
    variant is the artefact [Fuel] (outcome code 7) *)
Theorem run_stream_no_fuel v ts eof : fst (fst (run_stream v ts eof)) <> 7%N.
Proof.
  unfold run_stream, fuel_for.
  pose proof (parse_stream_enough v (S (List.length ts)) eof ts ltac:(lia)) as P.
  destruct (parse_stream v (S (List.length ts)) eof ts) as [[es o] ns]. cbn in *.
  destruct o; cbn; congruence.
Qed.
Theorem run_txn_no_fuel v ts : fst (fst (run_txn v ts)) <> 7%N.
Proof.
  unfold run_txn, fuel_for.
  pose proof (parse_txn_enough v (S (List.length ts)) ts ltac:(lia)) as P.
  destruct (parse_txn v (S (List.length ts)) ts); cbn; congruence.
Qed.
