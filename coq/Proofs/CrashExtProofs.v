(** Proofs about Model/CrashExt.v (C04): a refused batch has no effect on any shared identifier state; DeleteDataset never
    leaves a dataset that is loaded AND recorded as deleted, at any crash point, for both creation options; the
    deviations of the seeded changes are refuted by witnesses. *)
From Coq Require Import List ZArith Bool Lia.
From DH Require Import Model.Store Model.Crash Model.CrashExt Proofs.StoreProofs Proofs.C01Proofs Proofs.CrashProofs.
Import ListNotations.
Open Scope Z_scope.

(** ** 1. the shared identifier transaction *)
Definition it_has (s : idst) (u : uri) : Prop := In u (map fst (it_pend s ++ it_tab s)).

Lemma it_known_has s u : it_known s u = true <-> it_has s u.
Proof.
  unfold it_known, it_has. rewrite assoc_In_fst. destruct (assoc u (it_pend s ++ it_tab s)); split; intros H; try reflexivity; try discriminate.
  - exfalso. now apply H.
Qed.

Lemma it_assert_mono us : forall s u, it_has s u -> it_has (it_assert us s) u.
Proof.
  induction us as [|x us IH]; intros s u H; cbn [it_assert]; [exact H|].
  apply IH. destruct (it_known s x); [exact H|]. unfold it_has in *. cbn [it_pend it_tab app map fst]. now right.
Qed.

Lemma it_assert_has us : forall s u, In u us -> it_has (it_assert us s) u.
Proof.
  induction us as [|x us IH]; intros s u H; cbn [In] in H; [contradiction|]. destruct H as [<-|H]; cbn [it_assert]; [|now apply IH].
  apply it_assert_mono. destruct (it_known s x) eqn:E; [now apply it_known_has|].
  unfold it_has. cbn [it_pend it_tab app map fst]. now left.
Qed.

Lemma it_assert_tab us : forall s, it_tab (it_assert us s) = it_tab s.
Proof. induction us as [|x us IH]; intros s; cbn [it_assert]; [reflexivity|]. rewrite IH. now destruct (it_known s x). Qed.

Lemma it_assert_pend us : forall s p, In p (it_pend s) -> In p (it_pend (it_assert us s)).
Proof.
  induction us as [|x us IH]; intros s p H; cbn [it_assert]; [exact H|]. apply IH.
  destruct (it_known s x); [exact H | now right].
Qed.

(** a refused batch never touches the committed table (either mode) ... *)
Theorem refuse_tab m us s : it_tab (it_refuse m us s) = it_tab s.
Proof. unfold it_refuse. destruct m; cbn [it_tab]; apply it_assert_tab. Qed.

(** ... and, as the tree has it, leaves every pending assignment of the other writers in place *)
Theorem refuse_keeps_pending us s p : In p (it_pend s) -> In p (it_pend (it_refuse RefuseKeeps us s)).
Proof. apply it_assert_pend. Qed.

Lemma refuse_keeps_has us s u : it_has s u -> it_has (it_refuse RefuseKeeps us s) u.
Proof. apply it_assert_mono. Qed.

(** whatever batches of other writers are refused while writer one stands before its id commit, every URI writer one
    used has its id in the committed table once writer one commits *)
Theorem interleave_resolves us1 rs s u : In u us1 ->
  In u (map fst (it_tab (it_interleave RefuseKeeps us1 rs s))).
Proof.
  intros H. unfold it_interleave, it_commit. cbn [it_tab].
  assert (Hh : it_has (it_assert us1 s) u) by now apply it_assert_has.
  revert Hh. generalize (it_assert us1 s). induction rs as [|r rs IH]; intros s0 Hh; cbn [fold_left]; [exact Hh|].
  apply IH. now apply refuse_keeps_has.
Qed.

(** seeded change C04-r2-4: with the discarding refusal writer one is acknowledged with an id that no table holds *)
Theorem interleave_discard_refuted :
  let s0 := {| it_tab := []; it_pend := []; it_next := 5 |} in
  ~ In 30 (map fst (it_tab (it_interleave RefuseDiscards [30] [[50]] s0))).
Proof. vm_compute. tauto. Qed.

(** ** 2. DeleteDataset *)
Lemma memz_In n l : memz n l = true <-> In n l.
Proof. apply existsb_eqb_In. Qed.

Lemma without_notin n l : ~ In n (without n l).
Proof. unfold without. intros H. apply filter_In in H. destruct H as [_ H]. rewrite Z.eqb_refl in H. discriminate. Qed.

Lemma without_rec_notin n l : ~ In n (map fst (without_rec n l)).
Proof.
  unfold without_rec. intros H. apply in_map_iff in H. destruct H as [p [<- H]]. apply filter_In in H. destruct H as [_ H].
  rewrite Z.eqb_refl in H. discriminate.
Qed.

(** the tree's order (map removal first, record removal before the deleted-set write): at EVERY crash point, for BOTH
    creation options, the restarted hub never loads a dataset whose id is recorded as deleted - provided it was not
    recorded as deleted before *)
Theorem delete_no_zombie k n public s : ~ In n (dr_del s) ->
  zombie n (delete_crash true true k n public s) = false.
Proof.
  intros Hd. unfold zombie, delete_crash, delete_steps. cbn [app].
  assert (Hm : forall l, memz n l = false <-> ~ In n l).
  { intros l. rewrite <- memz_In. destruct (memz n l); split.
    - intros H; discriminate.
    - intros H; exfalso; apply H; reflexivity.
    - intros _ H'; discriminate.
    - reflexivity. }
  destruct k as [|[|[|[|k]]]]; cbn [firstn fold_left apply_dstep dreg_restart dr_mem dr_del dr_rec].
  - apply andb_false_iff. right. now apply Hm.
  - apply andb_false_iff. right. now apply Hm.
  - apply andb_false_iff. right. now apply Hm.
  - apply andb_false_iff. left. apply Hm, without_rec_notin.
  - (* all steps: the tombstone finds the dataset gone from the memory map, whatever [public] *)
    assert (Hw : memz n (without n (dr_mem s)) = false) by (apply Hm, without_notin).
    rewrite firstn_nil. rewrite Hw, andb_false_r. cbn [fold_left dr_rec dr_mem dr_del].
    apply andb_false_iff. left. apply Hm, without_rec_notin.
Qed.

(** ... and a completed (acknowledged) delete leaves no loadable record, for both creation options *)
Theorem delete_done_unregistered k n public s : (k >= 4)%nat ->
  ~ In n (dr_mem (delete_crash true true k n public s)).
Proof.
  intros Hk. unfold delete_crash, delete_steps. cbn [app].
  destruct k as [|[|[|[|k]]]]; try lia. cbn [firstn fold_left apply_dstep dr_mem dr_rec dr_del]. rewrite firstn_nil.
  assert (Hw : memz n (without n (dr_mem s)) = false).
  { destruct (memz n (without n (dr_mem s))) eqn:E; [|reflexivity]. apply memz_In in E. now apply without_notin in E. }
  rewrite Hw, andb_false_r. cbn [fold_left dreg_restart dr_mem dr_rec]. apply without_rec_notin.
Qed.

(** seeded change C04-2 (deleted set written BEFORE the record is removed): dying between the two leaves a zombie *)
Theorem delete_set_first_refuted :
  zombie 1 (delete_crash true false 2 1 false {| dr_rec := [(1, false)]; dr_mem := [1]; dr_del := [] |}) = true.
Proof. reflexivity. Qed.

(** seeded change C04-r2-2 (map removal LAST): the completed delete of a dataset created with publicNamespaces is a
    zombie after the restart; a plain dataset is not *)
Theorem delete_mem_last_refuted :
  zombie 1 (delete_crash false true 5 1 true {| dr_rec := [(1, true)]; dr_mem := [1]; dr_del := [] |}) = true
  /\ zombie 1 (delete_crash false true 5 1 false {| dr_rec := [(1, false)]; dr_mem := [1]; dr_del := [] |}) = false.
Proof. split; reflexivity. Qed.

(** ** 3. slices *)
Definition sl_e (i : Z) : ent := {| e_id := i; e_c := {| c_del := false; c_props := [(1001, {| pv_code := i; pv_obj := false |})]; c_refs := []; c_len := 40 |} |}.

(** seeded change C04-r2-3: a batch written in slices is several writes; dying in the second slice leaves the first
    one in - neither the state without the batch (0 entries) nor the state with it (2 entries), whereas ONE write of the
    same entities is atomic at every crash position (crash_data, for entity lists of any length) *)
Theorem sliced_refuted :
  let fl := {| f_lenkeys := false; f_objneq := true |} in
  let c := run_events CounterSeparate fl DupLocalElseStored (firstn 1 (sliced 1 [[sl_e 1]; [sl_e 2]])) (cstate0 5 1000) in
  length (d_entries (get_ds (cs_store (crash_at CounterSeparate fl DupLocalElseStored 0 c (WBatch 1 [sl_e 2]))) 1)) = 1%nat
  /\ length (d_entries (get_ds (cs_store (exec_op CounterSeparate fl DupLocalElseStored (cstate0 5 1000) (WBatch 1 [sl_e 1; sl_e 2]))) 1)) = 2%nat.
Proof. vm_compute. split; reflexivity. Qed.
