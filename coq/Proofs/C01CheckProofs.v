(** Link between the store evaluator and the theorems for C01: on well-formed cases,
    agreement with the fully repaired model (store flags repaired, lookup returning a deleted
    last version with its body) implies the executable spec on the implementation's observations. *)
From Coq Require Import List ZArith NArith Bool Lia.
From DH Require Import Lib.CheckLib Model.Store Model.FeedSpec Proofs.StoreProofs Proofs.C01Proofs
     Check.StoreCheck Proofs.C02CheckProofs.
Import ListNotations.
Open Scope Z_scope.

Local Ltac zl := unfold uri, oent in *; lia.

(** ** sorting observed entities by id *)
Fixpoint osorted (l : list oent) : Prop :=    (* strictly increasing ids *)
  match l with
  | [] => True
  | x :: l' => Forall (fun y => fst x < fst y) l' /\ osorted l'
  end.

Lemma oinsert_In x y l : In y (oinsert x l) <-> y = x \/ In y l.
Proof.
  induction l as [|z l IH]; cbn [oinsert In]; [intuition|].
  destruct (fst x <=? fst z); cbn [In]; [intuition|]. rewrite IH. intuition.
Qed.

Lemma osort_In y l : In y (osort l) <-> In y l.
Proof.
  unfold osort. induction l as [|x l IH]; cbn [fold_right In]; [tauto|].
  rewrite oinsert_In, IH. intuition.
Qed.

Lemma oinsert_sorted x l :
  osorted l -> ~ In (fst x) (map fst l) -> osorted (oinsert x l).
Proof.
  induction l as [|z l IH]; cbn [oinsert osorted map In]; intros Hs Hn.
  - split; [constructor | exact I].
  - destruct Hs as [Hz Hs]. destruct (Z.leb_spec (fst x) (fst z)) as [Hle|Hgt]; cbn [osorted].
    + assert (fst x < fst z) by (assert (fst z <> fst x) by tauto; zl).
      split; [|split; assumption].
      constructor; [assumption|]. eapply Forall_impl; [|exact Hz]. cbv beta. intros; zl.
    + split.
      * apply Forall_forall. intros y Hy. apply oinsert_In in Hy. destruct Hy as [->|Hy]; [zl|].
        rewrite Forall_forall in Hz. now apply Hz.
      * apply IH; [exact Hs | tauto].
Qed.

Lemma osort_fst_In k l : In k (map fst (osort l)) <-> In k (map fst l).
Proof.
  rewrite !in_map_iff. split; intros (y & Hy & Hin); exists y; (split; [exact Hy|]); now apply osort_In.
Qed.

Lemma osort_sorted l : NoDup (map fst l) -> osorted (osort l).
Proof.
  induction l as [|x l IH]; cbn [map]; intros Hnd; [exact I|].
  inversion Hnd as [|? ? Hx Hl]; subst. unfold osort. cbn [fold_right]. fold (osort l).
  apply oinsert_sorted; [apply IH; exact Hl|]. now rewrite osort_fst_In.
Qed.

Lemma osort_id l : osorted l -> osort l = l.
Proof.
  induction l as [|x l IH]; cbn [osorted]; intros H; [reflexivity|].
  destruct H as [Hx Hs]. unfold osort. cbn [fold_right]. fold (osort l). rewrite (IH Hs).
  destruct l as [|z l']; [reflexivity|]. cbn [oinsert].
  apply Forall_cons_iff in Hx. destruct Hx as [Hxz _].
  replace (fst x <=? fst z) with true by (symmetry; apply Z.leb_le; zl). reflexivity.
Qed.

(** two id-sorted lists with the same elements are equal *)
Lemma osorted_unique l1 : forall l2,
  osorted l1 -> osorted l2 -> (forall y, In y l1 <-> In y l2) -> l1 = l2.
Proof.
  induction l1 as [|x l1 IH]; intros [|z l2] H1 H2 Hiff.
  - reflexivity.
  - exfalso. apply (proj2 (Hiff z)). now left.
  - exfalso. apply (proj1 (Hiff x)). now left.
  - cbn [osorted] in H1, H2. destruct H1 as [Hx H1]. destruct H2 as [Hz H2].
    rewrite Forall_forall in Hx, Hz.
    assert (Hxz : x = z).
    { destruct (proj1 (Hiff x) (or_introl eq_refl)) as [->|Hin]; [reflexivity|].
      destruct (proj2 (Hiff z) (or_introl eq_refl)) as [->|Hin2]; [reflexivity|].
      specialize (Hz x Hin). specialize (Hx z Hin2). zl. }
    subst z. f_equal. apply IH; try assumption.
    intros y. split; intros Hy.
    + destruct (proj1 (Hiff y) (or_intror Hy)) as [<-|H]; [|exact H]. specialize (Hx x Hy). zl.
    + destruct (proj2 (Hiff y) (or_intror Hy)) as [<-|H]; [|exact H]. specialize (Hz x Hy). zl.
Qed.

(** ** the latest view of a feed *)
Lemma is_last_occ_current f id : is_last_occ f id = true <-> current_of f id = None.
Proof.
  induction f as [|[i c] f IH]; cbn [is_last_occ current_of]; [tauto|].
  rewrite andb_true_iff, negb_true_iff, IH.
  destruct (current_of f id); destruct (Z.eqb i id); split; intros; try tauto; try discriminate;
    destruct H; discriminate.
Qed.

Lemma view_of_In f k c : In (k, c) (view_of f) <-> current_of f k = Some c.
Proof.
  induction f as [|[i c0] f IH]; cbn [view_of current_of]; [split; [intros [] | discriminate]|].
  destruct (is_last_occ f i) eqn:El.
  - apply is_last_occ_current in El. cbn [In]. rewrite IH.
    destruct (Z.eqb_spec i k) as [->|Hne].
    + rewrite El. split.
      * intros [H|H]; [injection H as ->; reflexivity | discriminate].
      * intros [= ->]. now left.
    + destruct (current_of f k) as [c'|]; split.
      * intros [H|H]; [injection H as Hi _; contradiction | exact H].
      * intros H; now right.
      * intros [H|H]; [injection H as Hi _; contradiction | discriminate].
      * discriminate.
  - rewrite IH.
    assert (Hc : current_of f i <> None).
    { intros Hn. apply is_last_occ_current in Hn. congruence. }
    destruct (Z.eqb_spec i k) as [->|Hne].
    + destruct (current_of f k); [tauto | contradiction].
    + destruct (current_of f k); tauto.
Qed.

Lemma view_of_NoDup f : NoDup (map fst (view_of f)).
Proof.
  induction f as [|[i c] f IH]; cbn [view_of]; [constructor|].
  destruct (is_last_occ f i) eqn:El; [|exact IH].
  cbn [map fst]. constructor; [|exact IH].
  intros Hin. apply in_map_iff in Hin. destruct Hin as ([k c'] & Hk & Hin). cbn [fst] in Hk. subst k.
  apply view_of_In in Hin. apply is_last_occ_current in El. congruence.
Qed.

(** ** listing with per-page limits *)
Lemma take_page_nonpos count l : forall taken, count <= 0 -> 0 <= taken -> take_page count taken l = l.
Proof.
  induction l as [|x l IH]; intros taken Hc Ht; cbn [take_page]; [reflexivity|].
  replace (Z.eqb (taken + 1) count) with false by (symmetry; apply Z.eqb_neq; lia).
  now rewrite IH by lia.
Qed.

Lemma listing_pages_l_concat d limits : forall fuel pre l from p,
  latest_keys d = pre ++ l ->
  (match from with None => pre = [] | Some k => exists pre', pre = pre' ++ [k] end) ->
  (length l < fuel)%nat ->
  concat (listing_pages_l d from limits p fuel) = map (fun k => (k, stored_latest d k)) l.
Proof.
  induction fuel as [|fuel IH]; intros pre l from p Hks Hfrom Hf; [lia|].
  cbn [listing_pages_l]. unfold listing_page.
  set (count := nth_limit limits p).
  assert (Hfilt : match from with None => latest_keys d | Some f => filter (fun k => f <? k) (latest_keys d) end = l).
  { destruct from as [k|].
    - destruct Hfrom as [pre' ->]. rewrite Hks, <- app_assoc. cbn [app].
      apply filter_gt_suffix.
      pose proof (latest_keys_sorted d) as Hs. rewrite Hks, <- app_assoc in Hs. exact Hs.
    - subst pre. exact Hks. }
  rewrite Hfilt.
  destruct l as [|x l'].
  - cbn. reflexivity.
  - destruct (take_page_prefix count (x :: l') 0) as [r Hr].
    set (pg := take_page count 0 (x :: l')) in *.
    assert (Hne : pg <> []) by apply take_page_nonempty.
    destruct (rev (map (fun k => (k, stored_latest d k)) pg)) as [|[k oc] rest] eqn:Erev.
    { exfalso. apply (f_equal (@rev _)) in Erev. rewrite rev_involutive in Erev. cbn in Erev.
      apply map_eq_nil in Erev. contradiction. }
    destruct (Z.leb_spec count 0) as [Hc|Hc].
    + (* no limit: one page with everything *)
      cbn [concat]. rewrite app_nil_r.
      subst pg. now rewrite take_page_nonpos by lia.
    + cbn [concat].
      assert (Hlast : exists pg', pg = pg' ++ [k]).
      { apply (f_equal (@rev _)) in Erev. rewrite rev_involutive in Erev. cbn [rev] in Erev.
        destruct (exists_last Hne) as (pg' & k' & Hpg). exists pg'. rewrite Hpg in Erev |- *.
        rewrite map_app in Erev. cbn [map] in Erev. apply app_inj_tail in Erev. destruct Erev as [_ [= -> _]]. reflexivity. }
      destruct Hlast as [pg' Hpg'].
      rewrite (IH (pre ++ pg) r (Some k) (S p)).
      * rewrite Hr. now rewrite map_app.
      * rewrite Hks, Hr, app_assoc. reflexivity.
      * exists (pre ++ pg'). rewrite Hpg', app_assoc. reflexivity.
      * apply (f_equal (@length _)) in Hr. rewrite app_length in Hr.
        assert (0 < length pg)%nat by (destruct pg; [contradiction | cbn; lia]). cbn [length] in *. lia.
Qed.

Lemma page_oents_concat pages : flat_map page_oents pages = page_oents (concat pages).
Proof.
  induction pages as [|pg pages IH]; cbn [flat_map concat]; [reflexivity|].
  unfold page_oents at 3. rewrite flat_map_app. fold (page_oents pg). fold (page_oents (concat pages)). now rewrite IH.
Qed.

Definition listing_all (d : dstate) : list oent :=
  page_oents (map (fun k => (k, stored_latest d k)) (latest_keys d)).

Lemma page_oents_sorted d ks : strictly_sorted ks ->
  osorted (page_oents (map (fun k => (k, stored_latest d k)) ks))
  /\ forall y, In y (page_oents (map (fun k => (k, stored_latest d k)) ks)) -> In (fst y) ks.
Proof.
  induction ks as [|k ks IH]; cbn [strictly_sorted map]; intros Hs.
  - split; [exact I | intros y []].
  - destruct Hs as [Hk Hs]. destruct (IH Hs) as [IH1 IH2].
    unfold page_oents. cbn [flat_map fst snd]. fold (page_oents (map (fun k0 => (k0, stored_latest d k0)) ks)).
    destruct (stored_latest d k) as [c|]; cbn [app].
    + split.
      * cbn [osorted fst]. split; [|exact IH1]. apply Forall_forall. intros y Hy.
        rewrite Forall_forall in Hk. apply Hk. now apply IH2.
      * intros y [<-|Hy]; [now left | right; now apply IH2].
    + split; [exact IH1 | intros y Hy; right; now apply IH2].
Qed.

Lemma listing_all_In clk d k c : dinv clk d ->
  In (k, c) (listing_all d) <-> current_of (feed_of d) k = Some c.
Proof.
  intros Hd. pose proof (listing_spec clk d Hd) as (_ & H1 & H2).
  unfold listing_page in H1, H2. rewrite take_page_all in H1, H2 by lia.
  unfold listing_all, page_oents. rewrite in_flat_map. split.
  - intros ([k' oc] & Hin & Hy). cbn [fst snd] in Hy. destruct oc as [c'|]; [|destruct Hy].
    destruct Hy as [[= -> ->]|[]]. destruct (H1 _ _ Hin) as [Heq _]. now rewrite <- Heq.
  - intros Hc. exists (k, Some c). split; [now apply H2 | now left].
Qed.

(** the id-sorted latest view of the feed IS the (id-ordered) listing of the model *)
Lemma osort_view_is_listing clk d : dinv clk d -> osort (view_of (feed_of d)) = listing_all d.
Proof.
  intros Hd. apply osorted_unique.
  - apply osort_sorted, view_of_NoDup.
  - apply (page_oents_sorted d (latest_keys d) (latest_keys_sorted d)).
  - intros [k c]. rewrite osort_In, view_of_In. symmetry. now apply (listing_all_In clk).
Qed.

Lemma listing_pages_all clk d limits : dinv clk d ->
  osort (flat_map page_oents (listing_pages_l d None limits 0 (S (length (d_latest d)))))
  = osort (view_of (feed_of d)).
Proof.
  intros Hd. rewrite page_oents_concat.
  rewrite (listing_pages_l_concat d limits (S (length (d_latest d))) [] (latest_keys d) None 0 eq_refl eq_refl).
  - fold (listing_all d). rewrite (osort_view_is_listing clk d Hd).
    apply osort_id. apply (page_oents_sorted d (latest_keys d) (latest_keys_sorted d)).
  - (* the number of distinct keys is at most the length of the pointer table *)
    assert (Hlen : forall l, (length (fold_right insert_sorted [] l) <= length l)%nat).
    { induction l as [|x l IH]; cbn [fold_right length]; [lia|].
      assert (Hins : forall k s, (length (insert_sorted k s) <= S (length s))%nat).
      { intros k s. induction s as [|y s IHs]; cbn [insert_sorted length]; [lia|].
        destruct (k <? y); cbn [length]; [lia|]. destruct (Z.eqb k y); cbn [length]; lia. }
      specialize (Hins x (fold_right insert_sorted [] l)). lia. }
    unfold latest_keys. specialize (Hlen (map fst (d_latest d))). rewrite map_length in Hlen. zl.
Qed.

(** ** lookups *)
Definition rel (st : store) (s : sstate) : Prop :=
  s = map (fun p : Z * dstate => (fst p, feed_of (snd p))) (s_ds st).

Lemma map_set_assoc {A B} (g : A -> B) k v l :
  map (fun p : Z * A => (fst p, g (snd p))) (set_assoc k v l)
  = set_assoc k (g v) (map (fun p : Z * A => (fst p, g (snd p))) l).
Proof.
  induction l as [|[k' v'] l IH]; cbn [set_assoc map fst snd]; [reflexivity|].
  destruct (Z.eqb k k'); [reflexivity|]. destruct (k <? k'); cbn [map fst snd]; [reflexivity | now rewrite IH].
Qed.

Lemma assoc_map {A B} (g : A -> B) k l :
  assoc k (map (fun p : Z * A => (fst p, g (snd p))) l) = option_map g (assoc k l).
Proof.
  induction l as [|[k' v'] l IH]; cbn [map assoc fst snd option_map]; [reflexivity|].
  destruct (Z.eqb k k'); [reflexivity | exact IH].
Qed.

Lemma rel_sget st s ds : rel st s -> sget s ds = feed_of (get_ds st ds).
Proof.
  intros ->. unfold sget, get_ds. rewrite assoc_map. destruct (assoc ds (s_ds st)); reflexivity.
Qed.

Lemma set_assoc_fst_In {V} k (v : V) l x : In x (map fst (set_assoc k v l)) <-> x = k \/ In x (map fst l).
Proof.
  induction l as [|[k' v'] l IH]; cbn [set_assoc map fst In]; [intuition|].
  destruct (Z.eqb_spec k k') as [->|Hne]; cbn [map fst In]; [intuition|].
  destruct (k <? k'); cbn [map fst In]; [intuition | rewrite IH; intuition].
Qed.

Lemma set_assoc_sorted {V} k (v : V) l :
  strictly_sorted (map fst l) -> strictly_sorted (map fst (set_assoc k v l)).
Proof.
  induction l as [|[k' v'] l IH]; cbn [set_assoc map fst strictly_sorted]; intros H.
  - split; [constructor | exact I].
  - destruct H as [Hk Hs]. destruct (Z.eqb_spec k k') as [->|Hne]; cbn [map fst strictly_sorted].
    + split; assumption.
    + destruct (Z.ltb_spec k k') as [Hlt|Hge]; cbn [map fst strictly_sorted].
      * split; [|split; assumption]. constructor; [exact Hlt|].
        eapply Forall_impl; [|exact Hk]. cbv beta. intros; lia.
      * split; [|apply IH; exact Hs].
        apply Forall_forall. intros x Hx. apply set_assoc_fst_In in Hx. destruct Hx as [->|Hx]; [lia|].
        rewrite Forall_forall in Hk. now apply Hk.
Qed.

Definition keys_sorted (st : store) : Prop := strictly_sorted (map fst (s_ds st)).

Lemma keys_sorted_set_ds st k d : keys_sorted st -> keys_sorted (set_ds st k d).
Proof. unfold keys_sorted, set_ds. cbn [s_ds]. apply set_assoc_sorted. Qed.

Lemma keys_sorted_fold fl dm t sets : forall s0, keys_sorted s0 ->
  keys_sorted (fold_left (fun s (p : Z * list ent) =>
                 set_ds s (fst p) (store_batch_ds fl dm t (snd p) (get_ds s (fst p)))) sets s0).
Proof.
  induction sets as [|[k es] sets IH]; intros s0 H0; cbn [fold_left fst snd]; [exact H0|].
  apply IH. apply keys_sorted_set_ds. exact H0.
Qed.

Lemma keys_sorted_apply fl dm st o : keys_sorted st -> keys_sorted (apply_wop fl dm st o).
Proof.
  intros H. unfold apply_wop. destruct o as [k ents|sets].
  - apply keys_sorted_set_ds. exact H.
  - apply keys_sorted_fold. exact H.
Qed.

Lemma rel_apply st s w :
  wf_wop w -> sinv st -> rel st s ->
  rel (apply_wop (fst v_fixed) (snd v_fixed) st w) (sapply s w).
Proof.
  intros Hwf Hinv Hrel. unfold rel in *. unfold apply_wop. cbn [fst snd v_fixed].
  set (fl := {| f_lenkeys := false; f_objneq := false |}).
  destruct w as [k ents|sets]; cbn [sapply].
  - unfold set_ds. cbn [s_ds]. rewrite map_set_assoc. unfold swrite. subst s. f_equal.
    destruct (store_batch_refines fl (s_clock st) (s_clock (tick st)) ents (get_ds (tick st) k)) as [Hf _].
    { apply Hinv. } { cbn. lia. }
    assert (Hs : sget (map (fun p : Z * dstate => (fst p, feed_of (snd p))) (s_ds st)) k = feed_of (get_ds (tick st) k))
      by (apply (rel_sget (tick st)); reflexivity).
    rewrite Hf, Hs. reflexivity.
  - (* a transaction: fold over the per-dataset shares *)
    cbn [wf_wop] in Hwf.
    assert (Hgen : forall (sets : list (Z * list ent)) (st0 : store) (s0 : sstate) t,
               NoDup (map fst sets) ->
               s0 = map (fun p : Z * dstate => (fst p, feed_of (snd p))) (s_ds st0) ->
               (forall ds, In ds (map fst sets) -> exists clk, clk < t /\ dinv clk (get_ds st0 ds)) ->
               fold_left (fun s' (p : Z * list ent) => swrite s' (fst p) (snd p)) sets s0
               = map (fun p : Z * dstate => (fst p, feed_of (snd p)))
                     (s_ds (fold_left (fun s1 (p : Z * list ent) =>
                              set_ds s1 (fst p) (store_batch_ds fl DupLocalElseStored t (snd p) (get_ds s1 (fst p)))) sets st0))).
    { clear. induction sets as [|[k es] sets IH]; intros st0 s0 t Hnd Hs Hin; cbn [fold_left fst snd map] in *; [exact Hs|].
      apply NoDup_cons_iff in Hnd. destruct Hnd as [Hk Hnd'].
      apply IH; [exact Hnd' | |].
      - unfold set_ds. cbn [s_ds]. rewrite map_set_assoc. unfold swrite. f_equal; [|exact Hs].
        destruct (Hin k (or_introl eq_refl)) as (clk & Hlt & Hd).
        destruct (store_batch_refines fl clk t es (get_ds st0 k) Hd Hlt) as [Hf _].
        assert (Hs0 : sget s0 k = feed_of (get_ds st0 k)) by (apply (rel_sget st0); exact Hs).
        rewrite Hf, Hs0. reflexivity.
      - intros ds Hds. assert (ds <> k) by (intros ->; contradiction).
        rewrite get_set_other by assumption. apply Hin. now right. }
    apply (Hgen sets (tick st) s (s_clock (tick st)) Hwf).
    + subst s. reflexivity.
    + intros ds _. exists (s_clock st). split; [cbn; lia | apply Hinv].
Qed.

Definition curl (st : store) (id : uri) (scope : list Z) : list (Z * content) :=
  flat_map (fun p : Z * dstate =>
              if in_scope scope (fst p) then
                match current_of (feed_of (snd p)) id with Some c => [(fst p, c)] | None => [] end
              else []) (s_ds st).

Lemma spec_cur_is_curl st s id scope : rel st s ->
  flat_map (fun p : Z * feed =>
              if in_scope scope (fst p) then
                match current_of (snd p) id with Some c => [(fst p, c)] | None => [] end
              else []) s = curl st id scope.
Proof. intros ->. unfold curl. rewrite flat_map_concat_map, map_map, <- flat_map_concat_map. reflexivity. Qed.

Lemma spec_partials_filter st id scope :
  spec_partials st id scope = filter (fun p => negb (c_del (snd p))) (curl st id scope).
Proof.
  unfold spec_partials, curl. induction (s_ds st) as [|p l IH]; cbn [flat_map filter]; [reflexivity|].
  rewrite filter_app, <- IH. f_equal.
  destruct (in_scope scope (fst p)); [|reflexivity].
  destruct (current_of (feed_of (snd p)) id) as [c|]; [|reflexivity].
  cbn [filter snd]. destruct (c_del c); reflexivity.
Qed.

Lemma spec_hasdel_existsb st id scope :
  spec_hasdel st id scope = existsb (fun p => c_del (snd p)) (curl st id scope).
Proof.
  unfold spec_hasdel, curl. induction (s_ds st) as [|p l IH]; cbn [flat_map existsb]; [reflexivity|].
  rewrite existsb_app, <- IH. f_equal.
  destruct (in_scope scope (fst p)); cbn [andb]; [|reflexivity].
  destruct (current_of (feed_of (snd p)) id) as [c|]; cbn [existsb snd]; [now rewrite orb_false_r | reflexivity].
Qed.

Lemma flat_map_key {B} (X : Z * dstate -> list B) d (l : list (Z * dstate)) :
  strictly_sorted (map fst l) ->
  flat_map (fun p => if Z.eqb (fst p) d then X p else []) l
  = match assoc d l with Some v => X (d, v) | None => [] end.
Proof.
  induction l as [|[k v] l IH]; cbn [map fst strictly_sorted flat_map assoc]; intros Hs; [reflexivity|].
  destruct Hs as [Hk Hs]. rewrite (IH Hs).
  destruct (Z.eqb_spec k d) as [->|Hne].
  - rewrite Z.eqb_refl.
    (* d cannot occur again *)
    assert (Hn : assoc d l = None).
    { clear -Hk. induction l as [|[k2 v2] l IHl]; cbn [assoc]; [reflexivity|].
      cbn [map fst] in Hk. apply Forall_cons_iff in Hk. destruct Hk as [Hk2 Hk].
      replace (Z.eqb d k2) with false by (symmetry; apply Z.eqb_neq; lia). now apply IHl. }
    rewrite Hn, app_nil_r. reflexivity.
  - replace (Z.eqb d k) with false by (symmetry; apply Z.eqb_neq; congruence). reflexivity.
Qed.

Lemma curl_single st id d : keys_sorted st ->
  curl st id [d] = match current_of (feed_of (get_ds st d)) id with Some c => [(d, c)] | None => [] end.
Proof.
  intros Hs. unfold curl.
  rewrite (flat_map_ext _ (fun p : Z * dstate => if Z.eqb (fst p) d
             then match current_of (feed_of (snd p)) id with Some c => [(fst p, c)] | None => [] end else [])).
  2:{ intros p. cbn [in_scope existsb]. now rewrite orb_false_r. }
  rewrite (flat_map_key _ d (s_ds st) Hs). unfold get_ds.
  destruct (assoc d (s_ds st)) as [v|]; reflexivity.
Qed.

Lemma filter_nil_existsb_nil {A} (p : A -> bool) l :
  filter (fun x => negb (p x)) l = [] -> existsb p l = false -> l = [].
Proof.
  destruct l as [|x l]; [reflexivity|]. cbn [filter existsb]. destruct (p x); cbn [negb orb]; discriminate.
Qed.

Lemma get_agree_spec st s id scope merged o_found o_parts o_del :
  sinv st -> keys_sorted st -> rel st s ->
  agree_op true proj_c01 st (SGet id None scope merged o_found o_parts o_del) = true ->
  spec_op_ok proj_c01 s (SGet id None scope merged o_found o_parts o_del) = true.
Proof.
  intros Hinv Hks Hrel. cbn [agree_op spec_op_ok p_get proj_c01 negb orb].
  rewrite (entity_at_spec st id (now_of st) scope Hinv (strictly_sorted_NoDup _ Hks) ltac:(unfold now_of; lia)).
  rewrite (spec_cur_is_curl st s id scope Hrel).
  rewrite spec_partials_filter, spec_hasdel_existsb.
  set (cur := curl st id scope).
  (* the partial list the repaired lookup returns is the spec's [live] *)
  assert (Hparts :
    (match scope, filter (fun p => negb (c_del (snd p))) cur with
     | [d], [] => match best_version id (now_of st) (d_entries (get_ds st d)) None with
                  | Some e => [(d, en_c e)] | None => [] end
     | _, _ => filter (fun p => negb (c_del (snd p))) cur
     end) = match scope with [_] => cur | _ => filter (fun p => negb (c_del (snd p))) cur end).
  { destruct scope as [|d [|d2 scope']]; try reflexivity.
    subst cur. rewrite (curl_single st id d Hks).
    pose proof (best_version_current (s_clock st) (get_ds st d) id (now_of st) (Hinv d) ltac:(unfold now_of; lia)) as Hb.
    destruct (current_of (feed_of (get_ds st d)) id) as [c|].
    - cbn [filter snd]. destruct (c_del c); cbn [negb].
      + destruct (best_version id (now_of st) (d_entries (get_ds st d)) None) as [e|]; cbn [option_map] in Hb; [|discriminate].
        injection Hb as ->. reflexivity.
      + reflexivity.
    - cbn [filter]. destruct (best_version id (now_of st) (d_entries (get_ds st d)) None); cbn [option_map] in Hb; [discriminate | reflexivity]. }
  rewrite Hparts.
  set (live := match scope with [_] => cur | _ => filter (fun p => negb (c_del (snd p))) cur end).
  destruct o_found.
  - (* found: same test on both sides *)
    intros H. exact H.
  - (* not found: the model says nothing at all is there *)
    destruct live as [|x live'] eqn:El; [|discriminate].
    intros Hnd. apply negb_true_iff in Hnd.
    assert (Hcur : cur = []).
    { subst live. destruct scope as [|d [|d2 scope']]; try exact El; now apply filter_nil_existsb_nil with (p := fun p => c_del (snd p)). }
    now rewrite Hcur.
Qed.

Lemma entities_agree_spec db st s ds limits o_pages :
  sinv st -> rel st s ->
  agree_op db proj_c01 st (SEntities ds limits o_pages) = true ->
  spec_op_ok proj_c01 s (SEntities ds limits o_pages) = true.
Proof.
  intros Hinv Hrel. cbn [agree_op spec_op_ok p_entities proj_c01 negb orb].
  rewrite (listing_pages_all (s_clock st) (get_ds st ds) limits (Hinv ds)).
  rewrite (rel_sget st s ds Hrel). intros H. apply andb_true_iff in H. tauto.
Qed.

Lemma getm_agree_spec db st s id scope o_refs tbl o_props :
  sinv st -> keys_sorted st -> rel st s ->
  agree_op db proj_c01 st (SGetM id scope o_refs tbl o_props) = true ->
  spec_op_ok proj_c01 s (SGetM id scope o_refs tbl o_props) = true.
Proof.
  intros Hinv Hks Hrel. cbn [agree_op spec_op_ok p_get proj_c01 negb orb].
  rewrite (entity_at_spec st id (now_of st) scope Hinv (strictly_sorted_NoDup _ Hks) ltac:(unfold now_of; lia)).
  rewrite (spec_cur_is_curl st s id scope Hrel), spec_partials_filter. intros H. exact H.
Qed.

Definition wf_sop01 (o : sop) : Prop := match o with SWrite w _ => wf_wop w | _ => True end.

Theorem agree_implies_spec_c01_run ops : forall st s,
  sinv st -> keys_sorted st -> rel st s -> Forall wf_sop01 ops ->
  agree_run v_fixed true proj_c01 st ops = true -> spec_run proj_c01 s ops = true.
Proof.
  induction ops as [|o ops IH]; intros st s Hinv Hks Hrel Hwf; [reflexivity|].
  apply Forall_cons_iff in Hwf. destruct Hwf as [Ho Hops].
  destruct o as [w o_new | ds since limit latest o_ents o_next | ds limits o_pages
                 | id at_ scope merged o_found o_parts o_del | fam o_keys | ds since limit o_ents o_next | id scope o_refs tbl o_props];
    cbn [agree_run spec_run]; intros H; apply andb_true_iff in H; destruct H as [H1 H2]; apply andb_true_iff; split.
  - destruct w; reflexivity.
  - destruct (apply_wop_refines (fst v_fixed) st (sget s) w Ho Hinv) as [Hinv' _].
    { intros d. unfold abs. symmetry. now apply rel_sget. }
    apply (IH _ _ Hinv' (keys_sorted_apply _ _ _ _ Hks) (rel_apply st s w Ho Hinv Hrel) Hops H2).
  - reflexivity.
  - apply (IH _ _ Hinv Hks Hrel Hops H2).
  - now apply (entities_agree_spec true st s).
  - apply (IH _ _ Hinv Hks Hrel Hops H2).
  - destruct at_ as [t|]; [reflexivity|]. now apply (get_agree_spec st s).
  - apply (IH _ _ Hinv Hks Hrel Hops H2).
  - reflexivity.
  - apply (IH _ _ Hinv Hks Hrel Hops H2).
  - reflexivity.
  - apply (IH _ _ Hinv Hks Hrel Hops H2).
  - now apply (getm_agree_spec true st s).
  - apply (IH _ _ Hinv Hks Hrel Hops H2).
Qed.

(** C01: for every well-formed case, agreement of the implementation with the fully repaired model
    (repaired store flags, lookup returning a deleted last version with its body) implies the executable
    spec of C01 on the implementation's own observations *)
Theorem agree_implies_spec_c01 c :
  Forall wf_sop01 c -> agree v_fixed true proj_c01 c = true -> spec_ok proj_c01 c = true.
Proof.
  intros Hwf. unfold agree, spec_ok.
  apply agree_implies_spec_c01_run; [apply sinv0 | exact I | reflexivity | exact Hwf].
Qed.
