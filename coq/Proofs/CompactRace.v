(** C12, racing writer: for the repaired strategy (compare-and-set re-point, equality = [identical]) a batch committed
    between any two flushes commutes with the remaining flushes: the final state is, on every observable, the state
    obtained by compacting first and writing afterwards. *)
From Coq Require Import List ZArith Bool Lia.
From DH Require Import Model.Store Model.FeedSpec Model.Compact Proofs.StoreProofs Proofs.CompactProofs.
Import ListNotations.
Open Scope Z_scope.

(** two dataset states no reader can tell apart: same versions and change log, same next sequence number,
    the same latest pointer for every entity *)
Definition deq (d1 d2 : dstate) : Prop :=
  d_entries d1 = d_entries d2 /\ d_next d1 = d_next d2 /\ forall id, assoc id (d_latest d1) = assoc id (d_latest d2).

Lemma assoc_app {V} k (l1 l2 : list (Z * V)) :
  assoc k (l1 ++ l2) = match assoc k l1 with Some v => Some v | None => assoc k l2 end.
Proof.
  induction l1 as [|[k' v] l1 IH]; cbn [app assoc]; [reflexivity|]. destruct (Z.eqb k k'); [reflexivity | exact IH].
Qed.

(** ** the batch loop only looks at the contents the latest pointers name *)
Definition same_base (d d' : dstate) : Prop :=
  d_next d = d_next d' /\ forall id, oc_same (stored_latest d id) (stored_latest d' id) = true.

Lemma keep_decision_same dm s s' loc c :
  oc_same s s' = true -> keep_decision eq_full dm s loc c = keep_decision eq_full dm s' loc c.
Proof.
  intros H. destruct s as [x|], s' as [y|]; cbn [oc_same] in H; try discriminate; [|reflexivity].
  change (content_eqb eq_full) with identical. unfold keep_decision.
  change (content_eqb eq_full) with identical. rewrite (identical_cong_l x y c H). reflexivity.
Qed.

Record bsim (L L' : list (uri * (Z * Z))) (t : Z) (acc acc' : bacc) (pre : list (uri * (Z * Z))) : Prop := {
  bs_loc : a_loc acc = a_loc acc';
  bs_pend : a_pend acc = a_pend acc';
  bs_next : a_next acc = a_next acc';
  bs_lat : a_latest acc = pre ++ L;
  bs_lat' : a_latest acc' = pre ++ L';
  bs_time : Forall (fun e => en_time e = t) (a_pend acc);
  bs_pre : Forall (fun kv => fst (snd kv) = t) pre
}.

Lemma batch_fold_sim dm t d d' : same_base d d' -> forall ents acc acc' pre,
  bsim (d_latest d) (d_latest d') t acc acc' pre ->
  exists pre', bsim (d_latest d) (d_latest d') t
                    (fold_left (batch_step eq_full dm d t) ents acc) (fold_left (batch_step eq_full dm d' t) ents acc') pre'.
Proof.
  intros [Hn Hs]. induction ents as [|[i e] ents IH]; intros acc acc' pre H; cbn [fold_left]; [now exists pre|].
  destruct H as [H1 H2 H3 H4 H5 H6 H7].
  apply IH with (pre := if keep_decision eq_full dm (stored_latest d (e_id e)) (assoc (e_id e) (a_loc acc)) (e_c e)
                        then (e_id e, (t, i)) :: pre else pre).
  unfold batch_step. rewrite <- H1, <- (keep_decision_same dm _ _ _ _ (Hs (e_id e))).
  destruct (keep_decision eq_full dm (stored_latest d (e_id e)) (assoc (e_id e) (a_loc acc)) (e_c e)).
  - constructor; cbn [a_loc a_pend a_latest a_next].
    + now rewrite H1.
    + now rewrite H2, H3.
    + now rewrite H3.
    + now rewrite H4.
    + now rewrite H5.
    + apply Forall_app. split; [exact H6 | constructor; [reflexivity | constructor]].
    + constructor; [reflexivity | exact H7].
  - constructor; assumption.
Qed.

Lemma batch_sim dm t ents d d' : same_base d d' ->
  exists pend pre,
    store_batch_ds eq_full dm t ents d = {| d_entries := d_entries d ++ pend; d_latest := pre ++ d_latest d; d_next := d_next d + Z.of_nat 0 + (a_next (fold_left (batch_step eq_full dm d t) (number_from 0 ents) {| a_loc := []; a_pend := []; a_latest := d_latest d; a_next := d_next d |}) - d_next d) |}
    /\ store_batch_ds eq_full dm t ents d' = {| d_entries := d_entries d' ++ pend; d_latest := pre ++ d_latest d'; d_next := d_next d + Z.of_nat 0 + (a_next (fold_left (batch_step eq_full dm d t) (number_from 0 ents) {| a_loc := []; a_pend := []; a_latest := d_latest d; a_next := d_next d |}) - d_next d) |}
    /\ Forall (fun e => en_time e = t) pend /\ Forall (fun kv => fst (snd kv) = t) pre.
Proof.
  intros Hb. unfold store_batch_ds.
  set (acc0 := {| a_loc := []; a_pend := []; a_latest := d_latest d; a_next := d_next d |}).
  set (acc0' := {| a_loc := []; a_pend := []; a_latest := d_latest d'; a_next := d_next d' |}).
  assert (H0 : bsim (d_latest d) (d_latest d') t acc0 acc0' []).
  { constructor; cbn; try reflexivity; try constructor. apply Hb. }
  destruct (batch_fold_sim dm t d d' Hb (number_from 0 ents) acc0 acc0' [] H0) as (pre & [H1 H2 H3 H4 H5 H6 H7]).
  exists (a_pend (fold_left (batch_step eq_full dm d t) (number_from 0 ents) acc0)), pre.
  split; [|split; [|split; assumption]].
  - f_equal; [exact H4 | lia].
  - rewrite <- H2, <- H3. f_equal; [exact H5 | lia].
Qed.

(** ** re-pointing with compare-and-set below a layer of newer pointers *)
Definition aeq (X Y : list (uri * (Z * Z))) : Prop := forall id, assoc id X = assoc id Y.

Lemma repoint_aeq X Y i : aeq X Y -> aeq (repoint cf_fixed X i) (repoint cf_fixed Y i).
Proof.
  intros H. unfold repoint. destruct (i_repoint i) as [[id k]|]; [|exact H].
  cbn [cf_fixed cf_blind_repoint]. destruct (i_del i) as [[x old]|]; [|exact H]. rewrite (H id).
  destruct (key_opt_eqb (assoc id Y) old); [|exact H].
  intros id'. cbn [assoc]. destruct (Z.eqb id' id); [reflexivity | apply H].
Qed.

Definition old_before (t : Z) (i : instr) : Prop :=
  match i_del i with Some (_, (ot, _)) => ot < t | None => True end.

Lemma assoc_pre_time (pre : list (uri * (Z * Z))) t id pt pb :
  Forall (fun kv => fst (snd kv) = t) pre -> assoc id pre = Some (pt, pb) -> pt = t.
Proof.
  induction pre as [|[k' v] pre IH]; intros H E; cbn [assoc] in E; [discriminate|].
  apply Forall_cons_iff in H. destruct H as [Hk H']. cbn [fst snd] in Hk.
  destruct (Z.eqb id k'); [injection E as E; rewrite E in Hk; exact Hk | now apply IH].
Qed.

Lemma repoint_under pre t Y i : Forall (fun kv => fst (snd kv) = t) pre -> old_before t i ->
  aeq (repoint cf_fixed (pre ++ Y) i) (pre ++ repoint cf_fixed Y i).
Proof.
  intros Hpre Hold. unfold repoint. destruct (i_repoint i) as [[id k]|]; [|intros ?; reflexivity].
  cbn [cf_fixed cf_blind_repoint]. unfold old_before in Hold. destruct (i_del i) as [[x [ot ob]]|]; [|intros ?; reflexivity].
  rewrite assoc_app. destruct (assoc id pre) as [[pt pb]|] eqn:Ep.
  - (* the entity was rewritten by the racing batch: the compare-and-set fails *)
    assert (Hpt : pt = t) by (exact (assoc_pre_time pre t id pt pb Hpre Ep)).
    unfold key_opt_eqb at 1. cbn [fst snd]. replace (Z.eqb pt ot) with false by (symmetry; apply Z.eqb_neq; lia). cbn [andb].
    intros id'. rewrite !assoc_app. destruct (assoc id' pre) eqn:E'; [reflexivity|].
    destruct (key_opt_eqb (assoc id Y) (ot, ob)); [|reflexivity].
    cbn [assoc]. destruct (Z.eqb_spec id' id) as [->|]; [congruence | reflexivity].
  - destruct (key_opt_eqb (assoc id Y) (ot, ob)); [|intros ?; reflexivity].
    intros id'. cbn [assoc]. rewrite !assoc_app. cbn [assoc].
    destruct (Z.eqb_spec id' id) as [->|]; [now rewrite Ep | reflexivity].
Qed.

Lemma fold_repoint_under pre t g : Forall (fun kv => fst (snd kv) = t) pre -> Forall (old_before t) g ->
  forall X Y, aeq X (pre ++ Y) -> aeq (fold_left (repoint cf_fixed) g X) (pre ++ fold_left (repoint cf_fixed) g Y).
Proof.
  intros Hpre. induction g as [|i g IH]; intros Hg X Y H; cbn [fold_left]; [exact H|].
  inversion Hg as [|? ? Hi Hg']; subst. apply IH; [exact Hg'|].
  intros id. rewrite (repoint_aeq X (pre ++ Y) i H id). exact (repoint_under pre t Y i Hpre Hi id).
Qed.

(** ** the instructions only name versions of the snapshot *)
Lemma pass_del_in cf eqb same : forall vs prev i, In i (entity_pass cf eqb same prev vs) ->
  match i_del i with Some k => exists v, In v vs /\ k = key_of v | None => True end.
Proof.
  induction vs as [|v vs IH]; intros prev i Hi; cbn [entity_pass] in Hi; [destruct Hi|].
  destruct (eqb (en_c prev) (en_c v)).
  - destruct Hi as [<-|Hi]; [cbn [i_del]; exists v; split; [now left | reflexivity]|].
    specialize (IH _ _ Hi). destruct (i_del i); [|exact I]. destruct IH as (x & Hx & ->). exists x. split; [now right | reflexivity].
  - destruct (0 <? _).
    + destruct Hi as [<-|Hi]; [exact I|].
      specialize (IH _ _ Hi). destruct (i_del i); [|exact I]. destruct IH as (x & Hx & ->). exists x. split; [now right | reflexivity].
    + specialize (IH _ _ Hi). destruct (i_del i); [|exact I]. destruct IH as (x & Hx & ->). exists x. split; [now right | reflexivity].
Qed.

Lemma all_del_in cf eqb d order i : In i (all_instrs cf eqb d order) ->
  match i_del i with Some k => exists v, In v (d_entries d) /\ k = key_of v | None => True end.
Proof.
  intros Hi. unfold all_instrs in Hi. apply in_flat_map in Hi. destruct Hi as (id & _ & Hi).
  unfold entity_instrs in Hi. destruct (versions_of d id) as [|v vs] eqn:Ev; [destruct Hi|].
  pose proof (pass_del_in cf eqb _ vs v i Hi) as H. destruct (i_del i); [|exact I].
  destruct H as (x & Hx & ->). exists x. split; [|reflexivity].
  assert (Hin : In x (versions_of d id)) by (rewrite Ev; now right). unfold versions_of in Hin. apply filter_In in Hin. apply Hin.
Qed.

Theorem race_commutes dm thr order k t clk ents d :
  cinv d -> times_le clk (d_entries d) -> clk < t -> NoDup order ->
  deq (compact_race cf_fixed eq_full dm thr order k t ents d)
      (store_batch_ds eq_full dm t ents (compact_ds cf_fixed eq_full thr order d)).
Proof.
  intros Hd Htimes Ht Hnd. unfold compact_race, compact_ds.
  set (p := plan cf_fixed eq_full thr d order).
  rewrite <- (firstn_skipn k p) at 3. unfold apply_flushes at 3. rewrite fold_left_app.
  fold (apply_flushes cf_fixed d (firstn k p)).
  set (d1 := apply_flushes cf_fixed d (firstn k p)).
  fold (apply_flushes cf_fixed d1 (skipn k p)). rewrite !apply_flushes_concat.
  set (g2 := concat (skipn k p)).
  assert (Hall : all_instrs cf_fixed identical d order = concat (firstn k p) ++ g2).
  { unfold g2. rewrite <- concat_app, firstn_skipn. unfold p, plan. now rewrite concat_batches. }
  assert (Hr1 : inv_rel d d1).
  { unfold d1. rewrite apply_flushes_concat. apply (order_sound d order d _ g2 Hnd Hd (fun _ _ => eq_refl) Hall). }
  assert (HrA : inv_rel d (apply_flush cf_fixed d1 g2)).
  { unfold d1. rewrite apply_flushes_concat, apply_flush_app, <- Hall.
    apply (order_sound d order d _ [] Hnd Hd (fun _ _ => eq_refl)). now rewrite app_nil_r. }
  set (dA := apply_flush cf_fixed d1 g2) in *.
  assert (Hbase : same_base d1 dA).
  { split; [reflexivity|]. intros id.
    eapply oc_same_trans; [apply (inv_rel_latest _ _ Hd Hr1)|]. rewrite oc_same_sym. apply (inv_rel_latest _ _ Hd HrA). }
  destruct (batch_sim dm t ents d1 dA Hbase) as (pend & pre & E1 & EA & Hpend & Hpre).
  rewrite E1, EA. clear E1 EA.
  assert (Hold : Forall (old_before t) g2).
  { apply Forall_forall. intros i Hi. unfold old_before.
    assert (Hin : In i (all_instrs cf_fixed identical d order)) by (rewrite Hall; apply in_or_app; now right).
    pose proof (all_del_in _ _ _ _ _ Hin) as H. destruct (i_del i) as [[x [ot ob]]|]; [|exact I].
    destruct H as (v & Hv & Hk). unfold key_of in Hk. injection Hk as _ -> _.
    unfold times_le in Htimes. rewrite Forall_forall in Htimes. specialize (Htimes v Hv). lia. }
  unfold deq, apply_flush. cbn [d_entries d_latest d_next]. split; [|split; [reflexivity|]].
  - (* entries: the new versions carry the new time, no instruction names them *)
    rewrite filter_app. f_equal. apply filter_all_in. intros x Hx.
    rewrite Forall_forall in Hpend. specialize (Hpend x Hx).
    apply negb_true_iff, not_true_is_false. intros Hk. unfold kmem in Hk. apply existsb_exists in Hk.
    destruct Hk as (key & Hkey & Heq). unfold del_keys in Hkey. apply in_flat_map in Hkey. destruct Hkey as (i & Hi & Hki).
    rewrite Forall_forall in Hold. specialize (Hold i Hi). unfold old_before in Hold.
    destruct (i_del i) as [[y [ot ob]]|]; [|destruct Hki]. destruct Hki as [<-|[]].
    unfold vkey_eqb, key_of in Heq. cbn [fst snd] in Heq.
    apply andb_true_iff in Heq. destruct Heq as [Heq _]. apply andb_true_iff in Heq. destruct Heq as [_ Heq].
    apply Z.eqb_eq in Heq. lia.
  - intros id. unfold dA, apply_flush. cbn [d_latest].
    apply (fold_repoint_under pre t g2 Hpre Hold (pre ++ d_latest d1) (d_latest d1)). intros ?; reflexivity.
Qed.

(** what [deq] gives the readers *)
Lemma deq_observables d1 d2 : deq d1 d2 ->
  feed_of d1 = feed_of d2 /\ (forall id, stored_latest d1 id = stored_latest d2 id)
  /\ (forall id at_ best, best_version id at_ (d_entries d1) best = best_version id at_ (d_entries d2) best).
Proof.
  intros (He & _ & Hl). split; [|split].
  - unfold feed_of. now rewrite He.
  - intros id. unfold stored_latest. now rewrite Hl, He.
  - intros. now rewrite He.
Qed.
