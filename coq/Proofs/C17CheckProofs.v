(** The link between the correspondence evaluator of C17 and the theorems (sink-level cases):
    a case on which the implementation agrees with the repaired model satisfies the executable spec. *)
From Coq Require Import List ZArith NArith Bool Arith Lia.
From DH Require Import Lib.CheckLib Model.ErrorHandler Proofs.ErrorHandlerProofs Check.C17Check.
Import ListNotations.

Lemma zl_eqb_eq l1 l2 : zlist_eqb l1 l2 = true <-> l1 = l2.
Proof. apply list_eqb_eq. intros; apply Z.eqb_eq. Qed.

Lemma ev_eqb_eq a b : ev_eqb a b = true <-> a = b.
Proof.
  destruct a, b; cbn; try (split; congruence).
  - rewrite zl_eqb_eq. split; congruence.
  - rewrite Z.eqb_eq. split; congruence.
Qed.

Lemma evlist_eqb_eq l1 l2 : evlist_eqb l1 l2 = true <-> l1 = l2.
Proof. apply list_eqb_eq. apply ev_eqb_eq. Qed.

Lemma is_prefix_app p rest : is_prefix p (p ++ rest) = true.
Proof. induction p; cbn; [reflexivity|]. rewrite Z.eqb_refl. exact IHp. Qed.

Lemma find_none_forallb (f : Z -> bool) l : find f l = None -> forallb (fun x => negb (f x)) l = true.
Proof.
  induction l as [|x l IH]; cbn; [auto|]. destruct (f x); [discriminate|]. cbn. exact IH.
Qed.

Lemma just_good bad fc (new : list (event Z)) :
  Forall (ev_just (scripted bad fc)) new ->
  forallb (fun x => negb (zmem x bad)) (delivered new) = true.
Proof.
  induction 1 as [|e new He _ IH]; [reflexivity|].
  change (delivered (e :: new)) with (ev_deliv e ++ delivered new).
  rewrite forallb_app, IH, andb_true_r.
  destruct e as [b|x]; cbn; [|reflexivity].
  destruct He as [c Hc]. unfold scripted in Hc.
  destruct (zmem (Z.of_nat c) fc); [discriminate|]. apply find_none_forallb. exact Hc.
Qed.

Lemma just_bad bad (new : list (event Z)) :
  Forall (ev_just (scripted bad [])) new ->
  forallb (fun x => zmem x bad) (reported new) = true.
Proof.
  induction 1 as [|e new He _ IH]; [reflexivity|].
  change (reported (e :: new)) with (ev_rep e ++ reported new).
  rewrite forallb_app, IH, andb_true_r.
  destruct e as [b|x]; cbn; [reflexivity|].
  destruct He as [c Hc]. unfold scripted in Hc. cbn in Hc.
  destruct (zmem x bad); [reflexivity | exfalso; apply Hc; reflexivity].
Qed.

Theorem agree_fixed_spec_sink c :
  t_job c = false -> (0 <= t_preCount c)%Z ->
  limit_hit (Z.to_nat (t_maxItems c)) (Z.to_nat (t_preCount c)) = false ->
  agree VFixed c = true -> spec_ok c = true.
Proof.
  intros Hk Hpc Hpre. unfold agree, spec_ok, agree_sink, spec_sink, predict_sink. rewrite Hk.
  set (l := zseq 0 (Z.to_nat (t_n c))).
  set (k := Z.to_nat (t_maxItems c)).
  pose proof (wsink_post (inner_of c) (success_clears VFixed) k (length l) l (sink_pre c) (le_n _)) as P.
  destruct (wsink (inner_of c) (success_clears VFixed) k (length l) l (sink_pre c)) as [r st].
  cbn [fst snd] in P.
  destruct P as (new & Hlog & Hcnt & _ & _ & Hj & _ & Hrep & _ & Hr).
  cbn [sink_pre ws_log ws_count] in Hlog, Hcnt, Hr. cbn [app] in Hlog.
  intros H. apply andb_true_iff in H. destruct H as [Ho H].
  repeat (apply andb_true_iff in H; destruct H as [H ?]).
  rename H into Hres0.
  match goal with Hs : evlist_eqb _ _ = true |- _ => apply evlist_eqb_eq in Hs; rewrite Hlog in Hs; rewrite <- Hs end.
  match goal with Hs : (Z.of_nat (ws_count st) =? o_count c)%Z = true |- _ => apply Z.eqb_eq in Hs; rename Hs into Hoc end.
  match goal with Hs : Bool.eqb _ (o_lastSet c) = true |- _ => apply Bool.eqb_prop in Hs; rename Hs into Hls end.
  apply Z.eqb_eq in Hres0. rename Hres0 into Hres.
  repeat (apply andb_true_iff; split).
  - assumption.
  - rewrite Hres. destruct r; cbn.
    + destruct Hr as [Hflat Hlim]. rewrite Hflat. apply andb_true_iff. split; [apply zl_eqb_eq; reflexivity|].
      rewrite <- Hcnt, (Hlim Hpre). reflexivity.
    + destruct Hr as (new0 & x & rest & Hnew & Hflat & Hhit & _).
      rewrite <- Hcnt, Hhit, andb_true_r. apply andb_true_iff. split.
      * rewrite <- Hflat. apply is_prefix_app.
      * unfold ends_with_rep. rewrite Hnew, rev_app_distr. reflexivity.
  - apply (just_good _ _ _ Hj).
  - unfold inner_of in Hj. destruct (t_failcalls c); [|reflexivity]. apply (just_bad _ _ Hj).
  - apply Z.eqb_eq. rewrite <- Hoc, Hcnt. lia.
  - destruct (reported new) eqn:Hrn; [reflexivity|]. rewrite <- Hls.
    destruct (ws_last st); [reflexivity|]. exfalso. apply Hrep; [discriminate | reflexivity].
Qed.

(** ** job-level cases in the scope of the full spec (log handler, permanent sink, no kill) and burst cases *)
Lemma orun_eqb_eq a b : orun_eqb a b = true -> a = b.
Proof.
  unfold orun_eqb. intros H. repeat (apply andb_true_iff in H; destruct H as [H ?]).
  destruct a, b; cbn in *.
  repeat match goal with
         | Hs : (_ =? _)%Z = true |- _ => apply Z.eqb_eq in Hs
         | Hs : evlist_eqb _ _ = true |- _ => apply evlist_eqb_eq in Hs
         | Hs : Bool.eqb _ _ = true |- _ => apply Bool.eqb_prop in Hs
         end.
  subst. reflexivity.
Qed.

Lemma orunlist_eqb_eq l1 l2 : list_eqb orun_eqb l1 l2 = true -> l1 = l2.
Proof.
  revert l2. induction l1 as [|a l1 IH]; destruct l2 as [|b l2]; cbn; try discriminate; [auto|].
  intros H. apply andb_true_iff in H. destruct H as [H1 H2]. rewrite (orun_eqb_eq _ _ H1), (IH _ H2). reflexivity.
Qed.

Lemma zseq_length a n : length (zseq a n) = n.
Proof. revert a. induction n; intros a; cbn; [reflexivity | rewrite IHn; reflexivity]. Qed.

Lemma skipn_zseq : forall k a n, skipn k (zseq a n) = zseq (a + Z.of_nat k) (n - k).
Proof.
  induction k as [|k IH]; intros a n.
  - cbn [skipn]. rewrite Z.add_0_r, Nat.sub_0_r. reflexivity.
  - destruct n as [|n]; [reflexivity|]. cbn [zseq skipn]. rewrite IH. f_equal. lia.
Qed.

Lemma is_prefix_refl l : is_prefix l l = true.
Proof. rewrite <- (app_nil_r l) at 2. apply is_prefix_app. Qed.

Lemma forallb_filter_all (f : Z -> bool) l : forallb f l = true -> filter f l = l.
Proof.
  induction l as [|x l IH]; cbn; [auto|]. intros H. apply andb_true_iff in H. destruct H as [Hx Hl].
  rewrite Hx, (IH Hl). reflexivity.
Qed.
Lemma forallb_filter_none (f : Z -> bool) l : forallb (fun x => negb (f x)) l = true -> filter f l = [].
Proof.
  induction l as [|x l IH]; cbn; [auto|]. intros H. apply andb_true_iff in H. destruct H as [Hx Hl].
  destruct (f x); [discriminate | exact (IH Hl)].
Qed.

Lemma partition_bool (bad : Z -> bool) (log : list (event Z)) :
  forallb (fun x => negb (bad x)) (delivered log) = true -> forallb bad (reported log) = true ->
  reported log = filter bad (flat log).
Proof.
  induction log as [|e log IH]; [reflexivity|].
  change (flat (e :: log)) with (ev_flat e ++ flat log).
  change (delivered (e :: log)) with (ev_deliv e ++ delivered log).
  change (reported (e :: log)) with (ev_rep e ++ reported log).
  rewrite !forallb_app, filter_app. intros Hd Hr.
  apply andb_true_iff in Hd. destruct Hd as [Hd1 Hd2]. apply andb_true_iff in Hr. destruct Hr as [Hr1 Hr2].
  rewrite (IH Hd2 Hr2). destruct e as [b|x]; cbn [ev_flat ev_deliv ev_rep] in *.
  - rewrite (forallb_filter_none _ _ Hd1). reflexivity.
  - rewrite (forallb_filter_all _ _ Hr1). reflexivity.
Qed.

Lemma scripted_fc bad fc call l : zmem (Z.of_nat call) fc = true ->
  scripted bad fc call l = Some (1000 + Z.of_nat call)%Z.
Proof. unfold scripted. intros ->. reflexivity. Qed.
Lemma scripted_nofc bad fc call l : zmem (Z.of_nat call) fc = false ->
  scripted bad fc call l = find (fun x => zmem x bad) l.
Proof. unfold scripted. intros ->. reflexivity. Qed.

Lemma scripted_code_nonneg bad fc : forallb (Z.leb 0) bad = true ->
  forall call l e, scripted bad fc call l = Some e -> (0 <= e)%Z.
Proof.
  intros Hb call l e. destruct (zmem (Z.of_nat call) fc) eqn:Hm.
  - rewrite (scripted_fc _ _ _ _ Hm). intros H. assert (He : e = (1000 + Z.of_nat call)%Z) by congruence. pose proof (Nat2Z.is_nonneg call). lia.
  - rewrite (scripted_nofc _ _ _ _ Hm).
    intros Hf. apply find_some in Hf. destruct Hf as [_ Hm2]. unfold zmem in Hm2.
    apply existsb_exists in Hm2. destruct Hm2 as (y & Hy & He). apply Z.eqb_eq in He. subst y.
    rewrite forallb_forall in Hb. apply Z.leb_le. apply Hb. exact Hy.
Qed.

Lemma limit_hit_exact k a : limit_hit k a = false -> limit_hit k (a + 1) = true -> k = (a + 1)%nat.
Proof.
  unfold limit_hit. intros H1 H2. apply andb_true_iff in H2. destruct H2 as [Hk H2].
  apply Nat.ltb_lt in Hk. apply Nat.leb_le in H2. rewrite (proj2 (Nat.ltb_lt 0 k) Hk) in H1. cbn in H1.
  apply Nat.leb_gt in H1. lia.
Qed.

Definition jinv (st : jstate Z) (n : nat) : Prop :=
  (j_tok st <= n)%nat /\ clean st /\ last_ok (fun z => (0 <= z)%Z) (j_ws st).

Lemma run_killed_none inner v cfg src (st : jstate Z) :
  c_kill cfg = None -> r_killed (fst (run inner v cfg src st)) = false.
Proof.
  intros Hk. unfold run.
  destruct (sync_pages inner v cfg (S (length src)) src (j_tok st) false 0 _) as [[[e cnt] tok] ws].
  destruct e; cbn; try (destruct (j_wrapped st || c_log cfg); [destruct (ws_last ws)|]; cbn);
    unfold kill_in; rewrite Hk; reflexivity.
Qed.

Section StrictCase.
  Variable c : tcase.
  Hypothesis Hlog : t_log c = true.
  Hypothesis Hfc : t_failcalls c = [].
  Hypothesis Hkill : (t_killAt c <? 0)%Z = true.
  Hypothesis Hbad : forallb (Z.leb 0) (t_bad c) = true.
  Hypothesis Hfull : t_full c = false.

  Let cfg := cfg_of c.
  Let inner := inner_of c.

  Lemma cfg_log : c_log cfg = true. Proof. exact Hlog. Qed.
  Lemma cfg_kill : c_kill cfg = None. Proof. unfold cfg, cfg_of. cbn. rewrite Hkill. reflexivity. Qed.
  Lemma cfg_batch : (1 <= c_batch cfg)%nat.
  Proof. unfold cfg, cfg_of. cbn. destruct (t_batch c <? 1)%Z eqn:Hb; [lia|]. apply Z.ltb_ge in Hb. lia. Qed.
  Lemma strict_true : strict c = true.
  Proof. unfold strict. rewrite Hlog, Hfc, Hkill. reflexivity. Qed.
  Lemma inner_nonneg : forall call l e, inner call l = Some e -> (0 <= e)%Z.
  Proof. apply scripted_code_nonneg. exact Hbad. Qed.

  Lemma run_spec n (st : jstate Z) :
    jinv st n ->
    let r := fst (run inner VFixed cfg (zseq 0 n) st) in
    let st' := snd (run inner VFixed cfg (zseq 0 n) st) in
    spec_run c (j_tok st) n (to_orun r) = true
    /\ Z.to_nat (or_tok (to_orun r)) = j_tok st' /\ jinv st' n.
  Proof.
    intros (Htok & Hclean & Hlast).
    set (src := zseq 0 n).
    assert (Hlen : length src = n) by apply zseq_length.
    pose proof (run_fixed inner cfg src st cfg_log cfg_kill cfg_batch ltac:(lia) Hclean) as F.
    pose proof (run_pending inner VFixed cfg src st) as P.
    pose proof (run_last_ok inner (fun z => (0 <= z)%Z) inner_nonneg VFixed cfg src st Hlast) as L.
    pose proof (run_killed_none inner VFixed cfg src st cfg_kill) as K.
    destruct (run inner VFixed cfg src st) as [r st'] eqn:R. cbn [fst snd] in *.
    destruct F as (Hj & Hok & Herr & Hnot & Hhit & Htk' & Htkle & Hwr & Hcl).
    destruct P as (_ & Hp & _). destruct L as [Hl' Hcode].
    split; [|split; [cbn; rewrite Nat2Z.id; symmetry; exact Htk' | unfold jinv; split; [lia | split; [exact Hcl | exact Hl']]]].
    assert (Hgood : forallb (is_good c) (delivered (r_log r)) = true).
    { unfold inner, inner_of in Hj. apply (just_good _ _ _ Hj). }
    assert (Hbadr : forallb (is_bad c) (reported (r_log r)) = true).
    { unfold inner, inner_of in Hj. rewrite Hfc in Hj. apply (just_bad _ _ Hj). }
    pose proof (partition_bool (is_bad c) (r_log r) Hgood Hbadr) as Hpart.
    assert (Hrest : zseq (Z.of_nat (j_tok st)) (n - j_tok st) = skipn (j_tok st) src).
    { unfold src. rewrite skipn_zseq. f_equal. }
    assert (Hnn : forall z, r_err r = PInner z -> (perr_code (r_err r) =? -1)%Z = false /\ (perr_code (r_err r) =? -3)%Z = false
                                              /\ (0 <=? perr_code (r_err r))%Z = true).
    { intros z Hz. pose proof (Hcode z Hz) as Hz0. rewrite Hz. cbn. repeat split; [apply Z.eqb_neq | apply Z.eqb_neq | apply Z.leb_le]; lia. }
    assert (Hiff : Bool.eqb (perr_code (r_err r) =? -1)%Z (match reported (r_log r) with [] => true | _ => false end) = true).
    { destruct (reported (r_log r)) eqn:Hrp.
      - rewrite (proj2 Hok eq_refl). reflexivity.
      - destruct Herr as [He|[zc Hz]]; [apply Hok in He; discriminate|]. destruct (Hnn zc Hz) as (H1 & _ & _). rewrite H1. reflexivity. }
    set (k := Z.to_nat (t_maxItems c)) in *.
    change (c_maxItems cfg) with k in *.
    assert (Hpend : (if r_pending r then t_rerun c && negb (perr_code (r_err r) =? -1)%Z && negb (perr_code (r_err r) =? -3)%Z else true) = true).
    { destruct (r_pending r) eqn:Hpd; [|reflexivity]. destruct (Hp eq_refl) as (Hrr & _ & _ & zc & Hz).
      destruct (Hnn zc Hz) as (H1 & H3 & _). change (c_rerun cfg) with (t_rerun c) in Hrr. rewrite Hrr, H1, H3. reflexivity. }
    set (rest := skipn (j_tok st) src) in *.
    assert (Hmain : is_prefix (flat (r_log r)) rest = true
                    /\ (if limit_hit k (length (filter (is_bad c) rest))
                        then zlist_eqb (reported (r_log r)) (firstn k (filter (is_bad c) rest)) && ends_with_rep (r_log r)
                             && (0 <=? perr_code (r_err r))%Z
                             && (t_full c || (Z.of_nat (r_tok r) <=? Z.of_nat (j_tok st) + Z.of_nat (length (flat (r_log r))) - 1)%Z)
                        else zlist_eqb (flat (r_log r)) rest && (Z.of_nat (r_tok r) =? Z.of_nat n)%Z
                             && match filter (is_bad c) rest with [] => (perr_code (r_err r) =? -1)%Z | _ => (0 <=? perr_code (r_err r))%Z end) = true).
    { destruct (limit_hit k (length (reported (r_log r)))) eqn:Hh.
      - destruct (Hhit eq_refl) as (new0 & x & rest' & Hlg & Hflat & Hmin & Htkb).
        assert (Hbads : filter (is_bad c) rest = reported (r_log r) ++ filter (is_bad c) rest').
        { rewrite <- Hflat, filter_app, <- Hpart. reflexivity. }
        rewrite Hbads, app_length. rewrite (limit_hit_mono _ _ _ Hh).
        assert (Hk : k = length (reported (r_log r))).
        { rewrite Hlg, reported_app, app_length. cbn [reported flat_map ev_rep app length].
          apply limit_hit_exact; [exact Hmin|]. rewrite Hlg, reported_app, app_length in Hh. exact Hh. }
        rewrite Hk at 1. rewrite firstn_app, Nat.sub_diag, firstn_all. cbn [firstn]. rewrite app_nil_r.
        split; [rewrite <- Hflat; apply is_prefix_app|].
        repeat (apply andb_true_iff; split).
        + apply zl_eqb_eq. reflexivity.
        + unfold ends_with_rep. rewrite Hlg, rev_app_distr. reflexivity.
        + destruct Herr as [He|[zc Hz]]; [|apply (Hnn zc Hz)].
          exfalso. apply Hok in He. rewrite He in Hh. unfold limit_hit in Hh. cbn in Hh.
          destruct k; cbn in Hh; discriminate.
        + rewrite Hfull. cbn [orb]. apply Z.leb_le. rewrite Hlg, flat_app, app_length. cbn [flat flat_map ev_flat app length]. lia.
      - destruct (Hnot eq_refl) as [Hflat Htke]. rewrite Hflat in Hpart.
        rewrite <- Hpart, Hh, Hflat, is_prefix_refl. split; [reflexivity|].
        apply andb_true_iff; split; [apply andb_true_iff; split|].
        + apply zl_eqb_eq. reflexivity.
        + apply Z.eqb_eq. rewrite Htke, Hlen. reflexivity.
        + destruct (reported (r_log r)) eqn:Hrp.
          * rewrite (proj2 Hok eq_refl). reflexivity.
          * destruct Herr as [He|[zc Hz]]; [apply Hok in He; discriminate | apply (Hnn zc Hz)]. }
    destruct Hmain as [Hpre Hlim].
    unfold spec_run. rewrite strict_true. cbn [to_orun or_ev or_err or_tok or_pending or_killed].
    rewrite Hrest, K, Hlog, Hkill. fold rest. fold k. cbn [andb].
    rewrite Hpre, Hgood, Hbadr, Hlim, Hpend, Hiff. reflexivity.
  Qed.

  Lemma chain_spec : forall fuel n adds crons (st : jstate Z),
    jinv st n ->
    spec_runs c (j_tok st) n adds (map to_orun (chain inner VFixed cfg false fuel n adds crons st)) = true.
  Proof.
    induction fuel as [|f IH]; intros n adds crons st Hinv; [reflexivity|].
    cbn [chain]. change (run_any inner VFixed cfg false (zseq 0 n) st) with (run inner VFixed cfg (zseq 0 n) st).
    pose proof (run_spec n st Hinv) as S.
    destruct (run inner VFixed cfg (zseq 0 n) st) as [r st'] eqn:R. cbn [fst snd] in S.
    destruct S as (Hs & Htk & Hinv').
    set (n' := match adds with a :: _ => (n + a)%nat | [] => n end).
    assert (Hinv'' : jinv st' n').
    { destruct Hinv' as (H1 & H2 & H3). unfold jinv. split; [subst n'; destruct adds; lia | split; assumption]. }
    destruct (r_pending r).
    - cbn [map spec_runs]. rewrite Hfull, Hs, Htk. cbn [andb]. apply IH. exact Hinv''.
    - destruct crons as [|cr].
      + cbn [map spec_runs]. rewrite Hfull, Hs. reflexivity.
      + cbn [map spec_runs]. rewrite Hfull, Hs, Htk. cbn [andb]. apply IH. exact Hinv''.
  Qed.
End StrictCase.

Lemma count_pending_map rs : count_pending (map to_orun rs) = pendings rs.
Proof.
  unfold count_pending, pendings. induction rs as [|r rs IH]; [reflexivity|].
  cbn [map filter to_orun or_pending]. destruct (r_pending r); cbn [length]; rewrite IH; reflexivity.
Qed.

(** job-level cases in the scope of the full spec *)
Theorem agree_fixed_spec_job c :
  t_job c = true -> (0 <? t_burst c)%Z = false ->
  t_log c = true -> t_failcalls c = [] -> (t_killAt c <? 0)%Z = true -> forallb (Z.leb 0) (t_bad c) = true ->
  t_full c = false ->
  (Z.of_nat (Z.to_nat (t_crons c)) + Z.max 0 (retries0 c) < 60)%Z ->
  agree VFixed c = true -> spec_ok c = true.
Proof.
  intros Hj Hb Hlog Hfc Hkill Hbad Hfull Hfuel. unfold agree, spec_ok, agree_job, spec_job. rewrite Hj, Hb.
  intros H. apply andb_true_iff in H. destruct H as [Ho H]. rewrite Ho. cbn [andb].
  apply andb_true_iff in H. destruct H as [H _]. apply andb_true_iff in H. destruct H as [H _].
  apply orunlist_eqb_eq in H. rewrite <- H. unfold predict_job.
  set (n := Z.to_nat (t_n c)). set (adds := map Z.to_nat (t_adds c)). set (crons := Z.to_nat (t_crons c)).
  set (st0 := j_init (retries0 c)).
  assert (Hinv : jinv st0 n).
  { unfold jinv, st0, j_init, clean, last_ok. cbn. split; [lia | split; [auto | discriminate]]. }
  rewrite Hfull. pose proof (chain_spec c Hlog Hfc Hkill Hbad Hfull 60 n adds crons st0 Hinv) as Hs. cbn [st0 j_init j_tok] in Hs.
  rewrite Hs. cbn [andb].
  apply andb_true_iff. split.
  - apply Z.leb_le. rewrite count_pending_map.
    pose proof (chain_pending_bound (inner_of c) VFixed (cfg_of c) false 60 n adds crons st0) as B. exact B.
  - destruct (chain_last (inner_of c) VFixed (cfg_of c) false 60 n adds crons st0) as (rs & r & Hc & Hr).
    { cbn. exact Hfuel. }
    rewrite Hc, map_app, rev_app_distr. cbn. rewrite Hr. reflexivity.
Qed.

(** burst cases: every variant of the model keeps the re-executions within the retries *)
Theorem agree_spec_burst v c :
  t_job c = true -> (0 <? t_burst c)%Z = true -> agree v c = true -> spec_ok c = true.
Proof.
  intros Hj Hb. unfold agree, spec_ok, agree_burst, spec_burst. rewrite Hj, Hb.
  intros H. apply andb_true_iff in H. destruct H as [Ho H]. rewrite Ho. cbn [andb].
  apply andb_true_iff in H. destruct H as [_ H]. apply Z.leb_le in H.
  apply Z.leb_le. apply Z.ltb_lt in Hb.
  assert (B : (Z.of_nat (length (predict_burst v c))
               <= Z.of_nat (Z.to_nat (t_burst c)) + Z.of_nat 0 + Z.max 0 (j_retries (j_init (retries0 c))))%Z)
    by (unfold predict_burst; apply burst_len_bound).
  (* no term mentioning [burst] below this line: the kernel must not be asked to convert it *)
  revert H B. generalize (Z.of_nat (length (predict_burst v c))). intros L H B.
  change (j_retries (j_init (retries0 c))) with (retries0 c) in B.
  rewrite Z2Nat.id in B by (apply Z.lt_le_incl; exact Hb).
  change (Z.of_nat 0) with 0%Z in B. rewrite Z.add_0_r in B.
  apply Z.le_trans with (m := (L - t_burst c)%Z); [apply Z.sub_le_mono_r; exact H|].
  apply Z.le_sub_le_add_l. exact B.
Qed.
