(** The link between the correspondence evaluator of C17 and the theorems (sink-level cases):
    a case on which the implementation agrees with the repaired model satisfies the executable spec. *)
From Coq Require Import List ZArith NArith Bool Arith Lia.
From DH Require Import Lib.CheckLib Model.ErrorHandler Proofs.ErrorHandlerProofs Check.C17Check.
Import ListNotations.

Lemma zl_eqb_eq l1 l2 : zlist_eqb l1 l2 = true <-> l1 = l2.
Proof. apply list_eqb_eq. intros; apply Z.eqb_eq. Qed.

Lemma ev_eqb_eq a b : ev_eqb a b = true <-> a = b.
Proof.
  destruct a, b; cbn; try (split; congruence).
  - rewrite zl_eqb_eq. split; congruence.
  - rewrite Z.eqb_eq. split; congruence.
Qed.

Lemma evlist_eqb_eq l1 l2 : evlist_eqb l1 l2 = true <-> l1 = l2.
Proof. apply list_eqb_eq. apply ev_eqb_eq. Qed.

Lemma is_prefix_app p rest : is_prefix p (p ++ rest) = true.
Proof. induction p; cbn; [reflexivity|]. rewrite Z.eqb_refl. exact IHp. Qed.

Lemma find_none_forallb (f : Z -> bool) l : find f l = None -> forallb (fun x => negb (f x)) l = true.
Proof.
  induction l as [|x l IH]; cbn; [auto|]. destruct (f x); [discriminate|]. cbn. exact IH.
Qed.

Lemma just_good bad fc (new : list (event Z)) :
  Forall (ev_just (scripted bad fc)) new ->
  forallb (fun x => negb (zmem x bad)) (delivered new) = true.
Proof.
  induction 1 as [|e new He _ IH]; [reflexivity|].
  change (delivered (e :: new)) with (ev_deliv e ++ delivered new).
  rewrite forallb_app, IH, andb_true_r.
  destruct e as [b|x]; cbn; [|reflexivity].
  destruct He as [c Hc]. unfold scripted in Hc.
  destruct (zmem (Z.of_nat c) fc); [discriminate|]. apply find_none_forallb. exact Hc.
Qed.

Lemma just_bad bad (new : list (event Z)) :
  Forall (ev_just (scripted bad [])) new ->
  forallb (fun x => zmem x bad) (reported new) = true.
Proof.
  induction 1 as [|e new He _ IH]; [reflexivity|].
  change (reported (e :: new)) with (ev_rep e ++ reported new).
  rewrite forallb_app, IH, andb_true_r.
  destruct e as [b|x]; cbn; [reflexivity|].
  destruct He as [c Hc]. unfold scripted in Hc. cbn in Hc.
  destruct (zmem x bad); [reflexivity | exfalso; apply Hc; reflexivity].
Qed.

Theorem agree_fixed_spec_sink c :
  t_job c = false -> (0 <= t_preCount c)%Z ->
  limit_hit (Z.to_nat (t_maxItems c)) (Z.to_nat (t_preCount c)) = false ->
  agree VFixed c = true -> spec_ok c = true.
Proof.
  intros Hk Hpc Hpre. unfold agree, spec_ok, agree_sink, spec_sink, predict_sink. rewrite Hk.
  set (l := zseq 0 (Z.to_nat (t_n c))).
  set (k := Z.to_nat (t_maxItems c)).
  pose proof (wsink_post (inner_of c) (success_clears VFixed) k (length l) l (sink_pre c) (le_n _)) as P.
  destruct (wsink (inner_of c) (success_clears VFixed) k (length l) l (sink_pre c)) as [r st].
  cbn [fst snd] in P.
  destruct P as (new & Hlog & Hcnt & _ & _ & Hj & _ & Hrep & _ & Hr).
  cbn [sink_pre ws_log ws_count] in Hlog, Hcnt, Hr. cbn [app] in Hlog.
  intros H. apply andb_true_iff in H. destruct H as [Ho H].
  repeat (apply andb_true_iff in H; destruct H as [H ?]).
  rename H into Hres0.
  match goal with Hs : evlist_eqb _ _ = true |- _ => apply evlist_eqb_eq in Hs; rewrite Hlog in Hs; rewrite <- Hs end.
  match goal with Hs : (Z.of_nat (ws_count st) =? o_count c)%Z = true |- _ => apply Z.eqb_eq in Hs; rename Hs into Hoc end.
  match goal with Hs : Bool.eqb _ (o_lastSet c) = true |- _ => apply Bool.eqb_prop in Hs; rename Hs into Hls end.
  apply Z.eqb_eq in Hres0. rename Hres0 into Hres.
  repeat (apply andb_true_iff; split).
  - assumption.
  - rewrite Hres. destruct r; cbn.
    + destruct Hr as [Hflat Hlim]. rewrite Hflat. apply andb_true_iff. split; [apply zl_eqb_eq; reflexivity|].
      rewrite <- Hcnt, (Hlim Hpre). reflexivity.
    + destruct Hr as (new0 & x & rest & Hnew & Hflat & Hhit & _).
      rewrite <- Hcnt, Hhit, andb_true_r. apply andb_true_iff. split.
      * rewrite <- Hflat. apply is_prefix_app.
      * unfold ends_with_rep. rewrite Hnew, rev_app_distr. reflexivity.
  - apply (just_good _ _ _ Hj).
  - unfold inner_of in Hj. destruct (t_failcalls c); [|reflexivity]. apply (just_bad _ _ Hj).
  - apply Z.eqb_eq. rewrite <- Hoc, Hcnt. lia.
  - destruct (reported new) eqn:Hrn; [reflexivity|]. rewrite <- Hls.
    destruct (ws_last st); [reflexivity|]. exfalso. apply Hrep; [discriminate | reflexivity].
Qed.
