(** The link between the correspondence evaluator and the theorems: on any driver
    history the repaired model predicts exactly what the specification machine S
    predicts, so a case on which the implementation agrees with the repaired model
    satisfies the executable spec. *)
From Coq Require Import List NArith Bool.
From DH Require Import Lib.CheckLib Model.FullSync Proofs.FullSyncProofs Check.C09Check.
Import ListNotations.
Open Scope N_scope.

Lemma started_is_some s g : R s g -> started s = is_some (g_active g).
Proof.
  intros (_ & _ & Hr & _). destruct (g_active g) as [[x|n]|]; cbn in *; apply Hr.
Qed.

(** what one request does to the (at most one) live timer of the repaired model *)
Lemma timers_step e s g : R s g ->
  timers (snd (step Fixed e s)) = []
  \/ (refreshes (g_active g) e = true /\ exists x, timers (snd (step Fixed e s)) = [(x, false)])
  \/ (refreshes (g_active g) e = false /\ timers (snd (step Fixed e s)) = timers s).
Proof.
  intros HR. destruct s as [sd st si le ti se ow], g as [a w d]. destruct HR as (Hd & Hs & Hr & Hw). cbn in *.
  destruct a as [[x|n]|]; cbn in Hr;
    [destruct Hr as (-> & -> & -> & (b & ->) & ->) | destruct Hr as (-> & -> & -> & -> & ->) ..];
    destruct e as [start id end_ ents|m|m ents|m|tents|]; unf; unfold refreshes; cbn;
    try (destruct start; cbn); rewrite ?N.eqb_refl; cbn;
    try (destruct (N.eqb id x) eqn:Hid; cbn); try (destruct (N.eqb id 0) eqn:Hid0; cbn);
    try (destruct end_; cbn); try (destruct (N.eqb n m); cbn);
    first [ left; reflexivity
          | right; left; split; [reflexivity | eexists; reflexivity]
          | right; right; split; reflexivity ].
Qed.

Definition flagrel (s : state) (f : bool) : Prop := forall x b, timers s = [(x, b)] -> b = negb f.
Definition R2 (s : state) (gf : dspec) : Prop := R s (fst gf) /\ flagrel s (snd gf).

Lemma R2_init : R2 init (sinit, true).
Proof. split; [apply R_init | intros x b H; discriminate]. Qed.

Lemma expire_all_sim s g : R s g ->
  R (expire_all s) (snd (sstep EExpire g)) /\ timers (expire_all s) = [].
Proof.
  intros HR. unfold expire_all.
  pose proof (sim_step EExpire s g HR) as [_ HR']. cbn [step sstep fst snd] in HR'.
  destruct HR as (Hd & Hs & Hr & Hw). cbn [sstep fst snd] in *.
  destruct (g_active g) as [[x|n]|] eqn:Ha; cbn in Hr.
  - destruct Hr as (Hst & Hsi & Hle & (b & Hti) & How). rewrite Hti. cbn [length Nat.iter is_ghttp] in *.
    split; [exact HR'|]. unfold Nat.iter; cbn [nat_rect]. unfold expire. rewrite Hti, Hsi, N.eqb_refl. reflexivity.
  - destruct Hr as (Hst & Hsi & Hle & Hti & How). rewrite Hti. cbn [length Nat.iter is_ghttp].
    split; [|assumption]. unfold R. rewrite Ha. cbn. auto 10.
  - destruct Hr as (Hst & Hsi & Hle & Hti & How). rewrite Hti. cbn [length Nat.iter is_ghttp].
    split; [|assumption]. unfold R. rewrite Ha. cbn. auto 10.
Qed.

Lemma sim_dstep e s gf : R2 s gf ->
  fst (dstep Fixed e s) = fst (dsstep e gf) /\ R2 (snd (dstep Fixed e s)) (snd (dsstep e gf)).
Proof.
  destruct gf as [g f]. intros [HR Hf]. cbn [fst snd] in HR, Hf.
  destruct e as [e| | | | |n pents|he|ce]; cbn [dstep dsstep].
  - (* a request *)
    destruct (sim_step e s g HR) as [H1 H2]. pose proof (timers_step e s g HR) as Ht.
    destruct (sstep e g) as [r g1]. cbn [fst snd] in *. split; [assumption|]. split; [assumption|].
    cbn [snd]. intros x b Hx. destruct Ht as [Ht|[[Hre (y & Ht)]|[Hre Ht]]].
    + rewrite Ht in Hx. discriminate.
    + rewrite Ht in Hx. injection Hx as _ <-. rewrite Hre, orb_true_r. reflexivity.
    + rewrite Hre, orb_false_r. apply (Hf x). rewrite <- Ht. assumption.
  - (* every outstanding timer fires *)
    destruct (expire_all_sim s g HR) as [H1 H2]. destruct (sstep EExpire g) as [r g1] eqn:He.
    assert (r = RNone) by (cbn in He; now injection He as <- _). subst r.
    cbn [fst snd] in *. split; [reflexivity|]. split; [assumption|].
    intros x b Hx. rewrite H2 in Hx. discriminate.
  - split; [reflexivity|]. split; assumption.
  - (* time passes, less than a lease *)
    cbn [fst snd]. split; [reflexivity|]. split.
    + destruct HR as (Hd & Hs & Hr & Hw). unfold R. cbn. repeat split; try assumption.
      destruct (g_active g) as [[x|n]|]; cbn in *.
      * destruct Hr as (? & ? & ? & (b & Hti) & ?). rewrite Hti. cbn. eauto 10.
      * destruct Hr as (? & ? & ? & Hti & ?). rewrite Hti. cbn. auto 10.
      * destruct Hr as (? & ? & ? & Hti & ?). rewrite Hti. cbn. auto 10.
    + intros x b Hx. cbn in Hx. destruct (timers s) as [|[y c] [|? ?]]; cbn in Hx; try discriminate.
      now injection Hx as _ <-.
  - (* the old timers fire, the younger ones do not *)
    unfold expire_old, old_count.
    destruct HR as (Hd & Hs & Hr & Hw).
    destruct (g_active g) as [[x|n]|] eqn:Ha; cbn in Hr.
    + destruct Hr as (Hst & Hsi & Hle & (b & Hti) & How).
      pose proof (Hf x b Hti) as Hb. rewrite Hti. cbn [filter snd length].
      destruct f; cbn in Hb; subst b; cbn [length fst snd]; unfold Nat.iter; cbn [nat_rect].
      * split; [reflexivity|]. split; [|assumption]. cbn [fst]. unfold R. rewrite Ha. cbn. eauto 10.
      * assert (HR : R s g) by (unfold R; rewrite Ha; cbn; eauto 10).
        destruct (sim_step EExpire s g HR) as [_ H2]. cbn [step fst snd] in H2.
        destruct (sstep EExpire g) as [r g1] eqn:He.
        assert (r = RNone) by (cbn in He; now injection He as <- _). subst r.
        cbn [fst snd] in *. split; [reflexivity|]. split; [assumption|].
        intros y c Hy. unfold expire in Hy. rewrite Hti, Hsi, N.eqb_refl in Hy. discriminate.
    + destruct Hr as (Hst & Hsi & Hle & Hti & How). rewrite Hti. cbn [filter length]; unfold Nat.iter; cbn [nat_rect].
      assert (HR : R s g) by (unfold R; rewrite Ha; cbn; auto 10).
      destruct f; cbn [fst snd]; [split; [reflexivity|]; split; assumption|].
      cbn [sstep]. rewrite Ha. cbn [is_ghttp fst snd]. split; [reflexivity|]. split; assumption.
    + destruct Hr as (Hst & Hsi & Hle & Hti & How). rewrite Hti. cbn [filter length]; unfold Nat.iter; cbn [nat_rect].
      assert (HR : R s g) by (unfold R; rewrite Ha; cbn; auto 10).
      destruct f; cbn [fst snd]; [split; [reflexivity|]; split; assumption|].
      cbn [sstep]. rewrite Ha. cbn [is_ghttp fst snd]. split; [reflexivity|]. split; assumption.
  - (* a job page whose run stops at a refused entity: the entities in front of it are a job batch *)
    destruct (sim_step (EJobBatch n pents) s g HR) as [_ H2].
    pose proof (timers_step (EJobBatch n pents) s g HR) as Ht.
    cbn [fst snd]. split; [reflexivity|]. split; [assumption|].
    intros x b Hx. destruct Ht as [Ht|[[Hre _]|[_ Ht]]].
    + rewrite Ht in Hx. discriminate.
    + discriminate.
    + apply (Hf x). rewrite <- Ht. assumption.
  - (* a request sent by a job's HTTP sink *)
    destruct (sim_step he s g HR) as [H1 H2]. pose proof (timers_step he s g HR) as Ht.
    destruct (step Fixed he s) as [r0 s1]. destruct (sstep he g) as [r g1]. cbn [fst snd] in *. subst r0.
    split; [reflexivity|]. split; [assumption|].
    cbn [snd]. intros x b Hx. destruct Ht as [Ht|[[Hre (y & Ht)]|[Hre Ht]]].
    + rewrite Ht in Hx. discriminate.
    + rewrite Ht in Hx. injection Hx as _ <-. rewrite Hre, orb_true_r. reflexivity.
    + rewrite Hre, orb_false_r. apply (Hf x). rewrite <- Ht. assumption.
  - (* an end request / end call with an already cancelled context *)
    destruct ce as [start id end_ ents|n|n ents|n|tents|].
    + (* HTTP *)
      cbn [cancelled_end scancelled_end].
      set (e' := EHttp start id false ents).
      destruct (sim_step e' s g HR) as [H1 H2]. pose proof (timers_step e' s g HR) as Ht.
      change (http Fixed start id false ents s) with (step Fixed e' s).
      change (refreshes (g_active g) (EHttp start id end_ ents)) with (refreshes (g_active g) e').
      destruct (step Fixed e' s) as [r0 s2]. destruct (sstep e' g) as [r g2]. cbn [fst snd] in *. subst r0.
      assert (Hgen : fst (if lease s2 then (RFail, abandon (release s2)) else (RGone, s2))
                     = fst (if is_ghttp (g_active g2) then (RFail, mkSpec None [] (g_data g2)) else (RGone, g2))
                     /\ R (snd (if lease s2 then (RFail, abandon (release s2)) else (RGone, s2)))
                          (snd (if is_ghttp (g_active g2) then (RFail, mkSpec None [] (g_data g2)) else (RGone, g2)))
                     /\ (lease s2 = true -> timers (abandon (release s2)) = [])).
      { destruct H2 as (Hd & Hs & Hr & Hw).
        destruct (g_active g2) as [[x|m]|] eqn:Ha; cbn in Hr.
        - destruct Hr as (Hst & Hsi & Hle & (b & Hti) & How). rewrite Hle. cbn [is_ghttp fst snd].
          assert (Hnil : timers (abandon (release s2)) = [])
            by (unfold abandon, release, cancelled_timers; cbn; rewrite Hle, Hti; reflexivity).
          split; [reflexivity|]. split; [|intros _; exact Hnil].
          unfold R. cbn [g_active g_data g_written sync_rel]. rewrite Hnil. cbn. auto 10.
        - destruct Hr as (Hst & Hsi & Hle & Hti & How). rewrite Hle. cbn [is_ghttp fst snd].
          split; [reflexivity|]. split; [|discriminate]. unfold R. rewrite Ha. cbn. auto 10.
        - destruct Hr as (Hst & Hsi & Hle & Hti & How). rewrite Hle. cbn [is_ghttp fst snd].
          split; [reflexivity|]. split; [|discriminate]. unfold R. rewrite Ha. cbn. auto 10. }
      destruct Hgen as (G1 & G2 & G3).
      assert (Hfl : flagrel (snd (if lease s2 then (RFail, abandon (release s2)) else (RGone, s2)))
                            (f || refreshes (g_active g) e')).
      { intros x b Hx. destruct (lease s2) eqn:Hle; cbn [snd] in Hx.
        - rewrite (G3 eq_refl) in Hx. discriminate.
        - destruct Ht as [Ht|[[Hre (y & Ht)]|[Hre Ht]]].
          + rewrite Ht in Hx. discriminate.
          + rewrite Ht in Hx. injection Hx as _ <-. rewrite Hre, orb_true_r. reflexivity.
          + rewrite Hre, orb_false_r. apply (Hf x). rewrite <- Ht. assumption. }
      destruct (lease s2) eqn:Hl2, (is_ghttp (g_active g2)) eqn:Hg2; cbn [fst snd] in G1, G2, Hfl; try discriminate G1;
        destruct r; cbn [fst snd]; try (split; [reflexivity|]; split; assumption).
    + (* other events: as a plain request *)
      cbn [cancelled_end scancelled_end].
      destruct (sim_step (EJobStart n) s g HR) as [H1 H2]. pose proof (timers_step (EJobStart n) s g HR) as Ht.
      destruct (step Fixed (EJobStart n) s) as [r0 s1]. destruct (sstep (EJobStart n) g) as [r g1].
      cbn [fst snd] in *. subst r0. split; [reflexivity|]. split; [assumption|].
      assert (Hfl : flagrel s1 (f || false)).
      { intros x b Hx. destruct Ht as [Ht|[[Hre _]|[_ Ht]]]; [rewrite Ht in Hx; discriminate|discriminate|].
        rewrite orb_false_r. apply (Hf x). rewrite <- Ht. assumption. }
      rewrite orb_false_r in Hfl. destruct r; cbn [snd refreshes]; rewrite ?orb_false_r; exact Hfl.
    + cbn [cancelled_end scancelled_end].
      destruct (sim_step (EJobBatch n ents) s g HR) as [H1 H2]. pose proof (timers_step (EJobBatch n ents) s g HR) as Ht.
      destruct (step Fixed (EJobBatch n ents) s) as [r0 s1]. destruct (sstep (EJobBatch n ents) g) as [r g1].
      cbn [fst snd] in *. subst r0. split; [reflexivity|]. split; [assumption|].
      assert (Hfl : flagrel s1 (f || false)).
      { intros x b Hx. destruct Ht as [Ht|[[Hre _]|[_ Ht]]]; [rewrite Ht in Hx; discriminate|discriminate|].
        rewrite orb_false_r. apply (Hf x). rewrite <- Ht. assumption. }
      rewrite orb_false_r in Hfl. destruct r; cbn [snd refreshes]; rewrite ?orb_false_r; exact Hfl.
    + (* the job's end call *)
      cbn [cancelled_end scancelled_end refreshes]. rewrite orb_false_r.
      destruct HR as (Hd & Hs & Hr & Hw).
      destruct (g_active g) as [[x|m]|] eqn:Ha; cbn in Hr.
      * destruct Hr as (Hst & Hsi & Hle & (b & Hti) & How). rewrite Hst, How. cbn.
        split; [reflexivity|]. split; [|assumption]. cbn [fst]. unfold R. rewrite Ha. cbn. eauto 10.
      * destruct Hr as (Hst & Hsi & Hle & Hti & How). rewrite Hst, How. cbn.
        destruct (N.eqb m n); cbn [fst snd].
        -- split; [reflexivity|]. split.
           ++ unfold R, abandon. cbn. rewrite Hti. auto 10.
           ++ intros y c Hy. unfold abandon in Hy. cbn in Hy. rewrite Hti in Hy. discriminate.
        -- split; [reflexivity|]. split; [|assumption]. cbn [fst]. unfold R. rewrite Ha. cbn. auto 10.
      * destruct Hr as (Hst & Hsi & Hle & Hti & How). rewrite Hst. cbn.
        split; [reflexivity|]. split; [|assumption]. cbn [fst]. unfold R. rewrite Ha. cbn. auto 10.
    + cbn [cancelled_end scancelled_end].
      destruct (sim_step (ETxn tents) s g HR) as [H1 H2]. pose proof (timers_step (ETxn tents) s g HR) as Ht.
      destruct (step Fixed (ETxn tents) s) as [r0 s1]. destruct (sstep (ETxn tents) g) as [r g1].
      cbn [fst snd] in *. subst r0. split; [reflexivity|]. split; [assumption|].
      assert (Hfl : flagrel s1 (f || false)).
      { intros x b Hx. destruct Ht as [Ht|[[Hre _]|[_ Ht]]]; [rewrite Ht in Hx; discriminate|discriminate|].
        rewrite orb_false_r. apply (Hf x). rewrite <- Ht. assumption. }
      rewrite orb_false_r in Hfl. destruct r; cbn [snd refreshes]; rewrite ?orb_false_r; exact Hfl.
    + cbn [cancelled_end scancelled_end].
      destruct (sim_step EExpire s g HR) as [H1 H2]. pose proof (timers_step EExpire s g HR) as Ht.
      destruct (step Fixed EExpire s) as [r0 s1]. destruct (sstep EExpire g) as [r g1].
      cbn [fst snd] in *. subst r0. split; [reflexivity|]. split; [assumption|].
      assert (Hfl : flagrel s1 (f || false)).
      { intros x b Hx. destruct Ht as [Ht|[[Hre _]|[_ Ht]]]; [rewrite Ht in Hx; discriminate|discriminate|].
        rewrite orb_false_r. apply (Hf x). rewrite <- Ht. assumption. }
      rewrite orb_false_r in Hfl. destruct r; cbn [snd refreshes]; rewrite ?orb_false_r; exact Hfl.
Qed.

Lemma predict_spredict h : forall s gf, R2 s gf -> predict_from Fixed h s = spredict_from h gf.
Proof.
  induction h as [|e h IH]; intros s gf HR; cbn [predict_from spredict_from]; [reflexivity|].
  destruct (sim_dstep e s gf HR) as [Hr HR'].
  destruct (dstep Fixed e s) as [r s1], (dsstep e gf) as [r' gf1]. cbn [fst snd] in Hr, HR'. subst r'.
  rewrite (IH s1 gf1 HR'). destruct HR' as [HR' _]. rewrite (started_is_some s1 _ HR').
  destruct HR' as (Hd & _). rewrite Hd. reflexivity.
Qed.

Theorem agree_fixed_spec c : agree Fixed c = true -> spec_ok c = true.
Proof.
  unfold agree, spec_ok, predict, spredict. now rewrite (predict_spredict _ init (sinit, true) R2_init).
Qed.
