(** The link between the correspondence evaluator and the theorems: on any driver
    history the repaired model predicts exactly what the specification machine S
    predicts, so a case on which the implementation agrees with the repaired model
    satisfies the executable spec. *)
From Coq Require Import List NArith Bool.
From DH Require Import Lib.CheckLib Model.FullSync Proofs.FullSyncProofs Check.C09Check.
Import ListNotations.
Open Scope N_scope.

Lemma started_is_some s g : R s g -> started s = is_some (g_active g).
Proof.
  intros (_ & _ & Hr & _). destruct (g_active g) as [[x|n]|]; cbn in *; apply Hr.
Qed.

Lemma sim_dstep e s g : R s g ->
  fst (dstep Fixed e s) = fst (dsstep e g) /\ R (snd (dstep Fixed e s)) (snd (dsstep e g)).
Proof.
  intros HR. destruct e as [e| |]; [apply sim_step; assumption| |split; [reflexivity|exact HR]].
  cbn [dstep dsstep fst snd]. unfold expire_all.
  pose proof (sim_step EExpire s g HR) as [_ HR']. cbn [step sstep fst snd] in HR'.
  destruct HR as (Hd & Hs & Hr & Hw). cbn [sstep fst snd].
  destruct (g_active g) as [[x|n]|] eqn:Ha; cbn in Hr; destruct Hr as (Hst & Hsi & Hle & Hti & How);
    rewrite Hti; cbn [length Nat.iter is_ghttp].
  - split; [reflexivity|]. exact HR'.
  - split; [reflexivity|]. cbn [Nat.iter]. unfold R. rewrite Ha. cbn. auto 10.
  - split; [reflexivity|]. cbn [Nat.iter]. unfold R. rewrite Ha. cbn. auto 10.
Qed.

Lemma predict_spredict h : forall s g, R s g -> predict_from Fixed h s = spredict_from h g.
Proof.
  induction h as [|e h IH]; intros s g HR; cbn [predict_from spredict_from]; [reflexivity|].
  destruct (sim_dstep e s g HR) as [Hr HR'].
  destruct (dstep Fixed e s) as [r s1], (dsstep e g) as [r' g1]. cbn [fst snd] in Hr, HR'. subst r'.
  rewrite (IH s1 g1 HR'), (started_is_some s1 g1 HR').
  destruct HR' as (Hd & _). rewrite Hd. reflexivity.
Qed.

Theorem agree_fixed_spec c : agree Fixed c = true -> spec_ok c = true.
Proof.
  unfold agree, spec_ok, predict, spredict. now rewrite (predict_spredict _ init sinit R_init).
Qed.
