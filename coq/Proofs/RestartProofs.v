(** Proofs about Model/Restart.v (property C14):
    - [synced]: memory = load(disk) after every op of every alphabet, for the repaired flags;
    - a clean reopen of a synced hub is the hub itself up to the lease bounds of the id sequence ([norm]);
    - every op respects "equal up to lease bounds" ([hsim]), hence restart-then-continue = continue;
    - for all flags and all histories including kills: URI ids and dataset ids are never reused,
      the URI index and the deleted set only grow. *)
From Coq Require Import List ZArith Bool String Lia.
From DH Require Import Model.Store Model.Acl Model.SecStore Model.Restart Proofs.SecStoreProofs.
Import ListNotations.
Open Scope list_scope.
Open Scope Z_scope.

(** ** association lists *)
Section Assoc.
  Context {V : Type}.
  Implicit Types (l : list (Z * V)) (k n : Z) (v : V).

  Lemma assoc_set_same n v l : assoc n (set_assoc n v l) = Some v.
  Proof.
    induction l as [|[k' v'] l IH]; cbn.
    - now rewrite Z.eqb_refl.
    - destruct (Z.eqb n k') eqn:E; cbn.
      + now rewrite Z.eqb_refl.
      + destruct (n <? k'); cbn; [now rewrite Z.eqb_refl | now rewrite E].
  Qed.

  Lemma assoc_set_other k n v l : k <> n -> assoc k (set_assoc n v l) = assoc k l.
  Proof.
    intros Hk. induction l as [|[k' v'] l IH]; cbn.
    - destruct (Z.eqb k n) eqn:E; [apply Z.eqb_eq in E; contradiction | reflexivity].
    - destruct (Z.eqb n k') eqn:E; cbn.
      + apply Z.eqb_eq in E; subst k'.
        destruct (Z.eqb k n) eqn:E2; [apply Z.eqb_eq in E2; contradiction | reflexivity].
      + destruct (n <? k'); cbn.
        * destruct (Z.eqb k n) eqn:E2; [apply Z.eqb_eq in E2; contradiction | reflexivity].
        * destruct (Z.eqb k k'); [reflexivity | exact IH].
  Qed.

  Lemma assoc_adel_other k n l : k <> n -> assoc k (adel n l) = assoc k l.
  Proof.
    intros Hk. induction l as [|[k' v'] l IH]; cbn; [reflexivity|].
    destruct (Z.eqb n k') eqn:E; cbn.
    - apply Z.eqb_eq in E; subst k'.
      destruct (Z.eqb k n) eqn:E2; [apply Z.eqb_eq in E2; contradiction | reflexivity].
    - destruct (Z.eqb k k'); [reflexivity | exact IH].
  Qed.

  Lemma amem_set_other k n v l : k <> n -> amem k (set_assoc n v l) = amem k l.
  Proof. intros H. unfold amem. now rewrite assoc_set_other. Qed.
  Lemma amem_adel_other k n l : k <> n -> amem k (adel n l) = amem k l.
  Proof. intros H. unfold amem. now rewrite assoc_adel_other. Qed.
  Lemma amem_set_same n v l : amem n (set_assoc n v l) = true.
  Proof. unfold amem. now rewrite assoc_set_same. Qed.

  Lemma in_set_assoc k v n w l : In (k, v) (set_assoc n w l) -> (k, v) = (n, w) \/ In (k, v) l.
  Proof.
    induction l as [|[k' v'] l IH]; cbn.
    - intros [H|[]]; auto.
    - destruct (Z.eqb n k'); cbn.
      + intros [H|H]; auto.
      + destruct (n <? k'); cbn.
        * intros [H|[H|H]]; auto.
        * intros [H|H]; auto. destruct (IH H); auto.
  Qed.

  Lemma in_adel k v n l : In (k, v) (adel n l) -> In (k, v) l.
  Proof.
    induction l as [|[k' v'] l IH]; cbn; [tauto|].
    destruct (Z.eqb n k'); cbn; [auto|]. intros [H|H]; auto.
  Qed.

  Lemma assoc_in k v l : assoc k l = Some v -> In (k, v) l.
  Proof.
    induction l as [|[k' v'] l IH]; cbn; [discriminate|].
    destruct (Z.eqb k k') eqn:E.
    - apply Z.eqb_eq in E. intros [= ->]. left. now subst.
    - intros H. right. auto.
  Qed.

  (** strictly increasing keys *)
  Fixpoint ssorted (l : list (Z * V)) : Prop :=
    match l with
    | [] => True
    | (k, _) :: l' => match l' with [] => True | (k', _) :: _ => k < k' end /\ ssorted l'
    end.

  Definition keys_above (b : Z) (l : list (Z * V)) : Prop := forall k v, In (k, v) l -> b < k.

  Lemma ssorted_above k v l : ssorted ((k, v) :: l) -> keys_above k l.
  Proof.
    revert k v. induction l as [|[k' v'] l IH]; intros k v H k0 v0 Hin; [destruct Hin|].
    destruct H as [Hlt Hs]. destruct Hin as [[= <- <-]|Hin]; [exact Hlt|].
    specialize (IH k' v' Hs k0 v0 Hin). lia.
  Qed.

  Lemma ssorted_cons k v l : keys_above k l -> ssorted l -> ssorted ((k, v) :: l).
  Proof.
    intros Ha Hs. cbn. split; [|exact Hs]. destruct l as [|[k' v'] l]; [exact I|].
    apply (Ha k' v'). now left.
  Qed.

  Lemma ssorted_tail k v l : ssorted ((k, v) :: l) -> ssorted l.
  Proof. intros [_ H]. exact H. Qed.

  Lemma ssorted_set n v l : ssorted l -> ssorted (set_assoc n v l).
  Proof.
    induction l as [|[k' v'] l IH]; intros Hs; cbn; [auto|].
    destruct (Z.eqb n k') eqn:E.
    - apply Z.eqb_eq in E; subst k'. apply ssorted_cons; [|eapply ssorted_tail; eauto].
      eapply ssorted_above; eauto.
    - destruct (n <? k') eqn:E2.
      + apply Z.ltb_lt in E2. apply ssorted_cons; [|exact Hs].
        intros k0 v0 [[= <- <-]|Hin]; [exact E2|].
        pose proof (ssorted_above _ _ _ Hs k0 v0 Hin). lia.
      + apply Z.ltb_ge in E2. apply Z.eqb_neq in E.
        apply ssorted_cons; [|apply IH; eapply ssorted_tail; eauto].
        intros k0 v0 Hin. destruct (in_set_assoc _ _ _ _ _ Hin) as [[= -> ->]|Hin']; [lia|].
        eapply ssorted_above; eauto.
  Qed.

  Lemma ssorted_adel n l : ssorted l -> ssorted (adel n l).
  Proof.
    induction l as [|[k' v'] l IH]; intros Hs; cbn; [auto|].
    destruct (Z.eqb n k'); [eapply ssorted_tail; eauto|].
    apply ssorted_cons; [|apply IH; eapply ssorted_tail; eauto].
    intros k0 v0 Hin. eapply ssorted_above; eauto. eapply in_adel; eauto.
  Qed.

  Lemma ssorted_nodup l : ssorted l -> NoDup (map fst l).
  Proof.
    induction l as [|[k v] l IH]; intros Hs; cbn; constructor.
    - intros Hin. apply in_map_iff in Hin. destruct Hin as [[k0 v0] [Hk Hin]]. cbn in Hk. subst k0.
      pose proof (ssorted_above _ _ _ Hs k v0 Hin). lia.
    - apply IH. eapply ssorted_tail; eauto.
  Qed.

  Lemma in_assoc_sorted k v l : ssorted l -> In (k, v) l -> assoc k l = Some v.
  Proof.
    induction l as [|[k' v'] l IH]; intros Hs Hin; [destruct Hin|]. cbn.
    destruct Hin as [[= -> ->]|Hin]; [now rewrite Z.eqb_refl|].
    destruct (Z.eqb k k') eqn:E.
    - apply Z.eqb_eq in E; subst k'. pose proof (ssorted_above _ _ _ Hs k v Hin). lia.
    - apply IH; [eapply ssorted_tail; eauto | exact Hin].
  Qed.

  (** inserting a key above all present keys appends *)
  Lemma set_assoc_append n v l : (forall k w, In (k, w) l -> k < n) -> set_assoc n v l = l ++ [(n, v)].
  Proof.
    induction l as [|[k' v'] l IH]; intros H; cbn; [reflexivity|].
    assert (k' < n) by (apply (H k' v'); now left).
    destruct (Z.eqb n k') eqn:E; [apply Z.eqb_eq in E; lia|].
    destruct (n <? k') eqn:E2; [apply Z.ltb_lt in E2; lia|].
    f_equal. apply IH. intros k w Hin. apply (H k w). now right.
  Qed.
End Assoc.

Lemma map_set_assoc {A B} (f : A -> B) n v (l : list (Z * A)) :
  map (fun p => (fst p, f (snd p))) (set_assoc n v l) = set_assoc n (f v) (map (fun p => (fst p, f (snd p))) l).
Proof.
  induction l as [|[k' v'] l IH]; cbn; [reflexivity|].
  destruct (Z.eqb n k'); cbn; [reflexivity|]. destruct (n <? k'); cbn; [reflexivity|]. now rewrite IH.
Qed.

Lemma map_adel {A B} (f : A -> B) n (l : list (Z * A)) :
  map (fun p => (fst p, f (snd p))) (adel n l) = adel n (map (fun p => (fst p, f (snd p))) l).
Proof.
  induction l as [|[k' v'] l IH]; cbn; [reflexivity|].
  destruct (Z.eqb n k'); cbn; [reflexivity|]. now rewrite IH.
Qed.

Lemma map_pair_id {A} (l : list (Z * A)) : map (fun p => (fst p, snd p)) l = l.
Proof. induction l as [|[k v] l IH]; cbn; [reflexivity | now rewrite IH]. Qed.

(** ** the id sequence *)
Definition seq_inv (q : seqst) : Prop := q_next q <= q_leased q /\ q_disk q = q_leased q.

Lemma seq_open_inv d : seq_inv (seq_open d).
Proof. unfold seq_inv, seq_open, seq_bw. cbn. lia. Qed.

Lemma seq_next_inv q : seq_inv q -> seq_inv (snd (seq_next q)).
Proof.
  unfold seq_inv, seq_next, seq_bw. intros [H1 H2].
  destruct (q_leased q <=? q_next q) eqn:E; cbn; [lia|]. apply Z.leb_gt in E. lia.
Qed.

Lemma seq_next_val q : seq_inv q -> fst (seq_next q) = q_next q /\ q_next (snd (seq_next q)) = q_next q + 1.
Proof.
  unfold seq_inv, seq_next. intros [H1 H2].
  destruct (q_leased q <=? q_next q) eqn:E; cbn; [|auto]. apply Z.leb_le in E. split; lia.
Qed.

Lemma seq_stop_clean q : seq_inv q -> seq_stop false q = q_next q.
Proof. unfold seq_inv, seq_stop. intros [_ ->]. now rewrite Z.eqb_refl. Qed.

Lemma seq_stop_ge crash q : seq_inv q -> q_next q <= seq_stop crash q.
Proof.
  unfold seq_inv, seq_stop. intros [H1 H2]. destruct crash; [lia|].
  destruct (Z.eqb (q_disk q) (q_leased q)); lia.
Qed.

Arguments amem {V} k l : simpl never.
Arguments zmem k l : simpl never.
Arguments seq_stop crash q : simpl never.
Arguments seq_open d : simpl never.
Arguments seq_next q : simpl never.
Arguments dm_store fl id es s : simpl never.

(** ** memory = load(disk) *)
Definition with_seq (s : dmstate) (q : seqst) : dmstate :=
  {| m_reg := m_reg s; m_del := m_del s; m_next := m_next s; m_ns := m_ns s; m_fs := m_fs s; m_seq := q;
     d_reg := d_reg s; d_del := d_del s; d_next := d_next s; d_ns := d_ns s; d_fs := d_fs s;
     d_ids := d_ids s; d_data := d_data s |}.
(** the state with the lease a clean Close + Open would leave *)
Definition norm_dm (s : dmstate) : dmstate := with_seq s (seq_open (q_next (m_seq s))).
Definition norm (h : hub) : hub := with_dm h (norm_dm (h_dm h)).

Definition dm_synced0 (fm : fs_mode) (s : dmstate) : Prop :=
  m_reg s = d_reg s /\ m_del s = load_opt (d_del s)
  /\ m_next s = match d_next s with Some n => n | None => 1 end
  /\ m_ns s = load_opt (d_ns s) /\ (fm = FsPersisted -> m_fs s = d_fs s) /\ seq_inv (m_seq s).
Definition dm_synced (fm : fs_mode) (s : dmstate) : Prop :=
  dm_synced0 fm s /\ amem core_name (m_reg s) = true.

Ltac dsync := unfold dm_synced0 in *; cbn in *; intuition (auto; try congruence).

Lemma assert_ns_sync fm e s : dm_synced0 fm s -> dm_synced0 fm (assert_ns e s).
Proof. unfold assert_ns. destruct (zmem e (m_ns s)); [auto|]. dsync. Qed.
Lemma assert_ns_reg e s : m_reg (assert_ns e s) = m_reg s.
Proof. unfold assert_ns. destruct (zmem e (m_ns s)); reflexivity. Qed.

Lemma assert_uri_sync fm u s : dm_synced0 fm s -> dm_synced0 fm (assert_uri u s).
Proof.
  unfold assert_uri. destruct (assoc u (d_ids s)); [auto|].
  destruct (seq_next (m_seq s)) as [n q] eqn:E. intros H.
  assert (seq_inv q). { replace q with (snd (seq_next (m_seq s))) by now rewrite E. apply seq_next_inv. dsync. }
  dsync.
Qed.
Lemma assert_uri_reg u s : m_reg (assert_uri u s) = m_reg s.
Proof. unfold assert_uri. destruct (assoc u (d_ids s)); [reflexivity|]. now destruct (seq_next (m_seq s)). Qed.

Lemma fold_sync {A} fm (f : A -> dmstate -> dmstate) :
  (forall x s, dm_synced0 fm s -> dm_synced0 fm (f x s)) ->
  forall l s, dm_synced0 fm s -> dm_synced0 fm (fold_left (fun s x => f x s) l s).
Proof. intros Hf. induction l as [|x l IH]; intros s H; cbn; [exact H | apply IH, Hf, H]. Qed.
Lemma fold_reg {A} (f : A -> dmstate -> dmstate) :
  (forall x s, m_reg (f x s) = m_reg s) ->
  forall l s, m_reg (fold_left (fun s x => f x s) l s) = m_reg s.
Proof. intros Hf. induction l as [|x l IH]; intros s; cbn; [reflexivity | now rewrite IH, Hf]. Qed.

Lemma set_fs_sync fm fs s : dm_synced0 fm s -> dm_synced0 fm (set_fs fm fs s).
Proof. destruct fm; dsync. Qed.
Lemma set_data_sync fm st s : dm_synced0 fm s -> dm_synced0 fm (set_data st s).
Proof. dsync. Qed.

Lemma dm_store_sync fl id es s : dm_synced0 (f_fs fl) s -> dm_synced0 (f_fs fl) (dm_store fl id es s).
Proof.
  intros H. unfold dm_store. destruct es; [exact H|]. apply set_data_sync.
  apply (fold_sync _ (fun u s => assert_uri u s)); [intros; now apply assert_uri_sync|].
  destruct (assoc id (m_fs s)); [now apply set_fs_sync | exact H].
Qed.
Lemma dm_store_reg fl id es s : m_reg (dm_store fl id es s) = m_reg s.
Proof.
  unfold dm_store. destruct es; [reflexivity|]. cbn [set_data m_reg].
  rewrite (fold_reg (fun u s => assert_uri u s)) by apply assert_uri_reg.
  now destruct (assoc id (m_fs s)).
Qed.

Lemma dm_create_sync0 fm n pub s : dm_synced0 fm s -> dm_synced0 fm (dm_create n pub s).
Proof.
  intros H. unfold dm_create. destruct (assoc n (m_reg s)); [exact H|].
  apply fold_sync; [intros; now apply assert_uri_sync|].
  apply fold_sync; [intros; now apply assert_ns_sync|]. dsync.
Qed.
Lemma dm_create_mem n pub s : amem n (m_reg (dm_create n pub s)) = true.
Proof.
  unfold dm_create. destruct (assoc n (m_reg s)) eqn:E; [unfold amem; now rewrite E|].
  rewrite (fold_reg (fun u s => assert_uri u s)) by apply assert_uri_reg.
  rewrite (fold_reg (fun e s => assert_ns e s)) by apply assert_ns_reg.
  cbn. apply amem_set_same.
Qed.
Lemma dm_create_keeps k n pub s : amem k (m_reg s) = true -> amem k (m_reg (dm_create n pub s)) = true.
Proof.
  intros Hk. unfold dm_create. destruct (assoc n (m_reg s)) eqn:E; [exact Hk|].
  rewrite (fold_reg (fun u s => assert_uri u s)) by apply assert_uri_reg.
  rewrite (fold_reg (fun e s => assert_ns e s)) by apply assert_ns_reg.
  cbn. destruct (Z.eq_dec k n) as [->|Hne]; [apply amem_set_same | now rewrite amem_set_other].
Qed.

Lemma dm_create_sync fm n pub s : dm_synced fm s -> dm_synced fm (dm_create n pub s).
Proof. intros [H0 Hc]. split; [now apply dm_create_sync0 | now apply dm_create_keeps]. Qed.

Lemma dm_delete_sync fm n s : dm_synced fm s -> dm_synced fm (fst (dm_delete n s)).
Proof.
  intros [H0 Hc]. unfold dm_delete. destruct (Z.eqb n core_name) eqn:E; [now split|].
  apply Z.eqb_neq in E. destruct (assoc n (m_reg s)); [|now split]. unfold dm_synced. cbn. split; [dsync|].
  rewrite amem_adel_other by congruence. exact Hc.
Qed.

Lemma dm_rename_sync fm n m s : dm_synced fm s -> dm_synced fm (fst (dm_rename n m s)).
Proof.
  intros [H0 Hc]. unfold dm_rename. destruct (Z.eqb n core_name) eqn:E; [now split|].
  apply Z.eqb_neq in E. destruct (assoc n (m_reg s)); [|now split].
  destruct (Z.eqb n m); [now split|]. destruct (assoc m (m_reg s)) eqn:Em; [now split|]. unfold dm_synced. cbn.
  split.
  - apply assert_uri_sync. dsync.
  - rewrite assert_uri_reg. cbn.
    assert (core_name <> m). { intros <-. unfold amem in Hc. now rewrite Em in Hc. }
    rewrite amem_set_other by exact H. rewrite amem_adel_other by congruence. exact Hc.
Qed.

Lemma dm_pubns_sync fm n pub s : dm_synced fm s -> dm_synced fm (fst (dm_pubns n pub s)).
Proof.
  intros [H0 Hc]. unfold dm_pubns. destruct (assoc n (m_reg s)); [|now split]. unfold dm_synced. cbn. split; [dsync|].
  destruct (Z.eq_dec core_name n) as [<-|Hne]; [apply amem_set_same | now rewrite amem_set_other].
Qed.

Lemma dm_post_sync fl n start fsid fin es s :
  dm_synced (f_fs fl) s -> dm_synced (f_fs fl) (fst (dm_post fl n start fsid fin es s)).
Proof.
  intros [H0 Hc]. unfold dm_post. destruct (assoc n (m_reg s)) as [r|]; [|now split].
  destruct (negb (Z.eqb (r_kind r) 0)); [now split|].
  set (chk := if start then _ else _).
  assert (Hchk : forall s1, chk = Some s1 -> dm_synced (f_fs fl) s1).
  { subst chk. intros s1. destruct start.
    - intros [= <-]. split; [now apply set_fs_sync | exact Hc].
    - destruct (assoc (r_id r) (m_fs s)) as [f|]; [destruct (Z.eqb (fs_id f) fsid)|]; intros [= <-]; now split. }
  destruct chk as [s1|]; [|now split]. destruct (Hchk s1 eq_refl) as [H1 Hc1].
  set (s2 := fold_left _ (flat_map went_exps es) s1).
  set (s4 := dm_store fl (r_id r) (map ent_of es) s2).
  assert (H4 : dm_synced (f_fs fl) s4).
  { split.
    - apply dm_store_sync.
      apply (fold_sync _ (fun e s => assert_ns e s)); [intros; now apply assert_ns_sync | exact H1].
    - subst s4 s2. rewrite dm_store_reg.
      rewrite (fold_reg (fun e s => assert_ns e s)) by apply assert_ns_reg. exact Hc1. }
  destruct fin; [|exact H4]. destruct (assoc (r_id r) (m_fs s4)); [|exact H4]. unfold dm_synced. cbn.
  destruct H4 as [H40 Hc4]. split.
  - apply set_fs_sync. now apply dm_store_sync.
  - cbn. rewrite dm_store_reg. exact Hc4.
Qed.

Lemma dm_pubns_fold_sync fm l : forall s, dm_synced fm s ->
  dm_synced fm (fold_left (fun s (p : Z * list Z) => fst (dm_pubns (fst p) (snd p) s)) l s).
Proof. induction l as [|p l IH]; intros s H; cbn; [exact H | now apply IH, dm_pubns_sync]. Qed.

Lemma dm_step_sync fl o s : dm_synced (f_fs fl) s -> dm_synced (f_fs fl) (fst (dm_step fl o s)).
Proof.
  intros H. destruct o; cbn [dm_step fst].
  - now apply dm_create_sync.
  - now apply dm_delete_sync.
  - now apply dm_rename_sync.
  - now apply dm_pubns_sync.
  - destruct (forallb _ l); [now apply dm_pubns_fold_sync | exact H].
  - now apply dm_post_sync.
Qed.

(** whatever the state was, a reopened store is synced *)
Lemma dm_reopen_sync fl crash s : dm_synced (f_fs fl) (dm_reopen fl crash s).
Proof.
  unfold dm_reopen. split; [|apply dm_create_mem]. apply dm_create_sync0.
  unfold dm_synced0; cbn. do 4 (split; [reflexivity|]). split.
  - intros ->. reflexivity.
  - apply seq_open_inv.
Qed.

Lemma dm_init_sync fm : dm_synced fm dm_init.
Proof.
  unfold dm_init. split; [|apply dm_create_mem]. apply dm_create_sync0.
  unfold dm_synced0; cbn. do 4 (split; [reflexivity|]). split; [reflexivity | apply seq_open_inv].
Qed.

(** a clean reopen of a synced store changes nothing but the lease bounds *)
Lemma dm_reopen_norm fl s : f_fs fl = FsPersisted -> dm_synced (f_fs fl) s -> dm_reopen fl false s = norm_dm s.
Proof.
  intros Hfs [(Hreg & Hdel & Hnext & Hns & Hfsm & Hseq) Hc].
  destruct s as [mreg mdel mnext mns mfs mseq dreg ddel dnext dns dfs dids ddata]; cbn in *.
  specialize (Hfsm Hfs). subst mreg mdel mnext mns mfs.
  unfold dm_reopen, dm_create; cbn. unfold amem in Hc. destruct (assoc core_name dreg); [|discriminate].
  unfold norm_dm, with_seq; cbn. rewrite Hfs. now rewrite seq_stop_clean.
Qed.

(** ** jobs *)
Definition sched_of (l : list (Z * jobcfg)) : list (Z * bool) :=
  map (fun p => (fst p, negb (j_paused (snd p)))) l.
Definition job_synced (s : jobstate) : Prop := m_sched s = sched_of (d_jcfg s).

Lemma job_add_sync dm j c s : job_synced s -> job_synced (job_add dm j c s).
Proof.
  unfold job_synced, job_add, sched_of. cbn. intros ->.
  now rewrite (map_set_assoc (fun c => negb (j_paused c))).
Qed.

Lemma job_reopen_sync dm s : job_synced (job_reopen dm s).
Proof. unfold job_synced, job_reopen, sched_of. cbn. rewrite map_map. reflexivity. Qed.

Lemma job_reopen_id s : job_synced s -> job_reopen DelayStable s = s.
Proof.
  unfold job_synced, job_reopen, sched_of. destruct s as [ms cfg tok hist]; cbn. intros ->.
  now rewrite map_pair_id.
Qed.

(** ** login providers *)
Lemma lower_idem n : lower (lower n) = lower n.
Proof.
  unfold lower. destruct ((0 <=? n) && (n <? 10)) eqn:E; [|now rewrite E].
  apply andb_true_iff in E. destruct E as [E1 E2]. apply Z.leb_le in E1. apply Z.ltb_lt in E2.
  destruct ((0 <=? n + 10) && (n + 10 <? 10)) eqn:E3; [|reflexivity].
  apply andb_true_iff in E3. destruct E3 as [_ E3]. apply Z.ltb_lt in E3. lia.
Qed.

Definition prov_synced (s : provstate) : Prop :=
  m_tp s = d_prov s /\ ssorted (d_prov s) /\ (forall k v, In (k, v) (d_prov s) -> lower k = k).

Lemma prov_step_sync o s : prov_synced s -> prov_synced (fst (prov_step ProvLowerKey o s)).
Proof.
  intros (Hm & Hs & Hl). destruct o as [n u | n]; cbn.
  - repeat split; cbn.
    + now rewrite Hm.
    + now apply ssorted_set.
    + intros k v Hin. destruct (in_set_assoc _ _ _ _ _ Hin) as [[= -> ->]|Hin']; [apply lower_idem | eauto].
  - destruct (assoc (lower n) (m_tp s)); [|now repeat split]. repeat split; cbn.
    + now rewrite Hm.
    + now apply ssorted_adel.
    + intros k v Hin. eapply Hl, in_adel, Hin.
Qed.

Lemma rebuild_fold (l acc : list (Z * Z)) :
  ssorted l -> (forall k v, In (k, v) l -> lower k = k) ->
  (forall ka va kb vb, In (ka, va) acc -> In (kb, vb) l -> ka < kb) ->
  fold_left (fun m (p : Z * Z) => set_assoc (lower (fst p)) (snd p) m) l acc = acc ++ l.
Proof.
  revert acc. induction l as [|[k v] l IH]; intros acc Hs Hl Hlt; cbn; [now rewrite app_nil_r|].
  rewrite (Hl k v) by now left.
  rewrite set_assoc_append by (intros k0 w Hin; eapply Hlt; [exact Hin | now left]).
  rewrite IH.
  - now rewrite <- app_assoc.
  - eapply ssorted_tail; eauto.
  - intros k0 v0 Hin. apply (Hl k0 v0). now right.
  - intros ka va kb vb Ha Hb. apply in_app_or in Ha. destruct Ha as [Ha|[[= <- <-]|[]]].
    + eapply Hlt; [exact Ha | right; exact Hb].
    + eapply ssorted_above; eauto.
Qed.

Lemma prov_reopen_id s : prov_synced s -> prov_reopen s = s.
Proof.
  intros (Hm & Hs & Hl). unfold prov_reopen. destruct s as [tp pr]; cbn in *. subst tp.
  rewrite rebuild_fold; auto. intros ka va kb vb [].
Qed.

Lemma prov_reopen_sync s : prov_synced s -> prov_synced (prov_reopen s).
Proof. intros H. now rewrite prov_reopen_id. Qed.

Lemma prov_init_sync : prov_synced prov_init.
Proof. repeat split; cbn; auto. intros k v []. Qed.

(** ** the hub *)
Definition hub_synced (fl : rflags) (h : hub) : Prop :=
  dm_synced (f_fs fl) (h_dm h) /\ job_synced (h_job h) /\ synced (h_sec h) /\ prov_synced (h_prov h).

Lemma hub_init_sync fl : hub_synced fl hub_init.
Proof.
  split; [apply dm_init_sync|]. split; [reflexivity|]. split; [apply synced_init | apply prov_init_sync].
Qed.

Lemma mk_sync fl d j s p :
  dm_synced (f_fs fl) d -> job_synced j -> synced s -> prov_synced p ->
  hub_synced fl {| h_dm := d; h_job := j; h_sec := s; h_prov := p |}.
Proof. intros. split; [|split; [|split]]; assumption. Qed.

Lemma dm_store_sync' fl id es s : dm_synced (f_fs fl) s -> dm_synced (f_fs fl) (dm_store fl id es s).
Proof. intros [H0 Hc]. split; [now apply dm_store_sync | now rewrite dm_store_reg]. Qed.

Lemma job_run_sync fl j h : hub_synced fl h -> hub_synced fl (fst (job_run fl j h)).
Proof.
  intros H. pose proof H as (Hd & Hj & Hs & Hp). unfold job_run.
  destruct (assoc j (d_jcfg (h_job h))) as [c|]; [|exact H].
  destruct (usable (h_dm h) (j_src c)) as [rs|]; [|cbn; now apply mk_sync].
  destruct (changes _ _ _ _) as [out next]. destruct out as [|e out]; [cbn; now apply mk_sync|].
  destruct (usable (h_dm h) (j_sink c)) as [rk|]; [|cbn; now apply mk_sync].
  cbn. apply mk_sync; auto. now apply dm_store_sync'.
Qed.

Lemma job_step_sync fl o h : hub_synced fl h -> hub_synced fl (fst (job_step fl o h)).
Proof.
  intros H. pose proof H as (Hd & Hj & Hs & Hp). destruct o; cbn [job_step].
  - cbn. apply mk_sync; auto. now apply job_add_sync.
  - destruct (assoc j (d_jcfg (h_job h))); [|exact H]. cbn. apply mk_sync; auto. now apply job_add_sync.
  - cbn. apply mk_sync; auto. unfold job_synced, sched_of in *. cbn. rewrite Hj.
    now rewrite (map_adel (fun c => negb (j_paused c))).
  - now apply job_run_sync.
Qed.

Lemma reopen_sync fl crash h : sound fl -> hub_synced fl h -> hub_synced fl (reopen fl crash h).
Proof.
  intros (Ha & Hi & Hpv & Hf & Hdl) (Hd & Hj & Hs & Hp). unfold reopen. apply mk_sync.
  - apply dm_reopen_sync.
  - apply job_reopen_sync.
  - rewrite Hi. now rewrite restart_synced_id.
  - now rewrite prov_reopen_id.
Qed.

Lemma step_sync fl o h : sound fl -> hub_synced fl h -> hub_synced fl (fst (step fl h o)).
Proof.
  intros Hsd H. pose proof H as (Hd & Hj & Hs & Hp). destruct o as [o|o|o|o|crash]; cbn [step].
  - destruct (dm_step fl o (h_dm h)) as [d r] eqn:E. cbn. apply mk_sync; auto.
    replace d with (fst (dm_step fl o (h_dm h))) by (now rewrite E). now apply dm_step_sync.
  - now apply job_step_sync.
  - destruct Hsd as (Ha & Hi & _). cbn. apply mk_sync; auto. rewrite Ha, Hi. now apply step_synced.
  - destruct (prov_step (f_prov fl) o (h_prov h)) as [p r] eqn:E. cbn.
    destruct Hsd as (_ & _ & Hpv & _). rewrite Hpv in E. apply mk_sync; auto.
    replace p with (fst (prov_step ProvLowerKey o (h_prov h))) by (now rewrite E). now apply prov_step_sync.
  - cbn. now apply reopen_sync.
Qed.

(** event-triggered runs *)
Lemma drain_nil fl fuel h : drain fl fuel [] h = h.
Proof. destruct fuel; reflexivity. Qed.

Lemma drain_pres (P : hub -> Prop) fl :
  (forall j h, P h -> P (fst (job_run fl j h))) -> forall fuel batch h, P h -> P (drain fl fuel batch h).
Proof.
  intros Hj. induction fuel as [|fuel IH]; intros batch h H; [exact H|].
  destruct batch as [|b batch]; [exact H|]. cbn [drain]. apply IH.
  generalize (sortz (b :: batch)). intros l.
  assert (G : forall (a : hub * list Z), P (fst a) ->
              P (fst (fold_left (fun (a : hub * list Z) j => (fst (job_run fl j (fst a)), snd a ++ job_emits fl j (fst a))) l a))).
  { induction l as [|j l IHl]; intros a Ha; cbn [fold_left]; [exact Ha|]. apply IHl. cbn [fst]. now apply Hj. }
  now apply G.
Qed.

Lemma stepd_fst fl h o : stepd fl h o = (drain fl drain_rounds (op_emits fl h o (fst (step fl h o)) (snd (step fl h o))) (fst (step fl h o)), snd (step fl h o)).
Proof. reflexivity. Qed.

Lemma stepd_restart fl h c : stepd fl h (HRestart c) = (reopen fl c h, ROk).
Proof. rewrite stepd_fst. cbn [step fst snd op_emits]. now rewrite drain_nil. Qed.

Lemma stepd_sync fl o h : sound fl -> hub_synced fl h -> hub_synced fl (fst (stepd fl h o)).
Proof.
  intros Hsd H. rewrite stepd_fst. cbn [fst]. apply drain_pres; [intros; now apply job_run_sync|]. now apply step_sync.
Qed.

Lemma run_sync fl ops : sound fl -> forall h, hub_synced fl h -> hub_synced fl (fst (run fl ops h)).
Proof.
  intros Hsd. induction ops as [|o ops IH]; intros h H; cbn [run]; [exact H|].
  destruct (stepd fl h o) as [h1 r] eqn:E. specialize (IH h1).
  destruct (run fl ops h1) as [h2 rs]. cbn [fst] in *. apply IH.
  replace h1 with (fst (stepd fl h o)) by (now rewrite E). now apply stepd_sync.
Qed.

(** a clean reopen of a synced hub is the hub itself up to the lease bounds *)
Lemma reopen_norm fl h : sound fl -> hub_synced fl h -> reopen fl false h = norm h.
Proof.
  intros (Ha & Hi & Hpv & Hf & Hdl) (Hd & Hj & Hs & Hp). unfold reopen, norm, with_dm.
  rewrite dm_reopen_norm by (auto; now rewrite Hf in *).
  rewrite Hdl, job_reopen_id by exact Hj. rewrite Hi, restart_synced_id by exact Hs.
  now rewrite prov_reopen_id.
Qed.

(** nothing a caller can see depends on the lease bounds *)
Lemma obs_norm cl h : obs cl (norm h) = obs cl h.
Proof. reflexivity. Qed.

(** ** C14_reload: for every history (restarts and kills included) a further stop/start changes no answer *)
Theorem reload_invisible fl ops cl :
  sound fl -> let h := fst (run fl ops hub_init) in obs cl (reopen fl false h) = obs cl h.
Proof.
  intros Hsd h. rewrite reopen_norm; [apply obs_norm | exact Hsd|].
  apply run_sync; [exact Hsd | apply hub_init_sync].
Qed.

(** ** equal up to the lease bounds: every op gives the same answers and related states *)
Definition qeq (q q' : seqst) : Prop := q_next q = q_next q' /\ seq_inv q /\ seq_inv q'.
Definition dsim (s s' : dmstate) : Prop := exists q', s' = with_seq s q' /\ qeq (m_seq s) q'.

Lemma dsim_refl s : seq_inv (m_seq s) -> dsim s s.
Proof. intros H. exists (m_seq s). split; [now destruct s | split; [reflexivity | split; assumption]]. Qed.

Lemma dsim_lift (f : dmstate -> dmstate) :
  (forall s q, f (with_seq s q) = with_seq (f s) q) -> (forall s, m_seq (f s) = m_seq s) ->
  forall s s', dsim s s' -> dsim (f s) (f s').
Proof. intros H1 H2 s s' (q' & -> & Hq). exists q'. split; [apply H1 | now rewrite H2]. Qed.

Lemma assert_ns_sim e s s' : dsim s s' -> dsim (assert_ns e s) (assert_ns e s').
Proof.
  apply dsim_lift; intros; unfold assert_ns; cbn; destruct (zmem e (m_ns _)); reflexivity.
Qed.

Lemma qeq_next q q' : qeq q q' ->
  fst (seq_next q) = fst (seq_next q') /\ qeq (snd (seq_next q)) (snd (seq_next q')).
Proof.
  intros (Hn & Hi & Hi'). destruct (seq_next_val q Hi) as [V1 N1]. destruct (seq_next_val q' Hi') as [V2 N2].
  split; [congruence|]. repeat split; [congruence | now apply seq_next_inv..].
Qed.

Lemma assert_uri_sim u s s' : dsim s s' -> dsim (assert_uri u s) (assert_uri u s').
Proof.
  intros (q' & -> & Hq). unfold assert_uri. cbn. destruct (assoc u (d_ids s)).
  - exists q'. now split.
  - destruct (qeq_next _ _ Hq) as [Hv Hq1].
    destruct (seq_next (m_seq s)) as [n q1]. destruct (seq_next q') as [n' q1']. cbn in *. subst n'.
    exists q1'. split; [reflexivity | exact Hq1].
Qed.

Lemma fold_sim {A} (f : A -> dmstate -> dmstate) :
  (forall x s s', dsim s s' -> dsim (f x s) (f x s')) ->
  forall l s s', dsim s s' -> dsim (fold_left (fun s x => f x s) l s) (fold_left (fun s x => f x s) l s').
Proof. intros Hf. induction l as [|x l IH]; intros s s' H; cbn; [exact H | apply IH, Hf, H]. Qed.

Lemma set_fs_sim fm fs s s' : dsim s s' -> dsim (set_fs fm fs s) (set_fs fm fs s').
Proof. apply dsim_lift; intros; reflexivity. Qed.

Lemma set_data_sim st s s' : dsim s s' -> dsim (set_data st s) (set_data st s').
Proof. apply dsim_lift; intros; reflexivity. Qed.

Lemma dm_store_sim fl id es s s' : dsim s s' -> dsim (dm_store fl id es s) (dm_store fl id es s').
Proof.
  intros H. unfold dm_store. destruct es as [|e es]; [exact H|].
  assert (Hf : m_fs s' = m_fs s) by (destruct H as (q' & -> & _); reflexivity). rewrite Hf.
  set (s1 := match assoc id (m_fs s) with Some f => _ | None => s end).
  set (s1' := match assoc id (m_fs s) with Some f => _ | None => s' end).
  assert (H1 : dsim s1 s1') by (subst s1 s1'; destruct (assoc id (m_fs s)); [now apply set_fs_sim | exact H]).
  assert (E1 : d_data s1' = d_data s1 /\ d_ids s1' = d_ids s1) by (destruct H1 as (q' & -> & _); now split).
  destruct E1 as [-> ->].
  set (s2 := fold_left _ _ s1). set (s2' := fold_left _ _ s1').
  assert (H2 : dsim s2 s2') by (subst s2 s2'; apply (fold_sim (fun u s => assert_uri u s)); [intros; now apply assert_uri_sim | exact H1]).
  assert (E2 : d_data s2' = d_data s2) by (destruct H2 as (q' & -> & _); reflexivity). rewrite E2.
  now apply set_data_sim.
Qed.

Lemma dm_create_sim n pub s s' : dsim s s' -> dsim (dm_create n pub s) (dm_create n pub s').
Proof.
  intros H. unfold dm_create.
  assert (Hr : m_reg s' = m_reg s) by (destruct H as (q' & -> & _); reflexivity). rewrite Hr.
  destruct (assoc n (m_reg s)); [exact H|].
  apply (fold_sim (fun u s => assert_uri u s)); [intros; now apply assert_uri_sim|].
  apply (fold_sim (fun e s => assert_ns e s)); [intros; now apply assert_ns_sim|].
  destruct H as (q' & -> & Hq). exists q'. now split.
Qed.

Lemma dm_pubns_sim n pub s s' : dsim s s' ->
  snd (dm_pubns n pub s) = snd (dm_pubns n pub s') /\ dsim (fst (dm_pubns n pub s)) (fst (dm_pubns n pub s')).
Proof.
  intros (q' & -> & Hq). unfold dm_pubns. cbn. destruct (assoc n (m_reg s)); (split; [reflexivity | now exists q']).
Qed.
Lemma dm_pubns_fold_sim l : forall s s', dsim s s' ->
  dsim (fold_left (fun s (p : Z * list Z) => fst (dm_pubns (fst p) (snd p) s)) l s)
       (fold_left (fun s (p : Z * list Z) => fst (dm_pubns (fst p) (snd p) s)) l s').
Proof. induction l as [|p l IH]; intros s s' H; cbn; [exact H | apply IH, dm_pubns_sim, H]. Qed.

Lemma dm_step_sim fl o s s' : dsim s s' ->
  snd (dm_step fl o s) = snd (dm_step fl o s') /\ dsim (fst (dm_step fl o s)) (fst (dm_step fl o s')).
Proof.
  intros H. destruct o as [n pub|n|n m|n pub|l|n start fsid fin es]; cbn [dm_step].
  - split; [reflexivity | now apply dm_create_sim].
  - destruct H as (q' & -> & Hq). unfold dm_delete. cbn. destruct (Z.eqb n core_name); [split; [reflexivity | now exists q']|].
    destruct (assoc n (m_reg s)); (split; [reflexivity | now exists q']).
  - unfold dm_rename. assert (Hr : m_reg s' = m_reg s) by (destruct H as (q' & -> & _); reflexivity). rewrite Hr.
    destruct (Z.eqb n core_name); [now split|]. destruct (assoc n (m_reg s)); [|now split].
    destruct (Z.eqb n m); [now split|]. destruct (assoc m (m_reg s)); [now split|]. cbn.
    split; [reflexivity|]. apply assert_uri_sim. destruct H as (q' & -> & Hq). now exists q'.
  - now apply dm_pubns_sim.
  - assert (Hr : m_reg s' = m_reg s) by (destruct H as (q' & -> & _); reflexivity). rewrite Hr.
    destruct (forallb _ l); [split; [reflexivity | now apply dm_pubns_fold_sim] | now split].
  - unfold dm_post. assert (Hr : m_reg s' = m_reg s) by (destruct H as (q' & -> & _); reflexivity). rewrite Hr.
    destruct (assoc n (m_reg s)) as [r|]; [|now split].
    destruct (negb (Z.eqb (r_kind r) 0)); [now split|].
    assert (Hf : m_fs s' = m_fs s) by (destruct H as (q' & -> & _); reflexivity). rewrite Hf.
    set (chk := if start then _ else _). set (chk' := if start then _ else _).
    assert (Hchk : match chk, chk' with Some a, Some b => dsim a b | None, None => True | _, _ => False end).
    { subst chk chk'. destruct start; [now apply set_fs_sim|].
      destruct (assoc (r_id r) (m_fs s)) as [f|]; [destruct (Z.eqb (fs_id f) fsid)|]; auto. }
    destruct chk as [s1|], chk' as [s1'|]; try contradiction; [|now split].
    set (s4 := dm_store fl _ _ _). set (s4' := dm_store fl _ _ _).
    assert (H4 : dsim s4 s4').
    { subst s4 s4'. apply dm_store_sim.
      apply (fold_sim (fun e s => assert_ns e s)); [intros; now apply assert_ns_sim | exact Hchk]. }
    destruct fin; [|now split].
    destruct H4 as (q4 & E4 & Hq4). rewrite E4. cbn [m_fs with_seq].
    destruct (assoc (r_id r) (m_fs s4)) as [f|]; [|cbn; split; [reflexivity | now exists q4]].
    cbn [fst snd]. split; [reflexivity|].
    change (unseen_deletes (with_seq s4 q4) (r_id r) (fs_seen f)) with (unseen_deletes s4 (r_id r) (fs_seen f)).
    set (dl := unseen_deletes s4 (r_id r) (fs_seen f)).
    assert (H5 : dsim (dm_store fl (r_id r) dl s4) (dm_store fl (r_id r) dl (with_seq s4 q4)))
      by (apply dm_store_sim; now exists q4).
    assert (E5 : m_fs (dm_store fl (r_id r) dl (with_seq s4 q4)) = m_fs (dm_store fl (r_id r) dl s4))
      by (destruct H5 as (q' & -> & _); reflexivity).
    rewrite E5. now apply set_fs_sim.
Qed.

Definition hsim (h h' : hub) : Prop :=
  dsim (h_dm h) (h_dm h') /\ h_job h = h_job h' /\ h_sec h = h_sec h' /\ h_prov h = h_prov h'.

Definition clean (o : hop) : Prop := match o with HRestart true => False | _ => True end.

Lemma hsim_obs cl h h' : hsim h h' -> obs cl h = obs cl h'.
Proof.
  intros ((q' & Hd & _) & Hj & Hs & Hp). destruct h as [d j s p], h' as [d' j' s' p']. cbn in *. subst. reflexivity.
Qed.

Lemma dm_reopen_sim fl s s' : dsim s s' -> dm_reopen fl false s = dm_reopen fl false s'.
Proof.
  intros (q' & -> & (Hn & Hi & Hi')). unfold dm_reopen. cbn.
  rewrite (seq_stop_clean _ Hi), (seq_stop_clean _ Hi'). now rewrite Hn.
Qed.

Lemma job_run_sim fl j h h' : hsim h h' ->
  snd (job_run fl j h) = snd (job_run fl j h') /\ hsim (fst (job_run fl j h)) (fst (job_run fl j h')).
Proof.
  intros H. pose proof H as (Hd & Hj & Hs & Hp). unfold job_run. rewrite <- Hj.
  destruct (assoc j (d_jcfg (h_job h))) as [c|]; [|now split].
  assert (Hr : m_reg (h_dm h') = m_reg (h_dm h)) by (destruct Hd as (q' & -> & _); reflexivity).
  assert (Hdt : d_data (h_dm h') = d_data (h_dm h)) by (destruct Hd as (q' & -> & _); reflexivity).
  assert (Hu : forall n, usable (h_dm h') n = usable (h_dm h) n) by (intros n; unfold usable; now rewrite Hr).
  rewrite !Hu, Hdt, <- Hs, <- Hp.
  destruct (usable (h_dm h) (j_src c)) as [rs|]; [|cbn; split; [reflexivity | now repeat split]].
  destruct (changes _ _ _ _) as [out next]. destruct out as [|e out]; [cbn; split; [reflexivity | now repeat split]|].
  destruct (usable (h_dm h) (j_sink c)) as [rk|]; [|cbn; split; [reflexivity | now repeat split]].
  cbn. split; [reflexivity|]. split; [|now repeat split]. cbn. now apply dm_store_sim.
Qed.

Lemma step_sim fl o h h' : clean o -> hsim h h' ->
  snd (step fl h o) = snd (step fl h' o) /\ hsim (fst (step fl h o)) (fst (step fl h' o)).
Proof.
  intros Hc H. pose proof H as (Hd & Hj & Hs & Hp). destruct o as [o|o|o|o|crash]; cbn [step].
  - destruct (dm_step_sim fl o _ _ Hd) as [Hr Hd'].
    destruct (dm_step fl o (h_dm h)) as [d r], (dm_step fl o (h_dm h')) as [d' r']. cbn in *.
    split; [exact Hr | now repeat split].
  - destruct o as [j c|j p|j|j]; cbn [job_step].
    + rewrite <- Hj. cbn. split; [reflexivity | now repeat split].
    + rewrite <- Hj. destruct (assoc j (d_jcfg (h_job h))); [|now split].
      cbn. split; [reflexivity | now repeat split].
    + rewrite <- Hj. cbn. split; [reflexivity | now repeat split].
    + now apply job_run_sim.
  - cbn. split; [reflexivity|]. repeat split; cbn; auto. now rewrite Hs.
  - rewrite <- Hp. destruct (prov_step (f_prov fl) o (h_prov h)) as [p r]. cbn.
    split; [reflexivity | now repeat split].
  - destruct crash; [destruct Hc|]. cbn. split; [reflexivity|]. unfold reopen. repeat split; cbn.
    + rewrite <- (dm_reopen_sim fl _ _ Hd). apply dsim_refl. apply dm_reopen_sync.
    + now rewrite Hj.
    + now rewrite Hs.
    + now rewrite Hp.
Qed.

Lemma job_emits_sim fl j h h' : hsim h h' -> job_emits fl j h = job_emits fl j h'.
Proof.
  intros (Hd & Hj & _). unfold job_emits. cbv zeta. rewrite <- Hj.
  assert (Hr : m_reg (h_dm h') = m_reg (h_dm h)) by (destruct Hd as (q' & -> & _); reflexivity).
  assert (Hdt : d_data (h_dm h') = d_data (h_dm h)) by (destruct Hd as (q' & -> & _); reflexivity).
  assert (Hf : m_fs (h_dm h') = m_fs (h_dm h)) by (destruct Hd as (q' & -> & _); reflexivity).
  assert (Hu : forall n, usable (h_dm h') n = usable (h_dm h) n) by (intros n; unfold usable; now rewrite Hr).
  destruct (assoc j (d_jcfg (h_job h))) as [c|]; [|reflexivity].
  rewrite Hu, Hdt. destruct (usable (h_dm h) (j_src c)) as [rs|]; [|reflexivity].
  destruct (fst (changes _ _ _ _)); [reflexivity|]. now rewrite Hu, Hf.
Qed.

Lemma drain_sim fl : forall fuel batch h h', hsim h h' -> hsim (drain fl fuel batch h) (drain fl fuel batch h').
Proof.
  induction fuel as [|fuel IH]; intros batch h h' H; [exact H|].
  destruct batch as [|b batch]; [exact H|]. cbn [drain].
  generalize (sortz (b :: batch)). intros l.
  set (f := fun (a : hub * list Z) j => (fst (job_run fl j (fst a)), snd a ++ job_emits fl j (fst a))).
  assert (G : forall (a a' : hub * list Z), hsim (fst a) (fst a') -> snd a = snd a' ->
              hsim (fst (fold_left f l a)) (fst (fold_left f l a')) /\ snd (fold_left f l a) = snd (fold_left f l a')).
  { induction l as [|j l IHl]; intros a a' Ha Hs; cbn [fold_left]; [now split|]. apply IHl; unfold f; cbn [fst snd].
    - now apply job_run_sim.
    - now rewrite Hs, (job_emits_sim fl j _ _ Ha). }
  destruct (G (h, []) (h', []) H eq_refl) as [G1 G2]. rewrite <- G2. now apply IH.
Qed.

Lemma stepd_sim fl o h h' : clean o -> hsim h h' ->
  snd (stepd fl h o) = snd (stepd fl h' o) /\ hsim (fst (stepd fl h o)) (fst (stepd fl h' o)).
Proof.
  intros Hc H. rewrite !stepd_fst. cbn [fst snd]. destruct (step_sim fl o h h' Hc H) as [Hr H1].
  split; [exact Hr|].
  assert (He : op_emits fl h o (fst (step fl h o)) (snd (step fl h o))
             = op_emits fl h' o (fst (step fl h' o)) (snd (step fl h' o))).
  { rewrite <- Hr. destruct o as [d|jo|so|po|c]; try reflexivity.
    - destruct d; try reflexivity. cbn [op_emits]. destruct H1 as (_ & Hj & _). now rewrite Hj.
    - destruct jo; try reflexivity. cbn [op_emits]. now apply job_emits_sim. }
  rewrite He. now apply drain_sim.
Qed.

Lemma run_sim fl ops : Forall clean ops -> forall h h', hsim h h' ->
  snd (run fl ops h) = snd (run fl ops h') /\ hsim (fst (run fl ops h)) (fst (run fl ops h')).
Proof.
  induction 1 as [|o ops Ho _ IH]; intros h h' H; cbn [run]; [now split|].
  destruct (stepd_sim fl o h h' Ho H) as [Hr H1].
  destruct (stepd fl h o) as [h1 r], (stepd fl h' o) as [h1' r']. cbn [fst snd] in *. subst r'.
  destruct (IH h1 h1' H1) as [Hrs H2].
  destruct (run fl ops h1) as [h2 rs], (run fl ops h1') as [h2' rs']. cbn [fst snd] in *. subst rs'. now split.
Qed.

Lemma run_app fl ops1 ops2 h :
  run fl (ops1 ++ ops2) h =
  (fst (run fl ops2 (fst (run fl ops1 h))), snd (run fl ops1 h) ++ snd (run fl ops2 (fst (run fl ops1 h)))).
Proof.
  revert h. induction ops1 as [|o ops1 IH]; intros h; cbn [run app fst snd]; [now destruct (run fl ops2 h)|].
  destruct (stepd fl h o) as [h1 r]. rewrite IH.
  destruct (run fl ops1 h1) as [h2 rs]. cbn [fst snd app]. reflexivity.
Qed.

Lemma norm_sim fl h : hub_synced fl h -> hsim h (norm h).
Proof.
  intros (((_ & _ & _ & _ & _ & Hq) & _) & _). repeat split; cbn; auto.
  exists (seq_open (q_next (m_seq (h_dm h)))). split; [reflexivity|].
  split; [reflexivity | split; [exact Hq | apply seq_open_inv]].
Qed.

(** ** C14_continue: stopping and starting the hub after any history [h1] and then continuing with any [h2]
    (clean restarts allowed inside [h2], anything inside [h1]) gives the results and the final answers of the
    uninterrupted history [h1 ++ h2] - exactly, including every internal id and change position *)
Theorem continue_after_restart fl h1 h2 cl :
  sound fl -> Forall clean h2 ->
  let s1 := fst (run fl h1 hub_init) in
  let a := run fl h2 (reopen fl false s1) in
  let b := run fl (h1 ++ h2) hub_init in
  snd b = snd (run fl h1 hub_init) ++ snd a /\ obs cl (fst a) = obs cl (fst b).
Proof.
  intros Hsd Hc s1 a b. subst a b. rewrite run_app. cbn [fst snd]. fold s1.
  assert (Hs1 : hub_synced fl s1) by (apply run_sync; [exact Hsd | apply hub_init_sync]).
  rewrite (reopen_norm fl s1 Hsd Hs1).
  destruct (run_sim fl h2 Hc s1 (norm s1) (norm_sim fl s1 Hs1)) as [Hr Hh].
  split; [now rewrite Hr | symmetry; now apply hsim_obs].
Qed.

(** ** Safety for ALL flags and all histories, kills included: ids are never reused *)
Lemma assoc_none_notin {V} u (l : list (Z * V)) : assoc u l = None -> ~ In u (map fst l).
Proof.
  induction l as [|[k v] l IH]; cbn; [tauto|]. destruct (Z.eqb u k) eqn:E; [discriminate|].
  apply Z.eqb_neq in E. intros H [Hk|Hin]; [congruence | now apply IH].
Qed.

Lemma insert_sorted_in d x l : In d (insert_sorted x l) <-> d = x \/ In d l.
Proof.
  induction l as [|y l IH]; cbn; [intuition congruence|].
  destruct (x <? y); cbn; [intuition congruence|]. destruct (Z.eqb x y) eqn:E; cbn.
  - apply Z.eqb_eq in E; subst y. intuition congruence.
  - rewrite IH. intuition congruence.
Qed.

Lemma ssorted_adel_neq {V} n k (v : V) l : ssorted l -> In (k, v) (adel n l) -> k <> n.
Proof.
  induction l as [|[k' v'] l IH]; cbn; [tauto|]. intros Hs.
  destruct (Z.eqb n k') eqn:E.
  - apply Z.eqb_eq in E; subst k'. intros Hin. pose proof (ssorted_above n v' l Hs k v Hin). lia.
  - apply Z.eqb_neq in E. intros [[= <- <-]|Hin]; [congruence|]. apply IH; [exact (ssorted_tail k' v' l Hs) | exact Hin].
Qed.

Lemma NoDup_app_one {A} (l : list A) x : NoDup l -> ~ In x l -> NoDup (l ++ [x]).
Proof.
  induction l as [|y l IH]; intros Hn Hx; cbn; [constructor; [tauto | constructor]|].
  inversion Hn; subst. constructor.
  - intros Hin. apply in_app_or in Hin. destruct Hin as [Hin|[->|[]]]; [tauto|]. apply Hx. now left.
  - apply IH; [assumption|]. intros Hin. apply Hx. now right.
Qed.

Lemma fold_keep {A B} (proj : dmstate -> B) (f : A -> dmstate -> dmstate) :
  (forall x s, proj (f x s) = proj s) -> forall l s, proj (fold_left (fun s x => f x s) l s) = proj s.
Proof. intros Hf. induction l as [|x l IH]; intros s; cbn; [reflexivity | now rewrite IH, Hf]. Qed.

Definition idsP (s : dmstate) : Prop :=
  seq_inv (m_seq s) /\ (forall u i, In (u, i) (d_ids s) -> i < q_next (m_seq s))
  /\ NoDup (map fst (d_ids s)) /\ NoDup (map snd (d_ids s)).
Definition istep (s s' : dmstate) : Prop := (idsP s -> idsP s') /\ exists l, d_ids s' = d_ids s ++ l.

Lemma istep_refl s : istep s s.
Proof. split; [auto | exists []; now rewrite app_nil_r]. Qed.
Lemma istep_trans s1 s2 s3 : istep s1 s2 -> istep s2 s3 -> istep s1 s3.
Proof.
  intros [H1 [l1 E1]] [H2 [l2 E2]]. split; [auto|]. exists (l1 ++ l2). now rewrite E2, E1, app_assoc.
Qed.
Lemma istep_frame s s' : d_ids s' = d_ids s -> m_seq s' = m_seq s -> istep s s'.
Proof.
  intros E1 E2. split; [|exists []; now rewrite app_nil_r]. unfold idsP. now rewrite E1, E2.
Qed.

Lemma assert_uri_istep u s : istep s (assert_uri u s).
Proof.
  unfold assert_uri. destruct (assoc u (d_ids s)) eqn:E; [apply istep_refl|].
  destruct (seq_next (m_seq s)) as [n q] eqn:En. split; [|now exists [(u, n)]].
  intros (Hi & Hlt & Hu & Hid). destruct (seq_next_val _ Hi) as [Hv Hn]. rewrite En in Hv, Hn. cbn in Hv, Hn.
  unfold idsP. cbn. repeat split.
  - replace q with (snd (seq_next (m_seq s))) by now rewrite En. now apply seq_next_inv.
  - replace q with (snd (seq_next (m_seq s))) by now rewrite En. now apply seq_next_inv.
  - intros u0 i Hin. apply in_app_or in Hin. destruct Hin as [Hin|[[= <- <-]|[]]]; [specialize (Hlt _ _ Hin)|]; lia.
  - rewrite map_app. cbn. apply NoDup_app_one; [exact Hu | now apply assoc_none_notin].
  - rewrite map_app. cbn. apply NoDup_app_one; [exact Hid|].
    intros Hin. apply in_map_iff in Hin. destruct Hin as [[u0 i] [Hi0 Hin]]. cbn in Hi0. subst i.
    specialize (Hlt _ _ Hin). lia.
Qed.

Lemma fold_istep {A} (f : A -> dmstate -> dmstate) :
  (forall x s, istep s (f x s)) -> forall l s, istep s (fold_left (fun s x => f x s) l s).
Proof.
  intros Hf. induction l as [|x l IH]; intros s; cbn; [apply istep_refl|].
  eapply istep_trans; [apply Hf | apply IH].
Qed.

Lemma assert_ns_istep e s : istep s (assert_ns e s).
Proof. apply istep_frame; unfold assert_ns; destruct (zmem e (m_ns s)); reflexivity. Qed.
Lemma dm_store_istep fl id es s : istep s (dm_store fl id es s).
Proof.
  unfold dm_store. destruct es as [|e es]; [apply istep_refl|].
  eapply istep_trans; [|apply istep_frame; reflexivity].
  eapply istep_trans; [|apply (fold_istep (fun u s => assert_uri u s)); intros; apply assert_uri_istep].
  destruct (assoc id (m_fs s)); [apply istep_frame; reflexivity | apply istep_refl].
Qed.
Lemma set_fs_istep fm fs s : istep s (set_fs fm fs s).
Proof. apply istep_frame; reflexivity. Qed.

Lemma dm_create_istep n pub s : istep s (dm_create n pub s).
Proof.
  unfold dm_create. destruct (assoc n (m_reg s)); [apply istep_refl|].
  eapply istep_trans; [|apply (fold_istep (fun u s => assert_uri u s)); intros; apply assert_uri_istep].
  eapply istep_trans; [|apply (fold_istep (fun e s => assert_ns e s)); intros; apply assert_ns_istep].
  apply istep_frame; reflexivity.
Qed.

Lemma dm_pubns_istep n pub s : istep s (fst (dm_pubns n pub s)).
Proof. unfold dm_pubns. destruct (assoc n (m_reg s)); [apply istep_frame; reflexivity | apply istep_refl]. Qed.

Lemma dm_step_istep fl o s : istep s (fst (dm_step fl o s)).
Proof.
  destruct o as [n pub|n|n m|n pub|l|n start fsid fin es]; cbn [dm_step fst].
  - apply dm_create_istep.
  - unfold dm_delete. destruct (Z.eqb n core_name); [apply istep_refl|].
    destruct (assoc n (m_reg s)); [apply istep_frame; reflexivity | apply istep_refl].
  - unfold dm_rename. destruct (Z.eqb n core_name); [apply istep_refl|].
    destruct (assoc n (m_reg s)); [|apply istep_refl]. destruct (Z.eqb n m); [apply istep_refl|].
    destruct (assoc m (m_reg s)); [apply istep_refl|]. cbn.
    eapply istep_trans; [|apply assert_uri_istep]. apply istep_frame; reflexivity.
  - apply dm_pubns_istep.
  - destruct (forallb _ l); [|apply istep_refl]. cbn [fst].
    apply (fold_istep (fun (p : Z * list Z) s => fst (dm_pubns (fst p) (snd p) s))). intros; apply dm_pubns_istep.
  - unfold dm_post. destruct (assoc n (m_reg s)) as [r|]; [|apply istep_refl].
    destruct (negb (Z.eqb (r_kind r) 0)); [apply istep_refl|].
    set (chk := if start then _ else _).
    assert (Hchk : forall s1, chk = Some s1 -> istep s s1).
    { subst chk. intros s1. destruct start; [intros [= <-]; apply set_fs_istep|].
      destruct (assoc (r_id r) (m_fs s)) as [f|]; [destruct (Z.eqb (fs_id f) fsid)|]; intros [= <-]; apply istep_refl. }
    destruct chk as [s1|]; [|apply istep_refl]. specialize (Hchk s1 eq_refl).
    set (s4 := dm_store fl _ _ _).
    assert (H4 : istep s s4).
    { eapply istep_trans; [exact Hchk|]. subst s4.
      eapply istep_trans; [|apply dm_store_istep].
      apply (fold_istep (fun e s => assert_ns e s)); intros; apply assert_ns_istep. }
    destruct fin; [|exact H4]. destruct (assoc (r_id r) (m_fs s4)); [|exact H4]. cbn [fst].
    eapply istep_trans; [exact H4|]. eapply istep_trans; [apply dm_store_istep | apply set_fs_istep].
Qed.

Lemma dm_reopen_istep fl crash s : istep s (dm_reopen fl crash s).
Proof.
  unfold dm_reopen. eapply istep_trans; [|apply dm_create_istep].
  split; [|exists []; cbn; now rewrite app_nil_r].
  intros (Hi & Hlt & Hu & Hid). unfold idsP. cbn. repeat split; try apply seq_open_inv; auto.
  intros u i Hin. specialize (Hlt _ _ Hin). pose proof (seq_stop_ge crash _ Hi). unfold seq_open; cbn. lia.
Qed.

(** dataset ids *)
Definition regP (s : dmstate) : Prop :=
  (forall n r, In (n, r) (m_reg s) -> r_id r < m_next s /\ ~ In (r_id r) (m_del s))
  /\ (forall d, In d (m_del s) -> d < m_next s)
  /\ ssorted (m_reg s)
  /\ (forall n1 r1 n2 r2, In (n1, r1) (m_reg s) -> In (n2, r2) (m_reg s) -> r_id r1 = r_id r2 -> n1 = n2).
Definition rstep (s s' : dmstate) : Prop :=
  (regP s -> regP s') /\ incl (m_del s) (m_del s') /\ m_next s <= m_next s'.

Lemma rstep_refl s : rstep s s.
Proof. split; [auto|]. split; [apply incl_refl | lia]. Qed.
Lemma rstep_trans s1 s2 s3 : rstep s1 s2 -> rstep s2 s3 -> rstep s1 s3.
Proof.
  intros (H1 & I1 & L1) (H2 & I2 & L2). split; [auto|]. split; [eapply incl_tran; eauto | lia].
Qed.
Lemma rstep_frame s s' : m_reg s' = m_reg s -> m_del s' = m_del s -> m_next s' = m_next s -> rstep s s'.
Proof.
  intros E1 E2 E3. split; [unfold regP; now rewrite E1, E2, E3|]. split; [rewrite E2; apply incl_refl | lia].
Qed.

Lemma fold_rstep {A} (f : A -> dmstate -> dmstate) :
  (forall x s, rstep s (f x s)) -> forall l s, rstep s (fold_left (fun s x => f x s) l s).
Proof.
  intros Hf. induction l as [|x l IH]; intros s; cbn; [apply rstep_refl|].
  eapply rstep_trans; [apply Hf | apply IH].
Qed.

Lemma assert_ns_rstep e s : rstep s (assert_ns e s).
Proof. apply rstep_frame; unfold assert_ns; destruct (zmem e (m_ns s)); reflexivity. Qed.
Lemma assert_uri_rstep u s : rstep s (assert_uri u s).
Proof.
  apply rstep_frame; unfold assert_uri; destruct (assoc u (d_ids s)); try reflexivity;
    now destruct (seq_next (m_seq s)).
Qed.
Lemma dm_store_rstep fl id es s : rstep s (dm_store fl id es s).
Proof.
  unfold dm_store. destruct es as [|e es]; [apply rstep_refl|].
  eapply rstep_trans; [|apply rstep_frame; reflexivity].
  eapply rstep_trans; [|apply (fold_rstep (fun u s => assert_uri u s)); intros; apply assert_uri_rstep].
  destruct (assoc id (m_fs s)); [apply rstep_frame; reflexivity | apply rstep_refl].
Qed.
Lemma set_fs_rstep fm fs s : rstep s (set_fs fm fs s).
Proof. apply rstep_frame; reflexivity. Qed.

Lemma dm_create_rstep n pub s : rstep s (dm_create n pub s).
Proof.
  unfold dm_create. destruct (assoc n (m_reg s)) eqn:En; [apply rstep_refl|].
  eapply rstep_trans; [|apply (fold_rstep (fun u s => assert_uri u s)); intros; apply assert_uri_rstep].
  eapply rstep_trans; [|apply (fold_rstep (fun e s => assert_ns e s)); intros; apply assert_ns_rstep].
  split; [|split; [apply incl_refl | cbn; lia]].
  intros (Hr & Hd & Hs & Hinj). unfold regP. cbn. repeat split.
  - destruct (in_set_assoc _ _ _ _ _ H) as [[= -> ->]|Hin]; [cbn; lia|]. specialize (Hr _ _ Hin). lia.
  - destruct (in_set_assoc _ _ _ _ _ H) as [[= -> ->]|Hin]; [cbn|now apply (Hr _ _ Hin)].
    intros Hin. specialize (Hd _ Hin). lia.
  - intros d Hin. specialize (Hd _ Hin). lia.
  - now apply ssorted_set.
  - intros n1 r1 n2 r2 H1 H2 Heq.
    destruct (in_set_assoc _ _ _ _ _ H1) as [[= -> ->]|Hin1], (in_set_assoc _ _ _ _ _ H2) as [[= -> ->]|Hin2]; auto.
    + cbn in Heq. specialize (Hr _ _ Hin2). lia.
    + cbn in Heq. specialize (Hr _ _ Hin1). lia.
    + eapply Hinj; eauto.
Qed.

Lemma dm_pubns_rstep n pub s : rstep s (fst (dm_pubns n pub s)).
Proof.
  unfold dm_pubns. destruct (assoc n (m_reg s)) as [r|] eqn:En; [|apply rstep_refl]. cbn [fst].
  split; [|split; [apply incl_refl | cbn; lia]].
  intros (Hr & Hd & Hs & Hinj). pose proof (assoc_in _ _ _ En) as Hnr. unfold regP. cbn. repeat split.
  + destruct (in_set_assoc _ _ _ _ _ H) as [[= -> ->]|Hin]; [cbn; now apply (Hr _ _ Hnr) | now apply (Hr _ _ Hin)].
  + destruct (in_set_assoc _ _ _ _ _ H) as [[= -> ->]|Hin]; [cbn; now apply (Hr _ _ Hnr) | now apply (Hr _ _ Hin)].
  + exact Hd.
  + now apply ssorted_set.
  + intros n1 r1 n2 r2 H1 H2 Heq.
    destruct (in_set_assoc _ _ _ _ _ H1) as [[= -> ->]|Hin1], (in_set_assoc _ _ _ _ _ H2) as [[= -> ->]|Hin2]; auto.
    * cbn in Heq. symmetry. eapply Hinj; eauto.
    * cbn in Heq. eapply Hinj; eauto.
    * eapply Hinj; eauto.
Qed.

Lemma dm_step_rstep fl o s : rstep s (fst (dm_step fl o s)).
Proof.
  destruct o as [n pub|n|n m|n pub|l|n start fsid fin es]; cbn [dm_step fst].
  - apply dm_create_rstep.
  - unfold dm_delete. destruct (Z.eqb n core_name); [apply rstep_refl|].
    destruct (assoc n (m_reg s)) as [r|] eqn:En; [|apply rstep_refl]. cbn [fst].
    split; [|split; [cbn; intros d Hd; apply insert_sorted_in; now right | cbn; lia]].
    intros (Hr & Hd & Hs & Hinj). pose proof (assoc_in _ _ _ En) as Hnr. unfold regP. cbn. repeat split.
    + apply (Hr n0 r0). eapply in_adel; eauto.
    + intros Hin. apply insert_sorted_in in Hin. pose proof (in_adel _ _ _ _ H) as Hin0.
      destruct Hin as [Heq|Hin]; [|now apply (Hr _ _ Hin0)].
      pose proof (Hinj _ _ _ _ Hin0 Hnr Heq). pose proof (ssorted_adel_neq _ _ _ _ Hs H). contradiction.
    + intros d Hin. apply insert_sorted_in in Hin. destruct Hin as [->|Hin]; [now apply (Hr _ _ Hnr) | now apply Hd].
    + now apply ssorted_adel.
    + intros n1 r1 n2 r2 H1 H2. eapply Hinj; eapply in_adel; eauto.
  - unfold dm_rename. destruct (Z.eqb n core_name); [apply rstep_refl|].
    destruct (assoc n (m_reg s)) as [r|] eqn:En; [|apply rstep_refl]. destruct (Z.eqb n m); [apply rstep_refl|].
    destruct (assoc m (m_reg s)); [apply rstep_refl|]. cbn [fst].
    eapply rstep_trans; [|apply assert_uri_rstep].
    split; [|split; [apply incl_refl | cbn; lia]].
    intros (Hr & Hd & Hs & Hinj). pose proof (assoc_in _ _ _ En) as Hnr. unfold regP. cbn. repeat split.
    + destruct (in_set_assoc _ _ _ _ _ H) as [[= -> ->]|Hin]; [now apply (Hr _ _ Hnr)|].
      apply (Hr n0 r0). eapply in_adel; eauto.
    + destruct (in_set_assoc _ _ _ _ _ H) as [[= -> ->]|Hin]; [now apply (Hr _ _ Hnr)|].
      apply (Hr n0 r0). eapply in_adel; eauto.
    + exact Hd.
    + now apply ssorted_set, ssorted_adel.
    + intros n1 r1 n2 r2 H1 H2 Heq.
      destruct (in_set_assoc _ _ _ _ _ H1) as [[= -> ->]|Hin1], (in_set_assoc _ _ _ _ _ H2) as [[= -> ->]|Hin2]; auto.
      * pose proof (Hinj _ _ _ _ Hnr (in_adel _ _ _ _ Hin2) Heq). pose proof (ssorted_adel_neq _ _ _ _ Hs Hin2). congruence.
      * pose proof (Hinj _ _ _ _ (in_adel _ _ _ _ Hin1) Hnr Heq). pose proof (ssorted_adel_neq _ _ _ _ Hs Hin1). congruence.
      * eapply Hinj; eauto; eapply in_adel; eauto.
  - apply dm_pubns_rstep.
  - destruct (forallb _ l); [|apply rstep_refl]. cbn [fst].
    apply (fold_rstep (fun (p : Z * list Z) s => fst (dm_pubns (fst p) (snd p) s))). intros; apply dm_pubns_rstep.
  - unfold dm_post. destruct (assoc n (m_reg s)) as [r|]; [|apply rstep_refl].
    destruct (negb (Z.eqb (r_kind r) 0)); [apply rstep_refl|].
    set (chk := if start then _ else _).
    assert (Hchk : forall s1, chk = Some s1 -> rstep s s1).
    { subst chk. intros s1. destruct start; [intros [= <-]; apply set_fs_rstep|].
      destruct (assoc (r_id r) (m_fs s)) as [f|]; [destruct (Z.eqb (fs_id f) fsid)|]; intros [= <-]; apply rstep_refl. }
    destruct chk as [s1|]; [|apply rstep_refl]. specialize (Hchk s1 eq_refl).
    set (s4 := dm_store fl _ _ _).
    assert (H4 : rstep s s4).
    { eapply rstep_trans; [exact Hchk|]. subst s4.
      eapply rstep_trans; [|apply dm_store_rstep].
      apply (fold_rstep (fun e s => assert_ns e s)); intros; apply assert_ns_rstep. }
    destruct fin; [|exact H4]. destruct (assoc (r_id r) (m_fs s4)); [|exact H4]. cbn [fst].
    eapply rstep_trans; [exact H4|]. eapply rstep_trans; [apply dm_store_rstep | apply set_fs_rstep].
Qed.

Lemma dm_reopen_rstep fl fm crash s : dm_synced fm s -> rstep s (dm_reopen fl crash s).
Proof.
  intros [(Hreg & Hdel & Hnext & _) _]. unfold dm_reopen.
  eapply rstep_trans; [|apply dm_create_rstep]. apply rstep_frame; cbn; congruence.
Qed.

Definition dm_safe (fl : rflags) (s : dmstate) : Prop := dm_synced (f_fs fl) s /\ idsP s /\ regP s.
(** the URI index only grows at its end, the deleted set only grows, the next dataset id never decreases *)
Definition dm_le (s s' : dmstate) : Prop :=
  (exists l, d_ids s' = d_ids s ++ l) /\ incl (m_del s) (m_del s') /\ m_next s <= m_next s'.

Lemma dm_le_refl s : dm_le s s.
Proof. split; [exists []; now rewrite app_nil_r|]. split; [apply incl_refl | lia]. Qed.
Lemma dm_le_trans s1 s2 s3 : dm_le s1 s2 -> dm_le s2 s3 -> dm_le s1 s3.
Proof.
  intros ([l1 E1] & I1 & L1) ([l2 E2] & I2 & L2). split; [exists (l1 ++ l2); now rewrite E2, E1, app_assoc|].
  split; [eapply incl_tran; eauto | lia].
Qed.

Lemma safe_by fl s s' : dm_safe fl s -> dm_synced (f_fs fl) s' -> istep s s' -> rstep s s' ->
  dm_safe fl s' /\ dm_le s s'.
Proof.
  intros (Hs & Hi & Hr) Hs' [Hi' Hl] (Hr' & Hinc & Hn). split; [split; [exact Hs' | split; auto]|].
  split; [exact Hl | split; assumption].
Qed.

Lemma dm_init_safe fl : dm_safe fl dm_init.
Proof.
  split; [apply dm_init_sync|]. unfold dm_init. split.
  - apply dm_create_istep. unfold idsP; cbn. split; [apply seq_open_inv|]. split; [intros u i []|]. split; constructor.
  - apply dm_create_rstep. unfold regP; cbn. split; [intros n r []|]. split; [intros d []|]. split; [exact I|].
    intros n1 r1 n2 r2 [].
Qed.

Lemma step_safe fl o h : dm_safe fl (h_dm h) ->
  dm_safe fl (h_dm (fst (step fl h o))) /\ dm_le (h_dm h) (h_dm (fst (step fl h o))).
Proof.
  intros H. pose proof H as (Hs & Hi & Hr). destruct o as [o|o|o|o|crash]; cbn [step].
  - destruct (dm_step fl o (h_dm h)) as [d r] eqn:E. cbn.
    replace d with (fst (dm_step fl o (h_dm h))) by now rewrite E.
    apply safe_by; [exact H | now apply dm_step_sync | apply dm_step_istep | apply dm_step_rstep].
  - destruct o as [j c|j p|j|j]; cbn [job_step].
    + cbn. split; [exact H | apply dm_le_refl].
    + destruct (assoc j (d_jcfg (h_job h))); cbn; (split; [exact H | apply dm_le_refl]).
    + cbn. split; [exact H | apply dm_le_refl].
    + unfold job_run. destruct (assoc j (d_jcfg (h_job h))) as [c|]; [|split; [exact H | apply dm_le_refl]].
      destruct (usable (h_dm h) (j_src c)) as [rs|]; [|cbn; split; [exact H | apply dm_le_refl]].
      destruct (changes _ _ _ _) as [out next]. destruct out as [|e out]; [cbn; split; [exact H | apply dm_le_refl]|].
      destruct (usable (h_dm h) (j_sink c)) as [rk|]; [|cbn; split; [exact H | apply dm_le_refl]].
      cbn. apply safe_by; [exact H | now apply dm_store_sync' | apply dm_store_istep | apply dm_store_rstep].
  - cbn. split; [exact H | apply dm_le_refl].
  - destruct (prov_step (f_prov fl) o (h_prov h)) as [p r]. cbn. split; [exact H | apply dm_le_refl].
  - cbn. apply safe_by; [exact H | apply dm_reopen_sync | apply dm_reopen_istep | eapply dm_reopen_rstep; exact Hs].
Qed.

Lemma stepd_safe fl o h : dm_safe fl (h_dm h) ->
  dm_safe fl (h_dm (fst (stepd fl h o))) /\ dm_le (h_dm h) (h_dm (fst (stepd fl h o))).
Proof.
  intros H. rewrite stepd_fst. cbn [fst]. destruct (step_safe fl o h H) as [H1 L1].
  apply (drain_pres (fun x => dm_safe fl (h_dm x) /\ dm_le (h_dm h) (h_dm x))); [|now split].
  intros j x [Hx Lx]. destruct (step_safe fl (HJob (JRun j)) x Hx) as [Hy Ly]. cbn [step job_step] in Hy, Ly.
  split; [exact Hy | eapply dm_le_trans; eauto].
Qed.

Lemma run_safe fl ops : forall h, dm_safe fl (h_dm h) ->
  dm_safe fl (h_dm (fst (run fl ops h))) /\ dm_le (h_dm h) (h_dm (fst (run fl ops h))).
Proof.
  induction ops as [|o ops IH]; intros h H; cbn [run]; [split; [exact H | apply dm_le_refl]|].
  destruct (stepd_safe fl o h H) as [H1 L1]. destruct (stepd fl h o) as [h1 r]. cbn [fst] in *.
  destruct (IH h1 H1) as [H2 L2]. destruct (run fl ops h1) as [h2 rs]. cbn [fst] in *.
  split; [exact H2 | eapply dm_le_trans; eauto].
Qed.

(** ** C14 safety, for every variant of the flags and every history with restarts and kills at any position *)
Theorem never_reused fl ops :
  let s := h_dm (fst (run fl ops hub_init)) in
  NoDup (map fst (d_ids s)) /\ NoDup (map snd (d_ids s))           (* one id per URI, one URI per id *)
  /\ NoDup (map (fun p => r_id (snd p)) (m_reg s))                  (* one dataset per dataset id *)
  /\ (forall n r, In (n, r) (m_reg s) -> r_id r < m_next s /\ ~ In (r_id r) (m_del s))
  /\ (forall d, In d (m_del s) -> d < m_next s).
Proof.
  intros s. destruct (run_safe fl ops hub_init (dm_init_safe fl)) as [(Hs & Hi & Hr) _]. fold s in Hs, Hi, Hr.
  destruct Hi as (_ & _ & Hu & Hid). destruct Hr as (Hr & Hd & Hso & Hinj).
  repeat split; auto; try (now apply (Hr n r)).
  clear - Hso Hinj. induction (m_reg s) as [|[k v] l IH]; cbn; constructor.
  - intros Hin. apply in_map_iff in Hin. destruct Hin as [[k0 v0] [He Hin]]. cbn in He.
    assert (k0 = k) by (eapply Hinj; [right; exact Hin | left; reflexivity | exact He]). subst k0.
    pose proof (ssorted_above _ _ _ Hso k v0 Hin). lia.
  - apply IH; [eapply ssorted_tail; eauto|]. intros n1 r1 n2 r2 H1 H2. eapply Hinj; right; eauto.
Qed.

Theorem only_grows fl ops1 ops2 :
  let s1 := h_dm (fst (run fl ops1 hub_init)) in
  let s2 := h_dm (fst (run fl (ops1 ++ ops2) hub_init)) in
  (exists l, d_ids s2 = d_ids s1 ++ l) /\ incl (m_del s1) (m_del s2) /\ m_next s1 <= m_next s2.
Proof.
  intros s1 s2. subst s1 s2. rewrite run_app. cbn [fst].
  destruct (run_safe fl ops1 hub_init (dm_init_safe fl)) as [H1 _].
  now destruct (run_safe fl ops2 _ H1) as [_ L].
Qed.

(** ** the driver's entity alphabet: the write-time equality does not depend on the data-layer flags
    (so the C14 correspondence is insensitive to the repairs of F01a / F02b; C01/C02 cover those) *)
Lemma mkc_eqb_flag_free fl v t d v' t' d' :
  content_eqb fl (mkc v t d) (mkc v' t' d') = identical (mkc v t d) (mkc v' t' d').
Proof.
  unfold identical, content_eqb, mkc. destruct fl as [lk on]. cbn.
  destruct (t <? 0), (t' <? 0), d, d', lk; cbn; rewrite ?andb_true_r, ?andb_false_r; try reflexivity;
    unfold pval_eqb; cbn; destruct on; cbn; rewrite ?andb_true_r; reflexivity.
Qed.

(** ** the persisted dataset record carries every field of the live one (id, public namespaces, kind, configuration)
    after every operation - for EVERY variant of the flags and every history with restarts and kills *)
Theorem record_complete fl ops :
  let s := h_dm (fst (run fl ops hub_init)) in m_reg s = d_reg s.
Proof.
  intros s. destruct (run_safe fl ops hub_init (dm_init_safe fl)) as [(Hs & _) _]. fold s in Hs.
  now destruct Hs as [(H & _) _].
Qed.
