(** C03 assembled: scan lemmas (QueryProofs) + write-path refinement (RefsInv) + paging (C03Paging). *)
From Coq Require Import List ZArith Bool Lia Sorting.Permutation.
From DH Require Import Model.Store Model.Refs Model.Query Model.GraphSpec
     Proofs.StoreProofs Proofs.RefsProofs Proofs.QueryProofs Proofs.RefsInv Proofs.C03Paging.
Import ListNotations.
Open Scope Z_scope.

(** a state reached by any history of batches and transactions from the empty store, under any
    duplicate-handling mode and any write-time equality that compares the deleted flag and the references *)
Definition reachable (fl : eqflags) (dm : dup_mode) (ops : list wop) (rs : rstore) : Prop :=
  f_lenkeys fl = false /\ Forall wf_wop ops /\ rs = rrun fl dm ops rstore0.

Lemma reachable_inv fl dm ops rs : reachable fl dm ops rs ->
  NoDup (rs_keys rs)
  /\ forall ds at_ src p tgt,
       live_at (rs_keys rs) at_ src p tgt ds <-> In (p, tgt) (live_refs_at (get_ds (rs_st rs) ds) src at_).
Proof. intros (Hfl & Hwf & ->). exact (refs_index_refines fl dm ops Hfl Hwf). Qed.

(** outgoing query (first page, no limit) = the graph restricted to start / predicate, duplicate-free *)
Theorem outgoing_is_graph fl dm ops rs noadd fr :
  reachable fl dm ops rs -> f_key fr = None ->
  let '(res, cont) := related_out noadd (rs_keys rs) fr 0 in
  cont = None
  /\ NoDup (map ofact res)
  /\ forall p tgt, In (p, tgt) (map ofact res) <->
       pred_pass fr p = true /\ in_graph (rs_st rs) (f_at fr) (f_scope fr) (f_start fr) p tgt.
Proof.
  intros Hr Hkey. destruct (reachable_inv _ _ _ _ Hr) as [Hnd Hlive].
  pose proof (out_scan_char noadd (rs_keys rs) fr Hnd Hkey) as H.
  destruct (related_out noadd (rs_keys rs) fr 0) as [res cont].
  destruct H as (Hc & Hn & _ & Hchar). split; [assumption|]. split; [assumption|].
  intros p tgt. rewrite Hchar. unfold in_graph. split.
  - intros (ds & Hsc & Hpp & Hl). split; [assumption|]. exists ds. split; [assumption|]. now apply Hlive.
  - intros (Hpp & ds & Hsc & Hin). exists ds. repeat split; try assumption. now apply Hlive.
Qed.

(** incoming query under the repaired scan = the graph restricted to target / predicate *)
Theorem incoming_is_graph fl dm ops rs fr :
  reachable fl dm ops rs -> f_key fr = None ->
  let '(res, cont) := related_in_fixed (rs_keys rs) fr 0 in
  cont = None
  /\ NoDup (map ifact res)
  /\ forall p src, In (p, src) (map ifact res) <->
       pred_pass fr p = true /\ in_graph (rs_st rs) (f_at fr) (f_scope fr) src p (f_start fr).
Proof.
  intros Hr Hkey. destruct (reachable_inv _ _ _ _ Hr) as [Hnd Hlive].
  pose proof (in_scan_char (rs_keys rs) fr Hnd Hkey) as H.
  destruct (related_in_fixed (rs_keys rs) fr 0) as [res cont].
  destruct H as (Hc & Hn & _ & Hchar). split; [assumption|]. split; [assumption|].
  intros p src. rewrite Hchar. unfold in_graph. split.
  - intros (ds & Hsc & Hpp & Hl). split; [assumption|]. exists ds. split; [assumption|]. now apply Hlive.
  - intros (Hpp & ds & Hsc & Hin). exists ds. repeat split; try assumption. now apply Hlive.
Qed.

(** incoming = transpose of outgoing: x is returned for (start s, predicate p) outgoing iff s is
    returned for (start x, predicate p) incoming, for queries with the same predicate filter, scope and instant *)
Theorem incoming_is_transpose fl dm ops rs noadd fo fi :
  reachable fl dm ops rs -> f_key fo = None -> f_key fi = None ->
  f_pred fo = f_pred fi -> f_scope fo = f_scope fi -> f_at fo = f_at fi ->
  forall p,
    In (p, f_start fi) (map ofact (fst (related_out noadd (rs_keys rs) fo 0)))
    <-> In (p, f_start fo) (map ifact (fst (related_in_fixed (rs_keys rs) fi 0))).
Proof.
  intros Hr Hko Hki Hp Hs Ha p.
  pose proof (outgoing_is_graph fl dm ops rs noadd fo Hr Hko) as Ho.
  pose proof (incoming_is_graph fl dm ops rs fi Hr Hki) as Hi.
  destruct (related_out noadd (rs_keys rs) fo 0) as [ro co].
  destruct (related_in_fixed (rs_keys rs) fi 0) as [ri ci]. cbn [fst].
  destruct Ho as (_ & _ & Ho). destruct Hi as (_ & _ & Hi).
  rewrite Ho, Hi. unfold pred_pass. rewrite Hp, Hs, Ha. reflexivity.
Qed.

(** paging: a client following the continuations with any positive limit receives, page after page,
    exactly the unlimited result - in the same order, every page within the limit; hence the same set,
    nothing missing, nothing twice.  Outgoing with the repaired [added] bookkeeping ... *)
Theorem outgoing_paging fl dm ops rs q fr L fuel :
  reachable fl dm ops rs -> q_noadd q = false -> f_inv fr = false -> f_key fr = None -> 0 < L ->
  (length (fst (related_out false (rs_keys rs) fr 0)) < fuel)%nat ->
  let pages := follow q (rs_keys rs) [fr] [L] 0 fuel in
  concat pages = map RDef (fst (related_out false (rs_keys rs) fr 0))
  /\ Forall (fun pg => len pg <= L) pages.
Proof.
  intros Hr Hq Hinv Hkey HL Hfuel. destruct (reachable_inv _ _ _ _ Hr) as [Hnd _].
  assert (HU : fst (related_out false (rs_keys rs) fr 0) = E_out (rs_keys rs) fr).
  { rewrite (related_out_page _ _ 0 Hnd) by (left; exact Hkey). rewrite Hkey. cbn [rest].
    generalize (E_out (rs_keys rs) fr). intros E.
    assert (G : forall E res c, page_take 0 E res c = (res ++ E, None)).
    { induction E0 as [|k E0 IH]; intros res c; cbn [page_take]; [now rewrite app_nil_r|].
      rewrite at_limit_0, IH, <- app_assoc. reflexivity. }
    now rewrite G. }
  rewrite HU in *.
  pose proof (follow_out_pages q (rs_keys rs) fr L Hnd HL Hq Hinv Hkey fuel 0%nat None (or_introl eq_refl)) as Hf.
  cbn [with_start] in Hf. cbv zeta. rewrite Hf.
  assert (HndE : NoDup (E_out (rs_keys rs) fr)).
  { unfold E_out. pose proof (out_emits_nodup ofact (filter (pass fr) (out_view (rs_keys rs) (f_start fr))) [] []) as [Hn _].
    eapply NoDup_map_inv. exact Hn. }
  destruct (follow_spec_partition L _ HL HndE fuel None (or_introl eq_refl) Hfuel) as [Hc Hsz].
  split.
  - rewrite <- concat_map, Hc. reflexivity.
  - apply Forall_map. eapply Forall_impl; [|exact Hsz]. cbv beta. intros pg H. unfold len in *. now rewrite map_length.
Qed.

(** ... and incoming with the repaired scan *)
Theorem incoming_paging fl dm ops rs q fr L fuel :
  reachable fl dm ops rs -> q_inv1 q = false -> f_inv fr = true -> f_key fr = None -> 0 < L ->
  (length (fst (related_in_fixed (rs_keys rs) fr 0)) < fuel)%nat ->
  let pages := follow q (rs_keys rs) [fr] [L] 0 fuel in
  concat pages = map RDef (fst (related_in_fixed (rs_keys rs) fr 0))
  /\ Forall (fun pg => len pg <= L) pages.
Proof.
  intros Hr Hq Hinv Hkey HL Hfuel. destruct (reachable_inv _ _ _ _ Hr) as [Hnd _].
  assert (HU : fst (related_in_fixed (rs_keys rs) fr 0) = E_in (rs_keys rs) fr).
  { rewrite (related_in_fixed_page _ _ 0 Hnd) by (left; exact Hkey). rewrite Hkey. cbn [rest].
    generalize (E_in (rs_keys rs) fr). intros E.
    assert (G : forall E res c, page_take 0 E res c = (res ++ E, None)).
    { induction E0 as [|k E0 IH]; intros res c; cbn [page_take]; [now rewrite app_nil_r|].
      rewrite at_limit_0, IH, <- app_assoc. reflexivity. }
    now rewrite G. }
  rewrite HU in *.
  pose proof (follow_in_pages q (rs_keys rs) fr L Hnd HL Hq Hinv Hkey fuel 0%nat None (or_introl eq_refl)) as Hf.
  cbn [with_start] in Hf. cbv zeta. rewrite Hf.
  assert (HndE : NoDup (E_in (rs_keys rs) fr)).
  { unfold E_in. pose proof (out_emits_nodup ifact (filter (pass fr) (in_view_desc (rs_keys rs) (f_start fr))) [] []) as [Hn _].
    eapply NoDup_map_inv. exact Hn. }
  destruct (follow_spec_partition L _ HL HndE fuel None (or_introl eq_refl) Hfuel) as [Hc Hsz].
  split.
  - rewrite <- concat_map, Hc. reflexivity.
  - apply Forall_map. eapply Forall_impl; [|exact Hsz]. cbv beta. intros pg H. unfold len in *. now rewrite map_length.
Qed.
