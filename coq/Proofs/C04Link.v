(** C04: from agreement with the model to the WHOLE executable spec on the implementation's observations.
    Part 1: what a model state's dump looks like under the gap-tolerant invariant, and how the spec's
    clauses transfer along the evaluator's comparisons. *)
From Coq Require Import List ZArith NArith Bool Lia Permutation.
From DH Require Import Lib.CheckLib Model.Store Model.FeedSpec Model.Crash Proofs.StoreProofs Proofs.StoreReaders
     Proofs.C01Proofs Proofs.CrashStore Proofs.CrashProofs Check.StoreCheck Proofs.C02CheckProofs Proofs.C01CheckProofs
     Check.C04Check Proofs.C04CheckProofs Proofs.CrashCounter Proofs.CrashCount.
Import ListNotations.
Open Scope Z_scope.

(** ** readers of a dataset under [dinvg] *)
Lemma emit_flag_g clk d E1 e E2 :
  dinvg clk d -> d_entries d = E1 ++ e :: E2 ->
  match assoc (en_id e) (d_latest d) with
  | Some (t, b) => Z.eqb t (en_time e) && Z.eqb b (en_bidx e)
  | None => false
  end = is_last_occ (efeed E2) (en_id e).
Proof.
  intros Hd HE. rewrite (g_ptr _ _ Hd), HE, last_entry_app. cbn [last_entry].
  rewrite Z.eqb_refl.
  destruct (last_entry E2 (en_id e)) as [x|] eqn:El.
  - cbn [option_map ekey].
    assert (Hf : is_last_occ (efeed E2) (en_id e) = false).
    { destruct (is_last_occ (efeed E2) (en_id e)) eqn:E; [|reflexivity].
      apply is_last_occ_last_entry in E. congruence. }
    rewrite Hf.
    destruct (last_entry_In _ _ _ El) as [Hin _].
    pose proof (g_sorted _ _ Hd) as Hs. rewrite HE in Hs.
    destruct (ksorted_app_inv _ _ Hs) as [Hs2 _]. cbn [ksorted] in Hs2. destruct Hs2 as [Hall _].
    rewrite Forall_forall in Hall. specialize (Hall x Hin). unfold klt in Hall.
    destruct (Z.eqb_spec (en_time x) (en_time e)); destruct (Z.eqb_spec (en_bidx x) (en_bidx e));
      cbn [andb]; try reflexivity. exfalso. lia.
  - cbn [option_map ekey]. rewrite !Z.eqb_refl. cbn [andb].
    symmetry. now apply is_last_occ_last_entry.
Qed.

Definition emit_latest (latest : list (uri * (Z * Z))) (e : entry) : bool :=
  match assoc (en_id e) latest with
  | Some (t, b) => Z.eqb t (en_time e) && Z.eqb b (en_bidx e)
  | None => false
  end.

Lemma changes_loop_nolimit latest l : forall p ls f,
  fst (fst (changes_loop latest true 0 l p ls f)) = filter (emit_latest latest) l.
Proof.
  induction l as [|e l IH]; intros p ls f; cbn [changes_loop filter]; [reflexivity|].
  fold (emit_latest latest e). cbn [Z.ltb Z.compare andb].
  specialize (IH (if emit_latest latest e then p + 1 else p) (en_seq e) true).
  destruct (changes_loop latest true 0 l (if emit_latest latest e then p + 1 else p) (en_seq e) true) as [[out ls'] f'].
  cbn [fst] in *. destruct (emit_latest latest e); cbn [fst]; now rewrite IH.
Qed.

Lemma filter_emit_view clk d : dinvg clk d -> forall l E1, d_entries d = E1 ++ l ->
  map StoreCheck.entry_oent (filter (emit_latest (d_latest d)) l) = view_of (efeed l).
Proof.
  intros Hd. induction l as [|e l IH]; intros E1 HE; [reflexivity|].
  cbn [filter efeed map view_of]. fold (efeed l).
  unfold emit_latest at 1. rewrite (emit_flag_g clk d E1 e l Hd HE).
  assert (HE' : d_entries d = (E1 ++ [e]) ++ l) by (rewrite <- app_assoc; exact HE).
  destruct (is_last_occ (efeed l) (en_id e)); cbn [map]; [f_equal|]; apply (IH _ HE').
Qed.

(** the latest-only feed read from 0 without limit is the latest view of the feed *)
Lemma model_latest_view clk d : dinvg clk d ->
  map StoreCheck.entry_oent (fst (changes d 0 0 true)) = view_of (feed_of d).
Proof.
  intros Hd. unfold changes.
  rewrite (filter_all (fun e => 0 <=? en_seq e) (d_entries d)).
  2:{ eapply Forall_impl; [|exact (g_below _ _ Hd)]. cbv beta. intros e He. apply Z.leb_le. lia. }
  pose proof (changes_loop_nolimit (d_latest d) (d_entries d) 0 0 false) as H.
  destruct (changes_loop (d_latest d) true 0 (d_entries d) 0 0 false) as [[out ls] f]. cbn [fst] in *.
  rewrite H. apply (filter_emit_view clk d Hd (d_entries d) []). reflexivity.
Qed.

Lemma listing_all_In_g clk d k c : dinvg clk d ->
  In (k, c) (listing_all d) <-> current_of (feed_of d) k = Some c.
Proof.
  intros Hd. unfold listing_all, page_oents. rewrite in_flat_map. split.
  - intros [[k' oc] [Hin Hy]]. apply in_map_iff in Hin. destruct Hin as [k'' [[= <- <-] Hk]].
    cbn [fst snd] in Hy.
    destruct (stored_latest d k'') as [c'|] eqn:Es; [|contradiction]. destruct Hy as [[= <- <-]|[]].
    rewrite <- (dinvg_latest _ _ Hd). exact Es.
  - intros Hc. exists (k, Some c). split.
    + apply in_map_iff. exists k. split; [f_equal; rewrite (dinvg_latest _ _ Hd); exact Hc|].
      apply latest_keys_In, assoc_In_fst. rewrite (g_ptr _ _ Hd).
      unfold feed_of in Hc. fold (efeed (d_entries d)) in Hc. rewrite current_of_last_entry in Hc.
      destruct (last_entry (d_entries d) k); cbn [option_map] in *; congruence.
    + cbn [fst snd]. now left.
Qed.

(** the unpaged listing of the model is the id-sorted latest view of the feed *)
Lemma model_listing_view clk d : dinvg clk d ->
  page_oents (listing_page d None 0) = osort (view_of (feed_of d)).
Proof.
  intros Hd. unfold listing_page. rewrite take_page_all by lia. fold (listing_all d).
  symmetry. apply osorted_unique.
  - apply osort_sorted, view_of_NoDup.
  - apply (page_oents_sorted d (latest_keys d) (latest_keys_sorted d)).
  - intros [k c]. rewrite osort_In, view_of_In. symmetry. now apply (listing_all_In_g clk).
Qed.

(** ** the spec's functions respect the evaluator's equivalence of observed entities *)
Lemma is_last_occ_eqv f : forall g id, oents_eqb f g = true -> is_last_occ f id = is_last_occ g id.
Proof.
  induction f as [|[i c] f IH]; intros [|[j c'] g] id; cbn [list_eqb oents_eqb is_last_occ]; try discriminate; [reflexivity|].
  unfold oents_eqb. cbn [list_eqb]. unfold oent_eqb at 1. cbn [fst snd]. rewrite !andb_true_iff, Z.eqb_eq.
  intros [[-> _] H]. f_equal. now apply IH.
Qed.

Lemma view_of_eqv f : forall g, oents_eqb f g = true -> oents_eqb (view_of f) (view_of g) = true.
Proof.
  induction f as [|[i c] f IH]; intros [|[j c'] g]; cbn [view_of]; unfold oents_eqb; cbn [list_eqb]; try discriminate; [reflexivity|].
  rewrite andb_true_iff. intros [Hx H]. fold (oents_eqb f g) in H.
  assert (Hi : i = j). { unfold oent_eqb in Hx. cbn [fst] in Hx. apply andb_true_iff in Hx. now apply Z.eqb_eq. }
  subst j. rewrite (is_last_occ_eqv f g i H).
  destruct (is_last_occ g i); [cbn [list_eqb]; rewrite Hx; now apply IH | now apply IH].
Qed.

Lemma oinsert_eqv x y : oent_eqb x y = true -> forall l1 l2, oents_eqb l1 l2 = true ->
  oents_eqb (oinsert x l1) (oinsert y l2) = true.
Proof.
  intros Hxy. assert (Hf : fst x = fst y). { unfold oent_eqb in Hxy. apply andb_true_iff in Hxy. now apply Z.eqb_eq. }
  induction l1 as [|a l1 IH]; intros [|b l2]; unfold oents_eqb; cbn [list_eqb oinsert]; try discriminate.
  - intros _. now rewrite Hxy.
  - rewrite andb_true_iff. intros [Hab H]. fold (oents_eqb l1 l2) in H.
    assert (Hg : fst a = fst b). { unfold oent_eqb in Hab. apply andb_true_iff in Hab. now apply Z.eqb_eq. }
    rewrite Hf, Hg. destruct (fst y <=? fst b); cbn [list_eqb].
    + rewrite Hxy, Hab. exact H.
    + rewrite Hab. now apply IH.
Qed.

Lemma osort_eqv l1 : forall l2, oents_eqb l1 l2 = true -> oents_eqb (osort l1) (osort l2) = true.
Proof.
  induction l1 as [|x l1 IH]; intros [|y l2]; unfold oents_eqb; cbn [list_eqb]; try discriminate; [reflexivity|].
  rewrite andb_true_iff. intros [Hxy H]. unfold osort. cbn [fold_right]. fold (osort l1) (osort l2).
  apply oinsert_eqv; [exact Hxy | now apply IH].
Qed.

Lemma oents_length a : forall b, oents_eqb a b = true -> length a = length b.
Proof.
  induction a as [|x a IH]; intros [|y b]; unfold oents_eqb; cbn [list_eqb length]; try discriminate; [reflexivity|].
  rewrite andb_true_iff. intros [_ H]. f_equal. now apply IH.
Qed.

Lemma oinsert_length x l : length (oinsert x l) = S (length l).
Proof. induction l as [|y l IH]; cbn [oinsert length]; [reflexivity|]. destruct (fst x <=? fst y); cbn [length]; [reflexivity | now rewrite IH]. Qed.
Lemma osort_length l : length (osort l) = length l.
Proof. induction l as [|x l IH]; [reflexivity|]. unfold osort. cbn [fold_right]. fold (osort l). now rewrite oinsert_length, IH. Qed.

(** ** clause: versions, change entries, latest feed and listing agree; positions below the sequence *)
Lemma strict_below E : forall lo hi, sseq E -> Forall (fun e => lo <= en_seq e < hi) E -> lo <= hi ->
  strictly_incr_below lo (map en_seq E) hi = true.
Proof.
  induction E as [|x E IH]; intros lo hi Hs Hb Hl; cbn [map strictly_incr_below]; [now apply Z.leb_le|].
  cbn [sseq] in Hs. destruct Hs as [Hx Hs]. inversion Hb as [|? ? Hbx Hb']; subst.
  apply andb_true_iff. split; [apply Z.leb_le; lia|].
  apply IH; [exact Hs | | lia].
  rewrite Forall_forall in *. intros y Hy. specialize (Hx y Hy). specialize (Hb' y Hy). lia.
Qed.

Lemma model_log_fst c ds : map fst (od_log (model_dsd c ds)) = map en_seq (d_entries (get_ds (cs_store c) ds)).
Proof. unfold model_dsd. cbn [od_log]. now rewrite map_map. Qed.
Lemma model_log_snd c ds : map snd (od_log (model_dsd c ds)) = feed_of (get_ds (cs_store c) ds).
Proof. unfold model_dsd, feed_of. cbn [od_log]. now rewrite map_map. Qed.

Lemma model_dsd_consistent clk c ds : dinvg clk (get_ds (cs_store c) ds) -> dsd_consistent (model_dsd c ds) = true.
Proof.
  intros Hd. unfold dsd_consistent. rewrite model_log_fst, model_log_snd.
  rewrite !andb_true_iff. repeat split.
  - apply strict_below; [exact (g_sseq _ _ Hd) | exact (g_below _ _ Hd) | exact (g_next _ _ Hd)].
  - unfold model_dsd. cbn [od_latest]. rewrite (model_latest_view clk _ Hd). apply oents_refl.
  - unfold model_dsd. cbn [od_listing]. rewrite (model_listing_view clk _ Hd).
    rewrite (osort_id (osort (view_of (feed_of (get_ds (cs_store c) ds))))); [apply oents_refl|].
    apply osort_sorted, view_of_NoDup.
Qed.

Lemma full_eqv_parts a b : full_eqv a b = true ->
  od_ds a = od_ds b /\ oents_eqb (map snd (od_log a)) (map snd (od_log b)) = true
  /\ oents_eqb (od_latest a) (od_latest b) = true
  /\ oents_eqb (osort (od_listing a)) (osort (od_listing b)) = true
  /\ od_dseq a = od_dseq b /\ od_items a = od_items b /\ map fst (od_log a) = map fst (od_log b).
Proof.
  unfold full_eqv, data_eqv. rewrite !andb_true_iff, !Z.eqb_eq, zlist_eqb_eq. tauto.
Qed.

Lemma dsd_consistent_transfer a b : full_eqv a b = true -> dsd_consistent a = true -> dsd_consistent b = true.
Proof.
  intros Hf. destruct (full_eqv_parts a b Hf) as (_ & Hlog & Hlat & Hlist & Hseq & _ & Hpos).
  unfold dsd_consistent. rewrite !andb_true_iff. intros [[H1 H2] H3]. rewrite <- Hpos, <- Hseq. repeat split.
  - exact H1.
  - eapply oents_trans; [apply oents_sym, view_of_eqv; exact Hlog|]. eapply oents_trans; [exact H2 | exact Hlat].
  - eapply oents_trans; [apply oents_sym, osort_eqv, view_of_eqv; exact Hlog|].
    eapply oents_trans; [exact H3 | exact Hlist].
Qed.

Lemma list_eqb_map_forall {A} (R : A -> A -> bool) (f : A -> A) l :
  list_eqb R (map f l) l = true -> forall x, In x l -> R (f x) x = true.
Proof.
  induction l as [|y l IH]; cbn [map list_eqb]; intros H x Hx; [contradiction|].
  apply andb_true_iff in H. destruct H as [H1 H2]. destruct Hx as [<-|Hx]; [exact H1 | now apply IH].
Qed.

Lemma dump_matches_parts c o : dump_matches c o = true ->
  cs_idp c = o_idp o /\ cs_next c = o_next o
  /\ zsort (map fst (cs_ids c)) = zsort (map fst (o_ids o))
  /\ zsort (map snd (cs_ids c)) = zsort (map snd (o_ids o))
  /\ (forall x, In x (o_ds o) -> full_eqv (model_dsd c (od_ds x)) x = true).
Proof.
  unfold dump_matches. rewrite !andb_true_iff, !Z.eqb_eq, !zlist_eqb_eq. intros [[[[H1 H2] H3] H4] H5].
  repeat split; try assumption. now apply list_eqb_map_forall.
Qed.

Lemma dump_consistent c o : sinvg (cs_store c) -> dump_matches c o = true -> forallb dsd_consistent (o_ds o) = true.
Proof.
  intros Hs Hm. destruct (dump_matches_parts c o Hm) as (_ & _ & _ & _ & H).
  apply forallb_forall. intros x Hx. eapply dsd_consistent_transfer; [apply (H x Hx)|].
  apply (model_dsd_consistent (s_clock (cs_store c))). apply Hs.
Qed.

(** ** clause: the id table is one-to-one and below the next id *)
Lemma zinsert_perm x l : Permutation (zinsert x l) (x :: l).
Proof.
  induction l as [|y l IH]; cbn [zinsert]; [reflexivity|].
  destruct (x <=? y); [reflexivity|]. rewrite IH. apply perm_swap.
Qed.
Lemma zsort_perm l : Permutation (zsort l) l.
Proof. induction l as [|x l IH]; [reflexivity|]. unfold zsort. cbn [fold_right]. fold (zsort l). rewrite zinsert_perm. now constructor. Qed.

Lemma zsort_eq_perm a b : zsort a = zsort b -> Permutation a b.
Proof. intros H. rewrite <- (zsort_perm a), <- (zsort_perm b), H. reflexivity. Qed.

Lemma nodupb_iff l : nodupb l = true <-> NoDup l.
Proof.
  induction l as [|x l IH]; cbn [nodupb]; [split; [constructor | reflexivity]|].
  rewrite andb_true_iff, negb_true_iff, IH. split.
  - intros [H1 H2]. constructor; [|exact H2]. intros Hin. apply existsb_eqb_In in Hin. congruence.
  - intros H. inversion H as [|? ? Hx Hl]; subst. split; [|exact Hl].
    destruct (existsb (Z.eqb x) l) eqn:E; [|reflexivity]. apply existsb_eqb_In in E. contradiction.
Qed.

(** the invariant plus "every id handed out since the start lies at or beyond the first next id" *)
Definition cinvlo (n0 : Z) (c : cstate) : Prop :=
  cinv c /\ Forall (fun p : uri * Z => n0 <= snd p) (cs_ids c) /\ n0 <= cs_next c.

Lemma ids_consistent_transfer n0 c o : cinvlo n0 c -> dump_matches c o = true -> ids_consistent n0 o = true.
Proof.
  intros (Hc & Hlo & _) Hm. destruct (dump_matches_parts c o Hm) as (Hidp & Hnext & Hf & Hs & _).
  pose proof (zsort_eq_perm _ _ Hf) as Pf. pose proof (zsort_eq_perm _ _ Hs) as Ps.
  unfold ids_consistent. rewrite !andb_true_iff. repeat split.
  - apply nodupb_iff. eapply Permutation_NoDup; [exact Pf | apply (ci_fst _ Hc)].
  - apply nodupb_iff. eapply Permutation_NoDup; [exact Ps | apply (ci_snd _ Hc)].
  - apply forallb_forall. intros p Hp.
    assert (Hin : In (snd p) (map snd (cs_ids c))).
    { eapply Permutation_in; [apply Permutation_sym; exact Ps | now apply in_map]. }
    apply in_map_iff in Hin. destruct Hin as [q [Hq Hqin]].
    pose proof (ci_lt _ Hc) as Hlt. rewrite Forall_forall in Hlt, Hlo. specialize (Hlt q Hqin). specialize (Hlo q Hqin).
    rewrite <- Hnext. apply andb_true_iff. split; [apply Z.leb_le | apply Z.ltb_lt]; lia.
  - apply Z.leb_le. rewrite <- Hnext, <- Hidp. apply (ci_next _ Hc).
Qed.

(** ** clause: after the reopen everything only grows *)
Section Grow.
Variable cm : counter_mode.
Variable fl : eqflags.
Variable dm : dup_mode.

Lemma run_event_cinvlo n0 c e : wf_event e -> cinvlo n0 c -> cinvlo n0 (run_event cm fl dm c e).
Proof.
  intros Hwf (Hc & Hlo & Hn). split; [now apply run_event_cinv|].
  destruct (run_event_forward cm fl dm c e Hwf Hc) as (_ & _ & Hnx & asg & Ha & Hasg). cbv zeta in *.
  split; [|lia]. rewrite Ha. apply Forall_app. split; [|exact Hlo].
  eapply Forall_impl; [|exact Hasg]. cbv beta. intros; lia.
Qed.

Lemma run_events_cinvlo n0 es : forall c, Forall wf_event es -> cinvlo n0 c -> cinvlo n0 (run_events cm fl dm es c).
Proof.
  induction es as [|e es IH]; intros c Hwf Hc; [exact Hc|].
  inversion Hwf; subst. cbn [run_events fold_left]. apply IH; [assumption|]. now apply run_event_cinvlo.
Qed.

Lemma run_events_grow es : forall c, Forall wf_event es -> cinv c ->
  let c' := run_events cm fl dm es c in
  (forall ds, exists p, d_entries (get_ds (cs_store c') ds) = d_entries (get_ds (cs_store c) ds) ++ p
                        /\ Forall (fun x => d_next (get_ds (cs_store c) ds) <= en_seq x) p)
  /\ (exists asg, cs_ids c' = asg ++ cs_ids c /\ Forall (fun p : uri * Z => cs_next c <= snd p) asg).
Proof.
  induction es as [|e es IH]; intros c Hwf Hc; cbv zeta.
  - cbn [run_events fold_left]. split.
    + intros ds. exists []. rewrite app_nil_r. split; [reflexivity | constructor].
    + exists []. split; [reflexivity | constructor].
  - inversion Hwf as [|? ? He Hes]; subst. cbn [run_events fold_left]. fold (run_events cm fl dm es (run_event cm fl dm c e)).
    destruct (run_event_forward cm fl dm c e He Hc) as (F1 & F2 & F3 & asg1 & Ha1 & Hb1). cbv zeta in *.
    destruct (IH (run_event cm fl dm c e) Hes (run_event_cinv cm fl dm c e He Hc)) as (G1 & asg2 & Ha2 & Hb2). cbv zeta in *.
    split.
    + intros ds. destruct (F1 ds) as [p1 [Hp1 Hq1]]. destruct (G1 ds) as [p2 [Hp2 Hq2]].
      exists (p1 ++ p2). split; [rewrite Hp2, Hp1; now rewrite app_assoc|].
      apply Forall_app. split; [exact Hq1|]. eapply Forall_impl; [|exact Hq2]. cbv beta. intros x Hx. specialize (F2 ds). lia.
    + exists (asg2 ++ asg1). split; [rewrite Ha2, Ha1; now rewrite app_assoc|].
      apply Forall_app. split; [|exact Hb1]. eapply Forall_impl; [|exact Hb2]. cbv beta. intros; lia.
Qed.
End Grow.

Lemma is_prefix_app a b : is_prefix a (a ++ b) = true.
Proof. induction a as [|x a IH]; cbn [is_prefix app]; [reflexivity | now rewrite Z.eqb_refl, IH]. Qed.

Lemma skipn_length_app {A} (a b : list A) : skipn (length a) (a ++ b) = b.
Proof. induction a as [|x a IH]; cbn [length skipn app]; [reflexivity | exact IH]. Qed.

Lemma grows_pos_transfer c2 c3 x y :
  od_ds x = od_ds y ->
  (exists p, d_entries (get_ds (cs_store c3) (od_ds x)) = d_entries (get_ds (cs_store c2) (od_ds x)) ++ p
             /\ Forall (fun e => d_next (get_ds (cs_store c2) (od_ds x)) <= en_seq e) p) ->
  full_eqv (model_dsd c2 (od_ds x)) x = true -> full_eqv (model_dsd c3 (od_ds y)) y = true ->
  grows_pos x y = true.
Proof.
  intros Hds [p [Hp Hq]] Hx Hy.
  destruct (full_eqv_parts _ _ Hx) as (_ & _ & _ & _ & Hsx & _ & Hpx).
  destruct (full_eqv_parts _ _ Hy) as (_ & _ & _ & _ & _ & _ & Hpy).
  rewrite model_log_fst in Hpx, Hpy. rewrite <- Hds, Hp, map_app in Hpy.
  unfold grows_pos. rewrite !andb_true_iff. repeat split.
  - now apply Z.eqb_eq.
  - rewrite <- Hpx, <- Hpy. apply is_prefix_app.
  - rewrite <- Hpy.
    assert (Hl : length (od_log x) = length (map en_seq (d_entries (get_ds (cs_store c2) (od_ds x))))).
    { rewrite Hpx. now rewrite map_length. }
    rewrite Hl, skipn_length_app. apply forallb_forall. intros i Hi. apply in_map_iff in Hi. destruct Hi as [e [<- He]].
    rewrite Forall_forall in Hq. specialize (Hq e He). apply Z.leb_le. rewrite <- Hsx. unfold model_dsd. cbn [od_dseq]. exact Hq.
Qed.

Lemma grows_pos_list c2 c3 :
  (forall ds, exists p, d_entries (get_ds (cs_store c3) ds) = d_entries (get_ds (cs_store c2) ds) ++ p
                        /\ Forall (fun e => d_next (get_ds (cs_store c2) ds) <= en_seq e) p) ->
  forall la lf, map od_ds la = map od_ds lf ->
  (forall x, In x la -> full_eqv (model_dsd c2 (od_ds x)) x = true) ->
  (forall y, In y lf -> full_eqv (model_dsd c3 (od_ds y)) y = true) ->
  list_eqb grows_pos la lf = true.
Proof.
  intros Hext. induction la as [|x la IH]; intros [|y lf] Hn Hx Hy; cbn [map] in Hn; try discriminate; [reflexivity|].
  injection Hn as Hd Hn. cbn [list_eqb]. apply andb_true_iff. split.
  - apply (grows_pos_transfer c2 c3 x y Hd (Hext (od_ds x))); [apply Hx | apply Hy]; now left.
  - apply IH; [exact Hn | intros; apply Hx; now right | intros; apply Hy; now right].
Qed.

Lemma memb_In x l : memb x l = true <-> In x l.
Proof. apply existsb_eqb_In. Qed.

Lemma ids_grow_transfer c2 c3 a f asg :
  cs_ids c3 = asg ++ cs_ids c2 -> Forall (fun p : uri * Z => cs_next c2 <= snd p) asg ->
  dump_matches c2 a = true -> dump_matches c3 f = true -> ids_grow a f = true.
Proof.
  intros Hids Hasg Ha Hf.
  destruct (dump_matches_parts c2 a Ha) as (_ & Hnext & Hfa & Hsa & _).
  destruct (dump_matches_parts c3 f Hf) as (_ & _ & Hff & Hsf & _).
  pose proof (zsort_eq_perm _ _ Hfa) as Pfa. pose proof (zsort_eq_perm _ _ Hsa) as Psa.
  pose proof (zsort_eq_perm _ _ Hff) as Pff. pose proof (zsort_eq_perm _ _ Hsf) as Psf.
  unfold ids_grow. rewrite !andb_true_iff. repeat split; apply forallb_forall.
  - intros u Hu. apply memb_In. eapply Permutation_in; [exact Pff|]. rewrite Hids, map_app. apply in_app_iff. right.
    eapply Permutation_in; [apply Permutation_sym; exact Pfa | exact Hu].
  - intros i Hi. apply memb_In. eapply Permutation_in; [exact Psf|]. rewrite Hids, map_app. apply in_app_iff. right.
    eapply Permutation_in; [apply Permutation_sym; exact Psa | exact Hi].
  - intros i Hi. apply orb_true_iff.
    assert (Hin : In i (map snd (cs_ids c3))) by (eapply Permutation_in; [apply Permutation_sym; exact Psf | exact Hi]).
    rewrite Hids, map_app in Hin. apply in_app_iff in Hin. destruct Hin as [Hin|Hin].
    + right. apply in_map_iff in Hin. destruct Hin as [q [<- Hq]]. rewrite Forall_forall in Hasg. specialize (Hasg q Hq).
      apply Z.leb_le. rewrite <- Hnext. exact Hasg.
    + left. apply memb_In. eapply Permutation_in; [exact Psa | exact Hin].
Qed.

(** ** every candidate of the evaluator satisfies the invariant *)
Lemma cinvlo_fields n0 c c' :
  cs_store c' = cs_store c -> cs_ids c' = cs_ids c -> cs_idp c' = cs_idp c -> cs_next c' = cs_next c ->
  cinvlo n0 c -> cinvlo n0 c'.
Proof.
  intros H1 H2 H3 H4 ([A B C D E] & F & G). split; [|split].
  - constructor; rewrite ?H1, ?H2, ?H3, ?H4; assumption.
  - now rewrite H2.
  - now rewrite H4.
Qed.

Lemma after_commit_fields v c o done :
  let r := crash_at (v_cm v) (v_fl v) (v_dm v) (S (commit_index (v_cm v) (v_fl v) (v_dm v) c o)) c o in
  cs_store (after_commit v c o done) = cs_store r /\ cs_ids (after_commit v c o done) = cs_ids r
  /\ cs_idp (after_commit v c o done) = cs_idp r /\ cs_next (after_commit v c o done) = cs_next r.
Proof.
  cbv zeta. unfold after_commit, crash_at. rewrite apply_steps_app.
  set (base := apply_steps c (firstn (S (commit_index (v_cm v) (v_fl v) (v_dm v) c o)) (fst (steps (v_cm v) (v_fl v) (v_dm v) c o)))).
  set (cs := filter _ _).
  assert (Hcs : Forall counter_only cs).
  { apply Forall_forall. intros s Hs. apply filter_In in Hs. destruct Hs as [_ Hs]. destruct s; cbn in Hs; try discriminate. exact I. }
  destruct (counter_steps_fields cs base Hcs) as (A & B & C & D).
  cbn [reopen cs_store cs_ids cs_idp cs_next]. rewrite A, B, C. repeat split.
Qed.

Lemma candidates_cinvlo n0 v c1 cr c2 : cinvlo n0 c1 -> wf_crash cr -> In c2 (candidates v c1 cr) -> cinvlo n0 c2.
Proof.
  intros Hc Hwf Hin.
  assert (Hcrash : forall o k, wf_wop o -> cinvlo n0 (crash_at (v_cm v) (v_fl v) (v_dm v) k c1 o)).
  { intros o k Ho. apply (run_event_cinvlo (v_cm v) (v_fl v) (v_dm v) n0 c1 (ECrash o k) Ho Hc). }
  assert (Hafter : forall o done, wf_wop o -> cinvlo n0 (after_commit v c1 o done)).
  { intros o done Ho. destruct (after_commit_fields v c1 o done) as (A & B & C & D). cbv zeta in *.
    eapply cinvlo_fields; [exact A | exact B | exact C | exact D | now apply Hcrash]. }
  assert (Hrestart : cinvlo n0 (reopen (close c1))).
  { apply (run_event_cinvlo (v_cm v) (v_fl v) (v_dm v) n0 c1 ERestart I Hc). }
  destruct cr as [|o phase done|alts]; cbn [candidates crash_ops] in *.
  - destruct Hin as [<-|[]]. exact Hrestart.
  - inversion Hwf as [|? ? Ho _]; subst. destruct (phase <? 2); destruct Hin as [<-|[]]; [now apply Hcrash | now apply Hafter].
  - destruct alts as [|o alts].
    + destruct Hin as [<-|[<-|[]]]; [|exact Hrestart].
      change (reopen c1) with (crash_at (v_cm v) (v_fl v) (v_dm v) 0 c1 (WTxn [])). apply Hcrash. cbn. constructor.
    + apply in_flat_map in Hin. destruct Hin as [o' [Ho' Hin]].
      unfold wf_crash in Hwf. cbn [crash_ops] in Hwf. rewrite Forall_forall in Hwf. specialize (Hwf o' Ho').
      apply in_app_iff in Hin. destruct Hin as [Hin|Hin]; apply in_map_iff in Hin; destruct Hin as [z [<- _]];
        [now apply Hcrash | now apply Hafter].
Qed.

(** ** the link, core spec *)
Definition wf_tcase_full (t : tcase) : Prop :=
  wf_tcase t /\ Forall wf_wop (t_tail t) /\ map od_ds (o_ds (t_after t)) = map od_ds (o_ds (t_final t)).

Lemma wf_tail_events l : Forall wf_wop l -> Forall wf_event (map EOp l).
Proof. induction 1; cbn [map]; constructor; assumption. Qed.

(** agreement gives a model state for the recovered dump and one for the final dump *)
Lemma agree_states v t : wf_tcase_full t -> agree v t = true ->
  exists c2 c3, In c2 (candidates v (run_events (v_cm v) (v_fl v) (v_dm v) (t_prefix t) (cstate0 (t_next0 t) (t_idp0 t))) (t_crash t))
                /\ cinvlo (t_next0 t) c2 /\ c3 = run_events (v_cm v) (v_fl v) (v_dm v) (map EOp (t_tail t)) c2
                /\ cinvlo (t_next0 t) c3
                /\ dump_matches c2 (t_after t) = true /\ dump_matches c3 (t_final t) = true.
Proof.
  intros ([Hn Hp Hcr HnA HnB] & Htail & HnF) Hag. unfold agree in Hag. cbv zeta in Hag.
  set (c1 := run_events (v_cm v) (v_fl v) (v_dm v) (t_prefix t) (cstate0 (t_next0 t) (t_idp0 t))) in *.
  assert (Hc1 : cinvlo (t_next0 t) c1).
  { apply run_events_cinvlo; [exact Hp|]. split; [now apply cinv0|]. cbn [cstate0 cs_ids cs_next]. split; [constructor | lia]. }
  rewrite !andb_true_iff in Hag. destruct Hag as [_ HC].
  apply existsb_exists in HC. destruct HC as [c2 [Hin Hm]]. apply andb_true_iff in Hm. destruct Hm as [Hm2 Hm3].
  pose proof (candidates_cinvlo _ v c1 (t_crash t) c2 Hc1 Hcr Hin) as Hc2.
  exists c2, (run_events (v_cm v) (v_fl v) (v_dm v) (map EOp (t_tail t)) c2).
  split; [exact Hin|]. split; [exact Hc2|]. split; [reflexivity|].
  split; [apply (run_events_cinvlo _ _ _ _ _ _ (wf_tail_events _ Htail) Hc2)|]. split; assumption.
Qed.

Theorem agree_implies_spec_core v t : wf_tcase_full t -> agree v t = true ->
  ids_stable (t_after t) (t_final t) = true -> spec_core t = true.
Proof.
  intros Hwf Hag Hst. pose proof Hwf as (Hwf0 & Htail & HnF).
  destruct (agree_states v t Hwf Hag) as (c2 & c3 & _ & Hc2 & -> & Hc3 & Hm2 & Hm3).
  destruct Hc2 as (Hi2 & Hlo2). destruct Hc3 as (Hi3 & Hlo3).
  destruct (run_events_grow (v_cm v) (v_fl v) (v_dm v) (map EOp (t_tail t)) c2 (wf_tail_events _ Htail) Hi2) as (Hext & asg & Hids & Hasg).
  cbv zeta in *.
  unfold spec_core. rewrite !andb_true_iff. repeat split.
  - now apply (agree_implies_atomic v t).
  - apply (dump_consistent c2); [apply (ci_store _ Hi2) | exact Hm2].
  - eapply dump_consistent; [apply (ci_store _ Hi3) | exact Hm3].
  - apply (ids_consistent_transfer _ c2); [split; assumption | exact Hm2].
  - eapply ids_consistent_transfer; [split; [exact Hi3 | exact Hlo3] | exact Hm3].
  - unfold grows. apply andb_true_iff. split.
    + destruct (dump_matches_parts _ _ Hm2) as (_ & _ & _ & _ & H2). destruct (dump_matches_parts _ _ Hm3) as (_ & _ & _ & _ & H3).
      eapply grows_pos_list; [exact Hext | exact HnF | exact H2 | exact H3].
    + eapply ids_grow_transfer; [exact Hids | exact Hasg | exact Hm2 | exact Hm3].
  - exact Hst.
Qed.

(** ** clause: the items counter is the number of entities (repaired counter mode) *)
Lemma cnt_ok_fields c c' : cs_store c' = cs_store c -> cs_items c' = cs_items c -> cnt_ok c -> cnt_ok c'.
Proof. intros H1 H2 H ds. unfold items_of. rewrite H1, H2. apply H. Qed.

Lemma no_counter_filter done l : Forall (fun s => ~ counter_only s) l -> forall n, filter (is_counter_of done) (skipn n l) = [].
Proof.
  intros H n. assert (H' : Forall (fun s => ~ counter_only s) (skipn n l)).
  { rewrite <- (firstn_skipn n l) in H. now apply Forall_app in H. }
  induction H' as [|s l' Hs _ IH]; [reflexivity|]. cbn [filter]. destruct s; cbn [is_counter_of]; try exact IH. exfalso. apply Hs. exact I.
Qed.

Lemma after_commit_in_data v c o done : v_cm v = CounterInData ->
  after_commit v c o done = crash_at (v_cm v) (v_fl v) (v_dm v) (S (commit_index (v_cm v) (v_fl v) (v_dm v) c o)) c o.
Proof.
  intros Hcm. unfold after_commit, crash_at. rewrite no_counter_filter; [now rewrite app_nil_r|].
  rewrite Hcm, steps_eq. cbn [fst]. change (post_of CounterInData c o) with (@nil dstep).
  pose proof (pre_seq_only (cs_ids c) (cs_store c) (st'_of (v_fl v) (v_dm v) c o) (op_sets o) (v0 c)) as Hso.
  fold (pre_pair (v_fl v) (v_dm v) c o) in Hso. fold (pre_of (v_fl v) (v_dm v) c o) in Hso.
  apply Forall_app. split.
  - eapply Forall_impl; [|exact Hso]. intros s Hs. destruct s; cbn in *; tauto.
  - repeat constructor; cbn; tauto.
Qed.

Lemma candidates_cnt_ok v c1 cr c2 : v_cm v = CounterInData -> cinv c1 -> cnt_ok c1 -> wf_crash cr ->
  In c2 (candidates v c1 cr) -> cnt_ok c2.
Proof.
  intros Hcm Hc Hok Hwf Hin.
  assert (Hcrash : forall o k, wf_wop o -> cnt_ok (crash_at (v_cm v) (v_fl v) (v_dm v) k c1 o)).
  { intros o k Ho. rewrite Hcm. now apply crash_cnt_ok. }
  assert (Hafter : forall o done, wf_wop o -> cnt_ok (after_commit v c1 o done)).
  { intros o done Ho. rewrite (after_commit_in_data v c1 o done Hcm). now apply Hcrash. }
  assert (Hre : forall c, cnt_ok c -> cnt_ok (reopen c)) by (intros c H ds; apply H).
  assert (Hcl : forall c, cnt_ok c -> cnt_ok (close c)) by (intros c H ds; apply H).
  destruct cr as [|o phase done|alts]; cbn [candidates crash_ops] in *.
  - destruct Hin as [<-|[]]. now apply Hre, Hcl.
  - inversion Hwf as [|? ? Ho _]; subst. destruct (phase <? 2); destruct Hin as [<-|[]]; [now apply Hcrash | now apply Hafter].
  - destruct alts as [|o alts].
    + destruct Hin as [<-|[<-|[]]]; [now apply Hre | now apply Hre, Hcl].
    + apply in_flat_map in Hin. destruct Hin as [o' [Ho' Hin]].
      unfold wf_crash in Hwf. cbn [crash_ops] in Hwf. rewrite Forall_forall in Hwf. specialize (Hwf o' Ho').
      apply in_app_iff in Hin. destruct Hin as [Hin|Hin]; apply in_map_iff in Hin; destruct Hin as [z [<- _]];
        [now apply Hcrash | now apply Hafter].
Qed.

Lemma counter_ok_transfer c o : sinvg (cs_store c) -> cnt_ok c -> dump_matches c o = true -> counter_ok o = true.
Proof.
  intros Hs Hok Hm. destruct (dump_matches_parts c o Hm) as (_ & _ & _ & _ & H).
  unfold counter_ok. apply forallb_forall. intros x Hx.
  destruct (full_eqv_parts _ _ (H x Hx)) as (_ & _ & _ & Hlist & _ & Hitems & _).
  apply Z.eqb_eq. rewrite <- Hitems. unfold model_dsd at 1. cbn [od_items]. rewrite (Hok (od_ds x)).
  unfold nents. f_equal.
  apply oents_length in Hlist. rewrite !osort_length in Hlist. rewrite <- Hlist.
  unfold model_dsd. cbn [od_listing]. rewrite (model_listing_view (s_clock (cs_store c)) _ (Hs (od_ds x))).
  now rewrite osort_length.
Qed.

(** *** the link, whole spec: agreement with a model variant whose counter is written by the data transaction
    (in particular the fully repaired [v_fixed]) implies the WHOLE executable spec on the implementation's
    observations, given the one clause that compares two observed id tables with each other *)
Theorem agree_implies_spec_ok v t : v_cm v = CounterInData -> wf_tcase_full t -> agree v t = true ->
  ids_stable (t_after t) (t_final t) = true -> spec_ok t = true.
Proof.
  intros Hcm Hwf Hag Hst. unfold spec_ok. rewrite (agree_implies_spec_core v t Hwf Hag Hst). cbn [andb].
  pose proof Hwf as ([Hn Hp Hcr HnA HnB] & Htail & HnF).
  destruct (agree_states v t Hwf Hag) as (c2 & c3 & Hin & Hc2 & -> & Hc3 & Hm2 & Hm3).
  set (c1 := run_events (v_cm v) (v_fl v) (v_dm v) (t_prefix t) (cstate0 (t_next0 t) (t_idp0 t))) in *.
  assert (Hi1 : cinv c1) by (apply run_events_cinv; [exact Hp | now apply cinv0]).
  assert (Hok1 : cnt_ok c1).
  { subst c1. rewrite Hcm. apply run_events_cnt_ok; [exact Hp | now apply cinv0 | apply cnt_ok0]. }
  pose proof (candidates_cnt_ok v c1 (t_crash t) c2 Hcm Hi1 Hok1 Hcr Hin) as Hok2.
  destruct Hc2 as (Hi2 & _). destruct Hc3 as (Hi3 & _).
  assert (Hok3 : cnt_ok (run_events (v_cm v) (v_fl v) (v_dm v) (map EOp (t_tail t)) c2)).
  { rewrite Hcm. apply run_events_cnt_ok; [now apply wf_tail_events | exact Hi2 | exact Hok2]. }
  apply andb_true_iff. split.
  - apply (counter_ok_transfer c2); [apply (ci_store _ Hi2) | exact Hok2 | exact Hm2].
  - eapply counter_ok_transfer; [apply (ci_store _ Hi3) | exact Hok3 | exact Hm3].
Qed.

Corollary agree_fixed_implies_spec_ok t : wf_tcase_full t -> agree v_fixed t = true ->
  ids_stable (t_after t) (t_final t) = true -> spec_ok t = true.
Proof. apply agree_implies_spec_ok. reflexivity. Qed.
