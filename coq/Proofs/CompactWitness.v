(** Concrete histories for the refutation witnesses and non-vacuity examples of C12. *)
From Coq Require Import List ZArith Bool.
From DH Require Import Model.Store Model.FeedSpec Model.Compact.
Import ListNotations.
Open Scope Z_scope.

Definition mkc (del : bool) (p1 : Z) (refs : list (Z * rval)) : content :=
  {| c_del := del; c_props := [(1001, {| pv_code := p1; pv_obj := false |})]; c_refs := refs;
     c_len := 48 + (if del then 15 else 0) + 17 * Z.of_nat (length refs) |}.
Definition r_e2 : list (Z * rval) := [(2001, {| rv_arr := false; rv_tgts := [2] |})].
Definition cA := mkc false 1 r_e2.     (* {p1: "a"} with the reference r1 -> e2 *)
Definition cB := mkc false 2 r_e2.     (* {p1: "b"} with the same reference *)
Definition cA0 := mkc false 1 [].
Definition cC0 := mkc false 3 [].
Definition w1 (c : content) : wop := WBatch 1 [ {| e_id := 1; e_c := c |} ].
Definition w2 (c : content) : wop := WBatch 1 [ {| e_id := 1; e_c := c |}; {| e_id := 1; e_c := c |} ].

Definition fl_pinned : eqflags := {| f_lenkeys := true; f_objneq := true |}.

(** F12a: versions a, b, a of one entity, the reference kept across them *)
Definition st_aba : store := run_wops fl_pinned DupStoredAndLocal [w1 cA; w1 cB; w1 cA] store0.
Definition d_aba : dstate := get_ds st_aba 1.
(** the other direction: a, b, b (the pinned write path stores an in-batch repeat twice, F02a) *)
Definition st_abb : store := run_wops fl_pinned DupStoredAndLocal [w1 cA; w2 cB] store0.
Definition d_abb : dstate := get_ds st_abb 1.
(** F12b: a, a in the snapshot; a writer commits c before the only flush *)
Definition st_aa : store := run_wops fl_pinned DupStoredAndLocal [w2 cA0] store0.
Definition d_aa : dstate := get_ds st_aa 1.
Definition race_c : list ent := [ {| e_id := 1; e_c := cC0 |} ].

(** the same histories, repaired write path is irrelevant here: only compaction differs *)
Definition after (cf : cflags) (d : dstate) : dstate := compact_ds cf fl_pinned 1 [1] d.
Definition feed_ids (f : feed) : list (uri * Z) :=
  map (fun ic : uri * content => (fst ic, match c_props (snd ic) with (_, v) :: _ => pv_code v | [] => 0 end)) f.

(** a reachable state WITH duplicate versions under the repaired in-batch handling: a property holding a nested
    entity never compares equal on the pinned write path (F02b), so three identical posts give three versions;
    e2 is written in between *)
Definition cN : content :=
  {| c_del := false; c_props := [(1002, {| pv_code := 7; pv_obj := true |})]; c_refs := r_e2; c_len := 99 |}.
Definition w_e2 (c : content) : wop := WBatch 1 [ {| e_id := 2; e_c := c |} ].
Definition ops_nnn : list wop := [w1 cN; w_e2 cA0; w1 cN; w_e2 cC0; w1 cN].
Definition st_nnn : store := run_wops fl_pinned DupLocalElseStored ops_nnn store0.
Definition d_nnn : dstate := get_ds st_nnn 1.
Definition fl_fixed : eqflags := {| f_lenkeys := false; f_objneq := false |}.

(** F12c: one batch holding the same element (with a reference) twice; both versions carry the same recorded time *)
Definition d_aar : dstate := get_ds (run_wops fl_pinned DupStoredAndLocal [w2 cA] store0) 1.
