(** Proofs about the parser model (Model/Parser.v): no panic once type assertions are
    checked, the strict parser consumes exactly one bracket-matched element per entity,
    ParseStream(fixed) = the element-wise specification, fuel, and the round trip
    parse (serialize es) = es. *)
From Coq Require Import List String Ascii NArith Bool Lia PeanoNat.
From DH Require Import Model.Parser.
Import ListNotations.
Open Scope string_scope.

Ltac split_match :=
  match goal with
  | |- context [match ?x with _ => _ end] =>
    lazymatch x with
    | context [match _ with _ => _ end] => fail
    | _ => destruct x eqn:?
    end
  end.
Ltac split_match_hyp H :=
  match type of H with
  | context [match ?x with _ => _ end] =>
    lazymatch x with
    | context [match _ with _ => _ end] => fail
    | _ => destruct x eqn:?
    end
  end.

(** ** bracket matching *)
Lemma skip_shift : forall ts k rest, skip_n (S k) ts = Some rest ->
  forall d, skip_n (S k + S d) ts = skip_n (S d) rest.
Proof.
  induction ts as [|t ts IH]; intros k rest H d; [discriminate|].
  destruct t as [[]| | | |]; cbn [skip_n] in H |- *.
  - apply (IH (S k)) with (d := d) in H. exact H.
  - destruct k as [|k].
    + injection H as <-. reflexivity.
    + apply IH with (d := d) in H. exact H.
  - apply (IH (S k)) with (d := d) in H. exact H.
  - destruct k as [|k].
    + injection H as <-. reflexivity.
    + apply IH with (d := d) in H. exact H.
  - apply IH with (d := d) in H. exact H.
  - apply IH with (d := d) in H. exact H.
  - apply IH with (d := d) in H. exact H.
  - apply IH with (d := d) in H. exact H.
Qed.

Lemma skip_shift1 : forall ts rest, skip_n 1 ts = Some rest -> skip_n 2 ts = skip_n 1 rest.
Proof. intros ts rest H. exact (skip_shift ts 0 rest H 0). Qed.

Lemma skip_value_shift : forall ts rest, skip_value ts = Some rest ->
  forall d, skip_n (S d) ts = skip_n (S d) rest.
Proof.
  unfold skip_value. intros [|t ts] rest H d; [discriminate|].
  destruct t as [[]| | | |]; cbn [skip_n] in H |- *; try discriminate;
    try (injection H as <-; reflexivity).
  - apply skip_shift with (d := d) in H. exact H.
  - apply skip_shift with (d := d) in H. exact H.
Qed.

Lemma skip_n_shorter : forall ts d rest, skip_n d ts = Some rest -> (List.length rest < List.length ts)%nat.
Proof.
  induction ts as [|t ts IH]; intros d rest H; [discriminate|].
  destruct t as [[]| | | |]; cbn [skip_n] in H; cbn [List.length];
    repeat (match type of H with context [match ?x with _ => _ end] => destruct x end);
    try discriminate; try (injection H as <-; lia); try (apply IH in H; lia).
Qed.

Section Unfold.
  Variable v : variant.
  Variable ns : nsmap.
  Lemma entity_S f e isc ts : parse_entity v ns (S f) e isc ts =
    entity_body v ns (parse_entity v ns f) (parse_props v ns f) (parse_refs v ns f) e isc ts.
  Proof. reflexivity. Qed.
  Lemma props_S f acc ts : parse_props v ns (S f) acc ts =
    props_body v ns (parse_props v ns f) (parse_value v ns f) acc ts.
  Proof. reflexivity. Qed.
  Lemma value_S f ts : parse_value v ns (S f) ts =
    value_body v (parse_entity v ns f) (parse_value v ns f) (parse_array v ns f) ts.
  Proof. reflexivity. Qed.
  Lemma array_S f acc ts : parse_array v ns (S f) acc ts =
    array_body v (parse_entity v ns f) (parse_array v ns f) acc ts.
  Proof. reflexivity. Qed.

End Unfold.

Section NoPanic.
  Variable v : variant.
  Variable ns : nsmap.
  Hypothesis Hchk : chk_types v = true.

  Lemma assert_fail_err A : @assert_fail A v = Err.
  Proof. unfold assert_fail. now rewrite Hchk. Qed.

  Lemma ref_array_nopanic fuel : forall acc ts, parse_ref_array v ns fuel acc ts <> Panic.
  Proof.
    induction fuel as [|f IH]; intros acc ts; cbn [parse_ref_array]; [discriminate|].
    repeat split_match; try discriminate; try apply IH.
  Qed.

  Lemma ref_value_nopanic fuel : forall ts, parse_ref_value v ns fuel ts <> Panic.
  Proof.
    induction fuel as [|f IH]; intros ts; cbn [parse_ref_value]; [discriminate|].
    repeat split_match; try discriminate; try apply IH.
    exfalso; eapply ref_array_nopanic; eassumption.
  Qed.

  Lemma refs_nopanic fuel : forall acc ts, parse_refs v ns fuel acc ts <> Panic.
  Proof.
    induction fuel as [|f IH]; intros acc ts; cbn [parse_refs]; [discriminate|].
    repeat split_match; try discriminate; try apply IH.
    exfalso; eapply ref_value_nopanic; eassumption.
  Qed.

  Lemma mutual_nopanic fuel :
    (forall e isc ts, parse_entity v ns fuel e isc ts <> Panic) /\
    (forall acc ts, parse_props v ns fuel acc ts <> Panic) /\
    (forall ts, parse_value v ns fuel ts <> Panic) /\
    (forall acc ts, parse_array v ns fuel acc ts <> Panic).
  Proof.
    induction fuel as [|f (IHe & IHp & IHv & IHa)].
    - repeat split; intros; discriminate.
    - repeat split; intros.
      + rewrite entity_S; unfold entity_body. rewrite !assert_fail_err.
        repeat split_match; try discriminate; try apply IHe;
          try (exfalso; first [eapply IHp; eassumption | eapply refs_nopanic; eassumption]).
      + rewrite props_S; unfold props_body.
        repeat split_match; try discriminate; try apply IHp; try (exfalso; eapply IHv; eassumption).
      + rewrite value_S; unfold value_body.
        repeat split_match; try discriminate; try apply IHv;
          try (exfalso; first [eapply IHe; eassumption | eapply IHa; eassumption]).
      + rewrite array_S; unfold array_body.
        repeat split_match; try discriminate; try apply IHa;
          try (exfalso; first [eapply IHe; eassumption | eapply IHa; eassumption]).
  Qed.
End NoPanic.


Section Balanced.
  Variable v : variant.
  Variable ns : nsmap.
  Hypothesis Hstrict : strict v = true.
  Hypothesis Hskip : skip_unknown v = true.

  Lemma ref_array_bal fuel : forall acc ts l rest,
    parse_ref_array v ns fuel acc ts = Ok (l, rest) -> skip_n 1 ts = Some rest.
  Proof.
    induction fuel as [|f IH]; intros acc ts l rest H; [discriminate|].
    cbn [parse_ref_array] in H. rewrite Hstrict in H.
    destruct ts as [|[[]|s|n|b|] ts1]; try discriminate.
    - injection H as <- <-. reflexivity.
    - destruct (resolve ns s); [|discriminate]. apply IH in H. exact H.
  Qed.

  Lemma ref_value_bal fuel : forall ts r rest,
    parse_ref_value v ns fuel ts = Ok (r, rest) -> skip_n 0 ts = Some rest.
  Proof.
    destruct fuel as [|f]; intros ts r rest H; [discriminate|].
    cbn [parse_ref_value] in H. rewrite Hstrict in H.
    destruct ts as [|[[]|s|n|b|] ts1]; try discriminate.
    - destruct (parse_ref_array v ns f [] ts1) as [[l ts2]| | |] eqn:E; try discriminate.
      injection H as <- <-. apply ref_array_bal in E. exact E.
    - destruct (resolve ns s); [|discriminate]. injection H as <- <-. reflexivity.
  Qed.

  Lemma refs_bal fuel : forall acc ts rs rest,
    parse_refs v ns fuel acc ts = Ok (rs, rest) -> skip_n 1 ts = Some rest.
  Proof.
    induction fuel as [|f IH]; intros acc ts rs rest H; [discriminate|].
    cbn [parse_refs] in H. rewrite Hstrict in H.
    destruct ts as [|[[]|s|n|b|] ts1]; try discriminate.
    - injection H as <- <-. reflexivity.
    - destruct (parse_ref_value v ns f ts1) as [[r ts2]| | |] eqn:E; try discriminate.
      destruct (resolve ns s); [|discriminate].
      apply IH in H. apply ref_value_bal in E.
      cbn [skip_n]. rewrite (skip_value_shift _ _ E 0). exact H.
  Qed.

  Lemma is_open_obj_true o : is_open_obj o = true -> o = TDelim DObjO.
  Proof. destruct o as [[]| | | |]; cbn; congruence. Qed.

  Lemma mutual_bal fuel :
    (forall e isc ts e' rest, parse_entity v ns fuel e isc ts = Ok (e', rest) -> skip_n 1 ts = Some rest) /\
    (forall acc ts ps rest, parse_props v ns fuel acc ts = Ok (ps, rest) -> skip_n 1 ts = Some rest) /\
    (forall ts x rest, parse_value v ns fuel ts = Ok (x, rest) -> skip_n 0 ts = Some rest) /\
    (forall acc ts l rest, parse_array v ns fuel acc ts = Ok (l, rest) -> skip_n 1 ts = Some rest).
  Proof.
    induction fuel as [|f (IHe & IHp & IHv & IHa)].
    - repeat split; intros; discriminate.
    - repeat split.
      + intros e isc ts e' rest H. rewrite entity_S in H. unfold entity_body in H.
        rewrite Hstrict, Hskip in H. cbn [andb] in H.
        destruct ts as [|[[]|k|n|b|] ts1]; try discriminate.
        { injection H as <- <-. reflexivity. }
        cbn [skip_n].
        destruct (k =? "id").
        { destruct ts1 as [|[d|s|n|b|] ts2]; try discriminate; try (unfold assert_fail in H; destruct (chk_types v); discriminate).
          destruct (s =? "@continuation"); [|destruct (resolve ns s); [|discriminate]]; apply IHe in H; exact H. }
        destruct (k =? "recorded").
        { destruct ts1 as [|[d|s|n|b|] ts2]; try discriminate; try (unfold assert_fail in H; destruct (chk_types v); discriminate).
          apply IHe in H; exact H. }
        destruct (k =? "deleted").
        { destruct ts1 as [|[d|s|n|b|] ts2]; try discriminate; try (unfold assert_fail in H; destruct (chk_types v); discriminate).
          apply IHe in H; exact H. }
        destruct (k =? "props").
        { destruct ts1 as [|o ts2]; [discriminate|].
          destruct (is_open_obj o) eqn:Eo; cbn [negb] in H; [|discriminate].
          apply is_open_obj_true in Eo; subst o.
          destruct (parse_props v ns f [] ts2) as [[ps ts3]| | |] eqn:E; try discriminate.
          apply IHp in E. apply IHe in H. cbn [skip_n].
          rewrite (skip_shift1 _ _ E). exact H. }
        destruct (k =? "refs").
        { destruct ts1 as [|o ts2]; [discriminate|].
          destruct (is_open_obj o) eqn:Eo; cbn [negb] in H; [|discriminate].
          apply is_open_obj_true in Eo; subst o.
          destruct (parse_refs v ns f [] ts2) as [[rs ts3]| | |] eqn:E; try discriminate.
          apply refs_bal in E. apply IHe in H. cbn [skip_n].
          rewrite (skip_shift1 _ _ E). exact H. }
        destruct (k =? "token").
        { destruct (negb isc); [discriminate|].
          destruct ts1 as [|[d|s|n|b|] ts2]; try discriminate; cbn [is_delim] in H; try discriminate;
            apply IHe in H; exact H. }
        destruct (skip_value ts1) as [ts2|] eqn:E; [|discriminate].
        apply IHe in H. rewrite (skip_value_shift _ _ E 0). exact H.
      + intros acc ts ps rest H. rewrite props_S in H. unfold props_body in H. rewrite Hstrict in H.
        destruct ts as [|[[]|k|n|b|] ts1]; try discriminate.
        { injection H as <- <-. reflexivity. }
        destruct (parse_value v ns f ts1) as [[[x|] ts2]| | |] eqn:E; try discriminate.
        * destruct (resolve ns k); [|discriminate]. apply IHp in H. apply IHv in E.
          cbn [skip_n]. rewrite (skip_value_shift _ _ E 0). exact H.
        * apply IHp in H. apply IHv in E.
          cbn [skip_n]. rewrite (skip_value_shift _ _ E 0). exact H.
      + intros ts x rest H. rewrite value_S in H. unfold value_body in H. rewrite Hstrict in H.
        destruct ts as [|[[]|k|n|b|] ts1]; try discriminate; try (injection H as <- <-; reflexivity).
        * destruct (parse_array v ns f [] ts1) as [[l ts2]| | |] eqn:E; try discriminate.
          injection H as <- <-. apply IHa in E. exact E.
        * destruct (parse_entity v ns f ent0 false ts1) as [[e ts2]| | |] eqn:E; try discriminate.
          injection H as <- <-. apply IHe in E. exact E.
      + intros acc ts l rest H. rewrite array_S in H. unfold array_body in H. rewrite Hstrict in H.
        destruct ts as [|[[]|k|n|b|] ts1]; try discriminate.
        * destruct (parse_array v ns f [] ts1) as [[l1 ts2]| | |] eqn:E; try discriminate.
          apply IHa in E. apply IHa in H. cbn [skip_n]. rewrite (skip_shift1 _ _ E). exact H.
        * injection H as <- <-. reflexivity.
        * destruct (parse_entity v ns f ent0 false ts1) as [[e ts2]| | |] eqn:E; try discriminate.
          apply IHe in E. apply IHa in H. cbn [skip_n]. rewrite (skip_shift1 _ _ E). exact H.
        * apply IHa in H. exact H.
        * apply IHa in H. exact H.
        * apply IHa in H. exact H.
  Qed.
End Balanced.

(** ** Top level: ParseStream / ParseTransaction never panic once assertions are checked *)
Section TopNoPanic.
  Variable v : variant.
  Hypothesis Hchk : chk_types v = true.

  Lemma namespaces_of_nopanic ctx : namespaces_of v ctx <> Panic.
  Proof.
    unfold namespaces_of. rewrite !(assert_fail_err v Hchk).
    repeat split_match; discriminate.
  Qed.

  Lemma stream_loop_nopanic ns fuel : forall eof done ts, snd (stream_loop v ns fuel eof done ts) <> OPanic.
  Proof.
    induction fuel as [|f IH]; intros eof done ts; cbn [stream_loop]; [cbn; discriminate|].
    repeat split_match; cbn [snd]; try discriminate; try apply IH.
    - specialize (IH eof done l0). match goal with H : stream_loop _ _ _ _ _ _ = _ |- _ => rewrite H in IH end. exact IH.
    - exfalso. eapply (proj1 (mutual_nopanic v ns Hchk f)); eassumption.
  Qed.

  Theorem parse_stream_nopanic fuel eof ts : snd (fst (parse_stream v fuel eof ts)) <> OPanic.
  Proof.
    unfold parse_stream.
    repeat split_match; cbn [fst snd]; try discriminate.
    - match goal with H : stream_loop ?a ?b ?c ?d ?e ?g = _ |- _ =>
        pose proof (stream_loop_nopanic b c d e g) as X; rewrite H in X; exact X end.
    - exfalso. eapply namespaces_of_nopanic; eassumption.
  Qed.

  Lemma txn_array_nopanic ns fuel : forall acc ts, txn_array v ns fuel acc ts <> Panic.
  Proof.
    induction fuel as [|f IH]; intros acc ts; cbn [txn_array]; [discriminate|].
    repeat split_match; try discriminate; try apply IH.
    all: exfalso; eapply (proj1 (mutual_nopanic v ns Hchk f)); eassumption.
  Qed.

  Lemma txn_loop_nopanic ns fuel : forall acc ts, txn_loop v ns fuel acc ts <> Panic.
  Proof.
    induction fuel as [|f IH]; intros acc ts; cbn [txn_loop]; [discriminate|].
    rewrite !(assert_fail_err v Hchk).
    repeat split_match; try discriminate; try apply IH.
    all: exfalso; eapply txn_array_nopanic; eassumption.
  Qed.

  Theorem parse_txn_nopanic fuel ts : parse_txn v fuel ts <> Panic.
  Proof.
    unfold parse_txn. rewrite !(assert_fail_err v Hchk).
    repeat split_match; try discriminate; try apply txn_loop_nopanic.
    exfalso. eapply namespaces_of_nopanic; eassumption.
  Qed.
End TopNoPanic.

(** ** ParseStream (repaired) = the element-wise specification *)
Lemma fixed_chk : chk_types fixed = true. Proof. reflexivity. Qed.

Lemma stream_done_err ns f eof t ts : stream_loop fixed ns (S f) eof true (t :: ts) = ([], OErr).
Proof. cbn [stream_loop]. destruct t as [[]| | | |]; reflexivity. Qed.

Lemma stream_loop_spec ns fuel : forall eof ts, (List.length ts < fuel)%nat ->
  stream_loop fixed ns fuel eof false ts = spec_elements ns fuel eof ts.
Proof.
  induction fuel as [|f IH]; intros eof ts Hlen; [lia|].
  cbn [stream_loop spec_elements].
  destruct ts as [|t ts1].
  - cbn. destruct eof; reflexivity.
  - destruct t as [[]|s|n|b|]; try reflexivity.
    + (* ] *)
      cbn [strict fixed andb]. destruct ts1 as [|t2 ts2].
      * destruct f as [|f']; [cbn in Hlen; lia|]. cbn. destruct eof; reflexivity.
      * destruct f as [|f']; [cbn in Hlen; lia|]. rewrite stream_done_err. reflexivity.
    + (* { *)
      cbn [strict fixed andb]. unfold denote_element.
      destruct (parse_entity fixed ns f ent0 false ts1) as [[e ts2]| | |] eqn:E; try reflexivity.
      * pose proof (proj1 (mutual_bal fixed ns eq_refl eq_refl f) _ _ _ _ _ E) as B.
        unfold skip_value. cbn [skip_n]. rewrite B. rewrite Nat.eqb_refl.
        rewrite IH; [reflexivity|]. apply skip_n_shorter in B. cbn [List.length] in Hlen. lia.
      * exfalso. eapply (proj1 (mutual_nopanic fixed ns fixed_chk f)); eassumption.
Qed.

Theorem parse_stream_fixed_spec fuel eof ts : (List.length ts < fuel)%nat ->
  parse_stream fixed fuel eof ts = spec_stream fuel eof ts.
Proof.
  intros Hlen. unfold parse_stream, spec_stream.
  destruct ts as [|[[]| | | |] ts1]; try reflexivity.
  destruct (parse_jv (jv_fuel fuel) ts1) as [[[] ts2]|] eqn:E; try reflexivity.
  destruct (is_context_id l); [|reflexivity].
  destruct (namespaces_of fixed l) as [ns| | |] eqn:En; try reflexivity.
  - rewrite stream_loop_spec; [reflexivity|].
    (* the context value consumed at least nothing: ts2 is a suffix of ts1 *)
    assert (G : forall fuel,
      (forall ts x r, parse_jv fuel ts = Some (x, r) -> (List.length r < List.length ts)%nat) /\
      (forall acc ts x r, parse_jarr fuel acc ts = Some (x, r) -> (List.length r < List.length ts)%nat) /\
      (forall acc ts x r, parse_jobj fuel acc ts = Some (x, r) -> (List.length r < List.length ts)%nat)).
    { induction fuel0 as [|f (IH1 & IH2 & IH3)]; [repeat split; intros; discriminate|].
      repeat split.
      - intros ts x r H. cbn [parse_jv] in H.
        destruct ts as [|[[]| | | |] ts']; try discriminate; try (injection H as <- <-; cbn; lia).
        + destruct (parse_jarr f [] ts') as [[l' t']|] eqn:E1; [|discriminate]. injection H as <- <-.
          apply IH2 in E1. cbn; lia.
        + destruct (parse_jobj f [] ts') as [[l' t']|] eqn:E1; [|discriminate]. injection H as <- <-.
          apply IH3 in E1. cbn; lia.
      - intros acc ts x r H. cbn [parse_jarr] in H.
        assert (D : (exists ts', ts = TDelim DArrC :: ts') \/
                    (match parse_jv f ts with Some (x0, ts1) => parse_jarr f (acc ++ [x0]) ts1 | None => None end = Some (x, r))).
        { destruct ts as [|[[]| | | |] ts']; eauto. }
        destruct D as [[ts' ->]|D].
        + injection H as <- <-. cbn; lia.
        + destruct (parse_jv f ts) as [[x0 t1]|] eqn:E1; [|discriminate].
          apply IH1 in E1. apply IH2 in D. lia.
      - intros acc ts x r H. cbn [parse_jobj] in H.
        destruct ts as [|[[]|k| | |] ts']; try discriminate.
        + injection H as <- <-. cbn; lia.
        + destruct (parse_jv f ts') as [[x0 t1]|] eqn:E1; [|discriminate].
          apply IH1 in E1. apply IH3 in H. cbn; lia. }
    apply (proj1 (G (jv_fuel fuel))) in E. cbn [List.length] in Hlen. lia.
  - exfalso. eapply namespaces_of_nopanic; [exact fixed_chk | eassumption].
  - exfalso. revert En. unfold namespaces_of, assert_fail. cbn [chk_types fixed].
    repeat split_match; discriminate.
Qed.

(** ** Refutation witnesses for the pinned tree ([current]) *)
Definition w_ctx : list token :=
  [TDelim DObjO; TStr "id"; TStr "@context"; TStr "namespaces"; TDelim DObjO;
   TStr "_"; TStr "http://ex.org/d/"; TStr "a"; TStr "http://ex.org/a/"; TDelim DObjC; TDelim DObjC].
Definition w_ns : nsmap := [("_", "http://ex.org/d/"); ("a", "http://ex.org/a/")].
Definition w_stream (els : list token) : list token := (TDelim DArrO :: w_ctx ++ els ++ [TDelim DArrC])%list.
Definition w_num (s : string) (n : N) : token := TNum {| n_repr := s; n_u64 := n |}.
Definition w_ent (l : string) : ent :=
  {| e_id := NQ "http://ex.org/a/" l; e_rec := 0; e_del := false; e_props := []; e_refs := [] |}.

(* [ctx, {"id":"a:1","deleted":"false"}] - the user guide's own spelling *)
Definition w_deleted := w_stream [TDelim DObjO; TStr "id"; TStr "a:1"; TStr "deleted"; TStr "false"; TDelim DObjC].
(* [ctx, {"id":5}] *)
Definition w_id := w_stream [TDelim DObjO; TStr "id"; w_num "5" 5; TDelim DObjC].
(* [ctx, {"id":"a:1","recorded":"x"}] *)
Definition w_recorded := w_stream [TDelim DObjO; TStr "id"; TStr "a:1"; TStr "recorded"; TStr "x"; TDelim DObjC].
(* [{"id":"@context"},{"id":"a:1"}] *)
Definition w_nons := [TDelim DArrO; TDelim DObjO; TStr "id"; TStr "@context"; TDelim DObjC;
                      TDelim DObjO; TStr "id"; TStr "a:1"; TDelim DObjC; TDelim DArrC].
(* [{"id":"@context","namespaces":{"a":1}}] *)
Definition w_nsval := [TDelim DArrO; TDelim DObjO; TStr "id"; TStr "@context"; TStr "namespaces";
                       TDelim DObjO; TStr "a"; w_num "1" 1; TDelim DObjC; TDelim DObjC; TDelim DArrC].
(* [{"id":"@context","namespaces":[]}] *)
Definition w_nstype := [TDelim DArrO; TDelim DObjO; TStr "id"; TStr "@context"; TStr "namespaces";
                        TDelim DArrO; TDelim DArrC; TDelim DObjC; TDelim DArrC].
(* {"@context":ctx,"d1":[{"id":"a:1"}]   (truncated transaction) *)
Definition w_txn_eof := (TDelim DObjO :: TStr "@context" :: w_ctx
                        ++ [TStr "d1"; TDelim DArrO; TDelim DObjO; TStr "id"; TStr "a:1"; TDelim DObjC; TDelim DArrC])%list.
(* {"@context":null} *)
Definition w_txn_null := [TDelim DObjO; TStr "@context"; TNull; TDelim DObjC].

Lemma refuted_deleted : snd (fst (parse_stream current 40 true w_deleted)) = OPanic. Proof. vm_compute. reflexivity. Qed.
Lemma refuted_id : snd (fst (parse_stream current 40 true w_id)) = OPanic. Proof. vm_compute. reflexivity. Qed.
Lemma refuted_recorded : snd (fst (parse_stream current 40 true w_recorded)) = OPanic. Proof. vm_compute. reflexivity. Qed.
Lemma refuted_nons : snd (fst (parse_stream current 40 true w_nons)) = OPanic. Proof. vm_compute. reflexivity. Qed.
Lemma refuted_nsval : snd (fst (parse_stream current 40 true w_nsval)) = OPanic. Proof. vm_compute. reflexivity. Qed.
Lemma refuted_nstype : snd (fst (parse_stream current 40 true w_nstype)) = OPanic. Proof. vm_compute. reflexivity. Qed.
Lemma refuted_txn_eof : parse_txn current 40 w_txn_eof = Panic. Proof. vm_compute. reflexivity. Qed.
Lemma refuted_txn_null : parse_txn current 40 w_txn_null = Panic. Proof. vm_compute. reflexivity. Qed.

(** F15b: [ctx, {"id":"a:1","foo":{"id":"a:2"},"props":{"x":1}}]: the unknown key's object
    value re-enters the entity loop, the inner id overwrites the outer one, the entity
    a:2 is emitted at the inner '}', and the error comes afterwards. *)
Definition w_unknown_obj := w_stream
  [TDelim DObjO; TStr "id"; TStr "a:1"; TStr "foo"; TDelim DObjO; TStr "id"; TStr "a:2"; TDelim DObjC;
   TStr "props"; TDelim DObjO; TStr "x"; w_num "1" 1; TDelim DObjC; TDelim DObjC].
Lemma refuted_unknown_obj :
  fst (parse_stream current 40 true w_unknown_obj) = ([w_ent "2"], OErr).
Proof. vm_compute. reflexivity. Qed.
Lemma spec_unknown_obj :
  fst (spec_stream 40 true w_unknown_obj)
  = ([{| e_id := NQ "http://ex.org/a/" "1"; e_rec := 0; e_del := false;
         e_props := [(NQ "http://ex.org/d/" "x", VNum {| n_repr := "1"; n_u64 := 1 |})]; e_refs := [] |}], OOk).
Proof. vm_compute. reflexivity. Qed.
(** [ctx, {"id":"a:1","foo":["id","a:3"]}] is accepted with the id taken from inside the array *)
Definition w_unknown_arr := w_stream
  [TDelim DObjO; TStr "id"; TStr "a:1"; TStr "foo"; TDelim DArrO; TStr "id"; TStr "a:3"; TDelim DArrC; TDelim DObjC].
Lemma refuted_unknown_arr :
  fst (parse_stream current 40 true w_unknown_arr) = ([w_ent "3"], OOk)
  /\ fst (spec_stream 40 true w_unknown_arr) = ([w_ent "1"], OOk).
Proof. vm_compute. split; reflexivity. Qed.

(** F15c: structure is not checked.  [ctx, {"id":"a:1","props":5}, {"id":"a:2"}]: two elements
    are merged into one entity a:2; [ctx, {"id":"a:1"}] {"id":"a:9"}: a value after the closing
    bracket is emitted as an entity; a transaction whose dataset value is an object is accepted *)
Definition w_props_scalar := w_stream
  [TDelim DObjO; TStr "id"; TStr "a:1"; TStr "props"; w_num "5" 5; TDelim DObjC;
   TDelim DObjO; TStr "id"; TStr "a:2"; TDelim DObjC].
Lemma refuted_props_scalar :
  fst (parse_stream current 40 true w_props_scalar) = ([w_ent "2"], OOk)
  /\ fst (spec_stream 40 true w_props_scalar) = ([], OErr).
Proof. vm_compute. split; reflexivity. Qed.
Definition w_trailing := (w_stream [TDelim DObjO; TStr "id"; TStr "a:1"; TDelim DObjC]
                         ++ [TDelim DObjO; TStr "id"; TStr "a:9"; TDelim DObjC])%list.
Lemma refuted_trailing :
  fst (parse_stream current 40 true w_trailing) = ([w_ent "1"; w_ent "9"], OOk)
  /\ fst (spec_stream 40 true w_trailing) = ([w_ent "1"], OErr).
Proof. vm_compute. split; reflexivity. Qed.
Definition w_txn_object := (TDelim DObjO :: TStr "@context" :: w_ctx
  ++ [TStr "d1"; TDelim DObjO; TStr "a"; TDelim DArrO; TDelim DObjO; TStr "id"; TStr "a:1"; TDelim DObjC;
      TDelim DArrC; TDelim DObjC; TDelim DObjC])%list.
Lemma refuted_txn_object :
  parse_txn current 40 w_txn_object = Ok [("d1", [w_ent "1"])] /\ parse_txn fixed 40 w_txn_object = Err.
Proof. vm_compute. split; reflexivity. Qed.

(** * Round trip: the parser reads back what the hub serialises *)
(** ** basics *)
Lemma name_eqb_eq a b : name_eqb a b = true <-> a = b.
Proof.
  destruct a, b; cbn; try (split; congruence).
  - rewrite andb_true_iff, !String.eqb_eq. split; [intros [-> ->]; reflexivity | intros [= -> ->]; auto].
  - rewrite String.eqb_eq. split; congruence.
Qed.

Lemma upsert_fresh {K B} (eqb : K -> K -> bool) (Heq : forall a b, eqb a b = true -> a = b)
  (k : K) (x : B) acc : ~ In k (map fst acc) -> upsert eqb k x acc = (acc ++ [(k, x)])%list.
Proof.
  induction acc as [|[k' y] acc IH]; intros Hn; cbn; [reflexivity|].
  destruct (eqb k k') eqn:E.
  - apply Heq in E. subst. exfalso. apply Hn. now left.
  - rewrite IH; [reflexivity|]. intros Hi. apply Hn. now right.
Qed.

Lemma split_colon_app' p l : split_colon p = None -> split_colon (p ++ String ":" l) = Some (p, l).
Proof.
  induction p as [|c p IH]; cbn; intros H; [reflexivity|].
  destruct (Ascii.eqb c ":"); [discriminate|].
  destruct (split_colon p) as [[a b]|]; [discriminate|]. now rewrite IH.
Qed.
Lemma split_colon_app p l : split_colon p = None -> split_colon (p ++ ":" ++ l) = Some (p, l).
Proof. exact (split_colon_app' p l). Qed.

Lemma curie_nonempty p l : (p ++ String ":" l =? "") = false.
Proof. destruct p; reflexivity. Qed.

Lemma lookup_in {B} (m : list (string * B)) p e : NoDup (map fst m) -> In (p, e) m -> lookup p m = Some e.
Proof.
  induction m as [|[p' e'] m IH]; cbn; intros Hnd Hin; [tauto|].
  inversion Hnd as [|? ? Hni Hnd']; subst.
  destruct Hin as [[= -> ->]|Hin].
  - now rewrite String.eqb_refl.
  - destruct (String.eqb p p') eqn:E.
    + apply String.eqb_eq in E; subst. exfalso. apply Hni. change p' with (fst (p', e)). now apply in_map.
    + now apply IH.
Qed.

Section PvalInd.
  Variable P : pval -> Prop.
  Hypothesis HStr : forall s, P (VStr s).
  Hypothesis HNum : forall n, P (VNum n).
  Hypothesis HBool : forall b, P (VBool b).
  Hypothesis HNull : P VNull.
  Hypothesis HDelim : forall d, P (VDelim d).
  Hypothesis HArr : forall l, Forall P l -> P (VArr l).
  Hypothesis HEnt : forall id r d ps rs, Forall (fun kx => P (snd kx)) ps -> P (VEnt id r d ps rs).
  Fixpoint pval_ind' (x : pval) : P x :=
    match x with
    | VStr s => HStr s | VNum n => HNum n | VBool b => HBool b | VNull => HNull | VDelim d => HDelim d
    | VArr l => HArr l ((fix go (l : list pval) : Forall P l :=
                           match l with [] => Forall_nil _ | y :: l' => Forall_cons _ (pval_ind' y) (go l') end) l)
    | VEnt id r d ps rs =>
      HEnt id r d ps rs ((fix go (m : list (name * pval)) : Forall (fun kx => P (snd kx)) m :=
                            match m with [] => Forall_nil _
                                    | kx :: m' => Forall_cons _ (pval_ind' (snd kx)) (go m') end) ps)
    end.
End PvalInd.

Section RoundTrip.
  Variable v : variant.
  Variable ctx : sctx.
  Hypothesis Hctx : wf_ctx ctx.

  Lemma prefix_of_in e p : prefix_of ctx e = Some p -> In (p, e) ctx.
  Proof.
    clear Hctx. induction ctx as [|[p' e'] c IH]; cbn; [discriminate|].
    destruct (String.eqb e e') eqn:E.
    - intros [= ->]. apply String.eqb_eq in E; subst. now left.
    - intros H. right. now apply IH.
  Qed.

  Lemma resolve_curie q : wf_name ctx q -> resolve ctx (curie ctx q) = Some q.
  Proof.
    destruct q as [e l|s]; cbn; [|tauto]. intros H.
    destruct (prefix_of ctx e) as [p|] eqn:E; [|congruence].
    apply prefix_of_in in E. destruct Hctx as [Hnd Hwf]. destruct (Hwf _ _ E) as (Hc & Hne & Hu).
    specialize (Hu l). unfold is_url in Hu. change (":" ++ l) with (String ":" l) in Hu.
    unfold resolve. rewrite curie_nonempty. rewrite Hu.
    rewrite split_colon_app' by exact Hc. unfold ns_get. rewrite (lookup_in _ _ _ Hnd E).
    apply String.eqb_neq in Hne. now rewrite Hne.
  Qed.

  Lemma curie_not_cont q : wf_name ctx q -> (curie ctx q =? "@continuation") = false.
  Proof.
    destruct q as [e l|s]; cbn; [|tauto]. intros H.
    destruct (prefix_of ctx e) as [p|] eqn:E; [|congruence].
    apply prefix_of_in in E. destruct Hctx as [Hnd Hwf]. destruct (Hwf _ _ E) as (Hc & _ & _).
    apply String.eqb_neq. intros Heq. pose proof (split_colon_app' p l Hc) as S. rewrite Heq in S. discriminate.
  Qed.

  Definition kt (q : name) : token := TStr (curie ctx q).

  (** *** references *)
  Lemma ref_array_rt : forall l acc rest fuel, Forall (wf_name ctx) l -> (List.length l < fuel)%nat ->
    parse_ref_array v ctx fuel acc (map kt l ++ TDelim DArrC :: rest) = Ok ((acc ++ l)%list, rest).
  Proof.
    induction l as [|q l IH]; intros acc rest fuel Hwf Hlen; (destruct fuel as [|f]; [cbn in Hlen; lia|]); cbn.
    - now rewrite app_nil_r.
    - inversion Hwf; subst. rewrite resolve_curie by assumption.
      unfold kt in IH. rewrite IH; [|assumption|cbn in Hlen; lia]. now rewrite <- app_assoc.
  Qed.

  Lemma ref_value_rt r rest fuel : wf_rval ctx r -> (List.length (ser_rval ctx r) < fuel)%nat ->
    parse_ref_value v ctx fuel (ser_rval ctx r ++ rest) = Ok (r, rest).
  Proof.
    destruct r as [q|l]; cbn; intros Hwf Hlen; (destruct fuel as [|f]; [lia|]); cbn.
    - now rewrite resolve_curie.
    - rewrite <- app_assoc. cbn. fold kt.
      rewrite ref_array_rt; [reflexivity|assumption|]. rewrite app_length, map_length in Hlen. cbn in Hlen. clear - Hlen. lia.
  Qed.

  Definition rtoks (kr : name * rval) : list token := kt (fst kr) :: ser_rval ctx (snd kr).

  Lemma refs_rt : forall rs acc rest fuel,
    Forall (fun kr => wf_name ctx (fst kr) /\ wf_rval ctx (snd kr)) rs ->
    NoDup (map fst acc ++ map fst rs) ->
    (List.length (flat_map rtoks rs) < fuel)%nat ->
    parse_refs v ctx fuel acc (flat_map rtoks rs ++ TDelim DObjC :: rest) = Ok ((acc ++ rs)%list, rest).
  Proof.
    induction rs as [|[k r] rs IH]; intros acc rest fuel Hwf Hnd Hlen; (destruct fuel as [|f]; [cbn in Hlen; lia|]).
    - cbn. now rewrite app_nil_r.
    - inversion Hwf as [|? ? [Hk Hr] Hwf']; subst. cbn in Hk, Hr.
      cbn [flat_map rtoks fst snd app]. rewrite <- app_assoc. cbn [parse_refs kt].
      cbn [flat_map rtoks fst snd] in Hlen. rewrite app_length in Hlen. unfold rtoks at 1 in Hlen. cbn [List.length fst snd] in Hlen.
      rewrite ref_value_rt; [|assumption|lia].
      rewrite resolve_curie by assumption.
      cbn [map fst] in Hnd.
      rewrite upsert_fresh.
      + rewrite IH; [now rewrite <- app_assoc|assumption| |lia].
        rewrite map_app, <- app_assoc. exact Hnd.
      + intros a b Hab. now apply name_eqb_eq.
      + apply NoDup_remove_2 in Hnd. intros Hi. apply Hnd. apply in_or_app. now left.
  Qed.

  (** *** values *)
  Definition ptoks (kx : name * pval) : list token :=
    match kx with (k, y) => kt k :: ser_val ctx y end.
  Definition opt_id (id : name) : list token := if is_noid id then [] else [TStr "id"; kt id].
  Definition opt_iid (iid : N) : list token := if N.eqb iid 0 then [] else [TStr "internalId"; TNum (num_of_N iid)].
  Definition opt_rec (r : N) : list token := if N.eqb r 0 then [] else [TStr "recorded"; TNum (num_of_N r)].
  Definition opt_del (d : bool) : list token := if d then [TStr "deleted"; TBool true] else [].
  Definition ent_tail id iid r d : list token :=
    (opt_id id ++ opt_iid iid ++ opt_rec r ++ opt_del d ++ [TDelim DObjC])%list.
  Definition ent_body id iid r d ps rs : list token :=
    (TStr "refs" :: ser_refs ctx rs ++ TStr "props" :: TDelim DObjO :: flat_map ptoks ps
     ++ TDelim DObjC :: ent_tail id iid r d)%list.

  Lemma ser_val_ent id r d ps rs :
    ser_val ctx (VEnt id r d ps rs) = TDelim DObjO :: ent_body id 0 r d ps rs.
  Proof. reflexivity. Qed.
  Lemma ser_top_body e iid :
    ser_top ctx e iid = TDelim DObjO :: ent_body (e_id e) iid (e_rec e) (e_del e) (e_props e) (e_refs e).
  Proof. reflexivity. Qed.

  (** the optional keys after "props" *)
  Lemma tail_rt id iid r d e0 rest fuel :
    wf_id ctx id -> e_id e0 = NRaw "" -> e_rec e0 = 0%N -> e_del e0 = false -> (5 <= fuel)%nat ->
    parse_entity v ctx fuel e0 false (ent_tail id iid r d ++ rest)
    = Ok ({| e_id := id; e_rec := r; e_del := d; e_props := e_props e0; e_refs := e_refs e0 |}, rest).
  Proof.
    intros Hid H1 H2 H3 Hf. destruct e0 as [i0 r0 d0 p0 s0]. cbn in H1, H2, H3. subst.
    do 5 (destruct fuel as [|fuel]; [lia|]).
    unfold ent_tail, opt_id, opt_iid, opt_rec, opt_del.
    destruct Hid as [->|Hid].
    - cbn [is_noid String.eqb Ascii.eqb Bool.eqb].
      destruct (N.eqb iid 0) eqn:Ei; destruct (N.eqb r 0) eqn:Er; destruct d;
        try (apply N.eqb_eq in Er; subst r);
        rewrite !entity_S; unfold entity_body; cbn; destruct (skip_unknown v); cbn; reflexivity.
    - assert (Hn : is_noid id = false) by (destruct id; [reflexivity|destruct Hid]).
      rewrite Hn.
      destruct (N.eqb iid 0) eqn:Ei; destruct (N.eqb r 0) eqn:Er; destruct d;
        try (apply N.eqb_eq in Er; subst r);
        rewrite !entity_S; unfold entity_body; cbn -[resolve curie]; unfold kt;
        rewrite ?curie_not_cont, ?resolve_curie by assumption;
        cbn -[resolve curie]; destruct (skip_unknown v); cbn -[resolve curie]; reflexivity.
  Qed.

  (** what parse_value returns for a serialised value *)
  Definition vres (x : pval) : option pval := match x with VNull => None | _ => Some (clean x) end.

  (** the two recursive facts: an array body / an entity body parses back *)
  Definition core (x : pval) (fuel : nat) : Prop :=
    match x with
    | VArr l => forall rest, parse_array v ctx fuel [] (flat_map (ser_val ctx) l ++ TDelim DArrC :: rest)
                             = Ok (map clean l, rest)
    | VEnt id r d ps rs => forall iid rest,
        parse_entity v ctx fuel ent0 false (ent_body id iid r d ps rs ++ rest)
        = Ok ({| e_id := id; e_rec := r; e_del := d; e_props := drop_nulls clean ps; e_refs := rs |}, rest)
    | _ => True
    end.
  Definition rt (x : pval) : Prop := wf_val ctx x -> exists n, forall fuel, (n <= fuel)%nat -> core x fuel.

  Lemma value_of_core x f rest : wf_val ctx x -> core x f ->
    parse_value v ctx (S f) (ser_val ctx x ++ rest) = Ok (vres x, rest).
  Proof.
    intros Hwf Hc. destruct x; try reflexivity.
    - inversion Hwf.
    - cbn [ser_val]. rewrite value_S. cbn [app value_body]. rewrite <- app_assoc. cbn [app].
      cbn [core] in Hc. rewrite Hc. reflexivity.
    - rewrite ser_val_ent. rewrite value_S. cbn [app value_body].
      cbn [core] in Hc. rewrite Hc. reflexivity.
  Qed.

  Lemma elem_of_core x f acc more : wf_val ctx x -> x <> VNull -> core x f ->
    parse_array v ctx (S f) acc (ser_val ctx x ++ more) = parse_array v ctx f (acc ++ [clean x]) more.
  Proof.
    intros Hwf Hn Hc. destruct x; try reflexivity.
    - congruence.
    - inversion Hwf.
    - cbn [ser_val]. rewrite array_S. cbn [app array_body]. rewrite <- app_assoc. cbn [app].
      cbn [core] in Hc. rewrite Hc. reflexivity.
    - rewrite ser_val_ent. rewrite array_S. cbn [app array_body].
      cbn [core] in Hc. rewrite Hc. reflexivity.
  Qed.

  Lemma array_loop : forall l acc,
    Forall (fun y => wf_val ctx y /\ y <> VNull) l -> Forall rt l ->
    exists n, forall fuel, (n <= fuel)%nat -> forall rest,
      parse_array v ctx fuel acc (flat_map (ser_val ctx) l ++ TDelim DArrC :: rest) = Ok ((acc ++ map clean l)%list, rest).
  Proof.
    induction l as [|y l IH]; intros acc Hwf Hrt.
    - exists 1%nat. intros fuel Hf rest. destruct fuel; [lia|]. cbn. now rewrite app_nil_r.
    - inversion Hwf as [|? ? [Hy Hyn] Hwf']; subst. inversion Hrt as [|? ? Hry Hrt']; subst.
      destruct (Hry Hy) as [ny Hny]. destruct (IH (acc ++ [clean y])%list Hwf' Hrt') as [nl Hnl].
      exists (S (ny + nl)). intros fuel Hf rest. destruct fuel as [|f]; [lia|].
      cbn [flat_map]. rewrite <- app_assoc.
      rewrite elem_of_core; [|assumption|assumption|apply Hny; lia].
      rewrite Hnl by lia. cbn [map]. now rewrite <- app_assoc.
  Qed.

  Lemma props_loop : forall ps acc,
    Forall (fun kx => wf_name ctx (fst kx) /\ wf_val ctx (snd kx)) ps -> Forall (fun kx => rt (snd kx)) ps ->
    NoDup (map fst acc ++ map fst ps) ->
    exists n, forall fuel, (n <= fuel)%nat -> forall rest,
      parse_props v ctx fuel acc (flat_map ptoks ps ++ TDelim DObjC :: rest)
      = Ok ((acc ++ drop_nulls clean ps)%list, rest).
  Proof.
    induction ps as [|[k y] ps IH]; intros acc Hwf Hrt Hnd.
    - exists 1%nat. intros fuel Hf rest. destruct fuel; [lia|]. cbn. now rewrite app_nil_r.
    - inversion Hwf as [|? ? [Hk Hy] Hwf']; subst. inversion Hrt as [|? ? Hry Hrt']; subst. cbn [fst snd] in *.
      destruct (Hry Hy) as [ny Hny].
      cbn [map fst] in Hnd.
      assert (Hfresh : ~ In k (map fst acc)).
      { apply NoDup_remove_2 in Hnd. intros Hi. apply Hnd. apply in_or_app. now left. }
      destruct (IH acc Hwf' Hrt' (NoDup_remove_1 _ _ _ Hnd)) as [n0 Hn0].
      destruct (IH (acc ++ [(k, clean y)])%list Hwf' Hrt') as [n1 Hn1].
      { rewrite map_app, <- app_assoc. exact Hnd. }
      exists (S (S (ny + n0 + n1))). intros fuel Hf rest. destruct fuel as [|f]; [lia|]. destruct f as [|f']; [lia|].
      cbn [flat_map ptoks]. rewrite <- app_assoc. cbn [app]. rewrite props_S. unfold kt at 1. cbn [props_body].
      rewrite value_of_core; [|assumption|apply Hny; lia].
      destruct y; cbn [vres]; try (rewrite resolve_curie by assumption;
        rewrite upsert_fresh; [|intros a b Hab; now apply name_eqb_eq|assumption];
        rewrite Hn1 by lia; cbn [drop_nulls]; now rewrite <- app_assoc).
      { rewrite resolve_curie by assumption.
        rewrite upsert_fresh; [|intros a b0 Hab; now apply name_eqb_eq|assumption].
        rewrite Hn1 by lia. cbn [drop_nulls]. now rewrite <- app_assoc. }
      rewrite Hn0 by lia. reflexivity.
  Qed.

  Theorem rt_all : forall x, rt x.
  Proof.
    induction x using pval_ind'; unfold rt; intros Hwf; try (exists 0%nat; intros; exact I).
    - (* array *)
      inversion Hwf as [| | | |? Hl|]; subst.
      destruct (array_loop l [] Hl H) as [n Hn]. exists n. intros fuel Hf rest. cbn [core]. intros.
      now rewrite Hn.
    - (* entity *)
      inversion Hwf as [| | | | |? ? ? ? ? Hid Hnd Hps [Hrnd Hrs]]; subst.
      destruct (props_loop ps [] Hps H) as [np Hnp]; [exact Hnd|].
      exists (S (S (List.length (flat_map rtoks rs) + np + 5))). intros fuel Hf. cbn [core]. intros iid rest.
      destruct fuel as [|f]; [lia|]. destruct f as [|f']; [lia|].
      unfold ent_body, ser_refs. rewrite entity_S. cbn [app entity_body].
      cbn [String.eqb Ascii.eqb Bool.eqb is_open_obj negb]. rewrite andb_false_r.
      rewrite <- !app_assoc. cbn [app].
      change (flat_map (fun kr : name * rval => TStr (curie ctx (fst kr)) :: ser_rval ctx (snd kr)) rs)
        with (flat_map rtoks rs).
      rewrite (refs_rt rs [] _ (S f')); [|assumption|exact Hrnd|lia].
      cbn [app]. rewrite entity_S. cbn [entity_body].
      cbn [String.eqb Ascii.eqb Bool.eqb is_open_obj negb]. rewrite andb_false_r.
      rewrite <- app_assoc. cbn [app]. rewrite Hnp by lia. cbn [app].
      rewrite tail_rt; [reflexivity|assumption|reflexivity|reflexivity|reflexivity|lia].
  Qed.

  (** *** the context object *)
  Definition jpair (pe : string * string) : string * jv := (fst pe, JStr (snd pe)).
  Lemma parse_jv_str f s ts : (1 <= f)%nat -> parse_jv f (TStr s :: ts) = Some (JStr s, ts).
  Proof. destruct f; [lia|reflexivity]. Qed.

  Lemma jobj_loop : forall c acc rest fuel, NoDup (map fst acc ++ map fst c) -> (List.length c + 1 < fuel)%nat ->
    parse_jobj fuel acc (flat_map (fun pe => [TStr (fst pe); TStr (snd pe)]) c ++ TDelim DObjC :: rest)
    = Some ((acc ++ map jpair c)%list, rest).
  Proof.
    induction c as [|[p e] c IH]; intros acc rest fuel Hnd Hlen; (destruct fuel as [|f]; [cbn in Hlen; lia|]).
    - cbn. now rewrite app_nil_r.
    - cbn [flat_map fst snd app parse_jobj]. cbn [map fst] in Hnd. cbn [List.length] in Hlen.
      rewrite parse_jv_str by lia.
      rewrite upsert_fresh.
      + rewrite IH; [cbn [map jpair fst snd]; now rewrite <- app_assoc| |lia].
        rewrite map_app, <- app_assoc. exact Hnd.
      + intros a b Hab. now apply String.eqb_eq.
      + apply NoDup_remove_2 in Hnd. intros Hi. apply Hnd. apply in_or_app. now left.
  Qed.

  Lemma all_strings_jpair c : all_strings (map jpair c) = Some c.
  Proof. induction c as [|[p e] c IH]; cbn; [reflexivity|]. now rewrite IH. Qed.

  Definition ctx_jv : list (string * jv) := [("id", JStr "@context"); ("namespaces", JObj (map jpair ctx))].

  Lemma context_rt rest fuel : (List.length ctx + 5 < fuel)%nat ->
    parse_jv fuel (ser_context ctx ++ rest) = Some (JObj ctx_jv, rest).
  Proof.
    intros Hf. do 4 (destruct fuel as [|fuel]; [lia|]).
    unfold ser_context. cbn [app parse_jv parse_jobj upsert].
    rewrite <- app_assoc. cbn [app].
    rewrite jobj_loop; [|destruct Hctx as [Hnd _]; exact Hnd|lia].
    cbn. destruct fuel; [lia|]. reflexivity.
  Qed.

  (** *** the entity array and the continuation element *)
  Definition cont_toks (tok : string) : list token :=
    [TDelim DObjO; TStr "id"; TStr "@continuation"; TStr "token"; TStr tok; TDelim DObjC; TDelim DArrC].

  Lemma cont_rt tok fuel : (8 <= fuel)%nat ->
    stream_loop v ctx fuel true false (cont_toks tok) = ([cont_ent tok], OOk).
  Proof.
    intros Hf. do 8 (destruct fuel as [|fuel]; [lia|]).
    unfold cont_toks. destruct v as [c sk st]. destruct st; reflexivity.
  Qed.

  Definition top_toks (ei : ent * N) : list token := ser_top ctx (fst ei) (snd ei).

  Lemma entities_rt : forall es, Forall (fun ei => wf_ent ctx (fst ei)) es ->
    exists n, forall fuel, (n <= fuel)%nat -> forall eof more,
      stream_loop v ctx (List.length es + fuel) eof false (flat_map top_toks es ++ more)
      = ((map (fun ei => clean_ent (fst ei)) es ++ fst (stream_loop v ctx fuel eof false more))%list,
         snd (stream_loop v ctx fuel eof false more)).
  Proof.
    induction es as [|[e iid] es IH]; intros Hwf.
    - exists 0%nat. intros fuel _ eof more. cbn. now destruct (stream_loop v ctx fuel eof false more).
    - inversion Hwf as [|? ? He Hwf']; subst. cbn [fst] in He.
      destruct (IH Hwf') as [n1 Hn1].
      destruct (rt_all _ He) as [n2 Hn2].
      exists (n1 + n2)%nat. intros fuel Hf eof more.
      cbn [List.length plus flat_map]. unfold top_toks at 1. cbn [fst snd]. rewrite ser_top_body. rewrite <- app_assoc.
      cbn [app stream_loop]. rewrite andb_false_r.
      assert (Hc := Hn2 (List.length es + fuel)%nat ltac:(lia)). unfold val_of_ent in Hc. cbn [core] in Hc.
      rewrite Hc.
      rewrite Hn1 by lia. destruct e; reflexivity.
  Qed.

  Theorem stream_roundtrip es tok : Forall (fun ei => wf_ent ctx (fst ei)) es ->
    exists n, forall fuel, (n <= fuel)%nat ->
      parse_stream v fuel true (ser_stream ctx es tok)
      = ((map (fun ei => clean_ent (fst ei)) es ++ [cont_ent tok])%list, OOk, ctx).
  Proof.
    intros Hwf. destruct (entities_rt es Hwf) as [n Hn].
    exists (List.length es + (n + 8) + List.length ctx + 6)%nat. intros fuel Hf.
    unfold ser_stream, parse_stream.
    rewrite context_rt by (unfold jv_fuel; lia).
    cbn [is_context_id ctx_jv lookup String.eqb Ascii.eqb Bool.eqb].
    unfold namespaces_of. cbn [ctx_jv lookup String.eqb Ascii.eqb Bool.eqb].
    rewrite all_strings_jpair.
    replace fuel with (List.length es + (fuel - List.length es))%nat by lia.
    change (flat_map (fun ei : ent * N => ser_top ctx (fst ei) (snd ei)) es) with (flat_map top_toks es).
    change [TDelim DObjO; TStr "id"; TStr "@continuation"; TStr "token"; TStr tok; TDelim DObjC; TDelim DArrC]
      with (cont_toks tok).
    rewrite Hn by lia. rewrite cont_rt by lia. reflexivity.
  Qed.
End RoundTrip.

(** ** what an identifier denotes: an absolute URI denotes itself *)
Lemma split_last_concat c : forall s a b, split_last c s = Some (a, b) -> (a ++ b)%string = s.
Proof.
  induction s as [|x s IH]; cbn; intros a b H; [discriminate|].
  destruct (split_last c s) as [[a' b']|] eqn:E.
  - injection H as <- <-. cbn. f_equal. now apply IH.
  - destruct (Ascii.eqb x c); [|discriminate]. injection H as <- <-. reflexivity.
Qed.

Definition uri_of (q : name) : string := match q with NQ e l => e ++ l | NRaw s => s end.

Theorem resolve_denotes ns val q : resolve ns val = Some q ->
  uri_of q = if is_url val then val
             else match split_colon val with
                  | None => match ns_get ns "_" with Some e => e ++ val | None => "" end
                  | Some (p, l) => match ns_get ns p with Some e => e ++ l | None => "" end
                  end.
Proof.
  unfold resolve, is_url. destruct (val =? ""); [discriminate|].
  destruct (prefix "http://" val || prefix "https://" val).
  - unfold url_parts. destruct (split_last "#" val) as [[a b]|] eqn:E1.
    + intros [= <-]. cbn. now apply split_last_concat in E1.
    + destruct (split_last "/" val) as [[a b]|] eqn:E2; [|discriminate].
      intros [= <-]. cbn. now apply split_last_concat in E2.
  - destruct (split_colon val) as [[p l]|].
    + destruct (ns_get ns p); [|discriminate]. now intros [= <-].
    + destruct (ns_get ns "_"); [|discriminate]. now intros [= <-].
Qed.

(** the store's own prefixes "ns<N>" never make a CURIE look like an absolute URL *)
Lemma ns_prefix_not_url d l : is_url (("ns" ++ d) ++ ":" ++ l) = false.
Proof. reflexivity. Qed.

(** ** non-vacuity material: a concrete context and collection *)
Definition ex_ctx : sctx := [("ns0", "http://data.mimiro.io/core/dataset/"); ("ns3", "http://ex.org/a/")].
Lemma ex_ctx_wf : wf_ctx ex_ctx.
Proof.
  split.
  - cbn. repeat constructor; cbn; intuition discriminate.
  - intros p e [[= <- <-]|[[= <- <-]|[]]]; (split; [reflexivity|split; [discriminate|intros l; reflexivity]]).
Qed.
Definition ex_ent : ent :=
  {| e_id := NQ "http://ex.org/a/" "1"; e_rec := 12; e_del := true;
     e_props := [(NQ "http://ex.org/a/" "n", VStr "x"); (NQ "http://ex.org/a/" "gone", VNull);
                 (NQ "http://ex.org/a/" "k",
                  VArr [VNum {| n_repr := "1"; n_u64 := 1 |}; VBool true;
                        VEnt (NQ "http://ex.org/a/" "z") 0 false [(NQ "http://ex.org/a/" "deep", VArr [VArr []])] []])];
     e_refs := [(NQ "http://ex.org/a/" "r", RStr (NQ "http://ex.org/a/" "2"));
                (NQ "http://ex.org/a/" "rr", RArr [NQ "http://data.mimiro.io/core/dataset/" "y"; NQ "http://ex.org/a/" "b"])] |}.
Ltac wf_step :=
  match goal with
  | |- wf_ent _ _ => unfold wf_ent, val_of_ent; cbn
  | |- wf_val _ _ => constructor
  | |- wf_id _ _ => right
  | |- wf_name _ _ => cbn; discriminate
  | |- wf_refs _ _ => split
  | |- wf_rval _ _ => cbn [wf_rval]
  | |- Forall _ _ => constructor
  | |- NoDup _ => constructor
  | |- _ /\ _ => split
  | |- ~ _ => cbn; intuition discriminate
  | |- _ <> _ => discriminate
  end; cbn [fst snd map].
Lemma ex_ent_wf : wf_ent ex_ctx ex_ent.
Proof. repeat wf_step. Qed.
Lemma ex_roundtrip :
  parse_stream current 200 true (ser_stream ex_ctx [(ex_ent, 7%N)] "MQ==")
  = ([clean_ent ex_ent; cont_ent "MQ=="], OOk, ex_ctx)
  /\ parse_stream fixed 200 true (ser_stream ex_ctx [(ex_ent, 7%N)] "MQ==")
  = ([clean_ent ex_ent; cont_ent "MQ=="], OOk, ex_ctx).
Proof. vm_compute. split; reflexivity. Qed.

(** ** prefixes that merely begin with "http" are CURIE prefixes, not URLs *)
Ltac dec_step :=
  match goal with
  | |- context [ascii_dec ?a ?b] => destruct (ascii_dec a b) as [?E|?E]; [try discriminate E; try subst|]
  end.

Lemma curie_not_url p l : split_colon p = None -> p <> "http" -> p <> "https" ->
  is_url (p ++ String ":" l) = false.
Proof.
  intros Hc H1 H2. unfold is_url.
  destruct p as [|c1 [|c2 [|c3 [|c4 [|c5 [|c6 p]]]]]]; cbn [append prefix];
    repeat dec_step; cbn [orb]; try reflexivity;
    try (exfalso; apply H1; reflexivity); try (exfalso; apply H2; reflexivity);
    try (cbn in Hc; discriminate Hc).
Qed.

Theorem resolve_http_like_prefix ns p l : split_colon p = None -> p <> "http" -> p <> "https" ->
  resolve ns (p ++ String ":" l) = match ns_get ns p with Some e => Some (NQ e l) | None => None end.
Proof.
  intros Hc H1 H2. unfold resolve. rewrite curie_nonempty.
  pose proof (curie_not_url p l Hc H1 H2) as U. unfold is_url in U. rewrite U.
  rewrite split_colon_app' by exact Hc. reflexivity.
Qed.

(** ** the key cache is transparent *)
Theorem cache_transparent ns c k : cache_ok ns c ->
  fst (resolve_cached ns c k) = resolve ns k /\ cache_ok ns (snd (resolve_cached ns c k)).
Proof.
  intros Hok. unfold resolve_cached.
  destruct (lookup k c) as [q|] eqn:E.
  - split; [cbn; symmetry; now apply Hok | exact Hok].
  - destruct (resolve ns k) as [q|] eqn:R; cbn [fst snd]; (split; [reflexivity|]); [|exact Hok].
    intros k' q' H. cbn [lookup] in H. destruct (String.eqb k' k) eqn:Ek.
    + apply String.eqb_eq in Ek. subst. now injection H as <-.
    + now apply Hok.
Qed.
Lemma cache_ok_nil ns : cache_ok ns []. Proof. intros k q H. discriminate. Qed.
