(** Gap-tolerant store invariant for C04.  After a crash the persisted sequence of a dataset has
    skipped the positions of the lost write (or the rest of a lease), so the [dinv] of
    Proofs/StoreProofs.v (positions contiguous from 0, [d_next] = number of entries) cannot hold in a
    recovered store.  [dinvg] keeps everything else of [dinv] and weakens the two sequence clauses to
    "positions strictly increasing, all below [d_next]".  It is preserved by the batch loop for EVERY
    equality-flag / duplicate-handling variant (the crash theorems do not depend on those). *)
From Coq Require Import List ZArith Bool Lia.
From DH Require Import Model.Store Proofs.StoreProofs.
Import ListNotations.
Open Scope Z_scope.

Fixpoint sseq (l : list entry) : Prop :=
  match l with [] => True | x :: l' => Forall (fun y => en_seq x < en_seq y) l' /\ sseq l' end.

Lemma sseq_app l1 l2 :
  sseq l1 -> sseq l2 -> (forall x y, In x l1 -> In y l2 -> en_seq x < en_seq y) -> sseq (l1 ++ l2).
Proof.
  induction l1 as [|x l1 IH]; cbn [app sseq]; intros H1 H2 H; [exact H2|].
  destruct H1 as [Hx H1]. split.
  - apply Forall_app; split; [exact Hx|]. apply Forall_forall. intros y Hy. apply H; [now left | exact Hy].
  - apply IH; try assumption. intros a b Ha Hb. apply H; [now right | exact Hb].
Qed.

Record dinvg (clk : Z) (d : dstate) : Prop := {
  g_ptr : forall id, assoc id (d_latest d) = option_map ekey (last_entry (d_entries d) id);
  g_sorted : ksorted (d_entries d);
  g_times : times_le clk (d_entries d);
  g_sseq : sseq (d_entries d);
  g_below : Forall (fun e => 0 <= en_seq e < d_next d) (d_entries d);
  g_next : 0 <= d_next d
}.

Lemma zseq_In a n x : In x (zseq a n) <-> a <= x < a + Z.of_nat n.
Proof.
  revert a; induction n as [|n IH]; intros a; cbn [zseq In].
  - lia.
  - rewrite IH. lia.
Qed.

Lemma sseq_of_zseq l a : map en_seq l = zseq a (length l) -> sseq l.
Proof.
  revert a; induction l as [|x l IH]; intros a H; cbn [sseq]; [exact I|].
  cbn [map length zseq] in H. injection H as Hx Hl. split; [|eapply IH; exact Hl].
  apply Forall_forall. intros y Hy.
  assert (Hin : In (en_seq y) (zseq (a + 1) (length l))) by (rewrite <- Hl; now apply in_map).
  apply zseq_In in Hin. lia.
Qed.

Lemma below_of_zseq l a : map en_seq l = zseq a (length l) ->
  Forall (fun e => a <= en_seq e < a + Z.of_nat (length l)) l.
Proof.
  intros H. apply Forall_forall. intros y Hy.
  assert (Hin : In (en_seq y) (zseq a (length l))) by (rewrite <- H; now apply in_map).
  now apply zseq_In in Hin.
Qed.

(** the exact invariant implies the gap-tolerant one *)
Lemma dinv_dinvg clk d : dinv clk d -> dinvg clk d.
Proof.
  intros [H0 H1 H2 H3 H4]. constructor; try assumption.
  - eapply sseq_of_zseq; exact H3.
  - pose proof (below_of_zseq _ _ H3) as Hb. rewrite H4.
    eapply Forall_impl; [|exact Hb]. cbv beta. intros; lia.
  - rewrite H4. lia.
Qed.

Lemma dinvg0 clk : dinvg clk dstate0.
Proof. apply dinv_dinvg, dinv0. Qed.

Lemma dinvg_mono clk clk' d : clk <= clk' -> dinvg clk d -> dinvg clk' d.
Proof.
  intros Hle [H0 H1 H2 H3 H4 H5]. constructor; try assumption.
  eapply Forall_impl; [|exact H2]. cbv beta. intros; lia.
Qed.

(** same data, a later next position (what a lease or a lost write leaves behind) *)
Lemma dinvg_bump clk d d' :
  d_entries d' = d_entries d -> d_latest d' = d_latest d -> d_next d <= d_next d' ->
  dinvg clk d -> dinvg clk d'.
Proof.
  intros He Hl Hn [H0 H1 H2 H3 H4 H5]. constructor; rewrite ?He, ?Hl; try assumption; [|lia].
  eapply Forall_impl; [|exact H4]. cbv beta. intros; lia.
Qed.

(** the latest pointer names the content of the last version (as [dinv_latest]) *)
Lemma dinvg_latest clk d : dinvg clk d -> forall id, stored_latest d id = current_of (feed_of d) id.
Proof.
  intros Hd id. unfold stored_latest, feed_of. fold (efeed (d_entries d)).
  rewrite current_of_last_entry, (g_ptr _ _ Hd).
  destruct (last_entry (d_entries d) id) as [e|] eqn:El; cbn [option_map ekey]; [|reflexivity].
  now rewrite (find_last_entry _ _ _ (g_sorted _ _ Hd) El).
Qed.

(** ** the batch loop, for any variant: shape of the result and the invariant *)
Record lshape (d : dstate) (t i : Z) (acc : bacc) : Prop := {
  lg_pend : Forall (fun e => en_time e = t /\ 0 <= en_bidx e < i) (a_pend acc);
  lg_psorted : ksorted (a_pend acc);
  lg_next : a_next acc = d_next d + Z.of_nat (length (a_pend acc));
  lg_seqs : map en_seq (a_pend acc) = zseq (d_next d) (length (a_pend acc))
}.
Definition llatest (d : dstate) (acc : bacc) : Prop :=
  forall id, assoc id (a_latest acc) = option_map ekey (last_entry (d_entries d ++ a_pend acc) id).

Lemma batch_step_lshape fl dm d t i acc e :
  0 <= i -> lshape d t i acc -> lshape d t (i + 1) (batch_step fl dm d t acc (i, e)).
Proof.
  intros Hi [Hpend Hps Hnext Hseqs].
  destruct e as [id c]. unfold batch_step. cbn [e_id e_c].
  destruct (keep_decision fl dm (stored_latest d id) (assoc id (a_loc acc)) c).
  - set (en := {| en_seq := a_next acc; en_id := id; en_time := t; en_bidx := i; en_c := c |}).
    constructor; cbn [a_loc a_pend a_latest a_next].
    + apply Forall_app; split.
      * eapply Forall_impl; [|exact Hpend]. cbv beta. intros ? [? ?]; split; [assumption | lia].
      * constructor; [|constructor]. cbn. split; [reflexivity | lia].
    + apply ksorted_snoc; [exact Hps|].
      eapply Forall_impl; [|exact Hpend]. cbv beta. intros x [Hx1 Hx2]. right. cbn [en_time en_bidx en]. lia.
    + rewrite app_length. cbn [length]. lia.
    + rewrite map_app, app_length, Hseqs. cbn [map length en_seq en].
      replace (length (a_pend acc) + 1)%nat with (S (length (a_pend acc))) by lia.
      rewrite zseq_snoc, Hnext. reflexivity.
  - constructor; try assumption.
    eapply Forall_impl; [|exact Hpend]. cbv beta. intros ? [? ?]; split; [assumption | lia].
Qed.

Lemma batch_step_llatest fl dm d t i acc e :
  llatest d acc -> llatest d (batch_step fl dm d t acc (i, e)).
Proof.
  intros Hlat. destruct e as [id c]. unfold batch_step. cbn [e_id e_c].
  destruct (keep_decision fl dm (stored_latest d id) (assoc id (a_loc acc)) c); [|exact Hlat].
  intros id'. cbn [a_latest a_pend]. rewrite assoc_cons, app_assoc, last_entry_snoc. cbn [en_id]. rewrite Z.eqb_sym.
  destruct (Z.eqb id id'); [reflexivity | apply Hlat].
Qed.

Lemma batch_fold_lshape fl dm d t ents : forall i acc,
  0 <= i -> lshape d t i acc ->
  lshape d t (i + Z.of_nat (length ents)) (fold_left (batch_step fl dm d t) (number_from i ents) acc).
Proof.
  induction ents as [|e ents IH]; intros i acc Hi Hl; cbn [number_from fold_left length].
  - replace (i + Z.of_nat 0) with i by lia. exact Hl.
  - replace (i + Z.of_nat (S (length ents))) with (i + 1 + Z.of_nat (length ents)) by lia.
    apply IH; [lia|]. now apply batch_step_lshape.
Qed.

Lemma batch_fold_llatest fl dm d t ents : forall i acc,
  llatest d acc -> llatest d (fold_left (batch_step fl dm d t) (number_from i ents) acc).
Proof.
  induction ents as [|e ents IH]; intros i acc Hl; cbn [number_from fold_left]; [exact Hl|].
  apply IH. now apply batch_step_llatest.
Qed.

(** the entries one dataset's share appends *)
Definition acc0_of (d : dstate) : bacc := {| a_loc := []; a_pend := []; a_latest := d_latest d; a_next := d_next d |}.
Definition batch_pend (fl : eqflags) (dm : dup_mode) (t : Z) (ents : list ent) (d : dstate) : list entry :=
  a_pend (fold_left (batch_step fl dm d t) (number_from 0 ents) (acc0_of d)).

Lemma lshape0 d t : lshape d t 0 (acc0_of d).
Proof. constructor; cbn [acc0_of a_pend a_next length]; try constructor; try exact I; cbn; lia. Qed.

(** shape of the result, without any hypothesis on the state *)
Lemma store_batch_shape fl dm t ents d :
  d_entries (store_batch_ds fl dm t ents d) = d_entries d ++ batch_pend fl dm t ents d
  /\ d_next (store_batch_ds fl dm t ents d) = d_next d + Z.of_nat (length (batch_pend fl dm t ents d))
  /\ map en_seq (batch_pend fl dm t ents d) = zseq (d_next d) (length (batch_pend fl dm t ents d))
  /\ Forall (fun e => en_time e = t /\ 0 <= en_bidx e < Z.of_nat (length ents)) (batch_pend fl dm t ents d).
Proof.
  unfold store_batch_ds, batch_pend. fold (acc0_of d).
  pose proof (batch_fold_lshape fl dm d t ents 0 (acc0_of d) ltac:(lia) (lshape0 d t)) as [Hp Hs Hn Hq].
  cbn [d_entries d_next]. repeat split; try assumption.
Qed.

(** ... and it keeps the gap-tolerant invariant, for every variant *)
Theorem store_batch_dinvg fl dm clk t ents d :
  dinvg clk d -> clk < t -> dinvg t (store_batch_ds fl dm t ents d).
Proof.
  intros Hd Ht.
  pose proof (batch_fold_lshape fl dm d t ents 0 (acc0_of d) ltac:(lia) (lshape0 d t)) as [Hpend Hps Hnext Hseqs].
  assert (Hl0 : llatest d (acc0_of d)).
  { intros id. cbn [acc0_of a_latest a_pend]. rewrite app_nil_r. apply (g_ptr _ _ Hd). }
  pose proof (batch_fold_llatest fl dm d t ents 0 (acc0_of d) Hl0) as Hlat.
  unfold store_batch_ds. fold (acc0_of d).
  set (acc := fold_left (batch_step fl dm d t) (number_from 0 ents) (acc0_of d)) in *.
  constructor; cbn [d_entries d_latest d_next].
  - exact Hlat.
  - apply ksorted_app; [exact (g_sorted _ _ Hd) | exact Hps |].
    intros x y Hx Hy. left.
    pose proof (g_times _ _ Hd) as Htl. unfold times_le in Htl. rewrite Forall_forall in Htl, Hpend.
    specialize (Htl x Hx). destruct (Hpend y Hy). lia.
  - apply Forall_app; split.
    + eapply Forall_impl; [|exact (g_times _ _ Hd)]. cbv beta. intros; lia.
    + eapply Forall_impl; [|exact Hpend]. cbv beta. intros ? [? ?]; lia.
  - apply sseq_app; [exact (g_sseq _ _ Hd) | eapply sseq_of_zseq; exact Hseqs |].
    intros x y Hx Hy.
    pose proof (g_below _ _ Hd) as Hb. rewrite Forall_forall in Hb. specialize (Hb x Hx).
    pose proof (below_of_zseq _ _ Hseqs) as Hq. rewrite Forall_forall in Hq. specialize (Hq y Hy). lia.
  - rewrite Hnext. apply Forall_app; split.
    + eapply Forall_impl; [|exact (g_below _ _ Hd)]. cbv beta. intros; lia.
    + pose proof (below_of_zseq _ _ Hseqs) as Hq. eapply Forall_impl; [|exact Hq]. cbv beta.
      pose proof (g_next _ _ Hd). intros; lia.
  - rewrite Hnext. pose proof (g_next _ _ Hd). lia.
Qed.

(** ** the store *)
Definition sinvg (st : store) : Prop := forall ds, dinvg (s_clock st) (get_ds st ds).

Lemma sinv_sinvg st : sinv st -> sinvg st.
Proof. intros H ds. apply dinv_dinvg, H. Qed.

Lemma sinvg0 : sinvg store0.
Proof. apply sinv_sinvg, sinv0. Qed.

Definition batch_fold (fl : eqflags) (dm : dup_mode) (t : Z) (sets : list (Z * list ent)) (st : store) : store :=
  fold_left (fun s (p : Z * list ent) => set_ds s (fst p) (store_batch_ds fl dm t (snd p) (get_ds s (fst p)))) sets st.

Lemma batch_fold_cons fl dm t p sets st :
  batch_fold fl dm t (p :: sets) st
  = batch_fold fl dm t sets (set_ds st (fst p) (store_batch_ds fl dm t (snd p) (get_ds st (fst p)))).
Proof. reflexivity. Qed.

Lemma batch_fold_clock fl dm t sets : forall st, s_clock (batch_fold fl dm t sets st) = s_clock st.
Proof.
  induction sets as [|p sets IH]; intros st; [reflexivity|].
  rewrite batch_fold_cons, IH. reflexivity.
Qed.

Lemma batch_fold_untouched fl dm t sets : forall st ds,
  ~ In ds (map fst sets) -> get_ds (batch_fold fl dm t sets st) ds = get_ds st ds.
Proof.
  induction sets as [|[k ents] sets IH]; intros st ds Hn; [reflexivity|].
  rewrite batch_fold_cons. cbn [map fst snd In] in *. rewrite IH by tauto. apply get_set_other. intros ->. apply Hn. now left.
Qed.

Lemma batch_fold_touched fl dm t sets : forall st ds ents,
  NoDup (map fst sets) -> In (ds, ents) sets ->
  get_ds (batch_fold fl dm t sets st) ds = store_batch_ds fl dm t ents (get_ds st ds).
Proof.
  induction sets as [|[k es] sets IH]; intros st ds ents Hnd Hin; [contradiction|].
  rewrite batch_fold_cons. cbn [map fst snd In] in *. inversion Hnd as [|? ? Hk Hnd']; subst.
  destruct Hin as [Heq|Hin].
  - injection Heq as -> ->. rewrite batch_fold_untouched by exact Hk. apply get_set_same.
  - assert (ds <> k). { intros ->. apply Hk. change k with (fst (k, ents)). now apply in_map. }
    rewrite (IH _ ds ents Hnd' Hin). now rewrite get_set_other.
Qed.

Definition wsets (o : wop) : list (Z * list ent) :=
  match o with WBatch ds ents => [(ds, ents)] | WTxn sets => sets end.

Lemma apply_wop_fold fl dm st o :
  apply_wop fl dm st o = batch_fold fl dm (s_clock st + 1) (wsets o) (tick st).
Proof. destruct o; reflexivity. Qed.

Lemma wf_wop_nodup o : wf_wop o -> NoDup (map fst (wsets o)).
Proof. destruct o as [ds ents|sets]; cbn; [intros _; repeat constructor; intros [] | trivial]. Qed.

Lemma apply_wop_clock fl dm st o : s_clock (apply_wop fl dm st o) = s_clock st + 1.
Proof. rewrite apply_wop_fold, batch_fold_clock. reflexivity. Qed.

Lemma apply_wop_untouched fl dm st o ds :
  ~ In ds (map fst (wsets o)) -> get_ds (apply_wop fl dm st o) ds = get_ds st ds.
Proof. intros H. rewrite apply_wop_fold, batch_fold_untouched by exact H. reflexivity. Qed.

Lemma apply_wop_touched fl dm st o ds ents :
  wf_wop o -> In (ds, ents) (wsets o) ->
  get_ds (apply_wop fl dm st o) ds = store_batch_ds fl dm (s_clock st + 1) ents (get_ds st ds).
Proof.
  intros Hwf Hin. rewrite apply_wop_fold, (batch_fold_touched _ _ _ _ _ ds ents (wf_wop_nodup _ Hwf) Hin). reflexivity.
Qed.

Lemma in_map_fst_inv {A B} (l : list (A * B)) x : In x (map fst l) -> exists y, In (x, y) l.
Proof.
  induction l as [|[a b] l IH]; cbn; [contradiction|].
  intros [<-|H]; [exists b; now left|]. destruct (IH H) as [y Hy]. exists y. now right.
Qed.

(** every write keeps the gap-tolerant invariant, whatever the variant *)
Theorem apply_wop_sinvg fl dm st o : wf_wop o -> sinvg st -> sinvg (apply_wop fl dm st o).
Proof.
  intros Hwf Hinv ds. rewrite apply_wop_clock.
  destruct (in_dec Z.eq_dec ds (map fst (wsets o))) as [Hin|Hn].
  - destruct (in_map_fst_inv _ _ Hin) as [ents He].
    rewrite (apply_wop_touched _ _ _ _ _ _ Hwf He).
    apply (store_batch_dinvg fl dm (s_clock st)); [apply Hinv | lia].
  - rewrite apply_wop_untouched by exact Hn. eapply dinvg_mono; [|apply Hinv]. lia.
Qed.
