(** Facts about the feed-level reader spec (Model/FeedSpec.v): reading everything,
    latest-only, paging with any limits, resuming at the end. *)
From Coq Require Import List ZArith Bool Lia.
From DH Require Import Model.Store Model.FeedSpec.
Import ListNotations.
Open Scope Z_scope.

Definition flags (latest : bool) (f : feed) : list (oent * bool) :=
  if latest then flag_latest f else map (fun x => (x, true)) f.
Definition sel (l : list (oent * bool)) : list oent := map fst (filter snd l).

Lemma spec_changes_eq f since limit latest :
  spec_changes f since limit latest =
  (sel (take_sel limit (skipz since (flags latest f))),
   match skipz since (flags latest f) with
   | [] => since
   | _ => since + Z.of_nat (length (take_sel limit (skipz since (flags latest f))))
   end).
Proof. reflexivity. Qed.

Lemma skipz_nonpos' {A} n (l : list A) : n <= 0 -> skipz n l = l.
Proof. intros H. destruct l; cbn [skipz]; [reflexivity|]. destruct (Z.leb_spec n 0); [reflexivity | lia]. Qed.

Lemma skipz_nil {A} n : skipz n (@nil A) = [].
Proof. reflexivity. Qed.

Lemma skipz_length_app {A} (p r : list A) : skipz (Z.of_nat (length p)) (p ++ r) = r.
Proof.
  induction p as [|x p IH]; cbn [length app].
  - apply skipz_nonpos'. cbn. lia.
  - cbn [skipz]. destruct (Z.leb_spec (Z.of_nat (S (length p))) 0); [lia|].
    replace (Z.of_nat (S (length p)) - 1) with (Z.of_nat (length p)) by lia. exact IH.
Qed.

Lemma skipz_add {A} (l : list A) : forall a b, 0 <= a -> 0 <= b -> skipz (a + b) l = skipz b (skipz a l).
Proof.
  induction l as [|x l IH]; intros a b Ha Hb; [reflexivity|].
  cbn [skipz]. destruct (Z.leb_spec a 0) as [Ha0|Ha0].
  - assert (a = 0) by lia. subst. cbn [Z.add]. reflexivity.
  - destruct (Z.leb_spec (a + b) 0); [lia|].
    replace (a + b - 1) with ((a - 1) + b) by lia. apply IH; lia.
Qed.

(** [take_sel] returns a prefix *)
Lemma take_sel_prefix l : forall limit, exists r, l = take_sel limit l ++ r.
Proof.
  induction l as [|x l IH]; intros limit; cbn [take_sel].
  - exists []. reflexivity.
  - destruct (snd x).
    + destruct (Z.eqb limit 1).
      * exists l. reflexivity.
      * destruct (IH (limit - 1)) as [r Hr]. exists r. cbn [app]. now rewrite <- Hr.
    + destruct (IH limit) as [r Hr]. exists r. cbn [app]. now rewrite <- Hr.
Qed.

(** without a limit everything is scanned *)
Lemma take_sel_all l : forall limit, limit <= 0 -> take_sel limit l = l.
Proof.
  induction l as [|x l IH]; intros limit H; cbn [take_sel]; [reflexivity|].
  destruct (snd x).
  - replace (Z.eqb limit 1) with false by (symmetry; apply Z.eqb_neq; lia).
    now rewrite IH by lia.
  - now rewrite IH.
Qed.

(** at most [limit] entities per page *)
Lemma take_sel_count l : forall limit, 0 < limit ->
  Z.of_nat (length (sel (take_sel limit l))) <= limit.
Proof.
  unfold sel. induction l as [|x l IH]; intros limit H; cbn [take_sel]; [cbn; lia|].
  destruct (snd x) eqn:Ex.
  - destruct (Z.eqb_spec limit 1).
    + cbn [filter]. rewrite Ex. cbn. lia.
    + cbn [filter]. rewrite Ex. cbn [map length]. specialize (IH (limit - 1) ltac:(lia)). lia.
  - cbn [filter]. rewrite Ex. apply IH. exact H.
Qed.

(** ** one page: what it returns plus what remains after its token is what remained before *)
Theorem page_partition f since limit latest :
  0 <= since ->
  let '(out, next) := spec_changes f since limit latest in
  out ++ sel (skipz next (flags latest f)) = sel (skipz since (flags latest f))
  /\ since <= next.
Proof.
  intros Hs. rewrite spec_changes_eq.
  remember (skipz since (flags latest f)) as rest eqn:Erest.
  destruct (take_sel_prefix rest limit) as [r Hr].
  destruct rest as [|x rest'].
  - cbn [take_sel sel filter map app]. rewrite <- Erest. split; [reflexivity | lia].
  - set (sc := take_sel limit (x :: rest')) in *.
    rewrite skipz_add by lia. rewrite <- Erest.
    assert (Hsk : skipz (Z.of_nat (length sc)) (x :: rest') = r)
      by (rewrite Hr at 1; apply skipz_length_app).
    rewrite Hsk. split; [|lia].
    transitivity (sel (sc ++ r)); [unfold sel; now rewrite filter_app, map_app | now rewrite <- Hr].
Qed.

(** ** following tokens through any sequence of limits *)
Fixpoint read_pages (f : feed) (latest : bool) (since : Z) (limits : list Z) : list (list oent) * Z :=
  match limits with
  | [] => ([], since)
  | l :: ls =>
    let '(out, next) := spec_changes f since l latest in
    let '(outs, final) := read_pages f latest next ls in
    (out :: outs, final)
  end.

Theorem pages_partition f latest limits : forall since,
  0 <= since ->
  let '(outs, final) := read_pages f latest since limits in
  concat outs ++ sel (skipz final (flags latest f)) = sel (skipz since (flags latest f))
  /\ since <= final.
Proof.
  induction limits as [|l ls IH]; intros since Hs; cbn [read_pages].
  - cbn [concat app]. split; [reflexivity | lia].
  - pose proof (page_partition f since l latest Hs) as Hp.
    destruct (spec_changes f since l latest) as [out next]. destruct Hp as [Hp Hle].
    specialize (IH next ltac:(lia)).
    destruct (read_pages f latest next ls) as [outs final]. destruct IH as [IH Hle2].
    cbn [concat]. rewrite <- app_assoc, IH, Hp. split; [reflexivity | lia].
Qed.

(** ** reading everything from the start *)
Lemma sel_all_true (f : feed) : sel (map (fun x => (x, true)) f) = f.
Proof. unfold sel. induction f as [|x f IH]; cbn; [reflexivity | now rewrite IH]. Qed.

Lemma sel_flag_latest f : sel (flag_latest f) = view_of f.
Proof.
  unfold sel. induction f as [|[i c] f IH]; cbn [flag_latest view_of filter snd]; [reflexivity|].
  destruct (is_last_occ f i); cbn [map fst]; now rewrite IH.
Qed.

Lemma flags_length latest f : length (flags latest f) = length f.
Proof.
  destruct latest; cbn [flags]; [|apply map_length].
  induction f as [|[i c] f IH]; cbn; [reflexivity | now rewrite IH].
Qed.

Theorem read_all f latest :
  spec_changes f 0 0 latest
  = ((if latest then view_of f else f), Z.of_nat (length f)).
Proof.
  rewrite spec_changes_eq. rewrite skipz_nonpos' by lia. rewrite take_sel_all by lia.
  f_equal.
  - destruct latest; cbn [flags]; [apply sel_flag_latest | apply sel_all_true].
  - pose proof (flags_length latest f) as Hl.
    destruct (flags latest f) eqn:E; destruct f; cbn [length] in *; try discriminate; try reflexivity.
    rewrite Hl. reflexivity.
Qed.

(** ** a token at or beyond the end returns nothing and is stable *)
Lemma skipz_beyond {A} (l : list A) : forall n, Z.of_nat (length l) <= n -> skipz n l = [].
Proof.
  induction l as [|x l IH]; intros n H; [reflexivity|]. cbn [skipz length] in *.
  destruct (Z.leb_spec n 0); [lia|]. apply IH. lia.
Qed.

Theorem read_at_end f since limit latest :
  Z.of_nat (length f) <= since -> spec_changes f since limit latest = ([], since).
Proof.
  intros H. rewrite spec_changes_eq, skipz_beyond by (rewrite flags_length; exact H). reflexivity.
Qed.

(** ** after new writes, a token obtained at the end returns exactly the new entries *)
Lemma skipz_app_exact {A} (p r : list A) : skipz (Z.of_nat (length p)) (p ++ r) = r.
Proof. apply skipz_length_app. Qed.

Theorem resume_after_writes f g limit :
  let '(out, next) := spec_changes (f ++ g) (Z.of_nat (length f)) limit false in
  exists r, g = out ++ r /\ (limit <= 0 -> r = []) /\ next = Z.of_nat (length f) + Z.of_nat (length out).
Proof.
  rewrite spec_changes_eq. cbn [flags]. rewrite map_app.
  set (F := map _ f).
  set (G := map _ g).
  assert (HF : Z.of_nat (length f) = Z.of_nat (length F)) by (subst F; now rewrite map_length).
  rewrite HF, skipz_length_app.
  destruct (take_sel_prefix G limit) as [r Hr].
  assert (Hsel : forall l : list (oent * bool), Forall (fun x => snd x = true) l -> length (sel l) = length l).
  { unfold sel. induction 1 as [|x l Hx _ IH]; cbn [filter]; [reflexivity|]. rewrite Hx. cbn. now rewrite IH. }
  assert (HG : Forall (fun x => snd x = true) G) by (subst G; apply Forall_forall; intros x Hx; apply in_map_iff in Hx; destruct Hx as (? & <- & _); reflexivity).
  assert (Hpre : Forall (fun x => snd x = true) (take_sel limit G)).
  { rewrite Hr in HG. apply Forall_app in HG. tauto. }
  exists (sel r). split; [|split].
  - rewrite <- (sel_all_true g). fold G. rewrite Hr at 1. unfold sel. now rewrite filter_app, map_app.
  - intros Hl. rewrite take_sel_all in Hr by exact Hl.
    assert (r = []) as -> by (destruct r; [reflexivity|]; apply (f_equal (@length _)) in Hr; rewrite app_length in Hr; cbn in Hr; lia).
    reflexivity.
  - rewrite (Hsel _ Hpre).
    destruct G as [|x G'] eqn:EG; [cbn; lia|]. reflexivity.
Qed.
