(** Link between the C12 evaluator and the theorems: when the repaired model predicts the reads taken before
    and after a (complete, un-raced) compaction, the feed clause of the executable spec holds on those
    observations.  PARTIAL: see the comment at the end for the clauses not linked. *)
From Coq Require Import List ZArith NArith Bool Lia.
From DH Require Import Lib.CheckLib Model.Store Model.FeedSpec Model.Compact Proofs.StoreProofs
     Proofs.C01Proofs Proofs.CompactProofs Check.C12Check Proofs.CompactReaders.
Import ListNotations.
Open Scope Z_scope.

(** [oents_eqb] is an equivalence that [dedup_from] respects *)
Lemma oent_eqb_refl a : oent_eqb a a = true.
Proof. unfold oent_eqb. now rewrite Z.eqb_refl, identical_refl. Qed.
Lemma oent_eqb_sym a b : oent_eqb a b = oent_eqb b a.
Proof. unfold oent_eqb. now rewrite Z.eqb_sym, identical_sym. Qed.
Lemma oent_eqb_trans a b c : oent_eqb a b = true -> oent_eqb b c = true -> oent_eqb a c = true.
Proof.
  unfold oent_eqb. rewrite !andb_true_iff, !Z.eqb_eq. intros [-> H1] [-> H2]. split; [reflexivity|].
  eapply identical_trans; eassumption.
Qed.
Lemma oents_eqb_refl l : oents_eqb l l = true.
Proof. induction l as [|a l IH]; cbn; [reflexivity|]. now rewrite oent_eqb_refl, IH. Qed.
Lemma oents_eqb_sym l : forall m, oents_eqb l m = oents_eqb m l.
Proof.
  induction l as [|a l IH]; destruct m as [|b m]; cbn; try reflexivity.
  unfold oents_eqb in IH. now rewrite oent_eqb_sym, IH.
Qed.
Lemma oents_eqb_trans l : forall m n, oents_eqb l m = true -> oents_eqb m n = true -> oents_eqb l n = true.
Proof.
  induction l as [|a l IH]; destruct m as [|b m], n as [|c n]; cbn; try congruence.
  rewrite !andb_true_iff. intros [H1 H2] [H3 H4]. split; [eapply oent_eqb_trans; eassumption|].
  eapply IH; eassumption.
Qed.

Definition cur_same (p q : feed) : Prop := forall id, oc_same (current_of p id) (current_of q id) = true.

Lemma cur_same_snoc p q i c c' : cur_same p q -> identical c c' = true -> cur_same (p ++ [(i, c)]) (q ++ [(i, c')]).
Proof.
  intros H Hc id. rewrite !current_of_snoc. destruct (Z.eqb i id); [exact Hc | apply H].
Qed.

Lemma dedup_respects f : forall g p q,
  oents_eqb f g = true -> cur_same p q ->
  oents_eqb (dedup_from p f) (dedup_from q g) = true.
Proof.
  induction f as [|[i c] f IH]; destruct g as [|[j c'] g]; intros p q Hfg Hpq; cbn in Hfg; try discriminate; [reflexivity|].
  unfold oents_eqb in Hfg. cbn [list_eqb] in Hfg. apply andb_true_iff in Hfg. destruct Hfg as [Hh Ht].
  unfold oent_eqb in Hh. cbn [fst snd] in Hh. apply andb_true_iff in Hh. destruct Hh as [Hij Hc].
  apply Z.eqb_eq in Hij. subst j.
  cbn [dedup_from].
  assert (Hrest : oents_eqb (dedup_from (p ++ [(i, c)]) f) (dedup_from (q ++ [(i, c')]) g) = true)
    by (apply IH; [exact Ht | now apply cur_same_snoc]).
  assert (Hcons : oents_eqb ((i, c) :: dedup_from (p ++ [(i, c)]) f) ((i, c') :: dedup_from (q ++ [(i, c')]) g) = true).
  { unfold oents_eqb. cbn [list_eqb]. unfold oent_eqb at 1. cbn [fst snd]. rewrite Z.eqb_refl, Hc. exact Hrest. }
  pose proof (Hpq i) as Hi.
  destruct (current_of p i) as [x|], (current_of q i) as [y|]; cbn [oc_same] in Hi; try discriminate; [|exact Hcons].
  (* identical x c = identical y c' *)
  assert (Hxy : identical x c = identical y c').
  { rewrite (identical_cong_l x y c Hi). rewrite (identical_sym y c), (identical_sym y c').
    now rewrite (identical_cong_l c c' y Hc). }
  rewrite Hxy. destruct (identical y c'); [exact Hrest | exact Hcons].
Qed.

Lemma spec_compact_respects f g : oents_eqb f g = true -> oents_eqb (spec_compact f) (spec_compact g) = true.
Proof. intros H. apply dedup_respects; [exact H | intros id; reflexivity]. Qed.

(** the full read (since 0, no limit, all versions) returns the feed *)
Lemma changes_loop_all latest l : forall processed ls fnd,
  fst (fst (changes_loop latest false 0 l processed ls fnd)) = l.
Proof.
  induction l as [|e l IH]; intros processed ls fnd; cbn [changes_loop]; [reflexivity|].
  cbn [Z.ltb andb].
  specialize (IH (processed + 1) (en_seq e) true).
  destruct (changes_loop latest false 0 l (processed + 1) (en_seq e) true) as [[out ls'] f']. cbn [fst] in *. now rewrite IH.
Qed.

Lemma m_full_feed d : Forall (fun e => 0 <= en_seq e) (d_entries d) -> m_full d = feed_of d.
Proof.
  intros Hs. unfold m_full, changes, feed_of.
  assert (Hf : filter (fun e => 0 <=? en_seq e) (d_entries d) = d_entries d).
  { apply filter_all_in. intros x Hx. rewrite Forall_forall in Hs. apply Z.leb_le. now apply Hs. }
  rewrite Hf.
  pose proof (changes_loop_all (d_latest d) (d_entries d) 0 0 false) as H.
  destruct (changes_loop (d_latest d) false 0 (d_entries d) 0 0 false) as [[out ls] f]. cbn [fst] in *. now rewrite H.
Qed.

Lemma compact_store_plain v st ds thr aft order :
  compact_store v st ds thr 0 aft None order
  = {| cr_store := set_ds st ds (compact_ds (v_cf v) (v_fl v) thr order (get_ds st ds));
       cr_flushes := Z.of_nat (length (plan (v_cf v) (v_fl v) thr (get_ds st ds) order));
       cr_crashed := false; cr_raced := false; cr_racenew := 0;
       cr_shared := existsb i_shared (concat (plan (v_cf v) (v_fl v) thr (get_ds st ds) order)) |}.
Proof.
  unfold compact_store. change (0 <? 0) with false. cbn [andb]. rewrite firstn_all. reflexivity.
Qed.

(** C12_agree_implies_spec (feed clause): in any model state whose dataset satisfies the invariant, if the repaired
    model predicts the reads before and after a complete, un-raced compaction, then the observed feed after is the
    observed feed before minus the versions identical to their immediate predecessor. *)
Theorem agree_compact_feed st ds thr aft order o_fl o_rn before after :
  let d := get_ds st ds in
  cinv d -> Forall (fun e => 0 <= en_seq e) (d_entries d) -> NoDup order ->
  (forall id, assoc id (d_latest d) <> None -> In id order) ->
  snd (fst (agree_op v_fixed false st (CCompact ds thr 0 aft None order o_fl false false o_rn before after))) = true ->
  oents_eqb (ro_full after) (spec_compact (ro_full before)) = true.
Proof.
  intros d Hd Hseq Hnd Hcov Hag.
  cbn [agree_op snd fst] in Hag. rewrite compact_store_plain in Hag.
  cbn [cr_store cr_flushes cr_crashed cr_raced cr_racenew cr_shared] in Hag.
  repeat (apply andb_true_iff in Hag; destruct Hag as [Hag ?]).
  unfold reads_agree in *.
  repeat match goal with H : _ && _ = true |- _ => apply andb_true_iff in H; destruct H end.
  match goal with H : oents_eqb (m_full (get_ds st ds)) (ro_full before) = true |- _ => rename H into Hb end.
  match goal with H : oents_eqb (m_full (get_ds (set_ds st ds _) ds)) (ro_full after) = true |- _ => rename H into Ha end.
  rewrite get_set_same in Ha. fold d in Hb.
  change (compact_ds (v_cf v_fixed) (v_fl v_fixed) thr order (get_ds st ds))
    with (compact_ds cf_fixed (v_fl v_fixed) thr order d) in Ha.
  destruct (compact_invisible_full (v_fl v_fixed) thr order d eq_refl Hd Hnd Hcov) as (Hfeed & Hd' & _ & _).
  pose proof (compact_invisible (v_fl v_fixed) thr order d eq_refl Hd Hnd) as Hr.
  rewrite m_full_feed in Ha.
  - rewrite Hfeed in Ha. rewrite m_full_feed in Hb by exact Hseq.
    rewrite oents_eqb_sym in Ha.
    eapply oents_eqb_trans; [exact Ha | apply spec_compact_respects; exact Hb].
  - rewrite Forall_forall in *. intros x Hx. apply Hseq. apply (ir_sub _ _ Hr). exact Hx.
Qed.

(** ** the whole executable spec of an un-raced compaction (complete or killed after any number of flushes) *)

(** the repaired strategy never schedules reference keys shared with a kept version *)
Lemma pass_noshared eqb same : forall vs prev, Forall (fun i => i_shared i = false) (entity_pass cf_fixed eqb same prev vs).
Proof.
  induction vs as [|v vs IH]; intros prev; cbn [entity_pass]; [constructor|].
  destruct (eqb (en_c prev) (en_c v)); [constructor; [reflexivity | apply IH]|].
  destruct (0 <? _); [constructor; [reflexivity | apply IH] | apply IH].
Qed.

Lemma all_noshared eqb d order : Forall (fun i => i_shared i = false) (all_instrs cf_fixed eqb d order).
Proof.
  apply Forall_forall. intros i Hi. unfold all_instrs in Hi. apply in_flat_map in Hi. destruct Hi as (id & _ & Hi).
  unfold entity_instrs in Hi. destruct (versions_of d id) as [|v vs]; [destruct Hi|].
  pose proof (pass_noshared eqb (shares_time (v :: vs)) vs v) as H. rewrite Forall_forall in H. now apply H.
Qed.

Lemma plan_prefix_noshared fl thr d order k :
  existsb i_shared (concat (firstn k (plan cf_fixed fl thr d order))) = false.
Proof.
  apply not_true_is_false. intros H. apply existsb_exists in H. destruct H as (i & Hi & Hs).
  assert (Hin : In i (all_instrs cf_fixed (compact_eqb fl) d order)).
  { unfold plan in Hi.
    pose proof (concat_batches (eff_threshold thr) (all_instrs cf_fixed (compact_eqb fl) d order) [] 0) as Hc.
    cbn [app] in Hc. rewrite <- Hc.
    rewrite <- (firstn_skipn k (batches _ _ _ _)), concat_app. apply in_or_app. now left. }
  pose proof (all_noshared (compact_eqb fl) d order) as Hall. rewrite Forall_forall in Hall.
  rewrite (Hall i Hin) in Hs. discriminate.
Qed.

Definition crashing_of (n crash : Z) : bool := (0 <? crash) && (crash <=? n).

Lemma compact_store_norace v st ds thr crash (aft : bool) order :
  let d := get_ds st ds in
  let p := plan (v_cf v) (v_fl v) thr d order in
  let crashing := crashing_of (Z.of_nat (length p)) crash in
  let upto := if crashing then (if aft then Z.to_nat crash else Z.to_nat (crash - 1)) else length p in
  compact_store v st ds thr crash aft None order
  = {| cr_store := set_ds st ds (compact_crash (v_cf v) (v_fl v) thr order upto d);
       cr_flushes := if crashing then crash else Z.of_nat (length p);
       cr_crashed := crashing; cr_raced := false; cr_racenew := 0;
       cr_shared := existsb i_shared (concat (firstn upto p)) |}.
Proof. reflexivity. Qed.

Definition gkey (g : gobs) : Z * option Z := (g_id g, g_at g).

Lemma partials_trans (a b c : list (Z * content)) :
  list_eqb partial_eqb a b = true -> list_eqb partial_eqb b c = true -> list_eqb partial_eqb a c = true.
Proof. exact (oents_eqb_trans a b c). Qed.
Lemma partials_sym (a b : list (Z * content)) : list_eqb partial_eqb a b = list_eqb partial_eqb b a.
Proof. exact (oents_eqb_sym a b). Qed.

Lemma partials_nil_iff (a b : list (Z * content)) : list_eqb partial_eqb a b = true ->
  forall (A : Type) (x y : A), match a with [] => x | _ => y end = match b with [] => x | _ => y end.
Proof. destruct a, b; cbn; intros H; try discriminate; reflexivity. Qed.

Lemma get_same_of_agree st ds d' ga gb :
  keys_sorted st -> cinv (get_ds st ds) -> inv_rel (get_ds st ds) d' ->
  gkey ga = gkey gb ->
  get_agrees (set_ds st ds d') ds ga = true -> get_agrees st ds gb = true ->
  get_same ga gb = true.
Proof.
  intros Hk Hd Hr Hkey Ha Hb. unfold gkey in Hkey. injection Hkey as Hid Hat.
  unfold get_agrees in Ha, Hb. rewrite Hid, Hat in Ha.
  change (s_clock (set_ds st ds d')) with (s_clock st) in Ha.
  set (at' := match g_at gb with Some t => t | None => s_clock st end) in *.
  destruct (lookup_same st ds d' (g_id gb) at' Hk Hd Hr) as [Hp Hh].
  destruct (entity_at (set_ds st ds d') (g_id gb) at' [ds]) as [p' h'].
  destruct (entity_at st (g_id gb) at' [ds]) as [p h]. cbn [fst snd] in Hp, Hh. subst h'.
  apply andb_true_iff in Ha. destruct Ha as [Ha _]. apply andb_true_iff in Ha. destruct Ha as [Ha1 Ha2].
  apply andb_true_iff in Hb. destruct Hb as [Hb _]. apply andb_true_iff in Hb. destruct Hb as [Hb1 Hb2].
  unfold get_same. rewrite Hid, Z.eqb_refl. cbn [andb].
  apply andb_true_iff. split.
  - rewrite partials_sym in Ha1. eapply partials_trans; [exact Ha1|]. eapply partials_trans; [exact Hp | exact Hb1].
  - apply eqb_prop in Ha2, Hb2. rewrite Ha2, Hb2, (partials_nil_iff p' p Hp). apply eqb_reflx.
Qed.

Lemma gets_same_of_agree st ds d' : keys_sorted st -> cinv (get_ds st ds) -> inv_rel (get_ds st ds) d' ->
  forall la lb, map gkey la = map gkey lb ->
  forallb (get_agrees (set_ds st ds d') ds) la = true -> forallb (get_agrees st ds) lb = true ->
  list_eqb get_same la lb = true.
Proof.
  intros Hk Hd Hr. induction la as [|a la IH]; destruct lb as [|b lb]; cbn [map forallb list_eqb]; intros Hm Ha Hb;
    try discriminate; [reflexivity|].
  assert (Hab : gkey a = gkey b) by congruence. assert (Hm' : map gkey la = map gkey lb) by congruence.
  clear Hm. rename Hm' into Hm. apply andb_true_iff in Ha, Hb. destruct Ha as [Ha1 Ha2], Hb as [Hb1 Hb2].
  rewrite (get_same_of_agree st ds d' a b Hk Hd Hr Hab Ha1 Hb1). cbn [andb]. now apply IH.
Qed.

Lemma seqs_nonneg_sub d d' : seqs_nonneg d -> inv_rel d d' -> seqs_nonneg d'.
Proof.
  unfold seqs_nonneg. rewrite !Forall_forall. intros H Hr x Hx. apply H, (ir_sub _ _ Hr), Hx.
Qed.

(** C12_agree_implies_spec: in any model state whose dataset satisfies the invariant, if the repaired model predicts
    the reads taken before and after an un-raced compaction - complete, or killed at any flush - then the WHOLE
    executable spec holds on those observations: no failing read, same latest-only feed (as a set), same listing,
    same answers to all lookups (current and point in time), same relations, and the full feed after is the feed
    before minus the versions identical to their immediate predecessor (killed: both de-duplicate to the same feed). *)
Theorem agree_compact_spec st ds thr crash (aft : bool) order o_fl o_cr o_rn before after :
  let d := get_ds st ds in
  cinv d -> seqs_nonneg d -> keys_sorted st -> NoDup order ->
  (forall id, assoc id (d_latest d) <> None -> In id order) ->
  map gkey (ro_gets after) = map gkey (ro_gets before) ->
  snd (fst (agree_op v_fixed false st (CCompact ds thr crash aft None order o_fl o_cr false o_rn before after))) = true ->
  spec_op_ok (CCompact ds thr crash aft None order o_fl o_cr false o_rn before after) = true.
Proof.
  intros d Hd Hseq Hks Hnd Hcov Hkeys Hag. subst d.
  cbn [agree_op snd fst] in Hag. rewrite compact_store_norace in Hag.
  cbn [cr_store cr_flushes cr_crashed cr_raced cr_racenew cr_shared] in Hag.
  unfold reads_agree in Hag.
  set (d := get_ds st ds) in *.
  change (v_cf v_fixed) with cf_fixed in Hag. set (fl := v_fl v_fixed) in *.
  set (p := plan cf_fixed fl thr d order) in *.
  set (crashing := crashing_of (Z.of_nat (length p)) crash) in *.
  set (upto := if crashing then (if aft then Z.to_nat crash else Z.to_nat (crash - 1)) else length p) in *.
  pose proof (plan_prefix_noshared fl thr d order upto) as Hns. fold p in Hns. rewrite Hns in Hag. clear Hns.
  set (d' := compact_crash cf_fixed fl thr order upto d) in *.
  rewrite get_set_same in Hag.
  assert (Hr : inv_rel d d') by (apply crash_invisible; [reflexivity | exact Hd | exact Hnd]).
  pose proof (ir_inv _ _ Hr) as Hd'. pose proof (seqs_nonneg_sub _ _ Hseq Hr) as Hseq'.
  unfold stale_matters in Hag. cbn [cf_stale_prev cf_fixed andb orb] in Hag.
  repeat (apply andb_true_iff in Hag; destruct Hag as [Hag ?]).
  repeat match goal with H : _ && _ = true |- _ => apply andb_true_iff in H; destruct H end.
  rename Hag into Bfull.
  match goal with H : oents_eqb (m_latest d) (ro_latest before) = true |- _ => rename H into Blat end.
  match goal with H : oents_eqb (osort (m_listing d)) (osort (ro_listing before)) = true |- _ => rename H into Blist end.
  match goal with H : forallb (get_agrees st ds) (ro_gets before) = true |- _ => rename H into Bgets end.
  match goal with H : oents_eqb (m_full d') (ro_full after) = true |- _ => rename H into Afull end.
  match goal with H : oents_eqb (m_latest d') (ro_latest after) = true |- _ => rename H into Alat end.
  match goal with H : oents_eqb (osort (m_listing d')) (osort (ro_listing after)) = true |- _ => rename H into Alist end.
  match goal with H : forallb (get_agrees (set_ds st ds d') ds) (ro_gets after) = true |- _ => rename H into Agets end.
  match goal with H : negb (ro_bad after) = true |- _ => rename H into Abad end.
  match goal with H : unmodelled_same before after = true |- _ => rename H into Hrels end.
  match goal with H : Bool.eqb crashing o_cr = true |- _ => rename H into Hcr end.
  apply eqb_prop in Hcr.
  cbn [spec_op_ok]. rewrite Abad. cbn [andb].
  apply andb_true_iff. split; [apply andb_true_iff; split; [apply andb_true_iff; split; [apply andb_true_iff; split|]|]|].
  - (* latest-only feed, as a set *)
    eapply oents_eqb_trans; [apply osort_respects; rewrite oents_eqb_sym; exact Alat|].
    eapply oents_eqb_trans; [|apply osort_respects; exact Blat].
    apply (views_same d d'); [now apply m_latest_view | now apply m_latest_view | apply (ir_last _ _ Hr)].
  - (* listing *)
    rewrite oents_eqb_sym in Alist. eapply oents_eqb_trans; [exact Alist|].
    eapply oents_eqb_trans; [|exact Blist].
    apply (views_same d d'); [now apply m_listing_view | now apply m_listing_view | apply (ir_last _ _ Hr)].
  - (* lookups *)
    apply (gets_same_of_agree st ds d' Hks Hd Hr _ _ Hkeys Agets Bgets).
  - exact Hrels.
  - (* full feed *)
    rewrite m_full_feed in Afull by exact Hseq'. rewrite m_full_feed in Bfull by exact Hseq.
    rewrite <- Hcr. destruct crashing eqn:Ecr.
    + pose proof (crash_feed fl thr order upto d eq_refl Hd Hnd) as Hf. fold d' in Hf.
      eapply oents_eqb_trans; [apply spec_compact_respects; rewrite oents_eqb_sym; exact Afull|].
      rewrite Hf. now apply spec_compact_respects.
    + assert (Hdd : d' = compact_ds cf_fixed fl thr order d).
      { unfold d', compact_crash, compact_ds, upto. fold p. now rewrite firstn_all. }
      destruct (compact_invisible_full fl thr order d eq_refl Hd Hnd Hcov) as (Hfeed & _).
      rewrite <- Hdd in Hfeed. rewrite Hfeed in Afull. rewrite oents_eqb_sym in Afull.
      eapply oents_eqb_trans; [exact Afull | now apply spec_compact_respects].
Qed.

(** NOT linked by a theorem (checked only by evaluation on the generated cases): the consistency clause of
    [spec_op_ok] for a compaction raced by a writer; the relationship queries are not modelled (the repaired model
    predicts "unchanged", which [agree] compares directly on the observations). *)
