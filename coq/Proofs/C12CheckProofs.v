(** Link between the C12 evaluator and the theorems: when the repaired model predicts the reads taken before
    and after a (complete, un-raced) compaction, the feed clause of the executable spec holds on those
    observations.  PARTIAL: see the comment at the end for the clauses not linked. *)
From Coq Require Import List ZArith NArith Bool Lia.
From DH Require Import Lib.CheckLib Model.Store Model.FeedSpec Model.Compact Proofs.StoreProofs
     Proofs.CompactProofs Check.C12Check.
Import ListNotations.
Open Scope Z_scope.

(** [oents_eqb] is an equivalence that [dedup_from] respects *)
Lemma oent_eqb_refl a : oent_eqb a a = true.
Proof. unfold oent_eqb. now rewrite Z.eqb_refl, identical_refl. Qed.
Lemma oent_eqb_sym a b : oent_eqb a b = oent_eqb b a.
Proof. unfold oent_eqb. now rewrite Z.eqb_sym, identical_sym. Qed.
Lemma oent_eqb_trans a b c : oent_eqb a b = true -> oent_eqb b c = true -> oent_eqb a c = true.
Proof.
  unfold oent_eqb. rewrite !andb_true_iff, !Z.eqb_eq. intros [-> H1] [-> H2]. split; [reflexivity|].
  eapply identical_trans; eassumption.
Qed.
Lemma oents_eqb_refl l : oents_eqb l l = true.
Proof. induction l as [|a l IH]; cbn; [reflexivity|]. now rewrite oent_eqb_refl, IH. Qed.
Lemma oents_eqb_sym l : forall m, oents_eqb l m = oents_eqb m l.
Proof.
  induction l as [|a l IH]; destruct m as [|b m]; cbn; try reflexivity.
  unfold oents_eqb in IH. now rewrite oent_eqb_sym, IH.
Qed.
Lemma oents_eqb_trans l : forall m n, oents_eqb l m = true -> oents_eqb m n = true -> oents_eqb l n = true.
Proof.
  induction l as [|a l IH]; destruct m as [|b m], n as [|c n]; cbn; try congruence.
  rewrite !andb_true_iff. intros [H1 H2] [H3 H4]. split; [eapply oent_eqb_trans; eassumption|].
  eapply IH; eassumption.
Qed.

Definition cur_same (p q : feed) : Prop := forall id, oc_same (current_of p id) (current_of q id) = true.

Lemma cur_same_snoc p q i c c' : cur_same p q -> identical c c' = true -> cur_same (p ++ [(i, c)]) (q ++ [(i, c')]).
Proof.
  intros H Hc id. rewrite !current_of_snoc. destruct (Z.eqb i id); [exact Hc | apply H].
Qed.

Lemma dedup_respects f : forall g p q,
  oents_eqb f g = true -> cur_same p q ->
  oents_eqb (dedup_from p f) (dedup_from q g) = true.
Proof.
  induction f as [|[i c] f IH]; destruct g as [|[j c'] g]; intros p q Hfg Hpq; cbn in Hfg; try discriminate; [reflexivity|].
  unfold oents_eqb in Hfg. cbn [list_eqb] in Hfg. apply andb_true_iff in Hfg. destruct Hfg as [Hh Ht].
  unfold oent_eqb in Hh. cbn [fst snd] in Hh. apply andb_true_iff in Hh. destruct Hh as [Hij Hc].
  apply Z.eqb_eq in Hij. subst j.
  cbn [dedup_from].
  assert (Hrest : oents_eqb (dedup_from (p ++ [(i, c)]) f) (dedup_from (q ++ [(i, c')]) g) = true)
    by (apply IH; [exact Ht | now apply cur_same_snoc]).
  assert (Hcons : oents_eqb ((i, c) :: dedup_from (p ++ [(i, c)]) f) ((i, c') :: dedup_from (q ++ [(i, c')]) g) = true).
  { unfold oents_eqb. cbn [list_eqb]. unfold oent_eqb at 1. cbn [fst snd]. rewrite Z.eqb_refl, Hc. exact Hrest. }
  pose proof (Hpq i) as Hi.
  destruct (current_of p i) as [x|], (current_of q i) as [y|]; cbn [oc_same] in Hi; try discriminate; [|exact Hcons].
  (* identical x c = identical y c' *)
  assert (Hxy : identical x c = identical y c').
  { rewrite (identical_cong_l x y c Hi). rewrite (identical_sym y c), (identical_sym y c').
    now rewrite (identical_cong_l c c' y Hc). }
  rewrite Hxy. destruct (identical y c'); [exact Hrest | exact Hcons].
Qed.

Lemma spec_compact_respects f g : oents_eqb f g = true -> oents_eqb (spec_compact f) (spec_compact g) = true.
Proof. intros H. apply dedup_respects; [exact H | intros id; reflexivity]. Qed.

(** the full read (since 0, no limit, all versions) returns the feed *)
Lemma changes_loop_all latest l : forall processed ls fnd,
  fst (fst (changes_loop latest false 0 l processed ls fnd)) = l.
Proof.
  induction l as [|e l IH]; intros processed ls fnd; cbn [changes_loop]; [reflexivity|].
  cbn [Z.ltb andb].
  specialize (IH (processed + 1) (en_seq e) true).
  destruct (changes_loop latest false 0 l (processed + 1) (en_seq e) true) as [[out ls'] f']. cbn [fst] in *. now rewrite IH.
Qed.

Lemma m_full_feed d : Forall (fun e => 0 <= en_seq e) (d_entries d) -> m_full d = feed_of d.
Proof.
  intros Hs. unfold m_full, changes, feed_of.
  assert (Hf : filter (fun e => 0 <=? en_seq e) (d_entries d) = d_entries d).
  { apply filter_all_in. intros x Hx. rewrite Forall_forall in Hs. apply Z.leb_le. now apply Hs. }
  rewrite Hf.
  pose proof (changes_loop_all (d_latest d) (d_entries d) 0 0 false) as H.
  destruct (changes_loop (d_latest d) false 0 (d_entries d) 0 0 false) as [[out ls] f]. cbn [fst] in *. now rewrite H.
Qed.

Lemma compact_store_plain v st ds thr order :
  compact_store v st ds thr 0 None order
  = {| cr_store := set_ds st ds (compact_ds (v_cf v) (v_fl v) thr order (get_ds st ds));
       cr_flushes := Z.of_nat (length (plan (v_cf v) (v_fl v) thr (get_ds st ds) order));
       cr_crashed := false; cr_raced := false; cr_racenew := 0;
       cr_shared := existsb i_shared (concat (plan (v_cf v) (v_fl v) thr (get_ds st ds) order)) |}.
Proof.
  unfold compact_store. change (0 <? 0) with false. cbn [andb]. rewrite firstn_all. reflexivity.
Qed.

(** C12_agree_implies_spec (feed clause): in any model state whose dataset satisfies the invariant, if the repaired
    model predicts the reads before and after a complete, un-raced compaction, then the observed feed after is the
    observed feed before minus the versions identical to their immediate predecessor. *)
Theorem agree_compact_feed st ds thr order o_fl o_rn before after :
  let d := get_ds st ds in
  cinv d -> Forall (fun e => 0 <= en_seq e) (d_entries d) -> NoDup order ->
  (forall id, assoc id (d_latest d) <> None -> In id order) ->
  snd (fst (agree_op v_fixed false st (CCompact ds thr 0 None order o_fl false false o_rn before after))) = true ->
  oents_eqb (ro_full after) (spec_compact (ro_full before)) = true.
Proof.
  intros d Hd Hseq Hnd Hcov Hag.
  cbn [agree_op snd fst] in Hag. rewrite compact_store_plain in Hag.
  cbn [cr_store cr_flushes cr_crashed cr_raced cr_racenew cr_shared] in Hag.
  repeat (apply andb_true_iff in Hag; destruct Hag as [Hag ?]).
  unfold reads_agree in *.
  repeat match goal with H : _ && _ = true |- _ => apply andb_true_iff in H; destruct H end.
  match goal with H : oents_eqb (m_full (get_ds st ds)) (ro_full before) = true |- _ => rename H into Hb end.
  match goal with H : oents_eqb (m_full (get_ds (set_ds st ds _) ds)) (ro_full after) = true |- _ => rename H into Ha end.
  rewrite get_set_same in Ha. fold d in Hb.
  change (compact_ds (v_cf v_fixed) (v_fl v_fixed) thr order (get_ds st ds))
    with (compact_ds cf_fixed (v_fl v_fixed) thr order d) in Ha.
  destruct (compact_invisible_full (v_fl v_fixed) thr order d eq_refl Hd Hnd Hcov) as (Hfeed & Hd' & _ & _).
  pose proof (compact_invisible (v_fl v_fixed) thr order d eq_refl Hd Hnd) as Hr.
  rewrite m_full_feed in Ha.
  - rewrite Hfeed in Ha. rewrite m_full_feed in Hb by exact Hseq.
    rewrite oents_eqb_sym in Ha.
    eapply oents_eqb_trans; [exact Ha | apply spec_compact_respects; exact Hb].
  - rewrite Forall_forall in *. intros x Hx. apply Hseq. apply (ir_sub _ _ Hr). exact Hx.
Qed.

(** NOT linked by a theorem (checked only by evaluation on the generated cases): the listing / lookup / latest-only
    clauses of [spec_op_ok] (they follow from C12_invisible's pointer and last-version clauses once
    [listing_page], [entity_at] and the latest-only reader are related to [stored_latest] / [last_entry]
    in states with sequence gaps - StoreReaders proves this only for contiguous sequence numbers), the crash
    clause at observation level, the relationship queries (not modelled), and the consistency clause for a
    racing writer. *)
