(** The request gate (Model/Gate.v): with the repaired flags a handler only runs for requests the spec allows. *)
From Coq Require Import List String Ascii Bool Arith.
From DH Require Import Model.Acl Model.Jwt Model.Gate Proofs.AclProofs Proofs.JwtProofs.
Import ListNotations.
Open Scope string_scope.

Lemma find_some_in {A} (f : A -> bool) l x : find f l = Some x -> In x l /\ f x = true.
Proof. apply find_some. Qed.

(** the route the router selects is in the table and matches the request *)
Lemma find_route_sound crt method path r :
  find_route crt method path = Some r ->
  exists cr, In cr crt /\ cr_route cr = r /\ croute_matches method path (split_path path) cr = true.
Proof.
  unfold find_route.
  destruct (find (fun cr => if cr_param cr then false else croute_matches method path (split_path path) cr) crt) as [cr|] eqn:E1.
  - intros [= <-]. apply find_some in E1. destruct E1 as [Hin H]. exists cr. split; [assumption|]. split; [reflexivity|].
    destruct (cr_param cr); [discriminate | assumption].
  - destruct (find (croute_matches method path (split_path path)) crt) as [cr|] eqn:E2; [|discriminate].
    intros [= <-]. apply find_some in E2. destruct E2 as [Hin H]. now exists cr.
Qed.

(** a static route matches exactly its own method and path *)
Lemma static_match method path segs cr :
  cr_param cr = false -> croute_matches method path segs cr = true ->
  r_method (cr_route cr) = method /\ r_path (cr_route cr) = path.
Proof.
  unfold croute_matches. intros ->. destruct (r_method (cr_route cr) =? method) eqn:E; [|discriminate].
  intros H. apply String.eqb_eq in E. apply String.eqb_eq in H. now split.
Qed.

Lemma open_request_b_spec m p : open_request_b m p = true <-> open_request m p.
Proof.
  unfold open_request_b, open_request. rewrite orb_true_iff, !andb_true_iff, !String.eqb_eq. tauto.
Qed.
Lemma authn_only_b_spec m p : authn_only_b m p = true <-> authn_only_request m p.
Proof. unfold authn_only_b, authn_only_request. rewrite andb_true_iff, !String.eqb_eq. tauto. Qed.

Lemma table_ok_b_spec crt : table_ok_b crt = true -> table_ok crt.
Proof.
  unfold table_ok_b, table_ok. rewrite forallb_forall. intros H cr Hin Hg. specialize (H cr Hin).
  rewrite Hg in H. cbn [orb] in H. apply andb_true_iff in H. destruct H as [H1 H2].
  apply negb_true_iff in H1. split; [assumption|].
  apply orb_true_iff in H2. destruct H2 as [H2 | H2]; [left; now apply open_request_b_spec | right; now apply authn_only_b_spec].
Qed.

(** the table NewWebService registers: every unguarded route is static and is one of the three open ones *)
Lemma routes_compiled_ok : table_ok routes_compiled.
Proof. apply table_ok_b_spec. vm_compute. reflexivity. Qed.

Lemma routes_compiled_is_compile : routes_compiled = compile routes_current.
Proof. vm_compute. reflexivity. Qed.

Definition served_by (x : outcome * string) : Prop := fst x = Served.

(** ** the main theorem: the repaired gate refines the spec, for every world whose table is ok *)
Theorem gate_sound w auth method path :
  table_ok (w_routes w) -> gate_spec w auth method path (fst (decide fixed w auth method path)).
Proof.
  intros Htab. unfold gate_spec, decide.
  destruct (method =? "OPTIONS"); [cbn; discriminate|].
  unfold authenticate.
  destruct (skipper path) eqn:Esk.
  - (* no token needed on this path *)
    destruct (find_route (w_routes w) method path) as [r|] eqn:Er; [|cbn; discriminate].
    destruct (r_guarded r) eqn:Eg; [cbn; discriminate|]. cbn [fst]. intros _.
    apply find_route_sound in Er. destruct Er as (cr & Hin & <- & Hm).
    destruct (Htab cr Hin Eg) as [Hp [Ho | [Hm1 Hp1]]].
    + destruct (static_match _ _ _ _ Hp Hm) as [<- <-]. now left.
    + destruct (static_match _ _ _ _ Hp Hm) as [E1 E2]. rewrite Hp1 in E2. subst path. vm_compute in Esk. discriminate.
  - destruct (extract_token auth) as [t|] eqn:Et; [|cbn; discriminate].
    destruct (validate (v_claims fixed) (w_cfg w) (w_oracle w t)) eqn:Ev; [|cbn; discriminate].
    destruct (find_route (w_routes w) method path) as [r|] eqn:Er; [|cbn; discriminate].
    cbn [v_claims fixed] in Ev. apply validate_fixed_sound in Ev.
    destruct (r_guarded r) eqn:Eg.
    + cbn [v_method v_deny fixed].
      destruct (acl_check MapSafeOnly DenyWins method path (f_roles (w_oracle w t)) (w_acls w (f_sub (w_oracle w t)))) eqn:Ea;
        [|cbn; discriminate].
      intros _. right. exists t. split; [reflexivity|]. split; [assumption|]. right.
      now apply acl_check_fixed_sound.
    + cbn [fst]. intros _.
      apply find_route_sound in Er. destruct Er as (cr & Hin & <- & Hm).
      destruct (Htab cr Hin Eg) as [Hp [Ho | Ha]]; destruct (static_match _ _ _ _ Hp Hm) as [<- <-].
      * now left.
      * right. exists t. split; [reflexivity|]. split; [assumption|]. now left.
Qed.

(** ... in particular for the registered table *)
Corollary gate_sound_registered cfg oracle acls auth method path :
  let w := {| w_cfg := cfg; w_routes := routes_compiled; w_oracle := oracle; w_acls := acls |} in
  gate_spec w auth method path (fst (decide fixed w auth method path)).
Proof. intros w. apply gate_sound. exact routes_compiled_ok. Qed.

(** no request without a trusted token reaches anything but the two open routes *)
Corollary served_needs_token w auth method path :
  table_ok (w_routes w) -> fst (decide fixed w auth method path) = Served -> ~ open_request method path ->
  exists t, extract_token auth = Some t /\ token_ok (w_cfg w) (w_oracle w t).
Proof.
  intros Htab Hs Hno. destruct (gate_sound w auth method path Htab Hs) as [H | (t & H1 & H2 & _)]; [contradiction|].
  now exists t.
Qed.

(** every method except GET and HEAD needs a write grant (admin aside) *)
Corollary mutation_needs_write w auth method path t :
  table_ok (w_routes w) -> fst (decide fixed w auth method path) = Served ->
  ~ open_request method path -> extract_token auth = Some t ->
  method <> "GET" -> method <> "HEAD" -> ~ In "admin" (f_roles (w_oracle w t)) ->
  exists l a, w_acls w (f_sub (w_oracle w t)) = Some l /\ In a l /\ ac_deny a = false
              /\ res_matches (ac_resource a) path /\ ac_action a = "write".
Proof.
  intros Htab Hs Hno Ht Hg Hh Hna.
  destruct (gate_sound w auth method path Htab Hs) as [H | (t' & H1 & H2 & [[H3 _] | [H3 | (l & Hl & (a & Hin & Hd & Hm & Hc) & _)]])].
  - contradiction.
  - contradiction.
  - rewrite Ht in H1. injection H1 as <-. contradiction.
  - rewrite Ht in H1. injection H1 as <-. exists l, a. repeat split; try assumption.
    unfold spec_needed in Hc.
    destruct (method =? "GET") eqn:E1; [apply String.eqb_eq in E1; contradiction|].
    destruct (method =? "HEAD") eqn:E2; [apply String.eqb_eq in E2; contradiction|].
    cbn in Hc. destruct Hc as [Hc | [_ Hc]]; [assumption | discriminate].
Qed.

(** the spec, executable: one direction is all the check and the refutations need *)
Lemma gate_spec_b_complete w auth method path :
  (open_request method path
   \/ exists t, extract_token auth = Some t /\ token_ok (w_cfg w) (w_oracle w t)
        /\ (authn_only_request method path
            \/ authorized method path (f_roles (w_oracle w t)) (w_acls w (f_sub (w_oracle w t))))) ->
  gate_spec_b w auth method path = true.
Proof.
  unfold gate_spec_b. intros [H | (t & -> & Ht & Ha)].
  - apply open_request_b_spec in H. now rewrite H.
  - apply orb_true_iff. right. apply token_ok_b_spec in Ht. rewrite Ht. cbn [andb].
    apply orb_true_iff. destruct Ha as [Ha | Ha]; [left; now apply authn_only_b_spec | right; now apply authorized_b_spec].
Qed.

Lemma gate_spec_b_sound w auth method path :
  gate_spec_b w auth method path = true -> gate_spec w auth method path Served.
Proof.
  unfold gate_spec_b, gate_spec. intros H _. apply orb_true_iff in H. destruct H as [H | H].
  - left. now apply open_request_b_spec.
  - right. destruct (extract_token auth) as [t|]; [|discriminate]. exists t. split; [reflexivity|].
    apply andb_true_iff in H. destruct H as [H1 H2]. split; [now apply token_ok_b_spec|].
    apply orb_true_iff in H2. destruct H2 as [H2 | H2]; [left; now apply authn_only_b_spec | right; now apply authorized_b_spec].
Qed.

(** ** the pinned gate: refutations through the whole pipeline *)

Definition w_demo (acl : list ac) (f : tokfacts) : world :=
  {| w_cfg := {| cfg_oauth := false; cfg_aud := ["node:n1"]; cfg_iss := ["node:n1"] |};
     w_routes := routes_compiled;
     w_oracle := fun _ => f;
     w_acls := fun s => if s =? "c1" then Some acl else None |}.

Definition good_token : tokfacts :=
  {| f_wellformed := true; f_alg := "RS256"; f_signer := KNode; f_kid := KidNone; f_expired := false; f_notyet := false;
     f_aud := ["node:n1"]; f_iss := "node:n1"; f_sub := "c1"; f_roles := ["client"] |}.

Lemma refute w auth method path :
  fst (decide current w auth method path) = Served -> gate_spec_b w auth method path = false ->
  ~ gate_spec w auth method path (fst (decide current w auth method path)).
Proof.
  intros Hs Hb Hspec. specialize (Hspec Hs). apply gate_spec_b_complete in Hspec. congruence.
Qed.

(** F16a through the stack: PATCH /datasets/a with a read-only entry reaches the handler *)
Lemma gate_refuted_put_read :
  let w := w_demo [{| ac_resource := "/datasets/a"; ac_action := "read"; ac_deny := false |}] good_token in
  ~ gate_spec w "Bearer tok" "PATCH" "/datasets/a" (fst (decide current w "Bearer tok" "PATCH" "/datasets/a")).
Proof. intros w. apply refute; vm_compute; reflexivity. Qed.

(** F16b: POST /datasets/secret although a deny entry names it *)
Lemma gate_refuted_deny_overridden :
  let w := w_demo [{| ac_resource := "/datasets/secret"; ac_action := "write"; ac_deny := true |};
                   {| ac_resource := "/datasets/*"; ac_action := "write"; ac_deny := false |}] good_token in
  ~ gate_spec w "Bearer tok" "POST" "/datasets/secret" (fst (decide current w "Bearer tok" "POST" "/datasets/secret")).
Proof. intros w. apply refute; vm_compute; reflexivity. Qed.

(** F16d: a token without aud and iss is served *)
Lemma gate_refuted_missing_claims :
  let w := w_demo [{| ac_resource := "/*"; ac_action := "read"; ac_deny := false |}] bare_token in
  ~ gate_spec w "Bearer tok" "GET" "/datasets" (fst (decide current w "Bearer tok" "GET" "/datasets")).
Proof. intros w. apply refute; vm_compute; reflexivity. Qed.

(** a route registered without the authorizer (the design lead F16c - not present in the pinned table) would
    break the theorem's hypothesis and the property: *)
Lemma unguarded_route_refutes :
  let rt := compile (Ropen "GET" "/statistics" :: routes_current) in
  let w := {| w_cfg := w_cfg (w_demo [] good_token); w_routes := rt; w_oracle := fun _ => good_token;
              w_acls := fun _ => None |} in
  table_ok_b rt = false
  /\ ~ gate_spec w "Bearer tok" "GET" "/statistics" (fst (decide fixed w "Bearer tok" "GET" "/statistics")).
Proof.
  intros rt w. split; [vm_compute; reflexivity|].
  intros Hspec. assert (Hs : fst (decide fixed w "Bearer tok" "GET" "/statistics") = Served) by (vm_compute; reflexivity).
  specialize (Hspec Hs). apply gate_spec_b_complete in Hspec. vm_compute in Hspec. discriminate.
Qed.
