From Coq Require Import List ZArith Bool.
From DH Require Import Model.JsonValue.
Import ListNotations.
Open Scope Z_scope.

Section Carrier.
Variable F : Type.
Variable i2f : Z -> F.

(** a stored value and its image after a pass through JavaScript normalise to the same thing:
    IsEntityEqual sees no difference, whatever the nesting depth of slices *)
Theorem jsimg_neutral : forall v v', jsimg i2f v v' -> to_json i2f v = to_json i2f v'.
Proof.
  fix IH 3. intros v v' H. destruct H as [v | n | l l' Hl].
  - reflexivity.
  - reflexivity.
  - cbn [to_json]. f_equal. induction Hl as [|x y l l' Hxy _ IHl]; cbn [map]; [reflexivity|].
    f_equal; [apply IH; exact Hxy | exact IHl].
Qed.

(** all integer kinds and both float kinds carrying the same number normalise alike *)
Lemma kinds_irrelevant k k' n : to_json i2f (GInt k n) = to_json i2f (GInt k' n).
Proof. reflexivity. Qed.
Lemma int_is_float k n : to_json i2f (GInt k n) = to_json i2f (GF64 (i2f n)).
Proof. reflexivity. Qed.

(** maps are not normalised: if the carrier tells the int64 1 from the float64 1 at all (any faithful carrier does,
    the two Go values have different dynamic types), the two maps stay different *)
Lemma map_not_normalised n : fst (map_example i2f n) <> snd (map_example i2f n) ->
  to_json i2f (fst (map_example i2f n)) <> to_json i2f (snd (map_example i2f n)).
Proof. cbn [map_example fst snd to_json]. intros H E. apply H. now injection E as ->. Qed.
End Carrier.

Example map_example_differs : fst (map_example i2fz 1) <> snd (map_example i2fz 1).
Proof. cbn. discriminate. Qed.

(** ** the boolean equalities of the evaluator decide Leibniz equality (needed by the link theorem) *)
Lemma ikind_eqb_eq k k' :
  (match k, k' with
   | KInt, KInt | KInt8, KInt8 | KInt16, KInt16 | KInt32, KInt32 | KInt64, KInt64
   | KUint, KUint | KUint8, KUint8 | KUint16, KUint16 | KUint32, KUint32 | KUint64, KUint64 => true
   | _, _ => false end) = true -> k = k'.
Proof. destruct k, k'; intros H; try reflexivity; discriminate. Qed.

Lemma gval_eqb_eq : forall a b : gval Fz, gval_eqb a b = true -> a = b.
Proof.
  fix IH 1. intros a b. destruct a as [s|x|  |k n|f|f|l|m]; destruct b as [s'|x'|  |k' n'|f'|f'|l'|m'];
    cbn [gval_eqb]; intros H; try discriminate.
  - apply Z.eqb_eq in H. now subst.
  - apply eqb_prop in H. now subst.
  - reflexivity.
  - apply andb_true_iff in H. destruct H as [Hk Hn]. apply ikind_eqb_eq in Hk. apply Z.eqb_eq in Hn. now subst.
  - apply Z.eqb_eq in H. now subst.
  - apply Z.eqb_eq in H. now subst.
  - f_equal. revert l' H. induction l as [|x r IHr]; intros [|y r'] H; try discriminate; [reflexivity|].
    apply andb_true_iff in H. destruct H as [Hx Hr]. f_equal; [now apply IH | now apply IHr].
  - f_equal. revert m' H. induction m as [|[k x] r IHr]; intros [|[k' y] r'] H; try discriminate; [reflexivity|].
    apply andb_true_iff in H. destruct H as [H Hr]. apply andb_true_iff in H. destruct H as [Hk Hx].
    apply Z.eqb_eq in Hk. subst k'. f_equal; [f_equal; now apply IH | now apply IHr].
Qed.

Lemma jval_eqb_eq : forall a b : jval Fz, jval_eqb a b = true -> a = b.
Proof.
  fix IH 1. intros a b. destruct a as [s|x|  |f|l|m]; destruct b as [s'|x'|  |f'|l'|m'];
    cbn [jval_eqb]; intros H; try discriminate.
  - apply Z.eqb_eq in H. now subst.
  - apply eqb_prop in H. now subst.
  - reflexivity.
  - apply Z.eqb_eq in H. now subst.
  - f_equal. revert l' H. induction l as [|x r IHr]; intros [|y r'] H; try discriminate; [reflexivity|].
    apply andb_true_iff in H. destruct H as [Hx Hr]. f_equal; [now apply IH | now apply IHr].
  - apply gval_eqb_eq in H. now injection H as ->.
Qed.

Lemma jval_eqb_refl : forall a : jval Fz, jval_eqb a a = true.
Proof.
  assert (G : forall a : gval Fz, gval_eqb a a = true).
  { fix IH 1. intros a. destruct a as [s|x|  |k n|f|f|l|m]; cbn [gval_eqb].
    - apply Z.eqb_refl. - apply eqb_reflx. - reflexivity.
    - rewrite Z.eqb_refl. destruct k; reflexivity.
    - apply Z.eqb_refl. - apply Z.eqb_refl.
    - induction l as [|x r IHr]; [reflexivity|]. now rewrite IH, IHr.
    - induction m as [|[k x] r IHr]; [reflexivity|]. now rewrite Z.eqb_refl, IH, IHr. }
  fix IH 1. intros a. destruct a as [s|x|  |f|l|m]; cbn [jval_eqb].
  - apply Z.eqb_refl. - apply eqb_reflx. - reflexivity. - apply Z.eqb_refl.
  - induction l as [|x r IHr]; [reflexivity|]. now rewrite IH, IHr.
  - apply (G (GMap m)).
Qed.

Lemma jsimgb_sound : forall a b, jsimgb a b = true -> jsimg i2fz a b.
Proof.
  fix IH 1. intros a b. destruct a as [s|x|  |k n|f|f|l|m]; cbn [jsimgb]; intros H;
    try (apply gval_eqb_eq in H; subst b; apply js_same).
  - destruct b as [s'|x'|  |k' n'|f'|f'|l'|m']; cbn [gval_eqb] in H; try discriminate.
    + destruct k'; cbn [gval_eqb] in H; try discriminate.
      apply Z.eqb_eq in H. subst f. apply js_int.
    + apply Z.eqb_eq in H. subst f'. apply js_same.
  - destruct b as [s'|x'|  |k' n'|f'|f'|l'|m']; cbn [gval_eqb] in H; try discriminate.
    apply js_slice. revert l' H. induction l as [|x r IHr]; intros [|y r'] H; try discriminate; [constructor|].
    apply andb_true_iff in H. destruct H as [Hx Hr]. constructor; [now apply IH | now apply IHr].
Qed.
