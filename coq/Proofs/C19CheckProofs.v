(** C19: tie between the correspondence check and the spec.  Agreement of the implementation's
    observations with a model variant transfers the executable spec: S holds on the implementation's
    snapshots iff it holds on the snapshots the model predicts along the same history. *)
From Coq Require Import List ZArith NArith Bool Lia.
From DH Require Import Lib.CheckLib Model.Store Model.Catalogue Check.C19Check.
Import ListNotations.
Open Scope Z_scope.

Lemma optz_eqb_eq a b : optz_eqb a b = true <-> a = b.
Proof.
  destruct a, b; cbn; try (split; congruence).
  rewrite Z.eqb_eq. split; congruence.
Qed.

Lemma settings_eqb_eq a b : settings_eqb a b = true <-> a = b.
Proof.
  destruct a, b. unfold settings_eqb. cbn. rewrite andb_true_iff, Z.eqb_eq, optz_eqb_eq.
  split; [intros [-> ->]; reflexivity | intros [= -> ->]; auto].
Qed.

Lemma meta_eqb_eq a b : meta_eqb a b = true <-> a = b.
Proof.
  destruct a, b. unfold meta_eqb. cbn. rewrite !andb_true_iff, !Z.eqb_eq, settings_eqb_eq, eqb_true_iff.
  split; [intros [[[-> ->] ->] ->]; reflexivity | intros [= -> -> -> ->]; auto].
Qed.

Lemma pair_eqb_eq a b : pair_eqb a b = true <-> a = b.
Proof.
  destruct a, b. unfold pair_eqb. cbn. rewrite andb_true_iff, !Z.eqb_eq.
  split; [intros [-> ->]; reflexivity | intros [= -> ->]; auto].
Qed.

Lemma dsobs_eqb_eq a b : dsobs_eqb a b = true <-> a = b.
Proof.
  destruct a, b. unfold dsobs_eqb. cbn.
  rewrite !andb_true_iff, !Z.eqb_eq, !eqb_true_iff, settings_eqb_eq, (list_eqb_eq meta_eqb meta_eqb_eq).
  split; [intros [[[[[[[-> ->] ->] ->] ->] ->] ->] ->]; reflexivity | intros [= -> -> -> -> -> -> -> ->]; repeat split].
Qed.

Lemma snapshot_eqb_eq a b : snapshot_eqb a b = true <-> a = b.
Proof.
  destruct a, b. unfold snapshot_eqb. cbn.
  rewrite !andb_true_iff, (list_eqb_eq Z.eqb Z.eqb_eq), (list_eqb_eq pair_eqb pair_eqb_eq),
    (list_eqb_eq dsobs_eqb dsobs_eqb_eq).
  split; [intros [[-> ->] ->]; reflexivity | intros [= -> -> ->]; repeat split].
Qed.

(** the spec evaluated on the snapshots the model itself predicts along the history *)
Fixpoint model_spec_run (fl : cflags) (k : cat) (ops : list sop) : bool :=
  match ops with
  | [] => true
  | SOp o :: ops' => model_spec_run fl (apply_cop fl k o) ops'
  | SPair n ents b _ _ :: ops' => model_spec_run fl (do_pair fl k n ents b) ops'
  | SPairC n ents b _ _ :: ops' => model_spec_run fl (do_pairc fl k n ents b) ops'
  | SPubM l :: ops' => model_spec_run fl (do_setpubm fl k l) ops'
  | SDetails names _ :: ops' => snap_spec (predict k names) && model_spec_run fl k ops'
  end.

Lemma agree_run_transfers fl : forall ops k,
  agree_run fl k ops = true ->
  forallb (fun o => match o with SDetails _ obs => snap_spec obs | _ => true end) ops = model_spec_run fl k ops.
Proof.
  induction ops as [|o ops IH]; intros k H; [reflexivity|].
  destruct o as [o|n ents b r bl|n ents b r bl|l|names obs]; cbn [agree_run forallb model_spec_run] in *.
  - now apply IH.
  - destruct (pair_flags fl k n ents b) as [r' bl']. rewrite !andb_true_iff in H. destruct H as [_ H].
    cbn [andb]. now apply IH.
  - rewrite !andb_true_iff in H. destruct H as [_ H]. cbn [andb]. now apply IH.
  - now apply IH.
  - rewrite andb_true_iff in H. destruct H as [He H]. apply snapshot_eqb_eq in He. subst obs.
    f_equal. now apply IH.
Qed.

Theorem agree_transfers_spec fl c :
  agree fl c = true -> spec_ok c = model_spec_run fl (cat_init fl) c.
Proof. intros H. unfold spec_ok. now apply agree_run_transfers. Qed.
