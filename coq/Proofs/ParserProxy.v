(** Proofs about the proxy page reader (error propagation) and the namespace table
    (persisted = in-memory over all operation sequences including restarts). *)
From Coq Require Import List String Ascii NArith Bool Lia PeanoNat.
From DH Require Import Model.Parser Proofs.ParserProofs Proofs.ParserFuel.
Import ListNotations.
Open Scope string_scope.

(** ** proxy page: the result is an error whenever ParseStream fails, wherever the
    continuation element sits; a token is only returned after a successful parse *)
Theorem proxy_err_propagates v c fuel eof ts :
  snd (fst (parse_stream v fuel eof ts)) = OErr -> fst (proxy_page v c fuel eof ts) = Err.
Proof.
  unfold proxy_page. destruct (parse_stream v fuel eof ts) as [[es o] m]. cbn. now intros ->.
Qed.

Theorem proxy_ok_needs_ok v c fuel eof ts s :
  fst (proxy_page v c fuel eof ts) = Ok s -> snd (fst (parse_stream v fuel eof ts)) = OOk.
Proof.
  unfold proxy_page. destruct (parse_stream v fuel eof ts) as [[es o] m]. cbn.
  destruct o; try discriminate. reflexivity.
Qed.

(** the entities handed to the callback are the non-continuation entities ParseStream emitted *)
Theorem proxy_passes_emitted v c fuel eof ts :
  snd (proxy_page v c fuel eof ts)
  = filter (fun e => negb (is_cont_ent e)) (fst (fst (parse_stream v fuel eof ts))).
Proof. unfold proxy_page. now destruct (parse_stream v fuel eof ts) as [[es o] m]. Qed.

Theorem proxy_total v fuel eof ts : chk_types v = true ->
  fst (proxy_page v true fuel eof ts) <> Panic.
Proof.
  intros H. unfold proxy_page.
  pose proof (parse_stream_nopanic v H fuel eof ts) as P.
  destruct (parse_stream v fuel eof ts) as [[es o] m]. cbn in *.
  destruct o; try discriminate; try congruence.
  destruct (last_cont es) as [c|]; [|discriminate].
  destruct (find_prop (NRaw "token") (e_props c)) as [[]|]; discriminate.
Qed.

Theorem proxy_no_fuel v c fuel eof ts : (List.length ts < fuel)%nat ->
  fst (proxy_page v c fuel eof ts) <> Fuel.
Proof.
  intros H. unfold proxy_page.
  pose proof (parse_stream_enough v fuel eof ts H) as P.
  destruct (parse_stream v fuel eof ts) as [[es o] m]. cbn in *.
  destruct o; try discriminate; try congruence.
  destruct (last_cont es) as [e|]; [|discriminate].
  destruct (find_prop (NRaw "token") (e_props e)) as [[]|]; destruct c; discriminate.
Qed.

(** refutation of the pinned token assertion: a page whose continuation element has a
    numeric token, or none *)
Definition w_cont_num := w_stream [TDelim DObjO; TStr "id"; TStr "@continuation"; TStr "token"; w_num "5" 5; TDelim DObjC].
Definition w_cont_none := w_stream [TDelim DObjO; TStr "id"; TStr "@continuation"; TDelim DObjC].
Lemma refuted_proxy_token :
  fst (proxy_page fixed false 40 true w_cont_num) = Panic /\ fst (proxy_page fixed false 40 true w_cont_none) = Panic
  /\ fst (proxy_page fixed true 40 true w_cont_num) = Err.
Proof. vm_compute. repeat split. Qed.

(** ** namespace table *)
Definition ns_consistent (t : nstab) : Prop := nt_disk t = nt_mem t.

Lemma ns_step_consistent t op : ns_consistent t -> ns_consistent (ns_step false t op).
Proof.
  unfold ns_consistent. intros H. destruct op as [e|]; cbn.
  - destruct (index_of e (nt_mem t)); [exact H|reflexivity].
  - reflexivity.
Qed.

(** assert-then-persist keeps persisted = in-memory over ALL operation sequences *)
Theorem ns_run_consistent ops : forall t, ns_consistent t -> ns_consistent (ns_run false t ops).
Proof.
  unfold ns_run. induction ops as [|op ops IH]; intros t H; cbn; [exact H|].
  apply IH. now apply ns_step_consistent.
Qed.

(** hence a restart is a no-op *)
Theorem ns_restart_noop t : ns_consistent t -> ns_step false t NsRestart = t.
Proof. unfold ns_consistent. destruct t as [m d]; cbn. now intros ->. Qed.

Lemma index_of_app e l l' i : index_of e l = Some i -> index_of e (l ++ l') = Some i.
Proof.
  revert i. induction l as [|x l IH]; cbn; intros i H; [discriminate|].
  destruct (String.eqb e x); [exact H|].
  destruct (index_of e l) as [j|]; [|discriminate]. now rewrite (IH j eq_refl).
Qed.

(** and a prefix, once assigned, denotes the same expansion for ever (prefix "ns<i>" = position i) *)
Theorem ns_prefix_permanent ops : forall t e i, ns_consistent t ->
  index_of e (nt_mem t) = Some i -> index_of e (nt_mem (ns_run false t ops)) = Some i.
Proof.
  unfold ns_run. induction ops as [|op ops IH]; intros t e i Hc H; cbn; [exact H|].
  apply IH; [now apply ns_step_consistent|].
  destruct op as [e'|]; cbn.
  - destruct (index_of e' (nt_mem t)); [exact H|]. cbn. now apply index_of_app.
  - unfold ns_consistent in Hc. now rewrite Hc.
Qed.

(** persist-before-insert: the last namespace is lost by a restart, and its prefix is given to the
    next new namespace *)
Lemma ns_persist_first_refuted :
  let t0 := {| nt_mem := ["core"]; nt_disk := ["core"] |} in
  index_of "b" (nt_mem (ns_run true t0 [NsAssert "b"])) = Some 1%nat
  /\ index_of "b" (nt_mem (ns_run true t0 [NsAssert "b"; NsRestart])) = None
  /\ index_of "c" (nt_mem (ns_run true t0 [NsAssert "b"; NsRestart; NsAssert "c"])) = Some 1%nat.
Proof. vm_compute. repeat split. Qed.

(** ** several documents through one entry point: every document is parsed against its own context *)
Lemma ns_merge_nil doc : ns_merge [] doc = doc.
Proof. unfold ns_merge. cbn. apply app_nil_r. Qed.

Lemma parse_stream_in_fresh v fuel eof ts :
  fst (parse_stream_in v [] fuel eof ts) = fst (parse_stream v fuel eof ts).
Proof.
  unfold parse_stream_in, parse_stream.
  destruct ts as [|[[]| | | |] ts1]; try reflexivity.
  destruct (parse_jv (jv_fuel fuel) ts1) as [[[] ts2]|]; try reflexivity.
  destruct (is_context_id l); [|reflexivity].
  destruct (namespaces_of v l); try reflexivity.
  rewrite ns_merge_nil. destruct (stream_loop v a fuel eof false ts2). reflexivity.
Qed.

(** reading a sequence of documents with a fresh parser per document = mapping the
    single-document parser over the sequence *)
Theorem read_pages_fresh v pages :
  read_pages false v [] pages
  = map (fun p => fst (parse_stream v (S (List.length (fst p))) (snd p) (fst p))) pages.
Proof.
  induction pages as [|[ts eof] ps IH]; [reflexivity|].
  cbn [read_pages map fst snd].
  pose proof (parse_stream_in_fresh v (S (List.length ts)) eof ts) as F.
  destruct (parse_stream_in v [] (S (List.length ts)) eof ts) as [[es o] ns'].
  cbn in F. rewrite <- F, IH. reflexivity.
Qed.

(** a parser object kept across documents leaks bindings: page 2 uses the prefix "a" it does not
    declare and is accepted *)
Definition w_page1 := w_stream [TDelim DObjO; TStr "id"; TStr "a:1"; TDelim DObjC].
Definition w_page2 := [TDelim DArrO; TDelim DObjO; TStr "id"; TStr "@context"; TStr "namespaces"; TDelim DObjO; TDelim DObjC;
                       TDelim DObjC; TDelim DObjO; TStr "id"; TStr "a:2"; TDelim DObjC; TDelim DArrC].
Lemma refuted_parser_reuse :
  read_pages false fixed [] [(w_page1, true); (w_page2, true)] = [([w_ent "1"], OOk); ([], OErr)]
  /\ read_pages true fixed [] [(w_page1, true); (w_page2, true)] = [([w_ent "1"], OOk); ([w_ent "2"], OOk)].
Proof. vm_compute. split; reflexivity. Qed.
