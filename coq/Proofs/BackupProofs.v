(** Proofs about Model/Backup.v (property C20). *)
From Coq Require Import List NArith Bool Lia.
From DH Require Import Lib.CheckLib Model.Backup.
Import ListNotations.
Open Scope N_scope.

(** ** file-system map *)
Lemma fname_eqb_refl n : fname_eqb n n = true.
Proof. destruct n; reflexivity. Qed.
Lemma fname_eqb_eq a b : fname_eqb a b = true <-> a = b.
Proof. destruct a, b; cbn; split; intros; try discriminate; reflexivity. Qed.

Lemma fs_get_set_same f n d : fs_get (fs_set f n d) n = Some d.
Proof.
  induction f as [|[n' d'] f IH]; cbn.
  - now rewrite fname_eqb_refl.
  - destruct (fname_eqb n' n) eqn:E; cbn.
    + now rewrite fname_eqb_refl.
    + now rewrite E.
Qed.

Lemma fs_get_set_other f n d n' : n <> n' -> fs_get (fs_set f n d) n' = fs_get f n'.
Proof.
  intros Hne. induction f as [|[n0 d0] f IH]; cbn.
  - destruct (fname_eqb n n') eqn:E; [apply fname_eqb_eq in E; contradiction | reflexivity].
  - destruct (fname_eqb n0 n) eqn:E; cbn.
    + apply fname_eqb_eq in E; subst n0.
      destruct (fname_eqb n n') eqn:E'; [apply fname_eqb_eq in E'; contradiction | reflexivity].
    + destruct (fname_eqb n0 n'); [reflexivity | exact IH].
Qed.

Lemma fs_get_remove_other f n n' : n <> n' -> fs_get (fs_remove f n) n' = fs_get f n'.
Proof.
  intros Hne. induction f as [|[n0 d0] f IH]; cbn; [reflexivity|].
  destruct (fname_eqb n0 n) eqn:E; cbn.
  - apply fname_eqb_eq in E; subst n0.
    destruct (fname_eqb n n') eqn:E'; [apply fname_eqb_eq in E'; contradiction | reflexivity].
  - destruct (fname_eqb n0 n'); [reflexivity | exact IH].
Qed.

Lemma bytes_eqb_eq a b : bytes_eqb a b = true <-> a = b.
Proof. apply list_eqb_eq. intros; apply N.eqb_eq. Qed.
Lemma bytes_eqb_refl a : bytes_eqb a a = true.
Proof. now apply bytes_eqb_eq. Qed.

(** ** versions *)
Lemma maxv_app a b : maxv (a ++ b) = N.max (maxv a) (maxv b).
Proof. induction a as [|e a IH]; cbn [app maxv]; [lia | rewrite IH; lia]. Qed.

Lemma maxv_ge l e : In e l -> e_ver e <= maxv l.
Proof. induction l as [|x l IH]; cbn; [tauto | intros [->|H]; [lia | specialize (IH H); lia]]. Qed.

Lemma maxv_incl a b : incl a b -> maxv a <= maxv b.
Proof.
  induction a as [|e a IH]; cbn; intros H; [lia|].
  assert (He : In e b) by (apply H; now left).
  assert (Ha : incl a b) by (intros x Hx; apply H; now right).
  specialize (IH Ha). pose proof (maxv_ge _ _ He). lia.
Qed.

(** no two different entries carry the same version *)
Definition uniq (l : list entry) : Prop :=
  forall e1 e2, In e1 l -> In e2 l -> e_ver e1 = e_ver e2 -> e1 = e2.
Definition allpos (l : list entry) : Prop := forall e, In e l -> 0 < e_ver e.

Lemma src_put_cases src m ds k v del :
  src_put src m ds k v del = src \/
  (maxv src < m /\ src_put src m ds k v del = src ++ [{| e_ver := m; e_ds := ds; e_id := k; e_val := v; e_del := del |}]).
Proof. unfold src_put. destruct (maxv src <? m) eqn:E; [right; split; [now apply N.ltb_lt | reflexivity] | now left]. Qed.

Lemma uniq_put src m ds k v del : uniq src -> uniq (src_put src m ds k v del).
Proof.
  intros U. destruct (src_put_cases src m ds k v del) as [->|[Hlt ->]]; [exact U|].
  intros e1 e2 H1 H2 Hv. apply in_app_or in H1, H2.
  destruct H1 as [H1|[<-|[]]], H2 as [H2|[<-|[]]]; cbn in *.
  - now apply U.
  - pose proof (maxv_ge _ _ H1). lia.
  - pose proof (maxv_ge _ _ H2). lia.
  - reflexivity.
Qed.

Lemma allpos_put src m ds k v del : allpos src -> allpos (src_put src m ds k v del).
Proof.
  intros P. destruct (src_put_cases src m ds k v del) as [->|[Hlt ->]]; [exact P|].
  intros e He. apply in_app_or in He. destruct He as [He|[<-|[]]]; [now apply P | cbn; lia].
Qed.

Lemma incl_put src m ds k v del : incl src (src_put src m ds k v del).
Proof.
  destruct (src_put_cases src m ds k v del) as [->|[_ ->]]; [apply incl_refl | now apply incl_appl, incl_refl].
Qed.

Lemma maxv_put src m ds k v del : maxv src <= maxv (src_put src m ds k v del).
Proof. apply maxv_incl, incl_put. Qed.

(** ** the read view *)
Lemma latest_none ds k l : latest ds k l = None ->
  forall e', In e' l -> e_ds e' = ds -> e_id e' = k -> False.
Proof.
  induction l as [|y l IH]; cbn; [tauto|].
  intros L e' [E|He'] D K'.
  - subst e'. rewrite D, K', !N.eqb_refl in L. cbn in L.
    destruct (latest ds k l) as [a|]; [destruct (e_ver y <? e_ver a)|]; discriminate.
  - destruct ((e_ds y =? ds) && (e_id y =? k)).
    + destruct (latest ds k l) as [a|]; [destruct (e_ver y <? e_ver a)|]; discriminate.
    + now apply (IH L e').
Qed.

Lemma latest_some ds k l e : latest ds k l = Some e ->
  In e l /\ e_ds e = ds /\ e_id e = k /\
  forall e', In e' l -> e_ds e' = ds -> e_id e' = k -> e_ver e' <= e_ver e.
Proof.
  revert e. induction l as [|x l IH]; cbn; intros e H; [discriminate|].
  destruct ((e_ds x =? ds) && (e_id x =? k)) eqn:K.
  - apply andb_true_iff in K. destruct K as [K1 K2]. apply N.eqb_eq in K1, K2.
    destruct (latest ds k l) as [a|] eqn:L.
    + destruct (IH a eq_refl) as (Ia & Da & Ka & Ma).
      destruct (e_ver x <? e_ver a) eqn:C; injection H as <-.
      * apply N.ltb_lt in C. repeat split; auto.
        intros e' [E|He'] D K'; [subst e'; lia | now apply Ma].
      * apply N.ltb_ge in C. repeat split; auto.
        intros e' [E|He'] D K'; [subst e'; lia | specialize (Ma e' He' D K'); lia].
    + injection H as <-. repeat split; auto.
      intros e' [E|He'] D K'; [subst e'; lia|].
      exfalso. exact (latest_none _ _ _ L e' He' D K').
  - destruct (IH e H) as (Ia & Da & Ka & Ma). repeat split; auto.
    intros e' [E|He'] D K'; [|now apply Ma].
    subst e'. rewrite D, K', !N.eqb_refl in K. discriminate.
Qed.

(** the view depends only on the SET of entries (given versions identify entries) *)
Lemma latest_set_eq a b ds k : uniq b -> incl a b -> incl b a -> latest ds k a = latest ds k b.
Proof.
  intros U Hab Hba.
  destruct (latest ds k a) as [ea|] eqn:La, (latest ds k b) as [eb|] eqn:Lb; try reflexivity.
  - destruct (latest_some _ _ _ _ La) as (Ia & Da & Ka & Ma).
    destruct (latest_some _ _ _ _ Lb) as (Ib & Db & Kb & Mb).
    f_equal. apply U; [now apply Hab | assumption |].
    pose proof (Mb ea (Hab _ Ia) Da Ka). pose proof (Ma eb (Hba _ Ib) Db Kb). lia.
  - destruct (latest_some _ _ _ _ La) as (Ia & Da & Ka & _).
    exfalso. exact (latest_none _ _ _ Lb ea (Hab _ Ia) Da Ka).
  - destruct (latest_some _ _ _ _ Lb) as (Ib & Db & Kb & _).
    exfalso. exact (latest_none _ _ _ La eb (Hba _ Ib) Db Kb).
Qed.

(** ** Badger's backup stream *)
Lemma backup_dump src c : fst (badger_backup src c) = filter (fun e => c <? e_ver e) src.
Proof. reflexivity. Qed.
Lemma backup_max src c : snd (badger_backup src c) = maxv (filter (fun e => c <? e_ver e) src).
Proof. reflexivity. Qed.

(** ** the invariant behind C20_restore (reopen = append, either cursor file name) *)
(** a cursor value is safe when everything at or below it is already in the backup file *)
Definition safe (src file : list entry) (n : N) : Prop :=
  n <= maxv src /\ forall e, In e src -> e_ver e <= n -> In e file.

Lemma safe_zero src file : allpos src -> safe src file 0.
Proof. intros P; split; [lia|]. intros e He Hv. specialize (P e He). lia. Qed.

Lemma safe_file src file file' n : incl file file' -> safe src file n -> safe src file' n.
Proof. intros Hi [H1 H2]; split; [exact H1|]. intros e He Hv. apply Hi. now apply H2. Qed.

Lemma safe_put src file n m ds k v del : safe src file n -> safe (src_put src m ds k v del) file n.
Proof.
  intros [H1 H2]. destruct (src_put_cases src m ds k v del) as [->|[Hlt ->]]; [now split|].
  split.
  - rewrite maxv_app. lia.
  - intros e He Hv. apply in_app_or in He. destruct He as [He|[<-|[]]]; [now apply H2 | cbn in Hv; lia].
Qed.

Definition kv_wf (f : fs) : Prop :=
  fs_get f FKv = None \/ exists l, fs_get f FKv = Some (DEntries l).

Record Inv (v : variant) (st : state) : Prop := {
  inv_uniq : uniq (s_src st);
  inv_pos : allpos (s_src st);
  inv_kvwf : kv_wf (s_fs st);
  inv_incl : incl (kvfile (s_fs st)) (s_src st);
  inv_cur : safe (s_src st) (kvfile (s_fs st)) (s_cursor st);
  inv_disk : safe (s_src st) (kvfile (s_fs st)) (load_last_id v (s_fs st));
  inv_snap : forall s, s_snap st = Some s ->
     fs_get (s_fs st) FKv = Some (DEntries (kvfile (s_fs st)))
     /\ incl s (kvfile (s_fs st)) /\ incl (kvfile (s_fs st)) s /\ incl s (s_src st)
}.

Lemma read_name_cases v : (read_name v = FSeen /\ v_name v = NameSame) \/ (read_name v = FSeenMgr /\ v_name v = NameMgr).
Proof. unfold read_name. destruct (v_name v); [right | left]; now split. Qed.

Lemma kvfile_set_other f n d : n <> FKv -> kvfile (fs_set f n d) = kvfile f.
Proof. intros H. unfold kvfile. now rewrite fs_get_set_other. Qed.

Lemma load_set_other v f n d : n <> FSeen -> n <> FSeenMgr -> load_last_id v (fs_set f n d) = load_last_id v f.
Proof.
  intros H1 H2. unfold load_last_id.
  destruct (read_name_cases v) as [[-> _]|[-> _]]; now rewrite fs_get_set_other.
Qed.

Ltac fs_simpl := repeat (rewrite fs_get_set_same || (rewrite fs_get_set_other by discriminate)
                         || (rewrite fs_get_remove_other by discriminate)).

(** what DoNativeBackup does when an existing file is reopened for appending *)
Lemma dnb_append v st : v_reopen v = MAppend -> kv_wf (s_fs st) ->
  let dump := filter (fun e => s_cursor st <? e_ver e) (s_src st) in
  let st' := do_native_backup v st in
  fs_get (s_fs st') FKv = Some (DEntries (kvfile (s_fs st) ++ dump))
  /\ s_cursor st' = maxv dump
  /\ fs_get (s_fs st') FSeen = Some (DNum (maxv dump))
  /\ fs_get (s_fs st') FSeenMgr = fs_get (s_fs st) FSeenMgr
  /\ fs_get (s_fs st') FStorageId = fs_get (s_fs st) FStorageId
  /\ s_src st' = s_src st /\ s_store_id st' = s_store_id st.
Proof.
  intros Hm Hwf. unfold do_native_backup, badger_backup, store_last_id.
  set (dump := filter (fun e => s_cursor st <? e_ver e) (s_src st)).
  cbv zeta. unfold file_exists, kvfile.
  destruct Hwf as [Hn|[l Hl]].
  - rewrite Hn. cbn [fs_open].
    destruct dump as [|d0 dump'] eqn:Ed.
    + cbn [s_fs s_cursor s_src s_store_id maxv app]. repeat split; fs_simpl; auto.
    + unfold fs_write_entries. rewrite fs_get_set_same.
      cbn [s_fs s_cursor s_src s_store_id]. repeat split; fs_simpl; auto.
  - rewrite Hl, Hm. cbn [fs_open].
    destruct dump as [|d0 dump'] eqn:Ed.
    + cbn [s_fs s_cursor s_src s_store_id maxv]. repeat split; fs_simpl; rewrite ?Hl, ?app_nil_r; auto.
    + unfold fs_write_entries. rewrite Hl.
      cbn [s_fs s_cursor s_src s_store_id]. repeat split; fs_simpl; auto.
Qed.

Lemma valid_location_fs st ok f1 : valid_location st = (ok, f1) ->
  fs_get f1 FKv = fs_get (s_fs st) FKv /\ fs_get f1 FSeen = fs_get (s_fs st) FSeen
  /\ fs_get f1 FSeenMgr = fs_get (s_fs st) FSeenMgr.
Proof.
  unfold valid_location. destruct (fs_get (s_fs st) FStorageId) as [[l|b|b]|]; intros [= <- <-]; auto.
  rewrite !fs_get_set_other by discriminate. auto.
Qed.

Lemma Inv_backup v st : v_reopen v = MAppend -> Inv v st -> Inv v (fst (run_backup v st)).
Proof.
  intros Hm I. unfold run_backup.
  destruct (s_running st); [exact I|].
  destruct (valid_location st) as [ok f1] eqn:V.
  destruct (valid_location_fs _ _ _ V) as (Vk & Vs & Vm).
  assert (Kf : kvfile f1 = kvfile (s_fs st)) by (unfold kvfile; now rewrite Vk).
  assert (Lf : load_last_id v f1 = load_last_id v (s_fs st)).
  { unfold load_last_id. destruct (read_name_cases v) as [[-> _]|[-> _]]; now rewrite ?Vs, ?Vm. }
  destruct ok; cbn [fst].
  - (* the run happens *)
    assert (Hwf : kv_wf (s_fs (with_fs st f1))).
    { cbn. unfold kv_wf. rewrite Vk. exact (inv_kvwf _ _ I). }
    destruct (dnb_append v (with_fs st f1) Hm Hwf) as (Hk & Hc & Hs & Hmg & _ & Hsrc & _).
    cbn [with_fs s_fs s_cursor s_src] in Hk, Hc, Hs, Hmg, Hsrc.
    set (dump := filter (fun e => s_cursor st <? e_ver e) (s_src st)) in *.
    set (st1 := do_native_backup v (with_fs st f1)) in *.
    assert (Kf1 : kvfile (s_fs st1) = kvfile (s_fs st) ++ dump).
    { unfold kvfile at 1. rewrite Hk, Kf. reflexivity. }
    assert (Hd : incl dump (s_src st)) by (intros e He; apply filter_In in He; tauto).
    assert (Hall : incl (s_src st) (kvfile (s_fs st) ++ dump)).
    { intros e He. destruct (s_cursor st <? e_ver e) eqn:C.
      - apply in_or_app; right. apply filter_In; split; assumption.
      - apply in_or_app; left. apply N.ltb_ge in C. now apply (proj2 (inv_cur _ _ I)). }
    assert (Hsafe : safe (s_src st) (kvfile (s_fs st) ++ dump) (maxv dump)).
    { split; [now apply maxv_incl|]. intros e He _. now apply Hall. }
    constructor; cbn [s_src s_fs s_cursor s_snap]; rewrite ?Hsrc, ?Kf1.
    + exact (inv_uniq _ _ I).
    + exact (inv_pos _ _ I).
    + right. eexists. exact Hk.
    + apply incl_app; [exact (inv_incl _ _ I) | exact Hd].
    + rewrite Hc. exact Hsafe.
    + pose proof (inv_disk _ _ I) as D. unfold load_last_id in D |- *.
      destruct (read_name_cases v) as [[Hr _]|[Hr _]]; rewrite Hr in D |- *.
      * rewrite Hs. exact Hsafe.
      * rewrite Hmg, Vm. eapply safe_file; [|exact D]. now apply incl_appl, incl_refl.
    + intros s [= <-]. rewrite Hk, Kf. repeat split.
      * exact Hall.
      * apply incl_app; [exact (inv_incl _ _ I) | exact Hd].
      * apply incl_refl.
  - (* refused: only isRunning changes *)
    assert (f1 = s_fs st).
    { unfold valid_location in V. destruct (fs_get (s_fs st) FStorageId) as [[l|b|b]|]; now inversion V. }
    subst f1. destruct I; constructor; assumption.
Qed.

(** the environment only touches the id file: nothing the invariant talks about *)
Lemma Inv_idfile v st f' :
  fs_get f' FKv = fs_get (s_fs st) FKv -> fs_get f' FSeen = fs_get (s_fs st) FSeen ->
  fs_get f' FSeenMgr = fs_get (s_fs st) FSeenMgr -> Inv v st -> Inv v (with_fs st f').
Proof.
  intros Hk Hs Hm I.
  assert (Kf : kvfile f' = kvfile (s_fs st)) by (unfold kvfile; now rewrite Hk).
  assert (Lf : load_last_id v f' = load_last_id v (s_fs st)).
  { unfold load_last_id. destruct (read_name_cases v) as [[-> _]|[-> _]]; now rewrite ?Hs, ?Hm. }
  destruct I as [U P W Hi Hc Hd Hsn].
  constructor; cbn [with_fs s_src s_fs s_cursor s_snap]; rewrite ?Kf, ?Lf; auto.
  - unfold kv_wf. now rewrite Hk.
  - intros s E. rewrite Hk. now apply Hsn.
Qed.

(** *** the new step kinds in terms of the old ones *)
Definition set_src (st : state) (src : list entry) : state :=
  {| s_src := src; s_store_id := s_store_id st; s_fs := s_fs st; s_cursor := s_cursor st;
     s_running := s_running st; s_snap := s_snap st |}.

(** a run with a concurrent writer = the run, then (if it got as far as the dump) the writes *)
Lemma conc_shape v st post : exists ws,
  step v st (OBackupConc post) =
  (set_src (fst (run_backup v st)) (apply_writes (s_src (fst (run_backup v st))) ws), snd (run_backup v st)).
Proof.
  cbn [step]. destruct (run_backup v st) as [st1 r]. cbn [fst snd].
  destruct (r =? R_RETURNED); [exists post; reflexivity | exists []; destruct st1; reflexivity].
Qed.

(** ops of the native restore theorems: no rsync-mode tick, no delete-all *)
Definition plain (o : op) : bool := negb (is_rsync o) && negb (is_delete o).
Definition is_backup (o : op) : bool :=
  match o with OBackup | OBackupConc _ | OBackupRsync _ => true | _ => false end.

Lemma Inv_put v st m ds k x del : Inv v st -> Inv v (set_src st (src_put (s_src st) m ds k x del)).
Proof.
  intros [U P W Hi Hc Hd Hs].
  constructor; cbn [set_src s_src s_fs s_cursor s_snap].
  - now apply uniq_put.
  - now apply allpos_put.
  - exact W.
  - eapply incl_tran; [exact Hi | apply incl_put].
  - now apply safe_put.
  - now apply safe_put.
  - intros s E. destruct (Hs s E) as (A & B & C & D). repeat split; auto.
    eapply incl_tran; [exact D | apply incl_put].
Qed.

Lemma Inv_writes v ws : forall st, Inv v st -> Inv v (set_src st (apply_writes (s_src st) ws)).
Proof.
  induction ws as [|[[[[m ds] k] x] del] ws IH]; intros st I.
  - destruct st; exact I.
  - cbn [apply_writes fold_left].
    exact (IH (set_src st (src_put (s_src st) m ds k x del)) (Inv_put v st m ds k x del I)).
Qed.

Lemma Inv_step v st o : v_reopen v = MAppend -> plain o = true -> Inv v st -> Inv v (fst (step v st o)).
Proof.
  intros Hm Hp I. destruct o as [m ds k x del| |m|b| |post|ok|m' sid']; try discriminate Hp.
  - exact (Inv_put v st m ds k x del I).
  - now apply Inv_backup.
  - cbn [step fst]. destruct I as [U P W Hi Hc Hd Hs].
    constructor; cbn [s_src s_fs s_cursor s_snap].
    + now apply uniq_put.
    + now apply allpos_put.
    + exact W.
    + eapply incl_tran; [exact Hi | apply incl_put].
    + now apply safe_put.
    + now apply safe_put.
    + intros s E. destruct (Hs s E) as (A & B & C & D). repeat split; auto.
      eapply incl_tran; [exact D | apply incl_put].
  - cbn [step fst]. apply Inv_idfile; fs_simpl; auto.
  - cbn [step fst]. apply Inv_idfile; fs_simpl; auto.
  - destruct (conc_shape v st post) as [ws ->]. cbn [fst]. apply Inv_writes. now apply Inv_backup.
Qed.

Lemma Inv_run v ops : v_reopen v = MAppend -> forallb plain ops = true ->
  forall st, Inv v st -> Inv v (run v ops st).
Proof.
  intros Hm. induction ops as [|o ops IH]; cbn [run forallb]; intros Hp st I; [exact I|].
  apply andb_true_iff in Hp. destruct Hp as [Ho Hp]. apply (IH Hp). now apply Inv_step.
Qed.

Lemma uniq_nil : uniq []. Proof. intros ? ? []. Qed.
Lemma allpos_nil : allpos []. Proof. intros ? []. Qed.

(** a new store and an EMPTY backup location *)
Lemma Inv_init v m0 sid : Inv v (init v m0 sid []).
Proof.
  unfold init, load_last_id. cbn [fs_get].
  constructor; cbn [s_src s_fs s_cursor s_snap kvfile fs_get].
  - apply uniq_put, uniq_nil.
  - apply allpos_put, allpos_nil.
  - now left.
  - intros ? [].
  - apply safe_zero, allpos_put, allpos_nil.
  - apply safe_zero, allpos_put, allpos_nil.
  - discriminate.
Qed.

Lemma uniq_incl a b : incl a b -> uniq b -> uniq a.
Proof. intros Hi U e1 e2 H1 H2. apply U; now apply Hi. Qed.

Lemma Inv_restore_ok v st : Inv v st -> restore_ok st.
Proof.
  intros I s E. destruct (inv_snap _ _ I s E) as (A & B & C & D).
  exists (kvfile (s_fs st)). split; [exact A|].
  intros ds k. unfold badger_load. apply latest_set_eq; auto.
  eapply uniq_incl; [exact D | exact (inv_uniq _ _ I)].
Qed.

(** *** C20_restore *)
Theorem restore_append : forall v m0 sid ops, v_reopen v = MAppend -> forallb plain ops = true ->
  restore_ok (run v ops (init v m0 sid [])).
Proof. intros. apply (Inv_restore_ok v), Inv_run; [assumption | assumption | apply Inv_init]. Qed.

(** ** the split-history form: no ghost state in the statement *)
Lemma run_app v a b st : run v (a ++ b) st = run v b (run v a st).
Proof. revert st. induction a as [|o a IH]; cbn; intros; [reflexivity | apply IH]. Qed.

(** the location is ours (or still unclaimed) and no run is stuck *)
Definition ours (st : state) : Prop :=
  s_running st = false /\
  (fs_get (s_fs st) FStorageId = None \/ fs_get (s_fs st) FStorageId = Some (DBytes (s_store_id st))).

Lemma ours_valid st : ours st -> fst (valid_location st) = true.
Proof.
  intros [_ [H|H]]; unfold valid_location; rewrite H; cbn; [reflexivity | apply bytes_eqb_refl].
Qed.

Lemma dnb_frame v st : 
  fs_get (s_fs (do_native_backup v st)) FStorageId = fs_get (s_fs st) FStorageId
  /\ s_store_id (do_native_backup v st) = s_store_id st
  /\ s_src (do_native_backup v st) = s_src st.
Proof.
  unfold do_native_backup, badger_backup, store_last_id, fs_open, fs_write_entries. cbv zeta.
  destruct (file_exists (s_fs st) FKv); destruct (v_reopen v);
  destruct (filter _ (s_src st)); cbn [s_fs s_store_id s_src];
  repeat match goal with |- context [match fs_get ?f ?n with _ => _ end] => destruct (fs_get f n) as [[?|?|?]|] end;
  cbn [s_fs s_store_id s_src]; repeat split; fs_simpl; reflexivity.
Qed.

Lemma ours_backup v st : ours st -> ours (fst (run_backup v st)).
Proof.
  intros O. unfold run_backup. destruct O as [Hr Hid]. rewrite Hr.
  pose proof (ours_valid st (conj Hr Hid)) as Hv.
  destruct (valid_location st) as [ok f1] eqn:V. cbn in Hv. subst ok. cbn [fst].
  destruct (dnb_frame v (with_fs st f1)) as (F1 & F2 & _). cbn [with_fs s_fs s_store_id] in F1, F2.
  split; cbn [s_running s_fs s_store_id]; [reflexivity|]. rewrite F1, F2.
  right. unfold valid_location in V. destruct Hid as [H|H]; rewrite H in V.
  - injection V as <-. now rewrite fs_get_set_same.
  - rewrite bytes_eqb_refl in V. injection V as <-. exact H.
Qed.

Lemma ours_step v st o : is_env o = false -> plain o = true -> ours st -> ours (fst (step v st o)).
Proof.
  intros He Hp O. destruct o as [m ds k x del| |m|b| |post|ok|m' sid']; try discriminate He; try discriminate Hp.
  - exact O.
  - now apply ours_backup.
  - destruct O as [_ Hid]. split; [reflexivity | exact Hid].
  - destruct (conc_shape v st post) as [ws ->]. cbn [fst]. exact (ours_backup v st O).
Qed.

Lemma ours_run v ops : forallb (fun o => negb (is_env o) && plain o) ops = true ->
  forall st, ours st -> ours (run v ops st).
Proof.
  induction ops as [|o ops IH]; cbn [run forallb]; intros H st O; [exact O|].
  apply andb_true_iff in H. destruct H as [Ho H]. apply andb_true_iff in Ho. destruct Ho as [Ho1 Ho2].
  apply (IH H), ours_step; [now destruct (is_env o) | assumption | exact O].
Qed.

Lemma ours_init v m0 sid : ours (init v m0 sid []).
Proof. split; [reflexivity | now left]. Qed.

Lemma snap_no_backup v ops : forallb (fun o => negb (is_backup o)) ops = true ->
  forall st, s_snap (run v ops st) = s_snap st.
Proof.
  induction ops as [|o ops IH]; cbn [run forallb]; intros H st; [reflexivity|].
  apply andb_true_iff in H. destruct H as [Ho H]. rewrite (IH H).
  destruct o; cbn in Ho |- *; try reflexivity; discriminate.
Qed.

Lemma backup_returns v st : ours st -> s_snap (fst (run_backup v st)) = Some (s_src st).
Proof.
  intros O. unfold run_backup. pose proof (ours_valid st O) as Hv. destruct O as [-> _].
  destruct (valid_location st) as [ok f1]. cbn in Hv. subst ok. reflexivity.
Qed.

Lemma forallb_app {A} (f : A -> bool) a b : forallb f (a ++ b) = forallb f a && forallb f b.
Proof. induction a; cbn; [reflexivity | now rewrite IHa, andb_assoc]. Qed.

Theorem restore_append_explicit : forall v m0 sid h1 h2,
  v_reopen v = MAppend ->
  forallb (fun o => negb (is_env o) && plain o) h1 = true ->
  forallb (fun o => negb (is_backup o) && plain o) h2 = true ->
  let st1 := run v h1 (init v m0 sid []) in
  let st := run v (h1 ++ OBackup :: h2) (init v m0 sid []) in
  exists file, fs_get (s_fs st) FKv = Some (DEntries file) /\
               forall ds k, latest ds k (badger_load file) = latest ds k (s_src st1).
Proof.
  intros v m0 sid h1 h2 Hm H1 H2 st1 st.
  assert (P1 : forallb plain h1 = true).
  { apply forallb_forall. intros o Ho. apply (proj1 (forallb_forall _ _) H1) in Ho.
    apply andb_true_iff in Ho. tauto. }
  assert (P2 : forallb plain h2 = true /\ forallb (fun o => negb (is_backup o)) h2 = true).
  { split; apply forallb_forall; intros o Ho; apply (proj1 (forallb_forall _ _) H2) in Ho;
      apply andb_true_iff in Ho; tauto. }
  assert (R : restore_ok st).
  { apply restore_append; [assumption|]. rewrite forallb_app. cbn [forallb]. rewrite P1, (proj1 P2). reflexivity. }
  apply R. subst st. rewrite run_app. cbn [run step]. rewrite (snap_no_backup v h2 (proj2 P2)).
  apply backup_returns. apply ours_run; [assumption | apply ours_init].
Qed.

(** ** C20_foreign: a location that carries another store's id is never written (any variant) *)
Definition foreign (st : state) : Prop :=
  exists b, fs_get (s_fs st) FStorageId = Some (DBytes b) /\ b <> s_store_id st.

Lemma foreign_backup v st : foreign st ->
  (fst (run_backup v st) = st \/ fst (run_backup v st) = 
     {| s_src := s_src st; s_store_id := s_store_id st; s_fs := s_fs st; s_cursor := s_cursor st;
        s_running := true; s_snap := s_snap st |})
  /\ snd (run_backup v st) <> R_RETURNED.
Proof.
  intros (b & Hb & Hne). unfold run_backup. destruct (s_running st); [split; [now left | discriminate]|].
  unfold valid_location. rewrite Hb.
  destruct (bytes_eqb (s_store_id st) b) eqn:E; [apply bytes_eqb_eq in E; congruence|].
  cbn. split; [now right | discriminate].
Qed.

Lemma foreign_step v st o : is_env o = false -> foreign st ->
  s_fs (fst (step v st o)) = s_fs st
  /\ (is_delete o = false -> s_store_id (fst (step v st o)) = s_store_id st)
  /\ s_snap (fst (step v st o)) = s_snap st /\ snd (step v st o) <> R_RETURNED.
Proof.
  intros He F. destruct o as [m ds k x del| |m|b'| |post|ok|m' sid']; try discriminate He;
    try (cbn [step fst snd s_fs s_store_id s_snap]; repeat split; discriminate).
  - destruct (foreign_backup v st F) as [[E|E] R]; cbn [step]; rewrite E; repeat split; auto.
  - destruct (foreign_backup v st F) as [[E|E] R].
    + cbn [step]. destruct (run_backup v st) as [st1 r]. cbn [fst snd] in *. subst st1.
      destruct (r =? R_RETURNED) eqn:Er; [apply N.eqb_eq in Er; contradiction|]. repeat split; auto.
    + cbn [step]. destruct (run_backup v st) as [st1 r]. cbn [fst snd] in *. subst st1.
      destruct (r =? R_RETURNED) eqn:Er; [apply N.eqb_eq in Er; contradiction|]. repeat split; auto.
  - destruct F as (b & Hb & Hne). cbn [step]. unfold run_backup_rsync.
    destruct (s_running st); [repeat split; discriminate|].
    unfold valid_location. rewrite Hb.
    destruct (bytes_eqb (s_store_id st) b) eqn:E; [apply bytes_eqb_eq in E; congruence|].
    cbn. repeat split; discriminate.
Qed.

Theorem foreign_never_written : forall v ops st,
  forallb (fun o => negb (is_env o) && negb (is_delete o)) ops = true -> foreign st ->
  s_fs (run v ops st) = s_fs st /\ s_snap (run v ops st) = s_snap st.
Proof.
  intros v ops. induction ops as [|o ops IH]; cbn [run forallb]; intros st He F; [now split|].
  apply andb_true_iff in He. destruct He as [Ho He]. apply andb_true_iff in Ho. destruct Ho as [Ho1 Ho2].
  assert (Ho' : is_env o = false) by now destruct (is_env o).
  assert (Hd' : is_delete o = false) by now destruct (is_delete o).
  destruct (foreign_step v st o Ho' F) as (A & B & C & _). specialize (B Hd').
  assert (F' : foreign (fst (step v st o))).
  { destruct F as (b & Hb & Hne). exists b. now rewrite A, B. }
  destruct (IH _ He F') as [H1 H2]. now rewrite H1, H2, A, C.
Qed.

(** ** Store.Delete resets the store's identity: the emptied store is a different store *)
Theorem delete_makes_foreign : forall v st m sid b,
  fs_get (s_fs st) FStorageId = Some (DBytes b) -> b <> sid ->
  foreign (fst (step v st (ODeleteAll m sid)))
  /\ s_fs (fst (step v st (ODeleteAll m sid))) = s_fs st
  /\ s_snap (fst (step v st (ODeleteAll m sid))) = s_snap st.
Proof. intros. cbn [step fst]. repeat split. exists b. cbn. now split. Qed.

(** ... so after a delete-all with a fresh id the backup stays what it was: every later run is
    refused, the location and the snapshot are frozen and the restore statement keeps holding *)
Theorem restore_after_delete : forall v m0 sid h1 m sid' h2 b,
  v_reopen v = MAppend -> forallb plain h1 = true ->
  loc_id (s_fs (run v h1 (init v m0 sid []))) = Some b -> b <> sid' ->
  forallb (fun o => negb (is_env o) && negb (is_delete o)) h2 = true ->
  let st1 := run v h1 (init v m0 sid []) in
  let st := run v (h1 ++ ODeleteAll m sid' :: h2) (init v m0 sid []) in
  restore_ok st /\ s_fs st = s_fs st1 /\ s_snap st = s_snap st1.
Proof.
  intros v m0 sid h1 m sid' h2 b Hm P1 Hl Hne H2 st1 st.
  assert (R1 : restore_ok st1) by (apply restore_append; assumption).
  assert (Hb : fs_get (s_fs st1) FStorageId = Some (DBytes b)).
  { unfold loc_id in Hl. fold st1 in Hl. destruct (fs_get (s_fs st1) FStorageId) as [[?|?|?]|]; try discriminate.
    now injection Hl as ->. }
  destruct (delete_makes_foreign v st1 m sid' b Hb Hne) as (F & A & C).
  destruct (foreign_never_written v h2 _ H2 F) as [A2 C2].
  assert (Ef : s_fs st = s_fs st1) by (subst st; rewrite run_app; cbn [run]; fold st1; now rewrite A2, A).
  assert (Es : s_snap st = s_snap st1) by (subst st; rewrite run_app; cbn [run]; fold st1; now rewrite C2, C).
  split; [|now split]. intros s E. rewrite Es in E. rewrite Ef. now apply R1.
Qed.

(** ** rsync mode: the copy is the snapshot of the last run whose rsync succeeded, whatever fails in between *)
Lemma rsync_step v st o : is_native o = false -> restore_ok_rsync st -> restore_ok_rsync (fst (step v st o)).
Proof.
  unfold restore_ok_rsync. intros Hn R.
  destruct o as [m ds k x del| |m|b| |post|ok|m' sid']; try discriminate Hn; cbn [step fst s_fs s_snap with_fs];
    try exact R; try (intros s E; fs_simpl; now apply R).
  unfold run_backup_rsync. destruct (s_running st); [exact R|].
  destruct (valid_location st) as [valid f1] eqn:V.
  assert (Vc : fs_get f1 FCopy = fs_get (s_fs st) FCopy).
  { unfold valid_location in V. destruct (fs_get (s_fs st) FStorageId) as [[?|?|?]|]; injection V as <- <-; auto.
    now fs_simpl. }
  destruct valid; [destruct ok|]; cbn [fst s_fs s_snap].
  - intros s [= <-]. now fs_simpl.
  - intros s E. rewrite Vc. now apply R.
  - intros s E. rewrite Vc. now apply R.
Qed.

Theorem restore_rsync : forall v ops st, forallb (fun o => negb (is_native o)) ops = true ->
  restore_ok_rsync st -> restore_ok_rsync (run v ops st).
Proof.
  intros v ops. induction ops as [|o ops IH]; cbn [run forallb]; intros st H R; [exact R|].
  apply andb_true_iff in H. destruct H as [Ho H]. apply (IH _ H), rsync_step; [now destruct (is_native o) | exact R].
Qed.

(** ** the run-state machine: isRunning is set after a step only if it was set before or the step is a
    tick that panicked on an invalid location; a restart clears it *)
Definition is_restart_op (o : op) : bool := match o with ORestart _ => true | _ => false end.
Theorem running_released : forall v st o,
  s_running (fst (step v st o)) = true ->
  (s_running st = true /\ is_restart_op o = false) \/ snd (step v st o) = R_REFUSED.
Proof.
  intros v st o. destruct o as [m ds k x del| |m|b| |post|ok|m' sid']; cbn [step fst snd s_running with_fs is_restart_op];
    try (intros H; left; split; [exact H | reflexivity]); try discriminate.
  - unfold run_backup. destruct (s_running st) eqn:Er; [intros _; left; now split|].
    destruct (valid_location st) as [ok f1]. destruct ok; cbn; [discriminate | now right].
  - destruct (conc_shape v st post) as [ws E]. cbn [step] in E. rewrite E. cbn [fst snd set_src s_running].
    unfold run_backup. destruct (s_running st) eqn:Er; [intros _; left; now split|].
    destruct (valid_location st) as [ok f1]. destruct ok; cbn; [discriminate | now right].
  - unfold run_backup_rsync. destruct (s_running st) eqn:Er; [intros _; left; now split|].
    destruct (valid_location st) as [valid f1]. destruct valid; [destruct ok|]; cbn; try discriminate. now right.
Qed.

(** ** what the pinned tree did: the file is frozen after the run that created it *)
Lemma readonly_frozen_backup v st X : v_reopen v = MRead ->
  fs_get (s_fs st) FKv = Some (DEntries X) -> fs_get (s_fs (fst (run_backup v st))) FKv = Some (DEntries X).
Proof.
  intros Hm Hx. unfold run_backup. destruct (s_running st); [exact Hx|].
  destruct (valid_location st) as [ok f1] eqn:V.
  destruct (valid_location_fs _ _ _ V) as (Vk & _ & _).
  destruct ok; cbn [fst s_fs]; [|now rewrite Vk].
  unfold do_native_backup, badger_backup, store_last_id. cbv zeta.
  cbn [with_fs s_fs s_src s_cursor]. unfold file_exists. rewrite Vk, Hx, Hm. cbn [fs_open fs_write_entries].
  destruct (filter _ (s_src st)); cbn [s_fs]; fs_simpl; now rewrite Vk.
Qed.

Lemma readonly_frozen_step v st o X : v_reopen v = MRead ->
  fs_get (s_fs st) FKv = Some (DEntries X) -> fs_get (s_fs (fst (step v st o))) FKv = Some (DEntries X).
Proof.
  intros Hm Hx. destruct o as [m ds k x del| |m|b| |post|ok|m' sid']; cbn [step fst s_fs with_fs]; try exact Hx;
    try (fs_simpl; exact Hx).
  - now apply readonly_frozen_backup.
  - destruct (conc_shape v st post) as [ws E]. cbn [step] in E. rewrite E. cbn [fst set_src s_fs].
    now apply readonly_frozen_backup.
  - unfold run_backup_rsync. destruct (s_running st); [exact Hx|].
    destruct (valid_location st) as [valid f1] eqn:V.
    destruct (valid_location_fs _ _ _ V) as (Vk & _ & _).
    destruct valid; [destruct ok|]; cbn [fst s_fs]; fs_simpl; now rewrite Vk.
Qed.

Lemma readonly_frozen_run v ops X : v_reopen v = MRead -> forall st,
  fs_get (s_fs st) FKv = Some (DEntries X) -> fs_get (s_fs (run v ops st)) FKv = Some (DEntries X).
Proof.
  intros Hm. induction ops as [|o ops IH]; cbn [run]; intros st Hx; [exact Hx|].
  apply IH. now apply readonly_frozen_step.
Qed.

(** before the first backup run nothing exists at the location and the cursor is 0 *)
Definition pristine (st : state) : Prop :=
  s_fs st = [] /\ s_cursor st = 0 /\ s_running st = false /\ allpos (s_src st).

Lemma pristine_run v ops : forallb (fun o => negb (is_backup o) && negb (is_env o)) ops = true ->
  forall st, pristine st -> pristine (run v ops st).
Proof.
  induction ops as [|o ops IH]; cbn [run forallb]; intros H st P; [exact P|].
  apply andb_true_iff in H. destruct H as [Ho H]. apply (IH H).
  destruct P as (Pf & Pc & Pr & Pp).
  destruct o; cbn in Ho; try discriminate; cbn [step fst]; repeat split; cbn; auto.
  - now apply allpos_put.
  - now rewrite Pf.
  - now apply allpos_put.
  - apply allpos_put, allpos_nil.
Qed.

Lemma filter_allpos l : allpos l -> filter (fun e => 0 <? e_ver e) l = l.
Proof.
  induction l as [|e l IH]; cbn; intros P; [reflexivity|].
  assert (0 <? e_ver e = true) by (apply N.ltb_lt, P; now left). rewrite H.
  f_equal. apply IH. intros x Hx. apply P. now right.
Qed.

Lemma first_backup v st : pristine st ->
  fs_get (s_fs (fst (run_backup v st))) FKv = Some (DEntries (s_src st)).
Proof.
  intros (Pf & Pc & Pr & Pp). unfold run_backup. rewrite Pr.
  unfold valid_location. rewrite Pf. cbn [fs_get fst].
  unfold do_native_backup, badger_backup, store_last_id. cbv zeta.
  cbn [with_fs s_fs s_src s_cursor fs_set]. rewrite Pc, (filter_allpos _ Pp).
  unfold file_exists. cbn [fs_get fname_eqb fs_open].
  destruct (s_src st) as [|e l] eqn:Es; cbn [s_fs fst].
  - fs_simpl. reflexivity.
  - unfold fs_write_entries. fs_simpl. cbn [app]. fs_simpl. reflexivity.
Qed.

Theorem readonly_keeps_first : forall v m0 sid h1 h2,
  v_reopen v = MRead ->
  forallb (fun o => negb (is_backup o) && negb (is_env o)) h1 = true ->
  let st1 := run v h1 (init v m0 sid []) in
  let st := run v (h1 ++ OBackup :: h2) (init v m0 sid []) in
  fs_get (s_fs st) FKv = Some (DEntries (s_src st1)).
Proof.
  intros v m0 sid h1 h2 Hm Hnb st1 st. subst st. rewrite run_app. cbn [run step].
  apply readonly_frozen_run; [assumption|]. apply first_backup.
  apply pristine_run; [assumption|].
  unfold init, load_last_id; cbn. repeat split. apply allpos_put, allpos_nil.
Qed.

(** ** the cursor: with the same name written and read a restart does not change it *)
Lemma cursor_on_disk_backup v st : v_name v = NameSame ->
  s_cursor st = load_last_id v (s_fs st) ->
  s_cursor (fst (run_backup v st)) = load_last_id v (s_fs (fst (run_backup v st))).
Proof.
  intros Hn H. unfold run_backup. destruct (s_running st); [exact H|].
  destruct (valid_location st) as [ok f1] eqn:V.
  destruct (valid_location_fs _ _ _ V) as (_ & Vs & _).
  assert (Hr : read_name v = FSeen) by (unfold read_name; now rewrite Hn).
  destruct ok; cbn [fst s_cursor s_fs].
  - unfold do_native_backup, badger_backup, store_last_id, load_last_id. cbv zeta. rewrite Hr.
    destruct (filter _ _); [|destruct (fs_write_entries _ _ _ _)]; cbn [s_cursor s_fs]; now rewrite fs_get_set_same.
  - rewrite H. unfold load_last_id. now rewrite Hr, Vs.
Qed.

Lemma cursor_on_disk_step v st o : v_name v = NameSame ->
  s_cursor st = load_last_id v (s_fs st) ->
  s_cursor (fst (step v st o)) = load_last_id v (s_fs (fst (step v st o))).
Proof.
  intros Hn H.
  assert (Hr : read_name v = FSeen) by (unfold read_name; now rewrite Hn).
  destruct o as [m ds k x del| |m|b| |post|ok|m' sid']; cbn [step fst s_cursor s_fs with_fs]; auto;
    try (rewrite H; unfold load_last_id; rewrite Hr; now fs_simpl).
  - now apply cursor_on_disk_backup.
  - destruct (conc_shape v st post) as [ws E]. cbn [step] in E. rewrite E. cbn [fst set_src s_cursor s_fs].
    now apply cursor_on_disk_backup.
  - unfold run_backup_rsync. destruct (s_running st); [exact H|].
    destruct (valid_location st) as [valid f1] eqn:V.
    destruct (valid_location_fs _ _ _ V) as (_ & Vs & _).
    destruct valid; [destruct ok|]; cbn [fst s_cursor s_fs]; rewrite H; unfold load_last_id; rewrite Hr; fs_simpl; now rewrite Vs.
Qed.

Theorem cursor_survives_restart : forall v m0 sid ops m, v_name v = NameSame ->
  let st := run v ops (init v m0 sid []) in
  s_cursor (fst (step v st (ORestart m))) = s_cursor st.
Proof.
  intros v m0 sid ops m Hn st. cbn [step fst s_cursor]. symmetry. subst st.
  generalize (init v m0 sid []) (eq_refl : s_cursor (init v m0 sid []) = load_last_id v (s_fs (init v m0 sid []))).
  induction ops as [|o ops IH]; cbn [run]; intros st H; [exact H|].
  apply IH. now apply cursor_on_disk_step.
Qed.

(** ** the cursor file's encoding: writing 8 little-endian bytes and reading them back is the
    identity below 2^64 (and in general reduces modulo 2^(8k)) *)
Lemma le_dec_enc k : forall n, le_dec (le_enc k n) = n mod (256 ^ N.of_nat k).
Proof.
  induction k as [|k IH]; intros n.
  - cbn. now rewrite N.mod_1_r.
  - cbn [le_enc le_dec]. rewrite IH, Nat2N.inj_succ, N.pow_succ_r'.
    rewrite N.mod_mul_r by (try apply N.pow_nonzero; discriminate). reflexivity.
Qed.

Theorem cursor_codec_roundtrip : forall n, n < 2 ^ 64 -> le_dec (le64_enc n) = n.
Proof.
  intros n H. unfold le64_enc. rewrite le_dec_enc. apply N.mod_small.
  change (256 ^ N.of_nat 8) with (2 ^ 64). exact H.
Qed.

Lemma le_enc_length k : forall n, length (le_enc k n) = k.
Proof. induction k; intros; cbn; [reflexivity | now rewrite IHk]. Qed.

(** ** refutation witnesses (pinned tree = [current]) *)
(** the history of finding F20a with the store versions observed on the real hub *)
Definition wit_a : list op := [OWrite 24 0 1 3 false; OBackup; OWrite 31 0 2 4 false; OBackup].
(** finding F20b *)
Definition wit_b : list op := [OWrite 24 0 1 3 false; OBackup; ORestart 26].

Lemma refuted_readonly_reopen : ~ restore_ok (run current wit_a (init current 10 [49] [])).
Proof.
  intros H. destruct (H _ eq_refl) as (file & Hf & Hl).
  vm_compute in Hf. injection Hf as <-. specialize (Hl 0 2). vm_compute in Hl. discriminate.
Qed.

Lemma refuted_readonly_reopen_name_only : ~ restore_ok (run name_only wit_a (init name_only 10 [49] [])).
Proof.
  intros H. destruct (H _ eq_refl) as (file & Hf & Hl).
  vm_compute in Hf. injection Hf as <-. specialize (Hl 0 2). vm_compute in Hl. discriminate.
Qed.

(** the second run wrote nothing and reset the cursor (in memory and on disk) to 0 *)
Lemma readonly_second_run :
  let st := run current wit_a (init current 10 [49] []) in
  kvfile (s_fs st) = [{| e_ver := 10; e_ds := sys_ds; e_id := 0; e_val := 10; e_del := false |};
                      {| e_ver := 24; e_ds := 0; e_id := 1; e_val := 3; e_del := false |}]
  /\ s_cursor st = 0 /\ seen_file (s_fs st) = Some 0.
Proof. vm_compute. repeat split; reflexivity. Qed.

(** the cursor is written (24) but a restart reads another file name and gets 0 *)
Lemma refuted_cursor_filename :
  let st := run current wit_b (init current 10 [49] []) in
  seen_file (s_fs st) = Some 24 /\ s_cursor st = 0.
Proof. vm_compute. split; reflexivity. Qed.

Lemma refuted_cursor_filename_append_only :
  let st := run append_only wit_b (init append_only 10 [49] []) in
  seen_file (s_fs st) = Some 24 /\ s_cursor st = 0.
Proof. vm_compute. split; reflexivity. Qed.

Lemma fixed_cursor_reloaded :
  let st := run fixed wit_b (init fixed 10 [49] []) in
  seen_file (s_fs st) = Some 24 /\ s_cursor st = 24.
Proof. vm_compute. split; reflexivity. Qed.

(** the other obvious repair - always os.Create - is wrong as soon as the cursor works *)
Definition truncating : variant := {| v_reopen := MCreate; v_name := NameSame |}.
Lemma refuted_truncate : ~ restore_ok (run truncating wit_a (init truncating 10 [49] [])).
Proof.
  intros H. destruct (H _ eq_refl) as (file & Hf & Hl).
  vm_compute in Hf. injection Hf as <-. specialize (Hl 0 1). vm_compute in Hl. discriminate.
Qed.

(** hence: the pinned tree satisfies the restore statement exactly when nothing visible changed
    between the first run and the last returned run *)
Theorem readonly_restore_iff : forall v m0 sid h1 h2,
  v_reopen v = MRead ->
  forallb (fun o => negb (is_backup o) && negb (is_env o)) h1 = true ->
  let st1 := run v h1 (init v m0 sid []) in
  let st := run v (h1 ++ OBackup :: h2) (init v m0 sid []) in
  restore_ok st <->
  (forall s, s_snap st = Some s -> forall ds k, latest ds k (s_src st1) = latest ds k s).
Proof.
  intros v m0 sid h1 h2 Hm Hnb st1 st.
  pose proof (readonly_keeps_first v m0 sid h1 h2 Hm Hnb) as Hf. cbv zeta in Hf. fold st1 st in Hf.
  unfold restore_ok, badger_load. split; intros H s E.
  - destruct (H s E) as (file & Hf' & Hl). rewrite Hf in Hf'. injection Hf' as <-. exact Hl.
  - exists (s_src st1). split; [exact Hf | exact (H s E)].
Qed.
