(** Link between the C11 evaluator and the theorems: agreement with the repaired model implies the
    executable spec on the implementation's observation (configuration and raffle cases). *)
From Coq Require Import List ZArith NArith Bool Lia.
From DH Require Import Lib.CheckLib Model.Raffle Model.JobRun Proofs.RaffleProofs Proofs.JobRunProofs Check.C11Check.
Import ListNotations.
Open Scope Z_scope.

Lemma spec_log_reflect capF capI : forall log active,
  spec_log_prop capF capI active log -> spec_log capF capI active log = true.
Proof.
  induction log as [|o log IH]; intros active H; cbn in *.
  - subst. reflexivity.
  - destruct o as [id full|id].
    + destruct H as (H1 & H2 & H3). rewrite H1. cbn. apply andb_true_iff. split; [apply Z.ltb_lt; exact H2 | apply IH; exact H3].
    + destruct H as (H1 & H2). rewrite H1. cbn. apply IH. exact H2.
Qed.

Lemma agree_fixed_spec_cfg c : t_barrier c = false -> t_iscfg c = true -> agree jfixed c = true -> spec_ok c = true.
Proof.
  intros Hbar Hk. unfold agree, spec_ok, agree_cfg, spec_cfg. rewrite Hbar, Hk.
  pose proof (outcome_fixed_all (t_c c)) as G. unfold good_out in G.
  pose proof (kill_recorded (t_c c)) as K. rewrite <- (run_accepted jfixed (t_c c)) in K.
  rewrite (racy_fixed (t_c c)). cbn [orb].
  destruct (run_job jfixed (t_c c)) as [a al r t]. cbn [o_accepted o_alive o_result o_ticket] in *.
  intros H. apply andb_true_iff in H. destruct H as [Ho H]. rewrite Ho. cbn [andb].
  apply andb_true_iff in H. destruct H as [Hacc H].
  apply andb_true_iff in H. destruct H as [H Hlast]. apply andb_true_iff in H. destruct H as [Hlive Hst].
  apply Bool.eqb_prop in Hacc. subst a.
  destruct (ob_accepted c); [|reflexivity]. cbn [negb orb] in *.
  apply andb_true_iff in G. destruct G as [G Ht]. apply andb_true_iff in G. destruct G as [Hal Hr].
  subst al t.
  apply Bool.eqb_prop in Hlive. rewrite <- Hlive.
  apply andb_true_iff in Hlast. destruct Hlast as [Hres Htk]. apply Bool.eqb_prop in Htk. rewrite <- Htk.
  apply Z.eqb_eq in Hres. apply Z.eqb_eq in Hst. rewrite <- Hst, <- Hres.
  rewrite orb_false_r in K.
  destruct (must_kill (t_c c)); cbn [negb orb] in *; destruct r as [[]|]; try reflexivity; discriminate.
Qed.

Lemma agree_fixed_spec_raffle v c :
  t_barrier c = false -> t_iscfg c = false -> 0 <= t_capF c -> 0 <= t_capI c -> agree v c = true -> spec_ok c = true.
Proof.
  intros Hbar Hk HF HI. unfold agree, spec_ok, agree_raffle, spec_raffle. rewrite Hbar, Hk.
  intros H. apply andb_true_iff in H. destruct H as [Ho H]. rewrite Ho. cbn [andb].
  repeat (apply andb_true_iff in H; destruct H as [H ?]).
  destruct (replay (ob_log c) (r_init (t_capF c) (t_capI c))) as [st|] eqn:Hrep; [|discriminate].
  repeat (apply andb_true_iff in H; destruct H as [H ?]).
  assert (Hrun : r_running st = []) by (destruct (r_running st); [reflexivity|discriminate]).
  assert (Hinv : rinv (t_capF c) (t_capI c) (r_init (t_capF c) (t_capI c))).
  { unfold rinv, r_init. cbn. repeat split; try lia. constructor. }
  pose proof (replay_spec _ _ _ _ _ Hinv Hrep Hrun) as Hs. cbn [r_init r_running] in Hs.
  rewrite (spec_log_reflect _ _ _ _ Hs). cbn [andb].
  repeat (apply andb_true_iff; split); assumption.
Qed.

Lemma zlist_eqb_eq' l1 l2 : list_eqb Z.eqb l1 l2 = true -> l1 = l2.
Proof. apply list_eqb_eq. intros; apply Z.eqb_eq. Qed.

Lemma skipn_repeat_tail g b (r : Z) : (g <= b)%nat -> skipn (S b) (repeat 0 g ++ [r]) = [].
Proof.
  intros H. apply skipn_all2. rewrite app_length, repeat_length. cbn. lia.
Qed.

Lemma agree_spec_barrier v c : t_barrier c = true -> 0 <= t_capF c -> 0 <= t_capI c -> agree v c = true -> spec_ok c = true.
Proof.
  intros Hbar HF HI. unfold agree, spec_ok, agree_barrier, spec_barrier. rewrite Hbar.
  intros H. apply andb_true_iff in H. destruct H as [Ho H]. rewrite Ho. cbn [andb].
  repeat (apply andb_true_iff in H; destruct H as [H ?]).
  match goal with Hh : list_eqb Z.eqb (ob_hist c) _ = true |- _ => apply zlist_eqb_eq' in Hh; rewrite Hh end.
  assert (G : (model_granted c <= barrier_bound c)%nat).
  { unfold model_granted, barrier_bound. destruct (t_distinct c).
    - pose proof (grant_pool_bound (req_kind c) (zids 0 (length (t_reqs c))) (r_init (t_capF c) (t_capI c))) as B.
      unfold tickets, r_init in B. cbn [r_full r_incr] in B. revert B. destruct (req_kind c); intros B; [specialize (B HF) | specialize (B HI)]; unfold r_init; lia.
    - apply grant_at_most_one. }
  rewrite (skipn_repeat_tail _ _ _ G). cbn [forallb andb].
  repeat (apply andb_true_iff; split); assumption || reflexivity.
Qed.
