(** Proofs about Model/DsManager.v, part 2: in the repaired variant the hub refines the spec S
    (a list of named datasets): every answer is the spec's answer on the abstraction, every operation
    is the spec operation on the abstraction, a crash at any hook point leaves the abstraction of the
    state before or after the operation. *)
From Coq Require Import List ZArith Bool Lia.
From DH Require Import Model.Store Proofs.StoreProofs Model.DsManager Proofs.DsManagerProofs.
Import ListNotations.
Open Scope Z_scope.


(** ** canonical sorted duplicate-free lists *)
Fixpoint ssorted (l : list Z) : Prop :=
  match l with [] => True | x :: l' => Forall (fun y => x < y) l' /\ ssorted l' end.
Lemma In_insert k l y : In y (insert_sorted k l) <-> y = k \/ In y l.
Proof.
  induction l as [|x l IH]; cbn; [intuition|].
  destruct (Z.ltb_spec k x); [cbn; intuition|].
  destruct (Z.eqb_spec k x); [subst; cbn; intuition|]. cbn. rewrite IH. intuition.
Qed.
Lemma ssorted_insert k l : ssorted l -> ssorted (insert_sorted k l).
Proof.
  induction l as [|x l IH]; cbn; intros H; [auto|]. destruct H as [H1 H2].
  destruct (Z.ltb_spec k x).
  - cbn. split; [|auto]. constructor; [assumption|]. eapply Forall_impl; [|exact H1]. cbn. intros; lia.
  - destruct (Z.eqb_spec k x); [cbn; auto|]. cbn. split; [|auto].
    apply Forall_forall. intros y Hy. apply In_insert in Hy. destruct Hy as [->|Hy]; [lia|].
    rewrite Forall_forall in H1. auto.
Qed.
Lemma ssorted_ext l1 : forall l2, ssorted l1 -> ssorted l2 -> (forall y, In y l1 <-> In y l2) -> l1 = l2.
Proof.
  induction l1 as [|x l1 IH]; intros [|y l2] S1 S2 E.
  - reflexivity.
  - exfalso. apply (E y). now left.
  - exfalso. apply (E x). now left.
  - cbn in S1, S2. destruct S1 as [A1 A2], S2 as [B1 B2]. rewrite Forall_forall in A1, B1.
    assert (x = y).
    { destruct (proj1 (E x) (or_introl eq_refl)) as [->|Hx]; [reflexivity|].
      destruct (proj2 (E y) (or_introl eq_refl)) as [->|Hy]; [reflexivity|].
      specialize (A1 _ Hy). specialize (B1 _ Hx). lia. }
    subst y. f_equal. apply IH; auto. intros z. split; intros Hz.
    + destruct (proj1 (E z) (or_intror Hz)) as [->|]; [|assumption]. specialize (A1 _ Hz). lia.
    + destruct (proj2 (E z) (or_intror Hz)) as [->|]; [|assumption]. specialize (B1 _ Hz). lia.
Qed.
Lemma zcanon_In l y : In y (zcanon l) <-> In y l.
Proof. induction l as [|x l IH]; cbn; [tauto|]. rewrite In_insert, IH. intuition. Qed.
Lemma zcanon_sorted l : ssorted (zcanon l).
Proof. induction l as [|x l IH]; cbn; [exact I | now apply ssorted_insert]. Qed.
Lemma zcanon_ext l1 l2 : (forall y, In y l1 <-> In y l2) -> zcanon l1 = zcanon l2.
Proof. intros E. apply ssorted_ext; try apply zcanon_sorted. intros y. rewrite !zcanon_In. apply E. Qed.

(** ** the full invariant of the repaired variant *)
Definition orph (st : store) (r : registry) : Prop :=
  Forall (fun i => zmem i (r_deleted r) = true \/ rassoc i (r_names r) <> None) (map fst (s_ds st)).
Definition metaok (h : hub) : Prop :=
  forall n, In n (map fst (filter (fun p : name * bool => snd p) (h_meta h))) <-> In n (map fst (r_names (h_mem h))).
Definition hfull (h : hub) : Prop := hinv h /\ orph (h_st h) (h_mem h) /\ metaok h.

(** ** lookup by name in the abstraction *)
Lemma rassoc_assoc r i n : NoDup (map fst r) -> rassoc i r = Some n -> assoc n r = Some i.
Proof. intros ND H. apply In_assoc; [assumption | now apply rassoc_In]. Qed.
Lemma assoc_rassoc r i n : NoDup (map snd r) -> assoc n r = Some i -> rassoc i r = Some n.
Proof. intros ND H. apply In_rassoc; [assumption | now apply assoc_In]. Qed.

Lemma abs_lookup nm dl n : NoDup (map fst nm) -> NoDup (map snd nm) -> forall l,
  assoc n (flat_map (abs_entry nm dl) l)
  = match assoc n nm with Some i => if zmem i dl then None else assoc i l | None => None end.
Proof.
  intros N1 N2. induction l as [|[j d] l IH]; cbn [flat_map].
  - destruct (assoc n nm) as [i|]; [destruct (zmem i dl)|]; reflexivity.
  - unfold abs_entry at 1. cbn [fst snd].
    destruct (zmem j dl) eqn:Ej; cbn [app].
    + rewrite IH. destruct (assoc n nm) as [i|] eqn:En; [|reflexivity]. cbn [assoc].
      destruct (Z.eqb_spec i j); [subst; now rewrite Ej | reflexivity].
    + destruct (rassoc j nm) as [m|] eqn:Rj; cbn [app assoc].
      * destruct (Z.eqb_spec n m).
        -- subst m. rewrite (rassoc_assoc _ _ _ N1 Rj), Ej. cbn. now rewrite Z.eqb_refl.
        -- rewrite IH. destruct (assoc n nm) as [i|] eqn:En; [|reflexivity]. cbn [assoc].
           destruct (Z.eqb_spec i j); [|reflexivity]. subst i.
           apply (assoc_rassoc _ _ _ N2) in En. congruence.
      * rewrite IH. destruct (assoc n nm) as [i|] eqn:En; [|reflexivity]. cbn [assoc].
        destruct (Z.eqb_spec i j); [|reflexivity]. subst i.
        apply (assoc_rassoc _ _ _ N2) in En. congruence.
Qed.

Lemma abs_lookup_inv h n : hinv h ->
  assoc n (ss_ds (habs h)) = option_map (get_ds (h_st h)) (assoc n (h_names h)).
Proof.
  intros [Hs Hd]. pose proof Hd as Hd0. unfold dinvh in Hd0. rewrite <- Hs in Hd0. inv_rinv Hd0.
  unfold habs, abs_of. cbn [ss_ds]. rewrite abs_lookup by assumption. unfold h_names.
  destruct (assoc n (r_names (h_mem h))) as [i|] eqn:En; [|reflexivity]. cbn.
  assert (Hd' : rinv (h_st h) (h_mem h)) by (rewrite Hs; exact Hd).
  destruct (names_id_of _ _ _ _ Hd' En) as (_ & L & Hin). rewrite L.
  unfold get_ds. destruct (assoc i (s_ds (h_st h))) eqn:E; [reflexivity|].
  apply assoc_None in E. contradiction.
Qed.

Lemma s_has_abs h n : hinv h -> s_has n (habs h) = has_name n (h_names h).
Proof.
  intros H. unfold s_has, has_name. rewrite (abs_lookup_inv h n H). now destruct (assoc n (h_names h)).
Qed.

(** ** scopes *)
Lemma scope_nil h scope : hinv h ->
  (scope_ids (h_names h) scope = [] <-> s_scope (habs h) scope = []).
Proof.
  intros H. unfold s_scope, scope_ids. induction scope as [|n scope IH]; cbn [flat_map filter]; [tauto|].
  rewrite (s_has_abs h n H). unfold has_name. destruct (assoc n (h_names h)); cbn [app]; [split; discriminate | exact IH].
Qed.
Lemma scope_mem h scope i m : hinv h -> assoc m (h_names h) = Some i ->
  existsb (Z.eqb i) (scope_ids (h_names h) scope) = existsb (Z.eqb m) (s_scope (habs h) scope).
Proof.
  intros H Hm. pose proof H as [Hs Hd]. unfold dinvh in Hd. rewrite <- Hs in Hd. pose proof Hd as Hd0. inv_rinv Hd0.
  unfold s_scope, scope_ids. induction scope as [|n scope IH]; cbn [flat_map filter]; [reflexivity|].
  rewrite (s_has_abs h n H). unfold has_name. destruct (assoc n (h_names h)) as [j|] eqn:En; cbn [app existsb]; [|exact IH].
  rewrite IH. f_equal. destruct (Z.eqb_spec i j), (Z.eqb_spec m n); try reflexivity; exfalso.
  - subst j. unfold h_names in *. apply (assoc_rassoc _ _ _ Hids) in En, Hm. congruence.
  - subst n. congruence.
Qed.
Lemma scope_pass h scope i m : hinv h -> assoc m (h_names h) = Some i ->
  in_scope (scope_ids (h_names h) scope) i = in_scope (s_scope (habs h) scope) m.
Proof.
  intros H Hm. pose proof (scope_nil h scope H) as N. pose proof (scope_mem h scope i m H Hm) as M.
  unfold in_scope. destruct (scope_ids (h_names h) scope) eqn:E1; destruct (s_scope (habs h) scope) eqn:E2; try reflexivity.
  - destruct N as [N _]. specialize (N eq_refl). discriminate.
  - destruct N as [_ N]. specialize (N eq_refl). discriminate.
  - exact M.
Qed.

(** ** collecting over the abstraction *)
Lemma name_parts_app {A} nm (l1 l2 : list (Z * A)) r1 r2 :
  name_parts nm l1 = Some r1 -> name_parts nm l2 = Some r2 -> name_parts nm (l1 ++ l2) = Some (r1 ++ r2).
Proof.
  revert r1. induction l1 as [|[i a] l1 IH]; intros r1 H1 H2; cbn in *; [inversion H1; subst; exact H2|].
  destruct (rassoc i nm) as [n|]; [|discriminate]. destruct (name_parts nm l1) as [r|] eqn:E; [|discriminate].
  inversion H1; subst. now rewrite (IH r eq_refl H2).
Qed.
Lemma name_parts_filter {A} nm (p : A -> bool) : forall (l : list (Z * A)) r,
  name_parts nm l = Some r ->
  name_parts nm (filter (fun q => p (snd q)) l) = Some (filter (fun q => p (snd q)) r).
Proof.
  induction l as [|[i a] l IH]; intros r H; cbn in *; [inversion H; reflexivity|].
  destruct (rassoc i nm) as [n|] eqn:R; [|discriminate]. destruct (name_parts nm l) as [r'|] eqn:E; [|discriminate].
  inversion H; subst. cbn. destruct (p a); cbn; [rewrite R|]; now rewrite (IH r' eq_refl).
Qed.
Lemma name_parts_existsb {A} nm (p : A -> bool) : forall (l : list (Z * A)) r,
  name_parts nm l = Some r -> existsb (fun q => p (snd q)) l = existsb (fun q => p (snd q)) r.
Proof.
  induction l as [|[i a] l IH]; intros r H; cbn in *; [inversion H; reflexivity|].
  destruct (rassoc i nm) as [n|] eqn:R; [|discriminate]. destruct (name_parts nm l) as [r'|] eqn:E; [|discriminate].
  inversion H; subst. cbn. now rewrite (IH r' eq_refl).
Qed.
Lemma name_parts_snd {A} nm : forall (l : list (Z * A)) r, name_parts nm l = Some r -> map snd l = map snd r.
Proof.
  induction l as [|[i a] l IH]; intros r H; cbn in *; [inversion H; reflexivity|].
  destruct (rassoc i nm) as [n|] eqn:R; [|discriminate]. destruct (name_parts nm l) as [r'|] eqn:E; [|discriminate].
  inversion H; subst. cbn. now rewrite (IH r' eq_refl).
Qed.

Lemma collect_abs {A} h scope (f : dstate -> list A) : hfull h ->
  name_parts (h_names h) (collect (pass (h_del h) (scope_ids (h_names h) scope)) f (h_data h))
  = Some (collect (in_scope (s_scope (habs h) scope)) f (ss_ds (habs h))).
Proof.
  intros (H & O & _). pose proof H as [Hs Hd]. unfold dinvh in Hd. rewrite <- Hs in Hd. pose proof Hd as Hd0. inv_rinv Hd0.
  unfold habs at 2, abs_of. cbn [ss_ds]. unfold orph in O. unfold h_data.
  clear Hsorted Hbound Hdata Hd Hlive Hidb Hdelb Hnextpos. revert O.
  induction (s_ds (h_st h)) as [|[j d] l IH]; intros O; [reflexivity|].
  cbn [map fst] in O. inversion O as [|? ? O1 O2]; subst.
  rewrite collect_cons. cbn [flat_map fst snd]. unfold abs_entry at 1. cbn [fst snd]. fold (h_del h). fold (h_names h).
  rewrite (pass_split (h_del h)).
  destruct (zmem j (h_del h)) eqn:Ej.
  - cbn [app]. apply IH. exact O2.
  - destruct O1 as [O1|O1]; [unfold h_del in Ej; congruence|].
    destruct (rassoc j (h_names h)) as [m|] eqn:Rj; [|unfold h_names in Rj; contradiction].
    assert (Am : assoc m (h_names h) = Some j) by (apply rassoc_assoc; assumption).
    unfold collect at 2. cbn [flat_map fst snd app]. fold (collect (in_scope (s_scope (habs h) scope)) f (flat_map (abs_entry (h_names h) (h_del h)) l)).
    assert (P : pass [] (scope_ids (h_names h) scope) j = in_scope (s_scope (habs h) scope) m).
    { unfold pass. cbn. now apply scope_pass. }
    rewrite P. apply name_parts_app; [|apply IH; exact O2].
    destruct (in_scope (s_scope (habs h) scope) m); [|reflexivity].
    apply name_parts_single. exact Rj.
Qed.

(** ** every answer of the hub is the spec's answer on the abstraction *)
Lemma In_fst_assoc {V} k (l : list (Z * V)) : In k (map fst l) <-> assoc k l <> None.
Proof.
  pose proof (assoc_None k l) as A. split.
  - intros Hin E. apply A in E. contradiction.
  - intros Hn. destruct (in_dec Z.eq_dec k (map fst l)) as [Hin|Hnin]; [exact Hin|]. apply A in Hnin. contradiction.
Qed.
Lemma names_abs h y : hinv h -> (In y (map fst (h_names h)) <-> In y (map fst (ss_ds (habs h)))).
Proof.
  intros H. rewrite !In_fst_assoc, (abs_lookup_inv h y H). destruct (assoc y (h_names h)); cbn; split; congruence.
Qed.

Theorem obs_abs h q : hfull h -> obs h q = sobs (habs h) q.
Proof.
  intros F. pose proof F as (H & O & M). destruct q; cbn [obs sobs].
  - f_equal. apply zcanon_ext. intros y. now apply names_abs.
  - f_equal. unfold live_metas. apply zcanon_ext. intros y. rewrite (M y). now apply names_abs.
  - rewrite (abs_lookup_inv h n H). destruct (assoc n (h_names h)); reflexivity.
  - rewrite (abs_lookup_inv h n H). destruct (assoc n (h_names h)); reflexivity.
  - unfold get_raw.
    pose proof (collect_abs h scope (f_get id (h_now h)) F) as C.
    rewrite (name_parts_filter _ (fun c => negb (c_del c)) _ _ C).
    rewrite (name_parts_existsb _ c_del _ _ C). reflexivity.
  - f_equal. f_equal. apply name_parts_snd with (nm := h_names h). apply collect_abs. exact F.
Qed.


Lemma rassoc_some_iff i l : rassoc i l <> None <-> In i (map snd l).
Proof.
  pose proof (rassoc_None i l) as A. split.
  - intros H. destruct (in_dec Z.eq_dec i (map snd l)) as [Hin|Hn]; [exact Hin|]. apply A in Hn. contradiction.
  - intros Hin E. apply A in E. contradiction.
Qed.
Lemma rassoc_app_other i l n j : i <> j -> rassoc i (l ++ [(n, j)]) = rassoc i l.
Proof.
  intros H. induction l as [|[m k] l IH]; cbn.
  - destruct (Z.eqb_spec i j); [contradiction | reflexivity].
  - destruct (Z.eqb i k); [reflexivity | exact IH].
Qed.
Lemma rassoc_app_new i l n : rassoc i l = None -> rassoc i (l ++ [(n, i)]) = Some n.
Proof.
  induction l as [|[m k] l IH]; cbn; intros H.
  - now rewrite Z.eqb_refl.
  - destruct (Z.eqb i k); [discriminate | auto].
Qed.
Lemma rassoc_remove_other j m n l : rassoc j l = Some m -> m <> n -> rassoc j (remove_name n l) = Some m.
Proof.
  unfold remove_name. induction l as [|[a k] l IH]; cbn; [discriminate|].
  destruct (Z.eqb_spec j k); intros H Hn.
  - inversion H; subst. destruct (Z.eqb_spec m n); [contradiction|]. cbn. now rewrite Z.eqb_refl.
  - destruct (Z.eqb_spec a n); cbn; [auto|]. destruct (Z.eqb_spec j k); [contradiction | auto].
Qed.
Lemma rassoc_remove_none j n l : rassoc j l = None -> rassoc j (remove_name n l) = None.
Proof.
  intros H. apply rassoc_None. apply rassoc_None in H. intros Hin. apply H.
  apply in_map_iff in Hin. destruct Hin as (x & E & Hx). apply map_fst_remove in Hx. apply in_map_iff. exists x. tauto.
Qed.
Lemma rassoc_relabel j o n l :
  rassoc j (relabel o n l) = option_map (fun m => if Z.eqb m o then n else m) (rassoc j l).
Proof.
  unfold relabel. induction l as [|[a k] l IH]; cbn [map rassoc fst snd option_map]; [reflexivity|].
  destruct (Z.eqb a o) eqn:E; cbn [rassoc fst snd]; destruct (Z.eqb j k); cbn [option_map]; try rewrite E; auto.
Qed.

Lemma flat_map_filter_comm {A B} (g : A -> list B) (p : B -> bool) l :
  flat_map (fun x => filter p (g x)) l = filter p (flat_map g l).
Proof. induction l as [|x l IH]; cbn; [reflexivity|]. now rewrite filter_app, IH. Qed.
Lemma flat_map_map_comm {A B} (g : A -> list B) (f : B -> B) l :
  flat_map (fun x => map f (g x)) l = map f (flat_map g l).
Proof. induction l as [|x l IH]; cbn; [reflexivity|]. now rewrite map_app, IH. Qed.

(** ** effect of the registry / store changes on the abstraction *)
Lemma abs_create st r n i :
  rinv st r -> Forall (fun j => j < i) (map fst (s_ds st)) -> Forall (fun j => j < i) (map snd (r_names r)) ->
  Forall (fun j => j < i) (r_deleted r) ->
  flat_map (abs_entry (r_names r ++ [(n, i)]) (r_deleted r)) (s_ds st ++ [(i, dstate0)])
  = flat_map (abs_entry (r_names r) (r_deleted r)) (s_ds st) ++ [(n, dstate0)].
Proof.
  intros H F1 F2 F3. rewrite flat_map_app. f_equal.
  - apply flat_map_ext_in. intros [j d] Hin. unfold abs_entry. cbn [fst snd].
    rewrite rassoc_app_other; [reflexivity|]. rewrite Forall_forall in F1. specialize (F1 j (in_map fst _ _ Hin)). cbn in F1. lia.
  - cbn. unfold abs_entry. cbn [fst snd].
    assert (Z1 : zmem i (r_deleted r) = false).
    { apply zmem_false. intros Hin. rewrite Forall_forall in F3. specialize (F3 _ Hin). lia. }
    rewrite Z1, rassoc_app_new; [reflexivity|]. apply rassoc_None. intros Hin. rewrite Forall_forall in F2. specialize (F2 _ Hin). lia.
Qed.

Lemma abs_delete st r n i : rinv st r -> assoc n (r_names r) = Some i ->
  flat_map (abs_entry (remove_name n (r_names r)) (r_deleted r ++ [i])) (s_ds st)
  = filter (fun p => negb (Z.eqb (fst p) n)) (flat_map (abs_entry (r_names r) (r_deleted r)) (s_ds st)).
Proof.
  intros H Hn. pose proof H as H0. inv_rinv H0. rewrite <- flat_map_filter_comm. apply flat_map_ext_in.
  intros [j d] _. unfold abs_entry. cbn [fst snd]. rewrite zmem_app. cbn [zmem existsb]. rewrite orb_false_r.
  pose proof (assoc_rassoc _ _ _ Hids Hn) as Ri.
  destruct (Z.eqb_spec j i).
  - subst j. rewrite orb_true_r. destruct (zmem i (r_deleted r)); [reflexivity|]. rewrite Ri. cbn. now rewrite Z.eqb_refl.
  - rewrite orb_false_r. destruct (zmem j (r_deleted r)); [reflexivity|].
    destruct (rassoc j (r_names r)) as [m|] eqn:Rj.
    + assert (Hmn : m <> n). { intros ->. apply (rassoc_assoc _ _ _ Hnames) in Rj. congruence. }
      rewrite (rassoc_remove_other _ _ _ _ Rj Hmn). cbn. destruct (Z.eqb_spec m n); [contradiction | reflexivity].
    + now rewrite rassoc_remove_none.
Qed.

Lemma abs_relabel st r o n :
  flat_map (abs_entry (relabel o n (r_names r)) (r_deleted r)) (s_ds st)
  = map (fun p => if Z.eqb (fst p) o then (n, snd p) else p) (flat_map (abs_entry (r_names r) (r_deleted r)) (s_ds st)).
Proof.
  rewrite <- flat_map_map_comm. apply flat_map_ext_in. intros [j d] _. unfold abs_entry. cbn [fst snd].
  destruct (zmem j (r_deleted r)); [reflexivity|]. rewrite rassoc_relabel.
  destruct (rassoc j (r_names r)) as [m|]; cbn; [|reflexivity]. now destruct (Z.eqb m o).
Qed.

Lemma abs_gc nm dl l :
  flat_map (abs_entry nm dl) (filter (fun p => negb (zmem (fst p) dl)) l) = flat_map (abs_entry nm dl) l.
Proof.
  apply flat_map_filter_skip. intros [j d] H. apply negb_false_iff in H. unfold abs_entry. cbn in *. now rewrite H.
Qed.

Lemma set_assoc_map {V} i (v : V) : forall l lo, incr lo (map fst l) -> In i (map fst l) ->
  set_assoc i v l = map (fun p => if Z.eqb (fst p) i then (i, v) else p) l.
Proof.
  induction l as [|[k w] l IH]; intros lo H Hin; cbn in *; [tauto|].
  destruct H as [H1 H2]. rewrite (Z.eqb_sym k i). destruct (Z.eqb_spec i k).
  - subst k. f_equal. rewrite <- (map_id l) at 1. apply map_ext_in. intros [k' w'] Hk. cbn.
    apply incr_lt in H2. rewrite Forall_forall in H2. specialize (H2 k' (in_map fst _ _ Hk)). cbn in H2.
    destruct (Z.eqb_spec k' i); [lia | reflexivity].
  - destruct Hin as [E|Hin]; [congruence|]. destruct (Z.ltb_spec i k).
    + apply incr_lt in H2. rewrite Forall_forall in H2. specialize (H2 _ Hin). lia.
    + f_equal. eapply IH; eauto.
Qed.

Lemma abs_write st r ef dm n i ents : rinv st r -> assoc n (r_names r) = Some i ->
  abs_of r (apply_wop ef dm st (WBatch i ents)) = s_write ef dm n ents (abs_of r st).
Proof.
  intros H Hn. pose proof H as H0. inv_rinv H0. destruct (names_id_of _ _ _ _ H Hn) as (_ & L & Hin).
  pose proof (assoc_rassoc _ _ _ Hids Hn) as Ri.
  assert (Has : s_has n (abs_of r st) = true).
  { unfold s_has, has_name, abs_of. cbn [ss_ds]. rewrite abs_lookup by assumption. rewrite Hn, L.
    destruct (assoc i (s_ds st)) eqn:E; [reflexivity|]. apply assoc_None in E. contradiction. }
  unfold s_write. rewrite Has. unfold abs_of. cbn [apply_wop tick set_ds s_ds s_clock ss_ds ss_clock]. f_equal.
  rewrite (set_assoc_map i _ (s_ds st) 0 Hsorted Hin).
  rewrite <- flat_map_map_comm. rewrite flat_map_concat_map, map_map, <- flat_map_concat_map.
  apply flat_map_ext_in. intros [j d] Hj. cbn [fst snd]. unfold abs_entry.
  destruct (Z.eqb_spec j i).
  - subst j. cbn [fst snd]. rewrite L, Ri. cbn. rewrite Z.eqb_refl.
    assert (G : get_ds (tick st) i = d).
    { unfold get_ds, tick. cbn [s_ds]. rewrite (In_assoc i d (s_ds st)); [reflexivity | now apply incr_NoDup in Hsorted | exact Hj]. }
    now rewrite G.
  - cbn [fst snd]. destruct (zmem j (r_deleted r)); [reflexivity|].
    destruct (rassoc j (r_names r)) as [m|] eqn:Rj; [|reflexivity]. cbn.
    destruct (Z.eqb_spec m n); [|reflexivity]. subst m. apply (rassoc_assoc _ _ _ Hnames) in Rj. congruence.
Qed.

(** ** no orphans *)
Lemma orph_create st r n i : orph st r ->
  orph {| s_ds := s_ds st ++ [(i, dstate0)]; s_clock := s_clock st |} (r_set_names (fun l => l ++ [(n, i)]) r).
Proof.
  unfold orph. cbn. intros O. rewrite map_app. apply Forall_app. split.
  - eapply Forall_impl; [|exact O]. cbn. intros j [Hj|Hj]; [now left | right].
    apply rassoc_some_iff. apply rassoc_some_iff in Hj. rewrite map_app. apply in_or_app. now left.
  - constructor; [|constructor]. right. apply rassoc_some_iff. rewrite map_app. apply in_or_app. right. now left.
Qed.
Lemma orph_delete st r n i : rinv st r -> assoc n (r_names r) = Some i -> orph st r ->
  orph st (r_add_deleted i (r_set_names (remove_name n) r)).
Proof.
  intros H Hn O. pose proof H as H0. inv_rinv H0. unfold orph in *. cbn [r_add_deleted r_set_names r_deleted r_names].
  eapply Forall_impl; [|exact O]. cbn beta.
  intros j Hj. rewrite zmem_app. cbn [zmem existsb]. rewrite orb_false_r.
  destruct (Z.eqb_spec j i); [left; now rewrite orb_true_r|]. rewrite orb_false_r.
  destruct Hj as [Hj|Hj]; [now left | right].
  destruct (rassoc j (r_names r)) as [m|] eqn:Rj; [|contradiction].
  assert (Hmn : m <> n). { intros ->. apply (rassoc_assoc _ _ _ Hnames) in Rj. congruence. }
  rewrite (rassoc_remove_other _ _ _ _ Rj Hmn). discriminate.
Qed.
Lemma orph_relabel st r o n : orph st r -> orph st (r_set_names (relabel o n) r).
Proof.
  unfold orph. cbn. intros O. eapply Forall_impl; [|exact O]. cbn. intros j [Hj|Hj]; [now left | right].
  rewrite rassoc_relabel. destruct (rassoc j (r_names r)); [discriminate | contradiction].
Qed.
Lemma orph_gc st r dl : orph st r ->
  orph {| s_ds := filter (fun p => negb (zmem (fst p) dl)) (s_ds st); s_clock := s_clock st |} r.
Proof.
  unfold orph. cbn. intros O. rewrite (map_fst_filter_keys (fun i => negb (zmem i dl))).
  apply Forall_forall. intros x Hx. apply filter_In in Hx. rewrite Forall_forall in O. apply O. tauto.
Qed.
Lemma orph_write st r ef dm i ents : rinv st r -> In i (map fst (s_ds st)) -> orph st r ->
  orph (apply_wop ef dm st (WBatch i ents)) r.
Proof.
  intros H Hi O. inv_rinv H. unfold orph in *.
  assert (K : map fst (s_ds (apply_wop ef dm st (WBatch i ents))) = map fst (s_ds st)).
  { cbn. eapply set_assoc_keys; eauto. }
  now rewrite K.
Qed.

(** ** dataset entities *)
Lemma live_set_meta n b m x :
  In x (map fst (filter (fun p : name * bool => snd p) (set_meta n b m)))
  <-> (x = n /\ b = true) \/ (x <> n /\ In x (map fst (filter (fun p : name * bool => snd p) m))).
Proof.
  unfold set_meta. cbn [filter snd].
  assert (A : In x (map fst (filter (fun p : name * bool => snd p) (filter (fun p => negb (Z.eqb (fst p) n)) m)))
              <-> x <> n /\ In x (map fst (filter (fun p : name * bool => snd p) m))).
  { rewrite !in_map_iff. split.
    - intros ([a c] & E & Hin). cbn in E. subst a. apply filter_In in Hin. destruct Hin as [Hin Hc].
      apply filter_In in Hin. destruct Hin as [Hin Hne]. cbn in *. apply negb_true_iff in Hne. apply Z.eqb_neq in Hne.
      split; [exact Hne|]. exists (x, c). split; [reflexivity|]. apply filter_In. auto.
    - intros (Hne & [a c] & E & Hin). cbn in E. subst a. apply filter_In in Hin. destruct Hin as [Hin Hc].
      exists (x, c). split; [reflexivity|]. apply filter_In. split; [|exact Hc]. apply filter_In. split; [exact Hin|].
      cbn. apply negb_true_iff. now apply Z.eqb_neq. }
  destruct b; cbn [map fst In]; rewrite A; intuition congruence.
Qed.


Definition dfull (x : hub) : Prop := rinv (h_st x) (h_disk x) /\ orph (h_st x) (h_disk x).
Definition dabs (x : hub) : sstate := abs_of (h_disk x) (h_st x).

Lemma fst_live_reconcile names m :
  map fst (filter (fun p : name * bool => snd p) (reconcile names m)) = names.
Proof.
  unfold reconcile. rewrite filter_app, map_app.
  assert (A : forall l, filter (fun p : name * bool => snd p) (map (fun n => (n, true)) l) = map (fun n => (n, true)) l).
  { induction l as [|x l IH]; cbn; [reflexivity | now rewrite IH]. }
  assert (B : forall l : list (name * bool), filter (fun p : name * bool => snd p) (map (fun p => (fst p, false)) l) = []).
  { induction l as [|x l IH]; cbn; [reflexivity | exact IH]. }
  rewrite A, B, app_nil_r, map_map. cbn. now rewrite map_id.
Qed.

Lemma restart_full x : dfull x -> hfull (restart v_fixed x) /\ habs (restart v_fixed x) = dabs x.
Proof.
  intros [R O]. split; [|reflexivity]. split; [apply restart_hinv; exact R|]. split; [exact O|].
  intros n. unfold restart. cbn [v_fixed mkv v_reconcile upd_meta h_meta h_mem]. now rewrite fst_live_reconcile.
Qed.

Lemma meta_some h n : metaok h -> In n (map fst (r_names (h_mem h))) -> assoc n (h_meta h) <> None.
Proof.
  intros M Hin. apply M in Hin. apply in_map_iff in Hin. destruct Hin as ([a b] & E & Hx). cbn in E. subst a.
  apply filter_In in Hx. destruct Hx as [Hx _]. apply In_fst_assoc. change n with (fst (n, b)). now apply in_map.
Qed.

Lemma filter_keep_all {A} (p : A -> bool) l : Forall (fun x => p x = true) l -> filter p l = l.
Proof. induction l as [|x l IH]; intros F; [reflexivity|]. inversion F as [|? ? Hx Hl]; subst. cbn. rewrite Hx. now rewrite IH. Qed.
Lemma filter_absent {V} n (l : list (name * V)) : assoc n l = None -> filter (fun p => negb (Z.eqb (fst p) n)) l = l.
Proof.
  intros H. apply filter_keep_all. apply Forall_forall. intros [m d] Hin. cbn. apply negb_true_iff. apply Z.eqb_neq.
  intros ->. apply assoc_None in H. apply H. change n with (fst (n, d)). now apply in_map.
Qed.


Lemma names_remove_In x n (l : list (name * Z)) :
  In x (map fst (remove_name n l)) <-> x <> n /\ In x (map fst l).
Proof.
  unfold remove_name. rewrite !in_map_iff. split.
  - intros ([a j] & E & Hin). cbn in E. subst a. apply filter_In in Hin. destruct Hin as [Hin Hne]. cbn in Hne.
    apply negb_true_iff in Hne. apply Z.eqb_neq in Hne. split; [exact Hne|]. exists (x, j). auto.
  - intros (Hne & [a j] & E & Hin). cbn in E. subst a. exists (x, j). split; [reflexivity|]. apply filter_In. split; [exact Hin|].
    cbn. apply negb_true_iff. now apply Z.eqb_neq.
Qed.

(** the repaired variant: every prefix of a manager operation's steps leaves a persisted state that is consistent,
    has no orphans, and abstracts to the spec state before or after the operation; the complete operation
    keeps the full invariant and abstracts to the spec operation *)
Lemma sstate_eta s : s = {| ss_ds := ss_ds s; ss_clock := ss_clock s |}.
Proof. now destruct s. Qed.

Ltac noop Hd O F := split; [split; [split; [exact Hd | exact O] | left; reflexivity] | split; [exact F | reflexivity]].

Lemma sim_mop m h k : hfull h ->
  (let x := run_steps (firstn k (fst (plan v_fixed m h))) h in
   dfull x /\ (dabs x = habs h \/ dabs x = s_mop m (habs h)))
  /\ (let x := fst (run_mop v_fixed m h) in hfull x /\ habs x = s_mop m (habs h)).
Proof.
  intros F. pose proof F as (H & O & M).
  pose proof (plan_inv v_fixed m h H) as [PK PF]. specialize (PK k).
  assert (SH : forall n, s_has n (habs h) = has_name n (h_names h)) by (intros; now apply s_has_abs).
  destruct H as [Hs Hd]. destruct h as [st meta mem disk]. cbn in Hs. subst mem. unfold dinvh in Hd. cbn in Hd.
  unfold h_names in SH. cbn [h_mem] in SH. cbn [h_st h_mem] in O. unfold metaok in M. cbn [h_meta h_mem] in M.
  assert (D0 : dabs {| h_st := st; h_meta := meta; h_mem := disk; h_disk := disk |} = habs {| h_st := st; h_meta := meta; h_mem := disk; h_disk := disk |}) by reflexivity.
  unfold run_mop in *. destruct m as [n|n|o n]; cbn [plan h_mem h_meta r_names v_fixed mkv v_del_atomic] in *.
  - (* create *)
    destruct (has_name n (r_names disk)) eqn:En; cbn [fst] in *.
    { rewrite run_steps_prefix0. unfold s_mop. rewrite SH, En. noop Hd O F. }
    pose proof En as En'. apply has_name_assoc in En'. pose proof Hd as Hd0. inv_rinv Hd0.
    assert (F1 : Forall (fun j => j < r_next disk) (map snd (r_names disk))) by (eapply Forall_impl; [|exact Hidb]; cbn; intros; lia).
    assert (A2 : abs_of (r_set_names (fun l => l ++ [(n, r_next disk)]) (r_set_next (r_next disk + 1) disk))
                        {| s_ds := s_ds st ++ [(r_next disk, dstate0)]; s_clock := s_clock st |}
                 = s_mop (MCreate n) (habs {| h_st := st; h_meta := meta; h_mem := disk; h_disk := disk |})).
    { unfold s_mop. rewrite SH, En. unfold abs_of, habs, abs_of. cbn. f_equal. now apply abs_create. }
    assert (O2 : orph {| s_ds := s_ds st ++ [(r_next disk, dstate0)]; s_clock := s_clock st |}
                      (r_set_names (fun l => l ++ [(n, r_next disk)]) (r_set_next (r_next disk + 1) disk))).
    { apply (orph_create st (r_set_next (r_next disk + 1) disk)). exact O. }
    split.
    + destruct (run_steps_prefix3 create1 (create2 n (r_next disk)) (create3 n) k {| h_st := st; h_meta := meta; h_mem := disk; h_disk := disk |}) as [P|[P|[P|P]]]; rewrite P in *;
        (split; [split; [exact PK|] |]); try exact O; try exact O2; try (left; reflexivity); right; exact A2.
    + cbn [run_steps fold_left] in *. split; [|exact A2]. split; [exact PF|]. split; [exact O2|].
      intros x. cbn [create3 create2 create1 upd_meta upd_st upd_mem upd_disk h_meta h_mem r_set_names r_set_next r_names].
      rewrite live_set_meta, (M x), map_app, in_app_iff. cbn. 
      assert (Nn : ~ In n (map fst (r_names disk))) by now apply assoc_None.
      split; [intros [[-> _]|[Hne Hin]]; auto | intros [Hin|[->|[]]]; [right; split; [intros ->; contradiction | exact Hin] | left; auto]].
  - (* delete *)
    destruct (Z.eqb_spec n core) as [Ec|Ec]; cbn [fst] in *.
    { rewrite run_steps_prefix0. unfold s_mop. subst n. cbn [Z.eqb core]. noop Hd O F. }
    destruct (assoc n (r_names disk)) as [i|] eqn:En; cbn [fst] in *.
    2:{ rewrite run_steps_prefix0. unfold s_mop. destruct (Z.eqb_spec n core); [contradiction|].
        assert (E : filter (fun p : Z * dstate => negb (Z.eqb (fst p) n)) (ss_ds (habs {| h_st := st; h_meta := meta; h_mem := disk; h_disk := disk |})) = ss_ds (habs {| h_st := st; h_meta := meta; h_mem := disk; h_disk := disk |})).
        { apply filter_absent. rewrite (abs_lookup_inv _ n (proj1 F)). unfold h_names. cbn [h_mem]. now rewrite En. }
        rewrite E, <- sstate_eta. noop Hd O F. }
    assert (Hin : In n (map fst (r_names disk))) by (apply In_fst_assoc; congruence).
    pose proof (meta_some {| h_st := st; h_meta := meta; h_mem := disk; h_disk := disk |} n M Hin) as Ms. cbn [h_meta] in Ms.
    destruct (assoc n meta) as [b|] eqn:Em; [|contradiction]. cbn [fst] in *.
    assert (A1 : abs_of (r_add_deleted i (r_set_names (remove_name n) disk)) st = s_mop (MDelete n) (habs {| h_st := st; h_meta := meta; h_mem := disk; h_disk := disk |})).
    { unfold s_mop. destruct (Z.eqb_spec n core); [contradiction|]. unfold abs_of, habs, abs_of. cbn. f_equal. now apply abs_delete. }
    assert (O1 : orph st (r_add_deleted i (r_set_names (remove_name n) disk))) by now apply orph_delete.
    split.
    + destruct (run_steps_prefix3 (delete1 true n i) (delete2 true i) (delete3 n) k {| h_st := st; h_meta := meta; h_mem := disk; h_disk := disk |}) as [P|[P|[P|P]]]; rewrite P in *;
        (split; [split; [exact PK|] |]); try exact O; try exact O1; try (left; reflexivity); right; exact A1.
    + cbn [run_steps fold_left] in *. split; [|exact A1]. split; [exact PF|]. split; [exact O1|].
      intros x. cbn [delete3 delete2 delete1 upd_meta upd_st upd_mem upd_disk h_meta h_mem r_set_names r_add_deleted r_names].
      rewrite live_set_meta, (M x), names_remove_In. intuition congruence.
  - (* rename *)
    destruct (Z.eqb_spec o core) as [Ec|Ec]; cbn [fst] in *.
    { rewrite run_steps_prefix0. unfold s_mop. subst o. cbn [Z.eqb core orb]. noop Hd O F. }
    destruct (assoc o (r_names disk)) as [i|] eqn:Eo; cbn [fst] in *.
    2:{ rewrite run_steps_prefix0. unfold s_mop. destruct (Z.eqb_spec o core); [contradiction|].
        rewrite (SH o). unfold has_name. rewrite Eo. cbn [negb orb]. noop Hd O F. }
    destruct (Z.eqb_spec n o) as [Eno|Eno]; cbn [fst] in *.
    { rewrite run_steps_prefix0. unfold s_mop. destruct (Z.eqb_spec o core); [contradiction|].
      destruct (Z.eqb_spec n o); [|contradiction]. rewrite orb_true_r. cbn [orb]. noop Hd O F. }
    destruct (has_name n (r_names disk)) eqn:En; cbn [fst] in *.
    { rewrite run_steps_prefix0. unfold s_mop. rewrite (SH n), En, !orb_true_r. noop Hd O F. }
    assert (Hin : In o (map fst (r_names disk))) by (apply In_fst_assoc; congruence).
    pose proof (meta_some {| h_st := st; h_meta := meta; h_mem := disk; h_disk := disk |} o M Hin) as Ms. cbn [h_meta] in Ms.
    destruct (assoc o meta) as [b|] eqn:Em; [|contradiction]. cbn [fst] in *.
    assert (A1 : abs_of (r_set_names (relabel o n) disk) st = s_mop (MRename o n) (habs {| h_st := st; h_meta := meta; h_mem := disk; h_disk := disk |})).
    { unfold s_mop. destruct (Z.eqb_spec o core); [contradiction|]. destruct (Z.eqb_spec n o); [contradiction|].
      rewrite (SH o), (SH n), En. unfold has_name. rewrite Eo. cbn [negb orb].
      unfold abs_of, habs, abs_of. cbn. f_equal. apply abs_relabel. }
    assert (O1 : orph st (r_set_names (relabel o n) disk)) by now apply orph_relabel.
    apply has_name_assoc in En.
    split.
    + destruct (run_steps_prefix3 (rename1 o n) (rename2 o) (rename3 n) k {| h_st := st; h_meta := meta; h_mem := disk; h_disk := disk |}) as [P|[P|[P|P]]]; rewrite P in *;
        (split; [split; [exact PK|] |]); try exact O; try exact O1; try (left; reflexivity); right; exact A1.
    + cbn [run_steps fold_left] in *. split; [|exact A1]. split; [exact PF|]. split; [exact O1|].
      intros x. cbn [rename3 rename2 rename1 upd_meta upd_st upd_mem upd_disk h_meta h_mem r_set_names r_names].
      rewrite !live_set_meta, (M x), map_fst_relabel.
      assert (Nn : ~ In n (map fst (r_names disk))) by now apply assoc_None.
      split.
      * intros [[-> _]|[Hxn [[_ Hf]|[Hxo Hx]]]]; apply in_map_iff; [exists o; rewrite Z.eqb_refl; auto | discriminate |].
        exists x. destruct (Z.eqb_spec x o); [contradiction | auto].
      * intros Hy. apply in_map_iff in Hy. destruct Hy as (y & E & Hy).
        destruct (Z.eqb_spec y o); [subst; left; auto|]. subst y. right. split; [intros ->; contradiction|]. right. auto.
Qed.

(** ** one step of a history *)
Lemma hfull_dfull h : hfull h -> dfull h /\ dabs h = habs h.
Proof.
  intros ([Hs Hd] & O & _). unfold dfull, dabs, habs, dinvh in *. rewrite <- Hs in *. split; [split; assumption | reflexivity].
Qed.

Theorem sim_step h o : hfull h ->
  hfull (step v_fixed h o)
  /\ match o with
     | OWrite n ents => habs (step v_fixed h o) = s_write eq_full DupLocalElseStored n ents (habs h)
     | OMop m => habs (step v_fixed h o) = s_mop m (habs h)
     | OGc | ORestart => habs (step v_fixed h o) = habs h
     | OCrash m k => habs (step v_fixed h o) = habs h \/ habs (step v_fixed h o) = s_mop m (habs h)
     end.
Proof.
  intros F. pose proof F as (H & O & M). pose proof H as [Hs Hd]. unfold dinvh in Hd.
  assert (Hm : rinv (h_st h) (h_mem h)) by now rewrite Hs.
  destruct o as [n ents | m | | | m k]; cbn [step].
  - unfold write. destruct (assoc n (r_names (h_mem h))) as [i|] eqn:En; cbn [fst].
    + destruct (names_id_of _ _ _ _ Hm En) as (_ & _ & Hin). split.
      * split; [|split].
        -- pose proof (hinv_step v_fixed h (OWrite n ents) H) as S. cbn [step] in S. unfold write in S. now rewrite En in S.
        -- cbn. now apply orph_write.
        -- exact M.
      * unfold habs. cbn [upd_st h_mem h_st]. now apply abs_write.
    + split; [exact F|]. unfold s_write. rewrite (s_has_abs h n H). unfold has_name, h_names. now rewrite En.
  - apply (sim_mop m h 0 F).
  - split.
    + split; [apply (hinv_step v_fixed h OGc H) | split; [|exact M]]. cbn. now apply orph_gc.
    + unfold habs, abs_of, gc. cbn. f_equal. apply abs_gc.
  - destruct (hfull_dfull h F) as [D E]. destruct (restart_full h D) as [R1 R2]. split; [exact R1 | now rewrite R2].
  - unfold crash_mop. destruct (sim_mop m h k F) as [[D E] _]. cbv zeta in D, E.
    destruct (restart_full _ D) as [R1 R2]. split; [exact R1|]. rewrite R2. exact E.
Qed.

Theorem sim_run ops : forall h, hfull h -> hfull (run v_fixed ops h).
Proof. induction ops as [|o ops IH]; intros h F; [exact F|]. cbn. apply IH. now apply sim_step. Qed.

Lemma hfull0 : hfull hub0.
Proof.
  split; [exact hinv0|]. split.
  - unfold orph. cbn. constructor; [|constructor]. right. discriminate.
  - intros n. cbn. tauto.
Qed.
