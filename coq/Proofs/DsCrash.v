(** Proofs about Model/DsManager.v, part 3: the full invariant along crash-free histories of every variant, and the
    exact set of hook points at which a crash is not atomic when nothing reconciles the dataset entities. *)
From Coq Require Import List ZArith Bool Lia.
From DH Require Import Model.Store Proofs.StoreProofs Model.DsManager Proofs.DsManagerProofs Proofs.DsRefine.
Import ListNotations.
Open Scope Z_scope.

(** ** the complete manager operations do not depend on the variant (only their crash prefixes do) *)
Lemma run_mop_indep v m h : h_mem h = h_disk h -> run_mop v m h = run_mop v_fixed m h.
Proof.
  intros Hs. destruct h as [st meta mem disk]. cbn in Hs. subst mem. unfold run_mop.
  destruct m as [n|n|o n]; cbn [plan h_mem h_meta r_names v_fixed mkv v_del_atomic].
  - destruct (has_name n (r_names disk)); reflexivity.
  - destruct (Z.eqb n core); [reflexivity|]. destruct (assoc n (r_names disk)); [|reflexivity].
    destruct (assoc n meta); destruct (v_del_atomic v); reflexivity.
  - destruct (Z.eqb o core); [reflexivity|]. destruct (assoc o (r_names disk)); [|reflexivity].
    destruct (Z.eqb n o); [reflexivity|]. destruct (has_name n (r_names disk)); [reflexivity|].
    destruct (assoc o meta); reflexivity.
Qed.

Definition crash_free (ops : list op) : Prop := Forall (fun o => match o with OCrash _ _ => False | _ => True end) ops.

Lemma restart_sync v h : v_reconcile v = false -> h_mem h = h_disk h -> restart v h = h.
Proof. intros Hrc Hs. unfold restart. rewrite Hrc. destruct h as [st meta mem disk]. cbn in *. now subst. Qed.

(** the full invariant (registry invariant, no orphans, dataset entities = records) holds along every crash-free
    history of EVERY variant, the pinned one included *)
Lemma hfull_step_nocrash v h o : v_reconcile v = false ->
  hfull h -> (match o with OCrash _ _ => False | _ => True end) -> hfull (step v h o).
Proof.
  intros Hrc F Hc. pose proof F as (H & O & M). pose proof H as [Hs Hd]. unfold dinvh in Hd.
  assert (Hm : rinv (h_st h) (h_mem h)) by now rewrite Hs.
  destruct o as [n ents | m | | | m k]; cbn [step]; try contradiction.
  - unfold write. destruct (assoc n (r_names (h_mem h))) as [i|] eqn:En; cbn [fst]; [|exact F].
    destruct (names_id_of _ _ _ _ Hm En) as (_ & _ & Hin). split; [|split].
    + pose proof (hinv_step v h (OWrite n ents) H) as S. cbn [step] in S. unfold write in S. now rewrite En in S.
    + cbn. now apply orph_write.
    + exact M.
  - rewrite (run_mop_indep v m h Hs). apply (sim_mop m h 0 F).
  - apply (sim_step h OGc F).
  - now rewrite restart_sync.
Qed.
Theorem hfull_run_nocrash v ops : v_reconcile v = false -> crash_free ops -> forall h, hfull h -> hfull (run v ops h).
Proof.
  intros Hrc. induction ops as [|o ops IH]; intros C h F; [exact F|]. inversion C as [|? ? Co Cr]; subst.
  cbn. apply IH; [exact Cr|]. now apply hfull_step_nocrash.
Qed.

(** ** exact characterisation of the crash points of the variants that do not reconcile the dataset entities *)
Definition atomic (v : variant) (h : hub) (m : mop) (k : nat) : Prop :=
  (forall q, obs (crash_mop v m k h) q = obs (restart v h) q)
  \/ (forall q, obs (crash_mop v m k h) q = obs (restart v (fst (run_mop v m h))) q).

(** create.afterRecord, rename.afterMove, rename.afterOldMeta, delete.afterRecord, delete.afterDeletedSet *)
Definition hook_bad (m : mop) (k : nat) : bool :=
  match m, k with
  | MCreate _, 2%nat | MRename _ _, 1%nat | MRename _ _, 2%nat | MDelete _, 1%nat | MDelete _, 2%nat => true
  | _, _ => false
  end.

Definition live_names (h : hub) : list name := map fst (filter (fun p : name * bool => snd p) (h_meta h)).

Lemma zcanon_inj_In l1 l2 y : zcanon l1 = zcanon l2 -> In y l1 -> In y l2.
Proof. intros E H. apply zcanon_In. rewrite <- E. now apply zcanon_In. Qed.
Lemma names_neq h1 h2 y : In y (map fst (h_names h1)) -> ~ In y (map fst (h_names h2)) -> obs h1 QNames <> obs h2 QNames.
Proof. intros A B E. cbn in E. inversion E as [E']. apply B. eapply zcanon_inj_In; eauto. Qed.
Lemma names_neq' h1 h2 y : ~ In y (map fst (h_names h1)) -> In y (map fst (h_names h2)) -> obs h1 QNames <> obs h2 QNames.
Proof. intros A B E. symmetry in E. revert E. now apply (names_neq h2 h1 y). Qed.
Lemma metas_neq h1 h2 y : In y (live_names h1) -> ~ In y (live_names h2) -> obs h1 QMetas <> obs h2 QMetas.
Proof. intros A B E. cbn in E. unfold live_metas in E. inversion E as [E']. apply B. eapply zcanon_inj_In; eauto. Qed.
Lemma metas_neq' h1 h2 y : ~ In y (live_names h1) -> In y (live_names h2) -> obs h1 QMetas <> obs h2 QMetas.
Proof. intros A B E. symmetry in E. revert E. now apply (metas_neq h2 h1 y). Qed.

Lemma firstn_ge {A} (l : list A) k : (length l <= k)%nat -> firstn k l = l.
Proof. intros H. now apply firstn_all2. Qed.

Theorem crash_exact v h m k :
  v_reconcile v = false -> hfull h -> fst (plan v m h) <> [] ->
  (atomic v h m k <-> hook_bad m k = false).
Proof.
  intros Hrc F Happ. pose proof F as (H & O & M). destruct H as [Hs Hd].
  destruct h as [st meta mem disk]. cbn in Hs. subst mem. unfold metaok in M. cbn [h_meta h_mem] in M.
  unfold atomic, crash_mop, run_mop, restart. rewrite Hrc.
  destruct m as [n|n|o n]; cbn [plan h_mem h_meta r_names] in *.
  - (* create *)
    destruct (has_name n (r_names disk)) eqn:En; cbn [fst] in *; [contradiction|]. apply has_name_assoc in En.
    assert (Nn : ~ In n (map fst (r_names disk))) by now apply assoc_None.
    assert (Nl : ~ In n (map fst (filter (fun p : name * bool => snd p) meta))) by (rewrite (M n); exact Nn).
    destruct k as [|[|[|k]]]; cbn [hook_bad firstn run_steps fold_left fst].
    + split; [reflexivity|]. intros _. left. reflexivity.
    + split; [reflexivity|]. intros _. left. intros q. apply obs_ext; reflexivity.
    + split; [|discriminate]. intros [A|A]; exfalso.
      * specialize (A QNames). revert A. apply (names_neq _ _ n); [|exact Nn].
        unfold h_names. cbn. rewrite map_app, in_app_iff. right. now left.
      * specialize (A QMetas). revert A. apply (metas_neq' _ _ n); [exact Nl|].
        unfold live_names. cbn [h_meta create3 create2 create1 upd_meta upd_st upd_mem upd_disk]. apply live_set_meta. left. auto.
    + split; [reflexivity|]. intros _. right. intros q. destruct k; reflexivity.
  - (* delete *)
    destruct (Z.eqb_spec n core) as [Ec|Ec]; cbn [fst] in *; [contradiction|].
    destruct (assoc n (r_names disk)) as [i|] eqn:En; cbn [fst] in *; [|contradiction].
    assert (Hin : In n (map fst (r_names disk))) by (apply In_fst_assoc; congruence).
    assert (Hl : In n (map fst (filter (fun p : name * bool => snd p) meta))) by (rewrite (M n); exact Hin).
    pose proof (meta_some {| h_st := st; h_meta := meta; h_mem := disk; h_disk := disk |} n M Hin) as Ms. cbn [h_meta] in Ms.
    destruct (assoc n meta) as [b|] eqn:Em; [|contradiction]. cbn [fst] in *.
    assert (Ngone : ~ In n (map fst (remove_name n (r_names disk)))) by (rewrite names_remove_In; tauto).
    assert (Nl3 : ~ In n (map fst (filter (fun p : name * bool => snd p) (set_meta n false meta)))).
    { rewrite live_set_meta. intros [[_ E]|[E _]]; [discriminate | congruence]. }
    destruct k as [|[|[|k]]]; cbn [hook_bad firstn run_steps fold_left fst].
    + split; [reflexivity|]. intros _. left. reflexivity.
    + split; [|discriminate]. intros [A|A]; exfalso.
      * specialize (A QNames). revert A. apply (names_neq' _ _ n); [|exact Hin].
        unfold h_names, delete1. destruct (v_del_atomic v); cbn; exact Ngone.
      * specialize (A QMetas). revert A. apply (metas_neq _ _ n).
        -- unfold live_names, delete1. destruct (v_del_atomic v); cbn; exact Hl.
        -- unfold live_names, delete1, delete2. destruct (v_del_atomic v); cbn; exact Nl3.
    + split; [|discriminate]. intros [A|A]; exfalso.
      * specialize (A QNames). revert A. apply (names_neq' _ _ n); [|exact Hin].
        unfold h_names, delete1, delete2. destruct (v_del_atomic v); cbn; exact Ngone.
      * specialize (A QMetas). revert A. apply (metas_neq _ _ n).
        -- unfold live_names, delete1, delete2. destruct (v_del_atomic v); cbn; exact Hl.
        -- unfold live_names, delete1, delete2. destruct (v_del_atomic v); cbn; exact Nl3.
    + split; [reflexivity|]. intros _. right. intros q. destruct k; reflexivity.
  - (* rename *)
    destruct (Z.eqb_spec o core) as [Ec|Ec]; cbn [fst] in *; [contradiction|].
    destruct (assoc o (r_names disk)) as [i|] eqn:Eo; cbn [fst] in *; [|contradiction].
    destruct (Z.eqb_spec n o) as [Eno|Eno]; cbn [fst] in *; [contradiction|].
    destruct (has_name n (r_names disk)) eqn:En; cbn [fst] in *; [contradiction|]. apply has_name_assoc in En.
    assert (Hin : In o (map fst (r_names disk))) by (apply In_fst_assoc; congruence).
    assert (Nn : ~ In n (map fst (r_names disk))) by now apply assoc_None.
    assert (Nl : ~ In n (map fst (filter (fun p : name * bool => snd p) meta))) by (rewrite (M n); exact Nn).
    pose proof (meta_some {| h_st := st; h_meta := meta; h_mem := disk; h_disk := disk |} o M Hin) as Ms. cbn [h_meta] in Ms.
    destruct (assoc o meta) as [b|] eqn:Em; [|contradiction]. cbn [fst] in *.
    assert (Nin : In n (map fst (relabel o n (r_names disk)))).
    { rewrite map_fst_relabel. apply in_map_iff. exists o. now rewrite Z.eqb_refl. }
    assert (Nl2 : ~ In n (map fst (filter (fun p : name * bool => snd p) (set_meta o false meta)))).
    { rewrite live_set_meta. intros [[E _]|[_ E]]; [congruence | contradiction]. }
    assert (L3 : In n (map fst (filter (fun p : name * bool => snd p) (set_meta n true (set_meta o false meta))))).
    { rewrite live_set_meta. left. auto. }
    destruct k as [|[|[|k]]]; cbn [hook_bad firstn run_steps fold_left fst].
    + split; [reflexivity|]. intros _. left. reflexivity.
    + split; [|discriminate]. intros [A|A]; exfalso.
      * specialize (A QNames). revert A. apply (names_neq _ _ n); [exact Nin | exact Nn].
      * specialize (A QMetas). revert A. apply (metas_neq' _ _ n); [exact Nl | exact L3].
    + split; [|discriminate]. intros [A|A]; exfalso.
      * specialize (A QNames). revert A. apply (names_neq _ _ n); [exact Nin | exact Nn].
      * specialize (A QMetas). revert A. apply (metas_neq' _ _ n); [exact Nl2 | exact L3].
    + split; [reflexivity|]. intros _. right. intros q. destruct k; reflexivity.
Qed.

(** an operation that is refused or has nothing to do never reaches a hook point: the crash is just a restart *)
Lemma crash_noop_atomic v h m k : fst (plan v m h) = [] -> atomic v h m k.
Proof. intros E. left. intros q. unfold crash_mop. rewrite E. now rewrite run_steps_prefix0. Qed.

(** the hypotheses are met: the witness state of the refutations is reached crash-free by the pinned variant,
    and delete / create / rename are applicable in it *)
Example crash_exact_nonvacuous :
  crash_free [OMop (MCreate 1); OMop (MCreate 2); OWrite 1 [e_w 1]; OWrite 2 [e_w 2]]
  /\ fst (plan v_current (MDelete 2) h_w) <> [] /\ fst (plan v_current (MCreate 3) h_w) <> []
  /\ fst (plan v_current (MRename 2 3) h_w) <> [].
Proof. split; [repeat constructor|]. vm_compute. repeat split; discriminate. Qed.


Lemma live_restart_rc v x : v_reconcile v = true ->
  live_metas (h_meta (restart v x)) = zcanon (map fst (r_names (h_disk x))).
Proof. intros Hrc. unfold restart. rewrite Hrc. cbn [upd_meta h_meta]. apply live_reconcile. Qed.

(** variants that reconcile the dataset entities on restart: every hook point is atomic, except delete.afterRecord
    when the deleted set is persisted in a separate step *)
Theorem crash_atomic_reconcile v h m k :
  v_reconcile v = true -> h_mem h = h_disk h ->
  (v_del_atomic v = false -> ~ (exists n, m = MDelete n) \/ k <> 1%nat) ->
  atomic v h m k.
Proof.
  intros Hrc Hs Hex. destruct h as [st meta mem disk]. cbn in Hs. subst mem.
  unfold atomic, crash_mop, run_mop, restart. rewrite Hrc.
  assert (R0 : forall x, run_steps (firstn k []) x = x) by (intros; apply run_steps_prefix0).
  destruct m as [n|n|o n]; cbn [plan h_mem h_meta r_names].
  - destruct (has_name n (r_names disk)); cbn [fst]; [left; intros q; now rewrite R0|].
    destruct (run_steps_prefix3 create1 (create2 n (r_next disk)) (create3 n) k {| h_st := st; h_meta := meta; h_mem := disk; h_disk := disk |}) as [P|[P|[P|P]]]; rewrite P.
    + left. reflexivity.
    + left. intros q. apply obs_ext; try reflexivity; cbn [upd_meta h_meta]; rewrite !live_reconcile; reflexivity.
    + right. intros q. apply obs_ext; try reflexivity; cbn [upd_meta h_meta]; rewrite !live_reconcile; reflexivity.
    + right. intros q. reflexivity.
  - destruct (Z.eqb n core); cbn [fst]; [left; intros q; now rewrite R0|].
    destruct (assoc n (r_names disk)) as [i|]; cbn [fst]; [|left; intros q; now rewrite R0].
    destruct (v_del_atomic v) eqn:Da.
    + destruct (assoc n meta); cbn [fst].
      * destruct (run_steps_prefix3 (delete1 true n i) (delete2 true i) (delete3 n) k {| h_st := st; h_meta := meta; h_mem := disk; h_disk := disk |}) as [P|[P|[P|P]]]; rewrite P.
        -- left. reflexivity.
        -- right. intros q. apply obs_ext; try reflexivity; cbn [upd_meta h_meta]; rewrite !live_reconcile; reflexivity.
        -- right. intros q. apply obs_ext; try reflexivity; cbn [upd_meta h_meta]; rewrite !live_reconcile; reflexivity.
        -- right. reflexivity.
      * destruct (run_steps_prefix2 (delete1 true n i) (delete2 true i) k {| h_st := st; h_meta := meta; h_mem := disk; h_disk := disk |}) as [P|[P|P]]; rewrite P.
        -- left. reflexivity.
        -- right. intros q. apply obs_ext; try reflexivity; cbn [upd_meta h_meta]; rewrite !live_reconcile; reflexivity.
        -- right. reflexivity.
    + specialize (Hex eq_refl). assert (K1 : k <> 1%nat) by (destruct Hex as [E|E]; [exfalso; apply E; eauto | exact E]).
      destruct (assoc n meta); cbn [fst].
      * destruct k as [|[|[|k]]]; [left; reflexivity | contradiction | right | right; destruct k; reflexivity].
        intros q. apply obs_ext; try reflexivity; cbn [upd_meta h_meta]; rewrite !live_reconcile; reflexivity.
      * destruct k as [|[|k]]; [left; reflexivity | contradiction | right; destruct k; reflexivity].
  - destruct (Z.eqb o core); cbn [fst]; [left; intros q; now rewrite R0|].
    destruct (assoc o (r_names disk)) as [i|]; cbn [fst]; [|left; intros q; now rewrite R0].
    destruct (Z.eqb n o); cbn [fst]; [left; intros q; now rewrite R0|].
    destruct (has_name n (r_names disk)); cbn [fst]; [left; intros q; now rewrite R0|].
    destruct (assoc o meta); cbn [fst].
    + destruct (run_steps_prefix3 (rename1 o n) (rename2 o) (rename3 n) k {| h_st := st; h_meta := meta; h_mem := disk; h_disk := disk |}) as [P|[P|[P|P]]]; rewrite P.
      * left. reflexivity.
      * right. intros q. apply obs_ext; try reflexivity; cbn [upd_meta h_meta]; rewrite !live_reconcile; reflexivity.
      * right. intros q. apply obs_ext; try reflexivity; cbn [upd_meta h_meta]; rewrite !live_reconcile; reflexivity.
      * right. reflexivity.
    + destruct (run_steps_prefix1 (rename1 o n) k {| h_st := st; h_meta := meta; h_mem := disk; h_disk := disk |}) as [P|P]; rewrite P.
      * left. reflexivity.
      * right. reflexivity.
Qed.

(** ... and that one point is not atomic as soon as the doomed dataset holds something a lookup can see (witness) *)
Theorem crash_refuted_delete_1_reconcile : ~ atomic (mkv false true) h_w (MDelete 2) 1.
Proof.
  intros [H|H].
  - specialize (H QNames). vm_compute in H. discriminate.
  - specialize (H (QGet 1 [])). vm_compute in H. discriminate.
Qed.
