(** The link between the correspondence evaluator and the theorems: a case on which the implementation agrees
    with the repaired model satisfies the executable spec. *)
From Coq Require Import List String Ascii Bool NArith.
From DH Require Import Lib.CheckLib Model.Acl Model.Jwt Model.Gate Model.SecStore
     Proofs.AclProofs Proofs.JwtProofs Proofs.GateProofs Proofs.SecStoreProofs Proofs.GateSeqProofs Proofs.IdCodecProofs Check.C16Check.
Import ListNotations.
Open Scope string_scope.

Lemma req_step w auth q :
  table_ok (w_routes w) -> req_agrees fixed w auth q = true -> req_spec_ok w auth q = true.
Proof.
  intros Htab. unfold req_agrees, req_spec_ok.
  pose proof (gate_sound w auth (q_method q) (q_path q) Htab) as G.
  destruct (decide fixed w auth (q_method q) (q_path q)) as [o rp]. cbn [fst] in G.
  intros H. apply andb_true_iff in H. destruct H as [H _]. apply N.eqb_eq in H.
  destruct (N.eqb (q_class q) 0) eqn:E0; [|reflexivity]. apply N.eqb_eq in E0. rewrite E0 in H.
  destruct o; try discriminate. apply gate_spec_b_complete. apply G. reflexivity.
Qed.

Lemma forallb_impl {A} (f g : A -> bool) l : (forall x, f x = true -> g x = true) -> forallb f l = true -> forallb g l = true.
Proof. rewrite !forallb_forall. auto. Qed.

(** ** snapshots *)

Lemma ac_eqb_eq a b : ac_eqb a b = true <-> a = b.
Proof.
  destruct a as [r1 a1 d1], b as [r2 a2 d2]. unfold ac_eqb. cbn.
  rewrite !andb_true_iff, !String.eqb_eq, Bool.eqb_true_iff. split.
  - intros [[-> ->] ->]. reflexivity.
  - intros [= -> -> ->]. auto.
Qed.

Lemma opt_acl_eqb_eq x y : opt_acl_eqb x y = true <-> x = y.
Proof.
  destruct x as [a|], y as [b|]; cbn; try (split; [discriminate | discriminate]); try (split; reflexivity).
  rewrite (list_eqb_eq ac_eqb ac_eqb_eq). split; [intros ->; reflexivity | intros [= ->]; reflexivity].
Qed.

Lemma lookup_not_in {A} k (m : list (string * A)) : ~ In k (map fst m) -> lookup k m = None.
Proof.
  induction m as [|[k' x] m IH]; [reflexivity|]. cbn. intros H.
  destruct (k' =? k) eqn:E; [apply String.eqb_eq in E; exfalso; apply H; now left|]. apply IH. tauto.
Qed.

Lemma mem_str_not_in k l : ~ In k l -> mem_str k l = false.
Proof. intros H. destruct (mem_str k l) eqn:E; [|reflexivity]. apply mem_str_spec in E. contradiction. Qed.

Definition clientb (s : secstate) (k : string) : bool :=
  match lookup k (mem_clients s) with Some _ => true | None => false end.

Lemma snapshot_agrees_pointwise s o :
  snapshot_agrees s o = true ->
  forall k, clientb s k = mem_str k (sn_clients o) /\ lookup k (mem_acls s) = lookup k (sn_acls o).
Proof.
  unfold snapshot_agrees. rewrite forallb_forall. intros H k.
  set (keys := (map fst (mem_clients s) ++ sn_clients o ++ map fst (mem_acls s) ++ map fst (sn_acls o))%list) in H.
  destruct (in_dec string_dec k keys) as [Hin | Hout].
  - specialize (H k Hin). apply andb_true_iff in H. destruct H as [H1 H2].
    apply Bool.eqb_prop in H1. apply opt_acl_eqb_eq in H2. now split.
  - unfold keys in Hout. rewrite !in_app_iff in Hout. split.
    + unfold clientb. rewrite lookup_not_in by tauto. symmetry. apply mem_str_not_in. tauto.
    + rewrite !lookup_not_in by tauto. reflexivity.
Qed.

Lemma opt_acl_eqb_refl x : opt_acl_eqb x x = true.
Proof. now apply opt_acl_eqb_eq. Qed.

Lemma gate_spec_b_ext c acls1 acls2 auth m p :
  (forall k, acls1 k = acls2 k) ->
  gate_spec_b (world_of c acls1) auth m p = gate_spec_b (world_of c acls2) auth m p.
Proof. intros H. unfold gate_spec_b, world_of. cbn. destruct (extract_token auth); [|reflexivity]. now rewrite H. Qed.

Lemma strlist_eqb_eq a b : strlist_eqb a b = true <-> a = b.
Proof. apply list_eqb_eq. intros; apply String.eqb_eq. Qed.

Lemma answer_agrees_req v w auth q :
  answer_agrees (decide v w auth (q_method q) (q_path q)) q = req_agrees v w auth q.
Proof. unfold answer_agrees, req_agrees. now destruct (decide v w auth (q_method q) (q_path q)). Qed.

Lemma seq_fixed_spec c : seq_agrees fixed c = true -> seq_spec_ok c = true.
Proof.
  unfold seq_agrees, seq_spec_ok. rewrite gate_run_stateless. unfold stateless_answers.
  induction (c_seq c) as [|x l IH]; [reflexivity|]. cbn [map forall2b forallb].
  destruct (answer_agrees _ (snd x)) eqn:E; [|discriminate]. intros H.
  unfold rq_of in E. cbn [rq_time rq_auth rq_method rq_path] in E. rewrite answer_agrees_req in E.
  apply req_step in E; [|exact routes_compiled_ok]. rewrite E. cbn [andb]. now apply IH.
Qed.

Theorem agree_fixed_spec c : agree cfixed c = true -> spec_ok c = true.
Proof.
  unfold agree, spec_ok. destruct (N.eqb (c_kind c) 3); [apply seq_fixed_spec|]. destruct (N.eqb (c_kind c) 0).
  - intros H. apply andb_true_iff in H. destruct H as [H _]. cbn [cv_gate cfixed] in H.
    eapply forallb_impl; [|exact H]. intros q. apply req_step. exact routes_compiled_ok.
  - destruct (N.eqb (c_kind c) 2).
    + cbn [cv_gate cfixed v_deny fixed]. intros H. apply andb_true_iff in H. destruct H as [Hr Hl].
      apply andb_true_iff. split; [apply req_step; [exact routes_compiled_ok | exact Hr]|].
      destruct (N.eqb (q_class (o_list c)) 0); [|reflexivity].
      apply strlist_eqb_eq in Hl. unfold list_spec_ok, predicted_list in *.
      destruct (is_admin (f_roles (c_facts c))); [reflexivity|].
      apply forallb_forall. intros d Hd. rewrite <- Hl in Hd.
      apply filter_datasets_fixed_sound in Hd. destruct Hd as [H1 H2].
      apply andb_true_iff. split; [now apply mem_str_spec | now apply acl_grants_b_spec].
    + cbn [cv_gate cv_file cv_init cfixed].
      pose proof (persist_fixed (c_ops c)) as Hre. cbv zeta in Hre. rewrite Hre.
      pose proof (run_matches_spec (c_ops c)) as [M1 M2]. cbv zeta in M1, M2.
      set (s := sec_run AclFileAcls InitIndependent (c_ops c)) in *.
      assert (Es : forall o, snapshot_agrees (spec_state (c_ops c)) o = snapshot_agrees s o).
      { intros o. unfold snapshot_agrees, spec_state. cbn [mem_clients mem_acls]. now rewrite <- M1, <- M2. }
      assert (Eg : forall g, gets_agree (spec_state (c_ops c)) g = gets_agree s g).
      { intros g. unfold gets_agree, spec_state. cbn [mem_acls]. now rewrite <- M2. }
      rewrite !Es, Eg. unfold spec_state. cbn [mem_acls]. rewrite <- M2.
      intros H. apply andb_true_iff in H. destruct H as [H Hq]. rewrite H. cbn [andb].
      eapply forallb_impl; [|exact Hq]. intros q Hr. apply req_step; [exact routes_compiled_ok | exact Hr].
Qed.
