(** The link between the correspondence evaluator and the theorems: a case on
    which the implementation agrees with the repaired model satisfies the spec. *)
From Coq Require Import List ZArith NArith Bool Lia.
From DH Require Import Lib.CheckLib Model.Partition Proofs.PartitionProofs Model.JsonValue Proofs.JsonValueProofs Check.C10Check.
Import ListNotations.
Open Scope Z_scope.

Lemma zlist_eqb_eq l1 l2 : zlist_eqb l1 l2 = true <-> l1 = l2.
Proof. apply list_eqb_eq. intros; apply Z.eqb_eq. Qed.
Lemma zlistlist_eqb_eq l1 l2 : zlistlist_eqb l1 l2 = true <-> l1 = l2.
Proof. apply list_eqb_eq. apply zlist_eqb_eq. Qed.

Lemma zrange_len a k : length (zrange a k) = k.
Proof. apply zrange_length. Qed.

Theorem agree_fixed_spec c :
  0 <= c_n c -> 1 <= c_batch c -> 1 <= c_par c -> c_kind c <> KPushIn ->
  (o_copy c <> None -> c_kind c = KIdentity) ->
  (forall v v' o o', o_json c = Some (v, v', o, o') -> jsimgb v v' = true) ->
  agree PCeilClip false c = true -> spec_ok c = true.
Proof.
  intros Hn Hb Hp Hk Hcp Hjs. unfold agree, predict, spec_ok.
  destruct (o_json c) as [[[[v v'] o] o']|] eqn:Ejs.
  { (* value normalisation: the JS image normalises to the same value *)
    destruct (run_job _ _ _ _ _) as [[[? ?] ?] ?]. intros H.
    apply andb_true_iff in H. destruct H as [H1 H2].
    apply jval_eqb_eq in H1. apply jval_eqb_eq in H2. subst o o'.
    rewrite (jsimg_neutral Fz i2fz v v' (jsimgb_sound v v' (Hjs v v' _ _ eq_refl))). apply jval_eqb_refl. }
  assert (Hf : f_of (c_kind c) = fmap_g (g_of (c_kind c))) by (destruct (c_kind c); try reflexivity; contradiction).
  rewrite Hf.
  set (src := zrange 0 (Z.to_nat (c_n c))).
  set (p := if c_full c then 1 else c_par c).
  assert (Hp' : 1 <= p) by (subst p; destruct (c_full c); lia).
  destruct (run_job_fixed (g_of (c_kind c)) p (Z.to_nat (c_batch c)) src Hp' ltac:(lia))
    as (ins & outs & Hrun & Ho & Hi).
  rewrite Hrun.
  assert (Hlen : Z.of_nat (length src) = c_n c) by (subst src; rewrite zrange_len; lia).
  destruct (o_copy c) as [[[[[eq dch] rch] re] fu]|] eqn:Ecp.
  { (* copy mode: the kind is the identity, the sink received exactly the source *)
    assert (Hki : c_kind c = KIdentity) by (apply Hcp; discriminate).
    unfold agree_copy. fold src. cbn [out_code]. intros H.
    apply andb_true_iff in H. destruct H as [Hoc H].
    change ((0 =? 0)%N) with true in H. cbn iota in H.
    repeat (apply andb_true_iff in H; destruct H as [H ?]).
    assert (Hcat : concat outs = src).
    { rewrite Ho, Hki. clear. induction src as [|x l IH]; cbn [flat_map g_of app]; [reflexivity | now rewrite IH]. }
    rewrite Hcat in *.
    match goal with Hq : Bool.eqb eq (zlist_eqb src src) = true |- _ =>
      replace (zlist_eqb src src) with true in Hq by (symmetry; now apply zlist_eqb_eq);
      apply eqb_prop in Hq; subst eq end.
    repeat (apply andb_true_iff; split); try assumption; try reflexivity; try (now rewrite N.eqb_sym).
    match goal with Hd : Z.eqb dch _ = true, Hr : Z.eqb rch _ = true |- _ =>
      apply Z.eqb_eq in Hd; apply Z.eqb_eq in Hr; apply Z.eqb_eq; lia end. }
  intros H.
  repeat (apply andb_true_iff in H; destruct H as [H ?]).
  cbn [out_code] in *.
  repeat (apply andb_true_iff; split); try assumption.
  - destruct (c_wrap c); [|reflexivity].
    match goal with Hs : zlist_eqb (concat ins) _ = true |- _ =>
      apply zlist_eqb_eq in Hs; rewrite <- Hs, Hi end. now apply zlist_eqb_eq.
  - match goal with Hs : zlistlist_eqb outs _ = true |- _ =>
      apply zlistlist_eqb_eq in Hs; rewrite <- Hs, Ho end.
    destruct (c_kind c); try (now apply zlist_eqb_eq); contradiction.
  - match goal with Hs : Z.eqb _ (o_token c) = true |- _ =>
      apply Z.eqb_eq in Hs; rewrite <- Hs end.
    destruct (c_full c); apply Z.eqb_eq; lia.
  - destruct (c_full c); [reflexivity|]. assumption.
Qed.
