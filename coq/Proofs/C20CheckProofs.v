(** The link between the correspondence evaluator and the theorems: a case on which the
    implementation agrees with the repaired model satisfies the executable spec. *)
From Coq Require Import List NArith Bool Lia.
From DH Require Import Lib.CheckLib Model.Backup Proofs.BackupProofs Check.C20Check.
Import ListNotations.
Open Scope N_scope.

Lemma trace_snd v ops : forall st, snd (trace v ops st) = run v ops st.
Proof.
  induction ops as [|o ops IH]; cbn [trace run]; intros st; [reflexivity|].
  destruct (step v st o) as [st1 r] eqn:S. cbn [fst].
  specialize (IH st1). destruct (trace v ops st1) as [xs stn]. cbn [snd] in *. exact IH.
Qed.

Lemma predict_snap v c : p_snap (predict v c) = s_snap (run v (c_ops c) (init_of v c)).
Proof.
  unfold predict. rewrite <- trace_snd. destruct (trace v (c_ops c) (init_of v c)). reflexivity.
Qed.
Lemma predict_file v c : p_file (predict v c) =
  match fs_get (s_fs (run v (c_ops c) (init_of v c))) (if c_rsync c then FCopy else FKv) with
  | Some (DEntries l) => Some (badger_load l) | _ => None end.
Proof.
  unfold predict. rewrite <- trace_snd. destruct (trace v (c_ops c) (init_of v c)). reflexivity.
Qed.
Lemma trace_fst_cons v o ops st :
  fst (trace v (o :: ops) st) =
  {| x_cursor := s_cursor (fst (step v st o)); x_disk := seen_file (s_fs (fst (step v st o))); x_res := snd (step v st o);
     x_grew := negb (optnat_eqb (kv_len (s_fs st)) (kv_len (s_fs (fst (step v st o)))));
     x_locid := loc_id (s_fs (fst (step v st o))); x_touched := negb (fs_eqb (s_fs st) (s_fs (fst (step v st o))));
     x_sid := s_store_id (fst (step v st o)); x_running := s_running (fst (step v st o)) |}
  :: fst (trace v ops (fst (step v st o))).
Proof. cbn [trace]. destruct (step v st o) as [st1 r]. cbn [fst snd]. destruct (trace v ops st1). reflexivity. Qed.

Lemma predict_steps v c : p_steps (predict v c) = fst (trace v (c_ops c) (init_of v c)).
Proof. unfold predict. destruct (trace v (c_ops c) (init_of v c)). reflexivity. Qed.
Lemma predict_locid0 v c : p_locid0 (predict v c) = loc_id (s_fs (init_of v c)).
Proof. unfold predict. destruct (trace v (c_ops c) (init_of v c)). reflexivity. Qed.

Lemma entry_eqb_refl e : entry_eqb e e = true.
Proof. unfold entry_eqb. rewrite !N.eqb_refl, eqb_reflx. reflexivity. Qed.

Lemma list_eqb_refl {A} (eqb : A -> A -> bool) : (forall x, eqb x x = true) -> forall l, list_eqb eqb l l = true.
Proof. intros H; induction l; cbn; [reflexivity | now rewrite H, IHl]. Qed.

Lemma fs_eqb_refl f : fs_eqb f f = true.
Proof.
  apply list_eqb_refl. intros [n d]. cbn. rewrite fname_eqb_refl. cbn.
  destruct d; cbn; [apply list_eqb_refl, entry_eqb_refl | apply N.eqb_refl | apply bytes_eqb_refl].
Qed.

(** for EVERY history, including changes of the location's id file by the environment between runs
    and across restarts, and under every variant: a hub step taken while the location carries a
    different id changes no file of the location and is not a returned run *)
Theorem trace_foreign_ok v ops : forall st,
  foreign_ok (s_store_id st) (loc_id (s_fs st)) ops (fst (trace v ops st)) = true.
Proof.
  induction ops as [|o ops IH]; intros st; [reflexivity|].
  rewrite trace_fst_cons. cbn [foreign_ok x_locid x_touched x_res x_sid].
  apply andb_true_iff; split.
  - destruct (is_env o) eqn:He; [reflexivity|].
    destruct (is_foreign (s_store_id st) (loc_id (s_fs st))) eqn:F; [|reflexivity].
    assert (Fo : foreign st).
    { unfold is_foreign, loc_id in F. destruct (fs_get (s_fs st) FStorageId) as [[l|n|b]|] eqn:G; try discriminate.
      exists b. split; [exact G|]. intros ->. now rewrite bytes_eqb_refl in F. }
    destruct (foreign_step v st o He Fo) as (A & _ & _ & R).
    rewrite A, fs_eqb_refl. cbn. destruct (snd (step v st o) =? R_RETURNED) eqn:E; [|reflexivity].
    apply N.eqb_eq in E. contradiction.
  - apply IH.
Qed.

(** the run-state machine: in every history, under every variant, a tick is skipped only after a
    tick of the same process panicked on an invalid location *)
Lemma skipped_was_running v st o : snd (step v st o) = R_SKIPPED -> s_running st = true.
Proof.
  destruct o as [m ds k x del| |m|b| |post|ok|m' sid']; cbn [step snd]; try discriminate.
  - unfold run_backup. destruct (s_running st); [reflexivity|].
    destruct (valid_location st) as [ok f1]. destruct ok; discriminate.
  - destruct (conc_shape v st post) as [ws E]. cbn [step] in E. rewrite E. cbn [snd].
    unfold run_backup. destruct (s_running st); [reflexivity|].
    destruct (valid_location st) as [ok f1]. destruct ok; discriminate.
  - unfold run_backup_rsync. destruct (s_running st); [reflexivity|].
    destruct (valid_location st) as [valid f1]. destruct valid; [destruct ok|]; discriminate.
Qed.

Lemma restart_res v st o : is_restart o = true -> snd (step v st o) = R_NONE.
Proof. destruct o; try discriminate. reflexivity. Qed.

Theorem trace_skip_ok v ops : forall st stuck, (s_running st = true -> stuck = true) ->
  skip_ok stuck ops (fst (trace v ops st)) = true.
Proof.
  induction ops as [|o ops IH]; intros st stuck Hs; [reflexivity|].
  rewrite trace_fst_cons. cbn [skip_ok x_res].
  apply andb_true_iff; split.
  - destruct (snd (step v st o) =? R_SKIPPED) eqn:E; [|reflexivity].
    apply N.eqb_eq in E. apply Hs. now apply (skipped_was_running v st o).
  - apply IH. intros Hr.
    destruct (running_released v st o Hr) as [[Hb Hn]|Hp].
    + change (is_restart_op o) with (is_restart o) in Hn. rewrite Hn.
      destruct ((snd (step v st o) =? R_REFUSED) || (snd (step v st o) =? 3)); [reflexivity | now apply Hs].
    + destruct (is_restart o) eqn:Er.
      * rewrite (restart_res v st o Er) in Hp. discriminate.
      * rewrite Hp. reflexivity.
Qed.

Lemma optbytes_eqb_eq a b : optbytes_eqb a b = true <-> a = b.
Proof.
  destruct a, b; cbn; try (split; congruence). rewrite bytes_eqb_eq. split; congruence.
Qed.
Lemma optN_eqb_eq a b : optN_eqb a b = true <-> a = b.
Proof. destruct a, b; cbn; try (split; congruence). rewrite N.eqb_eq. split; congruence. Qed.
Lemma step_eqb_eq a b : step_eqb a b = true <-> a = b.
Proof.
  destruct a, b. unfold step_eqb. cbn.
  rewrite !andb_true_iff, !N.eqb_eq, optN_eqb_eq, optbytes_eqb_eq, bytes_eqb_eq, !eqb_true_iff.
  split; [intros [[[[[[[-> ->] ->] ->] ->] ->] ->] ->]; reflexivity | intros [= -> -> -> -> -> -> -> ->]; auto 12].
Qed.

Lemma subset_b_incl a b : incl a b -> subset_b a b = true.
Proof.
  intros H. apply forallb_forall. intros e He. apply existsb_exists. exists e. split; [now apply H | apply entry_eqb_refl].
Qed.

Lemma row_eqb_eq (a b : row) : row_eqb a b = true <-> a = b.
Proof.
  destruct a as [[[a1 a2] a3] a4], b as [[[b1 b2] b3] b4]. cbn.
  rewrite !andb_true_iff, !N.eqb_eq, eqb_true_iff. split.
  - intros [[[-> ->] ->] ->]. reflexivity.
  - intros [= -> -> -> ->]. auto.
Qed.
Lemma rows_eqb_eq a b : rows_eqb a b = true <-> a = b.
Proof. apply list_eqb_eq, row_eqb_eq. Qed.

Lemma listing_ext a b : (forall ds k, latest ds k a = latest ds k b) -> listing a = listing b.
Proof.
  intros H. unfold listing, visible. induction universe as [|dk u IH]; cbn; [reflexivity|]. now rewrite !H, IH.
Qed.

(** the cases the link theorem speaks about: a native-mode history without delete-all (that
    situation is theorem [restore_after_delete]), or an rsync-mode history *)
Definition case_wf (c : tcase) : bool :=
  if c_rsync c then forallb (fun o => negb (is_native o)) (c_ops c) else forallb plain (c_ops c).

Theorem agree_fixed_spec c : case_wf c = true -> agree fixed c = true -> spec_ok c = true.
Proof.
  unfold agree, spec_ok, case_wf. intros Hwf H.
  apply andb_true_iff in H. destruct H as [H H4].
  apply andb_true_iff in H. destruct H as [H H3].
  apply andb_true_iff in H. destruct H as [H _].
  apply andb_true_iff in H. destruct H as [H H2].
  apply andb_true_iff in H. destruct H as [_ H1].
  rewrite predict_snap in H3. rewrite predict_steps in H2. rewrite predict_locid0 in H1.
  apply optbytes_eqb_eq in H1. apply (list_eqb_eq step_eqb step_eqb_eq) in H2.
  apply andb_true_iff; split; [apply andb_true_iff; split|].
  - rewrite <- H1, <- H2. exact (trace_foreign_ok fixed (c_ops c) (init_of fixed c)).
  - rewrite <- H2. apply trace_skip_ok. discriminate.
  - destruct (c_foreign c) eqn:F; [reflexivity|].
    apply andb_true_iff in H4. destruct H4 as [H4 H5].
    unfold rich_claim in H5. rewrite predict_snap in H5. rewrite predict_file in H4, H5.
    unfold init_of in *. rewrite F in *.
    set (st := run fixed (c_ops c) (init fixed (c_m0 c) (c_sid c) [])) in *.
    destruct (c_rsync c) eqn:Rs.
    + (* rsync mode: the copy is the snapshot *)
      assert (R : restore_ok_rsync st).
      { apply restore_rsync; [exact Hwf | intros s; discriminate]. }
      destruct (s_snap st) as [s|] eqn:Es.
      * rewrite (R s Es) in H4, H5. unfold badger_load in *.
        assert (Hset : sets_eqb s s = true).
        { unfold sets_eqb. now rewrite !subset_b_incl by apply incl_refl. }
        rewrite Hset in H5. cbn [option_map] in H3, H4.
        destruct (o_snap c) as [rs|]; [|discriminate]. destruct (o_restored c) as [rr|]; [|discriminate].
        cbn [optrows_eqb] in H3, H4. apply rows_eqb_eq in H3, H4. subst rs rr.
        apply andb_true_iff in H5. destruct H5 as [H5 _].
        rewrite H5, andb_true_r. now apply rows_eqb_eq.
      * cbn [option_map optrows_eqb] in H3. destruct (o_snap c); [discriminate | reflexivity].
    + pose proof (Inv_run fixed (c_ops c) eq_refl Hwf _ (Inv_init fixed (c_m0 c) (c_sid c))) as I.
      fold st in I.
      destruct (s_snap st) as [s|] eqn:Es.
      * destruct (inv_snap _ _ I s Es) as (A & B & C & D).
        rewrite A in H4, H5. unfold badger_load in *.
        assert (Hset : sets_eqb (kvfile (s_fs st)) s = true).
        { unfold sets_eqb. now rewrite !subset_b_incl. }
        rewrite Hset in H5.
        cbn [option_map] in H3, H4.
        destruct (o_snap c) as [rs|]; [|discriminate]. destruct (o_restored c) as [rr|]; [|discriminate].
        cbn [optrows_eqb] in H3, H4. apply rows_eqb_eq in H3, H4. subst rs rr.
        apply andb_true_iff in H5. destruct H5 as [H5 _].
        rewrite H5, andb_true_r. apply rows_eqb_eq. apply listing_ext.
        intros ds k. apply latest_set_eq; auto.
        eapply uniq_incl; [exact D | exact (inv_uniq _ _ I)].
      * cbn [option_map optrows_eqb] in H3. destruct (o_snap c); [discriminate | reflexivity].
Qed.
