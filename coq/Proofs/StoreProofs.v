(** Proofs about Model/Store.v: the batch loop refines the sequential feed spec
    (C02), and the invariant that ties latest pointers to the feed (C01). *)
From Coq Require Import List ZArith Bool Lia.
From DH Require Import Model.Store.
Import ListNotations.
Open Scope Z_scope.

(** ** small list facts *)
Fixpoint zseq (a : Z) (n : nat) : list Z :=
  match n with O => [] | S n' => a :: zseq (a + 1) n' end.

Lemma zseq_app a n m : zseq a (n + m) = zseq a n ++ zseq (a + Z.of_nat n) m.
Proof.
  revert a; induction n as [|n IH]; intros a; cbn [zseq Nat.add app].
  - f_equal; lia.
  - rewrite IH. do 3 f_equal. lia.
Qed.

Lemma zseq_snoc a n : zseq a (S n) = zseq a n ++ [a + Z.of_nat n].
Proof. replace (S n) with (n + 1)%nat by lia. rewrite zseq_app. reflexivity. Qed.

Lemma assoc_cons {V} k k' (v : V) l :
  assoc k ((k', v) :: l) = if Z.eqb k k' then Some v else assoc k l.
Proof. reflexivity. Qed.

Lemma current_of_app f g id :
  current_of (f ++ g) id =
  match current_of g id with Some c => Some c | None => current_of f id end.
Proof.
  induction f as [|[i c] f IH]; cbn [app current_of].
  - destruct (current_of g id); reflexivity.
  - rewrite IH. destruct (current_of g id); reflexivity.
Qed.

Lemma current_of_single i c id :
  current_of [(i, c)] id = if Z.eqb i id then Some c else None.
Proof. reflexivity. Qed.

Lemma current_of_snoc f i c id :
  current_of (f ++ [(i, c)]) id = if Z.eqb i id then Some c else current_of f id.
Proof. rewrite current_of_app, current_of_single. destruct (Z.eqb i id); reflexivity. Qed.

Definition efeed (E : list entry) : feed := map (fun e => (en_id e, en_c e)) E.

Lemma efeed_app E P : efeed (E ++ P) = efeed E ++ efeed P.
Proof. apply map_app. Qed.

Lemma find_entry_app id t b l1 l2 :
  find_entry id t b (l1 ++ l2) =
  match find_entry id t b l1 with Some e => Some e | None => find_entry id t b l2 end.
Proof.
  induction l1 as [|e l1 IH]; cbn [app find_entry]; [reflexivity|].
  destruct (Z.eqb (en_id e) id && Z.eqb (en_time e) t && Z.eqb (en_bidx e) b); [reflexivity | exact IH].
Qed.

Definition times_le (clk : Z) (E : list entry) : Prop := Forall (fun e => en_time e <= clk) E.

Lemma find_entry_none_time clk E id t b :
  times_le clk E -> clk < t -> find_entry id t b E = None.
Proof.
  intros H Ht. induction H as [|e E He _ IH]; cbn [find_entry]; [reflexivity|].
  replace (Z.eqb (en_time e) t) with false by (symmetry; apply Z.eqb_neq; lia).
  rewrite andb_false_r. cbn [andb]. exact IH.
Qed.

Lemma find_entry_none_bidx P id t i :
  Forall (fun e => en_bidx e < i) P -> find_entry id t i P = None.
Proof.
  intros H. induction H as [|e P He _ IH]; cbn [find_entry]; [reflexivity|].
  replace (Z.eqb (en_bidx e) i) with false by (symmetry; apply Z.eqb_neq; lia).
  rewrite andb_false_r. exact IH.
Qed.

Lemma find_entry_other id' t b e :
  en_id e <> id' -> find_entry id' t b [e] = None.
Proof.
  intros H. cbn [find_entry].
  replace (Z.eqb (en_id e) id') with false by (symmetry; apply Z.eqb_neq; exact H).
  reflexivity.
Qed.

(** ** versions are strictly ordered by (time, batch index) *)
Definition klt (a b : entry) : Prop :=
  en_time a < en_time b \/ (en_time a = en_time b /\ en_bidx a < en_bidx b).

Fixpoint ksorted (l : list entry) : Prop :=
  match l with [] => True | x :: l' => Forall (klt x) l' /\ ksorted l' end.

Lemma ksorted_app l1 l2 :
  ksorted l1 -> ksorted l2 -> (forall x y, In x l1 -> In y l2 -> klt x y) -> ksorted (l1 ++ l2).
Proof.
  induction l1 as [|x l1 IH]; cbn [app ksorted]; intros H1 H2 H; [exact H2|].
  destruct H1 as [Hx H1]. split.
  - apply Forall_app; split; [exact Hx|]. apply Forall_forall. intros y Hy. apply H; [now left | exact Hy].
  - apply IH; try assumption. intros a b Ha Hb. apply H; [now right | exact Hb].
Qed.

(** the last entry of an id *)
Fixpoint last_entry (E : list entry) (id : uri) : option entry :=
  match E with
  | [] => None
  | e :: E' => match last_entry E' id with
               | Some e' => Some e'
               | None => if Z.eqb (en_id e) id then Some e else None
               end
  end.

Lemma last_entry_app E P id :
  last_entry (E ++ P) id = match last_entry P id with Some e => Some e | None => last_entry E id end.
Proof.
  induction E as [|e E IH]; cbn [app last_entry].
  - destruct (last_entry P id); reflexivity.
  - rewrite IH. destruct (last_entry P id); reflexivity.
Qed.

Lemma last_entry_snoc E e id :
  last_entry (E ++ [e]) id = if Z.eqb (en_id e) id then Some e else last_entry E id.
Proof. rewrite last_entry_app. cbn [last_entry]. destruct (Z.eqb (en_id e) id); reflexivity. Qed.

Lemma last_entry_In E id e : last_entry E id = Some e -> In e E /\ en_id e = id.
Proof.
  induction E as [|x E IH]; cbn [last_entry]; [discriminate|].
  destruct (last_entry E id) as [e'|].
  - intros [= ->]. destruct (IH eq_refl). split; [now right | assumption].
  - destruct (Z.eqb_spec (en_id x) id); [|discriminate]. intros [= ->]. split; [now left | assumption].
Qed.

Lemma current_of_last_entry E id :
  current_of (efeed E) id = option_map en_c (last_entry E id).
Proof.
  induction E as [|e E IH]; cbn [efeed map current_of last_entry]; [reflexivity|].
  fold (efeed E). rewrite IH. destruct (last_entry E id); cbn [option_map]; [reflexivity|].
  destruct (Z.eqb (en_id e) id); reflexivity.
Qed.

Lemma klt_irrefl_key a b : klt a b -> ~ (en_time a = en_time b /\ en_bidx a = en_bidx b).
Proof. unfold klt. lia. Qed.

(** in a sorted version list the key of the last entry of an id finds that very entry *)
Lemma find_last_entry E id e :
  ksorted E -> last_entry E id = Some e -> find_entry id (en_time e) (en_bidx e) E = Some e.
Proof.
  induction E as [|x E IH]; cbn [ksorted last_entry find_entry]; [discriminate|].
  intros [Hx Hs] Hl.
  destruct (last_entry E id) as [e'|] eqn:El.
  - injection Hl as ->. destruct (last_entry_In _ _ _ El) as [Hin _].
    rewrite Forall_forall in Hx. specialize (Hx e Hin).
    destruct (Z.eqb_spec (en_time x) (en_time e)) as [Ht|Ht];
      destruct (Z.eqb_spec (en_bidx x) (en_bidx e)) as [Hb|Hb];
      rewrite ?andb_false_r, ?andb_true_r; try (apply IH; [assumption | reflexivity]).
    exfalso. unfold klt in Hx. lia.
  - destruct (Z.eqb_spec (en_id x) id) as [Hid|]; [|discriminate]. injection Hl as Hxe.
    subst. rewrite !Z.eqb_refl. reflexivity.
Qed.

Definition ekey (e : entry) : Z * Z := (en_time e, en_bidx e).

(** ** the dataset invariant *)
Record dinv (clk : Z) (d : dstate) : Prop := {
  dinv_ptr : forall id, assoc id (d_latest d) = option_map ekey (last_entry (d_entries d) id);
  dinv_sorted : ksorted (d_entries d);
  dinv_times : times_le clk (d_entries d);
  dinv_seqs : map en_seq (d_entries d) = zseq 0 (length (d_entries d));
  dinv_next : d_next d = Z.of_nat (length (d_entries d))
}.

(** the latest pointer names the content of the last version written (what listings and
    latest-only feeds read) *)
Lemma dinv_latest clk d : dinv clk d -> forall id, stored_latest d id = current_of (feed_of d) id.
Proof.
  intros Hd id. unfold stored_latest, feed_of. fold (efeed (d_entries d)).
  rewrite current_of_last_entry, (dinv_ptr _ _ Hd).
  destruct (last_entry (d_entries d) id) as [e|] eqn:El; cbn [option_map ekey]; [|reflexivity].
  now rewrite (find_last_entry _ _ _ (dinv_sorted _ _ Hd) El).
Qed.

Lemma dinv0 clk : dinv clk dstate0.
Proof. constructor; cbn; try reflexivity; try constructor. Qed.

Lemma dinv_mono clk clk' d : clk <= clk' -> dinv clk d -> dinv clk' d.
Proof.
  intros Hle [H0 H1 H2 H3 H4]. constructor; try assumption.
  eapply Forall_impl; [|exact H2]. cbv beta. intros; lia.
Qed.

(** ** the loop invariant *)
Record linv (d : dstate) (t i : Z) (acc : bacc) (fcur : feed) : Prop := {
  li_feed : efeed (d_entries d ++ a_pend acc) = fcur;
  li_loc : forall id, assoc id (a_loc acc) = current_of (efeed (a_pend acc)) id;
  li_latest : forall id, assoc id (a_latest acc) = option_map ekey (last_entry (d_entries d ++ a_pend acc) id);
  li_pend : Forall (fun e => en_time e = t /\ 0 <= en_bidx e < i) (a_pend acc);
  li_psorted : ksorted (a_pend acc);
  li_next : a_next acc = d_next d + Z.of_nat (length (a_pend acc));
  li_seqs : map en_seq (a_pend acc) = zseq (d_next d) (length (a_pend acc))
}.

Lemma keep_matches_spec fl stored loc c (fcur : feed) id :
  current_of fcur id = match loc with Some c' => Some c' | None => stored end ->
  spec_write (content_eqb fl) fcur {| e_id := id; e_c := c |} =
  if keep_decision fl DupLocalElseStored stored loc c then fcur ++ [(id, c)] else fcur.
Proof.
  intros H. unfold spec_write, keep_decision. cbn [e_id e_c]. rewrite H.
  destruct loc as [l|].
  - destruct (content_eqb fl l c); reflexivity.
  - destruct stored as [p|]; [destruct (content_eqb fl p c)|]; reflexivity.
Qed.

Lemma ksorted_snoc P e :
  ksorted P -> Forall (fun x => klt x e) P -> ksorted (P ++ [e]).
Proof.
  intros Hs Hf. apply ksorted_app; [exact Hs | cbn; split; [constructor | exact I] |].
  intros x y Hx [<-|[]]. rewrite Forall_forall in Hf. now apply Hf.
Qed.

Lemma batch_step_linv fl d clk t i acc fcur e :
  dinv clk d -> clk < t -> 0 <= i ->
  linv d t i acc fcur ->
  linv d t (i + 1) (batch_step fl DupLocalElseStored d t acc (i, e)) (spec_write (content_eqb fl) fcur e).
Proof.
  intros Hd Ht Hi [Hfeed Hloc Hlat Hpend Hps Hnext Hseqs].
  destruct e as [id c]. unfold batch_step. cbn [e_id e_c].
  assert (Hcur : current_of fcur id =
                 match assoc id (a_loc acc) with Some c' => Some c' | None => stored_latest d id end).
  { rewrite <- Hfeed, efeed_app, current_of_app, <- Hloc.
    destruct (assoc id (a_loc acc)); [reflexivity|].
    symmetry. apply (dinv_latest _ _ Hd). }
  rewrite (keep_matches_spec fl _ _ c fcur id Hcur).
  destruct (keep_decision fl DupLocalElseStored (stored_latest d id) (assoc id (a_loc acc)) c).
  - (* kept *)
    set (en := {| en_seq := a_next acc; en_id := id; en_time := t; en_bidx := i; en_c := c |}).
    constructor; cbn [a_loc a_pend a_latest a_next].
    + rewrite app_assoc, efeed_app, Hfeed. reflexivity.
    + intros id'. rewrite assoc_cons, efeed_app. cbn [efeed map en_id en_c en].
      rewrite current_of_snoc, Z.eqb_sym. destruct (Z.eqb id id'); [reflexivity | apply Hloc].
    + intros id'. rewrite assoc_cons, app_assoc, last_entry_snoc. cbn [en_id en]. rewrite Z.eqb_sym.
      destruct (Z.eqb id id'); [reflexivity | apply Hlat].
    + apply Forall_app; split.
      * eapply Forall_impl; [|exact Hpend]. cbv beta. intros ? [? ?]; split; [assumption | lia].
      * constructor; [|constructor]. cbn. split; [reflexivity | lia].
    + apply ksorted_snoc; [exact Hps|].
      eapply Forall_impl; [|exact Hpend]. cbv beta. intros x [Hx1 Hx2]. right. cbn [en_time en_bidx en]. lia.
    + rewrite app_length. cbn [length]. lia.
    + rewrite map_app, app_length, Hseqs. cbn [map length en_seq en].
      replace (length (a_pend acc) + 1)%nat with (S (length (a_pend acc))) by lia.
      rewrite zseq_snoc, Hnext. reflexivity.
  - (* skipped *)
    constructor; try assumption.
    eapply Forall_impl; [|exact Hpend]. cbv beta. intros ? [? ?]; split; [assumption | lia].
Qed.

Lemma batch_fold_linv fl d clk t ents : forall i acc fcur,
  dinv clk d -> clk < t -> 0 <= i ->
  linv d t i acc fcur ->
  linv d t (i + Z.of_nat (length ents))
       (fold_left (batch_step fl DupLocalElseStored d t) (number_from i ents) acc)
       (fold_left (spec_write (content_eqb fl)) ents fcur).
Proof.
  induction ents as [|e ents IH]; intros i acc fcur Hd Ht Hi Hl; cbn [number_from fold_left length].
  - replace (i + Z.of_nat 0) with i by lia. exact Hl.
  - replace (i + Z.of_nat (S (length ents))) with (i + 1 + Z.of_nat (length ents)) by lia.
    apply IH; try assumption; try lia.
    eapply batch_step_linv; eassumption.
Qed.

(** ** C02 core: one dataset's share of a batch refines the sequential spec, for any equality flags *)
Theorem store_batch_refines fl clk t ents d :
  dinv clk d -> clk < t ->
  feed_of (store_batch_ds fl DupLocalElseStored t ents d)
  = fold_left (spec_write (content_eqb fl)) ents (feed_of d)
  /\ dinv t (store_batch_ds fl DupLocalElseStored t ents d).
Proof.
  intros Hd Ht. unfold store_batch_ds.
  set (acc0 := {| a_loc := []; a_pend := []; a_latest := d_latest d; a_next := d_next d |}).
  assert (H0 : linv d t 0 acc0 (feed_of d)).
  { constructor; cbn [acc0 a_loc a_pend a_latest a_next]; rewrite ?app_nil_r.
    - reflexivity.
    - intros; reflexivity.
    - apply (dinv_ptr _ _ Hd).
    - constructor.
    - exact I.
    - cbn; lia.
    - reflexivity. }
  pose proof (batch_fold_linv fl d clk t ents 0 acc0 (feed_of d) Hd Ht ltac:(lia) H0) as H.
  set (acc := fold_left (batch_step fl DupLocalElseStored d t) (number_from 0 ents) acc0) in *.
  destruct H as [Hfeed Hloc Hlat Hpend Hps Hnext Hseqs].
  split.
  - unfold feed_of. cbn [d_entries]. exact Hfeed.
  - constructor; cbn [d_entries d_latest d_next].
    + exact Hlat.
    + apply ksorted_app; [exact (dinv_sorted _ _ Hd) | exact Hps |].
      intros x y Hx Hy. left.
      pose proof (dinv_times _ _ Hd) as Htl. unfold times_le in Htl. rewrite Forall_forall in Htl, Hpend.
      specialize (Htl x Hx). destruct (Hpend y Hy). lia.
    + apply Forall_app; split.
      * eapply Forall_impl; [|exact (dinv_times _ _ Hd)]. cbv beta. intros; lia.
      * eapply Forall_impl; [|exact Hpend]. cbv beta. intros ? [? ?]; lia.
    + rewrite map_app, app_length, (dinv_seqs _ _ Hd), Hseqs, zseq_app, (dinv_next _ _ Hd).
      reflexivity.
    + rewrite Hnext, app_length, (dinv_next _ _ Hd). lia.
Qed.

(** ** the store: all datasets satisfy the invariant, and feeds follow the spec *)
Lemma assoc_set_assoc_same {V} k (v : V) l : assoc k (set_assoc k v l) = Some v.
Proof.
  induction l as [|[k' v'] l IH]; cbn [set_assoc assoc].
  - now rewrite Z.eqb_refl.
  - destruct (Z.eqb_spec k k') as [->|Hne]; cbn [assoc].
    + now rewrite Z.eqb_refl.
    + destruct (k <? k'); cbn [assoc].
      * now rewrite Z.eqb_refl.
      * replace (Z.eqb k k') with false by (symmetry; now apply Z.eqb_neq). exact IH.
Qed.

Lemma assoc_set_assoc_other {V} k k'' (v : V) l : k'' <> k -> assoc k'' (set_assoc k v l) = assoc k'' l.
Proof.
  intros Hne. induction l as [|[k' v'] l IH]; cbn [set_assoc assoc].
  - replace (Z.eqb k'' k) with false by (symmetry; now apply Z.eqb_neq). reflexivity.
  - destruct (Z.eqb_spec k k') as [->|Hne']; cbn [assoc].
    + replace (Z.eqb k'' k') with false by (symmetry; now apply Z.eqb_neq). reflexivity.
    + destruct (k <? k'); cbn [assoc].
      * replace (Z.eqb k'' k) with false by (symmetry; now apply Z.eqb_neq). reflexivity.
      * destruct (Z.eqb k'' k'); [reflexivity | exact IH].
Qed.

Lemma get_set_same st k d : get_ds (set_ds st k d) k = d.
Proof. unfold get_ds, set_ds. cbn [s_ds]. now rewrite assoc_set_assoc_same. Qed.

Lemma get_set_other st k k' d : k' <> k -> get_ds (set_ds st k d) k' = get_ds st k'.
Proof. intros H. unfold get_ds, set_ds. cbn [s_ds]. now rewrite assoc_set_assoc_other. Qed.

Definition sinv (st : store) : Prop := forall ds, dinv (s_clock st) (get_ds st ds).

Lemma sinv0 : sinv store0.
Proof. intros ds. unfold get_ds, store0. cbn. apply dinv0. Qed.

(** spec state as a function dataset -> feed *)
Definition fspec := Z -> feed.
Definition fwrite (eqb : content -> content -> bool) (s : fspec) (ds : Z) (ents : list ent) : fspec :=
  fun k => if Z.eqb k ds then fold_left (spec_write eqb) ents (s ds) else s k.
Definition fapply (eqb : content -> content -> bool) (s : fspec) (o : wop) : fspec :=
  match o with
  | WBatch ds ents => fwrite eqb s ds ents
  | WTxn sets => fold_left (fun s' (p : Z * list ent) => fwrite eqb s' (fst p) (snd p)) sets s
  end.

Definition wf_wop (o : wop) : Prop :=
  match o with WBatch _ _ => True | WTxn sets => NoDup (map fst sets) end.

Definition abs (st : store) : fspec := fun ds => feed_of (get_ds st ds).

Lemma txn_fold_refines fl t sets : forall st s,
  NoDup (map fst sets) ->
  s_clock st = t ->
  (forall ds, In ds (map fst sets) -> exists clk, clk < t /\ dinv clk (get_ds st ds)) ->
  (forall ds, ~ In ds (map fst sets) -> dinv t (get_ds st ds)) ->
  (forall ds, abs st ds = s ds) ->
  let st' := fold_left (fun s0 (p : Z * list ent) =>
                set_ds s0 (fst p) (store_batch_ds fl DupLocalElseStored t (snd p) (get_ds s0 (fst p)))) sets st in
  let s' := fold_left (fun s0 (p : Z * list ent) => fwrite (content_eqb fl) s0 (fst p) (snd p)) sets s in
  s_clock st' = t /\ (forall ds, dinv t (get_ds st' ds)) /\ (forall ds, abs st' ds = s' ds).
Proof.
  induction sets as [|[k ents] sets IH]; intros st s Hnd Hclk Hin Hout Habs; cbn [fold_left map fst snd] in *.
  - split; [assumption | split; [intros ds; apply Hout; intros [] | assumption]].
  - inversion Hnd as [|? ? Hk Hnd']; subst.
    destruct (Hin k (or_introl eq_refl)) as (clk & Hlt & Hdk).
    destruct (store_batch_refines fl clk (s_clock st) ents (get_ds st k) Hdk Hlt) as [Hf Hd'].
    apply IH; try assumption.
    + reflexivity.
    + intros ds Hds. assert (ds <> k) by (intros ->; contradiction).
      rewrite get_set_other by assumption. apply Hin. now right.
    + intros ds Hds. destruct (Z.eq_dec ds k) as [->|Hne].
      * rewrite get_set_same. exact Hd'.
      * rewrite get_set_other by assumption. apply Hout. intros [Heq|Hi]; [congruence | contradiction].
    + intros ds. unfold abs, fwrite. destruct (Z.eqb_spec ds k) as [->|Hne].
      * rewrite get_set_same, Hf. f_equal. apply Habs.
      * rewrite get_set_other by assumption. apply Habs.
Qed.

Theorem apply_wop_refines fl st s o :
  wf_wop o -> sinv st -> (forall ds, abs st ds = s ds) ->
  sinv (apply_wop fl DupLocalElseStored st o)
  /\ (forall ds, abs (apply_wop fl DupLocalElseStored st o) ds = fapply (content_eqb fl) s o ds).
Proof.
  intros Hwf Hinv Habs. unfold apply_wop.
  set (st1 := tick st). set (t := s_clock st1).
  assert (Ht : s_clock st < t) by (subst t st1; cbn; lia).
  assert (Hget : forall ds, get_ds st1 ds = get_ds st ds) by reflexivity.
  destruct o as [k ents | sets].
  - destruct (store_batch_refines fl (s_clock st) t ents (get_ds st1 k)) as [Hf Hd'].
    { rewrite Hget. apply Hinv. } { exact Ht. }
    split.
    + intros ds. unfold set_ds at 1. cbn [s_clock]. fold t.
      change (dinv t (get_ds (set_ds st1 k (store_batch_ds fl DupLocalElseStored t ents (get_ds st1 k))) ds)).
      destruct (Z.eq_dec ds k) as [->|Hne].
      * rewrite get_set_same. exact Hd'.
      * rewrite get_set_other by assumption. rewrite Hget.
        eapply dinv_mono; [|apply Hinv]. lia.
    + intros ds. unfold abs, fapply, fwrite. destruct (Z.eqb_spec ds k) as [->|Hne].
      * rewrite get_set_same, Hf, Hget. f_equal. apply Habs.
      * rewrite get_set_other by assumption. rewrite Hget. apply Habs.
  - destruct (txn_fold_refines fl t sets st1 s Hwf eq_refl) as (Hc & Hd & Ha).
    + intros ds _. exists (s_clock st). split; [exact Ht|]. rewrite Hget. apply Hinv.
    + intros ds _. rewrite Hget. eapply dinv_mono; [|apply Hinv]. lia.
    + intros ds. unfold abs. rewrite Hget. apply Habs.
    + split.
      * intros ds. rewrite Hc. apply Hd.
      * exact Ha.
Qed.

(** every history of well-formed writes: the change feed of every dataset is the
    fold of [spec_write] over what was written there, in order *)
Theorem run_wops_refines fl ops : forall st s,
  Forall wf_wop ops -> sinv st -> (forall ds, abs st ds = s ds) ->
  sinv (run_wops fl DupLocalElseStored ops st)
  /\ (forall ds, abs (run_wops fl DupLocalElseStored ops st) ds
                 = fold_left (fapply (content_eqb fl)) ops s ds).
Proof.
  induction ops as [|o ops IH]; intros st s Hwf Hinv Habs; cbn [run_wops fold_left].
  - split; assumption.
  - inversion Hwf as [|? ? Ho Hops]; subst.
    destruct (apply_wop_refines fl st s o Ho Hinv Habs) as [Hi Ha].
    apply (IH _ _ Hops Hi Ha).
Qed.

(** ** "identical" is equality of the property-level content *)
Definition proj_props (c : content) := map (fun kv => (fst kv, pv_code (snd kv))) (c_props c).
Definition proj_refs (c : content) := map (fun kv => (fst kv, (rv_arr (snd kv), rv_tgts (snd kv)))) (c_refs c).

Lemma zlist_eqb_eq a b : zlist_eqb a b = true <-> a = b.
Proof.
  revert b; induction a as [|x a IH]; destruct b as [|y b]; cbn; try (split; congruence).
  rewrite andb_true_iff, Z.eqb_eq, IH. split; [intros [-> ->]; reflexivity | intros [= -> ->]; auto].
Qed.

Lemma identical_iff a b :
  identical a b = true <->
  c_del a = c_del b /\ proj_props a = proj_props b /\ proj_refs a = proj_refs b.
Proof.
  unfold identical, content_eqb, eq_full. cbn [f_lenkeys f_objneq].
  rewrite !andb_true_iff, eqb_true_iff.
  assert (Hp : forall l1 l2 : list (Z * pval),
             kvlist_eqb (pval_eqb {| f_lenkeys := false; f_objneq := false |}) l1 l2 = true <->
             map (fun kv => (fst kv, pv_code (snd kv))) l1 = map (fun kv => (fst kv, pv_code (snd kv))) l2).
  { induction l1 as [|[k [vc vo]] l1 IH]; destruct l2 as [|[k' [vc' vo']] l2];
      cbn [kvlist_eqb map fst snd pv_code]; try (split; congruence).
    unfold pval_eqb. cbn [f_objneq pv_code]. rewrite !andb_true_iff, !Z.eqb_eq, IH.
    split.
    - intros [[Hk [Hv _]] Hl]. subst. rewrite Hl. reflexivity.
    - intros H. injection H as Hk Hv Hl. subst. auto. }
  assert (Hr : forall l1 l2 : list (Z * rval),
             kvlist_eqb rval_eqb l1 l2 = true <->
             map (fun kv => (fst kv, (rv_arr (snd kv), rv_tgts (snd kv)))) l1
             = map (fun kv => (fst kv, (rv_arr (snd kv), rv_tgts (snd kv)))) l2).
  { induction l1 as [|[k [va vt]] l1 IH]; destruct l2 as [|[k' [va' vt']] l2];
      cbn [kvlist_eqb map fst snd rv_arr rv_tgts]; try (split; congruence).
    unfold rval_eqb. cbn [rv_arr rv_tgts].
    rewrite !andb_true_iff, Z.eqb_eq, eqb_true_iff, zlist_eqb_eq, IH.
    split.
    - intros [[Hk [Ha Ht]] Hl]. subst. rewrite Hl. reflexivity.
    - intros H. injection H as Hk Ha Ht Hl. subst. auto. }
  unfold proj_props, proj_refs. rewrite Hp, Hr. tauto.
Qed.

Lemma identical_refl a : identical a a = true.
Proof. apply identical_iff. auto. Qed.
Lemma identical_sym a b : identical a b = identical b a.
Proof.
  destruct (identical a b) eqn:E1, (identical b a) eqn:E2; try reflexivity.
  - apply identical_iff in E1. assert (identical b a = true) by (apply identical_iff; intuition congruence). congruence.
  - apply identical_iff in E2. assert (identical a b = true) by (apply identical_iff; intuition congruence). congruence.
Qed.
Lemma identical_trans a b c : identical a b = true -> identical b c = true -> identical a c = true.
Proof. rewrite !identical_iff. intuition congruence. Qed.
