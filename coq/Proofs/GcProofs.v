(** Proofs about Model/Gc.v: the byte offsets the collector reads are the dataset field of the key;
    the collector on raw keys removes exactly the keys whose dataset field is in the deleted set. *)
From Coq Require Import List ZArith Bool Lia.
From DH Require Import Model.Store Model.DsManager Model.Gc Proofs.StoreProofs Proofs.DsManagerProofs.
Import ListNotations.
Open Scope Z_scope.

Lemma be_length w : forall x, length (be w x) = w.
Proof. induction w as [|w IH]; intros x; cbn; [reflexivity|]. rewrite app_length, IH. cbn. lia. Qed.
Lemma dec_app l1 : forall l2 acc, dec (l1 ++ l2) acc = dec l2 (dec l1 acc).
Proof. induction l1 as [|b l1 IH]; intros; cbn; [reflexivity | apply IH]. Qed.
Lemma dec_be w : forall x acc, in_range w x -> dec (be w x) acc = acc * 256 ^ Z.of_nat w + x.
Proof.
  unfold in_range. induction w as [|w IH]; intros x acc H.
  - cbn in *. lia.
  - cbn [be]. rewrite dec_app. cbn [dec].
    assert (P : 256 ^ Z.of_nat (S w) = 256 * 256 ^ Z.of_nat w).
    { rewrite Nat2Z.inj_succ, Z.pow_succ_r by lia. reflexivity. }
    rewrite P in *.
    assert (Q : 0 < 256 ^ Z.of_nat w) by (apply Z.pow_pos_nonneg; lia).
    rewrite IH.
    + pose proof (Z.div_mod x 256 ltac:(lia)). nia.
    + split; [apply Z.div_pos; lia | apply Z.div_lt_upper_bound; lia].
Qed.
Lemma be_inj w x y : in_range w x -> in_range w y -> be w x = be w y -> x = y.
Proof.
  intros Hx Hy E. pose proof (dec_be w x 0 Hx) as A. pose proof (dec_be w y 0 Hy) as B. rewrite E in A. lia.
Qed.

Lemma skipn_app_len {A} (l1 l2 : list A) n : length l1 = n -> skipn n (l1 ++ l2) = l2.
Proof. intros <-. rewrite skipn_app, skipn_all, Nat.sub_diag. reflexivity. Qed.
Lemma firstn_app_len {A} (l1 l2 : list A) n : length l1 = n -> firstn n (l1 ++ l2) = l1.
Proof. intros <-. rewrite firstn_app, firstn_all, Nat.sub_diag. cbn. now rewrite app_nil_r. Qed.
Lemma firstn_len {A} (l : list A) n : length l = n -> firstn n l = l.
Proof. intros <-. apply firstn_all. Qed.

Local Opaque be dec.

Ltac lens := repeat rewrite app_length; repeat rewrite be_length; reflexivity.

(** key[0:2] is the family *)
Lemma fam_at k : key_wf k -> u16_at 0 (encode k) = key_fam k.
Proof.
  intros _. unfold u16_at. cbn [skipn].
  destruct k; cbn [encode key_fam]; rewrite firstn_app_len by lens; rewrite dec_be; try lia; unfold in_range; cbn; lia.
Qed.

(** the dataset id sits at the offset the collector reads for that family: key[10:14] for version keys,
    key[36:40] for outgoing and incoming reference keys, key[2:6] for change-log and latest keys *)
Theorem ds_at_offset k : key_wf k -> u32_at (ds_offset (key_fam k)) (encode k) = key_ds k.
Proof.
  intros W. unfold u32_at. destruct k; cbn [encode key_fam key_ds ds_offset Z.eqb orb Pos.eqb] in *.
  - destruct W as (_ & W & _). rewrite (app_assoc (be 2 1)). rewrite skipn_app_len by lens.
    rewrite firstn_app_len by lens. rewrite dec_be by exact W. lia.
  - destruct W as (W & _). rewrite skipn_app_len by lens. rewrite firstn_app_len by lens. rewrite dec_be by exact W. lia.
  - destruct W as (W & _). rewrite skipn_app_len by lens. rewrite firstn_app_len by lens. rewrite dec_be by exact W. lia.
  - destruct W as (_ & _ & _ & _ & _ & W). rewrite !app_assoc. rewrite skipn_app_len by lens.
    rewrite firstn_len by lens. rewrite dec_be by exact W. lia.
  - destruct W as (_ & _ & _ & _ & _ & W). rewrite !app_assoc. rewrite skipn_app_len by lens.
    rewrite firstn_len by lens. rewrite dec_be by exact W. lia.
Qed.

Lemma prefix6 f ds rest d : in_range 4 ds -> in_range 4 d ->
  zlist_eqb (firstn 6 (be 2 f ++ be 4 ds ++ rest)) (be 2 f ++ be 4 d) = Z.eqb ds d.
Proof.
  intros Hds Hd. rewrite app_assoc, firstn_app_len by lens.
  destruct (Z.eqb_spec ds d) as [->|N].
  - apply zlist_eqb_eq. reflexivity.
  - destruct (zlist_eqb (be 2 f ++ be 4 ds) (be 2 f ++ be 4 d)) eqn:E; [|reflexivity].
    apply zlist_eqb_eq in E. apply app_inv_head in E. apply be_inj in E; auto. contradiction.
Qed.

(** the collector's selectors, run on the encoded key, select exactly "dataset field in the deleted set" *)
Theorem gc_raw_select_spec del k :
  key_wf k -> Forall (in_range 4) del -> gc_raw_select del (encode k) = zmem (key_ds k) del.
Proof.
  intros W D. unfold gc_raw_select. rewrite (fam_at k W).
  pose proof (ds_at_offset k W) as O.
  destruct k; cbn [key_fam key_ds ds_offset Z.eqb orb Pos.eqb] in *; try (now rewrite O).
  - (* change log: prefix [4|id] *)
    destruct W as (W & _). cbn [encode]. induction del as [|d del IH]; [reflexivity|].
    inversion D; subst. cbn [existsb zmem]. rewrite prefix6 by assumption. unfold zmem in IH. now rewrite IH.
  - destruct W as (W & _). cbn [encode]. induction del as [|d del IH]; [reflexivity|].
    inversion D; subst. cbn [existsb zmem]. rewrite prefix6 by assumption. unfold zmem in IH. now rewrite IH.
Qed.

(** C07_gc_noop, key level: on the raw keys the collector leaves exactly the keys whose dataset is not deleted *)
Theorem gc_raw_exact del ks :
  Forall key_wf ks -> Forall (in_range 4) del -> gc_raw del (map encode ks) = map encode (gc_keys del ks).
Proof.
  intros W D. unfold gc_raw, gc_keys. induction ks as [|k ks IH]; [reflexivity|].
  inversion W; subst. cbn [map filter]. rewrite gc_raw_select_spec by assumption.
  destruct (zmem (key_ds k) del); cbn [negb map]; now rewrite IH.
Qed.

(** the dataset-level collector of Model/DsManager.v removes, of the keys of a store, exactly those with a deleted dataset field *)
Lemma keys_of_ds_all i d : Forall (fun k => key_ds k = i) (keys_of_ds i d).
Proof.
  unfold keys_of_ds. repeat rewrite Forall_app. repeat split; apply Forall_forall; intros k Hk;
    apply in_map_iff in Hk; destruct Hk as (x & <- & _); reflexivity.
Qed.
Lemma filter_all_true {A} (p : A -> bool) l : Forall (fun x => p x = true) l -> filter p l = l.
Proof. induction l as [|x l IH]; intros F; [reflexivity|]. inversion F; subst. cbn. rewrite H1. now rewrite IH. Qed.
Lemma filter_all_false {A} (p : A -> bool) l : Forall (fun x => p x = false) l -> filter p l = [].
Proof. induction l as [|x l IH]; intros F; [reflexivity|]. inversion F; subst. cbn. rewrite H1. now apply IH. Qed.

Lemma gc_keys_of_list dl l :
  keys_of (filter (fun p => negb (zmem (fst p) dl)) l) = gc_keys dl (keys_of l).
Proof.
  unfold keys_of, gc_keys. induction l as [|[i d] l IH]; [reflexivity|].
  cbn [filter flat_map fst snd]. rewrite filter_app.
  pose proof (keys_of_ds_all i d) as F.
  destruct (zmem i dl) eqn:E; cbn [negb flat_map fst snd]; rewrite IH.
  - rewrite (filter_all_false _ (keys_of_ds i d)); [reflexivity|]. eapply Forall_impl; [|exact F]. cbn. intros k ->. now rewrite E.
  - rewrite (filter_all_true _ (keys_of_ds i d)); [reflexivity|]. eapply Forall_impl; [|exact F]. cbn. intros k ->. now rewrite E.
Qed.
Theorem gc_keys_of h : keys_of (h_data (gc h)) = gc_keys (h_del h) (keys_of (h_data h)).
Proof. rewrite h_data_gc. apply gc_keys_of_list. Qed.

(** census after collection = census before, minus the deleted datasets *)
Lemma census_gc_list dl l :
  census_of (filter (fun p => negb (zmem (fst p) dl)) l) = filter (fun r => negb (zmem (snd (fst r)) dl)) (census_of l).
Proof.
  unfold census_of. induction l as [|[i d] l IH]; [reflexivity|].
  cbn [filter flat_map fst snd]. rewrite filter_app.
  set (rows := (if 0 <? Z.of_nat (length (d_entries d)) then [(1, i, Z.of_nat (length (d_entries d))); (4, i, Z.of_nat (length (d_entries d)))] else [])
                ++ (if 0 <? Z.of_nat (length (latest_keys d)) then [(8, i, Z.of_nat (length (latest_keys d)))] else [])).
  destruct (zmem i dl) eqn:E; cbn [negb flat_map fst snd]; rewrite IH; fold rows.
  - rewrite (filter_all_false _ rows); [reflexivity|]. unfold rows. apply Forall_app. split.
    + destruct (0 <? Z.of_nat (length (d_entries d))); repeat constructor; cbn; now rewrite E.
    + destruct (0 <? Z.of_nat (length (latest_keys d))); repeat constructor; cbn; now rewrite E.
  - rewrite (filter_all_true _ rows); [reflexivity|]. unfold rows. apply Forall_app. split.
    + destruct (0 <? Z.of_nat (length (d_entries d))); repeat constructor; cbn; now rewrite E.
    + destruct (0 <? Z.of_nat (length (latest_keys d))); repeat constructor; cbn; now rewrite E.
Qed.
Theorem census_gc h : census_of (h_data (gc h)) = filter (fun r => negb (zmem (snd (fst r)) (h_del h))) (census_of (h_data h)).
Proof. rewrite h_data_gc. apply census_gc_list. Qed.
