(** Proofs about Model/DsManager.v, part 1: the deleted-dataset filter hides everything
    (every state, every variant), garbage collection is invisible, registry invariant over
    all histories (incl. crashes), fresh ids, rename, frame. *)
From Coq Require Import List ZArith Bool Lia.
From DH Require Import Model.Store Model.DsManager Proofs.StoreProofs.
Import ListNotations.
Open Scope Z_scope.

(** ** small facts *)
Lemma zmem_In x l : zmem x l = true <-> In x l.
Proof.
  unfold zmem. rewrite existsb_exists. split.
  - intros (y & Hy & E). apply Z.eqb_eq in E. subst. exact Hy.
  - intros H. exists x. split; [exact H | apply Z.eqb_refl].
Qed.
Lemma zmem_false x l : zmem x l = false <-> ~ In x l.
Proof. rewrite <- zmem_In. destruct (zmem x l); split; congruence. Qed.
Lemma zmem_app x l1 l2 : zmem x (l1 ++ l2) = zmem x l1 || zmem x l2.
Proof. unfold zmem. apply existsb_app. Qed.
Lemma zmem_nil x : zmem x [] = false.
Proof. reflexivity. Qed.

Lemma assoc_In {V} k (v : V) l : assoc k l = Some v -> In (k, v) l.
Proof.
  induction l as [|[k' v'] l IH]; cbn; [discriminate|].
  destruct (Z.eqb_spec k k'); [intros [= ->]; subst; now left | intros H; right; auto].
Qed.
Lemma assoc_None {V} k (l : list (Z * V)) : assoc k l = None <-> ~ In k (map fst l).
Proof.
  induction l as [|[k' v'] l IH]; cbn; [tauto|].
  destruct (Z.eqb_spec k k'); [subst; split; [discriminate | intros H; exfalso; apply H; now left]|].
  rewrite IH. split; [intros H [E|E]; [congruence | tauto] | tauto].
Qed.
Lemma In_assoc {V} k (v : V) l : NoDup (map fst l) -> In (k, v) l -> assoc k l = Some v.
Proof.
  induction l as [|[k' v'] l IH]; cbn; [tauto|].
  intros ND [E|E]; inversion ND; subst.
  - inversion E; subst. now rewrite Z.eqb_refl.
  - destruct (Z.eqb_spec k k'); [subst; exfalso; apply H1; change k' with (fst (k', v)); now apply in_map | auto].
Qed.
Lemma rassoc_In i n l : rassoc i l = Some n -> In (n, i) l.
Proof.
  induction l as [|[n' j] l IH]; cbn; [discriminate|].
  destruct (Z.eqb_spec i j); [intros [= ->]; subst; now left | intros H; right; auto].
Qed.
Lemma rassoc_None i l : rassoc i l = None <-> ~ In i (map snd l).
Proof.
  induction l as [|[n' j] l IH]; cbn; [tauto|].
  destruct (Z.eqb_spec i j); [subst; split; [discriminate | intros H; exfalso; apply H; now left]|].
  rewrite IH. split; [intros H [E|E]; [congruence | tauto] | tauto].
Qed.
Lemma In_rassoc i n l : NoDup (map snd l) -> In (n, i) l -> rassoc i l = Some n.
Proof.
  induction l as [|[n' j] l IH]; cbn; [tauto|].
  intros ND [E|E]; inversion ND; subst.
  - inversion E; subst. now rewrite Z.eqb_refl.
  - destruct (Z.eqb_spec i j); [subst; exfalso; apply H1; change j with (snd (n, j)); now apply in_map | auto].
Qed.

Lemma flat_map_ext_in {A B} (f g : A -> list B) l :
  (forall x, In x l -> f x = g x) -> flat_map f l = flat_map g l.
Proof. induction l; cbn; intros H; [reflexivity|]. rewrite H, IHl; auto. Qed.
Lemma flat_map_filter_skip {A B} (f : A -> list B) (p : A -> bool) l :
  (forall x, p x = false -> f x = []) -> flat_map f (filter p l) = flat_map f l.
Proof.
  intros H. induction l as [|x l IH]; cbn; [reflexivity|].
  destruct (p x) eqn:E; cbn; [now rewrite IH | now rewrite (H x E), IH].
Qed.

(** ** C07_hidden, the scan shape: a reader whose loop body is guarded by
    [if deleted[ds] || !included { continue }] is insensitive to every key of a deleted dataset,
    whatever the loop body does (the three scans of store.go have this shape). *)
Lemma pass_split dl sc i : pass dl sc i = if zmem i dl then false else pass [] sc i.
Proof. unfold pass. cbn. now destruct (zmem i dl). Qed.

Section Scan.
  Variables (S K : Type) (ds_of : K -> Z) (body : S -> K -> S).
  Definition guarded_scan (dl sc : list Z) (s0 : S) (keys : list K) : S :=
    fold_left (fun s k => if pass dl sc (ds_of k) then body s k else s) keys s0.
  Lemma scan_hidden dl sc keys : forall s0,
    guarded_scan dl sc s0 keys = guarded_scan [] sc s0 (filter (fun k => negb (zmem (ds_of k) dl)) keys).
  Proof.
    unfold guarded_scan. induction keys as [|k keys IH]; intros s0; cbn [fold_left filter]; [reflexivity|].
    rewrite (pass_split dl). destruct (zmem (ds_of k) dl) eqn:E; cbn [negb fold_left]; apply IH.
  Qed.
End Scan.

Lemma collect_hidden {A} dl sc (f : dstate -> list A) l :
  collect (pass dl sc) f l = collect (pass [] sc) f (filter (fun p => negb (zmem (fst p) dl)) l).
Proof.
  unfold collect. induction l as [|p l IH]; cbn [flat_map filter]; [reflexivity|].
  rewrite (pass_split dl). destruct (zmem (fst p) dl) eqn:E; cbn [negb flat_map app].
  - exact IH.
  - now rewrite IH.
Qed.

(** the model's cross-dataset reader is the shared reader of Model/Store.v on the erased store *)
Definition erase (dl : list Z) (st : store) : store :=
  {| s_ds := filter (fun p => negb (zmem (fst p) dl)) (s_ds st); s_clock := s_clock st |}.

Lemma entity_at_fold id at_ scope l : forall acc,
  fold_left (fun (acc : list (Z * content) * bool) (p : Z * dstate) =>
               if in_scope scope (fst p) then
                 match best_version id at_ (d_entries (snd p)) None with
                 | None => acc
                 | Some e => if c_del (en_c e) then (fst acc, true) else (fst acc ++ [(fst p, en_c e)], snd acc)
                 end
               else acc) l acc
  = (fst acc ++ filter (fun p => negb (c_del (snd p))) (collect (in_scope scope) (f_get id at_) l),
     snd acc || existsb (fun p => c_del (snd p)) (collect (in_scope scope) (f_get id at_) l)).
Proof.
  induction l as [|p l IH]; intros [ps hd]; cbn.
  - now rewrite app_nil_r, orb_false_r.
  - rewrite IH. unfold collect at 2 4. cbn [flat_map]. fold (collect (in_scope scope) (f_get id at_) l).
    destruct (in_scope scope (fst p)); cbn; [|reflexivity].
    unfold f_get. destruct (best_version id at_ (d_entries (snd p)) None) as [e|]; cbn; [|reflexivity].
    destruct (c_del (en_c e)); cbn.
    + now rewrite orb_true_r.
    + now rewrite <- app_assoc.
Qed.

Lemma get_raw_entity_at dl sc id at_ st :
  get_raw (pass dl sc) id at_ (s_ds st)
  = let '(parts, hd) := entity_at (erase dl st) id at_ sc in GOk parts hd.
Proof.
  unfold entity_at, get_raw. rewrite entity_at_fold. cbn [fst snd app orb erase s_ds].
  rewrite collect_hidden.
  assert (E : forall l, collect (pass [] sc) (f_get id at_) l = collect (in_scope sc) (f_get id at_) l).
  { intros l. unfold collect. apply flat_map_ext_in. intros x _. reflexivity. }
  now rewrite E.
Qed.

(** ** purge / gc *)
Lemma h_names_purge h : h_names (purge h) = h_names h. Proof. reflexivity. Qed.
Lemma h_del_purge h : h_del (purge h) = []. Proof. reflexivity. Qed.
Lemma h_data_purge h : h_data (purge h) = filter (fun p => negb (zmem (fst p) (h_del h))) (h_data h).
Proof. reflexivity. Qed.
Lemma h_data_gc h : h_data (gc h) = filter (fun p => negb (zmem (fst p) (h_del h))) (h_data h).
Proof. reflexivity. Qed.

Lemma assoc_filter_keep {V} (p : Z * V -> bool) k l :
  (forall v, p (k, v) = true) -> assoc k (filter p l) = assoc k l.
Proof.
  intros H. induction l as [|[k' v'] l IH]; cbn; [reflexivity|].
  destruct (p (k', v')) eqn:E; cbn.
  - destruct (Z.eqb k k'); [reflexivity | exact IH].
  - destruct (Z.eqb_spec k k'); [subst; rewrite H in E; discriminate | exact IH].
Qed.

(** live names never point at a deleted id *)
Definition names_live (h : hub) : Prop :=
  forall n i, assoc n (h_names h) = Some i -> zmem i (h_del h) = false.

Lemma get_ds_erase dl st i : zmem i dl = false -> get_ds (erase dl st) i = get_ds st i.
Proof.
  intros H. unfold get_ds, erase. cbn. rewrite assoc_filter_keep; [reflexivity|].
  intros v. cbn. now rewrite H.
Qed.

Lemma filter_filter_same {A} (p : A -> bool) l : filter p (filter p l) = filter p l.
Proof. induction l as [|x l IH]; cbn; [reflexivity|]. destruct (p x) eqn:E; cbn; [rewrite E|]; now rewrite IH. Qed.

(** C07_hidden: every answer is the answer on the state where the deleted datasets' keys do not exist
    and nothing is marked deleted.  Cross-dataset queries: for EVERY hub state. *)
Theorem hidden_cross h q :
  (match q with QChanges _ _ _ _ | QEntities _ _ _ => False | _ => True end) ->
  obs h q = obs (purge h) q.
Proof.
  destruct q; intros Hq; try contradiction; cbn [obs]; try reflexivity.
  - rewrite h_names_purge, h_del_purge, h_data_purge. change (h_now (purge h)) with (h_now h).
    unfold get_raw. rewrite collect_hidden. reflexivity.
  - rewrite h_names_purge, h_del_purge, h_data_purge. now rewrite collect_hidden.
Qed.

Theorem hidden_all h q : names_live h -> obs h q = obs (purge h) q.
Proof.
  intros NL. destruct q; try (apply hidden_cross; exact I); cbn [obs]; rewrite h_names_purge.
  - destruct (assoc n (h_names h)) as [i|] eqn:E; [|reflexivity].
    change (h_st (purge h)) with (erase (h_del h) (h_st h)). now rewrite get_ds_erase by eauto.
  - destruct (assoc n (h_names h)) as [i|] eqn:E; [|reflexivity].
    change (h_st (purge h)) with (erase (h_del h) (h_st h)). now rewrite get_ds_erase by eauto.
Qed.

Lemma purge_gc h : purge (gc h) = purge h.
Proof.
  unfold purge, gc, upd_mem, upd_st. cbn. f_equal. f_equal. apply filter_filter_same.
Qed.
Lemma names_live_gc h : names_live h -> names_live (gc h).
Proof. intros H. exact H. Qed.

(** C07_gc_noop (observables) *)
Theorem gc_invisible h q : names_live h -> obs (gc h) q = obs h q.
Proof.
  intros NL. rewrite (hidden_all (gc h)) by now apply names_live_gc.
  rewrite purge_gc. symmetry. now apply hidden_all.
Qed.
