(** Proofs about Model/DsManager.v, part 1: the deleted-dataset filter hides everything
    (every state, every variant), garbage collection is invisible, registry invariant over
    all histories (incl. crashes), fresh ids, rename, frame. *)
From Coq Require Import List ZArith Bool Lia.
From DH Require Import Model.Store Model.DsManager Proofs.StoreProofs.
Import ListNotations.
Open Scope Z_scope.

(** ** small facts *)
Lemma zmem_In x l : zmem x l = true <-> In x l.
Proof.
  unfold zmem. rewrite existsb_exists. split.
  - intros (y & Hy & E). apply Z.eqb_eq in E. subst. exact Hy.
  - intros H. exists x. split; [exact H | apply Z.eqb_refl].
Qed.
Lemma zmem_false x l : zmem x l = false <-> ~ In x l.
Proof. rewrite <- zmem_In. destruct (zmem x l); split; congruence. Qed.
Lemma zmem_app x l1 l2 : zmem x (l1 ++ l2) = zmem x l1 || zmem x l2.
Proof. unfold zmem. apply existsb_app. Qed.
Lemma zmem_nil x : zmem x [] = false.
Proof. reflexivity. Qed.

Lemma assoc_In {V} k (v : V) l : assoc k l = Some v -> In (k, v) l.
Proof.
  induction l as [|[k' v'] l IH]; cbn; [discriminate|].
  destruct (Z.eqb_spec k k'); [intros [= ->]; subst; now left | intros H; right; auto].
Qed.
Lemma assoc_None {V} k (l : list (Z * V)) : assoc k l = None <-> ~ In k (map fst l).
Proof.
  induction l as [|[k' v'] l IH]; cbn; [tauto|].
  destruct (Z.eqb_spec k k'); [subst; split; [discriminate | intros H; exfalso; apply H; now left]|].
  rewrite IH. split; [intros H [E|E]; [congruence | tauto] | tauto].
Qed.
Lemma In_assoc {V} k (v : V) l : NoDup (map fst l) -> In (k, v) l -> assoc k l = Some v.
Proof.
  induction l as [|[k' v'] l IH]; cbn; [tauto|].
  intros ND [E|E]; inversion ND; subst.
  - inversion E; subst. now rewrite Z.eqb_refl.
  - destruct (Z.eqb_spec k k'); [subst; exfalso; apply H1; change k' with (fst (k', v)); now apply in_map | auto].
Qed.
Lemma rassoc_In i n l : rassoc i l = Some n -> In (n, i) l.
Proof.
  induction l as [|[n' j] l IH]; cbn; [discriminate|].
  destruct (Z.eqb_spec i j); [intros [= ->]; subst; now left | intros H; right; auto].
Qed.
Lemma rassoc_None i l : rassoc i l = None <-> ~ In i (map snd l).
Proof.
  induction l as [|[n' j] l IH]; cbn; [tauto|].
  destruct (Z.eqb_spec i j); [subst; split; [discriminate | intros H; exfalso; apply H; now left]|].
  rewrite IH. split; [intros H [E|E]; [congruence | tauto] | tauto].
Qed.
Lemma In_rassoc i n l : NoDup (map snd l) -> In (n, i) l -> rassoc i l = Some n.
Proof.
  induction l as [|[n' j] l IH]; cbn; [tauto|].
  intros ND [E|E]; inversion ND; subst.
  - inversion E; subst. now rewrite Z.eqb_refl.
  - destruct (Z.eqb_spec i j); [subst; exfalso; apply H1; change j with (snd (n, j)); now apply in_map | auto].
Qed.

Lemma flat_map_ext_in {A B} (f g : A -> list B) l :
  (forall x, In x l -> f x = g x) -> flat_map f l = flat_map g l.
Proof. induction l; cbn; intros H; [reflexivity|]. rewrite H, IHl; auto. Qed.
Lemma flat_map_filter_skip {A B} (f : A -> list B) (p : A -> bool) l :
  (forall x, p x = false -> f x = []) -> flat_map f (filter p l) = flat_map f l.
Proof.
  intros H. induction l as [|x l IH]; cbn; [reflexivity|].
  destruct (p x) eqn:E; cbn; [now rewrite IH | now rewrite (H x E), IH].
Qed.

(** ** C07_hidden, the scan shape: a reader whose loop body is guarded by
    [if deleted[ds] || !included { continue }] is insensitive to every key of a deleted dataset,
    whatever the loop body does (the three scans of store.go have this shape). *)
Lemma pass_split dl sc i : pass dl sc i = if zmem i dl then false else pass [] sc i.
Proof. unfold pass. cbn. now destruct (zmem i dl). Qed.

Section Scan.
  Variables (S K : Type) (ds_of : K -> Z) (body : S -> K -> S).
  Definition guarded_scan (dl sc : list Z) (s0 : S) (keys : list K) : S :=
    fold_left (fun s k => if pass dl sc (ds_of k) then body s k else s) keys s0.
  Lemma scan_hidden dl sc keys : forall s0,
    guarded_scan dl sc s0 keys = guarded_scan [] sc s0 (filter (fun k => negb (zmem (ds_of k) dl)) keys).
  Proof.
    unfold guarded_scan. induction keys as [|k keys IH]; intros s0; cbn [fold_left filter]; [reflexivity|].
    rewrite (pass_split dl). destruct (zmem (ds_of k) dl) eqn:E; cbn [negb fold_left]; apply IH.
  Qed.
End Scan.

Lemma collect_hidden {A} dl sc (f : dstate -> list A) l :
  collect (pass dl sc) f l = collect (pass [] sc) f (filter (fun p => negb (zmem (fst p) dl)) l).
Proof.
  unfold collect. induction l as [|p l IH]; cbn [flat_map filter]; [reflexivity|].
  rewrite (pass_split dl). destruct (zmem (fst p) dl) eqn:E; cbn [negb flat_map app].
  - exact IH.
  - now rewrite IH.
Qed.

(** the model's cross-dataset reader is the shared reader of Model/Store.v on the erased store *)
Definition erase (dl : list Z) (st : store) : store :=
  {| s_ds := filter (fun p => negb (zmem (fst p) dl)) (s_ds st); s_clock := s_clock st |}.

Lemma collect_cons {K A} (ok : K -> bool) (f : dstate -> list A) p l :
  collect ok f (p :: l) = (if ok (fst p) then map (pair (fst p)) (f (snd p)) else []) ++ collect ok f l.
Proof. reflexivity. Qed.

Lemma entity_at_fold id at_ scope l : forall acc,
  fold_left (fun (acc : list (Z * content) * bool) (p : Z * dstate) =>
               if in_scope scope (fst p) then
                 match best_version id at_ (d_entries (snd p)) None with
                 | None => acc
                 | Some e => if c_del (en_c e) then (fst acc, true) else (fst acc ++ [(fst p, en_c e)], snd acc)
                 end
               else acc) l acc
  = (fst acc ++ filter (fun p => negb (c_del (snd p))) (collect (in_scope scope) (f_get id at_) l),
     snd acc || existsb (fun p => c_del (snd p)) (collect (in_scope scope) (f_get id at_) l)).
Proof.
  induction l as [|p l IH]; intros [ps hd].
  - cbn. now rewrite app_nil_r, orb_false_r.
  - cbn [fold_left]. rewrite IH. rewrite (collect_cons _ _ p l), filter_app, existsb_app.
    destruct (in_scope scope (fst p)); cbn [fst snd]; [|reflexivity].
    unfold f_get. destruct (best_version id at_ (d_entries (snd p)) None) as [e|]; cbn [map filter existsb app fst snd]; [|reflexivity].
    destruct (c_del (en_c e)); cbn [negb orb app fst snd].
    + now rewrite orb_true_r.
    + now rewrite <- app_assoc.
Qed.

Lemma get_raw_entity_at dl sc id at_ st :
  get_raw (pass dl sc) id at_ (s_ds st)
  = let '(parts, hd) := entity_at (erase dl st) id at_ sc in GOk parts hd.
Proof.
  unfold entity_at, get_raw. rewrite entity_at_fold. cbn [fst snd app orb erase s_ds].
  rewrite collect_hidden.
  assert (E : forall l, collect (pass [] sc) (f_get id at_) l = collect (in_scope sc) (f_get id at_) l).
  { intros l. unfold collect. apply flat_map_ext_in. intros x _. reflexivity. }
  now rewrite E.
Qed.

(** ** purge / gc *)
Lemma h_names_purge h : h_names (purge h) = h_names h. Proof. reflexivity. Qed.
Lemma h_del_purge h : h_del (purge h) = []. Proof. reflexivity. Qed.
Lemma h_data_purge h : h_data (purge h) = filter (fun p => negb (zmem (fst p) (h_del h))) (h_data h).
Proof. reflexivity. Qed.
Lemma h_data_gc h : h_data (gc h) = filter (fun p => negb (zmem (fst p) (h_del h))) (h_data h).
Proof. reflexivity. Qed.

Lemma assoc_filter_keep {V} (p : Z * V -> bool) k l :
  (forall v, p (k, v) = true) -> assoc k (filter p l) = assoc k l.
Proof.
  intros H. induction l as [|[k' v'] l IH]; cbn; [reflexivity|].
  destruct (p (k', v')) eqn:E; cbn.
  - destruct (Z.eqb k k'); [reflexivity | exact IH].
  - destruct (Z.eqb_spec k k'); [subst; rewrite H in E; discriminate | exact IH].
Qed.

(** live names never point at a deleted id *)
Definition names_live (h : hub) : Prop :=
  forall n i, assoc n (h_names h) = Some i -> zmem i (h_del h) = false.

Lemma get_ds_erase dl st i : zmem i dl = false -> get_ds (erase dl st) i = get_ds st i.
Proof.
  intros H. unfold get_ds, erase. cbn. rewrite assoc_filter_keep; [reflexivity|].
  intros v. cbn. now rewrite H.
Qed.

Lemma filter_filter_same {A} (p : A -> bool) l : filter p (filter p l) = filter p l.
Proof. induction l as [|x l IH]; cbn; [reflexivity|]. destruct (p x) eqn:E; cbn; [rewrite E|]; now rewrite IH. Qed.

(** C07_hidden: every answer is the answer on the state where the deleted datasets' keys do not exist
    and nothing is marked deleted.  Cross-dataset queries: for EVERY hub state. *)
Theorem hidden_cross h q :
  (match q with QChanges _ _ _ _ | QEntities _ _ _ => False | _ => True end) ->
  obs h q = obs (purge h) q.
Proof.
  destruct q; intros Hq; try contradiction; cbn [obs]; try reflexivity.
  - rewrite h_names_purge, h_del_purge, h_data_purge. change (h_now (purge h)) with (h_now h).
    unfold get_raw. rewrite collect_hidden. reflexivity.
  - rewrite h_names_purge, h_del_purge, h_data_purge. now rewrite collect_hidden.
Qed.

Theorem hidden_all h q : names_live h -> obs h q = obs (purge h) q.
Proof.
  intros NL. destruct q; try (apply hidden_cross; exact I); cbn [obs]; rewrite h_names_purge.
  - destruct (assoc n (h_names h)) as [i|] eqn:E; [|reflexivity].
    change (h_st (purge h)) with (erase (h_del h) (h_st h)). now rewrite get_ds_erase by eauto.
  - destruct (assoc n (h_names h)) as [i|] eqn:E; [|reflexivity].
    change (h_st (purge h)) with (erase (h_del h) (h_st h)). now rewrite get_ds_erase by eauto.
Qed.

Lemma purge_gc h : purge (gc h) = purge h.
Proof.
  unfold purge, gc, upd_mem, upd_st. cbn. f_equal. f_equal. apply filter_filter_same.
Qed.
Lemma names_live_gc h : names_live h -> names_live (gc h).
Proof. intros H. exact H. Qed.

(** C07_gc_noop (observables) *)
Theorem gc_invisible h q : names_live h -> obs (gc h) q = obs h q.
Proof.
  intros NL. rewrite (hidden_all (gc h)) by now apply names_live_gc.
  rewrite purge_gc. symmetry. now apply hidden_all.
Qed.

(** ** The registry invariant, for every variant and every history (writes, manager operations,
    garbage collection, restarts, crashes at every hook point). *)
Fixpoint incr (lo : Z) (l : list Z) : Prop :=
  match l with [] => True | x :: l' => lo < x /\ incr x l' end.

Record rinv (st : store) (r : registry) : Prop := {
  ri_sorted : incr 0 (map fst (s_ds st));                                   (* dataset ids of the data, strictly increasing *)
  ri_bound : Forall (fun i => i < r_next r) (map fst (s_ds st));            (* every id in use is below the next id *)
  ri_names : NoDup (map fst (r_names r));
  ri_ids : NoDup (map snd (r_names r));
  ri_idb : Forall (fun i => 0 < i < r_next r) (map snd (r_names r));
  ri_live : Forall (fun i => zmem i (r_deleted r) = false) (map snd (r_names r));
  ri_data : Forall (fun i => In i (map fst (s_ds st))) (map snd (r_names r));
  ri_delb : Forall (fun i => i < r_next r) (r_deleted r);
  ri_nextpos : 0 < r_next r
}.
Definition dinvh (h : hub) : Prop := rinv (h_st h) (h_disk h).
Definition hinv (h : hub) : Prop := h_mem h = h_disk h /\ dinvh h.

Lemma incr_lt lo l : incr lo l -> Forall (fun x => lo < x) l.
Proof.
  revert lo. induction l as [|x l IH]; intros lo H; constructor; destruct H as [H1 H2]; [exact H1|].
  eapply Forall_impl; [|apply IH; exact H2]. cbn. intros; lia.
Qed.
Lemma incr_NoDup lo l : incr lo l -> NoDup l.
Proof.
  revert lo. induction l as [|x l IH]; intros lo H; constructor; destruct H as [H1 H2].
  - intros Hin. apply incr_lt in H2. rewrite Forall_forall in H2. specialize (H2 _ Hin). lia.
  - eapply IH; eauto.
Qed.
Lemma incr_snoc lo l x : incr lo l -> Forall (fun y => y < x) l -> lo < x -> incr lo (l ++ [x]).
Proof.
  revert lo. induction l as [|y l IH]; intros lo H F L; cbn; [tauto|].
  destruct H as [H1 H2]. inversion F; subst. split; [exact H1 | apply IH; auto].
Qed.
Lemma incr_filter lo (p : Z -> bool) l : incr lo l -> incr lo (filter p l).
Proof.
  revert lo. induction l as [|y l IH]; intros lo H; cbn; [exact I|]. destruct H as [H1 H2].
  destruct (p y); cbn; [split; auto|]. apply IH.
  clear -H1 H2. destruct l; cbn in *; [exact I | destruct H2; split; [lia | assumption]].
Qed.

Lemma set_assoc_keys {V} i (v : V) l lo :
  incr lo (map fst l) -> In i (map fst l) -> map fst (set_assoc i v l) = map fst l.
Proof.
  revert lo. induction l as [|[k w] l IH]; intros lo H Hin; cbn in *; [tauto|].
  destruct H as [H1 H2]. destruct (Z.eqb_spec i k); [subst; reflexivity|].
  destruct Hin as [E|Hin]; [congruence|].
  destruct (Z.ltb_spec i k).
  - apply incr_lt in H2. rewrite Forall_forall in H2. specialize (H2 _ Hin). lia.
  - cbn. f_equal. eapply IH; eauto.
Qed.
Lemma map_fst_filter_keys {V} (p : Z -> bool) (l : list (Z * V)) :
  map fst (filter (fun q => p (fst q)) l) = filter p (map fst l).
Proof. induction l as [|[k w] l IH]; cbn; [reflexivity|]. destruct (p k); cbn; now rewrite IH. Qed.

Lemma map_fst_remove n (l : list (name * Z)) : forall x, In x (remove_name n l) -> In x l /\ fst x <> n.
Proof.
  intros x H. unfold remove_name in H. apply filter_In in H. destruct H as [H1 H2]. split; [exact H1|].
  apply negb_true_iff in H2. now apply Z.eqb_neq in H2.
Qed.
Lemma NoDup_map_filter {A B} (f : A -> B) (p : A -> bool) l : NoDup (map f l) -> NoDup (map f (filter p l)).
Proof.
  induction l as [|x l IH]; cbn; intros H; [constructor|]. inversion H; subst.
  destruct (p x); cbn; [constructor|]; auto.
  intros Hin. apply H2. apply in_map_iff in Hin. destruct Hin as (y & E & Hy). apply filter_In in Hy.
  apply in_map_iff. exists y. tauto.
Qed.
Lemma Forall_map_filter {A B} (f : A -> B) (p : A -> bool) (P : B -> Prop) l :
  Forall P (map f l) -> Forall P (map f (filter p l)).
Proof.
  induction l as [|x l IH]; cbn; intros H; [constructor|]. inversion H; subst.
  destruct (p x); cbn; [constructor|]; auto.
Qed.
Lemma map_snd_relabel o n l : map snd (relabel o n l) = map snd l.
Proof. unfold relabel. induction l as [|[m j] l IH]; cbn; [reflexivity|]. rewrite IH. now destruct (Z.eqb m o). Qed.
Lemma map_fst_relabel o n l :
  map fst (relabel o n l) = map (fun m => if Z.eqb m o then n else m) (map fst l).
Proof. unfold relabel. induction l as [|[m j] l IH]; cbn; [reflexivity|]. rewrite IH. now destruct (Z.eqb m o). Qed.
Lemma NoDup_relabel o n l : NoDup (map fst l) -> ~ In n (map fst l) -> NoDup (map fst (relabel o n l)).
Proof.
  rewrite map_fst_relabel. generalize (map fst l) as ks. induction ks as [|k ks IH]; cbn; intros ND Hn; [constructor|].
  inversion ND; subst. constructor; [|apply IH; tauto].
  intros Hin. apply in_map_iff in Hin. destruct Hin as (y & E & Hy).
  destruct (Z.eqb_spec k o), (Z.eqb_spec y o); subst; try tauto; try congruence.
Qed.

Lemma assoc_app_some {V} k (l l' : list (Z * V)) v : assoc k l = Some v -> assoc k (l ++ l') = Some v.
Proof. induction l as [|[k' w] l IH]; cbn; [discriminate|]. destruct (Z.eqb k k'); auto. Qed.
Lemma assoc_app_none {V} k (l l' : list (Z * V)) : assoc k l = None -> assoc k (l ++ l') = assoc k l'.
Proof. induction l as [|[k' w] l IH]; cbn; [reflexivity|]. destruct (Z.eqb k k'); [discriminate | auto]. Qed.
Lemma assoc_remove_other m n l : m <> n -> assoc m (remove_name n l) = assoc m l.
Proof.
  intros H. unfold remove_name. induction l as [|[k w] l IH]; cbn; [reflexivity|].
  destruct (Z.eqb_spec k n); cbn.
  - subst. destruct (Z.eqb_spec m n); [congruence | exact IH].
  - destruct (Z.eqb m k); [reflexivity | exact IH].
Qed.
Lemma assoc_remove_same n l : assoc n (remove_name n l) = None.
Proof.
  apply assoc_None. intros H. apply in_map_iff in H. destruct H as (x & E & Hx).
  apply map_fst_remove in Hx. tauto.
Qed.
Lemma assoc_relabel_other m o n l : m <> o -> m <> n -> assoc m (relabel o n l) = assoc m l.
Proof.
  intros H1 H2. unfold relabel. induction l as [|[k w] l IH]; cbn; [reflexivity|].
  destruct (Z.eqb_spec k o); cbn.
  - subst. destruct (Z.eqb_spec m n), (Z.eqb_spec m o); try congruence.
  - destruct (Z.eqb m k); [reflexivity | exact IH].
Qed.
Lemma assoc_relabel_new o n l i : assoc o l = Some i -> assoc n l = None -> assoc n (relabel o n l) = Some i.
Proof.
  unfold relabel. induction l as [|[k w] l IH]; cbn; [discriminate|].
  destruct (Z.eqb_spec o k); intros H1 H2.
  - inversion H1; subst. rewrite Z.eqb_refl. cbn. now rewrite Z.eqb_refl.
  - destruct (Z.eqb_spec n k); [discriminate|]. destruct (Z.eqb_spec k o); [congruence|]. cbn.
    destruct (Z.eqb_spec n k); [congruence | auto].
Qed.
Lemma assoc_relabel_old o n l : o <> n -> assoc n l = None -> assoc o (relabel o n l) = None.
Proof.
  intros Hon H. apply assoc_None. rewrite map_fst_relabel. intros Hin. apply in_map_iff in Hin.
  destruct Hin as (y & E & Hy). destruct (Z.eqb_spec y o); congruence.
Qed.

Lemma NoDup_app_snoc {A} (l : list A) x : NoDup l -> ~ In x l -> NoDup (l ++ [x]).
Proof.
  induction l as [|y l IH]; cbn; intros ND Hx; [constructor; [tauto | constructor]|].
  inversion ND; subst. constructor; [|apply IH; tauto].
  intros Hin. apply in_app_or in Hin. destruct Hin as [Hin|[E|[]]]; [tauto | subst; tauto].
Qed.

Ltac inv_rinv H := destruct H as [Hsorted Hbound Hnames Hids Hidb Hlive Hdata Hdelb Hnextpos].

(** step lemmas on (store, persisted registry) *)
Lemma rinv_next st r : rinv st r -> rinv st (r_set_next (r_next r + 1) r).
Proof.
  intros H. inv_rinv H. constructor; cbn; auto.
  - eapply Forall_impl; [|exact Hbound]; cbn; intros; lia.
  - eapply Forall_impl; [|exact Hidb]; cbn; intros; lia.
  - eapply Forall_impl; [|exact Hdelb]; cbn; intros; lia.
  - lia.
Qed.

Lemma rinv_create st r n i :
  rinv st r -> assoc n (r_names r) = None -> i < r_next r -> 0 < i ->
  Forall (fun j => j < i) (map fst (s_ds st)) -> Forall (fun j => j < i) (map snd (r_names r)) ->
  Forall (fun j => j < i) (r_deleted r) ->
  rinv {| s_ds := s_ds st ++ [(i, dstate0)]; s_clock := s_clock st |} (r_set_names (fun l => l ++ [(n, i)]) r).
Proof.
  intros H Hn Hi Hi0 F1 F2 F3. inv_rinv H. constructor; cbn.
  - rewrite map_app. cbn. apply incr_snoc; auto.
  - rewrite map_app. apply Forall_app. split; [exact Hbound | constructor; [exact Hi | constructor]].
  - rewrite map_app. cbn. apply NoDup_app_snoc; [exact Hnames|]. now apply assoc_None.
  - rewrite map_app. cbn. apply NoDup_app_snoc; [exact Hids|].
    intros Hin. rewrite Forall_forall in F2. specialize (F2 _ Hin). lia.
  - rewrite map_app. apply Forall_app. split; [exact Hidb | constructor; [cbn; lia | constructor]].
  - rewrite map_app. apply Forall_app. split; [exact Hlive | constructor; [|constructor]].
    apply zmem_false. cbn. intros Hin. rewrite Forall_forall in F3. specialize (F3 _ Hin). lia.
  - rewrite !map_app. apply Forall_app. split.
    + eapply Forall_impl; [|exact Hdata]. cbn. intros a Ha. apply in_or_app. now left.
    + constructor; [|constructor]. apply in_or_app. right. now left.
  - exact Hdelb.
  - exact Hnextpos.
Qed.

Lemma names_id_of st r n i : rinv st r -> assoc n (r_names r) = Some i ->
  0 < i < r_next r /\ zmem i (r_deleted r) = false /\ In i (map fst (s_ds st)).
Proof.
  intros H Hn. inv_rinv H. apply assoc_In in Hn.
  assert (Hin : In i (map snd (r_names r))) by (change i with (snd (n, i)); now apply in_map).
  rewrite Forall_forall in Hidb, Hlive, Hdata. auto.
Qed.
Lemma other_id st r n i m j : rinv st r -> assoc n (r_names r) = Some i -> assoc m (r_names r) = Some j -> m <> n -> j <> i.
Proof.
  intros H Hn Hm Hmn E. subst j. inv_rinv H. apply assoc_In in Hn, Hm.
  apply (In_rassoc _ _ _ Hids) in Hn. apply (In_rassoc _ _ _ Hids) in Hm. congruence.
Qed.

(** removing a record, with the deleted set extended by its id or not (yet) *)
Lemma rinv_remove st r n i (add : bool) :
  rinv st r -> assoc n (r_names r) = Some i ->
  rinv st (let r1 := r_set_names (remove_name n) r in if add then r_add_deleted i r1 else r1).
Proof.
  intros H Hn. pose proof (names_id_of _ _ _ _ H Hn) as (Hb & _ & _). pose proof H as H0. inv_rinv H.
  assert (Hother : forall j, In j (map snd (remove_name n (r_names r))) -> j <> i).
  { intros j Hj. apply in_map_iff in Hj. destruct Hj as ([m j'] & E & Hx). cbn in E. subst j'.
    apply map_fst_remove in Hx. destruct Hx as [Hx Hne]. cbn in Hne.
    eapply other_id; eauto. apply In_assoc; auto. }
  assert (R : rinv st (r_set_names (remove_name n) r)).
  { constructor; cbn; auto.
    - now apply NoDup_map_filter.
    - now apply NoDup_map_filter.
    - now apply Forall_map_filter.
    - now apply Forall_map_filter.
    - now apply Forall_map_filter. }
  destruct add; [|exact R]. destruct R as [R1 R2 R3 R4 R5 R6 R7 R8 R9]. cbn in *. constructor; cbn; auto.
  - rewrite Forall_forall in *. intros j Hj. rewrite existsb_app, (R6 _ Hj). cbn.
    rewrite orb_false_r. apply Z.eqb_neq. auto.
  - apply Forall_app. split; [assumption | constructor; [lia | constructor]].
Qed.
Lemma rinv_add_deleted st r i :
  rinv st r -> ~ In i (map snd (r_names r)) -> i < r_next r -> rinv st (r_set_deleted (r_deleted r ++ [i]) r).
Proof.
  intros H Hi Hb. inv_rinv H. constructor; cbn; auto.
  - rewrite Forall_forall in *. intros j Hj. specialize (Hlive _ Hj). unfold zmem in *.
    rewrite existsb_app, Hlive. cbn.
    rewrite orb_false_r. apply Z.eqb_neq. intros E; subst; tauto.
  - apply Forall_app. split; [assumption | constructor; [lia | constructor]].
Qed.
Lemma rinv_relabel st r o n i :
  rinv st r -> assoc o (r_names r) = Some i -> assoc n (r_names r) = None -> rinv st (r_set_names (relabel o n) r).
Proof.
  intros H Ho Hn. inv_rinv H. constructor; cbn; auto; try (rewrite map_snd_relabel; assumption).
  apply NoDup_relabel; [assumption | now apply assoc_None].
Qed.
Lemma rinv_gc st r dl :
  (forall i, zmem i dl = true -> zmem i (r_deleted r) = true) -> rinv st r ->
  rinv {| s_ds := filter (fun p => negb (zmem (fst p) dl)) (s_ds st); s_clock := s_clock st |} r.
Proof.
  intros Hsub H. inv_rinv H. constructor; cbn; auto.
  - rewrite (map_fst_filter_keys (fun i => negb (zmem i dl))). now apply incr_filter.
  - rewrite (map_fst_filter_keys (fun i => negb (zmem i dl))). apply Forall_forall. intros x Hx.
    apply filter_In in Hx. rewrite Forall_forall in Hbound. apply Hbound. tauto.
  - rewrite (map_fst_filter_keys (fun i => negb (zmem i dl))). rewrite Forall_forall in *. intros j Hj.
    apply filter_In. split; [auto|]. specialize (Hlive _ Hj). destruct (zmem j dl) eqn:E; [|reflexivity].
    apply Hsub in E. congruence.
Qed.
Lemma rinv_write st r ef dm i ents :
  rinv st r -> In i (map fst (s_ds st)) -> rinv (apply_wop ef dm st (WBatch i ents)) r.
Proof.
  intros H Hi. inv_rinv H.
  assert (K : map fst (s_ds (apply_wop ef dm st (WBatch i ents))) = map fst (s_ds st)).
  { cbn. eapply set_assoc_keys; eauto. }
  constructor; try rewrite K; auto.
Qed.

(** hub level *)
Lemma run_steps_prefix3 (a b c : hub -> hub) k h :
  let r := run_steps (firstn k [a; b; c]) h in r = h \/ r = a h \/ r = b (a h) \/ r = c (b (a h)).
Proof. destruct k as [|[|[|k]]]; cbn; auto. destruct k; cbn; auto. Qed.
Lemma run_steps_prefix2 (a b : hub -> hub) k h :
  let r := run_steps (firstn k [a; b]) h in r = h \/ r = a h \/ r = b (a h).
Proof. destruct k as [|[|k]]; cbn; auto. destruct k; cbn; auto. Qed.
Lemma run_steps_prefix1 (a : hub -> hub) k h :
  let r := run_steps (firstn k [a]) h in r = h \/ r = a h.
Proof. destruct k as [|k]; cbn; auto. destruct k; cbn; auto. Qed.
Lemma run_steps_prefix0 k h : run_steps (firstn k []) h = h.
Proof. destruct k; reflexivity. Qed.

Lemma has_name_assoc {V} n (l : list (name * V)) : has_name n l = false <-> assoc n l = None.
Proof. unfold has_name. destruct (assoc n l); split; congruence. Qed.

(** every prefix of the steps of a manager operation keeps the persisted state consistent, and the
    complete operation leaves the in-memory registry equal to the persisted one *)
Lemma plan_inv v m h : hinv h ->
  (forall k, dinvh (run_steps (firstn k (fst (plan v m h))) h)) /\ hinv (run_steps (fst (plan v m h)) h).
Proof.
  intros [Hs Hd]. destruct h as [st meta mem disk]. cbn in Hs. subst mem. unfold dinvh in Hd. cbn in Hd.
  assert (Hh : hinv {| h_st := st; h_meta := meta; h_mem := disk; h_disk := disk |}) by (split; [reflexivity | exact Hd]).
  destruct m as [n | n | o n]; cbn [plan h_mem h_meta r_names].
  - (* create *)
    destruct (has_name n (r_names disk)) eqn:En; cbn [fst].
    { split; [intros k; rewrite run_steps_prefix0; exact Hd | exact Hh]. }
    apply has_name_assoc in En.
    pose proof Hd as Hd0. inv_rinv Hd0.
    assert (R1 : rinv st (r_set_next (r_next disk + 1) disk)) by now apply rinv_next.
    assert (R2 : rinv {| s_ds := s_ds st ++ [(r_next disk, dstate0)]; s_clock := s_clock st |}
                      (r_set_names (fun l => l ++ [(n, r_next disk)]) (r_set_next (r_next disk + 1) disk))).
    { apply rinv_create; cbn; auto; try lia.
      eapply Forall_impl; [|exact Hidb]. cbn. intros; lia. }
    split.
    + intros k. pose proof (run_steps_prefix3 create1 (create2 n (r_next disk)) (create3 n) k
                              {| h_st := st; h_meta := meta; h_mem := disk; h_disk := disk |}) as P.
      cbv zeta in P. destruct P as [P|[P|[P|P]]]; rewrite P; unfold dinvh; cbn; assumption.
    + split; [reflexivity | unfold dinvh; cbn; exact R2].
  - (* delete *)
    destruct (Z.eqb n core); cbn [fst].
    { split; [intros k; rewrite run_steps_prefix0; exact Hd | exact Hh]. }
    destruct (assoc n (r_names disk)) as [i|] eqn:En; cbn [fst].
    2:{ split; [intros k; rewrite run_steps_prefix0; exact Hd | exact Hh]. }
    pose proof (rinv_remove st disk n i false Hd En) as Ra.
    pose proof (rinv_remove st disk n i true Hd En) as Rb. cbv zeta in Ra, Rb. cbn [andb] in Ra, Rb.
    destruct (assoc n meta) as [b|]; cbn [fst].
    + split.
      * intros k. pose proof (run_steps_prefix3 (delete1 (v_del_atomic v) n i) (delete2 (v_del_atomic v) i) (delete3 n) k
                              {| h_st := st; h_meta := meta; h_mem := disk; h_disk := disk |}) as P.
        cbv zeta in P. destruct (v_del_atomic v); destruct P as [P|[P|[P|P]]]; rewrite P; unfold dinvh; cbn; assumption.
      * destruct (v_del_atomic v); (split; [reflexivity | unfold dinvh; cbn; exact Rb]).
    + split.
      * intros k. pose proof (run_steps_prefix2 (delete1 (v_del_atomic v) n i) (delete2 (v_del_atomic v) i) k
                              {| h_st := st; h_meta := meta; h_mem := disk; h_disk := disk |}) as P.
        cbv zeta in P. destruct (v_del_atomic v); destruct P as [P|[P|P]]; rewrite P; unfold dinvh; cbn; assumption.
      * destruct (v_del_atomic v); (split; [reflexivity | unfold dinvh; cbn; exact Rb]).
  - (* rename *)
    destruct (Z.eqb o core); cbn [fst].
    { split; [intros k; rewrite run_steps_prefix0; exact Hd | exact Hh]. }
    destruct (assoc o (r_names disk)) as [i|] eqn:Eo; cbn [fst].
    2:{ split; [intros k; rewrite run_steps_prefix0; exact Hd | exact Hh]. }
    destruct (Z.eqb n o); cbn [fst].
    { split; [intros k; rewrite run_steps_prefix0; exact Hd | exact Hh]. }
    destruct (has_name n (r_names disk)) eqn:En; cbn [fst].
    { split; [intros k; rewrite run_steps_prefix0; exact Hd | exact Hh]. }
    apply has_name_assoc in En.
    pose proof (rinv_relabel st disk o n i Hd Eo En) as R.
    destruct (assoc o meta) as [b|]; cbn [fst].
    + split.
      * intros k. pose proof (run_steps_prefix3 (rename1 o n) (rename2 o) (rename3 n) k
                              {| h_st := st; h_meta := meta; h_mem := disk; h_disk := disk |}) as P.
        cbv zeta in P. destruct P as [P|[P|[P|P]]]; rewrite P; unfold dinvh; cbn; assumption.
      * split; [reflexivity | unfold dinvh; cbn; exact R].
    + split.
      * intros k. pose proof (run_steps_prefix1 (rename1 o n) k
                              {| h_st := st; h_meta := meta; h_mem := disk; h_disk := disk |}) as P.
        cbv zeta in P. destruct P as [P|P]; rewrite P; unfold dinvh; cbn; assumption.
      * split; [reflexivity | unfold dinvh; cbn; exact R].
Qed.

Lemma restart_hinv v h : dinvh h -> hinv (restart v h).
Proof.
  intros H. unfold restart. destruct (v_reconcile v); (split; [reflexivity | exact H]).
Qed.

Lemma hinv_names_live h : hinv h -> names_live h.
Proof.
  intros [Hs Hd] n i Hn. unfold h_names in Hn. unfold h_del. rewrite Hs in *.
  now destruct (names_id_of _ _ _ _ Hd Hn) as (_ & ? & _).
Qed.

Theorem hinv_step v h o : hinv h -> hinv (step v h o).
Proof.
  intros H. destruct o as [n ents | m | | | m k]; cbn [step].
  - unfold write. destruct (assoc n (r_names (h_mem h))) as [i|] eqn:En; cbn [fst]; [|exact H].
    destruct H as [Hs Hd]. split; [exact Hs|]. unfold dinvh in *. cbn.
    apply rinv_write; [exact Hd|]. rewrite Hs in En. now destruct (names_id_of _ _ _ _ Hd En) as (_ & _ & ?).
  - unfold run_mop. destruct (plan v m h) as [ss oc] eqn:E. cbn [fst].
    pose proof (plan_inv v m h H) as [_ P]. now rewrite E in P.
  - destruct H as [Hs Hd]. split; [exact Hs|]. unfold dinvh in *. cbn.
    apply rinv_gc; [|exact Hd]. rewrite Hs. auto.
  - apply restart_hinv. apply H.
  - unfold crash_mop. apply restart_hinv. apply plan_inv. exact H.
Qed.

Lemma hinv0 : hinv hub0.
Proof.
  split; [reflexivity|]. unfold dinvh. cbn. constructor; cbn; repeat constructor; auto; try lia; intros [|[]]; discriminate.
Qed.
Theorem hinv_run v ops : forall h, hinv h -> hinv (run v ops h).
Proof. induction ops as [|o ops IH]; intros h H; cbn; [exact H | apply IH; now apply hinv_step]. Qed.
(** ** fresh ids *)
Lemma next_mono_step v h o : hinv h -> r_next (h_mem h) <= r_next (h_mem (step v h o)).
Proof.
  intros [Hs Hd]. destruct h as [st meta mem disk]. cbn in Hs. subst mem.
  destruct o as [n ents | m | | | m k]; cbn [step].
  - unfold write. cbn. destruct (assoc n (r_names disk)); cbn; lia.
  - unfold run_mop. destruct m as [n|n|o n]; cbn [plan h_mem h_meta r_names].
    + destruct (has_name n (r_names disk)); cbn; lia.
    + destruct (Z.eqb n core); [cbn; lia|]. destruct (assoc n (r_names disk)); [|cbn; lia].
      destruct (assoc n meta); destruct (v_del_atomic v); cbn; lia.
    + destruct (Z.eqb o core); [cbn; lia|]. destruct (assoc o (r_names disk)); [|cbn; lia].
      destruct (Z.eqb n o); [cbn; lia|]. destruct (has_name n (r_names disk)); [cbn; lia|].
      destruct (assoc o meta); cbn; lia.
  - cbn. lia.
  - unfold restart. destruct (v_reconcile v); cbn; lia.
  - unfold crash_mop, restart. 
    assert (G : forall h', r_next (h_mem (if v_reconcile v then upd_meta (reconcile (map fst (r_names (h_disk h')))) {| h_st := h_st h'; h_meta := h_meta h'; h_mem := h_disk h'; h_disk := h_disk h' |} else {| h_st := h_st h'; h_meta := h_meta h'; h_mem := h_disk h'; h_disk := h_disk h' |})) = r_next (h_disk h')).
    { intros h'. destruct (v_reconcile v); reflexivity. }
    rewrite G. clear G.
    destruct m as [n|n|o n]; cbn [plan h_mem h_meta r_names].
    + destruct (has_name n (r_names disk)); cbn [fst]; [rewrite run_steps_prefix0; cbn; lia|].
      destruct (run_steps_prefix3 create1 (create2 n (r_next disk)) (create3 n) k {| h_st := st; h_meta := meta; h_mem := disk; h_disk := disk |}) as [P|[P|[P|P]]]; rewrite P; cbn; lia.
    + destruct (Z.eqb n core); cbn [fst]; [rewrite run_steps_prefix0; cbn; lia|].
      destruct (assoc n (r_names disk)) as [i|]; cbn [fst]; [|rewrite run_steps_prefix0; cbn; lia].
      destruct (assoc n meta); cbn [fst].
      * destruct (run_steps_prefix3 (delete1 (v_del_atomic v) n i) (delete2 (v_del_atomic v) i) (delete3 n) k {| h_st := st; h_meta := meta; h_mem := disk; h_disk := disk |}) as [P|[P|[P|P]]]; rewrite P; destruct (v_del_atomic v); cbn; lia.
      * destruct (run_steps_prefix2 (delete1 (v_del_atomic v) n i) (delete2 (v_del_atomic v) i) k {| h_st := st; h_meta := meta; h_mem := disk; h_disk := disk |}) as [P|[P|P]]; rewrite P; destruct (v_del_atomic v); cbn; lia.
    + destruct (Z.eqb o core); cbn [fst]; [rewrite run_steps_prefix0; cbn; lia|].
      destruct (assoc o (r_names disk)) as [i|]; cbn [fst]; [|rewrite run_steps_prefix0; cbn; lia].
      destruct (Z.eqb n o); cbn [fst]; [rewrite run_steps_prefix0; cbn; lia|].
      destruct (has_name n (r_names disk)); cbn [fst]; [rewrite run_steps_prefix0; cbn; lia|].
      destruct (assoc o meta); cbn [fst].
      * destruct (run_steps_prefix3 (rename1 o n) (rename2 o) (rename3 n) k {| h_st := st; h_meta := meta; h_mem := disk; h_disk := disk |}) as [P|[P|[P|P]]]; rewrite P; cbn; lia.
      * destruct (run_steps_prefix1 (rename1 o n) k {| h_st := st; h_meta := meta; h_mem := disk; h_disk := disk |}) as [P|P]; rewrite P; cbn; lia.
Qed.

Lemma next_mono_run v ops : forall h, hinv h -> r_next (h_mem h) <= r_next (h_mem (run v ops h)).
Proof.
  induction ops as [|o ops IH]; intros h H; [cbn; lia|].
  change (run v (o :: ops) h) with (run v ops (step v h o)).
  pose proof (next_mono_step v h o H). pose proof (IH _ (hinv_step v h o H)). lia.
Qed.

(** creating a name that does not exist: the dataset gets the id [next], which is above every id that
    occurs in any key, in any record and in the deleted set; the dataset is empty *)
Lemma collect_none {K A} (ok : K -> bool) (f : dstate -> list A) l :
  (forall p, In p l -> ok (fst p) = true -> f (snd p) = []) -> collect ok f l = [].
Proof.
  induction l as [|p l IH]; intros H; [reflexivity|]. rewrite collect_cons, IH by (intros; apply H; [now right | assumption]).
  destruct (ok (fst p)) eqn:E; [|reflexivity]. rewrite (H p) by (auto; now left). reflexivity.
Qed.

Lemma f_get_empty id at_ : f_get id at_ dstate0 = []. Proof. reflexivity. Qed.
Lemma f_out_empty s p : f_out s p dstate0 = []. Proof. reflexivity. Qed.
Lemma f_in_empty s p : f_in s p dstate0 = []. Proof. reflexivity. Qed.

Theorem fresh_create v h n :
  hinv h -> assoc n (h_names h) = None ->
  let i := r_next (h_mem h) in
  let h' := fst (run_mop v (MCreate n) h) in
  assoc n (h_names h') = Some i
  /\ Forall (fun j => j < i) (map fst (h_data h))
  /\ Forall (fun j => j < i) (map snd (h_names h))
  /\ Forall (fun j => j < i) (h_del h)
  /\ (forall since limit latest, 0 <= since -> obs h' (QChanges n since limit latest) = AChanges [] since)
  /\ (forall from count, obs h' (QEntities n from count) = APage [])
  /\ (forall id, obs h' (QGet id [n]) = AGet (GOk [] false))
  /\ (forall s p inv, obs h' (QRelated s p inv [n]) = ARel []).
Proof.
  intros [Hs Hd] Hn. destruct h as [st meta mem disk]. cbn in Hs. subst mem. unfold h_names in Hn. cbn in Hn.
  unfold dinvh in Hd. cbn in Hd. pose proof Hd as Hd0. inv_rinv Hd0.
  cbv zeta. unfold run_mop. cbn [plan h_mem h_meta r_names].
  assert (En : has_name n (r_names disk) = false) by now apply has_name_assoc.
  rewrite En. cbn [fst run_steps fold_left].
  assert (Hgone : assoc (r_next disk) (s_ds st) = None).
  { apply assoc_None. intros Hin. rewrite Forall_forall in Hbound. specialize (Hbound _ Hin). lia. }
  assert (Hget : get_ds {| s_ds := s_ds st ++ [(r_next disk, dstate0)]; s_clock := s_clock st |} (r_next disk) = dstate0).
  { unfold get_ds. cbn. rewrite assoc_app_none by exact Hgone. cbn. now rewrite Z.eqb_refl. }
  assert (Hlook : assoc n (r_names disk ++ [(n, r_next disk)]) = Some (r_next disk)).
  { rewrite assoc_app_none by exact Hn. cbn. now rewrite Z.eqb_refl. }
  assert (Hcol : forall A (f : dstate -> list A) dl, f dstate0 = [] ->
            collect (pass dl [r_next disk]) f (s_ds st ++ [(r_next disk, dstate0)]) = []).
  { intros A f dl Hf. apply collect_none. intros p Hp Hok. apply in_app_or in Hp. destruct Hp as [Hp|[Hp|[]]].
    - exfalso. unfold pass in Hok. apply andb_true_iff in Hok. destruct Hok as [_ Hok]. cbn in Hok.
      rewrite orb_false_r in Hok. apply Z.eqb_eq in Hok.
      rewrite Forall_forall in Hbound. specialize (Hbound (fst p) (in_map fst _ _ Hp)). lia.
    - subst p. exact Hf. }
  repeat split.
  - cbn. exact Hlook.
  - exact Hbound.
  - eapply Forall_impl; [|exact Hidb]. cbn. intros; lia.
  - exact Hdelb.
  - intros since limit latest Hsince. cbn [obs h_names h_mem create3 create2 create1 upd_meta upd_st upd_mem upd_disk r_set_names r_set_next r_names h_st].
    match goal with |- context [assoc n ?l] => replace (assoc n l) with (Some (r_next disk)) by (symmetry; exact Hlook) end. rewrite Hget. unfold changes. cbn. reflexivity.
  - intros from count. cbn [obs h_names h_mem create3 create2 create1 upd_meta upd_st upd_mem upd_disk r_set_names r_set_next r_names h_st].
    match goal with |- context [assoc n ?l] => replace (assoc n l) with (Some (r_next disk)) by (symmetry; exact Hlook) end. rewrite Hget. unfold listing_page. cbn. destruct from; reflexivity.
  - intros id. cbn [obs h_names h_mem h_del h_data h_now create3 create2 create1 upd_meta upd_st upd_mem upd_disk r_set_names r_set_next r_names r_deleted h_st s_ds scope_ids flat_map].
    match goal with |- context [assoc n ?l] => replace (assoc n l) with (Some (r_next disk)) by (symmetry; exact Hlook) end. cbn [app]. unfold get_raw. rewrite Hcol by apply f_get_empty. reflexivity.
  - intros s p inv. cbn [obs h_names h_mem h_del h_data h_now create3 create2 create1 upd_meta upd_st upd_mem upd_disk r_set_names r_set_next r_names r_deleted h_st s_ds scope_ids flat_map].
    match goal with |- context [assoc n ?l] => replace (assoc n l) with (Some (r_next disk)) by (symmetry; exact Hlook) end. cbn [app]. rewrite Hcol by (destruct inv; reflexivity). reflexivity.
Qed.
(** ** rename *)
Theorem rename_ok v h o n i :
  hinv h -> o <> core -> assoc o (h_names h) = Some i -> n <> o -> assoc n (h_names h) = None ->
  let h' := fst (run_mop v (MRename o n) h) in
  assoc n (h_names h') = Some i /\ assoc o (h_names h') = None
  /\ h_st h' = h_st h /\ h_del h' = h_del h
  /\ (forall m, m <> o -> m <> n -> assoc m (h_names h') = assoc m (h_names h))
  /\ (forall since limit latest, obs h' (QChanges n since limit latest) = obs h (QChanges o since limit latest)
                                 /\ obs h' (QChanges o since limit latest) = ANoDataset)
  /\ (forall from count, obs h' (QEntities n from count) = obs h (QEntities o from count)
                         /\ obs h' (QEntities o from count) = ANoDataset)
  /\ (forall id, get_raw (pass (h_del h') (scope_ids (h_names h') [n])) id (h_now h') (h_data h')
                 = get_raw (pass (h_del h) (scope_ids (h_names h) [o])) id (h_now h) (h_data h))
  /\ (forall s p inv, obs h' (QRelated s p inv [n]) = obs h (QRelated s p inv [o])).
Proof.
  intros [Hs Hd] Hcore Ho Hno Hn. destruct h as [st meta mem disk]. cbn in Hs. subst mem.
  unfold h_names in *. cbn in Ho, Hn. cbv zeta. unfold run_mop. cbn [plan h_mem h_meta r_names].
  destruct (Z.eqb_spec o core) as [|_]; [contradiction|]. rewrite Ho.
  destruct (Z.eqb_spec n o) as [|_]; [contradiction|].
  assert (En : has_name n (r_names disk) = false) by now apply has_name_assoc. rewrite En.
  assert (A1 : assoc n (relabel o n (r_names disk)) = Some i) by now apply assoc_relabel_new.
  assert (A2 : assoc o (relabel o n (r_names disk)) = None) by (apply assoc_relabel_old; auto).
  assert (G : forall hh, h_st hh = st -> r_names (h_mem hh) = relabel o n (r_names disk) -> r_deleted (h_mem hh) = r_deleted disk ->
     assoc n (r_names (h_mem hh)) = Some i /\ assoc o (r_names (h_mem hh)) = None
  /\ h_st hh = st /\ h_del hh = r_deleted disk
  /\ (forall m, m <> o -> m <> n -> assoc m (r_names (h_mem hh)) = assoc m (r_names disk))
  /\ (forall since limit latest, obs hh (QChanges n since limit latest) = obs {| h_st := st; h_meta := meta; h_mem := disk; h_disk := disk |} (QChanges o since limit latest)
                                 /\ obs hh (QChanges o since limit latest) = ANoDataset)
  /\ (forall from count, obs hh (QEntities n from count) = obs {| h_st := st; h_meta := meta; h_mem := disk; h_disk := disk |} (QEntities o from count)
                         /\ obs hh (QEntities o from count) = ANoDataset)
  /\ (forall id, get_raw (pass (h_del hh) (scope_ids (h_names hh) [n])) id (h_now hh) (h_data hh)
                 = get_raw (pass (r_deleted disk) (scope_ids (r_names disk) [o])) id (s_clock st) (s_ds st))
  /\ (forall s p inv, obs hh (QRelated s p inv [n]) = obs {| h_st := st; h_meta := meta; h_mem := disk; h_disk := disk |} (QRelated s p inv [o]))).
  { intros hh E1 E2 E3. unfold obs, h_names, h_del, h_data, h_now. rewrite E1, E2, E3. cbn [h_st h_mem r_names r_deleted scope_ids flat_map].
    rewrite A1, A2, Ho. repeat split; auto.
    intros m M1 M2. now apply assoc_relabel_other. }
  destruct (assoc o meta); cbn [fst run_steps fold_left]; apply G; reflexivity.
Qed.

(** ** frame: what an operation that does not name dataset [m] leaves of it *)
Definition kept (m : name) (j : Z) (d : dstate) (c : Z) (h : hub) : Prop :=
  assoc m (r_names (h_mem h)) = Some j /\ assoc m (r_names (h_disk h)) = Some j /\ assoc j (h_data h) = Some d
  /\ h_now h = c.

Definition mop_subject (mo : mop) (m : name) : Prop :=
  match mo with MCreate _ => False | MDelete n => n = m | MRename a _ => a = m end.

Lemma kept_steps m j d c : forall ss h,
  Forall (fun s : hub -> hub => forall x, kept m j d c x -> kept m j d c (s x)) ss -> kept m j d c h -> kept m j d c (run_steps ss h).
Proof.
  induction ss as [|s ss IH]; intros h F K; [exact K|]. inversion F as [|? ? Hx Hrest]; subst. cbn. apply IH; auto.
Qed.
Lemma Forall_firstn {A} (P : A -> Prop) k l : Forall P l -> Forall P (firstn k l).
Proof. revert k. induction l as [|a l IH]; intros [|k] F; cbn; try constructor; inversion F as [|? ? Ha Hl]; subst; auto. Qed.

Lemma plan_kept v mo h m j d c :
  hinv h -> kept m j d c h -> ~ mop_subject mo m ->
  Forall (fun s : hub -> hub => forall x, kept m j d c x -> kept m j d c (s x)) (fst (plan v mo h)).
Proof.
  intros [Hs Hd] K Hsub. destruct K as (K1 & K2 & K3 & K4).
  destruct mo as [n|n|o n]; cbn [plan mop_subject] in *.
  - destruct (has_name n (r_names (h_mem h))) eqn:En; cbn [fst]; [constructor|].
    apply has_name_assoc in En.
    constructor; [|constructor; [|constructor; [|constructor]]].
    + intros x (X1 & X2 & X3 & X4). repeat split; assumption.
    + intros x (X1 & X2 & X3 & X4). repeat split; cbn; try (apply assoc_app_some; assumption); try assumption.
    + intros x (X1 & X2 & X3 & X4). repeat split; assumption.
  - destruct (Z.eqb n core); cbn [fst]; [constructor|].
    destruct (assoc n (r_names (h_mem h))) as [i|]; cbn [fst]; [|constructor].
    assert (S1 : forall x, kept m j d c x -> kept m j d c (delete1 (v_del_atomic v) n i x)).
    { intros x (X1 & X2 & X3 & X4). unfold delete1. destruct (v_del_atomic v); repeat split; cbn;
        try (rewrite assoc_remove_other by congruence; assumption); assumption. }
    assert (S2 : forall x, kept m j d c x -> kept m j d c (delete2 (v_del_atomic v) i x)).
    { intros x (X1 & X2 & X3 & X4). unfold delete2. destruct (v_del_atomic v); repeat split; cbn; assumption. }
    assert (S3 : forall x, kept m j d c x -> kept m j d c (delete3 n x)).
    { intros x (X1 & X2 & X3 & X4). repeat split; assumption. }
    destruct (assoc n (h_meta h)); cbn [fst]; [constructor; [|constructor; [|constructor; [|constructor]]] | constructor; [|constructor; [|constructor]]]; assumption.
  - destruct (Z.eqb o core); cbn [fst]; [constructor|].
    destruct (assoc o (r_names (h_mem h))) as [i|]; cbn [fst]; [|constructor].
    destruct (Z.eqb n o); cbn [fst]; [constructor|].
    destruct (has_name n (r_names (h_mem h))) eqn:En; cbn [fst]; [constructor|].
    apply has_name_assoc in En.
    assert (Hmn : m <> n) by (intros ->; congruence).
    assert (S1 : forall x, kept m j d c x -> kept m j d c (rename1 o n x)).
    { intros x (X1 & X2 & X3 & X4). repeat split; cbn; try (rewrite assoc_relabel_other by congruence; assumption); assumption. }
    assert (S2 : forall x, kept m j d c x -> kept m j d c (rename2 o x)).
    { intros x (X1 & X2 & X3 & X4). repeat split; assumption. }
    assert (S3 : forall x, kept m j d c x -> kept m j d c (rename3 n x)).
    { intros x (X1 & X2 & X3 & X4). repeat split; assumption. }
    destruct (assoc o (h_meta h)); cbn [fst]; [constructor; [|constructor; [|constructor; [|constructor]]] | constructor; [|constructor]]; assumption.
Qed.

Definition op_subject (o : op) (m : name) : Prop :=
  match o with
  | OWrite _ _ => True                       (* frame is about manager operations, collection, restart and crashes *)
  | OMop mo | OCrash mo _ => mop_subject mo m
  | OGc | ORestart => False
  end.

Theorem frame_step v h o m j d c :
  hinv h -> kept m j d c h -> ~ op_subject o m -> kept m j d c (step v h o).
Proof.
  intros H K Hs. destruct o as [n ents | mo | | | mo k]; cbn [step op_subject] in *.
  - tauto.
  - unfold run_mop. destruct (plan v mo h) as [ss oc] eqn:E. cbn [fst].
    pose proof (plan_kept v mo h m j d c H K Hs) as F. rewrite E in F. cbn [fst] in F.
    apply kept_steps; assumption.
  - destruct K as (K1 & K2 & K3 & K4). pose proof H as [Hs' Hd]. repeat split; try assumption.
    unfold h_data, gc. cbn. rewrite assoc_filter_keep; [exact K3|].
    intros w. cbn. destruct (names_id_of _ _ _ _ Hd K2) as (_ & L & _). rewrite Hs'. now rewrite L.
  - destruct K as (K1 & K2 & K3 & K4). unfold restart. destruct (v_reconcile v); repeat split; assumption.
  - unfold crash_mop.
    pose proof (plan_kept v mo h m j d c H K Hs) as F. apply (Forall_firstn _ k) in F.
    pose proof (kept_steps m j d c _ h F K) as (K1 & K2 & K3 & K4).
    unfold restart. destruct (v_reconcile v); repeat split; assumption.
Qed.

(** the observables of a dataset (by name, or scoped to its name) are determined by what [kept] keeps *)
Lemma collect_single {A} (f : dstate -> list A) dl j : forall l lo,
  incr lo (map fst l) ->
  collect (pass dl [j]) f l
  = match assoc j l with Some d => if zmem j dl then [] else map (pair j) (f d) | None => [] end.
Proof.
  induction l as [|[k w] l IH]; intros lo Hi; [reflexivity|]. cbn in Hi. destruct Hi as [H1 H2].
  rewrite collect_cons. cbn [fst snd assoc]. rewrite (IH k H2). unfold pass. cbn [in_scope existsb]. rewrite orb_false_r.
  rewrite (Z.eqb_sym k j). destruct (Z.eqb_spec j k).
  - subst k. assert (N : assoc j l = None).
    { apply assoc_None. intros Hin. apply incr_lt in H2. rewrite Forall_forall in H2. specialize (H2 _ Hin). lia. }
    rewrite N, app_nil_r, andb_true_r. now destruct (zmem j dl).
  - now rewrite andb_false_r.
Qed.

Lemma name_parts_single {A} nm j m (xs : list A) :
  rassoc j nm = Some m -> name_parts nm (map (pair j) xs) = Some (map (pair m) xs).
Proof. intros R. induction xs as [|x xs IH]; cbn; [reflexivity|]. now rewrite R, IH. Qed.

Lemma filter_map_pair {A} (j : Z) (p : A -> bool) (xs : list A) :
  filter (fun q => p (snd q)) (map (pair j) xs) = map (pair j) (filter p xs).
Proof. induction xs as [|x xs IH]; cbn; [reflexivity|]. destruct (p x); cbn; now rewrite IH. Qed.

Theorem frame_obs h h' m j d c q :
  hinv h -> hinv h' -> kept m j d c h -> kept m j d c h' ->
  (match q with
   | QChanges n _ _ _ | QEntities n _ _ => n = m
   | QGet _ scope | QRelated _ _ _ scope => scope = [m]
   | _ => False
   end) ->
  obs h q = obs h' q.
Proof.
  assert (G : forall x, hinv x -> kept m j d c x ->
     assoc m (h_names x) = Some j /\ get_ds (h_st x) j = d /\ zmem j (h_del x) = false /\ rassoc j (h_names x) = Some m
     /\ (forall A (f : dstate -> list A), collect (pass (h_del x) [j]) f (h_data x) = map (pair j) (f d)) /\ h_now x = c).
  { intros x [Hs Hd] (K1 & K2 & K3 & K4). pose proof Hd as Hd0. inv_rinv Hd0.
    destruct (names_id_of _ _ _ _ Hd K2) as (_ & L & _).
    unfold h_names, h_del. rewrite Hs. repeat split; auto.
    - unfold get_ds. unfold h_data in K3. now rewrite K3.
    - apply In_rassoc; [assumption|]. now apply assoc_In.
    - intros A f. rewrite (collect_single f _ j _ 0 Hsorted). unfold h_data in K3. now rewrite K3, L. }
  intros H H' K K' Hq.
  destruct (G h H K) as (A1 & A2 & A3 & A4 & A5 & A6). destruct (G h' H' K') as (B1 & B2 & B3 & B4 & B5 & B6).
  destruct q as [| |n since limit latest|n from count|id scope|st pred inverse scope]; try contradiction; rewrite Hq; cbn [obs scope_ids flat_map].
  - now rewrite A1, B1, A2, B2.
  - now rewrite A1, B1, A2, B2.
  - rewrite A1, B1. cbn [app]. unfold get_raw. rewrite A5, B5, A6, B6.
    rewrite (filter_map_pair j (fun x => negb (c_del x))), !(name_parts_single _ j m) by assumption. reflexivity.
  - rewrite A1, B1. cbn [app]. now rewrite A5, B5.
Qed.
(** ** crash atomicity *)
Lemma obs_ext h h' q :
  h_names h = h_names h' -> h_del h = h_del h' -> h_st h = h_st h' -> live_metas (h_meta h) = live_metas (h_meta h') ->
  obs h q = obs h' q.
Proof.
  intros E1 E2 E3 E4. unfold obs, h_data, h_now. rewrite E1, E2, E3, E4. reflexivity.
Qed.

Lemma live_reconcile names m : live_metas (reconcile names m) = zcanon names.
Proof.
  unfold live_metas, reconcile. rewrite filter_app, map_app.
  assert (A : forall l, filter (fun p : name * bool => snd p) (map (fun n => (n, true)) l) = map (fun n => (n, true)) l).
  { induction l as [|x l IH]; cbn; [reflexivity | now rewrite IH]. }
  assert (B : forall l : list (name * bool), filter (fun p : name * bool => snd p) (map (fun p => (fst p, false)) l) = []).
  { induction l as [|x l IH]; cbn; [reflexivity | exact IH]. }
  rewrite A, B, app_nil_r, map_map. cbn. now rewrite map_id.
Qed.

Lemma live_restart_fixed x : live_metas (h_meta (restart v_fixed x)) = zcanon (map fst (r_names (h_disk x))).
Proof. unfold restart. cbn [v_fixed mkv v_reconcile]. cbn [upd_meta h_meta]. apply live_reconcile. Qed.

(** in the repaired variant: for every state whose in-memory registry equals the persisted one (every
    reachable state), every manager operation and every hook point, the restarted process answers every
    query either as if the operation had never been called or as if it had completed *)
Theorem crash_atomic_fixed h mo k :
  h_mem h = h_disk h ->
  let h' := crash_mop v_fixed mo k h in
  (forall q, obs h' q = obs (restart v_fixed h) q)
  \/ (forall q, obs h' q = obs (restart v_fixed (fst (run_mop v_fixed mo h))) q).
Proof.
  intros Hs. destruct h as [st meta mem disk]. cbn in Hs. subst mem. cbv zeta.
  unfold crash_mop, run_mop.
  assert (R0 : forall x, run_steps (firstn k []) x = x) by (intros; apply run_steps_prefix0).
  destruct mo as [n|n|o n]; cbn [plan h_mem h_meta r_names v_fixed mkv v_del_atomic].
  - destruct (has_name n (r_names disk)); cbn [fst]; [left; intros q; now rewrite R0|].
    destruct (run_steps_prefix3 create1 (create2 n (r_next disk)) (create3 n) k {| h_st := st; h_meta := meta; h_mem := disk; h_disk := disk |}) as [P|[P|[P|P]]]; rewrite P.
    + left. reflexivity.
    + left. intros q. apply obs_ext; try reflexivity; rewrite !live_restart_fixed; reflexivity.
    + right. intros q. apply obs_ext; try reflexivity; rewrite !live_restart_fixed; reflexivity.
    + right. intros q. reflexivity.
  - destruct (Z.eqb n core); cbn [fst]; [left; intros q; now rewrite R0|].
    destruct (assoc n (r_names disk)) as [i|]; cbn [fst]; [|left; intros q; now rewrite R0].
    destruct (assoc n meta); cbn [fst].
    + destruct (run_steps_prefix3 (delete1 true n i) (delete2 true i) (delete3 n) k {| h_st := st; h_meta := meta; h_mem := disk; h_disk := disk |}) as [P|[P|[P|P]]]; rewrite P.
      * left. reflexivity.
      * right. intros q. apply obs_ext; try reflexivity; rewrite !live_restart_fixed; reflexivity.
      * right. intros q. apply obs_ext; try reflexivity; rewrite !live_restart_fixed; reflexivity.
      * right. reflexivity.
    + destruct (run_steps_prefix2 (delete1 true n i) (delete2 true i) k {| h_st := st; h_meta := meta; h_mem := disk; h_disk := disk |}) as [P|[P|P]]; rewrite P.
      * left. reflexivity.
      * right. intros q. apply obs_ext; try reflexivity.
      * right. reflexivity.
  - destruct (Z.eqb o core); cbn [fst]; [left; intros q; now rewrite R0|].
    destruct (assoc o (r_names disk)) as [i|]; cbn [fst]; [|left; intros q; now rewrite R0].
    destruct (Z.eqb n o); cbn [fst]; [left; intros q; now rewrite R0|].
    destruct (has_name n (r_names disk)); cbn [fst]; [left; intros q; now rewrite R0|].
    destruct (assoc o meta); cbn [fst].
    + destruct (run_steps_prefix3 (rename1 o n) (rename2 o) (rename3 n) k {| h_st := st; h_meta := meta; h_mem := disk; h_disk := disk |}) as [P|[P|[P|P]]]; rewrite P.
      * left. reflexivity.
      * right. intros q. apply obs_ext; try reflexivity; rewrite !live_restart_fixed; reflexivity.
      * right. intros q. apply obs_ext; try reflexivity; rewrite !live_restart_fixed; reflexivity.
      * right. reflexivity.
    + destruct (run_steps_prefix1 (rename1 o n) k {| h_st := st; h_meta := meta; h_mem := disk; h_disk := disk |}) as [P|P]; rewrite P.
      * left. reflexivity.
      * right. reflexivity.
Qed.

(** the pinned tree: witnesses.  [h_w] = datasets a (2) and b (3), both holding e1 *)
Definition c_w (p : Z) : content := {| c_del := false; c_props := [(1001, {| pv_code := p; pv_obj := false |})]; c_refs := []; c_len := 0 |}.
Definition e_w (p : Z) : ent := {| e_id := 1; e_c := c_w p |}.
Definition h_w : hub :=
  run v_current [OMop (MCreate 1); OMop (MCreate 2); OWrite 1 [e_w 1]; OWrite 2 [e_w 2]] hub0.

Definition atomic_on (v : variant) (h : hub) (mo : mop) (k : nat) (qs : list query) : Prop :=
  (forall q, In q qs -> obs (crash_mop v mo k h) q = obs (restart v h) q)
  \/ (forall q, In q qs -> obs (crash_mop v mo k h) q = obs (restart v (fst (run_mop v mo h))) q).

(** F07a: dying after the first step of delete: the dataset is gone from the list (so it is not the state before)
    but its data is still returned by an unscoped lookup (so it is not the state after) *)
Theorem crash_refuted_delete_1 : ~ atomic_on v_current h_w (MDelete 2) 1 [QNames; QGet 1 []].
Proof.
  intros [H|H].
  - specialize (H QNames (or_introl eq_refl)). vm_compute in H. discriminate.
  - specialize (H (QGet 1 []) (or_intror (or_introl eq_refl))). vm_compute in H. discriminate.
Qed.
(** ... and it stays like that for good: garbage collection does not collect it, the lookup fails with "dataset not found" *)
Theorem crash_refuted_delete_1_gc :
  let h := gc (crash_mop v_current (MDelete 2) 1 h_w) in
  obs h QNames = ANames [0; 1] /\ obs h (QGet 1 []) = AGet GErr /\ length (h_data h) = 3%nat.
Proof. vm_compute. auto. Qed.
(** F19a: dying after the record is stored: listed, but no dataset entity - and create does not repair it *)
Theorem crash_refuted_create_2 : ~ atomic_on v_current h_w (MCreate 3) 2 [QNames; QMetas].
Proof.
  intros [H|H].
  - specialize (H QNames (or_introl eq_refl)). vm_compute in H. discriminate.
  - specialize (H QMetas (or_intror (or_introl eq_refl))). vm_compute in H. discriminate.
Qed.
Theorem crash_create_2_not_repaired :
  let h := fst (run_mop v_current (MCreate 3) (crash_mop v_current (MCreate 3) 2 h_w)) in
  obs h QNames = ANames [0; 1; 2; 3] /\ obs h QMetas = ANames [0; 1; 2]
  /\ snd (run_mop v_current (MDelete 3) h) = OPanic.
Proof. vm_compute. auto. Qed.
Theorem crash_refuted_rename_1 : ~ atomic_on v_current h_w (MRename 2 3) 1 [QNames; QMetas].
Proof.
  intros [H|H].
  - specialize (H QNames (or_introl eq_refl)). vm_compute in H. discriminate.
  - specialize (H QMetas (or_intror (or_introl eq_refl))). vm_compute in H. discriminate.
Qed.
Theorem crash_refuted_delete_2 : ~ atomic_on v_current h_w (MDelete 2) 2 [QNames; QMetas].
Proof.
  intros [H|H].
  - specialize (H QNames (or_introl eq_refl)). vm_compute in H. discriminate.
  - specialize (H QMetas (or_intror (or_introl eq_refl))). vm_compute in H. discriminate.
Qed.
(** the same witnesses are atomic in the repaired variant (non-vacuity of [crash_atomic_fixed]) *)
Example crash_fixed_witness :
  obs (crash_mop v_fixed (MDelete 2) 1 h_w) (QGet 1 []) = AGet (GOk [(1, c_w 1)] false)
  /\ obs (crash_mop v_fixed (MDelete 2) 1 h_w) QNames = ANames [0; 1]
  /\ obs (crash_mop v_fixed (MCreate 3) 2 h_w) QMetas = ANames [0; 1; 2; 3].
Proof. vm_compute. auto. Qed.
