(** Paging over SEVERAL start points (GetManyRelatedEntitiesAtTime: limit accounting across start
    points + continuation list), repaired scans: the pages a client receives by following the
    continuation lists concatenate to the per-start unlimited results, in start order; each page
    stays within its limit; nothing is returned twice. *)
From Coq Require Import List ZArith Bool Lia.
From DH Require Import Model.Store Model.Refs Model.Query Proofs.RefsProofs Proofs.QueryProofs Proofs.C03Paging Proofs.C06Proofs.
Import ListNotations.
Open Scope Z_scope.

(** the unlimited result of a start point, as keys in scan order *)
Definition Eof (K : list rk) (fr : rfrom) : list rk := if f_inv fr then E_in K fr else E_out K fr.

(** progress of a paged multi-start query: per start point (as given on the first page) where it stands *)
Definition pstate := (rfrom * option rk)%type.
Definition ws (st : pstate) : rfrom := with_start (fst st) (snd st).
Definition remaining (K : list rk) (sts : list pstate) : list rk :=
  flat_map (fun st => rest (Eof K (fst st)) (snd st)) sts.
Definition st_ok (K : list rk) (st : pstate) : Prop :=
  f_key (fst st) = None /\ (snd st = None \/ exists s, snd st = Some s /\ In s (Eof K (fst st))).

(** what one call of GetManyRelatedEntitiesAtTime takes, at the level of emissions *)
Fixpoint take_many (K : list rk) (l : Z) (u : bool) (sts : list pstate) : list rk * list pstate :=
  match sts with
  | [] => ([], [])
  | st :: more =>
    if (0 <? l) || u then
      let '(pg, c) := page_take l (rest (Eof K (fst st)) (snd st)) [] None in
      let '(t2, s2) := take_many K (Z.max (l - len pg) 0) u more in
      (pg ++ t2, match c with Some s => (fst st, Some s) :: s2 | None => s2 end)
    else
      let '(t2, s2) := take_many K l u more in (t2, st :: s2)
  end.

Lemma Eof_ws K st : Eof K (ws st) = Eof K (fst st).
Proof. destruct st as [fr [s|]]; reflexivity. Qed.
Lemma f_key_ws st : f_key (fst st) = None -> f_key (ws st) = snd st.
Proof. destruct st as [fr [s|]]; cbn; auto. Qed.
Lemma with_key_ws st s : with_key (ws st) s = ws (fst st, Some s).
Proof. destruct st as [fr [s0|]]; reflexivity. Qed.

Lemma len_map {A B} (f : A -> B) l : len (map f l) = len l.
Proof. unfold len. now rewrite map_length. Qed.

(** one [related] call of the repaired scans = the spec page *)
Lemma related_fixed_page q K st l :
  NoDup K -> q_noadd q = false -> q_inv1 q = false -> st_ok K st ->
  related q K (ws st) l =
  (map RDef (fst (page_take l (rest (Eof K (fst st)) (snd st)) [] None)),
   option_map (fun s => ws (fst st, Some s)) (snd (page_take l (rest (Eof K (fst st)) (snd st)) [] None))).
Proof.
  intros Hnd Hq1 Hq2 [Hk Hs]. unfold related, related_in.
  assert (Hinv : f_inv (ws st) = f_inv (fst st)) by (destruct st as [fr [s|]]; reflexivity).
  rewrite Hinv, Hq1, Hq2. unfold Eof in *. destruct (f_inv (fst st)) eqn:Ei.
  - rewrite (related_in_fixed_page K (ws st) l Hnd).
    + rewrite (f_key_ws st Hk).
      assert (HE : E_in K (ws st) = E_in K (fst st)) by (destruct st as [fr [s|]]; reflexivity). rewrite HE.
      destruct (page_take l (rest (E_in K (fst st)) (snd st)) [] None) as [pg [s|]]; cbn [fst snd option_map];
        [now rewrite with_key_ws | reflexivity].
    + rewrite (f_key_ws st Hk). assert (HE : E_in K (ws st) = E_in K (fst st)) by (destruct st as [fr [s|]]; reflexivity).
      rewrite HE. exact Hs.
  - rewrite (related_out_page K (ws st) l Hnd).
    + rewrite (f_key_ws st Hk).
      assert (HE : E_out K (ws st) = E_out K (fst st)) by (destruct st as [fr [s|]]; reflexivity). rewrite HE.
      destruct (page_take l (rest (E_out K (fst st)) (snd st)) [] None) as [pg [s|]]; cbn [fst snd option_map];
        [now rewrite with_key_ws | reflexivity].
    + rewrite (f_key_ws st Hk). assert (HE : E_out K (ws st) = E_out K (fst st)) by (destruct st as [fr [s|]]; reflexivity).
      rewrite HE. exact Hs.
Qed.

Lemma page_cont_ok K st l s :
  st_ok K st -> snd (page_take l (rest (Eof K (fst st)) (snd st)) [] None) = Some s -> st_ok K (fst st, Some s).
Proof.
  intros [Hk Hs] Hc. split; [exact Hk|]. right. exists s. split; [reflexivity|]. cbn [fst].
  pose proof (page_take_cont_in l (rest (Eof K (fst st)) (snd st)) [] None s) as Hin.
  specialize (Hin ltac:(discriminate) Hc). apply page_take_sub in Hin. destruct Hin as [[]|Hin].
  eapply rest_sub. exact Hin.
Qed.

Lemma many_related_spec q K : NoDup K -> q_noadd q = false -> q_inv1 q = false ->
  forall sts l u, Forall (st_ok K) sts ->
  many_related q K (map ws sts) l u
  = (map RDef (fst (take_many K l u sts)), map ws (snd (take_many K l u sts)))
  /\ Forall (st_ok K) (snd (take_many K l u sts)).
Proof.
  intros Hnd Hq1 Hq2. induction sts as [|st more IH]; intros l u Hok; cbn [map many_related take_many].
  - split; [reflexivity | constructor].
  - inversion Hok as [|? ? Hst Hmore]; subst.
    destruct ((0 <? l) || u).
    + rewrite (related_fixed_page q K st l Hnd Hq1 Hq2 Hst).
      pose proof (page_cont_ok K st l) as Hc.
      destruct (page_take l (rest (Eof K (fst st)) (snd st)) [] None) as [pg c]. cbn [fst snd] in *.
      rewrite len_map.
      destruct (IH (Z.max (l - len pg) 0) u Hmore) as [H1 H2]. rewrite H1.
      destruct (take_many K (Z.max (l - len pg) 0) u more) as [t2 s2]. cbn [fst snd] in *.
      split.
      * rewrite map_app. destruct c as [s|]; reflexivity.
      * destruct c as [s|]; [constructor; [now apply Hc | assumption] | assumption].
    + destruct (IH l u Hmore) as [H1 H2]. rewrite H1.
      destruct (take_many K l u more) as [t2 s2]. cbn [fst snd] in *.
      split; [reflexivity | constructor; assumption].
Qed.

(** ** properties of [take_many] *)
Lemma rest_after_page K st (l : Z) pg s R' :
  NoDup (Eof K (fst st)) -> (snd st = None \/ exists s0, snd st = Some s0 /\ In s0 (Eof K (fst st))) ->
  rest (Eof K (fst st)) (snd st) = pg ++ R' -> olast pg = Some s ->
  rest (Eof K (fst st)) (Some s) = R'.
Proof.
  intros Hnd Hs HR Ho. destruct (olast_in _ _ Ho) as [pg0 Hpg0].
  destruct (rest_suffix (Eof K (fst st)) (snd st) Hs) as [pre Hpre].
  assert (HE : Eof K (fst st) = (pre ++ pg0) ++ s :: R').
  { rewrite Hpre at 1. rewrite HR, Hpg0, <- !app_assoc. reflexivity. }
  cbn [rest]. rewrite HE at 1. apply after_app.
  rewrite HE in Hnd. apply NoDup_remove_2 in Hnd. intros H. apply Hnd. apply in_or_app. now left.
Qed.

Lemma page_take_unlimited E : forall res c, page_take 0 E res c = (res ++ E, None).
Proof.
  induction E as [|k E IH]; intros res c; cbn [page_take]; [now rewrite app_nil_r|].
  rewrite at_limit_0, IH, <- app_assoc. reflexivity.
Qed.

Lemma take_many_zero K sts : take_many K 0 false sts = ([], sts).
Proof. induction sts as [|st more IH]; cbn [take_many]; [reflexivity|]. cbn [Z.ltb Z.compare orb]. now rewrite IH. Qed.

Lemma take_many_partition K : forall sts l u,
  0 <= l -> (u = true -> l = 0) ->
  Forall (fun st => NoDup (Eof K (fst st))) sts -> Forall (st_ok K) sts ->
  remaining K sts = fst (take_many K l u sts) ++ remaining K (snd (take_many K l u sts)).
Proof.
  induction sts as [|st more IH]; intros l u Hl Hu Hnd Hok; cbn [take_many remaining flat_map]; [reflexivity|].
  inversion Hnd as [|? ? Hn1 Hn2]; subst. inversion Hok as [|? ? Ho1 Ho2]; subst.
  fold (remaining K more).
  destruct ((0 <? l) || u) eqn:Econd.
  - pose proof (page_take_char l (rest (Eof K (fst st)) (snd st)) [] None eq_refl) as Hc.
    destruct (page_take l (rest (Eof K (fst st)) (snd st)) [] None) as [pg c].
    destruct Hc as (pg' & R' & HR & Hr & Hcase). cbn [app] in Hr. subst pg'.
    assert (Hu' : u = true -> Z.max (l - len pg) 0 = 0) by (intros H; specialize (Hu H); unfold len; lia).
    specialize (IH (Z.max (l - len pg) 0) u ltac:(lia) Hu' Hn2 Ho2).
    destruct Hcase as [[-> ->]|(HR' & -> & Hlim)].
    + destruct (take_many K (Z.max (l - len pg) 0) u more) as [t2 s2]. cbn [fst snd] in *.
      rewrite IH, HR, app_nil_r, <- app_assoc. reflexivity.
    + unfold at_limit in Hlim. apply andb_true_iff in Hlim. destruct Hlim as [Hne Hle].
      apply Z.leb_le in Hle. apply negb_true_iff, Z.eqb_neq in Hne.
      assert (Hfalse : u = false) by (destruct u; [specialize (Hu eq_refl); lia | reflexivity]). subst u.
      replace (Z.max (l - len pg) 0) with 0 in * by lia. rewrite take_many_zero in *. cbn [fst snd app] in *.
      destruct (olast pg) as [s|] eqn:Eo.
      * cbn [remaining flat_map fst snd]. fold (remaining K more).
        rewrite (rest_after_page K st l pg s R' Hn1 (proj2 Ho1) HR Eo), HR, app_nil_r, <- app_assoc. reflexivity.
      * exfalso. unfold olast in Eo. destruct (rev pg) eqn:Er; [|discriminate].
        assert (pg = []) by (rewrite <- (rev_involutive pg), Er; reflexivity). subst pg. unfold len in Hle. cbn in Hle. lia.
  - apply orb_false_iff in Econd. destruct Econd as [El ->]. apply Z.ltb_ge in El.
    assert (l = 0) by lia. subst l. rewrite take_many_zero. cbn [fst snd app remaining flat_map]. reflexivity.
Qed.

Lemma take_many_size K : forall sts l, 0 <= l -> len (fst (take_many K l false sts)) <= l.
Proof.
  induction sts as [|st more IH]; intros l Hl; cbn [take_many]; [unfold len; cbn; lia|].
  rewrite orb_false_r. destruct (Z.ltb_spec 0 l) as [Hpos|Hnp].
  - pose proof (page_take_size l (rest (Eof K (fst st)) (snd st)) Hpos [] None ltac:(unfold len; cbn; lia)) as Hsz.
    destruct (page_take l (rest (Eof K (fst st)) (snd st)) [] None) as [pg c]. cbn [fst] in Hsz.
    specialize (IH (Z.max (l - len pg) 0) ltac:(lia)).
    destruct (take_many K (Z.max (l - len pg) 0) false more) as [t2 s2]. cbn [fst] in *.
    unfold len in *. rewrite app_length. lia.
  - assert (l = 0) by lia. subst l. rewrite take_many_zero. unfold len; cbn; lia.
Qed.

Lemma take_many_unlimited K : forall sts, snd (take_many K 0 true sts) = [].
Proof.
  induction sts as [|st more IH]; cbn [take_many]; [reflexivity|]. cbn [Z.ltb Z.compare orb].
  rewrite page_take_unlimited. replace (Z.max (0 - len ([] ++ rest (Eof K (fst st)) (snd st))) 0) with 0 by (unfold len; lia).
  destruct (take_many K 0 true more) as [t2 s2]. cbn [fst snd] in *. exact IH.
Qed.

Lemma take_many_progress K : forall sts l, 0 < l ->
  fst (take_many K l false sts) = [] -> snd (take_many K l false sts) = [].
Proof.
  induction sts as [|st more IH]; intros l Hl; cbn [take_many]; [reflexivity|].
  replace ((0 <? l) || false) with true by (symmetry; rewrite orb_false_r; now apply Z.ltb_lt).
  pose proof (page_take_char l (rest (Eof K (fst st)) (snd st)) [] None eq_refl) as Hc.
  destruct (page_take l (rest (Eof K (fst st)) (snd st)) [] None) as [pg c].
  destruct Hc as (pg' & R' & HR & Hr & Hcase). cbn [app] in Hr. subst pg'.
  specialize (IH (Z.max (l - len pg) 0)).
  destruct (take_many K (Z.max (l - len pg) 0) false more) as [t2 s2]. cbn [fst snd] in *.
  intros Happ. apply app_eq_nil in Happ. destruct Happ as [-> ->].
  destruct Hcase as [[_ ->]|(_ & _ & Hlim)].
  - apply IH; [unfold len; cbn; lia | reflexivity].
  - unfold at_limit, len in Hlim. cbn in Hlim. apply andb_true_iff in Hlim. destruct Hlim as [_ Hle]. apply Z.leb_le in Hle. lia.
Qed.

Lemma take_many_fst K : forall sts l u st', In st' (snd (take_many K l u sts)) -> exists st, In st sts /\ fst st' = fst st.
Proof.
  induction sts as [|st more IH]; intros l u st'; cbn [take_many]; [intros []|].
  destruct ((0 <? l) || u).
  - destruct (page_take l (rest (Eof K (fst st)) (snd st)) [] None) as [pg c].
    specialize (IH (Z.max (l - len pg) 0) u st').
    destruct (take_many K (Z.max (l - len pg) 0) u more) as [t2 s2]. cbn [fst snd] in *.
    destruct c as [s|]; [intros [<-|H]|intros H].
    + exists st. split; [now left | reflexivity].
    + destruct (IH H) as (x & Hx & He). exists x. split; [now right | assumption].
    + destruct (IH H) as (x & Hx & He). exists x. split; [now right | assumption].
  - specialize (IH l u st'). destruct (take_many K l u more) as [t2 s2]. cbn [fst snd] in *.
    intros [<-|H]; [exists st; split; [now left | reflexivity]|].
    destruct (IH H) as (x & Hx & He). exists x. split; [now right | assumption].
Qed.

(** ** the client's pages *)
Fixpoint pages_within (limits : list Z) (p : nat) (pages : list (list res)) : Prop :=
  match pages with
  | [] => True
  | pg :: r => (0 < nth_limit limits p -> len pg <= nth_limit limits p) /\ pages_within limits (S p) r
  end.

Theorem follow_many q K limits : NoDup K -> q_noadd q = false -> q_inv1 q = false ->
  Forall (fun l => 0 <= l) limits ->
  forall fuel sts p,
    Forall (st_ok K) sts -> Forall (fun st => NoDup (Eof K (fst st))) sts ->
    (length (remaining K sts) < fuel)%nat ->
    concat (follow q K (map ws sts) limits p fuel) = map RDef (remaining K sts)
    /\ pages_within limits p (follow q K (map ws sts) limits p fuel).
Proof.
  intros Hnd Hq1 Hq2 Hlim. induction fuel as [|fuel IH]; intros sts p Hok HndE Hfuel; [lia|].
  cbn [follow]. set (lim := nth_limit limits p).
  assert (Hl0 : 0 <= lim) by (apply nth_limit_nonneg; exact Hlim).
  destruct (many_related_spec q K Hnd Hq1 Hq2 sts lim (Z.eqb lim 0) Hok) as [Hm Hok'].
  rewrite Hm.
  assert (Hu : Z.eqb lim 0 = true -> lim = 0) by (apply Z.eqb_eq).
  pose proof (take_many_partition K sts lim (Z.eqb lim 0) Hl0 Hu HndE Hok) as Hpart.
  pose proof (take_many_fst K sts lim (Z.eqb lim 0)) as Hfst.
  destruct (take_many K lim (Z.eqb lim 0) sts) as [taken sts'] eqn:Etm. cbn [fst snd] in *.
  assert (Hsize : 0 < lim -> len (map RDef taken) <= lim).
  { intros Hpos. rewrite len_map. replace (Z.eqb lim 0) with false in Etm by (symmetry; apply Z.eqb_neq; lia).
    pose proof (take_many_size K sts lim Hl0) as Hs. rewrite Etm in Hs. exact Hs. }
  destruct sts' as [|st' sts']; cbn [map].
  - cbn [remaining flat_map] in Hpart. rewrite app_nil_r in Hpart. cbn [concat pages_within]. rewrite app_nil_r, Hpart.
    split; [reflexivity | split; [exact Hsize | exact I]].
  - destruct (Z.leb_spec lim 0) as [Hle|Hgt].
    + exfalso. assert (lim = 0) by lia. pose proof (take_many_unlimited K sts) as Hun.
      replace (Z.eqb lim 0) with true in Etm by (symmetry; apply Z.eqb_eq; assumption).
      replace lim with 0 in Etm by lia. rewrite Etm in Hun. discriminate.
    + assert (Hne : taken <> []).
      { intros ->. pose proof (take_many_progress K sts lim Hgt) as Hp.
        replace (Z.eqb lim 0) with false in Etm by (symmetry; apply Z.eqb_neq; lia).
        rewrite Etm in Hp. specialize (Hp eq_refl). discriminate. }
      change (ws st' :: map ws sts') with (map ws (st' :: sts')).
      destruct (IH (st' :: sts') (S p) Hok') as [Hc Hw].
      * apply Forall_forall. intros x Hx. destruct (Hfst x Hx) as (y & Hy & He). rewrite He.
        rewrite Forall_forall in HndE. now apply HndE.
      * rewrite Hpart, app_length in Hfuel. destruct taken; [contradiction|]. cbn [length] in Hfuel. lia.
      * cbn [concat pages_within]. rewrite Hc, Hpart, map_app. split; [reflexivity | split; [exact Hsize | exact Hw]].
Qed.

(** first pages *)
Lemma Eof_NoDup K fr : NoDup (Eof K fr).
Proof.
  unfold Eof, E_in, E_out. destruct (f_inv fr).
  - pose proof (out_emits_nodup ifact (filter (pass fr) (in_view_desc K (f_start fr))) [] []) as [Hn _]. eapply NoDup_map_inv; exact Hn.
  - pose proof (out_emits_nodup ofact (filter (pass fr) (out_view K (f_start fr))) [] []) as [Hn _]. eapply NoDup_map_inv; exact Hn.
Qed.

Lemma unlimited_is_Eof q K fr : NoDup K -> q_noadd q = false -> q_inv1 q = false -> f_key fr = None ->
  fst (related q K fr 0) = map RDef (Eof K fr).
Proof.
  intros Hnd Hq1 Hq2 Hk.
  pose proof (related_fixed_page q K (fr, None) 0 Hnd Hq1 Hq2 (conj Hk (or_introl eq_refl))) as H.
  cbn [ws with_start fst snd rest] in H. rewrite H. cbn [fst]. now rewrite page_take_unlimited.
Qed.

Theorem follow_many_first q K limits froms fuel : NoDup K -> q_noadd q = false -> q_inv1 q = false ->
  Forall (fun l => 0 <= l) limits -> Forall (fun fr => f_key fr = None) froms ->
  (length (flat_map (Eof K) froms) < fuel)%nat ->
  concat (follow q K froms limits 0 fuel) = flat_map (fun fr => fst (related q K fr 0)) froms
  /\ pages_within limits 0 (follow q K froms limits 0 fuel).
Proof.
  intros Hnd Hq1 Hq2 Hlim Hk Hfuel.
  set (sts := map (fun fr => (fr, @None rk)) froms).
  assert (Hws : map ws sts = froms) by (unfold sts; rewrite map_map; cbn; apply map_id).
  assert (Hrem : remaining K sts = flat_map (Eof K) froms).
  { unfold sts, remaining. clear. induction froms as [|fr froms IH]; cbn [map flat_map]; [reflexivity|]. now rewrite IH. }
  destruct (follow_many q K limits Hnd Hq1 Hq2 Hlim fuel sts 0%nat) as [Hc Hw].
  - unfold sts. apply Forall_forall. intros st Hst. apply in_map_iff in Hst. destruct Hst as (fr & <- & Hfr).
    rewrite Forall_forall in Hk. split; [cbn; now apply Hk | now left].
  - apply Forall_forall. intros st _. apply Eof_NoDup.
  - now rewrite Hrem.
  - rewrite Hws in Hc, Hw. split; [|exact Hw]. rewrite Hc, Hrem.
    clear - Hnd Hq1 Hq2 Hk. induction froms as [|fr froms IH]; cbn [flat_map map]; [reflexivity|].
    inversion Hk; subst. rewrite map_app, IH by assumption. now rewrite (unlimited_is_Eof q K fr).
Qed.

(** the statement in terms of the model's own unlimited queries *)
Theorem paging_many q K limits froms fuel : NoDup K -> q_noadd q = false -> q_inv1 q = false ->
  Forall (fun l => 0 <= l) limits -> Forall (fun fr => f_key fr = None) froms ->
  (length (flat_map (fun fr => fst (related q K fr 0)) froms) < fuel)%nat ->
  concat (follow q K froms limits 0 fuel) = flat_map (fun fr => fst (related q K fr 0)) froms
  /\ pages_within limits 0 (follow q K froms limits 0 fuel).
Proof.
  intros Hnd Hq1 Hq2 Hlim Hk Hfuel. apply follow_many_first; try assumption.
  assert (Hl : length (flat_map (Eof K) froms) = length (flat_map (fun fr => fst (related q K fr 0)) froms)).
  { clear Hfuel. induction froms as [|fr froms IH]; cbn [flat_map]; [reflexivity|]. inversion Hk; subst.
    rewrite !app_length, IH by assumption. rewrite (unlimited_is_Eof q K fr) by assumption. now rewrite map_length. }
  now rewrite Hl.
Qed.
