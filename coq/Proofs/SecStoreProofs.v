(** Persistence of the client registry and the ACL store (Model/SecStore.v): with the repaired flags a restart
    is the identity after every history; the pinned flags lose ACLs. *)
From Coq Require Import List String Bool.
From DH Require Import Model.Acl Model.SecStore.
Import ListNotations.
Open Scope string_scope.

(** memory = what the two files say *)
Definition synced (s : secstate) : Prop :=
  ((disk_clients s = None /\ mem_clients s = []) \/ disk_clients s = Some (mem_clients s))
  /\ ((disk_acls s = None /\ mem_acls s = []) \/ disk_acls s = Some (FAcls (mem_acls s))).

Lemma synced_init : synced sec_init.
Proof. split; left; split; reflexivity. Qed.

Lemma restart_synced_id s : synced s -> restart InitIndependent s = s.
Proof.
  destruct s as [mc ma dc da]. unfold synced, restart. cbn.
  intros [[[-> ->] | ->] [[-> ->] | ->]]; reflexivity.
Qed.

Lemma step_synced s o : synced s -> synced (sec_step AclFileAcls InitIndependent s o).
Proof.
  intros Hs. destruct o as [c | c | c l | c |]; cbn [sec_step].
  - destruct Hs as [_ Ha]. split; [right; reflexivity | exact Ha].
  - split; [right; reflexivity | right; reflexivity].
  - destruct Hs as [Hc _]. split; [exact Hc | right; reflexivity].
  - destruct Hs as [Hc _]. split; [exact Hc | right; reflexivity].
  - now rewrite (restart_synced_id s Hs).
Qed.

Lemma run_synced ops : forall s, synced s -> synced (fold_left (sec_step AclFileAcls InitIndependent) ops s).
Proof. induction ops as [|o ops IH]; intros s Hs; [assumption|]. cbn. apply IH. now apply step_synced. Qed.

(** for every history of security-management operations (restarts included) a further restart changes nothing *)
Theorem persist_fixed ops :
  let s := sec_run AclFileAcls InitIndependent ops in restart InitIndependent s = s.
Proof. intros s. apply restart_synced_id. apply run_synced. exact synced_init. Qed.

Corollary persist_fixed_same ops :
  same_security (sec_run AclFileAcls InitIndependent ops)
                (restart InitIndependent (sec_run AclFileAcls InitIndependent ops)).
Proof. pose proof (persist_fixed ops) as H. cbv zeta in H. rewrite H. split; reflexivity. Qed.

(** ** the pinned tree *)

(** F16e, exactly: once an ACL was deleted (and nothing re-wrote acls.json) a restart leaves no ACL at all *)
Theorem pinned_delete_then_restart im c s :
  mem_acls (restart im (del_acl AclFileClients c s)) = [].
Proof. unfold restart, del_acl. cbn. destruct (disk_clients s); [reflexivity | destruct im; reflexivity]. Qed.

(** F16f, exactly: while clients.json does not exist a restart leaves no ACL at all *)
Theorem pinned_no_clients_file s : disk_clients s = None -> mem_acls (restart InitAborts s) = [].
Proof. unfold restart. now intros ->. Qed.

Definition demo_acl : list ac := [{| ac_resource := "/datasets/*"; ac_action := "read"; ac_deny := false |}].

Lemma refuted_acl_clobber :
  let ops := [OpRegister "a"; OpSetAcl "a" demo_acl; OpRegister "b"; OpSetAcl "b" demo_acl; OpDelAcl "b"] in
  let s := sec_run AclFileClients InitAborts ops in
  lookup "a" (mem_acls s) = Some demo_acl /\ lookup "a" (mem_acls (restart InitAborts s)) = None.
Proof. vm_compute. split; reflexivity. Qed.

Lemma refuted_init_order :
  let s := sec_run AclFileAcls InitAborts [OpSetAcl "a" demo_acl] in
  lookup "a" (mem_acls s) = Some demo_acl /\ lookup "a" (mem_acls (restart InitAborts s)) = None.
Proof. vm_compute. split; reflexivity. Qed.
