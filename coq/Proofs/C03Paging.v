(** Paging of the reverse scan with the repaired [added] bookkeeping (outgoing index, and the
    repaired incoming scan which reuses the loop): a page is the next [limit] emissions of the
    unlimited scan after the continuation key; following continuations partitions the unlimited
    result - nothing missing, nothing twice. *)
From Coq Require Import List ZArith Bool Lia.
From DH Require Import Model.Store Model.Refs Model.Query Proofs.RefsProofs Proofs.QueryProofs.
Import ListNotations.
Open Scope Z_scope.

(** the page as a function of the emissions still to come *)
Fixpoint page_take (L : Z) (E : list rk) (res : list rk) (cont : option rk) : list rk * option rk :=
  match E with
  | [] => (res, None)
  | k :: E' => if at_limit L res then (res, cont) else page_take L E' (res ++ [k]) (Some k)
  end.

Fixpoint after (s : rk) (E : list rk) : list rk :=
  match E with [] => [] | k :: E' => if rk_eqb k s then E' else after s E' end.

Definition rest (E : list rk) (start : option rk) : list rk :=
  match start with None => E | Some s => after s E end.

Section Paging.
Variable fact : rk -> Z * Z.
Variable fr : rfrom.

Lemma out_loop_reached L ks : forall seen added res cont,
  Forall (fun k => pass fr k = true) ks ->
  out_loop fact false fr L ks seen added true res cont = page_take L (out_emits fact ks seen added) res cont.
Proof.
  induction ks as [|k ks IH]; intros seen added res cont Hp; cbn [out_loop out_emits page_take]; [reflexivity|].
  inversion Hp as [|? ? Hk Hks]; subst. rewrite Hk. cbn [negb]. cbv zeta. unfold group.
  destruct (tmem (fact k, r_ds k) seen || pmem (fact k) added); [now apply IH|].
  destruct (r_del k); cbn [negb andb orb page_take].
  - now apply IH.
  - destruct (at_limit L res); [reflexivity | now apply IH].
Qed.

Lemma out_loop_prestart L s ks : forall seen added c0,
  Forall (fun k => pass fr k = true) ks -> NoDup ks ->
  f_key fr = Some s ->
  In s (out_emits fact ks seen added) ->
  out_loop fact false fr L ks seen added false [] c0 = page_take L (after s (out_emits fact ks seen added)) [] c0.
Proof.
  intros seen added c0 Hp Hnd Hkey. revert seen added Hp Hnd.
  induction ks as [|k ks IH]; intros seen added Hp Hnd Hin; cbn [out_loop out_emits] in *; [destruct Hin|].
  inversion Hp as [|? ? Hk Hks]; subst. inversion Hnd as [|? ? Hnk Hnd']; subst.
  rewrite Hk. cbn [negb]. cbv zeta. unfold group in *. rewrite Hkey.
  assert (Hsub : forall sn ad, In s (out_emits fact ks sn ad) -> k <> s).
  { intros sn ad Hs ->. apply Hnk. eapply out_emits_sub. exact Hs. }
  destruct (tmem (fact k, r_ds k) seen || pmem (fact k) added); [now apply IH|].
  destruct (r_del k) eqn:Ed; cbn [negb andb orb].
  - assert (Hne := Hsub _ _ Hin).
    replace (rk_eqb k s) with false by (symmetry; destruct (rk_eqb k s) eqn:E; [apply rk_eqb_eq in E; contradiction | reflexivity]).
    now apply IH.
  - cbn [after].
    destruct (rk_eqb k s) eqn:E.
    + now apply out_loop_reached.
    + destruct Hin as [->|Hin]; [rewrite rk_eqb_refl in E; discriminate|]. now apply IH.
Qed.
End Paging.

(** ** pages partition the emissions *)
Definition olast (l : list rk) : option rk := match rev l with [] => None | x :: _ => Some x end.
Lemma olast_snoc l x : olast (l ++ [x]) = Some x.
Proof. unfold olast. now rewrite rev_app_distr. Qed.

Lemma page_take_char L R : forall res cont,
  olast res = cont ->
  let '(r, c) := page_take L R res cont in
  exists pg R', R = pg ++ R' /\ r = res ++ pg
                /\ ((R' = [] /\ c = None) \/ (R' <> [] /\ c = olast r /\ at_limit L r = true)).
Proof.
  induction R as [|k R IH]; intros res cont Hc; cbn [page_take].
  - exists [], []. cbn [app]. rewrite app_nil_r. split; [reflexivity|]. split; [reflexivity|]. left. split; reflexivity.
  - destruct (at_limit L res) eqn:El.
    + exists [], (k :: R). cbn [app]. rewrite app_nil_r. split; [reflexivity|]. split; [reflexivity|]. right.
      split; [discriminate|]. split; [now symmetry | assumption].
    + specialize (IH (res ++ [k]) (Some k) (olast_snoc _ _)).
      destruct (page_take L R (res ++ [k]) (Some k)) as [r c].
      destruct IH as (pg & R' & HR & Hr & Hcase).
      exists (k :: pg), R'. cbn [app]. rewrite HR. split; [reflexivity|]. split; [rewrite Hr, <- app_assoc; reflexivity | exact Hcase].
Qed.

Lemma after_app A s B : ~ In s A -> after s (A ++ s :: B) = B.
Proof.
  induction A as [|a A IH]; intros Hn; cbn [app after].
  - now rewrite rk_eqb_refl.
  - destruct (rk_eqb a s) eqn:E; [apply rk_eqb_eq in E; subst; exfalso; apply Hn; now left|].
    apply IH. intros H. apply Hn. now right.
Qed.

Lemma rest_suffix E start : (start = None \/ exists s, start = Some s /\ In s E) -> exists pre, E = pre ++ rest E start.
Proof.
  intros [->|(s & -> & Hin)]; [exists []; reflexivity|]. cbn [rest].
  induction E as [|a E IH]; [destruct Hin|]. cbn [after].
  destruct (rk_eqb a s) eqn:Ea.
  - exists [a]. reflexivity.
  - destruct Hin as [->|Hin]; [rewrite rk_eqb_refl in Ea; discriminate|].
    destruct (IH Hin) as [pre Hpre]. exists (a :: pre). cbn [app]. now rewrite <- Hpre.
Qed.

(** a client following the continuation keys with limit [L] *)
Fixpoint follow_spec (L : Z) (E : list rk) (start : option rk) (fuel : nat) : list (list rk) :=
  match fuel with
  | O => []
  | S fuel' =>
    let '(pg, c) := page_take L (rest E start) [] None in
    match c with None => [pg] | Some s => pg :: follow_spec L E (Some s) fuel' end
  end.

Lemma olast_in l x : olast l = Some x -> exists l', l = l' ++ [x].
Proof.
  unfold olast. destruct (rev l) as [|y r] eqn:E; [discriminate|]. intros [= ->].
  exists (rev r). rewrite <- (rev_involutive l), E. reflexivity.
Qed.

Lemma page_take_size L R : 0 < L -> forall res cont, len res <= L -> len (fst (page_take L R res cont)) <= L.
Proof.
  intros HL. induction R as [|k R IH]; intros res cont Hres; cbn [page_take]; [exact Hres|].
  destruct (at_limit L res) eqn:El; [exact Hres|]. apply IH.
  unfold at_limit in El. unfold len in *. rewrite app_length. cbn [length].
  apply andb_false_iff in El. destruct El as [El|El].
  - apply negb_false_iff, Z.eqb_eq in El. lia.
  - apply Z.leb_gt in El. lia.
Qed.

Theorem follow_spec_partition L E : 0 < L -> NoDup E ->
  forall fuel start, (start = None \/ exists s, start = Some s /\ In s E) ->
  (length (rest E start) < fuel)%nat ->
  concat (follow_spec L E start fuel) = rest E start
  /\ Forall (fun pg => len pg <= L) (follow_spec L E start fuel).
Proof.
  intros HL Hnd. induction fuel as [|fuel IH]; intros start Hstart Hfuel; [lia|].
  cbn [follow_spec].
  pose proof (page_take_char L (rest E start) [] None eq_refl) as Hc.
  pose proof (page_take_size L (rest E start) HL [] None ltac:(unfold len; cbn; lia)) as Hsz.
  destruct (page_take L (rest E start) [] None) as [pg c]. cbn [fst] in Hsz.
  destruct Hc as (pg' & R' & HR & Hr & Hcase). cbn [app] in Hr. subst pg'.
  destruct Hcase as [[-> ->]|(HR' & -> & Hlim)].
  - rewrite app_nil_r in HR. cbn [concat]. rewrite app_nil_r. split; [now symmetry | repeat constructor; assumption].
  - assert (Hne : pg <> []).
    { intros ->. unfold at_limit, len in Hlim. cbn in Hlim. apply andb_true_iff in Hlim. destruct Hlim as [_ Hlim].
      apply Z.leb_le in Hlim. lia. }
    destruct (olast pg) as [s|] eqn:Eo.
    2:{ exfalso. unfold olast in Eo. destruct (rev pg) eqn:Er; [|discriminate].
        apply Hne. rewrite <- (rev_involutive pg), Er. reflexivity. }
    destruct (olast_in _ _ Eo) as [pg0 Hpg0].
    destruct (rest_suffix E start Hstart) as [pre Hpre].
    assert (HE : E = (pre ++ pg0) ++ s :: R').
    { rewrite Hpre at 1. rewrite HR, Hpg0, <- !app_assoc. reflexivity. }
    assert (Hns : ~ In s (pre ++ pg0)).
    { rewrite HE in Hnd. apply NoDup_remove_2 in Hnd. intros H. apply Hnd. apply in_or_app. now left. }
    assert (Hrest : rest E (Some s) = R') by (cbn [rest]; rewrite HE at 1; now apply after_app).
    assert (Hin : In s E) by (rewrite HE; apply in_or_app; right; now left).
    destruct (IH (Some s)) as [IHc IHf].
    + right. eauto.
    + rewrite Hrest. rewrite HR, app_length in Hfuel. destruct pg; [contradiction|]. cbn [length] in Hfuel. lia.
    + cbn [concat]. rewrite IHc, Hrest. split; [now symmetry | constructor; assumption].
Qed.

(** ** the model's pages *)
Definition E_out (K : list rk) (fr : rfrom) : list rk :=
  out_emits ofact (filter (pass fr) (out_view K (f_start fr))) [] [].
Definition E_in (K : list rk) (fr : rfrom) : list rk :=
  out_emits ifact (filter (pass fr) (in_view_desc K (f_start fr))) [] [].

Lemma filter_pass_Forall fr l : Forall (fun k => pass fr k = true) (filter (pass fr) l).
Proof. apply Forall_forall. intros k Hk. apply filter_In in Hk. apply Hk. Qed.

Lemma related_out_page K fr L :
  NoDup K -> (f_key fr = None \/ exists s, f_key fr = Some s /\ In s (E_out K fr)) ->
  related_out false K fr L = page_take L (rest (E_out K fr) (f_key fr)) [] None.
Proof.
  intros Hnd Hstart. unfold related_out. rewrite out_loop_skip.
  destruct Hstart as [Hk|(s & Hk & Hin)]; rewrite Hk; cbn [rest].
  - apply out_loop_reached, filter_pass_Forall.
  - apply out_loop_prestart; [apply filter_pass_Forall | apply NoDup_filter, out_view_NoDup, Hnd | exact Hk | exact Hin].
Qed.

Lemma related_in_fixed_page K fr L :
  NoDup K -> (f_key fr = None \/ exists s, f_key fr = Some s /\ In s (E_in K fr)) ->
  related_in_fixed K fr L = page_take L (rest (E_in K fr) (f_key fr)) [] None.
Proof.
  intros Hnd Hstart. unfold related_in_fixed. rewrite out_loop_skip.
  destruct Hstart as [Hk|(s & Hk & Hin)]; rewrite Hk; cbn [rest].
  - apply out_loop_reached, filter_pass_Forall.
  - apply out_loop_prestart; [apply filter_pass_Forall | apply NoDup_filter, in_view_desc_NoDup, Hnd | exact Hk | exact Hin].
Qed.

Definition with_start (fr : rfrom) (start : option rk) : rfrom :=
  match start with None => fr | Some s => with_key fr s end.

Lemma nth_limit_const L p : nth_limit [L] p = L.
Proof. unfold nth_limit. destruct p as [|[|p]]; reflexivity. Qed.

Lemma page_take_cont_in L R : forall res cont s,
  (forall x, cont = Some x -> In x res) -> snd (page_take L R res cont) = Some s -> In s (fst (page_take L R res cont)).
Proof.
  induction R as [|k R IH]; intros res cont s Hc; cbn [page_take]; [discriminate|].
  destruct (at_limit L res); [cbn [fst snd]; apply Hc|].
  apply IH. intros x [= <-]. apply in_or_app. right. now left.
Qed.

Lemma page_take_sub L R : forall res cont x, In x (fst (page_take L R res cont)) -> In x res \/ In x R.
Proof.
  induction R as [|k R IH]; intros res cont x; cbn [page_take]; [cbn; tauto|].
  destruct (at_limit L res); [cbn [fst]; tauto|]. intros H. apply IH in H. rewrite in_app_iff in H. cbn [In] in *. tauto.
Qed.

Lemma after_sub s E x : In x (after s E) -> In x E.
Proof.
  induction E as [|a E IH]; cbn [after]; [tauto|]. destruct (rk_eqb a s); intros H; [now right | right; now apply IH].
Qed.
Lemma rest_sub E start x : In x (rest E start) -> In x E.
Proof. destruct start; cbn [rest]; [apply after_sub | tauto]. Qed.

(** the model's [follow], one outgoing start point, constant limit: exactly the spec pages *)
Theorem follow_out_pages q K fr0 L : NoDup K -> 0 < L ->
  q_noadd q = false -> f_inv fr0 = false -> f_key fr0 = None ->
  forall fuel p start, (start = None \/ exists s, start = Some s /\ In s (E_out K fr0)) ->
  follow q K [with_start fr0 start] [L] p fuel = map (map RDef) (follow_spec L (E_out K fr0) start fuel).
Proof.
  intros Hnd HL Hq Hinv Hkey0. induction fuel as [|fuel IH]; intros p start Hstart; [reflexivity|].
  cbn [follow follow_spec]. rewrite nth_limit_const.
  replace (Z.eqb L 0) with false by (symmetry; apply Z.eqb_neq; lia).
  cbn [many_related]. replace (0 <? L) with true by (symmetry; apply Z.ltb_lt; lia). cbn [orb].
  unfold related.
  assert (Hfi : f_inv (with_start fr0 start) = false) by (destruct start; exact Hinv).
  rewrite Hfi, Hq.
  assert (HE : E_out K (with_start fr0 start) = E_out K fr0) by (destruct start; reflexivity).
  assert (Hk : f_key (with_start fr0 start) = start) by (destruct start; [reflexivity | exact Hkey0]).
  rewrite (related_out_page K (with_start fr0 start) L Hnd) by (rewrite HE, Hk; exact Hstart).
  rewrite HE, Hk.
  pose proof (page_take_cont_in L (rest (E_out K fr0) start) [] None) as Hci.
  pose proof (page_take_sub L (rest (E_out K fr0) start) [] None) as Hsub.
  destruct (page_take L (rest (E_out K fr0) start) [] None) as [pg c]. cbn [fst snd] in Hci, Hsub.
  rewrite app_nil_r.
  destruct c as [s|]; cbn [option_map map]; [|reflexivity].
  replace (L <=? 0) with false by (symmetry; apply Z.leb_gt; lia).
  f_equal.
  assert (Hw : with_key (with_start fr0 start) s = with_start fr0 (Some s)) by (destruct start; reflexivity).
  rewrite Hw.
  apply IH. right. exists s. split; [reflexivity|].
    assert (Hin : In s pg) by (apply Hci; [discriminate | reflexivity]).
    apply Hsub in Hin. destruct Hin as [[]|Hin]. eapply rest_sub; eassumption.
Qed.

Theorem follow_in_pages q K fr0 L : NoDup K -> 0 < L ->
  q_inv1 q = false -> f_inv fr0 = true -> f_key fr0 = None ->
  forall fuel p start, (start = None \/ exists s, start = Some s /\ In s (E_in K fr0)) ->
  follow q K [with_start fr0 start] [L] p fuel = map (map RDef) (follow_spec L (E_in K fr0) start fuel).
Proof.
  intros Hnd HL Hq Hinv Hkey0. induction fuel as [|fuel IH]; intros p start Hstart; [reflexivity|].
  cbn [follow follow_spec]. rewrite nth_limit_const.
  replace (Z.eqb L 0) with false by (symmetry; apply Z.eqb_neq; lia).
  cbn [many_related]. replace (0 <? L) with true by (symmetry; apply Z.ltb_lt; lia). cbn [orb].
  unfold related, related_in.
  assert (Hfi : f_inv (with_start fr0 start) = true) by (destruct start; exact Hinv).
  rewrite Hfi, Hq.
  assert (HE : E_in K (with_start fr0 start) = E_in K fr0) by (destruct start; reflexivity).
  assert (Hk : f_key (with_start fr0 start) = start) by (destruct start; [reflexivity | exact Hkey0]).
  rewrite (related_in_fixed_page K (with_start fr0 start) L Hnd) by (rewrite HE, Hk; exact Hstart).
  rewrite HE, Hk.
  pose proof (page_take_cont_in L (rest (E_in K fr0) start) [] None) as Hci.
  pose proof (page_take_sub L (rest (E_in K fr0) start) [] None) as Hsub.
  destruct (page_take L (rest (E_in K fr0) start) [] None) as [pg c]. cbn [fst snd] in Hci, Hsub.
  rewrite app_nil_r.
  destruct c as [s|]; cbn [option_map map]; [|reflexivity].
  replace (L <=? 0) with false by (symmetry; apply Z.leb_gt; lia).
  f_equal.
  assert (Hw : with_key (with_start fr0 start) s = with_start fr0 (Some s)) by (destruct start; reflexivity).
  rewrite Hw.
  apply IH. right. exists s. split; [reflexivity|].
    assert (Hin : In s pg) by (apply Hci; [discriminate | reflexivity]).
    apply Hsub in Hin. destruct Hin as [[]|Hin]. eapply rest_sub; eassumption.
Qed.
