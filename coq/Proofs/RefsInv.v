(** The write path of the reference index refines the graph of the latest versions:
    in every reachable state, for every (src, p, tgt, dataset) and every instant [at_], the
    (time, deleted)-greatest key recorded at or before [at_] is live iff the version of [src]
    visible at [at_] in that dataset is not deleted and carries (p, tgt).
    Proved for every duplicate-handling mode and every equality that compares the deleted flag
    and the references ([f_lenkeys = false]); in-batch repeats, transactions included. *)
From Coq Require Import List ZArith Bool Lia Sorting.Permutation.
From DH Require Import Model.Store Model.Refs Model.Query Model.GraphSpec
     Proofs.StoreProofs Proofs.RefsProofs Proofs.QueryProofs.
Import ListNotations.
Open Scope Z_scope.

(** ** versions visible at an instant *)
Definition upto (at_ : Z) (E : list entry) : list entry := filter (fun e => en_time e <=? at_) E.

Definition klt_b (b e : entry) : bool :=
  (en_time b <? en_time e) || (Z.eqb (en_time b) (en_time e) && (en_bidx b <? en_bidx e)).

Lemma klt_b_true b e : klt b e -> klt_b b e = true.
Proof.
  unfold klt, klt_b. intros [H|[H1 H2]].
  - apply orb_true_iff. left. now apply Z.ltb_lt.
  - apply orb_true_iff. right. apply andb_true_iff. split; [now apply Z.eqb_eq | now apply Z.ltb_lt].
Qed.

Lemma best_version_last id at_ l : forall best,
  ksorted l -> (forall b, best = Some b -> Forall (klt b) l) ->
  best_version id at_ l best = match last_entry (upto at_ l) id with Some e => Some e | None => best end.
Proof.
  induction l as [|e l IH]; intros best Hs Hb; cbn [best_version upto filter last_entry].
  - reflexivity.
  - destruct Hs as [He Hs]. fold (upto at_ l).
    destruct (Z.eqb_spec (en_id e) id) as [Hid|Hid]; cbn [andb].
    + destruct (en_time e <=? at_) eqn:Et.
      * assert (Hgoal : best_version id at_ l (Some e)
                        = match last_entry (e :: upto at_ l) id with Some e0 => Some e0 | None => best end).
        { rewrite IH; [|assumption|intros b [= <-]; exact He].
          cbn [last_entry]. destruct (last_entry (upto at_ l) id); [reflexivity|].
          destruct (Z.eqb_spec (en_id e) id); [reflexivity | contradiction]. }
        destruct best as [b|]; [|exact Hgoal].
        specialize (Hb b eq_refl). inversion Hb as [|? ? Hbe Hbl]; subst.
        fold (klt_b b e). rewrite (klt_b_true _ _ Hbe). exact Hgoal.
      * apply IH; [assumption|]. intros b Hbb. specialize (Hb b Hbb). now inversion Hb.
    + destruct (en_time e <=? at_) eqn:Et.
      * rewrite IH; [|assumption|intros b Hbb; specialize (Hb b Hbb); now inversion Hb].
        cbn [last_entry]. destruct (last_entry (upto at_ l) id); [reflexivity|].
        destruct (Z.eqb_spec (en_id e) id); [contradiction | reflexivity].
      * apply IH; [assumption|]. intros b Hbb. specialize (Hb b Hbb). now inversion Hb.
Qed.

Lemma version_at_last d id at_ : ksorted (d_entries d) ->
  version_at d id at_ = last_entry (upto at_ (d_entries d)) id.
Proof.
  intros Hs. unfold version_at. rewrite best_version_last; [|assumption|discriminate].
  destruct (last_entry (upto at_ (d_entries d)) id); reflexivity.
Qed.

Lemma upto_app at_ E P : upto at_ (E ++ P) = upto at_ E ++ upto at_ P.
Proof. apply filter_app. Qed.

Lemma upto_all at_ E : Forall (fun e => en_time e <= at_) E -> upto at_ E = E.
Proof.
  induction 1 as [|e E He _ IH]; cbn [upto filter]; [reflexivity|].
  replace (en_time e <=? at_) with true by (symmetry; now apply Z.leb_le). fold (upto at_ E). now rewrite IH.
Qed.

Lemma upto_none at_ E : Forall (fun e => at_ < en_time e) E -> upto at_ E = [].
Proof.
  induction 1 as [|e E He _ IH]; cbn [upto filter]; [reflexivity|].
  replace (en_time e <=? at_) with false by (symmetry; apply Z.leb_gt; lia). exact IH.
Qed.

(** ** the version part of the loop for ANY duplicate-handling mode (StoreProofs proves it for the repaired one) *)
Lemma batch_step_linv_any fl dm d clk t i acc e :
  dinv clk d -> clk < t -> 0 <= i ->
  linv d t i acc (efeed (d_entries d ++ a_pend acc)) ->
  let acc' := batch_step fl dm d t acc (i, e) in
  linv d t (i + 1) acc' (efeed (d_entries d ++ a_pend acc')).
Proof.
  intros Hd Ht Hi [Hfeed Hloc Hlat Hpend Hps Hnext Hseqs].
  destruct e as [id c]. unfold batch_step. cbn [e_id e_c].
  destruct (keep_decision fl dm (stored_latest d id) (assoc id (a_loc acc)) c).
  - set (en := {| en_seq := a_next acc; en_id := id; en_time := t; en_bidx := i; en_c := c |}).
    cbv zeta. constructor; cbn [a_loc a_pend a_latest a_next].
    + reflexivity.
    + intros id'. rewrite assoc_cons, efeed_app. cbn [efeed map en_id en_c en].
      rewrite current_of_snoc, Z.eqb_sym. destruct (Z.eqb id id'); [reflexivity | apply Hloc].
    + intros id'. rewrite assoc_cons, app_assoc, last_entry_snoc. cbn [en_id en]. rewrite Z.eqb_sym.
      destruct (Z.eqb id id'); [reflexivity | apply Hlat].
    + apply Forall_app; split.
      * eapply Forall_impl; [|exact Hpend]. cbv beta. intros ? [? ?]; split; [assumption | lia].
      * constructor; [|constructor]. cbn. split; [reflexivity | lia].
    + apply ksorted_snoc; [exact Hps|].
      eapply Forall_impl; [|exact Hpend]. cbv beta. intros x [Hx1 Hx2]. right. cbn [en_time en_bidx en]. lia.
    + rewrite app_length. cbn [length]. lia.
    + rewrite map_app, app_length, Hseqs. cbn [map length en_seq en].
      replace (length (a_pend acc) + 1)%nat with (S (length (a_pend acc))) by lia.
      rewrite zseq_snoc, Hnext. reflexivity.
  - cbv zeta. constructor; try assumption; try reflexivity.
    eapply Forall_impl; [|exact Hpend]. cbv beta. intros ? [? ?]; split; [assumption | lia].
Qed.

Lemma linv_dinv d clk t i acc :
  dinv clk d -> clk < t ->
  linv d t i acc (efeed (d_entries d ++ a_pend acc)) ->
  dinv t {| d_entries := d_entries d ++ a_pend acc; d_latest := a_latest acc; d_next := a_next acc |}.
Proof.
  intros Hd Ht [Hfeed Hloc Hlat Hpend Hps Hnext Hseqs].
  constructor; cbn [d_entries d_latest d_next].
  - exact Hlat.
  - apply ksorted_app; [exact (dinv_sorted _ _ Hd) | exact Hps |].
    intros x y Hx Hy. left.
    pose proof (dinv_times _ _ Hd) as Htl. unfold times_le in Htl. rewrite Forall_forall in Htl, Hpend.
    specialize (Htl x Hx). destruct (Hpend y Hy). lia.
  - apply Forall_app; split.
    + eapply Forall_impl; [|exact (dinv_times _ _ Hd)]. cbv beta. intros; lia.
    + eapply Forall_impl; [|exact Hpend]. cbv beta. intros ? [? ?]; lia.
  - rewrite map_app, app_length, (dinv_seqs _ _ Hd), Hseqs, zseq_app, (dinv_next _ _ Hd). reflexivity.
  - rewrite Hnext, app_length, (dinv_next _ _ Hd). lia.
Qed.

(** ** membership after a list of Set / Delete operations *)
Lemma fold_rop_no_del ops x : forall K,
  ~ In (RDel x) ops -> (In x (fold_left apply_rop ops K) <-> In x K \/ In (RSet x) ops).
Proof.
  induction ops as [|o ops IH]; intros K Hnd; cbn [fold_left In]; [tauto|].
  rewrite IH by (intros H; apply Hnd; now right).
  destruct o as [k|k]; cbn [apply_rop].
  - rewrite kset_add_In. split.
    + intros [[->|H]|H]; [right; now left | now left | right; now right].
    + intros [H|[[= ->]|H]]; [left; now right | left; now left | now right].
  - rewrite kset_del_In. split.
    + intros [[_ H]|H]; [now left | right; now right].
    + intros [H|[[=]|H]]; [|now right]. left. split; [|assumption]. intros ->. apply Hnd. now left.
Qed.

Lemma fold_rop_no_set ops x : forall K,
  ~ In (RSet x) ops -> (In x (fold_left apply_rop ops K) <-> In x K /\ ~ In (RDel x) ops).
Proof.
  induction ops as [|o ops IH]; intros K Hns; cbn [fold_left In]; [tauto|].
  rewrite IH by (intros H; apply Hns; now right).
  destruct o as [k|k]; cbn [apply_rop].
  - rewrite kset_add_In. split.
    + intros [[->|H] H2]; [exfalso; apply Hns; now left|]. split; [assumption|]. intros [[=]|H3]. contradiction.
    + intros [H H2]. split; [now right|]. intros H3. apply H2. now right.
  - rewrite kset_del_In. split.
    + intros [[Hne H] H2]. split; [assumption|]. intros [[= ->]|H3]; [congruence | contradiction].
    + intros [H H2]. split; [split; [|assumption]|].
      * intros ->. apply H2. now left.
      * intros H3. apply H2. now right.
Qed.

(** ** equality that looks at the deleted flag and the references *)
Lemma kvlist_eqb_refs a : forall b, kvlist_eqb rval_eqb a b = true ->
  flat_map (fun pr => map (fun t => (fst pr, t)) (rv_tgts (snd pr))) a
  = flat_map (fun pr => map (fun t => (fst pr, t)) (rv_tgts (snd pr))) b.
Proof.
  induction a as [|[k v] a IH]; intros [|[k' v'] b]; cbn [kvlist_eqb flat_map]; try congruence.
  rewrite !andb_true_iff. intros [[Hk Hv] Hr]. apply Z.eqb_eq in Hk. subst k'.
  unfold rval_eqb in Hv. apply andb_true_iff in Hv. destruct Hv as [_ Hv]. apply zlist_eqb_eq in Hv.
  cbn [fst snd]. rewrite Hv, (IH _ Hr). reflexivity.
Qed.

Lemma content_eqb_refs fl l c : f_lenkeys fl = false -> content_eqb fl l c = true ->
  c_del l = c_del c /\ flat_refs l = flat_refs c.
Proof.
  intros Hfl. unfold content_eqb. rewrite Hfl, !andb_true_iff, eqb_true_iff.
  intros [[Hd Hr] _]. split; [assumption|]. unfold flat_refs. now apply kvlist_eqb_refs.
Qed.

(** ** live_at depends only on the keys of the fact recorded up to the instant *)
Lemma live_at_ext K K' at_ src p tgt ds :
  (forall k, same_fact src p tgt ds k -> r_time k <= at_ -> (In k K <-> In k K')) ->
  live_at K at_ src p tgt ds -> live_at K' at_ src p tgt ds.
Proof.
  intros Hext (k & Hin & Hsf & Ht & Hl & Hmax).
  exists k. split; [now apply Hext|]. split; [assumption|]. split; [assumption|]. split; [assumption|].
  intros k' Hin' Hsf' Ht'. apply Hmax; try assumption. now apply Hext.
Qed.

Lemma mkk_same_fact src t ds del p tgt : same_fact src p tgt ds (mkk src t ds del (p, tgt)).
Proof. repeat split. Qed.

Lemma same_fact_mkk src p tgt ds k : same_fact src p tgt ds k -> k = mkk src (r_time k) ds (r_del k) (p, tgt).
Proof. intros (<- & <- & <- & <-). destruct k; reflexivity. Qed.

Definition cur_refs (c : option content) : list (Z * uri) :=
  match c with Some c => if c_del c then [] else flat_refs c | None => [] end.

(** what the keys of the running batch (time [T]) plus the pre-batch keys [K0] say about a fact *)
Definition status (K0 : list rk) (clk : Z) (keys : list rk) (T ds src : Z) (f : Z * uri) : Prop :=
  ~ In (mkk src T ds true f) keys
  /\ (In (mkk src T ds false f) keys \/ live_at K0 clk src (fst f) (snd f) ds).

Section Batch.
  Variables (fl : eqflags) (dm : dup_mode) (ds : Z) (d : dstate) (clk T : Z) (K0 : list rk) (known0 : list uri).
  Hypothesis Hfl : f_lenkeys fl = false.
  Hypothesis Hd : dinv clk d.
  Hypothesis HT : clk < T.
  Hypothesis HK0t : forall k, In k K0 -> r_ds k = ds -> r_time k <= clk.
  Hypothesis HK0known : forall k, In k K0 -> zmem (r_src k) known0 = true.
  Hypothesis HK0nd : NoDup K0.
  (** the invariant before the batch, for this dataset, at the instant [clk] *)
  Hypothesis HI4 : forall src p tgt, live_at K0 clk src p tgt ds <-> In (p, tgt) (cur_refs (stored_latest d src)).

  Definition cur (acc : racc) (src : uri) : option content :=
    match assoc src (a_loc (ra_b acc)) with Some c => Some c | None => stored_latest d src end.

  Record rlinv (i : Z) (acc : racc) : Prop := {
    rl_b : linv d T i (ra_b acc) (efeed (d_entries d ++ a_pend (ra_b acc)));
    rl_nd : NoDup (ra_keys acc);
    rl_frame : forall k, r_ds k <> ds \/ r_time k <> T -> (In k (ra_keys acc) <-> In k K0);
    rl_known : forall k, In k (ra_keys acc) -> zmem (r_src k) (ra_known acc) = true;
    rl_mono : forall x, zmem x known0 = true -> zmem x (ra_known acc) = true;
    rl_local : forall k, In k (ra_keys acc) -> r_ds k = ds -> r_time k = T -> assoc (r_src k) (a_loc (ra_b acc)) <> None;
    rl_status : forall src f, status K0 clk (ra_keys acc) T ds src f <-> In f (cur_refs (cur acc src))
  }.

  Lemma known_add_mono l x y : zmem y l = true -> zmem y (known_add l x) = true.
  Proof.
    unfold known_add. destruct (zmem x l) eqn:E; [tauto|]. intros H. unfold zmem in *. cbn [existsb]. rewrite H. apply orb_true_r.
  Qed.
  Lemma known_add_in l x : zmem x (known_add l x) = true.
  Proof. unfold known_add. destruct (zmem x l) eqn:E; [assumption|]. unfold zmem. cbn [existsb]. now rewrite Z.eqb_refl. Qed.
  Lemma fold_known_add_mono xs : forall l y, zmem y l = true -> zmem y (fold_left known_add xs l) = true.
  Proof. induction xs as [|x xs IH]; intros l y H; cbn [fold_left]; [assumption|]. apply IH, known_add_mono, H. Qed.

  Lemma mkk_inj src t del f src' t' del' f' :
    mkk src t ds del f = mkk src' t' ds del' f' -> src = src' /\ t = t' /\ del = del' /\ f = f'.
  Proof. destruct f, f'. unfold mkk. cbn. intros [= -> -> -> -> ->]. auto. Qed.

  Lemma pmem_false f l : pmem f l = false <-> ~ In f l.
  Proof. rewrite <- pmem_In. destruct (pmem f l); split; congruence. Qed.

  (** membership in the keys after the reference operations of one kept element *)
  Lemma ref_ops_In isnew prev difflocal id c K x :
    In x (fold_left apply_rop (ref_ops ds T isnew prev difflocal id c) K) <->
    if isnew then In x K \/ exists f, In f (flat_refs c) /\ x = mkk id T ds (c_del c) f
    else
      let old := match prev with Some p => flat_refs p | None => [] end in
      if c_del c then In x K \/ exists f, In f old /\ x = mkk id T ds true f
      else
        (In x K /\ ~ (difflocal = true /\ exists f, In f (flat_refs c) /\ x = mkk id T ds true f))
        \/ (exists f, In f (flat_refs c) /\ x = mkk id T ds false f)
        \/ (exists f, In f old /\ ~ In f (flat_refs c) /\ x = mkk id T ds true f).
  Proof.
    unfold ref_ops. destruct isnew.
    - rewrite fold_rop_no_del.
      + rewrite in_map_iff. split; (intros [H|(f & H1 & H2)]; [now left | right; exists f]).
        * injection H1 as <-. tauto.
        * split; [now subst | assumption].
      + rewrite in_map_iff. intros (f & [=] & _).
    - cbv zeta. set (old := match prev with Some p => flat_refs p | None => [] end).
      destruct (c_del c).
      + rewrite fold_rop_no_del.
        * rewrite in_map_iff. split; (intros [H|(f & H1 & H2)]; [now left | right; exists f]).
          -- injection H1 as <-. tauto.
          -- split; [now subst | assumption].
        * rewrite in_map_iff. intros (f & [=] & _).
      + set (ops1 := flat_map (fun f => RSet (mkk id T ds false f) :: (if difflocal then [RDel (mkk id T ds true f)] else [])) (flat_refs c)).
        set (ops2 := map (fun f => RSet (mkk id T ds true f)) (filter (fun f => negb (pmem f (flat_refs c))) old)).
        assert (Hset1 : forall y, In (RSet y) ops1 <-> exists f, In f (flat_refs c) /\ y = mkk id T ds false f).
        { intros y. unfold ops1. rewrite in_flat_map. split.
          - intros (f & Hf & [H|H]); [injection H as <-; eauto|]. destruct difflocal; [destruct H as [[=]|[]] | destruct H].
          - intros (f & Hf & ->). exists f. split; [assumption | now left]. }
        assert (Hdel1 : forall y, In (RDel y) ops1 <-> difflocal = true /\ exists f, In f (flat_refs c) /\ y = mkk id T ds true f).
        { intros y. unfold ops1. rewrite in_flat_map. split.
          - intros (f & Hf & [[=]|H]). destruct difflocal; [|destruct H]. destruct H as [[= <-]|[]]. eauto.
          - intros (-> & f & Hf & ->). exists f. split; [assumption|]. right. now left. }
        assert (Hset2 : forall y, In (RSet y) ops2 <-> exists f, In f old /\ ~ In f (flat_refs c) /\ y = mkk id T ds true f).
        { intros y. unfold ops2. rewrite in_map_iff. split.
          - intros (f & [= <-] & Hf). apply filter_In in Hf. destruct Hf as [Hf1 Hf2].
            apply negb_true_iff, pmem_false in Hf2. eauto.
          - intros (f & Hf1 & Hf2 & ->). exists f. split; [reflexivity|]. apply filter_In. split; [assumption|].
            now apply negb_true_iff, pmem_false. }
        assert (Hdel2 : forall y, ~ In (RDel y) ops2).
        { intros y. unfold ops2. rewrite in_map_iff. intros (f & [=] & _). }
        rewrite fold_left_app.
        rewrite (fold_rop_no_del ops2 x) by apply Hdel2. rewrite Hset2.
        (* a key of ops1 is either Set or Deleted, never both *)
        destruct (in_dec rk_eq_dec x (map (fun f => mkk id T ds false f) (flat_refs c))) as [Hx|Hx].
        * apply in_map_iff in Hx. destruct Hx as (f & <- & Hf).
          rewrite fold_rop_no_del.
          -- rewrite Hset1. split.
             ++ intros _. right. left. eauto.
             ++ intros _. left. right. eauto.
          -- rewrite Hdel1. intros (_ & f' & _ & He). apply mkk_inj in He. destruct He as (_ & _ & [=] & _).
        * rewrite fold_rop_no_set.
          -- rewrite Hdel1. split.
             ++ intros [[H1 H2]|H]; [left; tauto | right; right; assumption].
             ++ intros [[H1 H2]|[(f & Hf & ->)|H]]; [left; tauto | | right; assumption].
                exfalso. apply Hx. apply in_map_iff. eauto.
          -- rewrite Hset1. intros (f & Hf & ->). apply Hx. apply in_map_iff. eauto.
  Qed.

  Lemma assoc_cons_loc id c loc src :
    match (if Z.eqb src id then Some c else assoc src loc) with Some c' => Some c' | None => stored_latest d src end
    = if Z.eqb src id then Some c else match assoc src loc with Some c' => Some c' | None => stored_latest d src end.
  Proof. destruct (Z.eqb src id); reflexivity. Qed.

  Lemma rbatch_step_rlinv i acc e :
    0 <= i -> rlinv i acc -> rlinv (i + 1) (rbatch_step fl dm ds d T acc (i, e)).
  Proof.
    intros Hi [Hb Hnd Hframe Hknown Hmono Hlocal Hstatus].
    destruct e as [id c]. unfold rbatch_step. cbn [snd e_id e_c].
    pose proof (batch_step_linv_any fl dm d clk T i (ra_b acc) {| e_id := id; e_c := c |} Hd HT Hi Hb) as Hb'.
    cbv zeta in Hb'.
    set (known1 := known_add (ra_known acc) id).
    destruct (keep_decision fl dm (stored_latest d id) (assoc id (a_loc (ra_b acc))) c) eqn:Ekeep.
    2:{ (* skipped: nothing changes but the asserted id *)
      assert (Hsame : batch_step fl dm d T (ra_b acc) (i, {| e_id := id; e_c := c |}) = ra_b acc).
      { unfold batch_step. cbn [e_id e_c]. now rewrite Ekeep. }
      constructor; cbn [ra_b ra_known ra_keys]; try assumption.
      - intros k Hk. apply known_add_mono. now apply Hknown.
      - intros x Hx. apply known_add_mono. now apply Hmono.
      - rewrite Hsame. exact Hlocal.
      - intros src f. unfold cur. cbn [ra_b]. rewrite Hsame. apply Hstatus. }
    (* kept *)
    assert (Hstep : batch_step fl dm d T (ra_b acc) (i, {| e_id := id; e_c := c |})
                    = {| a_loc := (id, c) :: a_loc (ra_b acc);
                         a_pend := a_pend (ra_b acc) ++ [{| en_seq := a_next (ra_b acc); en_id := id; en_time := T; en_bidx := i; en_c := c |}];
                         a_latest := (id, (T, i)) :: a_latest (ra_b acc);
                         a_next := a_next (ra_b acc) + 1 |}).
    { unfold batch_step. cbn [e_id e_c]. now rewrite Ekeep. }
    set (isnew := negb (zmem id (ra_known acc))).
    set (loc := assoc id (a_loc (ra_b acc))).
    set (prev := match loc with Some l => Some l | None => stored_latest d id end).
    set (difflocal := if isnew then true else match loc with Some l => negb (content_eqb fl l c) | None => false end).
    set (keys' := fold_left apply_rop (ref_ops ds T isnew prev difflocal id c) (ra_keys acc)).
    assert (Hin' : forall x, In x keys' <-> _) by (intros x; apply ref_ops_In).
    (* no key with source [id] yet when the id is new *)
    assert (Hnew : isnew = true -> forall k, In k (ra_keys acc) -> r_src k <> id).
    { unfold isnew. intros Hn k Hk Hs. apply Hknown in Hk. rewrite Hs in Hk. rewrite Hk in Hn. discriminate. }
    assert (Hnew0 : isnew = true -> forall k, In k K0 -> r_src k <> id).
    { unfold isnew. intros Hn k Hk Hs. apply HK0known, Hmono in Hk. rewrite Hs in Hk. rewrite Hk in Hn. discriminate. }
    (* every new / removed key has source id, time T, dataset ds *)
    assert (Htouch : forall x, (In x keys' <-> In x (ra_keys acc)) \/ (r_src x = id /\ r_time x = T /\ r_ds x = ds)).
    { intros x. destruct (Z.eq_dec (r_src x) id) as [Es|Es]; [destruct (Z.eq_dec (r_time x) T) as [Et|Et]; [destruct (Z.eq_dec (r_ds x) ds) as [Ed|Ed]|]|];
        [right; auto | left | left | left].
      all: rewrite Hin'; destruct isnew; cbv zeta; [|destruct (c_del c)].
      all: split; [ intros H | intros H; try (now left) ].
      all: repeat match goal with
                  | H : _ \/ _ |- _ => destruct H
                  | H : _ /\ _ |- _ => destruct H
                  | H : exists _, _ |- _ => destruct H
                  end; try assumption; try (subst x; cbn in *; congruence).
      all: left; split; [assumption|]; intros (_ & f & _ & ->); cbn in *; congruence. }
    constructor; cbn [ra_b ra_known ra_keys]; fold known1 isnew loc prev difflocal keys'.
    - exact Hb'.
    - apply fold_rop_NoDup, Hnd.
    - intros k Hk. destruct (Htouch k) as [Hsame|(E1 & E2 & E3)]; [rewrite Hsame; now apply Hframe|].
      destruct Hk; contradiction.
    - (* sources known *)
      assert (Hk1 : forall y, zmem y known1 = true ->
                 zmem y (let known2 := if isnew then known1 else fold_left known_add (match prev with Some p => ref_uris p | None => [] end) known1 in
                         if isnew || negb (c_del c) then fold_left known_add (ref_uris c) known2 else known2) = true).
      { intros y Hy. cbv zeta. destruct isnew; cbn [orb].
        - now apply fold_known_add_mono.
        - destruct (negb (c_del c)); [apply fold_known_add_mono|]; now apply fold_known_add_mono. }
      intros k Hk. apply Hk1. destruct (Htouch k) as [Hsame|(E1 & _)].
      + apply known_add_mono, Hknown. now apply Hsame.
      + rewrite E1. apply known_add_in.
    - intros x Hx. cbv zeta.
      assert (Hx1 : zmem x known1 = true) by (apply known_add_mono, Hmono, Hx).
      destruct isnew; cbn [orb].
      + now apply fold_known_add_mono.
      + destruct (negb (c_del c)); [apply fold_known_add_mono|]; now apply fold_known_add_mono.
    - (* keys of this batch belong to ids with an in-batch predecessor *)
      intros k Hk Eds Et. rewrite Hstep. cbn [a_loc]. rewrite assoc_cons.
      destruct (Z.eqb_spec (r_src k) id) as [Es|Es]; [discriminate|].
      destruct (Htouch k) as [Hsame|(E1 & _)]; [|contradiction].
      apply Hlocal; [now apply Hsame | assumption | assumption].
    - (* the status of every fact follows the newest version *)
      intros src f. unfold cur. cbn [ra_b]. rewrite Hstep. cbn [a_loc]. rewrite assoc_cons, assoc_cons_loc.
      destruct (Z.eqb_spec src id) as [->|Hne].
      2:{ (* another source: untouched *)
        fold (cur acc src). rewrite <- Hstatus. unfold status.
        assert (H1 : forall del, In (mkk src T ds del f) keys' <-> In (mkk src T ds del f) (ra_keys acc)).
        { intros del. destruct (Htouch (mkk src T ds del f)) as [Hsame|(E1 & _)]; [exact Hsame|]. cbn in E1. contradiction. }
        rewrite !H1. reflexivity. }
      (* the source being written *)
      pose proof (Hstatus id f) as Hst. unfold cur in Hst. fold loc in Hst.
      assert (Hprev : prev = match loc with Some c0 => Some c0 | None => stored_latest d id end) by reflexivity.
      rewrite <- Hprev in Hst.
      unfold status. rewrite !Hin'. cbn [cur_refs].
      destruct isnew eqn:Enew.
      + (* first use of the URI: only its own keys *)
        assert (Hno : forall del, ~ In (mkk id T ds del f) (ra_keys acc)).
        { intros del Hk. apply (Hnew eq_refl _ Hk). reflexivity. }
        assert (Hno0 : ~ live_at K0 clk id (fst f) (snd f) ds).
        { intros (k & Hk & (Es & _) & _). exact (Hnew0 eq_refl _ Hk Es). }
        destruct (c_del c) eqn:Edel.
        * split; [|intros []].
          intros [H1 [[H2|(f' & Hf' & He)]|H2]]; try contradiction; [exact (Hno _ H2)|].
          apply mkk_inj in He. destruct He as (_ & _ & [=] & _).
        * split.
          -- intros [H1 [[H2|(f' & Hf' & He)]|H2]]; try contradiction; [exfalso; exact (Hno _ H2)|].
             apply mkk_inj in He. destruct He as (_ & _ & _ & ->). assumption.
          -- intros Hf. split.
             ++ intros [H2|(f' & Hf' & He)]; [exact (Hno _ H2)|]. apply mkk_inj in He. destruct He as (_ & _ & [=] & _).
             ++ left. right. eauto.
      + cbv zeta. destruct (c_del c) eqn:Edel.
        * (* deleted: tombstones for the previous references *)
          split; [|intros []].
          intros [H1 H2].
          assert (Hnold : ~ In f (match prev with Some p => flat_refs p | None => [] end)).
          { intros Hf. apply H1. right. eauto. }
          assert (Hst' : status K0 clk (ra_keys acc) T ds id f).
          { split.
            - intros Hk. apply H1. now left.
            - destruct H2 as [[H2|(f' & _ & He)]|H2]; [now left | | now right].
              apply mkk_inj in He. destruct He as (_ & _ & [=] & _). }
          apply Hst in Hst'. apply Hnold. destruct prev as [pc|]; [|destruct Hst'].
          cbn [cur_refs] in Hst'. destruct (c_del pc); [destruct Hst' | exact Hst'].
        * (* live: own references live, same-time tombstones removed when different locally, the rest of old tombstoned *)
          set (old := match prev with Some p => flat_refs p | None => [] end) in *.
          assert (Hcurold : forall g, In g (cur_refs prev) -> In g old).
          { intros g. unfold old. destruct prev as [pc|]; cbn [cur_refs]; [|tauto]. destruct (c_del pc); [intros [] | tauto]. }
          split.
          -- intros [H1 H2].
             destruct (pmem f (flat_refs c)) eqn:Epm; [now apply pmem_In in Epm | apply pmem_false in Epm; rename Epm into Hf].
             exfalso.
             (* f is not a reference of the new version: it must not be live *)
             assert (Hnold : ~ In f old).
             { intros Ho. apply H1. right. right. eauto. }
             assert (Hst' : status K0 clk (ra_keys acc) T ds id f).
             { split.
               - intros Hk. apply H1. left. split; [assumption|]. intros (_ & f' & Hf' & He).
                 apply mkk_inj in He. destruct He as (_ & _ & _ & ->). contradiction.
               - destruct H2 as [[[H2 _]|[(f' & Hf' & He)|(f' & _ & _ & He)]]|H2]; [now left | | | now right].
                 + apply mkk_inj in He. destruct He as (_ & _ & _ & ->). contradiction.
                 + apply mkk_inj in He. destruct He as (_ & _ & [=] & _). }
             apply Hst in Hst'. apply Hnold, Hcurold, Hst'.
          -- intros Hf. split.
             ++ intros [[Hk Hnot]|[(f' & _ & He)|(f' & _ & Hnf & He)]].
                ** (* an earlier tombstone of this batch survives only if not different locally *)
                   assert (Hdl : difflocal = false).
                   { destruct difflocal; [|reflexivity]. exfalso. apply Hnot. split; [reflexivity|]. eauto. }
                   unfold difflocal in Hdl.
                   assert (Hlocal' := Hlocal _ Hk eq_refl eq_refl). cbn [mkk r_src] in Hlocal'. fold loc in Hlocal'.
                   destruct loc as [l|] eqn:El; [|congruence].
                   apply negb_false_iff in Hdl.
                   destruct (content_eqb_refs fl l c Hfl Hdl) as [Hdel' Hrefs].
                   assert (Hst' : In f (cur_refs prev)).
                   { rewrite Hprev. cbn [cur_refs]. rewrite Hdel', Edel, Hrefs. exact Hf. }
                   apply Hst in Hst'. destruct Hst' as [Hnt _]. exact (Hnt Hk).
                ** apply mkk_inj in He. destruct He as (_ & _ & [=] & _).
                ** apply mkk_inj in He. destruct He as (_ & _ & _ & ->). contradiction.
             ++ left. right. left. eauto.
  Qed.

  Lemma rbatch_fold_rlinv ents : forall i acc,
    0 <= i -> rlinv i acc ->
    rlinv (i + Z.of_nat (length ents)) (fold_left (rbatch_step fl dm ds d T) (number_from i ents) acc).
  Proof.
    induction ents as [|e ents IH]; intros i acc Hi Hl; cbn [number_from fold_left length].
    - replace (i + Z.of_nat 0) with i by lia. exact Hl.
    - replace (i + Z.of_nat (S (length ents))) with (i + 1 + Z.of_nat (length ents)) by lia.
      apply IH; [lia|]. now apply rbatch_step_rlinv.
  Qed.

  Definition acc0 : racc :=
    {| ra_b := {| a_loc := []; a_pend := []; a_latest := d_latest d; a_next := d_next d |};
       ra_known := known0; ra_keys := K0 |}.

  Lemma rlinv0 : rlinv 0 acc0.
  Proof.
    constructor; cbn [acc0 ra_b ra_known ra_keys a_loc a_pend].
    - constructor; cbn [a_loc a_pend a_latest a_next]; rewrite ?app_nil_r.
      + reflexivity.
      + intros; reflexivity.
      + apply (dinv_ptr _ _ Hd).
      + constructor.
      + exact I.
      + cbn; lia.
      + reflexivity.
    - exact HK0nd.
    - tauto.
    - exact HK0known.
    - tauto.
    - intros k Hk Eds Et. specialize (HK0t k Hk Eds). lia.
    - intros src f. change (cur {| ra_b := {| a_loc := []; a_pend := []; a_latest := d_latest d; a_next := d_next d |};
                                   ra_known := known0; ra_keys := K0 |} src) with (stored_latest d src). unfold status.
      assert (Hno : forall del, ~ In (mkk src T ds del f) K0).
      { intros del Hk. specialize (HK0t _ Hk eq_refl). cbn in HK0t. lia. }
      destruct f as [p tgt]. cbn [fst snd]. change (cur acc0 src) with (stored_latest d src). rewrite <- HI4. split.
      + intros [_ [H|H]]; [exfalso; exact (Hno _ H) | exact H].
      + intros H. split; [apply Hno | now right].
  Qed.
End Batch.

(** ** from the loop invariant back to the index invariant *)
Lemma live_at_after K0 keys clk T ds at_ src p tgt :
  clk < T -> T <= at_ ->
  (forall k, In k K0 -> r_ds k = ds -> r_time k <= clk) ->
  (forall k, r_ds k <> ds \/ r_time k <> T -> (In k keys <-> In k K0)) ->
  (live_at keys at_ src p tgt ds <-> status K0 clk keys T ds src (p, tgt)).
Proof.
  intros HT Hat HK0t Hframe. unfold status. cbn [fst snd].
  assert (Hold : forall k, In k keys -> r_ds k = ds -> r_time k <> T -> In k K0 /\ r_time k <= clk).
  { intros k Hk Hds Ht. assert (Hk0 : In k K0) by (apply Hframe; [now right | assumption]). split; [assumption | now apply HK0t]. }
  split.
  - intros (k & Hk & Hsf & Ht & Hl & Hmax).
    assert (Hds : r_ds k = ds) by apply Hsf.
    split.
    + intros Htomb. apply (Hmax _ Htomb (mkk_same_fact _ _ _ _ _ _)); [cbn; lia|].
      unfold newer. cbn [mkk r_time r_del].
      destruct (Z.eq_dec (r_time k) T) as [E|E]; [right; auto|]. left. destruct (Hold _ Hk Hds E). lia.
    + destruct (Z.eq_dec (r_time k) T) as [E|E].
      * left. rewrite (same_fact_mkk _ _ _ _ _ Hsf), E, Hl in Hk. exact Hk.
      * right. destruct (Hold _ Hk Hds E) as [Hk0 Hle]. exists k. repeat (split; [assumption|]).
        intros k' Hk' Hsf' Ht'. apply Hmax; [|assumption|lia].
        apply Hframe; [|assumption]. right. lia.
  - intros [Hnt Hor].
    destruct (in_dec rk_eq_dec (mkk src T ds false (p, tgt)) keys) as [Hlive|Hnl].
    + exists (mkk src T ds false (p, tgt)). split; [assumption|]. split; [apply mkk_same_fact|]. split; [cbn; lia|].
      split; [reflexivity|].
      intros k' Hk' Hsf' Ht' Hnew. unfold newer in Hnew. cbn [mkk r_time r_del] in Hnew.
      assert (Hds' : r_ds k' = ds) by apply Hsf'.
      destruct Hnew as [Hlt|(Heq & _ & Hd)].
      * assert (E : r_time k' <> T) by lia. destruct (Hold _ Hk' Hds' E). lia.
      * apply Hnt. rewrite (same_fact_mkk _ _ _ _ _ Hsf'), <- Heq, Hd in Hk'. exact Hk'.
    + destruct Hor as [Hlive|(k & Hk0 & Hsf & Ht & Hl & Hmax)]; [contradiction|].
      assert (Hds : r_ds k = ds) by apply Hsf.
      assert (Hle : r_time k <= clk) by now apply HK0t.
      exists k. split; [apply Hframe; [right; lia | assumption]|]. split; [assumption|]. split; [lia|]. split; [assumption|].
      intros k' Hk' Hsf' Ht' Hnew.
      assert (Hds' : r_ds k' = ds) by apply Hsf'.
      destruct (Z.eq_dec (r_time k') T) as [E|E].
      * rewrite (same_fact_mkk _ _ _ _ _ Hsf'), E in Hk'. destruct (r_del k'); contradiction.
      * destruct (Hold _ Hk' Hds' E) as [Hk0' Hle']. exact (Hmax _ Hk0' Hsf' Hle' Hnew).
Qed.

Lemma live_at_before K0 keys T ds at_ src p tgt ds' :
  (ds' <> ds \/ at_ < T) ->
  (forall k, r_ds k <> ds \/ r_time k <> T -> (In k keys <-> In k K0)) ->
  (live_at keys at_ src p tgt ds' <-> live_at K0 at_ src p tgt ds').
Proof.
  intros Hc Hframe.
  assert (Hext : forall k, same_fact src p tgt ds' k -> r_time k <= at_ -> (In k keys <-> In k K0)).
  { intros k (_ & _ & _ & Hds) Ht. apply Hframe. destruct Hc as [Hc|Hc]; [left; congruence | right; lia]. }
  split; apply live_at_ext; intros k Hsf Ht; [|symmetry]; now apply Hext.
Qed.

(** the index invariant of one dataset, with that dataset's own clock *)
Definition live_refs_of (e : option entry) : list (Z * uri) :=
  match e with Some e => if c_del (en_c e) then [] else flat_refs (en_c e) | None => [] end.

Record dsinv (clk : Z) (rs : rstore) (ds : Z) : Prop := {
  di_d : dinv clk (get_ds (rs_st rs) ds);
  di_times : forall k, In k (rs_keys rs) -> r_ds k = ds -> r_time k <= clk;
  di_live : forall at_ src p tgt,
      live_at (rs_keys rs) at_ src p tgt ds <-> In (p, tgt) (live_refs_at (get_ds (rs_st rs) ds) src at_)
}.

Record rinv (cl : Z -> Z) (rs : rstore) : Prop := {
  ri_nd : NoDup (rs_keys rs);
  ri_known : forall k, In k (rs_keys rs) -> zmem (r_src k) (rs_known rs) = true;
  ri_ds : forall ds, dsinv (cl ds) rs ds
}.

Lemma stored_latest_last clk d id : dinv clk d -> stored_latest d id = option_map en_c (last_entry (d_entries d) id).
Proof. intros Hd. rewrite (dinv_latest _ _ Hd). unfold feed_of. fold (efeed (d_entries d)). apply current_of_last_entry. Qed.

Lemma cur_refs_map e : cur_refs (option_map en_c e) = live_refs_of e.
Proof. destruct e; reflexivity. Qed.

Lemma live_refs_at_last clk d id at_ : dinv clk d ->
  live_refs_at d id at_ = live_refs_of (last_entry (upto at_ (d_entries d)) id).
Proof. intros Hd. unfold live_refs_at. rewrite (version_at_last _ _ _ (dinv_sorted _ _ Hd)). reflexivity. Qed.

Lemma ra_b_fold fl dm ds d t l : forall acc,
  ra_b (fold_left (rbatch_step fl dm ds d t) l acc) = fold_left (batch_step fl dm d t) l (ra_b acc).
Proof.
  induction l as [|ie l IH]; intros acc; cbn [fold_left]; [reflexivity|].
  rewrite IH. f_equal. unfold rbatch_step. destruct ie as [i e]. cbn [snd].
  destruct (keep_decision fl dm (stored_latest d (e_id e)) (assoc (e_id e) (a_loc (ra_b acc))) (e_c e)); reflexivity.
Qed.

(** the version part of the reference-aware store is exactly Model/Store.v's *)
Lemma rstore_batch_ds_st fl dm t ds ents rs :
  rs_st (rstore_batch_ds fl dm t ds ents rs) = set_ds (rs_st rs) ds (store_batch_ds fl dm t ents (get_ds (rs_st rs) ds)).
Proof. unfold rstore_batch_ds, store_batch_ds. cbn [rs_st]. now rewrite ra_b_fold. Qed.

Lemma rapply_st fl dm rs o : rs_st (rapply fl dm rs o) = apply_wop fl dm (rs_st rs) o.
Proof.
  unfold rapply, apply_wop. destruct o as [ds ents|sets].
  - rewrite rstore_batch_ds_st. reflexivity.
  - change (tick (rs_st rs)) with (rs_st (rtick rs)). change (s_clock (rs_st (rtick rs))) with (s_clock (tick (rs_st rs))).
    generalize (rtick rs) as r. generalize (s_clock (tick (rs_st rs))) as t.
    induction sets as [|p sets IH]; intros t r; cbn [fold_left]; [reflexivity|].
    rewrite IH, rstore_batch_ds_st. reflexivity.
Qed.

Lemma rrun_st fl dm ops : forall rs, rs_st (rrun fl dm ops rs) = run_wops fl dm ops (rs_st rs).
Proof.
  induction ops as [|o ops IH]; intros rs; cbn [rrun run_wops fold_left]; [reflexivity|].
  unfold rrun, run_wops in IH. rewrite IH, rapply_st. reflexivity.
Qed.

(** ** one dataset's share of a batch keeps the index invariant *)
Lemma rstore_batch_ds_rinv fl dm T ds ents cl rs :
  f_lenkeys fl = false ->
  rinv cl rs -> cl ds < T ->
  rinv (fun x => if Z.eqb x ds then T else cl x) (rstore_batch_ds fl dm T ds ents rs).
Proof.
  intros Hfl [Hnd Hknown Hds] HT.
  destruct (Hds ds) as [Hd Htimes Hlive].
  set (d := get_ds (rs_st rs) ds) in *.
  assert (HI4 : forall src p tgt, live_at (rs_keys rs) (cl ds) src p tgt ds <-> In (p, tgt) (cur_refs (stored_latest d src))).
  { intros src p tgt. rewrite Hlive, (live_refs_at_last _ _ _ _ Hd), (stored_latest_last _ _ _ Hd), cur_refs_map.
    rewrite upto_all by exact (dinv_times _ _ Hd). reflexivity. }
  pose proof (rbatch_fold_rlinv fl dm ds d (cl ds) T (rs_keys rs) (rs_known rs) Hfl Hd HT Hknown ents 0
                                (acc0 d (rs_keys rs) (rs_known rs)) ltac:(lia)
                                (rlinv0 ds d (cl ds) T (rs_keys rs) (rs_known rs) Hd HT Htimes Hknown Hnd HI4)) as HL.
  unfold rstore_batch_ds. fold d. fold (acc0 d (rs_keys rs) (rs_known rs)).
  set (acc := fold_left (rbatch_step fl dm ds d T) (number_from 0 ents) (acc0 d (rs_keys rs) (rs_known rs))) in *.
  destruct HL as [Hb Hnd' Hframe Hknown' Hmono Hlocal Hstatus].
  set (d' := {| d_entries := d_entries d ++ a_pend (ra_b acc); d_latest := a_latest (ra_b acc); d_next := a_next (ra_b acc) |}).
  pose proof (linv_dinv d (cl ds) T _ (ra_b acc) Hd HT Hb) as Hd'. fold d' in Hd'.
  constructor; cbn [rs_keys rs_known rs_st].
  - exact Hnd'.
  - exact Hknown'.
  - intros x. destruct (Z.eqb_spec x ds) as [->|Hne].
    + (* the dataset written *)
      constructor; cbn [rs_keys rs_st]; rewrite ?get_set_same.
      * exact Hd'.
      * intros k Hk Hkds. destruct (Z.eq_dec (r_time k) T) as [E|E]; [lia|].
        assert (Hk0 : In k (rs_keys rs)) by (apply Hframe; [now right | assumption]).
        specialize (Htimes _ Hk0 Hkds). lia.
      * intros at_ src p tgt. rewrite (live_refs_at_last _ _ _ _ Hd'). cbn [d' d_entries]. rewrite upto_app.
        destruct (Z.lt_ge_cases at_ T) as [Hlt|Hge].
        -- (* before the batch: nothing moved *)
           rewrite (live_at_before (rs_keys rs) (ra_keys acc) T ds at_ src p tgt ds) by (auto; now right).
           rewrite (upto_none at_ (a_pend (ra_b acc))), app_nil_r.
           2:{ eapply Forall_impl; [|exact (li_pend _ _ _ _ _ Hb)]. cbv beta. intros e [He _]. lia. }
           rewrite Hlive, (live_refs_at_last _ _ _ _ Hd). reflexivity.
        -- (* at or after the batch: the loop invariant *)
           rewrite (live_at_after (rs_keys rs) (ra_keys acc) (cl ds) T ds at_ src p tgt HT Hge Htimes Hframe).
           rewrite Hstatus. unfold cur.
           rewrite (upto_all at_ (d_entries d)) by (eapply Forall_impl; [|exact (dinv_times _ _ Hd)]; cbv beta; intros; lia).
           rewrite (upto_all at_ (a_pend (ra_b acc))) by (eapply Forall_impl; [|exact (li_pend _ _ _ _ _ Hb)]; cbv beta; intros e [He _]; lia).
           rewrite last_entry_app, (li_loc _ _ _ _ _ Hb), current_of_last_entry, (stored_latest_last _ _ _ Hd).
           destruct (last_entry (a_pend (ra_b acc)) src); cbn [option_map]; [reflexivity|].
           rewrite cur_refs_map. reflexivity.
    + (* another dataset: its keys and versions are untouched *)
      destruct (Hds x) as [Hdx Htx Hlx].
      constructor; cbn [rs_keys rs_st]; rewrite ?get_set_other by assumption.
      * exact Hdx.
      * intros k Hk Hkds. apply Htx; [|assumption]. apply Hframe; [left; congruence | assumption].
      * intros at_ src p tgt.
        rewrite (live_at_before (rs_keys rs) (ra_keys acc) T ds at_ src p tgt x) by (auto; now left).
        apply Hlx.
Qed.

(** ** histories *)
Lemma dsinv_mono clk clk' rs ds : clk <= clk' -> dsinv clk rs ds -> dsinv clk' rs ds.
Proof.
  intros Hle [H1 H2 H3]. constructor; [eapply dinv_mono; eassumption | | assumption].
  intros k Hk Hd. specialize (H2 k Hk Hd). lia.
Qed.

Lemma rinv_ext cl cl' rs : (forall ds, cl ds <= cl' ds) -> rinv cl rs -> rinv cl' rs.
Proof. intros Hle [H1 H2 H3]. constructor; try assumption. intros ds. eapply dsinv_mono; [apply Hle | apply H3]. Qed.

Lemma rinv_tick cl rs : rinv cl rs -> rinv cl (rtick rs).
Proof.
  intros [H1 H2 H3]. constructor; cbn [rtick rs_keys rs_known]; try assumption.
  intros ds. destruct (H3 ds) as [A B C]. constructor; cbn [rtick rs_keys rs_st]; assumption.
Qed.

Lemma txn_fold_rinv fl dm t sets : forall cl r,
  f_lenkeys fl = false ->
  NoDup (map fst sets) -> rinv cl r ->
  (forall ds, In ds (map fst sets) -> cl ds < t) -> (forall ds, cl ds <= t) ->
  exists cl', rinv cl' (fold_left (fun s (p : Z * list ent) => rstore_batch_ds fl dm t (fst p) (snd p) s) sets r)
              /\ forall ds, cl' ds <= t.
Proof.
  induction sets as [|[k ents] sets IH]; intros cl r Hfl Hnd Hr Hlt Hle; cbn [fold_left map fst snd] in *.
  - exists cl. split; assumption.
  - inversion Hnd as [|? ? Hk Hnd']; subst.
    apply (IH (fun x => if Z.eqb x k then t else cl x)); try assumption.
    + apply rstore_batch_ds_rinv; [assumption | assumption | apply Hlt; now left].
    + intros ds Hds. destruct (Z.eqb_spec ds k) as [->|_]; [contradiction | apply Hlt; now right].
    + intros ds. destruct (Z.eqb ds k); [lia | apply Hle].
Qed.

Lemma set_ds_clock st k d : s_clock (set_ds st k d) = s_clock st.
Proof. reflexivity. Qed.

Lemma apply_wop_clock fl dm st o : s_clock (apply_wop fl dm st o) = s_clock st + 1.
Proof.
  unfold apply_wop. destruct o as [ds ents|sets]; [reflexivity|].
  assert (H : forall t l s, s_clock (fold_left (fun s (p : Z * list ent) =>
              set_ds s (fst p) (store_batch_ds fl dm t (snd p) (get_ds s (fst p)))) l s) = s_clock s).
  { intros t l. induction l as [|p l IH]; intros s; cbn [fold_left]; [reflexivity|]. now rewrite IH. }
  rewrite H. reflexivity.
Qed.

Definition rinv_now (rs : rstore) : Prop := rinv (fun _ => s_clock (rs_st rs)) rs.

Lemma rapply_rinv fl dm rs o :
  f_lenkeys fl = false -> wf_wop o -> rinv_now rs -> rinv_now (rapply fl dm rs o).
Proof.
  intros Hfl Hwf Hr. unfold rinv_now in *. rewrite rapply_st, apply_wop_clock.
  set (c := s_clock (rs_st rs)) in *.
  pose proof (rinv_tick _ _ Hr) as Hr1.
  unfold rapply. change (s_clock (rs_st (rtick rs))) with (c + 1).
  destruct o as [ds ents|sets].
  - eapply rinv_ext; [|apply rstore_batch_ds_rinv; [exact Hfl | exact Hr1 | cbv beta; lia]].
    intros x. cbv beta. destruct (Z.eqb x ds); lia.
  - destruct (txn_fold_rinv fl dm (c + 1) sets (fun _ => c) (rtick rs) Hfl Hwf Hr1) as (cl' & Hr' & Hle).
    + intros; lia.
    + intros; lia.
    + eapply rinv_ext; [|exact Hr']. exact Hle.
Qed.

Lemma rinv0 : rinv_now rstore0.
Proof.
  constructor; cbn [rstore0 rs_keys rs_known].
  - constructor.
  - intros k [].
  - intros ds. constructor; cbn [rstore0 rs_keys rs_st].
    + apply sinv0.
    + intros k [].
    + intros at_ src p tgt. split.
      * intros (k & [] & _).
      * unfold live_refs_at, version_at, get_ds, store0. cbn. intros [].
Qed.

Lemma rrun_rinv fl dm ops : forall rs,
  f_lenkeys fl = false -> Forall wf_wop ops -> rinv_now rs -> rinv_now (rrun fl dm ops rs).
Proof.
  induction ops as [|o ops IH]; intros rs Hfl Hwf Hr; cbn [rrun fold_left]; [assumption|].
  inversion Hwf; subst. apply IH; try assumption. now apply rapply_rinv.
Qed.

(** ** the refinement of the reference-key write path, for every history:
    the greatest key at or before an instant is live iff the version visible at that instant
    is not deleted and carries the reference *)
Theorem refs_index_refines fl dm ops :
  f_lenkeys fl = false -> Forall wf_wop ops ->
  let rs := rrun fl dm ops rstore0 in
  NoDup (rs_keys rs)
  /\ forall ds at_ src p tgt,
       live_at (rs_keys rs) at_ src p tgt ds <-> In (p, tgt) (live_refs_at (get_ds (rs_st rs) ds) src at_).
Proof.
  intros Hfl Hwf rs. destruct (rrun_rinv fl dm ops rstore0 Hfl Hwf rinv0) as [Hnd _ Hds]. fold rs in Hnd, Hds.
  split; [exact Hnd|]. intros ds. apply (di_live _ _ _ (Hds ds)).
Qed.
