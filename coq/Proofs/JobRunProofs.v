(** Decision of the C11 outcome property over the finite lattice of job building blocks. *)
From Coq Require Import List Bool.
From DH Require Import Model.JobRun.
Import ListNotations.

Ltac all_cfg c := destruct c as [s t k g j h kl]; destruct s, t, k, g, j, h, kl; vm_compute; reflexivity.

(** repaired variant: every configuration (not only those of the lattice) *)
Lemma outcome_fixed_all (c : cfg) : good_out (run_job jfixed c) = true.
Proof. all_cfg c. Qed.

Lemma lattice_fixed : forallb (fun c => good_out (run_job jfixed c)) all_cfgs = true.
Proof. vm_compute. reflexivity. Qed.

Lemma lattice_size : length all_cfgs = 1440.
Proof. vm_compute. reflexivity. Qed.

Lemma run_accepted v c : o_accepted (run_job v c) = accepted v c.
Proof.
  unfold run_job, run_once. destruct (accepted v c); cbn; [|reflexivity].
  destruct (sync v c) as [[] ?]; cbn; try reflexivity;
    repeat match goal with |- context [if ?b then _ else _] => destruct b; cbn end; reflexivity.
Qed.

Lemma outcome_lattice (c : cfg) : In c all_cfgs -> accepted jfixed c = true ->
  let o := run_job jfixed c in
  o_alive o = true /\ (exists r, o_result o = Some r) /\ o_ticket o = true.
Proof.
  intros Hin Hacc. pose proof (proj1 (forallb_forall _ _) lattice_fixed c Hin) as G.
  unfold good_out in G. rewrite run_accepted, Hacc in G. cbn [negb orb] in G.
  apply andb_true_iff in G. destruct G as [G Ht]. apply andb_true_iff in G. destruct G as [Ha Hr].
  cbn zeta. repeat split; auto. destruct (o_result (run_job jfixed c)); [eauto | discriminate].
Qed.

(** pinned tree: exact set of accepted configurations whose run kills the process *)
Lemma current_char (c : cfg) : good_out (run_job jcurrent c) = negb (dies_current c).
Proof. all_cfg c. Qed.

(** each repair removes its own cause *)
Lemma no_diverge_when_fixed v c : fix_endctx v = true -> fst (sync v c) <> SDiverge.
Proof.
  intros H. destruct v as [a b p q r]. cbn in H. subst a.
  destruct b, p, q, r; destruct c as [s t k g j h kl]; destruct s, t, k, g, j, h, kl; vm_compute; discriminate.
Qed.

Lemma no_nil_handler_when_fixed v c : fix_verify v = true -> handler_nil v c = false.
Proof.
  intros H. unfold handler_nil, handlers_verified. rewrite H. destruct (c_trig c); cbn; apply andb_false_r.
Qed.

Lemma wrapper_loop : forall fuel, wrapped_end_ctx false fuel = None.
Proof. induction fuel; cbn; auto. Qed.
Lemma wrapper_fixed : forall fuel, wrapped_end_ctx true (S fuel) = Some tt.
Proof. reflexivity. Qed.

Ltac solve_in := vm_compute; repeat (first [left; reflexivity | right]).

(** refutation witnesses (pinned tree) *)
Definition w_f11a := {| c_src := SDataset; c_tr := TJs; c_snk := KDevNull; c_trig := GCron; c_jt := JIncr; c_h := HLog; c_kill := false |}.
Definition w_f11b := {| c_src := SDataset; c_tr := TNone; c_snk := KMissing; c_trig := GOnChange; c_jt := JIncr; c_h := HLog; c_kill := false |}.
Definition w_f11b' := {| c_src := SDataset; c_tr := TNone; c_snk := KDevNull; c_trig := GOnChange; c_jt := JIncr; c_h := HBad; c_kill := false |}.
Definition w_f11d := {| c_src := SDataset; c_tr := TJsPar; c_snk := KDevNull; c_trig := GCron; c_jt := JIncr; c_h := HNone; c_kill := false |}.
Definition w_f11c := {| c_src := SDataset; c_tr := TPanic; c_snk := KDevNull; c_trig := GCron; c_jt := JIncr; c_h := HNone; c_kill := false |}.

Lemma refuted_wrapper_loop :
  In w_f11a all_cfgs /\ accepted jcurrent w_f11a = true /\ fst (sync jcurrent w_f11a) = SDiverge
  /\ o_alive (run_job jcurrent w_f11a) = false /\ o_result (run_job jcurrent w_f11a) = None.
Proof. split; [solve_in|]. vm_compute. repeat split. Qed.

Lemma refuted_unverified_handler :
  In w_f11b all_cfgs /\ accepted jcurrent w_f11b = true /\ handler_nil jcurrent w_f11b = true
  /\ fst (sync jcurrent w_f11b) = SPanic /\ o_alive (run_job jcurrent w_f11b) = false
  /\ accepted jcurrent w_f11b' = true /\ accepted jfixed w_f11b' = false.
Proof. split; [solve_in|]. vm_compute. repeat split. Qed.

Lemma refuted_panic_kills :
  In w_f11c all_cfgs /\ accepted jcurrent w_f11c = true /\ fst (sync jcurrent w_f11c) = SPanic
  /\ o_alive (run_job jcurrent w_f11c) = false /\ o_result (run_job jcurrent w_f11c) = None.
Proof. split; [solve_in|]. vm_compute. repeat split. Qed.

Lemma refuted_chunk_panic :
  In w_f11d all_cfgs /\ accepted jcurrent w_f11d = true /\ fst (sync jcurrent w_f11d) = SPanic
  /\ o_alive (run_job jcurrent w_f11d) = false /\ o_result (run_job jcurrent w_f11d) = None
  /\ run_job jfixed w_f11d = {| o_accepted := true; o_alive := true; o_result := Some RSuccess; o_ticket := true |}.
Proof. split; [solve_in|]. vm_compute. repeat split. Qed.

(** a filtering transform that empties a batch + a rejecting sink + log handler: the empty batch is not bisected
    (nothing to hand to the handler), the error is remembered, the run is recorded as failed *)
Definition w_empty := {| c_src := SSample; c_tr := TEmpty; c_snk := KMissing; c_trig := GCron; c_jt := JIncr; c_h := HLog; c_kill := false |}.
Lemma empty_batch_rejected :
  In w_empty all_cfgs
  /\ run_job jfixed w_empty = {| o_accepted := true; o_alive := true; o_result := Some RFailure; o_ticket := true |}.
Proof. split; [solve_in|]. vm_compute. reflexivity. Qed.

Lemma racy_fixed c : racy jfixed c = false.
Proof. reflexivity. Qed.
Lemma racy_current_count : length (filter (racy jcurrent) all_cfgs) = 45.
Proof. vm_compute. reflexivity. Qed.
