(** Decision of the C11 outcome property over the finite lattice of job building blocks. *)
From Coq Require Import List Bool.
From DH Require Import Model.JobRun.
Import ListNotations.

(** ** reflection: the finite domains as lists, membership proved structurally (component by component),
    statements over all configurations / variants decided by ONE vm_compute each and lifted with forallb_forall *)
Lemma in_all_src s : In s all_src. Proof. destruct s; cbn; auto 9. Qed.
Lemma in_all_tr t : In t all_tr. Proof. destruct t; cbn; auto 8. Qed.
Lemma in_all_snk k : In k all_snk. Proof. destruct k; cbn; auto. Qed.
Lemma in_all_trig g : In g all_trig. Proof. destruct g; cbn; auto. Qed.
Lemma in_all_jt j : In j all_jt. Proof. destruct j; cbn; auto. Qed.
Lemma in_all_h h : In h all_h. Proof. destruct h; cbn; auto 7. Qed.
Lemma in_bools (b : bool) : In b [false; true]. Proof. destruct b; cbn; auto. Qed.

(** every configuration record (kill also with sources that cannot be killed in the driver) *)
Definition all_cfgs_full : list cfg :=
  flat_map (fun s => flat_map (fun t => flat_map (fun k => flat_map (fun g => flat_map (fun j =>
  flat_map (fun h => map (fun kl =>
    {| c_src := s; c_tr := t; c_snk := k; c_trig := g; c_jt := j; c_h := h; c_kill := kl |})
    [false; true])
  all_h) all_jt) all_trig) all_snk) all_tr) all_src.

Lemma in_all_cfgs_full (c : cfg) : In c all_cfgs_full.
Proof.
  destruct c as [s t k g j h kl]. unfold all_cfgs_full.
  apply in_flat_map. exists s. split; [apply in_all_src|].
  apply in_flat_map. exists t. split; [apply in_all_tr|].
  apply in_flat_map. exists k. split; [apply in_all_snk|].
  apply in_flat_map. exists g. split; [apply in_all_trig|].
  apply in_flat_map. exists j. split; [apply in_all_jt|].
  apply in_flat_map. exists h. split; [apply in_all_h|].
  apply in_map_iff. exists kl. split; [reflexivity | apply in_bools].
Qed.

(** the lattice of the driver: kill only with the slow source *)
Lemma in_all_cfgs (c : cfg) : (c_kill c = true -> killable (c_src c) = true) -> In c all_cfgs.
Proof.
  destruct c as [s t k g j h kl]. cbn [c_kill c_src]. intros Hk. unfold all_cfgs.
  apply in_flat_map. exists s. split; [apply in_all_src|].
  apply in_flat_map. exists t. split; [apply in_all_tr|].
  apply in_flat_map. exists k. split; [apply in_all_snk|].
  apply in_flat_map. exists g. split; [apply in_all_trig|].
  apply in_flat_map. exists j. split; [apply in_all_jt|].
  apply in_flat_map. exists h. split; [apply in_all_h|].
  apply in_map_iff. exists kl. split; [reflexivity|].
  destruct kl; [rewrite (Hk eq_refl); cbn; auto | destruct (killable s); cbn; auto].
Qed.

Definition all_jv : list jvariant :=
  flat_map (fun a => flat_map (fun b => flat_map (fun c => flat_map (fun d => map (fun e =>
    {| fix_endctx := a; fix_verify := b; fix_panic := c; fix_chunk := d; fix_clone := e |})
    [false; true]) [false; true]) [false; true]) [false; true]) [false; true].

Lemma in_all_jv (v : jvariant) : In v all_jv.
Proof.
  destruct v as [a b c d e]. unfold all_jv.
  apply in_flat_map. exists a. split; [apply in_bools|].
  apply in_flat_map. exists b. split; [apply in_bools|].
  apply in_flat_map. exists c. split; [apply in_bools|].
  apply in_flat_map. exists d. split; [apply in_bools|].
  apply in_map_iff. exists e. split; [reflexivity | apply in_bools].
Qed.

Lemma all_cfg_bool (P : cfg -> bool) : forallb P all_cfgs_full = true -> forall c, P c = true.
Proof. intros H c. exact (proj1 (forallb_forall _ _) H c (in_all_cfgs_full c)). Qed.

Lemma all_jv_cfg_bool (P : jvariant -> cfg -> bool) :
  forallb (fun v => forallb (P v) all_cfgs_full) all_jv = true -> forall v c, P v c = true.
Proof.
  intros H v c. pose proof (proj1 (forallb_forall _ _) H v (in_all_jv v)) as Hv.
  exact (proj1 (forallb_forall _ _) Hv c (in_all_cfgs_full c)).
Qed.

(** repaired variant: every configuration (not only those of the lattice) *)
Lemma outcome_fixed_all (c : cfg) : good_out (run_job jfixed c) = true.
Proof. revert c. apply all_cfg_bool. vm_compute. reflexivity. Qed.

Lemma lattice_fixed : forallb (fun c => good_out (run_job jfixed c)) all_cfgs = true.
Proof. vm_compute. reflexivity. Qed.

Lemma lattice_size : length all_cfgs = 4320.
Proof. vm_compute. reflexivity. Qed.

Lemma run_accepted v c : o_accepted (run_job v c) = accepted v c.
Proof.
  unfold run_job, run_once. destruct (accepted v c); cbn; [|reflexivity].
  destruct (sync v c) as [[] ?]; cbn; try reflexivity;
    repeat match goal with |- context [if ?b then _ else _] => destruct b; cbn end; reflexivity.
Qed.

Lemma outcome_lattice (c : cfg) : In c all_cfgs -> accepted jfixed c = true ->
  let o := run_job jfixed c in
  o_alive o = true /\ (exists r, o_result o = Some r) /\ o_ticket o = true.
Proof.
  intros Hin Hacc. pose proof (proj1 (forallb_forall _ _) lattice_fixed c Hin) as G.
  unfold good_out in G. rewrite run_accepted, Hacc in G. cbn [negb orb] in G.
  apply andb_true_iff in G. destruct G as [G Ht]. apply andb_true_iff in G. destruct G as [Ha Hr].
  cbn zeta. repeat split; auto. destruct (o_result (run_job jfixed c)); [eauto | discriminate].
Qed.

(** pinned tree: exact set of accepted configurations whose run kills the process *)
Lemma current_char (c : cfg) : good_out (run_job jcurrent c) = negb (dies_current c).
Proof.
  apply eqb_prop. revert c. apply all_cfg_bool. vm_compute. reflexivity.
Qed.

(** each repair removes its own cause *)
Lemma no_diverge_when_fixed v c : fix_endctx v = true -> fst (sync v c) <> SDiverge.
Proof.
  assert (B : forall v c, negb (fix_endctx v) || negb (match fst (sync v c) with SDiverge => true | _ => false end) = true).
  { apply all_jv_cfg_bool. vm_compute. reflexivity. }
  intros H Hd. specialize (B v c). rewrite H, Hd in B. discriminate B.
Qed.

Lemma no_nil_handler_when_fixed v c : fix_verify v = true -> handler_nil v c = false.
Proof.
  intros H. unfold handler_nil, handlers_verified. rewrite H. destruct (c_trig c); cbn; apply andb_false_r.
Qed.

Lemma wrapper_loop : forall fuel, wrapped_end_ctx false fuel = None.
Proof. induction fuel; cbn; auto. Qed.
Lemma wrapper_fixed : forall fuel, wrapped_end_ctx true (S fuel) = Some tt.
Proof. reflexivity. Qed.

Ltac solve_in := apply in_all_cfgs; cbn; discriminate.

(** refutation witnesses (pinned tree) *)
Definition w_f11a := {| c_src := SDataset; c_tr := TJs; c_snk := KDevNull; c_trig := GCron; c_jt := JIncr; c_h := HLog; c_kill := false |}.
Definition w_f11b := {| c_src := SDataset; c_tr := TNone; c_snk := KMissing; c_trig := GOnChange; c_jt := JIncr; c_h := HLog; c_kill := false |}.
Definition w_f11b' := {| c_src := SDataset; c_tr := TNone; c_snk := KDevNull; c_trig := GOnChange; c_jt := JIncr; c_h := HBad; c_kill := false |}.
Definition w_f11d := {| c_src := SDataset; c_tr := TJsPar; c_snk := KDevNull; c_trig := GCron; c_jt := JIncr; c_h := HNone; c_kill := false |}.
Definition w_f11c := {| c_src := SDataset; c_tr := TPanic; c_snk := KDevNull; c_trig := GCron; c_jt := JIncr; c_h := HNone; c_kill := false |}.

Lemma refuted_wrapper_loop :
  In w_f11a all_cfgs /\ accepted jcurrent w_f11a = true /\ fst (sync jcurrent w_f11a) = SDiverge
  /\ o_alive (run_job jcurrent w_f11a) = false /\ o_result (run_job jcurrent w_f11a) = None.
Proof. split; [solve_in|]. vm_compute. repeat split. Qed.

Lemma refuted_unverified_handler :
  In w_f11b all_cfgs /\ accepted jcurrent w_f11b = true /\ handler_nil jcurrent w_f11b = true
  /\ fst (sync jcurrent w_f11b) = SPanic /\ o_alive (run_job jcurrent w_f11b) = false
  /\ accepted jcurrent w_f11b' = true /\ accepted jfixed w_f11b' = false.
Proof. split; [solve_in|]. vm_compute. repeat split. Qed.

Lemma refuted_panic_kills :
  In w_f11c all_cfgs /\ accepted jcurrent w_f11c = true /\ fst (sync jcurrent w_f11c) = SPanic
  /\ o_alive (run_job jcurrent w_f11c) = false /\ o_result (run_job jcurrent w_f11c) = None.
Proof. split; [solve_in|]. vm_compute. repeat split. Qed.

Lemma refuted_chunk_panic :
  In w_f11d all_cfgs /\ accepted jcurrent w_f11d = true /\ fst (sync jcurrent w_f11d) = SPanic
  /\ o_alive (run_job jcurrent w_f11d) = false /\ o_result (run_job jcurrent w_f11d) = None
  /\ run_job jfixed w_f11d = {| o_accepted := true; o_alive := true; o_result := Some RSuccess; o_ticket := true |}.
Proof. split; [solve_in|]. vm_compute. repeat split. Qed.

(** a filtering transform that empties a batch + a rejecting sink + log handler: the empty batch is not bisected
    (nothing to hand to the handler), the error is remembered, the run is recorded as failed *)
Definition w_empty := {| c_src := SSample; c_tr := TEmpty; c_snk := KMissing; c_trig := GCron; c_jt := JIncr; c_h := HLog; c_kill := false |}.
Lemma empty_batch_rejected :
  In w_empty all_cfgs
  /\ run_job jfixed w_empty = {| o_accepted := true; o_alive := true; o_result := Some RFailure; o_ticket := true |}.
Proof. split; [solve_in|]. vm_compute. reflexivity. Qed.

Lemma racy_fixed c : racy jfixed c = false.
Proof. reflexivity. Qed.
Lemma racy_current_count : length (filter (racy jcurrent) all_cfgs) = 75.
Proof. vm_compute. reflexivity. Qed.

(** a job killed while the slow source sleeps is recorded as killed (repaired variant, every configuration) *)
Lemma kill_recorded (c : cfg) :
  negb (must_kill c) || negb (accepted jfixed c)
  || (match o_result (run_job jfixed c) with Some RKill => true | _ => false end) = true.
Proof. revert c. apply all_cfg_bool. vm_compute. reflexivity. Qed.
