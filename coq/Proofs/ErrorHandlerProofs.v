(** Proofs about Model/ErrorHandler.v: the recursive bisection of wrappedSink.processEntities
    partitions every batch (for every inner sink, transient or permanent), the permanent-sink
    corollaries, the page loop / run theorems and the reRun counter machine. *)
From Coq Require Import List ZArith Bool Arith Lia.
From DH Require Import Model.ErrorHandler.
Import ListNotations.

(** ** arithmetic of the split point *)
Lemma div2_bounds n : 2 <= n -> 1 <= Nat.div2 n /\ Nat.div2 n < n.
Proof.
  intros H. split.
  - destruct n as [|[|n]]; try lia. cbn. lia.
  - apply Nat.lt_div2. lia.
Qed.

Lemma limit_hit_mono k c d : limit_hit k c = true -> limit_hit k (c + d) = true.
Proof.
  unfold limit_hit. rewrite !andb_true_iff, !Nat.ltb_lt, !Nat.leb_le. lia.
Qed.

Lemma limit_hit_false_le k c d : limit_hit k (c + d) = false -> limit_hit k c = false.
Proof.
  intros H. destruct (limit_hit k c) eqn:Hc; [|reflexivity].
  rewrite (limit_hit_mono _ _ d Hc) in H. discriminate.
Qed.

Section SinkProofs.
  Context {E : Type}.
  Variable inner : nat -> list E -> option Z.

  Notation event := (event E).
  Notation wstate := (wstate E).

  Lemma flat_app (a b : list event) : flat (a ++ b) = flat a ++ flat b.
  Proof. unfold flat. apply flat_map_app. Qed.
  Lemma delivered_app (a b : list event) : delivered (a ++ b) = delivered a ++ delivered b.
  Proof. unfold delivered. apply flat_map_app. Qed.
  Lemma reported_app (a b : list event) : reported (a ++ b) = reported a ++ reported b.
  Proof. unfold reported. apply flat_map_app. Qed.

  (** an event is justified by the inner sink: a delivered batch was accepted by some call,
      a reported entity was rejected by a call that contained only that entity *)
  Definition ev_just (e : event) : Prop :=
    match e with
    | EDeliv b => exists c, inner c b = None
    | ERep x => exists c, inner c [x] <> None
    end.

  (** postcondition of one [wsink] call *)
  Definition wpost (sc : bool) (k : nat) (l : list E) (st : wstate) (r : wres) (st' : wstate) : Prop :=
    exists new,
      ws_log st' = ws_log st ++ new
      /\ ws_count st' = ws_count st + length (reported new)
      /\ ws_calls st < ws_calls st'
      /\ ws_depth st <= ws_depth st'
      /\ Forall ev_just new
      /\ (0 < ws_depth st \/ sc = false -> ws_last st <> None -> ws_last st' <> None)
      /\ (reported new <> [] -> ws_last st' <> None)
      /\ (sc = false -> l <> [] -> reported new = [] -> ws_last st' = ws_last st)
      /\ match r with
         | WNil => flat new = l
                   /\ (limit_hit k (ws_count st) = false -> limit_hit k (ws_count st') = false)
         | WMax => exists new0 x rest, new = new0 ++ [ERep x] /\ flat new ++ rest = l
                   /\ limit_hit k (ws_count st') = true
                   /\ (limit_hit k (ws_count st) = false ->
                       limit_hit k (ws_count st + length (reported new0)) = false)
         end.

  Theorem wsink_post sc k : forall fuel l st,
    length l <= fuel ->
    wpost sc k l st (fst (wsink inner sc k fuel l st)) (snd (wsink inner sc k fuel l st)).
  Proof.
    induction fuel as [|f IH]; intros l st Hlen.
    - (* fuel 0: l = [] *)
      destruct l; [|cbn in Hlen; lia].
      cbn. destruct (inner (ws_calls st) []) eqn:Hi; cbn.
      + exists []. cbn. rewrite app_nil_r. repeat split; try lia; try constructor; try congruence.
      + exists [EDeliv []]. cbn. repeat split; try lia.
        * constructor; [exists (ws_calls st); exact Hi | constructor].
        * intros [Hd| ->] Hl; [|exact Hl].
          destruct (ws_depth st =? 0) eqn:E0; [apply Nat.eqb_eq in E0; lia|].
          rewrite andb_false_r. exact Hl.
        * congruence.
        * intros -> _ _. reflexivity.
        * auto.
    - cbn [wsink]. destruct (inner (ws_calls st) l) eqn:Hi.
      + destruct l as [|x [|y l']].
        * cbn. exists []. cbn. rewrite app_nil_r. repeat split; try lia; try constructor; try congruence.
        * destruct (limit_hit k (S (ws_count st))) eqn:Hh; cbn.
          -- exists [ERep x]. cbn. repeat split; try lia.
             ++ constructor; [exists (ws_calls st); rewrite Hi; discriminate | constructor].
             ++ intros _ Hl. destruct (ws_last st); congruence.
             ++ intros _. destruct (ws_last st); congruence.
             ++ intros _ _ Hr. discriminate.
             ++ exists [], x, []. cbn. repeat split; auto.
                intros Hc. rewrite Nat.add_0_r. exact Hc.
          -- exists [ERep x]. cbn. repeat split; try lia.
             ++ constructor; [exists (ws_calls st); rewrite Hi; discriminate | constructor].
             ++ congruence.
             ++ congruence.
             ++ intros _ _ Hr. discriminate.
             ++ intros _. replace (ws_count st + 1) with (S (ws_count st)) by lia. exact Hh.
        * (* split *)
          set (l0 := x :: y :: l') in *.
          assert (H2 : 2 <= length l0) by (subst l0; cbn; lia).
          destruct (div2_bounds _ H2) as [Hsp1 Hsp2].
          set (sp := Nat.div2 (length l0)) in *.
          set (st1 := {| ws_last := ws_last st; ws_depth := S (ws_depth st); ws_count := ws_count st;
                         ws_calls := S (ws_calls st); ws_log := ws_log st |}).
          assert (Hl1 : length (firstn sp l0) <= f) by (rewrite firstn_length; lia).
          assert (Hl2 : length (skipn sp l0) <= f) by (rewrite skipn_length; lia).
          assert (Hne1 : firstn sp l0 <> []).
          { intros Hn. apply (f_equal (@length E)) in Hn. rewrite firstn_length in Hn. change (@length E []) with 0 in Hn. lia. }
          assert (Hne2 : skipn sp l0 <> []).
          { intros Hn. apply (f_equal (@length E)) in Hn. rewrite skipn_length in Hn. change (@length E []) with 0 in Hn. lia. }
          pose proof (IH (firstn sp l0) st1 Hl1) as P1.
          destruct (wsink inner sc k f (firstn sp l0) st1) as [r1 st2] eqn:W1. cbn [fst snd] in P1.
          destruct P1 as (new1 & Hlog1 & Hcnt1 & Hcalls1 & Hdep1 & Hj1 & Hkeep1 & Hrep1 & Hsame1 & Hr1).
          cbn [ws_last ws_depth ws_count ws_calls ws_log st1] in *.
          destruct r1.
          -- (* left returned nil: run the right half *)
             pose proof (IH (skipn sp l0) st2 Hl2) as P2.
             destruct (wsink inner sc k f (skipn sp l0) st2) as [r2 st3] eqn:W2. cbn [fst snd] in *.
             destruct P2 as (new2 & Hlog2 & Hcnt2 & Hcalls2 & Hdep2 & Hj2 & Hkeep2 & Hrep2 & Hsame2 & Hr2).
             destruct Hr1 as [Hflat1 Hlim1].
             exists (new1 ++ new2). rewrite reported_app, app_length, flat_app.
             assert (Hd2 : 0 < ws_depth st2) by lia.
             split; [rewrite Hlog2, Hlog1, app_assoc; reflexivity|].
             split; [lia|]. split; [lia|]. split; [lia|].
             split; [apply Forall_app; split; assumption|].
             split; [intros _ Hl; apply Hkeep2; [left; exact Hd2|]; apply Hkeep1; [left; lia | exact Hl]|].
             split.
             { intros Hr. destruct (reported new2) eqn:R2.
               - rewrite app_nil_r in Hr. apply Hkeep2; [left; exact Hd2|]. apply Hrep1. exact Hr.
               - apply Hrep2. discriminate. }
             split.
             { intros Hsc _ Hr. apply app_eq_nil in Hr. destruct Hr as [Hr1' Hr2'].
               rewrite (Hsame2 Hsc Hne2 Hr2'), (Hsame1 Hsc Hne1 Hr1'). reflexivity. }
             destruct r2.
             ++ destruct Hr2 as [Hflat2 Hlim2]. split.
                ** rewrite Hflat1, Hflat2. apply firstn_skipn.
                ** intros Hc. apply Hlim2, Hlim1, Hc.
             ++ destruct Hr2 as (new0 & zz & rest & Hnew2 & Hflat2 & Hhit & Hmin).
                exists (new1 ++ new0), zz, rest. repeat split.
                ** rewrite Hnew2, app_assoc. reflexivity.
                ** rewrite <- app_assoc, Hflat2, Hflat1. apply firstn_skipn.
                ** exact Hhit.
                ** intros Hc. rewrite reported_app, app_length, Nat.add_assoc, <- Hcnt1.
                   apply Hmin, Hlim1, Hc.
          -- (* left returned MaxItemsExceededError: right half is not attempted *)
             cbn [fst snd].
             destruct Hr1 as (new0 & zz & rest & Hnew1 & Hflat1 & Hhit & Hmin).
             exists new1.
             split; [exact Hlog1|]. split; [exact Hcnt1|]. split; [lia|]. split; [lia|].
             split; [exact Hj1|].
             split; [intros _ Hl; apply Hkeep1; [left; lia | exact Hl]|].
             split; [exact Hrep1|].
             split; [intros Hsc _ Hr; apply (Hsame1 Hsc Hne1 Hr)|].
             exists new0, zz, (rest ++ skipn sp l0). repeat split; auto.
             rewrite app_assoc, Hflat1. apply firstn_skipn.
      + (* the inner sink accepted the batch *)
        cbn. exists [EDeliv l]. cbn. rewrite app_nil_r. repeat split; try lia.
        * constructor; [exists (ws_calls st); exact Hi | constructor].
        * intros [Hd| ->] Hl; [|exact Hl].
          destruct (ws_depth st =? 0) eqn:E0; [apply Nat.eqb_eq in E0; lia|].
          rewrite andb_false_r. exact Hl.
        * congruence.
        * intros -> _ _. reflexivity.
        * auto.
  Qed.
End SinkProofs.

(** ** a permanently failing sink: delivered = the good entities, reported = the bad ones *)
Section PermProofs.
  Context {E : Type}.
  Variable bad : E -> bool.
  Variable code : E -> Z.
  Notation good := (fun x => negb (bad x)).
  Notation inner := (perm bad code).

  Lemma find_none_filter (b : list E) : find bad b = None -> filter good b = b /\ filter bad b = [].
  Proof.
    induction b as [|x b IH]; cbn; [auto|].
    destruct (bad x) eqn:Hx; [discriminate|]. cbn. intros H. destruct (IH H) as [-> ->]. auto.
  Qed.

  Lemma just_partition (new : list (event E)) :
    Forall (ev_just inner) new ->
    delivered new = filter good (flat new) /\ reported new = filter bad (flat new).
  Proof.
    induction 1 as [|e new He _ IH]; [auto|].
    destruct IH as [IHd IHr].
    change (flat (e :: new)) with (ev_flat e ++ flat new).
    change (delivered (e :: new)) with (ev_deliv e ++ delivered new).
    change (reported (e :: new)) with (ev_rep e ++ reported new).
    rewrite !filter_app, IHd, IHr.
    destruct e as [b|x]; cbn [ev_flat ev_deliv ev_rep].
    - destruct He as [c Hc]. unfold perm in Hc.
      destruct (find bad b) eqn:Hf; [discriminate|].
      destruct (find_none_filter _ Hf) as [-> ->]. auto.
    - destruct He as [c Hc]. unfold perm in Hc. cbn in Hc.
      destruct (bad x) eqn:Hx; [|exfalso; apply Hc; reflexivity]. cbn. rewrite Hx. cbn. auto.
  Qed.

  Lemma just_rep_bad (new : list (event E)) x :
    Forall (ev_just inner) (new ++ [ERep x]) -> bad x = true.
  Proof.
    intros H. apply Forall_app in H. destruct H as [_ H]. inversion H as [|? ? Hc0 _]; subst. destruct Hc0 as [c Hc].
    unfold perm in Hc. cbn in Hc. destruct (bad x); [reflexivity|exfalso; apply Hc; reflexivity].
  Qed.

  (** the bisection against a permanent sink, any batch, any state, any limit *)
  Theorem wsink_perm sc k (l : list E) (st : wstate E) :
    let r := fst (wsink inner sc k (length l) l st) in
    let st' := snd (wsink inner sc k (length l) l st) in
    exists new,
      ws_log st' = ws_log st ++ new
      /\ ws_count st' = ws_count st + length (reported new)
      /\ (reported new <> [] -> ws_last st' <> None)
      /\ match r with
         | WNil => delivered new = filter good l /\ reported new = filter bad l
                   /\ (limit_hit k (ws_count st) = false ->
                       limit_hit k (ws_count st + length (filter bad l)) = false)
         | WMax => exists pre x rest,
                   l = pre ++ x :: rest /\ bad x = true
                   /\ delivered new = filter good pre /\ reported new = filter bad pre ++ [x]
                   /\ limit_hit k (ws_count st + length (filter bad pre) + 1) = true
                   /\ (limit_hit k (ws_count st) = false ->
                       limit_hit k (ws_count st + length (filter bad pre)) = false)
         end.
  Proof.
    intros r st'. subst r st'.
    destruct (wsink_post inner sc k (length l) l st (le_n _))
      as (new & Hlog & Hcnt & _ & _ & Hj & _ & Hrep & _ & Hr).
    exists new. split; [exact Hlog|]. split; [exact Hcnt|]. split; [exact Hrep|].
    destruct (just_partition _ Hj) as [Hd Hp].
    destruct (fst (wsink inner sc k (length l) l st)).
    - destruct Hr as [Hflat Hlim]. rewrite Hflat in Hd, Hp. repeat split; auto.
      intros Hc. rewrite <- Hp, <- Hcnt. auto.
    - destruct Hr as (new0 & x & rest & Hnew & Hflat & Hhit & Hmin).
      pose proof Hj as Hj'. rewrite Hnew in Hj'.
      pose proof (just_rep_bad _ _ Hj') as Hx.
      apply Forall_app in Hj'. destruct Hj' as [Hj0 _].
      destruct (just_partition _ Hj0) as [Hd0 Hp0].
      exists (flat new0), x, rest.
      rewrite Hnew, flat_app in Hflat. cbn in Hflat. rewrite <- app_assoc in Hflat. cbn in Hflat.
      split; [symmetry; exact Hflat|]. split; [exact Hx|].
      rewrite Hnew, delivered_app, reported_app. cbn. rewrite app_nil_r.
      split; [exact Hd0|]. split; [rewrite Hp0; reflexivity|].
      split.
      + rewrite Hcnt, Hnew, reported_app, app_length, Hp0 in Hhit. cbn in Hhit.
        rewrite Nat.add_assoc in Hhit. exact Hhit.
      + intros Hc. rewrite <- Hp0. auto.
  Qed.
End PermProofs.

Lemma scripted_perm bad c l :
  scripted bad [] c l = perm (fun x => zmem x bad) (fun x => x) c l.
Proof. unfold scripted, perm. cbn. destruct (find _ l); reflexivity. Qed.

(** ** the page loop and one run of the job (log handler configured, no kill) *)
Section JobProofs.
  Context {E : Type}.
  Variable inner : nat -> list E -> option Z.

  Lemma firstn_nil_inv (b : nat) (L : list E) : 1 <= b -> firstn b L = [] -> L = [].
  Proof. destruct b; [lia|]. destruct L; [auto|discriminate]. Qed.

  Lemma skipn_add (a b : nat) (l : list E) : skipn (a + b) l = skipn b (skipn a l).
  Proof.
    revert l. induction a as [|a IH]; intros l; [reflexivity|].
    destruct l; cbn; [rewrite skipn_nil; reflexivity | apply IH].
  Qed.

  Lemma page_split (b : nat) (L : list E) : firstn b L ++ skipn (length (firstn b L)) L = L.
  Proof.
    rewrite firstn_length. destruct (Nat.le_ge_cases b (length L)) as [H|H].
    - rewrite Nat.min_l by exact H. apply firstn_skipn.
    - rewrite Nat.min_r by exact H. rewrite firstn_all2 by exact H. rewrite skipn_all. apply app_nil_r.
  Qed.

  Definition spost (v : eh_variant) (k : nat) (src : list E) (tok : nat) (ws : wstate E)
             (e : perr) (tok' : nat) (ws' : wstate E) : Prop :=
    exists new,
      ws_log ws' = ws_log ws ++ new
      /\ ws_count ws' = ws_count ws + length (reported new)
      /\ Forall (ev_just inner) new
      /\ (success_clears v = false ->
          (ws_last ws <> None -> ws_last ws' <> None)
          /\ (reported new <> [] -> ws_last ws' <> None)
          /\ (reported new = [] -> ws_last ws' = ws_last ws))
      /\ match e with
         | POk => flat new = skipn tok src /\ tok' = length src
                  /\ (limit_hit k (ws_count ws) = false -> limit_hit k (ws_count ws') = false)
         | PMax => exists new0 x rest, new = new0 ++ [ERep x] /\ flat new ++ rest = skipn tok src
                   /\ limit_hit k (ws_count ws') = true
                   /\ (limit_hit k (ws_count ws) = false ->
                       limit_hit k (ws_count ws + length (reported new0)) = false)
                   /\ tok <= tok' <= tok + length (flat new0)
         | _ => False
         end.

  Lemma sync_pages_post v cfg src :
    c_log cfg = true -> c_kill cfg = None -> 1 <= c_batch cfg ->
    forall fuel tok cnt ws,
      tok <= length src -> length src - tok < fuel ->
      let '(e, _, tok', ws') := sync_pages inner v cfg fuel src tok false cnt ws in
      spost v (c_maxItems cfg) src tok ws e tok' ws'.
  Proof.
    intros Hlog Hkill Hb. induction fuel as [|f IH]; intros tok cnt ws Htok Hfuel; [lia|].
    cbn [sync_pages].
    set (L := skipn tok src).
    assert (HL : length L = length src - tok) by (subst L; apply skipn_length).
    destruct (firstn (c_batch cfg) L) as [|p0 page'] eqn:Hpage.
    - (* empty page: end of the feed *)
      apply firstn_nil_inv in Hpage; [|exact Hb].
      exists []. cbn. rewrite app_nil_r. repeat split; auto; try congruence.
      rewrite Hpage in HL. cbn in HL. lia.
    - set (page := p0 :: page') in *.
      assert (Hpl : 1 <= length page) by (subst page; cbn; lia).
      assert (Hple : length page <= length L).
      { rewrite <- Hpage, firstn_length. lia. }
      unfold sink_call. rewrite Hlog.
      pose proof (wsink_post inner (success_clears v) (c_maxItems cfg) (length page) page ws (le_n _)) as P.
      destruct (wsink inner (success_clears v) (c_maxItems cfg) (length page) page ws) as [r ws1].
      cbn [fst snd] in P.
      destruct P as (new1 & Hlog1 & Hcnt1 & _ & _ & Hj1 & Hkeep1 & Hrep1 & Hsame1 & Hr1).
      assert (Hne : page <> []) by (subst page; discriminate).
      assert (Hsplit : page ++ skipn (tok + length page) src = L).
      { rewrite skipn_add. fold L. rewrite <- Hpage. apply page_split. }
      destruct r.
      + (* page done: token moves, next page *)
        unfold kill_in. rewrite Hkill.
        specialize (IH (tok + length page) (cnt + length page) ws1 ltac:(lia) ltac:(lia)).
        destruct (sync_pages inner v cfg f src (tok + length page) false (cnt + length page) ws1)
          as [[[e cnt'] tok'] ws'].
        destruct IH as (new2 & Hlog2 & Hcnt2 & Hj2 & Hl2 & Hr2).
        destruct Hr1 as [Hflat1 Hlim1].
        exists (new1 ++ new2). rewrite reported_app, app_length, flat_app.
        split; [rewrite Hlog2, Hlog1, app_assoc; reflexivity|].
        split; [lia|]. split; [apply Forall_app; split; assumption|].
        split.
        { intros Hsc. destruct (Hl2 Hsc) as (K2 & R2 & S2). repeat split.
          - intros Hl. apply K2, Hkeep1; [right; exact Hsc | exact Hl].
          - intros Hr. destruct (reported new2) eqn:Rn2.
            + rewrite app_nil_r in Hr. apply K2, Hrep1, Hr.
            + apply R2. discriminate.
          - intros Hr. apply app_eq_nil in Hr. destruct Hr as [Hr1' Hr2'].
            rewrite (S2 Hr2'), (Hsame1 Hsc Hne Hr1'). reflexivity. }
        destruct e; try exact Hr2.
        * destruct Hr2 as (Hflat2 & Htok2 & Hlim2). repeat split; auto.
          rewrite Hflat1, Hflat2. exact Hsplit.
        * destruct Hr2 as (new0 & x & rest & Hnew2 & Hflat2 & Hhit & Hmin & Htk).
          exists (new1 ++ new0), x, rest. repeat split.
          -- rewrite Hnew2, app_assoc. reflexivity.
          -- rewrite <- app_assoc, Hflat2, Hflat1. exact Hsplit.
          -- exact Hhit.
          -- intros Hc. rewrite reported_app, app_length, Nat.add_assoc, <- Hcnt1. apply Hmin, Hlim1, Hc.
          -- lia.
          -- rewrite flat_app, app_length, Hflat1. lia.
      + (* MaxItemsExceededError: the page is not committed *)
        destruct Hr1 as (new0 & x & rest & Hnew1 & Hflat1 & Hhit & Hmin).
        exists new1. split; [exact Hlog1|]. split; [exact Hcnt1|]. split; [exact Hj1|].
        split.
        { intros Hsc. repeat split.
          - intros Hl. apply Hkeep1; [right; exact Hsc | exact Hl].
          - exact Hrep1.
          - intros Hr. apply (Hsame1 Hsc Hne Hr). }
        exists new0, x, (rest ++ skipn (tok + length page) src). repeat split; auto; try lia.
        rewrite app_assoc, Hflat1. exact Hsplit.
  Qed.

  (** the reRun decision of handleJobError, for every variant, configuration and inner sink:
      a re-run is scheduled only after a failure that is neither success nor a kill, only with a
      reRun handler that still has retries, and it consumes exactly one of them *)
  Lemma run_pending v cfg src (st : jstate E) :
    let r := fst (run inner v cfg src st) in
    let st' := snd (run inner v cfg src st) in
    j_retries st' = r_retries r
    /\ (r_pending r = true ->
        c_rerun cfg = true /\ (0 < j_retries st)%Z /\ r_retries r = (j_retries st - 1)%Z
        /\ exists c, r_err r = PInner c)
    /\ (r_pending r = false -> r_retries r = j_retries st).
  Proof.
    unfold run.
    destruct (sync_pages inner v cfg (S (length src)) src (j_tok st) false 0 _) as [[[e cnt] tok] ws].
    destruct e; cbn.
    - destruct (j_wrapped st || c_log cfg); [destruct (ws_last ws)|]; cbn.
      + destruct (c_rerun cfg); cbn; [|repeat split; intros; discriminate].
        destruct (0 <? j_retries st)%Z eqn:Hr; cbn; repeat split; intros; try discriminate; eauto.
        apply Z.ltb_lt. exact Hr.
      + repeat split; intros; discriminate.
      + repeat split; intros; discriminate.
    - destruct (c_rerun cfg); cbn; [|repeat split; intros; discriminate].
      destruct (0 <? j_retries st)%Z eqn:Hr; cbn; repeat split; intros; try discriminate; eauto.
      apply Z.ltb_lt. exact Hr.
    - destruct (j_wrapped st || c_log cfg); [destruct (ws_last ws)|]; cbn.
      + destruct (c_rerun cfg); cbn; [|repeat split; intros; discriminate].
        destruct (0 <? j_retries st)%Z eqn:Hr; cbn; repeat split; intros; try discriminate; eauto.
        apply Z.ltb_lt. exact Hr.
      + repeat split; intros; discriminate.
      + repeat split; intros; discriminate.
    - repeat split; intros; discriminate.
  Qed.

  (** the state between runs: before the sink is wrapped nothing has been remembered yet *)
  Definition clean (st : jstate E) : Prop :=
    j_wrapped st = false -> ws_last (j_ws st) = None /\ ws_count (j_ws st) = 0.

  (** one run of the repaired handler (log handler, no kill), for every inner sink, every source,
      every batch size, every limit and every state left behind by earlier runs *)
  Theorem run_fixed cfg src (st : jstate E) :
    c_log cfg = true -> c_kill cfg = None -> 1 <= c_batch cfg -> j_tok st <= length src -> clean st ->
    let r := fst (run inner VFixed cfg src st) in
    let st' := snd (run inner VFixed cfg src st) in
    let log := r_log r in
    let k := c_maxItems cfg in
    Forall (ev_just inner) log
    /\ (r_err r = POk <-> reported log = [])
    /\ (r_err r = POk \/ exists c, r_err r = PInner c)
    /\ (limit_hit k (length (reported log)) = false ->
        flat log = skipn (j_tok st) src /\ r_tok r = length src)
    /\ (limit_hit k (length (reported log)) = true ->
        exists new0 x rest, log = new0 ++ [ERep x] /\ flat log ++ rest = skipn (j_tok st) src
                            /\ limit_hit k (length (reported new0)) = false
                            /\ j_tok st <= r_tok r <= j_tok st + length (flat new0))
    /\ j_tok st' = r_tok r /\ j_tok st' <= length src /\ j_wrapped st' = true /\ clean st'.
  Proof.
    intros Hlog Hkill Hb Htok Hclean. unfold run. rewrite Hlog.
    set (ws0 := {| ws_last := _; ws_depth := _; ws_count := _; ws_calls := _; ws_log := [] |}).
    assert (H0 : ws_last ws0 = None /\ ws_count ws0 = 0 /\ ws_log ws0 = []).
    { subst ws0. cbn. destruct (j_wrapped st) eqn:Hw; cbn; [auto|]. destruct (Hclean Hw). auto. }
    destruct H0 as (Hl0 & Hc0 & Hg0).
    pose proof (sync_pages_post VFixed cfg src Hlog Hkill Hb (S (length src)) (j_tok st) 0 ws0 Htok ltac:(lia)) as P.
    destruct (sync_pages inner VFixed cfg (S (length src)) src (j_tok st) false 0 ws0) as [[[e cnt] tok] ws].
    destruct P as (new & Hlg & Hcnt & Hj & Hlast & Hr).
    rewrite Hg0 in Hlg. cbn in Hlg. rewrite Hc0 in Hcnt. cbn in Hcnt.
    destruct (Hlast eq_refl) as (_ & Hrep & Hsame).
    rewrite orb_true_r.
    assert (Hlim0 : forall k, limit_hit k 0 = false).
    { intros k. unfold limit_hit. destruct k; cbn; auto. }
    destruct e; try contradiction.
    - (* sync returned nil *)
      destruct Hr as (Hflat & Htk & Hlim). rewrite Hc0 in Hlim. specialize (Hlim (Hlim0 _)).
      rewrite Hcnt in Hlim.
      destruct (ws_last ws) eqn:Hlw; cbn [fst snd r_err r_log r_tok j_tok j_wrapped]; rewrite Hlg.
      + split; [exact Hj|]. split.
        { split; [discriminate|]. intros Hr0. pose proof (Hsame Hr0) as Hq. rewrite Hl0 in Hq. discriminate Hq. }
        split; [right; eauto|]. split; [intros _; auto|].
        split; [intros Hh; rewrite Hh in Hlim; discriminate|].
        split; [reflexivity|]. split; [lia|]. split; [reflexivity|]. unfold clean; cbn; intros Hw; discriminate Hw.
      + split; [exact Hj|]. split.
        { split; [|reflexivity]. intros _. destruct (reported new) eqn:Hrn; [reflexivity|].
          exfalso. apply Hrep; [discriminate | reflexivity]. }
        split; [left; reflexivity|]. split; [intros _; auto|].
        split; [intros Hh; rewrite Hh in Hlim; discriminate|].
        split; [reflexivity|]. split; [lia|]. split; [reflexivity|]. unfold clean; cbn; intros Hw; discriminate Hw.
    - (* MaxItemsExceededError *)
      destruct Hr as (new0 & x & rest & Hnew & Hflat & Hhit & Hmin & Htk).
      rewrite Hc0 in Hmin. specialize (Hmin (Hlim0 _)). cbn in Hmin. rewrite Hcnt in Hhit.
      assert (Hrn : reported new <> []).
      { rewrite Hnew, reported_app. cbn. intros Hn. apply app_eq_nil in Hn. destruct Hn; discriminate. }
      specialize (Hrep Hrn).
      destruct (ws_last ws) eqn:Hlw; [|congruence].
      cbn [fst snd r_err r_log r_tok j_tok j_wrapped]. rewrite Hlg.
      split; [exact Hj|]. split; [split; [discriminate | intros Hr0; congruence]|].
      split; [right; eauto|].
      split; [intros Hh; rewrite Hh in Hhit; discriminate|].
      split; [intros _; exists new0, x, rest; repeat split; auto; lia|].
      assert (length (flat new0) <= length (skipn (j_tok st) src)).
      { rewrite <- Hflat, Hnew, flat_app, !app_length. lia. }
      rewrite skipn_length in H.
      split; [reflexivity|]. split; [lia|]. split; [reflexivity|]. unfold clean; cbn; intros Hw; discriminate Hw.
  Qed.

  (** the same for any variant: what is true of every tree (partition of the feed from the token on) *)
  Theorem run_partition v cfg src (st : jstate E) :
    c_log cfg = true -> c_kill cfg = None -> 1 <= c_batch cfg -> j_tok st <= length src ->
    let r := fst (run inner v cfg src st) in
    exists rest, flat (r_log r) ++ rest = skipn (j_tok st) src
                 /\ Forall (ev_just inner) (r_log r)
                 /\ (r_tok r = length src -> rest = []).
  Proof.
    intros Hlog Hkill Hb Htok. unfold run. rewrite Hlog.
    set (ws0 := {| ws_last := _; ws_depth := _; ws_count := _; ws_calls := _; ws_log := [] |}).
    pose proof (sync_pages_post v cfg src Hlog Hkill Hb (S (length src)) (j_tok st) 0 ws0 Htok ltac:(lia)) as P.
    destruct (sync_pages inner v cfg (S (length src)) src (j_tok st) false 0 ws0) as [[[e cnt] tok] ws].
    destruct P as (new & Hlg & _ & Hj & _ & Hr). cbn in Hlg.
    assert (Hres : exists rest, flat new ++ rest = skipn (j_tok st) src /\ (tok = length src -> rest = [])).
    { destruct e; try contradiction.
      - destruct Hr as (Hflat & _). exists []. rewrite app_nil_r. auto.
      - destruct Hr as (new0 & x & rest & Hnew & Hflat & _ & _ & Htk). exists rest. split; [exact Hflat|].
        intros ->. assert (length (flat new ++ rest) = length src - j_tok st) by (rewrite Hflat; apply skipn_length).
        rewrite Hnew, flat_app, !app_length in H. cbn in H. lia. }
    destruct Hres as (rest & Hf & Hz). exists rest.
    rewrite orb_true_r.
    destruct e; try contradiction; destruct (ws_last ws); cbn [fst r_log r_tok]; rewrite Hlg; auto.
  Qed.
End JobProofs.

(** ** the reRun counter machine: along any chain of runs (any variant, any sink, kills, appended
    entities, cron firings) the number of re-runs is bounded by the retries of the handler *)
Lemma run_any_pending {E : Type} (inner : nat -> list E -> option Z) v cfg full src (st : jstate E) :
  let r := fst (run_any inner v cfg full src st) in
  let st' := snd (run_any inner v cfg full src st) in
  j_retries st' = r_retries r
  /\ (r_pending r = true ->
      c_rerun cfg = true /\ (0 < j_retries st)%Z /\ r_retries r = (j_retries st - 1)%Z
      /\ exists c, r_err r = PInner c)
  /\ (r_pending r = false -> r_retries r = j_retries st).
Proof.
  unfold run_any. destruct full; [|apply run_pending].
  set (st0 := {| j_tok := 0; j_wrapped := j_wrapped st; j_ws := j_ws st; j_retries := j_retries st;
                 j_lastProcessed := j_lastProcessed st |}).
  pose proof (run_pending inner v cfg src st0) as P.
  destruct (run inner v cfg src st0) as [r st']. exact P.
Qed.

Section ChainProofs.
  Variable inner : nat -> list Z -> option Z.

  Definition pendings (rs : list (runrec Z)) : nat := length (filter (fun r => r_pending r) rs).

  Theorem chain_pending_bound v cfg full : forall fuel n adds crons (st : jstate Z),
    (Z.of_nat (pendings (chain inner v cfg full fuel n adds crons st)) <= Z.max 0 (j_retries st))%Z.
  Proof.
    induction fuel as [|f IH]; intros n adds crons st; [cbn; lia|].
    cbn [chain].
    pose proof (run_any_pending inner v cfg full (zseq 0 n) st) as P.
    destruct (run_any inner v cfg full (zseq 0 n) st) as [r st'] eqn:R. cbn [fst snd] in P.
    destruct P as (Hret & Hp & Hnp).
    destruct (r_pending r) eqn:Hpend.
    - destruct (Hp eq_refl) as (_ & Hpos & Hdec & _).
      unfold pendings. cbn [filter]. rewrite Hpend. cbn [length].
      specialize (IH (match adds with a :: _ => n + a | [] => n end) (tl adds) crons st').
      unfold pendings in IH. lia.
    - specialize (Hnp eq_refl). destruct crons as [|c].
      + unfold pendings. cbn. rewrite Hpend. cbn. lia.
      + unfold pendings. cbn [filter]. rewrite Hpend.
        specialize (IH (match adds with a :: _ => n + a | [] => n end) (tl adds) c st').
        unfold pendings in IH. lia.
  Qed.

  (** every run that schedules a re-run was recorded as failed with a sink error *)
  Theorem chain_pending_failed v cfg full : forall fuel n adds crons (st : jstate Z),
    Forall (fun r => r_pending r = true -> c_rerun cfg = true /\ exists c, r_err r = PInner c)
           (chain inner v cfg full fuel n adds crons st).
  Proof.
    induction fuel as [|f IH]; intros n adds crons st; [constructor|].
    cbn [chain].
    pose proof (run_any_pending inner v cfg full (zseq 0 n) st) as P.
    destruct (run_any inner v cfg full (zseq 0 n) st) as [r st'] eqn:R. cbn [fst snd] in P.
    destruct P as (_ & Hp & _).
    assert (Hr : r_pending r = true -> c_rerun cfg = true /\ exists c, r_err r = PInner c).
    { intros H. destruct (Hp H) as (? & _ & _ & ?). auto. }
    destruct (r_pending r) eqn:Hpend; [constructor; [rewrite Hpend; exact Hr | apply IH]|].
    destruct crons; constructor; auto; rewrite Hpend; exact Hr.
  Qed.
End ChainProofs.

(** ** refutation witnesses for the pinned tree *)
Lemma refuted_stale_error :
  let cfg := {| c_batch := 100; c_log := true; c_maxItems := 0; c_rerun := true; c_kill := None |} in
  let obs v := map (fun r => (r_err r, reported (r_log r), r_pending r))
                   (chain (scripted [1;4;7]%Z []) v cfg false 60 10 [] 0 (j_init 2)) in
  obs VCurrent = [(PInner 7, [1;4;7], true); (PInner 7, [], true); (PInner 7, [], false)]%Z
  /\ obs VFixed = [(PInner 7, [1;4;7], true); (POk, [], false)]%Z.
Proof. vm_compute. split; reflexivity. Qed.

Lemma refuted_cleared_error :
  let cfg := {| c_batch := 1; c_log := true; c_maxItems := 0; c_rerun := true; c_kill := None |} in
  let obs v := map (fun r => (r_err r, reported (r_log r), r_pending r))
                   (chain (scripted [0]%Z []) v cfg false 60 3 [] 0 (j_init 2)) in
  obs VCurrent = [(POk, [0], false)]%Z
  /\ obs VResetClears = [(POk, [0], false)]%Z
  /\ obs VFixed = [(PInner 0, [0], true); (POk, [], false)]%Z.
Proof. vm_compute. repeat split; reflexivity. Qed.

(** ** every remembered / recorded error code comes from the inner sink *)
Section LastInv.
  Context {E : Type}.
  Variable inner : nat -> list E -> option Z.
  Variable Pc : Z -> Prop.
  Hypothesis Hin : forall call l e, inner call l = Some e -> Pc e.

  Definition last_ok (ws : wstate E) : Prop := forall e, ws_last ws = Some e -> Pc e.

  Lemma wsink_last_ok sc k : forall fuel l st,
    last_ok st -> last_ok (snd (wsink inner sc k fuel l st)).
  Proof.
    induction fuel as [|f IH]; intros l st Hst; cbn [wsink];
      destruct (inner (ws_calls st) l) as [e|] eqn:Hi.
    - destruct l as [|x [|y l']]; cbn.
      + intros e' [= <-]. eauto.
      + destruct (limit_hit k (S (ws_count st))); cbn; intros e' He.
        * destruct (ws_last st) eqn:Hl; inversion He; subst; eauto.
        * inversion He; subst; eauto.
      + exact Hst.
    - cbn. intros e' He. destruct (sc && (ws_depth st =? 0)); [discriminate | eauto].
    - destruct l as [|x [|y l']].
      + cbn. intros e' [= <-]. eauto.
      + destruct (limit_hit k (S (ws_count st))); cbn; intros e' He.
        * destruct (ws_last st) eqn:Hl; inversion He; subst; eauto.
        * inversion He; subst; eauto.
      + set (l0 := x :: y :: l'). set (sp := Nat.div2 (length l0)).
        set (st1 := {| ws_last := ws_last st; ws_depth := S (ws_depth st); ws_count := ws_count st;
                       ws_calls := S (ws_calls st); ws_log := ws_log st |}).
        assert (H1 : last_ok st1) by exact Hst.
        pose proof (IH (firstn sp l0) st1 H1) as P1.
        destruct (wsink inner sc k f (firstn sp l0) st1) as [r1 st2]. cbn [snd] in P1.
        destruct r1; [apply IH; exact P1 | exact P1].
    - cbn. intros e' He. destruct (sc && (ws_depth st =? 0)); [discriminate | eauto].
  Qed.

  Lemma sync_pages_last_ok v cfg src : forall fuel tok killed cnt ws,
    last_ok ws ->
    let '(e, _, _, ws') := sync_pages inner v cfg fuel src tok killed cnt ws in
    last_ok ws' /\ (forall c, e = PInner c -> Pc c).
  Proof.
    induction fuel as [|f IH]; intros tok killed cnt ws Hws; cbn [sync_pages].
    - split; [exact Hws | discriminate].
    - destruct killed; [split; [exact Hws | discriminate]|].
      destruct (firstn (c_batch cfg) (skipn tok src)) as [|p0 page'] eqn:Hpage; [split; [exact Hws | discriminate]|].
      unfold sink_call. destruct (c_log cfg).
      + pose proof (wsink_last_ok (success_clears v) (c_maxItems cfg) (length (p0 :: page')) (p0 :: page') ws Hws) as P.
        destruct (wsink inner (success_clears v) (c_maxItems cfg) (length (p0 :: page')) (p0 :: page') ws) as [r ws1].
        cbn [snd] in P. destruct r; [apply IH; exact P | split; [exact P | discriminate]].
      + destruct (inner (ws_calls ws) (p0 :: page')) as [e|] eqn:Hi.
        * split; [exact Hws | intros c [= <-]; eauto].
        * apply IH. exact Hws.
  Qed.

  Lemma run_last_ok v cfg src (st : jstate E) :
    last_ok (j_ws st) ->
    last_ok (j_ws (snd (run inner v cfg src st)))
    /\ (forall c, r_err (fst (run inner v cfg src st)) = PInner c -> Pc c).
  Proof.
    intros Hst. unfold run.
    set (ws0 := {| ws_last := _; ws_depth := _; ws_count := _; ws_calls := _; ws_log := [] |}).
    assert (H0 : last_ok ws0).
    { subst ws0. intros e. cbn. destruct (c_log cfg); [destruct (j_wrapped st)|]; cbn; try apply Hst.
      destruct (reset_clears v); [discriminate | apply Hst]. }
    pose proof (sync_pages_last_ok v cfg src (S (length src)) (j_tok st) false 0 ws0 H0) as P.
    destruct (sync_pages inner v cfg (S (length src)) src (j_tok st) false 0 ws0) as [[[e cnt] tok] ws].
    destruct P as [Hws He].
    destruct e; cbn.
    - destruct (j_wrapped st || c_log cfg); [destruct (ws_last ws) eqn:Hl|]; cbn;
        (split; [exact Hws | try discriminate]). intros c [= <-]. eauto.
    - split; [exact Hws | exact He].
    - destruct (j_wrapped st || c_log cfg); [destruct (ws_last ws) eqn:Hl|]; cbn;
        (split; [exact Hws | try discriminate]). intros c [= <-]. eauto.
    - split; [exact Hws | discriminate].
  Qed.
End LastInv.

(** ** burst: re-executions on top of the external runs are bounded by the retries *)
Section BurstProofs.
  Variable inner : nat -> list Z -> option Z.

  Theorem burst_len_bound v cfg full : forall fuel n ext queued (st : jstate Z),
    (Z.of_nat (length (burst inner v cfg full fuel n ext queued st))
     <= Z.of_nat ext + Z.of_nat queued + Z.max 0 (j_retries st))%Z.
  Proof.
    induction fuel as [|f IH]; intros n ext queued st; [cbn; lia|].
    cbn [burst].
    pose proof (run_any_pending inner v cfg full (zseq 0 n) st) as P.
    destruct ext as [|e].
    - destruct queued as [|q]; [cbn; lia|].
      destruct (run_any inner v cfg full (zseq 0 n) st) as [r st'] eqn:R. cbn [fst snd] in P.
      destruct P as (Hret & Hp & Hnp). cbn [length].
      destruct (r_pending r) eqn:Hpend.
      + destruct (Hp eq_refl) as (_ & Hpos & Hdec & _). specialize (IH n 0 (S q) st'). lia.
      + specialize (Hnp eq_refl). specialize (IH n 0 q st'). lia.
    - destruct (run_any inner v cfg full (zseq 0 n) st) as [r st'] eqn:R. cbn [fst snd] in P.
      destruct P as (Hret & Hp & Hnp). cbn [length].
      destruct (r_pending r) eqn:Hpend.
      + destruct (Hp eq_refl) as (_ & Hpos & Hdec & _). specialize (IH n e (S queued) st'). lia.
      + specialize (Hnp eq_refl). specialize (IH n e queued st'). lia.
  Qed.

  (** a chain that is not cut off by its fuel ends with a run that schedules nothing *)
  Lemma chain_last v cfg full : forall fuel n adds crons (st : jstate Z),
    (Z.of_nat crons + Z.max 0 (j_retries st) < Z.of_nat fuel)%Z ->
    exists rs r, chain inner v cfg full fuel n adds crons st = rs ++ [r] /\ r_pending r = false.
  Proof.
    induction fuel as [|f IH]; intros n adds crons st Hf; [lia|].
    cbn [chain].
    pose proof (run_any_pending inner v cfg full (zseq 0 n) st) as P.
    destruct (run_any inner v cfg full (zseq 0 n) st) as [r st'] eqn:R. cbn [fst snd] in P.
    destruct P as (Hret & Hp & Hnp).
    destruct (r_pending r) eqn:Hpend.
    - destruct (Hp eq_refl) as (_ & Hpos & Hdec & _).
      destruct (IH (match adds with a :: _ => n + a | [] => n end) (tl adds) crons st' ltac:(lia)) as (rs & r' & -> & Hr').
      exists (r :: rs), r'. auto.
    - specialize (Hnp eq_refl). destruct crons as [|c].
      + exists [], r. auto.
      + destruct (IH (match adds with a :: _ => n + a | [] => n end) (tl adds) c st' ltac:(lia)) as (rs & r' & -> & Hr').
        exists (r :: rs), r'. auto.
  Qed.
End BurstProofs.
